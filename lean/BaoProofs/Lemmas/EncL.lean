import BaoModel.Codec
import BaoProofs.Lemmas.HashCF
import BaoProofs.Lemmas.C01Inv

/-!
# The validating encoder, one plan item at a time (C05)

* `encodeSelectedRec_hash` – the hash returned by `encode_selected_rec` is `hashSubtree` of its data
* `encStep`, `loop_cons`   – `encodeValidatedLoop` is the iteration of a non-recursive step
* `step_parent_cont`, `step_leaf_cont`, `step_stop` – what a step can do
* `step_rel`, `loop_rel`   – two stores, same plan, same pending-hash stack: prefix relation
* `step_frame`, `loop_frame` – stores that agree on what the plan reads give identical runs
-/

namespace Bao.C05
variable {H : Type}

theorem encodeSelectedRec_hash (hf : HashFns H) :
    ∀ (L start : Nat) (data : List UInt8) (isRoot : Bool) (query : Ranges) (minLevel : Nat)
      (emit : Bool), L ≤ 64 → data.length ≤ 2 ^ L * 1024 →
      (encodeSelectedRec hf L start data isRoot query minLevel emit).1
        = hashSubtree hf start data isRoot := by
  intro L
  induction L with
  | zero => intro start data isRoot query minLevel emit _ _; rfl
  | succ L ih =>
    intro start data isRoot query minLevel emit hL hlen
    unfold encodeSelectedRec
    split
    · rfl
    · split
      · rename_i h2
        exact ih start data isRoot query minLevel emit (by omega) (by simpa [chunkLen] using h2)
      · rename_i h1 h2
        simp only [chunkLen] at h1 h2 ⊢
        have hp : 2 ^ (L + 1) * 1024 = 2 ^ L * 1024 + 2 ^ L * 1024 := by rw [Nat.pow_succ]; omega
        have ht : (data.take (2 ^ L * 1024)).length ≤ 2 ^ L * 1024 := by
          rw [List.length_take]; omega
        have hd : (data.drop (2 ^ L * 1024)).length ≤ 2 ^ L * 1024 := by
          rw [List.length_drop]; omega
        rw [ih _ _ _ _ _ _ (by omega) ht, ih _ _ _ _ _ _ (by omega) hd]
        exact (hashSubtree_parent (by omega) hlen (by omega) start isRoot).symm

/-- outcome of one plan item of the validating encoder -/
inductive StepRes (H : Type)
  | stop (t : EncEnd)
  | cont (stack : List H) (emit : List UInt8)

/-- the children pushed after a parent: right first, so that left is popped first -/
def pushLR (left right : Bool) (l r : H) (stack : List H) : List H :=
  let stack := if right then r :: stack else stack
  if left then l :: stack else stack

/-- hash and bytes to write of a leaf item -/
def leafAW (hf : HashFns H) (bs start : Nat) (buf : List UInt8) (isRoot : Bool) (ranges : Ranges) :
    H × List UInt8 :=
  if !Ranges.isAll ranges then encodeSelectedRec hf recFuel start buf isRoot ranges bs true
  else (hashSubtree hf start buf isRoot, buf)

def encStep (hf : HashFns H) [BEq H] (fl : Flavour) (data : List UInt8) (ob : Store H) :
    Chunk → List H → StepRes H
  | .parent node isRoot left right _, stack =>
    match ob.load hf fl node with
    | .err e => .stop (.err (.io e))
    | .panic => .stop .panic
    | .ok none => .stop .panic
    | .ok (some (l, r)) =>
      match stack with
      | [] => .stop .panic
      | expected :: stack =>
        if hf.parentCv l r isRoot != expected then .stop (.err (.parentHashMismatch node))
        else .cont (pushLR left right l r stack) (hf.toBytes l ++ hf.toBytes r)
  | .leaf start size isRoot ranges, stack =>
    match stack with
    | [] => .stop .panic
    | expected :: stack =>
      match readExactAt data (toBytes start) size with
      | .error e => .stop (.err (.io e))
      | .ok buf =>
        if (leafAW hf ob.tree.bs start buf isRoot ranges).1 != expected then
          .stop (.err (.leafHashMismatch start))
        else .cont stack (leafAW hf ob.tree.bs start buf isRoot ranges).2

theorem loop_cons (hf : HashFns H) [BEq H] (fl : Flavour) (data : List UInt8) (ob : Store H)
    (c : Chunk) (plan : List Chunk) (stack : List H) (out : List UInt8) :
    encodeValidatedLoop hf fl data ob (c :: plan) stack out =
      match encStep hf fl data ob c stack with
      | .stop t => ⟨out, t⟩
      | .cont st em => encodeValidatedLoop hf fl data ob plan st (out ++ em) := by
  cases c with
  | parent node isRoot left right rs =>
    simp only [encodeValidatedLoop, encStep]
    cases ob.load hf fl node with
    | err e => rfl
    | panic => rfl
    | ok o =>
      cases o with
      | none => rfl
      | some p =>
        obtain ⟨l, r⟩ := p
        cases stack with
        | nil => rfl
        | cons expected stack =>
          simp only [pushLR]
          split <;> simp [List.append_assoc]
  | leaf start size isRoot rs =>
    simp only [encodeValidatedLoop, encStep]
    cases stack with
    | nil => rfl
    | cons expected stack =>
      simp only
      cases readExactAt data (toBytes start) size with
      | error e => rfl
      | ok buf =>
        simp only [leafAW]
        split <;> split <;> simp_all

theorem loop_nil (hf : HashFns H) [BEq H] (fl : Flavour) (data : List UInt8) (ob : Store H)
    (stack : List H) (out : List UInt8) :
    encodeValidatedLoop hf fl data ob [] stack out = ⟨out, .ok⟩ := by
  simp [encodeValidatedLoop]

section step
variable (hf : HashFns H) [BEq H] (fl : Flavour) (data : List UInt8) (ob : Store H)

theorem step_parent_cont {node : Nat} {isRoot left right : Bool} {rs : Ranges} {stack st : List H}
    {em : List UInt8} :
    encStep hf fl data ob (.parent node isRoot left right rs) stack = .cont st em ↔
      ∃ l r e s, ob.load hf fl node = .ok (some (l, r)) ∧ stack = e :: s ∧
        (hf.parentCv l r isRoot != e) = false ∧ st = pushLR left right l r s ∧
        em = hf.toBytes l ++ hf.toBytes r := by
  constructor
  · intro h
    simp only [encStep] at h
    split at h
    · cases h
    · cases h
    · cases h
    · rename_i l r hload
      split at h
      · cases h
      · rename_i e s
        split at h
        · cases h
        · rename_i hne
          injection h with h1 h2
          exact ⟨l, r, e, s, hload, rfl, by simpa using hne, h1.symm, h2.symm⟩
  · rintro ⟨l, r, e, s, hload, rfl, hne, rfl, rfl⟩
    simp only [encStep, hload, hne]
    simp

theorem step_leaf_cont {start size : Nat} {isRoot : Bool} {rs : Ranges} {stack st : List H}
    {em : List UInt8} :
    encStep hf fl data ob (.leaf start size isRoot rs) stack = .cont st em ↔
      ∃ e buf, stack = e :: st ∧ readExactAt data (toBytes start) size = .ok buf ∧
        ((leafAW hf ob.tree.bs start buf isRoot rs).1 != e) = false ∧
        em = (leafAW hf ob.tree.bs start buf isRoot rs).2 := by
  constructor
  · intro h
    simp only [encStep] at h
    split at h
    · cases h
    · rename_i e s
      split at h
      · cases h
      · rename_i buf hread
        split at h
        · cases h
        · rename_i hne
          injection h with h1 h2
          subst h1
          exact ⟨e, buf, rfl, hread, by simpa using hne, h2.symm⟩
  · rintro ⟨e, buf, rfl, hread, hne, rfl⟩
    simp only [encStep, hread, hne]
    simp

/-- how a step can stop: never with `.ok` -/
theorem step_stop {c : Chunk} {stack : List H} {t : EncEnd}
    (h : encStep hf fl data ob c stack = .stop t) :
    (∃ node ir lf rf rs, c = .parent node ir lf rf rs ∧
      ((∃ e, ob.load hf fl node = .err e ∧ t = .err (.io e)) ∨
       (ob.load hf fl node = .panic ∧ t = .panic) ∨
       (ob.load hf fl node = .ok none ∧ t = .panic) ∨
       (stack = [] ∧ t = .panic) ∨
       (∃ l r e s, ob.load hf fl node = .ok (some (l, r)) ∧ stack = e :: s ∧
          (hf.parentCv l r ir != e) = true ∧ t = .err (.parentHashMismatch node)))) ∨
    (∃ start size ir rs, c = .leaf start size ir rs ∧
      ((stack = [] ∧ t = .panic) ∨
       (∃ e, readExactAt data (toBytes start) size = .error e ∧ stack ≠ [] ∧ t = .err (.io e)) ∨
       (∃ e s buf, stack = e :: s ∧ readExactAt data (toBytes start) size = .ok buf ∧
          ((leafAW hf ob.tree.bs start buf ir rs).1 != e) = true ∧
          t = .err (.leafHashMismatch start)))) := by
  cases c with
  | parent node ir lf rf rs =>
    left
    refine ⟨node, ir, lf, rf, rs, rfl, ?_⟩
    simp only [encStep] at h
    split at h
    · rename_i e he
      injection h with h; exact .inl ⟨e, he, h.symm⟩
    · rename_i he
      injection h with h; exact .inr (.inl ⟨he, h.symm⟩)
    · rename_i he
      injection h with h; exact .inr (.inr (.inl ⟨he, h.symm⟩))
    · rename_i l r hload
      split at h
      · injection h with h; exact .inr (.inr (.inr (.inl ⟨rfl, h.symm⟩)))
      · rename_i e s
        split at h
        · rename_i hne
          injection h with h
          exact .inr (.inr (.inr (.inr ⟨l, r, e, s, hload, rfl, hne, h.symm⟩)))
        · cases h
  | leaf start size ir rs =>
    right
    refine ⟨start, size, ir, rs, rfl, ?_⟩
    simp only [encStep] at h
    split at h
    · injection h with h; exact .inl ⟨rfl, h.symm⟩
    · rename_i e s
      split at h
      · rename_i err herr
        injection h with h; exact .inr (.inl ⟨err, herr, by simp, h.symm⟩)
      · rename_i buf hread
        split at h
        · rename_i hne
          injection h with h
          exact .inr (.inr ⟨e, s, buf, rfl, hread, hne, h.symm⟩)
        · cases h

theorem step_stop_ne_ok {c : Chunk} {stack : List H} {t : EncEnd}
    (h : encStep hf fl data ob c stack = .stop t) : t ≠ .ok := by
  rcases step_stop hf fl data ob h with ⟨_, _, _, _, _, _, h⟩ | ⟨_, _, _, _, _, h⟩
  · rcases h with ⟨_, _, rfl⟩ | ⟨_, rfl⟩ | ⟨_, rfl⟩ | ⟨_, rfl⟩ | ⟨_, _, _, _, _, _, _, rfl⟩ <;> simp
  · rcases h with ⟨_, rfl⟩ | ⟨_, _, _, rfl⟩ | ⟨_, _, _, _, _, _, rfl⟩ <;> simp

end step


/-! ## hashes of leaves -/

theorem readExactAt_length {d : List UInt8} {off n : Nat} {buf : List UInt8}
    (h : readExactAt d off n = .ok buf) : buf.length = n ∧ buf.length ≤ d.length := by
  unfold readExactAt at h
  split at h
  · cases h; subst_vars; exact ⟨rfl, Nat.zero_le _⟩
  · split at h
    · cases h
      simp only [List.length_take, List.length_drop]
      omega
    · cases h

theorem leafAW_hash (hf : HashFns H) (bs start : Nat) (buf : List UInt8) (isRoot : Bool)
    (rs : Ranges) (h : buf.length ≤ 2 ^ 64 * 1024) :
    (leafAW hf bs start buf isRoot rs).1 = hashSubtree hf start buf isRoot := by
  unfold leafAW
  split
  · exact encodeSelectedRec_hash hf recFuel start buf isRoot rs bs true (Nat.le_refl _) h
  · rfl

/-! ## agreement of two stores on what a plan reads -/

/-- the two stores return the same thing for the one access plan item `c` makes -/
def AgreeAt (hf : HashFns H) (fl fl₀ : Flavour) (data : List UInt8) (ob : Store H)
    (data₀ : List UInt8) (ob₀ : Store H) : Chunk → Prop
  | .parent node _ _ _ _ => ob.load hf fl node = ob₀.load hf fl₀ node
  | .leaf start size _ _ => readExactAt data (toBytes start) size = readExactAt data₀ (toBytes start) size

section rel
variable {hf : HashFns H} [BEq H] {fl fl₀ : Flavour} {data data₀ : List UInt8} {ob ob₀ : Store H}

theorem step_frame (hbs : ob.tree.bs = ob₀.tree.bs) {c : Chunk}
    (h : AgreeAt hf fl fl₀ data ob data₀ ob₀ c) (stack : List H) :
    encStep hf fl data ob c stack = encStep hf fl₀ data₀ ob₀ c stack := by
  cases c with
  | parent node ir lf rf rs =>
    simp only [AgreeAt] at h
    simp only [encStep, h]
  | leaf start size ir rs =>
    simp only [AgreeAt] at h
    simp only [encStep, h, hbs]

theorem loop_frame (hbs : ob.tree.bs = ob₀.tree.bs) :
    ∀ (plan : List Chunk), (∀ c ∈ plan, AgreeAt hf fl fl₀ data ob data₀ ob₀ c) →
      ∀ (stack : List H) (out : List UInt8),
        encodeValidatedLoop hf fl data ob plan stack out
          = encodeValidatedLoop hf fl₀ data₀ ob₀ plan stack out := by
  intro plan
  induction plan with
  | nil => intro _ stack out; rw [loop_nil, loop_nil]
  | cons c plan ih =>
    intro h stack out
    rw [loop_cons, loop_cons, step_frame hbs (h c (List.mem_cons_self ..))]
    split
    · rfl
    · exact ih (fun c' h' => h c' (List.mem_cons_of_mem _ h')) _ _

theorem loop_out_prefix (hf : HashFns H) (fl : Flavour) (data : List UInt8) (ob : Store H) :
    ∀ (plan : List Chunk) (stack : List H) (out : List UInt8),
      out <+: (encodeValidatedLoop hf fl data ob plan stack out).out := by
  intro plan
  induction plan with
  | nil => intro stack out; rw [loop_nil]; exact List.prefix_refl _
  | cons c plan ih =>
    intro stack out
    rw [loop_cons]
    split
    · exact List.prefix_refl _
    · rename_i st em _
      exact (List.prefix_append out em).trans (ih st (out ++ em))

variable [LawfulBEq H]

/-- **one step, two stores, the same pending-hash stack**: if the step on the reference store
passes its check, the step on the other store either stops, or read the same thing, passes too,
emits the same bytes and leaves the same stack -/
theorem step_rel (cf : CollisionFree hf) (hbs : ob.tree.bs = ob₀.tree.bs)
    (hd : data.length ≤ 2 ^ 64 * 1024) (hd₀ : data₀.length ≤ 2 ^ 64 * 1024)
    {c : Chunk} {stack st : List H} {em : List UInt8}
    (h₀ : encStep hf fl₀ data₀ ob₀ c stack = .cont st em) :
    (∃ t, encStep hf fl data ob c stack = .stop t) ∨
    (encStep hf fl data ob c stack = .cont st em ∧ AgreeAt hf fl fl₀ data ob data₀ ob₀ c) := by
  cases hs : encStep hf fl data ob c stack with
  | stop t => exact .inl ⟨t, rfl⟩
  | cont st' em' =>
    right
    cases c with
    | parent node ir lf rf rs =>
      obtain ⟨l₀, r₀, e₀, s₀, hload₀, hst₀, hne₀, rfl, rfl⟩ := (step_parent_cont hf fl₀ data₀ ob₀).1 h₀
      obtain ⟨l, r, e, s, hload, hst, hne, rfl, rfl⟩ := (step_parent_cont hf fl data ob).1 hs
      rw [hst₀] at hst
      injection hst with he hs'
      subst he hs'
      have h1 : hf.parentCv l r ir = e₀ := by simpa using hne
      have h2 : hf.parentCv l₀ r₀ ir = e₀ := by simpa using hne₀
      obtain ⟨rfl, rfl, _⟩ := cf.parent_inj (h1.trans h2.symm)
      exact ⟨rfl, by simp only [AgreeAt, hload, hload₀]⟩
    | leaf start size ir rs =>
      obtain ⟨e₀, buf₀, hst₀, hread₀, hne₀, rfl⟩ := (step_leaf_cont hf fl₀ data₀ ob₀).1 h₀
      obtain ⟨e, buf, hst, hread, hne, rfl⟩ := (step_leaf_cont hf fl data ob).1 hs
      rw [hst₀] at hst
      injection hst with he hs'
      subst he hs'
      have hb := (readExactAt_length hread).2
      have hb₀ := (readExactAt_length hread₀).2
      have h1 : (leafAW hf ob.tree.bs start buf ir rs).1 = e₀ := by simpa using hne
      have h2 : (leafAW hf ob₀.tree.bs start buf₀ ir rs).1 = e₀ := by simpa using hne₀
      rw [leafAW_hash _ _ _ _ _ _ (by omega)] at h1 h2
      obtain ⟨_, rfl, _⟩ := cv_inj cf (h1.trans h2.symm)
      exact ⟨by rw [hbs], by simp only [AgreeAt, hread, hread₀]⟩

/-- the loop on any store emits a prefix of what the loop on a store that runs to `.ok` emits (same
plan, same stack); if it runs to `.ok` itself, it emitted the same bytes and read the same pairs
and leaves -/
theorem loop_rel (cf : CollisionFree hf) (hbs : ob.tree.bs = ob₀.tree.bs)
    (hd : data.length ≤ 2 ^ 64 * 1024) (hd₀ : data₀.length ≤ 2 ^ 64 * 1024) :
    ∀ (plan : List Chunk) (stack : List H) (out : List UInt8),
      (encodeValidatedLoop hf fl₀ data₀ ob₀ plan stack out).terminal = .ok →
      (encodeValidatedLoop hf fl data ob plan stack out).out
        <+: (encodeValidatedLoop hf fl₀ data₀ ob₀ plan stack out).out ∧
      ((encodeValidatedLoop hf fl data ob plan stack out).terminal = .ok →
        (encodeValidatedLoop hf fl data ob plan stack out).out
          = (encodeValidatedLoop hf fl₀ data₀ ob₀ plan stack out).out ∧
        ∀ c ∈ plan, AgreeAt hf fl fl₀ data ob data₀ ob₀ c) := by
  intro plan
  induction plan with
  | nil =>
    intro stack out _
    rw [loop_nil, loop_nil]
    exact ⟨List.prefix_refl _, fun _ => ⟨rfl, by simp⟩⟩
  | cons c plan ih =>
    intro stack out hok
    rw [loop_cons] at hok ⊢
    rw [loop_cons]
    cases h₀ : encStep hf fl₀ data₀ ob₀ c stack with
    | stop t =>
      rw [h₀] at hok
      exact (step_stop_ne_ok hf fl₀ data₀ ob₀ h₀ hok).elim
    | cont st em =>
      rw [h₀] at hok
      simp only at hok ⊢
      rcases step_rel (fl := fl) (data := data) (ob := ob) cf hbs hd hd₀ h₀ with ⟨t, ht⟩ | ⟨hc, hag⟩
      · rw [ht]
        simp only
        refine ⟨(List.prefix_append out em).trans (loop_out_prefix hf fl₀ data₀ ob₀ plan st _), ?_⟩
        intro h
        exact (step_stop_ne_ok hf fl data ob ht h).elim
      · rw [hc]
        simp only
        obtain ⟨h1, h2⟩ := ih st (out ++ em) hok
        refine ⟨h1, fun hk => ?_⟩
        obtain ⟨h3, h4⟩ := h2 hk
        refine ⟨h3, ?_⟩
        intro c' hc'
        rcases List.mem_cons.1 hc' with rfl | hc'
        · exact hag
        · exact h4 c' hc'

end rel


/-! ## the emitted bytes of a step are not empty -/

theorem selectedRec_out_ne (hf : HashFns H) (hb : ∀ h, hf.toBytes h ≠ []) {rs : Ranges}
    (hne : rs ≠ []) (hall : Ranges.isAll rs = false) (bs : Nat) :
    ∀ (L start : Nat) (data : List UInt8) (isRoot : Bool), data ≠ [] →
      (encodeSelectedRec hf L start data isRoot rs bs true).2 ≠ [] := by
  have he : rs.isEmpty = false := by cases rs <;> simp_all
  intro L
  induction L with
  | zero =>
    intro start data isRoot hd
    simp only [encodeSelectedRec, Ranges.isEmpty, he]
    simpa using hd
  | succ L ih =>
    intro start data isRoot hd
    unfold encodeSelectedRec
    split
    · simp only [Ranges.isEmpty, he]
      simpa using hd
    · split
      · exact ih start data isRoot hd
      · simp only [Ranges.isEmpty, he, hall]
        simp [hb]

theorem leafAW_out_ne (hf : HashFns H) (hb : ∀ h, hf.toBytes h ≠ []) (bs start : Nat)
    {buf : List UInt8} (isRoot : Bool) {rs : Ranges} (hne : rs ≠ []) (hbuf : buf ≠ []) :
    (leafAW hf bs start buf isRoot rs).2 ≠ [] := by
  unfold leafAW
  split
  · rename_i h
    exact selectedRec_out_ne hf hb hne (by simpa using h) bs recFuel start buf isRoot hbuf
  · exact hbuf

/-- leaf items carry a non-empty query -/
def LeafNE : Chunk → Prop
  | .leaf _ _ _ rs => rs ≠ []
  | .parent .. => True

section strict
variable {hf : HashFns H} [BEq H] [LawfulBEq H] {fl fl₀ : Flavour} {data data₀ : List UInt8}
  {ob ob₀ : Store H}

omit [LawfulBEq H] in
/-- if the step on the reference store continues and the step on the other store stops, the
reference store emits at least one byte there -/
theorem step_emit_ne (hb : ∀ h, hf.toBytes h ≠ []) (hbs : ob.tree.bs = ob₀.tree.bs)
    {c : Chunk} (hc : LeafNE c) {stack st : List H} {em : List UInt8} {t : EncEnd}
    (h₀ : encStep hf fl₀ data₀ ob₀ c stack = .cont st em)
    (h : encStep hf fl data ob c stack = .stop t) : em ≠ [] := by
  cases c with
  | parent node ir lf rf rs =>
    obtain ⟨l₀, r₀, e₀, s₀, _, _, _, _, rfl⟩ := (step_parent_cont hf fl₀ data₀ ob₀).1 h₀
    simp [hb]
  | leaf start size ir rs =>
    obtain ⟨e₀, buf₀, hst₀, hread₀, hne₀, rfl⟩ := (step_leaf_cont hf fl₀ data₀ ob₀).1 h₀
    apply leafAW_out_ne hf hb _ _ _ hc
    intro hnil
    subst hnil
    have hsz : size = 0 := ((readExactAt_length hread₀).1).symm
    subst hsz
    have hread : readExactAt data (toBytes start) 0 = .ok [] := by simp [readExactAt]
    rcases step_stop hf fl data ob h with ⟨_, _, _, _, _, hc', _⟩ | ⟨_, _, _, _, hc', h'⟩
    · cases hc'
    · injection hc' with h1 h2 h3 h4
      subst h1 h2 h3 h4
      rcases h' with ⟨hs, _⟩ | ⟨e, he, _⟩ | ⟨e, s, buf, hs, hr, hne, _⟩
      · rw [hst₀] at hs; cases hs
      · rw [hread] at he; cases he
      · rw [hread] at hr
        cases hr
        rw [hst₀] at hs
        injection hs with h1 h2
        subst h1 h2
        rw [hbs] at hne
        rw [hne] at hne₀
        cases hne₀

/-- the run that stops early is a PROPER prefix -/
theorem loop_rel_strict (cf : CollisionFree hf) (hb : ∀ h, hf.toBytes h ≠ [])
    (hbs : ob.tree.bs = ob₀.tree.bs)
    (hd : data.length ≤ 2 ^ 64 * 1024) (hd₀ : data₀.length ≤ 2 ^ 64 * 1024) :
    ∀ (plan : List Chunk), (∀ c ∈ plan, LeafNE c) → ∀ (stack : List H) (out : List UInt8),
      (encodeValidatedLoop hf fl₀ data₀ ob₀ plan stack out).terminal = .ok →
      (encodeValidatedLoop hf fl data ob plan stack out).terminal ≠ .ok →
      (encodeValidatedLoop hf fl data ob plan stack out).out.length
        < (encodeValidatedLoop hf fl₀ data₀ ob₀ plan stack out).out.length := by
  intro plan
  induction plan with
  | nil =>
    intro _ stack out _ h
    rw [loop_nil] at h
    exact (h rfl).elim
  | cons c plan ih =>
    intro hne stack out hok hnok
    rw [loop_cons] at hok hnok ⊢
    rw [loop_cons]
    cases h₀ : encStep hf fl₀ data₀ ob₀ c stack with
    | stop t =>
      rw [h₀] at hok
      exact (step_stop_ne_ok hf fl₀ data₀ ob₀ h₀ hok).elim
    | cont st em =>
      rw [h₀] at hok
      simp only at hok ⊢
      rcases step_rel (fl := fl) (data := data) (ob := ob) cf hbs hd hd₀ h₀ with ⟨t, ht⟩ | ⟨hc, _⟩
      · rw [ht]
        simp only
        have h1 := (loop_out_prefix hf fl₀ data₀ ob₀ plan st (out ++ em)).length_le
        have h2 := step_emit_ne hb hbs (hne c (List.mem_cons_self ..)) h₀ ht
        have h3 : 0 < em.length := List.length_pos_iff.2 h2
        rw [List.length_append] at h1
        omega
      · rw [hc] at hnok ⊢
        exact ih (fun c' h' => hne c' (List.mem_cons_of_mem _ h')) st (out ++ em) hok hnok

end strict


/-! ## where a run can stop -/

/-- height of the pending-hash stack along a plan (`none` = underflow); the same function as
`Bao.PlanPre.stackRun` -/
def heightRun : Nat → List Chunk → Option Nat
  | h, [] => some h
  | h, .parent _ _ l r _ :: rest =>
    if h = 0 then none else heightRun (h - 1 + (if l then 1 else 0) + (if r then 1 else 0)) rest
  | h, .leaf _ _ _ _ :: rest => if h = 0 then none else heightRun (h - 1) rest

theorem pushLR_length (left right : Bool) (l r : H) (s : List H) :
    (pushLR left right l r s).length
      = s.length + (if left then 1 else 0) + (if right then 1 else 0) := by
  cases left <;> cases right <;> simp [pushLR]

section terminal
variable (hf : HashFns H) [BEq H] (fl : Flavour) (data : List UInt8) (ob : Store H)

/-- a run ends `.ok` or with the stop of one of its steps -/
theorem loop_terminal : ∀ (plan : List Chunk) (stack : List H) (out : List UInt8),
    (encodeValidatedLoop hf fl data ob plan stack out).terminal = .ok ∨
    ∃ c ∈ plan, ∃ st, encStep hf fl data ob c st
      = .stop (encodeValidatedLoop hf fl data ob plan stack out).terminal := by
  intro plan
  induction plan with
  | nil => intro stack out; rw [loop_nil]; exact .inl rfl
  | cons c plan ih =>
    intro stack out
    rw [loop_cons]
    cases hs : encStep hf fl data ob c stack with
    | stop t => exact .inr ⟨c, List.mem_cons_self .., stack, hs⟩
    | cont st em =>
      simp only
      rcases ih st (out ++ em) with h | ⟨c', hc', st', h⟩
      · exact .inl h
      · exact .inr ⟨c', List.mem_cons_of_mem _ hc', st', h⟩

/-- … and if the plan keeps the stack discipline, the stack is not empty at that step -/
theorem loop_terminal_height : ∀ (plan : List Chunk) (stack : List H) (out : List UInt8) (r : Nat),
    heightRun stack.length plan = some r →
    (encodeValidatedLoop hf fl data ob plan stack out).terminal = .ok ∨
    ∃ c ∈ plan, ∃ st, st ≠ [] ∧ encStep hf fl data ob c st
      = .stop (encodeValidatedLoop hf fl data ob plan stack out).terminal := by
  intro plan
  induction plan with
  | nil => intro stack out r _; rw [loop_nil]; exact .inl rfl
  | cons c plan ih =>
    intro stack out r hr
    have hne : stack ≠ [] := by
      intro h
      subst h
      cases c <;> simp [heightRun] at hr
    rw [loop_cons]
    cases hs : encStep hf fl data ob c stack with
    | stop t => exact .inr ⟨c, List.mem_cons_self .., stack, hne, hs⟩
    | cont st em =>
      simp only
      have hr' : heightRun st.length plan = some r := by
        cases c with
        | parent node ir lf rf rs =>
          obtain ⟨l, r', e, s, _, rfl, _, rfl, _⟩ := (step_parent_cont hf fl data ob).1 hs
          simp only [heightRun, List.length_cons, Nat.add_one_ne_zero, if_false,
            Nat.add_sub_cancel] at hr
          rw [pushLR_length]
          exact hr
        | leaf start size ir rs =>
          obtain ⟨e, buf, rfl, _, _, _⟩ := (step_leaf_cont hf fl data ob).1 hs
          simpa [heightRun] using hr
      rcases ih st (out ++ em) r hr' with h | ⟨c', hc', st', h1, h⟩
      · exact .inl h
      · exact .inr ⟨c', List.mem_cons_of_mem _ hc', st', h1, h⟩

end terminal


/-! ## leaf items of the model's plan iterator carry non-empty queries -/

theorem next_leafNE {it it' : PrePartial} {c : Chunk} (h : it.next = .item c it')
    (hb : ∀ c ∈ it.buffer, LeafNE c) : LeafNE c ∧ ∀ c ∈ it'.buffer, LeafNE c := by
  unfold PrePartial.next at h
  split at h
  · rename_i c0 rest hbuf
    injection h with h1 h2
    subst h1 h2
    rw [hbuf] at hb
    exact ⟨hb _ (List.mem_cons_self ..), fun c hc => hb c (List.mem_cons_of_mem _ hc)⟩
  · rename_i hbuf
    split at h
    · cases h
    · rename_i sh ranges stack hst
      split at h
      · cases h
      · rename_i hne
        have hne' : ranges ≠ [] := by
          intro h0; subst h0; simp at hne
        simp only at h
        split at h
        · injection h with h1 h2
          subst h1 h2
          exact ⟨hne', by simp [hbuf]⟩
        · split at h
          · split at h
            · cases h
            · split at h
              · cases h
              · injection h with h1 h2
                subst h1 h2
                exact ⟨trivial, by simp [hbuf]⟩
          · split at h
            · injection h with h1 h2
              subst h1 h2
              exact ⟨hne', by simp [hbuf]⟩
            · injection h with h1 h2
              subst h1 h2
              refine ⟨trivial, ?_⟩
              intro c hc
              simp only at hc
              generalize (Ranges.splitNode ranges (Node.subBs sh it.tree.bs)) = lr at hc
              obtain ⟨l, r⟩ := lr
              simp only at hc
              have nl : ¬ l.isEmpty = true → l ≠ [] := by intro h h0; subst h0; simp at h
              have nr : ¬ r.isEmpty = true → r ≠ [] := by intro h h0; subst h0; simp at h
              by_cases hl : l.isEmpty = true <;> by_cases hr : r.isEmpty = true <;>
                simp only [hl, hr, if_true, if_false, List.mem_cons, List.not_mem_nil, or_false,
                  Bool.false_eq_true] at hc <;>
                (try rcases hc with rfl | rfl) <;> (try subst hc) <;>
                first | exact nl hl | exact nr hr

theorem run_leafNE : ∀ (fuel : Nat) (it : PrePartial) (plan : List Chunk),
    PrePartial.run fuel it = some plan → (∀ c ∈ it.buffer, LeafNE c) → ∀ c ∈ plan, LeafNE c := by
  intro fuel
  induction fuel with
  | zero => intro it plan h _; simp [PrePartial.run] at h; subst h; simp
  | succ fuel ih =>
    intro it plan h hb
    unfold PrePartial.run at h
    split at h
    · cases h; simp
    · cases h
    · rename_i c it' hnext
      obtain ⟨h1, h2⟩ := next_leafNE hnext hb
      cases hr : PrePartial.run fuel it' with
      | none => rw [hr] at h; cases h
      | some p =>
        rw [hr] at h
        cases h
        intro c' hc'
        rcases List.mem_cons.1 hc' with rfl | hc'
        · exact h1
        · exact ih it' p hr h2 c' hc'

theorem prePartialChunks_leafNE {t : Tree} {q : Ranges} {ml : Nat} {plan : List Chunk}
    (h : t.prePartialChunks q ml = some plan) : ∀ c ∈ plan, LeafNE c :=
  run_leafNE _ _ plan h (by simp [PrePartial.new])


/-! ## a run that passes all checks against the root of a blob reads that blob -/

/-- what plan item `c` reads from the store is the true datum of blob `d` -/
def ReadTrue (hf : HashFns H) (fl : Flavour) (data : List UInt8) (ob : Store H) (d : List UInt8) :
    Chunk → Prop
  | .parent node _ _ _ _ =>
    ∃ l r, ob.load hf fl node = .ok (some (l, r)) ∧ C01.TruePair hf d l r
  | .leaf start size _ _ =>
    ∃ buf, readExactAt data (toBytes start) size = .ok buf ∧ C01.TrueLeaf d (toBytes start) buf

section readtrue
variable {hf : HashFns H} [BEq H] [LawfulBEq H] {fl : Flavour} {data : List UInt8} {ob : Store H}
  {d : List UInt8}

theorem step_true (cf : CollisionFree hf) (hd : d.length ≤ 2 ^ 64 * 1024)
    (hdata : data.length ≤ 2 ^ 64 * 1024) {c : Chunk} {stack st : List H} {em : List UInt8}
    (hs : C01.StackOk hf d stack) (h : encStep hf fl data ob c stack = .cont st em) :
    ReadTrue hf fl data ob d c ∧ C01.StackOk hf d st := by
  cases c with
  | parent node ir lf rf rs =>
    obtain ⟨l, r, e, s, hload, rfl, hne, rfl, rfl⟩ := (step_parent_cont hf fl data ob).1 h
    have heq : e = hf.parentCv l r ir := by
      have : hf.parentCv l r ir = e := by simpa using hne
      exact this.symm
    obtain ⟨hp, hl, hr⟩ := C01.parent_check cf hd (hs _ (List.mem_cons_self ..)) heq
    exact ⟨⟨l, r, hload, hp⟩,
      C01.StackOk.push2 (fun x hx => hs x (List.mem_cons_of_mem _ hx)) hl hr _ _⟩
  | leaf start size ir rs =>
    obtain ⟨e, buf, rfl, hread, hne, rfl⟩ := (step_leaf_cont hf fl data ob).1 h
    have hb := (readExactAt_length hread).2
    have heq : e = hashSubtree hf start buf ir := by
      have : (leafAW hf ob.tree.bs start buf ir rs).1 = e := by simpa using hne
      rw [leafAW_hash _ _ _ _ _ _ (by omega)] at this
      exact this.symm
    exact ⟨⟨buf, hread, C01.leaf_check cf (hs _ (List.mem_cons_self ..)) heq⟩,
      fun x hx => hs x (List.mem_cons_of_mem _ hx)⟩

theorem loop_true (cf : CollisionFree hf) (hd : d.length ≤ 2 ^ 64 * 1024)
    (hdata : data.length ≤ 2 ^ 64 * 1024) :
    ∀ (plan : List Chunk) (stack : List H) (out : List UInt8), C01.StackOk hf d stack →
      (encodeValidatedLoop hf fl data ob plan stack out).terminal = .ok →
      ∀ c ∈ plan, ReadTrue hf fl data ob d c := by
  intro plan
  induction plan with
  | nil => intro _ _ _ _ c hc; cases hc
  | cons c plan ih =>
    intro stack out hs hok
    rw [loop_cons] at hok
    cases hst : encStep hf fl data ob c stack with
    | stop t =>
      rw [hst] at hok
      exact (step_stop_ne_ok hf fl data ob hst hok).elim
    | cont st em =>
      rw [hst] at hok
      obtain ⟨h1, h2⟩ := step_true cf hd hdata hs hst
      intro c' hc'
      rcases List.mem_cons.1 hc' with rfl | hc'
      · exact h1
      · exact ih st (out ++ em) h2 hok c' hc'

end readtrue


/-! ## the whole encoder -/

/-- the plan `encode_ranges_validated` walks -/
def planOf (ob : Store H) (q : Ranges) : Option (List Chunk) :=
  ob.tree.prePartialChunks (Ranges.truncate q ob.tree.size) 0

theorem planOf_nil (ob : Store H) : planOf ob [] = some [] := by
  simp [planOf, Ranges.truncate, Tree.prePartialChunks, PrePartial.fuelFor, PrePartial.new,
    PrePartial.run, PrePartial.next]

/-- `encode_ranges_validated` is the loop on the plan (the early return of the sync flavour for the
empty query is what the loop does on the empty plan) -/
theorem validated_eq_loop (hf : HashFns H) [BEq H] (fl : Flavour) (data : List UInt8)
    (ob : Store H) (q : Ranges) :
    encodeRangesValidated hf fl data ob q =
      match planOf ob q with
      | none => ⟨[], .panic⟩
      | some plan => encodeValidatedLoop hf fl data ob plan [ob.root] [] := by
  unfold encodeRangesValidated
  split
  · rename_i h
    have hq : q = [] := by
      simp only [Bool.and_eq_true] at h
      cases q with
      | nil => rfl
      | cons a b => simp at h
    subst hq
    rw [planOf_nil]
    simp only [loop_nil]
  · rfl

theorem load_mem_ne_err (hf : HashFns H) (fl : Flavour) (ob : Store H) (node : Nat)
    (hk : ob.kind = .preMem ∨ ob.kind = .postMem ∨ ob.kind = .empty) (e : IoErr) :
    ob.load hf fl node ≠ .err e := by
  unfold Store.load
  rcases hk with hk | hk | hk <;> simp only [hk] <;> intro h <;> (repeat' split at h) <;> cases h

theorem readExactAt_ne_error {d : List UInt8} {off n : Nat} (h : off + n ≤ d.length) (e : IoErr) :
    readExactAt d off n ≠ .error e := by
  unfold readExactAt
  intro h'
  split at h'
  · cases h'
  · cases h'


section top
variable {hf : HashFns H} [BEq H] {fl fl₀ : Flavour} {data data₀ : List UInt8} {ob ob₀ : Store H}

omit [BEq H] in
theorem planOf_congr (htree : ob.tree = ob₀.tree) (q : Ranges) : planOf ob q = planOf ob₀ q := by
  simp only [planOf, htree]

/-- stores with the same root and tree that agree on what the plan reads: identical runs -/
theorem validated_frame (htree : ob.tree = ob₀.tree) (hroot : ob.root = ob₀.root) (q : Ranges)
    (h : ∀ plan, planOf ob q = some plan → ∀ c ∈ plan, AgreeAt hf fl fl₀ data ob data₀ ob₀ c) :
    encodeRangesValidated hf fl data ob q = encodeRangesValidated hf fl₀ data₀ ob₀ q := by
  rw [validated_eq_loop, validated_eq_loop, ← planOf_congr htree q]
  cases hp : planOf ob q with
  | none => rfl
  | some plan =>
    simp only
    rw [hroot]
    exact loop_frame (by rw [htree]) plan (h plan hp) _ _

/-- where the whole encoder can stop -/
theorem validated_terminal (hf : HashFns H) (fl : Flavour) (data : List UInt8)
    (ob : Store H) (q : Ranges) :
    (encodeRangesValidated hf fl data ob q).terminal = .ok ∨
    (planOf ob q = none ∧ (encodeRangesValidated hf fl data ob q).terminal = .panic) ∨
    ∃ plan, planOf ob q = some plan ∧ ∃ c ∈ plan, ∃ st, (heightRun 1 plan ≠ none → st ≠ []) ∧
      encStep hf fl data ob c st = .stop (encodeRangesValidated hf fl data ob q).terminal := by
  rw [validated_eq_loop]
  cases hp : planOf ob q with
  | none => exact .inr (.inl ⟨rfl, rfl⟩)
  | some plan =>
    simp only
    cases hh : heightRun 1 plan with
    | none =>
      rcases loop_terminal hf fl data ob plan [ob.root] [] with h | ⟨c, hc, st, h⟩
      · exact .inl h
      · exact .inr (.inr ⟨plan, rfl, c, hc, st, fun h' => (h' hh).elim, h⟩)
    | some r =>
      rcases loop_terminal_height hf fl data ob plan [ob.root] [] r hh with h | ⟨c, hc, st, h1, h⟩
      · exact .inl h
      · exact .inr (.inr ⟨plan, rfl, c, hc, st, fun _ => h1, h⟩)

variable [LawfulBEq H]

/-- the relation between the run on any store and the run on a store (same root, same tree) that
passes all checks -/
theorem validated_rel (cf : CollisionFree hf) (htree : ob.tree = ob₀.tree)
    (hroot : ob.root = ob₀.root) (hd : data.length ≤ 2 ^ 64 * 1024)
    (hd₀ : data₀.length ≤ 2 ^ 64 * 1024) (q : Ranges)
    (hok : (encodeRangesValidated hf fl₀ data₀ ob₀ q).terminal = .ok) :
    ∃ plan, planOf ob q = some plan ∧ planOf ob₀ q = some plan ∧
      (encodeRangesValidated hf fl data ob q).out <+: (encodeRangesValidated hf fl₀ data₀ ob₀ q).out ∧
      ((encodeRangesValidated hf fl data ob q).terminal = .ok →
        (encodeRangesValidated hf fl data ob q).out = (encodeRangesValidated hf fl₀ data₀ ob₀ q).out ∧
        ∀ c ∈ plan, AgreeAt hf fl fl₀ data ob data₀ ob₀ c) ∧
      ((∀ h, hf.toBytes h ≠ []) → (encodeRangesValidated hf fl data ob q).terminal ≠ .ok →
        (encodeRangesValidated hf fl data ob q).out.length
          < (encodeRangesValidated hf fl₀ data₀ ob₀ q).out.length) := by
  have hbs : ob.tree.bs = ob₀.tree.bs := by rw [htree]
  rw [validated_eq_loop] at hok ⊢
  rw [validated_eq_loop, planOf_congr htree q]
  cases hp : planOf ob₀ q with
  | none => rw [hp] at hok; cases hok
  | some plan =>
    rw [hp] at hok
    simp only at hok ⊢
    rw [hroot]
    obtain ⟨h1, h2⟩ := loop_rel (fl := fl) (data := data) (ob := ob) cf hbs hd hd₀ plan
      [ob₀.root] [] hok
    refine ⟨plan, rfl, rfl, h1, h2, fun hb hn => ?_⟩
    exact loop_rel_strict cf hb hbs hd hd₀ plan
      (prePartialChunks_leafNE (by rw [planOf] at hp; exact hp)) [ob₀.root] [] hok hn

/-- a run that passes all checks against the root of blob `d` read only true data of `d` -/
theorem validated_true (cf : CollisionFree hf) {d : List UInt8} (hd : d.length ≤ 2 ^ 64 * 1024)
    (hdata : data.length ≤ 2 ^ 64 * 1024) (hroot : ob.root = Spec.root hf d) (q : Ranges)
    (hok : (encodeRangesValidated hf fl data ob q).terminal = .ok) :
    ∃ plan, planOf ob q = some plan ∧ ∀ c ∈ plan, ReadTrue hf fl data ob d c := by
  rw [validated_eq_loop] at hok
  cases hp : planOf ob q with
  | none => rw [hp] at hok; cases hok
  | some plan =>
    rw [hp] at hok
    refine ⟨plan, rfl, loop_true cf hd hdata plan [ob.root] [] ?_ hok⟩
    intro h hh
    rw [List.mem_singleton] at hh
    subst hh
    rw [hroot]
    exact C01.TrueCv.root hf d

end top

/-- classification of the terminal when neither `load` nor the data reads can fail with an io
error: `.ok`, a parent mismatch at a plan parent, a leaf mismatch at a plan leaf, or `.panic` — the
latter only if the plan iterator panics, the pending-hash stack underflows, or `load` returns
`None` / panics for a parent of the plan -/
theorem validated_kind (hf : HashFns H) [BEq H] (fl : Flavour) (data : List UInt8) (ob : Store H)
    (q : Ranges) (hio : ∀ node e, ob.load hf fl node ≠ .err e)
    (hdata : ∀ plan, planOf ob q = some plan → ∀ start size ir rs,
      Chunk.leaf start size ir rs ∈ plan → toBytes start + size ≤ data.length) :
    (encodeRangesValidated hf fl data ob q).terminal = .ok ∨
    (∃ plan node ir lf rf rs, planOf ob q = some plan ∧ Chunk.parent node ir lf rf rs ∈ plan ∧
      (encodeRangesValidated hf fl data ob q).terminal = .err (.parentHashMismatch node)) ∨
    (∃ plan start size ir rs, planOf ob q = some plan ∧ Chunk.leaf start size ir rs ∈ plan ∧
      (encodeRangesValidated hf fl data ob q).terminal = .err (.leafHashMismatch start)) ∨
    ((encodeRangesValidated hf fl data ob q).terminal = .panic ∧
      (planOf ob q = none ∨
       (∃ plan, planOf ob q = some plan ∧ heightRun 1 plan = none) ∨
       (∃ plan node ir lf rf rs, planOf ob q = some plan ∧ Chunk.parent node ir lf rf rs ∈ plan ∧
          (ob.load hf fl node = .panic ∨ ob.load hf fl node = .ok none)))) := by
  rcases validated_terminal hf fl data ob q with h | ⟨h1, h2⟩ | ⟨plan, hp, c, hc, st, hst, hstop⟩
  · exact .inl h
  · exact .inr (.inr (.inr ⟨h2, .inl h1⟩))
  · generalize (encodeRangesValidated hf fl data ob q).terminal = t at hstop ⊢
    have hunder : st = [] → heightRun 1 plan = none := by
      intro h
      cases hh : heightRun 1 plan with
      | none => rfl
      | some r => exact (hst (by rw [hh]; simp) h).elim
    rcases step_stop hf fl data ob hstop with ⟨node, ir, lf, rf, rs, rfl, h⟩ | ⟨start, size, ir, rs, rfl, h⟩
    · rcases h with ⟨e, he, _⟩ | ⟨hl, rfl⟩ | ⟨hl, rfl⟩ | ⟨hs, rfl⟩ | ⟨_, _, _, _, _, _, _, rfl⟩
      · exact (hio node e he).elim
      · exact .inr (.inr (.inr ⟨rfl, .inr (.inr ⟨plan, node, ir, lf, rf, rs, hp, hc, .inl hl⟩)⟩))
      · exact .inr (.inr (.inr ⟨rfl, .inr (.inr ⟨plan, node, ir, lf, rf, rs, hp, hc, .inr hl⟩)⟩))
      · exact .inr (.inr (.inr ⟨rfl, .inr (.inl ⟨plan, hp, hunder hs⟩)⟩))
      · exact .inr (.inl ⟨plan, node, ir, lf, rf, rs, hp, hc, rfl⟩)
    · rcases h with ⟨hs, rfl⟩ | ⟨e, he, _⟩ | ⟨_, _, _, _, _, _, rfl⟩
      · exact .inr (.inr (.inr ⟨rfl, .inr (.inl ⟨plan, hp, hunder hs⟩)⟩))
      · exact (readExactAt_ne_error (hdata plan hp start size ir rs hc) e he).elim
      · exact .inr (.inr (.inl ⟨plan, start, size, ir, rs, hp, hc, rfl⟩))

/-! ## a collision free instance for the examples -/

/-- the free term algebra with non-empty wire bytes; `ofBytes` decodes two particular 32-byte
strings to the chunk hashes of the two-chunk blob `1024 × 0 ++ [1]` (so that an honest store with a
parent node exists) -/
def exHash : HashFns Term where
  chunkCv := Term.chunk
  parentCv := Term.parent
  ofBytes := fun b => if b = zeros32 then Term.chunk 0 (List.replicate 1024 0) false
                      else Term.chunk 1 [1] false
  toBytes := fun t => match t with
    | Term.chunk 0 _ _ => zeros32
    | _ => List.replicate 32 1

theorem exHash_cf : CollisionFree exHash := by
  intro x y h
  cases x <;> cases y <;> simp only [HashFns.eval, exHash] at h <;> first
    | (injection h with h1 h2 h3; subst h1 h2 h3; rfl)
    | (injection h)

theorem exHash_toBytes_ne (h : Term) : exHash.toBytes h ≠ [] := by
  simp only [exHash]
  split <;> simp [zeros32]

end Bao.C05
