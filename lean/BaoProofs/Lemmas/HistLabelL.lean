import BaoProofs.Lemmas.HistL
import BaoProofs.Lemmas.DecodeBridge

/-!
# Labelled decoder invariant under the TRUE geometry (C07, stages A and B)

`Lemmas/C01Inv.lean` shows that every pair the decoder yields is the true pair of SOME node.  Here
the claimed tree is the true one (`⟨d.length, bs⟩`), and the run of the decoder over the recursive
response plan is followed node by node:

* `pItem hf d k L` – the parent item of node `(k, L)` carrying its true pair;
* `Trace P pre xs` – every item `x` of `xs` satisfies `P (items in front of x, and pre) x`;
* `IG hf d bs T lo hi pre x` – `x` is a correctly LABELLED item: a parent item is `pItem k L` of an
  existing node; a leaf item is a true leaf `[c, e) ⊆ [lo, hi)` and the `pItem` of every existing
  ancestor of level `bs ≤ L < T` of every chunk of the leaf occurs in `pre`;
* `run_good` – under `CollisionFree hf`, the run over the plan of the subtree `(k, L)` with the
  chaining value of `(k, L)` on top of the hash stack, on ANY stream, yields a good trace and, if it
  ends `ok`, has popped exactly that hash;
* `decodeAll_good` – the items of `decodeAll` (either flavour) form a good trace.
-/

set_option maxRecDepth 8192

namespace Bao.C07L
open Bao Bao.Spec Bao.C01 Bao.PlanPre Bao.DecodeSpec Bao.Bits

variable {H : Type}

/-! ## traces -/

/-- the parent item of node `(k, L)` carrying the true pair of that node -/
def pItem (hf : HashFns H) (d : List UInt8) (k L : Nat) : Item H :=
  .parent (nodeOf k L) (Spec.pair hf d k L).1 (Spec.pair hf d k L).2

/-- every element satisfies `P` relative to the elements in front of it (most recent first) and
`pre` -/
def Trace {α : Type} (P : List α → α → Prop) : List α → List α → Prop
  | _, [] => True
  | pre, x :: xs => P pre x ∧ Trace P (x :: pre) xs

theorem Trace.append {α : Type} {P : List α → α → Prop} :
    ∀ (a b pre : List α),
      Trace P pre (a ++ b) ↔ Trace P pre a ∧ Trace P (a.reverse ++ pre) b := by
  intro a
  induction a with
  | nil => intro b pre; simp [Trace]
  | cons x a ih =>
    intro b pre
    simp only [List.cons_append, Trace, ih, List.reverse_cons, List.append_assoc,
      List.cons_append, List.nil_append, and_assoc]

theorem Trace.imp {α : Type} {P Q : List α → α → Prop} {pre2 : List α}
    (h : ∀ p1 p2 x, (∀ y ∈ p1, y ∈ p2) → (∀ y ∈ pre2, y ∈ p2) → P p1 x → Q p2 x) :
    ∀ (xs p1 p2 : List α), (∀ y ∈ p1, y ∈ p2) → (∀ y ∈ pre2, y ∈ p2) →
      Trace P p1 xs → Trace Q p2 xs := by
  intro xs
  induction xs with
  | nil => intro _ _ _ _ _; trivial
  | cons x xs ih =>
    intro p1 p2 h1 h2 ht
    refine ⟨h p1 p2 x h1 h2 ht.1, ih (x :: p1) (x :: p2) ?_ ?_ ht.2⟩
    · intro y hy
      rcases List.mem_cons.1 hy with rfl | hy
      · exact List.mem_cons_self
      · exact List.mem_cons_of_mem _ (h1 y hy)
    · intro y hy
      exact List.mem_cons_of_mem _ (h2 y hy)

/-- what a trace says about one of its elements -/
theorem Trace.split {α : Type} {P : List α → α → Prop} (a : List α) (x : α) (b pre : List α)
    (h : Trace P pre (a ++ x :: b)) : P (a.reverse ++ pre) x :=
  ((Trace.append a (x :: b) pre).1 h).2.1

/-- a trace property that only looks at membership in the prefix can be read off any split -/
theorem Trace.mono_pre {α : Type} {P : List α → α → Prop}
    (hP : ∀ p1 p2 x, (∀ y ∈ p1, y ∈ p2) → P p1 x → P p2 x) (xs p1 p2 : List α)
    (h : ∀ y ∈ p1, y ∈ p2) (ht : Trace P p1 xs) : Trace P p2 xs :=
  Trace.imp (pre2 := []) (fun a b x hab _ hx => hP a b x hab hx) xs p1 p2 h
    (fun _ hy => by cases hy) ht

section
variable (hf : HashFns H) (d : List UInt8) (bs : Nat)

/-- a correctly labelled item: see the header -/
def IG (T lo hi : Nat) (pre : List (Item H)) : Item H → Prop
  | .parent node l r =>
    ∃ k L, L < 64 ∧ midOf k L < nChunks d.length ∧ Item.parent node l r = pItem hf d k L
  | .leaf off data =>
    ∃ c e, Sub d c e ∧ lo ≤ c ∧ c < e ∧ e ≤ hi ∧ off = c * 1024 ∧ data = slice d c e ∧
      ∀ x, c ≤ x → x < e → ∀ L, bs ≤ L → L < T →
        midOf (x / 2 ^ (L + 1)) L < nChunks d.length → pItem hf d (x / 2 ^ (L + 1)) L ∈ pre

end

variable {hf : HashFns H} {d : List UInt8} {bs : Nat}

theorem IG.lift {T T' lo lo' hi hi' : Nat} {p1 p2 : List (Item H)} {x : Item H}
    (h : IG hf d bs T lo hi p1 x) (hsub : ∀ y ∈ p1, y ∈ p2) (hlo : lo' ≤ lo) (hhi : hi ≤ hi')
    (hanc : ∀ x, lo ≤ x → x < hi → ∀ L, bs ≤ L → T ≤ L → L < T' →
      midOf (x / 2 ^ (L + 1)) L < nChunks d.length → pItem hf d (x / 2 ^ (L + 1)) L ∈ p2) :
    IG hf d bs T' lo' hi' p2 x := by
  cases x with
  | parent node l r => exact h
  | leaf off data =>
    obtain ⟨c, e, hs, h1, h2, h3, h4, h5, h6⟩ := h
    refine ⟨c, e, hs, by omega, h2, by omega, h4, h5, ?_⟩
    intro x hx1 hx2 L hL1 hL2 hm
    by_cases hT : L < T
    · exact hsub _ (h6 x hx1 hx2 L hL1 hT hm)
    · exact hanc x (by omega) (by omega) L hL1 (by omega) hL2 hm

/-! ## one decoder step on a stack whose top is a true chaining value -/

theorem pushLR_eq (hf : HashFns H) (node : Nat) (ir lf rf : Bool) (x : Ranges) (buf : List UInt8)
    (rest : List H) :
    push hf (.parent node ir lf rf x) buf rest
      = pushLR lf rf (parsePair hf buf).1 (parsePair hf buf).2 rest := by
  cases lf <;> cases rf <;> rfl

section step
variable [BEq H] [LawfulBEq H]

/-- a parent step at an existing node `(k, L)` that succeeds yields the TRUE pair of `(k, L)` -/
theorem stepC_parent_cf (cf : CollisionFree hf) {k L : Nat} (hL : L < 64)
    (hm : midOf k L < nChunks d.length) {ir lf rf f : Bool} {x : Ranges} {stk : List H}
    {s : List UInt8} {i : Item H} {st' : List H} {s' : List UInt8}
    (h : stepC hf (.parent (nodeOf k L) ir lf rf x)
      (cv hf d (startOf k L) (min (endOf k L) (nChunks d.length)) f :: stk) s = .item i st' s') :
    i = pItem hf d k L ∧
      st' = pushLR lf rf (Spec.pair hf d k L).1 (Spec.pair hf d k L).2 stk := by
  obtain ⟨-, top, rest, hst, hc, hi, hst', -⟩ := stepC_item h
  injection hst with h1 h2
  subst h1 h2
  have htop : cv hf d (startOf k L) (min (endOf k L) (nChunks d.length)) f
      = check hf (.parent (nodeOf k L) ir lf rf x) (s.take 64) := by
    simpa [Chunk.size] using hc
  have hsm := startOf_lt_midOf k L
  have e1 := startOf_eq k L
  have e2 := midOf_eq k L
  have e3 := endOf_eq k L
  have hp := two_pow_pos' L
  have hsplit := OutboardL.cv_split hf d (a := startOf k L) (m := midOf k L)
    (b := min (endOf k L) (nChunks d.length)) (j := L) hL
    (by omega) (by omega) (by omega)
    (lt_length_of_lt_nChunks (by omega) hm) f
  rw [hsplit] at htop
  simp only [check] at htop
  obtain ⟨hl, hr, -⟩ := cf.parent_inj htop
  have hp1 : (Spec.pair hf d k L).1 = (parsePair hf (s.take 64)).1 := hl
  have hp2 : (Spec.pair hf d k L).2 = (parsePair hf (s.take 64)).2 := hr
  refine ⟨?_, ?_⟩
  · rw [hi]; simp only [itemOf, Chunk.size, pItem, hp1, hp2]
  · rw [hst', pushLR_eq]; simp only [Chunk.size, hp1, hp2]

/-- a leaf step that succeeds against the chaining value of `[c, e)` yields the bytes of `[c, e)` -/
theorem stepC_leaf_cf (cf : CollisionFree hf) {c e z : Nat} {ir f : Bool} {x : Ranges}
    {stk : List H} {s : List UInt8} {i : Item H} {st' : List H} {s' : List UInt8}
    (h : stepC hf (.leaf c z ir x) (cv hf d c e f :: stk) s = .item i st' s') :
    i = .leaf (c * 1024) (slice d c e) ∧ st' = stk := by
  obtain ⟨-, top, rest, hst, hc, hi, hst', -⟩ := stepC_item h
  injection hst with h1 h2
  subst h1 h2
  have htop : cv hf d c e f = check hf (.leaf c z ir x) (s.take z) := by
    simpa [Chunk.size] using hc
  simp only [check, cv] at htop
  obtain ⟨-, hb, -⟩ := cv_inj cf htop
  refine ⟨?_, ?_⟩
  · rw [hi]; simp only [itemOf, Chunk.size, toBytes, ← hb]
  · rw [hst']; rfl

end step

/-! ## good runs -/

/-- the run `o` yields a good trace inside `[lo, hi)` below level `T`, and if it ends `ok` the hash
stack left is `stk` -/
def OutGood (hf : HashFns H) (d : List UInt8) (bs T lo hi : Nat) (stk : List H) (o : Out H) : Prop :=
  Trace (IG hf d bs T lo hi) [] o.items ∧ ∀ st' s', o.fin = .ok st' s' → st' = stk

theorem div_of_mem_range {k L x : Nat} (h1 : startOf k L ≤ x) (h2 : x < endOf k L) :
    x / 2 ^ (L + 1) = k := by
  unfold startOf at h1
  unfold endOf at h2
  exact Nat.div_eq_of_lt_le h1 h2

theorem Trace.lift {T T' lo lo' hi hi' : Nat} {pre2 : List (Item H)} (hlo : lo' ≤ lo)
    (hhi : hi ≤ hi')
    (hanc : ∀ x, lo ≤ x → x < hi → ∀ L, bs ≤ L → T ≤ L → L < T' →
      midOf (x / 2 ^ (L + 1)) L < nChunks d.length → pItem hf d (x / 2 ^ (L + 1)) L ∈ pre2)
    {xs : List (Item H)} (h : Trace (IG hf d bs T lo hi) [] xs) (pre' : List (Item H))
    (hsub : ∀ y ∈ pre2, y ∈ pre') : Trace (IG hf d bs T' lo' hi') pre' xs := by
  refine Trace.imp (pre2 := pre2) ?_ xs [] pre' (fun y hy => by cases hy) hsub h
  intro p1 p2 x h1 h2 hx
  exact hx.lift h1 hlo hhi (fun y a b L c e f m => h2 _ (hanc y a b L c e f m))

section runs
variable [BEq H] [LawfulBEq H]

omit [LawfulBEq H] in
theorem outGood_nil (T lo hi : Nat) (stk : List H) (s : List UInt8) :
    OutGood hf d bs T lo hi stk (runL hf [] stk s) := by
  refine ⟨trivial, ?_⟩
  intro st' s' h
  simp only [runL_nil, End.ok.injEq] at h
  exact h.1.symm

omit [LawfulBEq H] in
theorem outGood_cons {c : Chunk} {p : List Chunk} {st : List H} {s : List UInt8} {T lo hi : Nat}
    {stk : List H}
    (h : ∀ i st' s', stepC hf c st s = .item i st' s' →
      IG hf d bs T lo hi [] i ∧ Trace (IG hf d bs T lo hi) [i] (runL hf p st' s').items ∧
        ∀ st'' s'', (runL hf p st' s').fin = .ok st'' s'' → st'' = stk) :
    OutGood hf d bs T lo hi stk (runL hf (c :: p) st s) := by
  rw [runL_cons]
  cases hs : stepC hf c st s with
  | item i st' s' =>
    obtain ⟨h1, h2, h3⟩ := h i st' s' hs
    exact ⟨⟨h1, h2⟩, h3⟩
  | err e s' => exact ⟨trivial, fun _ _ h => by cases h⟩
  | panic s' => exact ⟨trivial, fun _ _ h => by cases h⟩

omit [LawfulBEq H] in
/-- sequencing two runs -/
theorem trace_bind {P : List (Item H) → Item H → Prop} {pre : List (Item H)} {A B : List Chunk}
    {stA stB stk : List H} {s : List UInt8}
    (hA : Trace P pre (runL hf A stA s).items)
    (hAfin : ∀ st' s', (runL hf A stA s).fin = .ok st' s' → st' = stB)
    (hB : ∀ s1 pre', (∀ y ∈ pre, y ∈ pre') → Trace P pre' (runL hf B stB s1).items ∧
      ∀ st' s', (runL hf B stB s1).fin = .ok st' s' → st' = stk) :
    Trace P pre (runL hf (A ++ B) stA s).items ∧
      ∀ st' s', (runL hf (A ++ B) stA s).fin = .ok st' s' → st' = stk := by
  rw [runL_append]
  generalize runL hf A stA s = o at *
  obtain ⟨its, fin⟩ := o
  cases fin with
  | ok st1 s1 =>
    have e := hAfin st1 s1 rfl
    subst e
    simp only [Out.bind]
    obtain ⟨h1, h2⟩ := hB s1 (its.reverse ++ pre) (fun y hy => List.mem_append_right _ hy)
    exact ⟨(Trace.append its _ pre).2 ⟨hA, h1⟩, h2⟩
  | err e s1 => exact ⟨hA, fun _ _ h => by cases h⟩
  | panic s1 => exact ⟨hA, fun _ _ h => by cases h⟩

/-- one leaf item checked against the chaining value of `[c, e)` -/
theorem leaf_good (cf : CollisionFree hf) {c e z : Nat} {ir f : Bool} {x : Ranges} {T lo hi : Nat}
    (hs : Sub d c e) (h1 : lo ≤ c) (h2 : c < e) (h3 : e ≤ hi)
    (hanc : ∀ y, c ≤ y → y < e → ∀ L, bs ≤ L → L < T →
      ¬ midOf (y / 2 ^ (L + 1)) L < nChunks d.length) (stk : List H) (s : List UInt8) :
    OutGood hf d bs T lo hi stk (runL hf [.leaf c z ir x] (cv hf d c e f :: stk) s) := by
  apply outGood_cons
  intro i st' s' hstep
  obtain ⟨rfl, rfl⟩ := stepC_leaf_cf cf hstep
  refine ⟨⟨c, e, hs, h1, h2, h3, rfl, rfl, ?_⟩, trivial, ?_⟩
  · intro y hy1 hy2 L hL1 hL2 hm
    exact absurd hm (hanc y hy1 hy2 L hL1 hL2)
  · intro st'' s'' h
    simp only [runL_nil, End.ok.injEq] at h
    exact h.1.symm

omit [LawfulBEq H] in
/-- a sub-run that is skipped when its sub-query is empty -/
theorem opt_good {rs : Ranges} {p : List Chunk} {h : H} {T lo hi : Nat} (hnil : rs = [] → p = [])
    (hgood : rs ≠ [] → ∀ stk s, OutGood hf d bs T lo hi stk (runL hf p (h :: stk) s))
    (stk : List H) (s : List UInt8) :
    OutGood hf d bs T lo hi stk (runL hf p ((if rs.isEmpty then [] else [h]) ++ stk) s) := by
  cases rs with
  | nil =>
    rw [hnil rfl]
    exact outGood_nil _ _ _ _ _
  | cons a l => exact hgood (by simp) stk s

/-- the parent item of an existing node followed by the (optional) runs of its two halves -/
theorem parent_good (cf : CollisionFree hf) {k L : Nat} (hL : L < 64)
    (hm : midOf k L < nChunks d.length) {ir f : Bool} {x : Ranges} {A B : List Chunk}
    (lrs rrs : Ranges)
    (hA : ∀ stk' s', OutGood hf d bs L (startOf k L) (midOf k L) stk'
      (runL hf A ((if lrs.isEmpty then [] else [(Spec.pair hf d k L).1]) ++ stk') s'))
    (hB : ∀ stk' s', OutGood hf d bs L (midOf k L) (min (endOf k L) (nChunks d.length)) stk'
      (runL hf B ((if rrs.isEmpty then [] else [(Spec.pair hf d k L).2]) ++ stk') s'))
    (stk : List H) (s : List UInt8) :
    OutGood hf d bs (L + 1) (startOf k L) (min (endOf k L) (nChunks d.length)) stk
      (runL hf (.parent (nodeOf k L) ir (!lrs.isEmpty) (!rrs.isEmpty) x :: (A ++ B))
        (cv hf d (startOf k L) (min (endOf k L) (nChunks d.length)) f :: stk) s) := by
  have hsm := startOf_lt_midOf k L
  have hme := midOf_lt_endOf k L
  apply outGood_cons
  intro i st' s' hstep
  obtain ⟨rfl, rfl⟩ := stepC_parent_cf cf hL hm hstep
  rw [pushLR_not]
  refine ⟨⟨k, L, hL, hm, rfl⟩, ?_⟩
  have hself : ∀ y, startOf k L ≤ y → y < endOf k L → ∀ L', bs ≤ L' → L ≤ L' → L' < L + 1 →
      midOf (y / 2 ^ (L' + 1)) L' < nChunks d.length →
      pItem hf d (y / 2 ^ (L' + 1)) L' ∈ [pItem hf d k L] := by
    intro y hy1 hy2 L' _ h1 h2 _
    have : L' = L := by omega
    subst this
    rw [div_of_mem_range hy1 hy2]
    exact List.mem_singleton.2 rfl
  apply trace_bind (stB := (if rrs.isEmpty then [] else [(Spec.pair hf d k L).2]) ++ stk)
  · exact Trace.lift (Nat.le_refl _) (by omega)
      (fun y a b => hself y a (by omega)) (hA _ s').1 _ (fun _ h => h)
  · exact (hA _ s').2
  · intro s1 pre' hsub
    exact ⟨Trace.lift (by omega) (Nat.le_refl _)
      (fun y a b => hself y (by omega) (by omega)) (hB stk s1).1 _ hsub, (hB stk s1).2⟩

/-- the whole node `(k, L)` as one leaf item (query leaf below the block size, or half leaf) -/
theorem wholeLeaf_good (cf : CollisionFree hf) {filled : Nat} (g : Geo d.length 0 filled)
    {L k : Nat} (hex : startOf k L < filled) (root : Nat) (rs : Ranges) (f : Bool)
    (hanc : ∀ y, startOf k L ≤ y → y < min (endOf k L) (nChunks d.length) → ∀ L', bs ≤ L' →
      L' < L + 1 → ¬ midOf (y / 2 ^ (L' + 1)) L' < nChunks d.length)
    (stk : List H) (s : List UInt8) :
    OutGood hf d bs (L + 1) (startOf k L) (min (endOf k L) (nChunks d.length)) stk
      (runL hf [nodeLeaf d.length 0 root L k rs]
        (cv hf d (startOf k L) (min (endOf k L) (nChunks d.length)) f :: stk) s) := by
  have hsn : startOf k L < nChunks d.length := g.start_lt_nChunks (L := L) hex
  have hse := Offsets.endOf_start k L
  have hp := two_pow_pos' (L + 1)
  rw [nodeLeaf_zero]
  refine leaf_good cf ⟨L + 1, ?_, by rw [hse], hsn⟩ (Nat.le_refl _) (by omega) (Nat.le_refl _)
    hanc stk s
  exact ⟨k, by unfold startOf; rw [Nat.mul_comm]⟩

/-- **the labelled run of a subtree.**  With the chaining value of the subtree `(k, L)` of the true
blob on top of the hash stack, the run over the plan of `(k, L)` — on ANY stream, collision free
hashes — yields only correctly labelled items, every leaf after the parent items of all its
existing ancestors of level `≥ bs` inside `(k, L)`; if it ends `ok` that hash has been popped. -/
theorem run_good (cf : CollisionFree hf) (hd : d.length ≤ 2 ^ 63) {filled root : Nat}
    (g : Geo d.length 0 filled) (L k : Nat) (rs : Ranges) :
    startOf k L < filled → ∀ (f : Bool) (stk : List H) (s : List UInt8),
      OutGood hf d bs (L + 1) (startOf k L) (min (endOf k L) (nChunks d.length)) stk
        (runL hf (planPre d.length 0 bs filled root L k rs)
          ((if rs.isEmpty then []
            else [cv hf d (startOf k L) (min (endOf k L) (nChunks d.length)) f]) ++ stk) s) := by
  refine planPre_induct (size := d.length) (bs := 0) (ml := bs) (filled := filled) (root := root)
    (P := fun L k rs p => startOf k L < filled → ∀ (f : Bool) (stk : List H) (s : List UInt8),
      OutGood hf d bs (L + 1) (startOf k L) (min (endOf k L) (nChunks d.length)) stk
        (runL hf p
          ((if rs.isEmpty then []
            else [cv hf d (startOf k L) (min (endOf k L) (nChunks d.length)) f]) ++ stk) s))
    ?_ ?_ ?_ ?_ ?_ ?_ ?_ L k rs
  · -- nil
    intro L k _ f stk s
    exact outGood_nil _ _ _ _ _
  · -- gone
    intro k rs _ hge hex
    rw [Offsets.startOf_zero] at hex
    rw [Offsets.nodeOf_zero] at hge
    omega
  · -- skip
    intro L k rs hne hge ih hex f stk s
    have hm : nChunks d.length ≤ midOf k (L + 1) := g.skip_mid_ge hge
    have hme := midOf_lt_endOf k (L + 1)
    have := ih (by rw [startOf_left]; exact hex) f stk s
    rw [startOf_left, endOf_left,
      show min (midOf k (L + 1)) (nChunks d.length) = min (endOf k (L + 1)) (nChunks d.length)
        by omega] at this
    refine ⟨Trace.lift (pre2 := []) (Nat.le_refl _) (Nat.le_refl _) ?_ this.1 _
      (fun _ h => h), this.2⟩
    intro y hy1 hy2 L' _ h1 h2 hmid
    have : L' = L + 1 := by omega
    subst this
    rw [div_of_mem_range hy1 (by omega)] at hmid
    omega
  · -- query leaf
    intro L k rs hne hlt hq hex f stk s
    have hLB := queryLeaf_lt hq
    rw [isEmpty_eq_false hne]
    simp only [Bool.false_eq_true, if_false, List.singleton_append]
    refine wholeLeaf_good cf g hex root rs f ?_ stk s
    intro y _ _ L' h1 h2
    omega
  · -- half leaf
    intro k rs hne hlt _ hh hex f stk s
    have hm : nChunks d.length ≤ midOf k 0 :=
      nChunks_le_of_le_toBytes (by have := startOf_lt_midOf k 0; omega) hh
    rw [isEmpty_eq_false hne]
    simp only [Bool.false_eq_true, if_false, List.singleton_append]
    refine wholeLeaf_good cf g hex root rs f ?_ stk s
    intro y hy1 hy2 L' _ h2 hmid
    have : L' = 0 := by omega
    subst this
    rw [div_of_mem_range hy1 (by omega)] at hmid
    omega
  · -- chunk group
    intro k rs hne hlt hq hh hex f stk s
    have hm : midOf k 0 < nChunks d.length := lt_nChunks_of_toBytes_lt hh
    obtain ⟨e1, e2, e3⟩ := two_zero_geom k
    rw [isEmpty_eq_false hne, nodeParent_zero]
    simp only [Bool.false_eq_true, if_false, List.singleton_append]
    refine parent_good cf (by omega) hm (lq 0 0 k rs) (rq 0 0 k rs) ?_ ?_ stk s
    · refine opt_good (fun h => by simp [h]) (fun hl stk' s' => ?_)
      rw [if_neg (by simpa using hl), leftLeaf_zero]
      refine leaf_good cf ⟨0, Nat.one_dvd _, by omega, by omega⟩ (Nat.le_refl _)
        (by omega) (Nat.le_refl _) (fun _ _ _ _ _ h => by omega) stk' s'
    · refine opt_good (fun h => by simp [h]) (fun hr stk' s' => ?_)
      rw [if_neg (by simpa using hr), rightLeaf_zero]
      refine leaf_good cf ⟨0, Nat.one_dvd _, by omega, by omega⟩ (Nat.le_refl _)
        (by omega) (Nat.le_refl _) (fun _ _ _ _ _ h => by omega) stk' s'
  · -- inner node
    intro L k rs hne hlt hq ihl ihr hex f stk s
    have hm : midOf k (L + 1) < nChunks d.length := g.mid_lt_nChunks hlt
    have hL64 := level_lt_of_mid_lt hd hm
    have hme := midOf_lt_endOf k (L + 1)
    rw [isEmpty_eq_false hne, nodeParent_zero]
    simp only [Bool.false_eq_true, if_false, List.singleton_append]
    refine parent_good cf hL64 hm (lq 0 (L + 1) k rs) (rq 0 (L + 1) k rs) ?_ ?_ stk s
    · intro stk' s'
      have := ihl (by rw [startOf_left]; exact hex) false stk' s'
      rw [startOf_left, endOf_left,
        show min (midOf k (L + 1)) (nChunks d.length) = midOf k (L + 1) by omega] at this
      exact this
    · intro stk' s'
      have := ihr (g.right_exists hlt) false stk' s'
      rw [startOf_right, endOf_right] at this
      exact this

theorem two_pow_le_midOf (k L : Nat) : 2 ^ L ≤ midOf k L := by
  unfold midOf; omega

/-- **the items of a decode are a good trace** (either flavour, any stream, any query): root =
the blob's root, claimed tree = the blob's tree -/
theorem decodeAll_good (cf : CollisionFree hf) (hd : d.length ≤ 2 ^ 63) (fl : Flavour)
    (q : Ranges) (s : List UInt8) :
    Trace (IG hf d bs 64 0 (nChunks d.length)) []
      (decodeAll hf fl (Spec.root hf d) ⟨d.length, bs⟩ q s).items := by
  rw [decodeAll_eq_runL hf fl _ d.length bs q s hd]
  simp only [Out.toRun]
  have g := shifted_geo d.length 0 hd (by omega)
  obtain ⟨hh, hroot, hlt⟩ := rootLevel_spec d.length 0 hd
  have hcov := rootLevel_covers d.length 0 hd
  rw [Nat.add_zero] at hcov
  generalize hq : Ranges.truncate q d.length = q'
  cases q' with
  | nil => rw [plan_nil]; trivial
  | cons a q'' =>
    have h0 : startOf 0 (rootLevel ⟨d.length, 0⟩) = 0 := startOf_zero_idx _
    have hex : startOf 0 (rootLevel ⟨d.length, 0⟩) < (Tree.shifted ⟨d.length, 0⟩).2 := by
      rw [h0]; omega
    have := run_good (bs := bs) (root := (Tree.shifted ⟨d.length, 0⟩).1) cf hd g
      (rootLevel ⟨d.length, 0⟩) 0 (a :: q'') hex true [] s
    rw [h0, Nat.min_eq_right hcov] at this
    simp only [List.isEmpty_cons, Bool.false_eq_true, if_false, List.append_nil] at this
    refine Trace.lift (pre2 := []) (Nat.le_refl _) (Nat.le_refl _) ?_ this.1 _ (fun _ h => h)
    intro y _ hy L _ h1 _ hmid
    exfalso
    have h2 : 2 ^ (rootLevel ⟨d.length, 0⟩ + 1) ≤ 2 ^ L := Nat.pow_le_pow_right (by decide) h1
    have h3 := two_pow_le_midOf (y / 2 ^ (L + 1)) L
    have h4 : endOf 0 (rootLevel ⟨d.length, 0⟩) = 2 ^ (rootLevel ⟨d.length, 0⟩ + 1) := by
      simp [endOf]
    omega

end runs

end Bao.C07L
