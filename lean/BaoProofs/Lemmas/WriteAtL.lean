import BaoModel.Store

/-!
# Positional 64-byte writes into a `Vec<u8>` backing (`writeAt`)

Writing the blocks of a list in any order at their slots reproduces the concatenation.
-/

namespace Bao.WriteAtL
open Bao

/-- the `i`-th 64-byte block -/
def blockAt (data : List UInt8) (i : Nat) : List UInt8 := (data.drop (i * 64)).take 64

/-- apply positional 64-byte writes `(slot, bytes)` in order -/
def applyWrites (data : List UInt8) (ws : List (Nat × List UInt8)) : List UInt8 :=
  ws.foldl (fun acc w => writeAt acc (w.1 * 64) w.2) data

theorem applyWrites_nil (data : List UInt8) : applyWrites data [] = data := rfl

theorem applyWrites_cons (data : List UInt8) (w : Nat × List UInt8) (ws : List (Nat × List UInt8)) :
    applyWrites data (w :: ws) = applyWrites (writeAt data (w.1 * 64) w.2) ws := rfl

/-! ## `writeAt` -/

theorem length_writeAt (data : List UInt8) (off : Nat) (bytes : List UInt8) :
    (writeAt data off bytes).length = max data.length (off + bytes.length) := by
  unfold writeAt
  by_cases h : data.length < off
  · simp only [h, if_true, List.length_append, List.length_take, List.length_drop,
      List.length_replicate]
    omega
  · simp only [h, if_false, List.length_append, List.length_take, List.length_drop]
    omega

/-- pointwise description of `writeAt` -/
theorem getElem?_writeAt (data : List UInt8) (off : Nat) (bytes : List UInt8) (i : Nat) :
    (writeAt data off bytes)[i]? =
      if i < off then (if i < data.length then data[i]? else some 0)
      else if i < off + bytes.length then bytes[i - off]? else data[i]? := by
  unfold writeAt
  by_cases h : data.length < off
  · simp only [h, if_true, List.getElem?_append, List.length_append, List.length_take,
      List.length_replicate, List.getElem?_take, List.getElem?_drop, List.getElem?_replicate]
    have e1 : min off (data.length + (off - data.length)) = off := by omega
    simp only [e1]
    by_cases h1 : i < off
    · have h1' : i < off + bytes.length := by omega
      simp only [h1, h1', if_true]
      by_cases h2 : i < data.length
      · simp only [h2, if_true]
      · have h3 : i - data.length < off - data.length := by omega
        simp only [h2, if_false, h3, if_true]
    · simp only [h1, if_false]
      by_cases h2 : i < off + bytes.length
      · simp only [h2, if_true]
      · have h4 : ¬ off + bytes.length + (i - (off + bytes.length)) < data.length := by omega
        have h5 : ¬ off + bytes.length + (i - (off + bytes.length)) - data.length
            < off - data.length := by omega
        have h6 : data.length ≤ i := by omega
        simp only [h2, h4, h5, if_false, List.getElem?_eq_none h6]
  · simp only [h, if_false, List.getElem?_append, List.length_append, List.length_take,
      List.getElem?_take, List.getElem?_drop]
    have e1 : min off data.length = off := by omega
    simp only [e1]
    by_cases h1 : i < off
    · have h1' : i < off + bytes.length := by omega
      have h2 : i < data.length := by omega
      simp only [h1, h1', h2, if_true]
    · simp only [h1, if_false]
      by_cases h2 : i < off + bytes.length
      · simp only [h2, if_true]
      · have e2 : off + bytes.length + (i - (off + bytes.length)) = i := by omega
        simp only [h2, if_false, e2]

/-! ## blocks -/

theorem getElem?_blockAt (data : List UInt8) (k j : Nat) :
    (blockAt data k)[j]? = if j < 64 then data[k * 64 + j]? else none := by
  unfold blockAt
  simp only [List.getElem?_take, List.getElem?_drop]

theorem length_blockAt (data : List UInt8) (k : Nat) (h : k * 64 + 64 ≤ data.length) :
    (blockAt data k).length = 64 := by
  unfold blockAt
  simp only [List.length_take, List.length_drop]
  omega

/-- a 64-byte write at slot `k` makes block `k` equal to the written bytes -/
theorem blockAt_writeAt_self (data : List UInt8) (k : Nat) (b : List UInt8)
    (hb : b.length = 64) : blockAt (writeAt data (k * 64) b) k = b := by
  apply List.ext_getElem?
  intro j
  rw [getElem?_blockAt, getElem?_writeAt]
  by_cases hj : j < 64
  · have h1 : ¬ k * 64 + j < k * 64 := by omega
    have h2 : k * 64 + j < k * 64 + b.length := by omega
    have e : k * 64 + j - k * 64 = j := by omega
    simp only [hj, h1, h2, if_true, if_false, e]
  · simp only [hj, if_false]
    exact (List.getElem?_eq_none (by omega)).symm

/-- a 64-byte write at slot `k` leaves every other complete block untouched -/
theorem blockAt_writeAt_ne (data : List UInt8) (k : Nat) (b : List UInt8) (j : Nat)
    (hb : b.length = 64) (hjk : j ≠ k) (hj : j * 64 + 64 ≤ data.length) :
    blockAt (writeAt data (k * 64) b) j = blockAt data j := by
  apply List.ext_getElem?
  intro t
  rw [getElem?_blockAt, getElem?_blockAt, getElem?_writeAt]
  by_cases ht : t < 64
  · simp only [ht, if_true]
    by_cases hlt : j < k
    · have h1 : j * 64 + t < k * 64 := by omega
      have h2 : j * 64 + t < data.length := by omega
      simp only [h1, h2, if_true]
    · have h1 : ¬ j * 64 + t < k * 64 := by omega
      have h2 : ¬ j * 64 + t < k * 64 + b.length := by omega
      simp only [h1, h2, if_false]
  · simp only [ht, if_false]

/-- two `N*64`-byte lists with equal blocks are equal -/
theorem ext_blockAt (A B : List UInt8) (N : Nat) (hA : A.length = N * 64)
    (hB : B.length = N * 64) (h : ∀ i, i < N → blockAt A i = blockAt B i) : A = B := by
  apply List.ext_getElem?
  intro idx
  by_cases hi : idx < N * 64
  · have h1 := congrArg (fun l : List UInt8 => l[idx % 64]?) (h (idx / 64) (by omega))
    simp only [getElem?_blockAt] at h1
    have hm : idx % 64 < 64 := by omega
    have e : idx / 64 * 64 + idx % 64 = idx := by omega
    simpa only [hm, if_true, e] using h1
  · rw [List.getElem?_eq_none (by omega), List.getElem?_eq_none (by omega)]

/-! ## `flatMap` of 64-byte blocks -/

theorem length_flatMap64 {α : Type} (l : List α) (f : α → List UInt8)
    (hf : ∀ x ∈ l, (f x).length = 64) : (l.flatMap f).length = l.length * 64 := by
  induction l with
  | nil => rfl
  | cons a t ih =>
    rw [List.flatMap_cons, List.length_append, ih (fun x hx => hf x (List.mem_cons_of_mem _ hx)),
      hf a (List.mem_cons_self ..), List.length_cons]
    omega

theorem blockAt_flatMap {α : Type} (l : List α) (f : α → List UInt8)
    (hf : ∀ x ∈ l, (f x).length = 64) (i : Nat) (hi : i < l.length) :
    blockAt (l.flatMap f) i = f l[i] := by
  induction l generalizing i with
  | nil => exact absurd hi (Nat.not_lt_zero _)
  | cons a t ih =>
    have ha : (f a).length = 64 := hf a (List.mem_cons_self ..)
    have ht : ∀ x ∈ t, (f x).length = 64 := fun x hx => hf x (List.mem_cons_of_mem _ hx)
    rw [List.flatMap_cons]
    cases i with
    | zero =>
      rw [List.getElem_cons_zero]
      apply List.ext_getElem?
      intro j
      rw [getElem?_blockAt]
      by_cases hj : j < 64
      · simp only [hj, if_true]
        rw [List.getElem?_append_left (by omega)]
        congr 1
        omega
      · simp only [hj, if_false]
        exact (List.getElem?_eq_none (by omega)).symm
    | succ i =>
      rw [List.getElem_cons_succ, ← ih ht i (by simpa using hi)]
      apply List.ext_getElem?
      intro j
      rw [getElem?_blockAt, getElem?_blockAt]
      by_cases hj : j < 64
      · simp only [hj, if_true]
        rw [List.getElem?_append_right (by omega)]
        congr 1
        omega
      · simp only [hj, if_false]

/-! ## sequences of writes -/

theorem length_applyWrites_ge (data : List UInt8) (ws : List (Nat × List UInt8)) :
    data.length ≤ (applyWrites data ws).length := by
  induction ws generalizing data with
  | nil => exact Nat.le_refl _
  | cons w ws ih =>
    rw [applyWrites_cons]
    have h := ih (writeAt data (w.1 * 64) w.2)
    rw [length_writeAt] at h
    omega

theorem length_applyWrites_ge_of_mem (data : List UInt8) (ws : List (Nat × List UInt8))
    (w : Nat × List UInt8) (hm : w ∈ ws) :
    w.1 * 64 + w.2.length ≤ (applyWrites data ws).length := by
  induction ws generalizing data with
  | nil => cases hm
  | cons w' ws ih =>
    rw [applyWrites_cons]
    rcases List.mem_cons.1 hm with h | h
    · subst h
      have h := length_applyWrites_ge (writeAt data (w.1 * 64) w.2) ws
      rw [length_writeAt] at h
      omega
    · exact ih _ h

/-- every intermediate state stays within `N*64` bytes -/
theorem length_applyWrites_le (init : List UInt8) (ws : List (Nat × List UInt8)) (N : Nat)
    (hws : ∀ w ∈ ws, w.1 < N ∧ w.2.length = 64) (hinit : init.length ≤ N * 64) :
    (applyWrites init ws).length ≤ N * 64 := by
  induction ws generalizing init with
  | nil => exact hinit
  | cons w ws ih =>
    rw [applyWrites_cons]
    apply ih _ (fun w' hw' => hws w' (List.mem_cons_of_mem _ hw'))
    have h := hws w (List.mem_cons_self ..)
    rw [length_writeAt]
    omega

theorem length_applyWrites_eq (init : List UInt8) (ws : List (Nat × List UInt8)) (N : Nat)
    (hws : ∀ w ∈ ws, w.1 < N ∧ w.2.length = 64) (hinit : init.length = N * 64) :
    (applyWrites init ws).length = N * 64 := by
  apply Nat.le_antisymm
  · exact length_applyWrites_le init ws N hws (Nat.le_of_eq hinit)
  · have h := length_applyWrites_ge init ws
    omega

/-- writes to other slots keep a complete block -/
theorem blockAt_applyWrites_of_not_mem (data : List UInt8) (ws : List (Nat × List UInt8))
    (s : Nat) (hws : ∀ w ∈ ws, w.2.length = 64) (hs : s ∉ ws.map Prod.fst)
    (hlen : s * 64 + 64 ≤ data.length) :
    blockAt (applyWrites data ws) s = blockAt data s := by
  induction ws generalizing data with
  | nil => rfl
  | cons w ws ih =>
    rw [applyWrites_cons]
    simp only [List.map_cons, List.mem_cons, not_or] at hs
    rw [ih _ (fun w' hw' => hws w' (List.mem_cons_of_mem _ hw')) hs.2
      (by rw [length_writeAt]; omega)]
    exact blockAt_writeAt_ne data w.1 w.2 s (hws w (List.mem_cons_self ..)) hs.1 hlen

/-- with pairwise distinct slots, each written block survives to the end -/
theorem blockAt_applyWrites_of_mem (data : List UInt8) (ws : List (Nat × List UInt8))
    (hws : ∀ w ∈ ws, w.2.length = 64) (hnd : (ws.map Prod.fst).Nodup)
    (s : Nat) (b : List UInt8) (hm : (s, b) ∈ ws) :
    blockAt (applyWrites data ws) s = b := by
  induction ws generalizing data with
  | nil => cases hm
  | cons w ws ih =>
    rw [applyWrites_cons]
    simp only [List.map_cons, List.nodup_cons] at hnd
    have hws' : ∀ w' ∈ ws, w'.2.length = 64 := fun w' hw' => hws w' (List.mem_cons_of_mem _ hw')
    rcases List.mem_cons.1 hm with h | h
    · subst h
      have hb : b.length = 64 := hws (s, b) (List.mem_cons_self ..)
      have hl : s * 64 + 64 ≤ (writeAt data (s * 64) b).length := by
        rw [length_writeAt]
        omega
      rw [blockAt_applyWrites_of_not_mem _ ws s hws' hnd.1 hl]
      exact blockAt_writeAt_self data s b hb
    · exact ih _ hws' hnd.2 h

/-- MAIN: writing, in ANY order `T` (a permutation of `P`), the block `f x` at slot `slot x`, where
`slot` enumerates `P` (`slot P[i] = i`), onto any initial backing not longer than the result
(stale bytes allowed, shorter backings are zero-extended by `writeAt`) yields exactly the
concatenation of the blocks in `P`-order. -/
theorem applyWrites_perm {α : Type} (P T : List α) (slot : α → Nat) (f : α → List UInt8)
    (init : List UInt8) (hperm : T.Perm P) (hslot : ∀ i (h : i < P.length), slot P[i] = i)
    (hf : ∀ x ∈ P, (f x).length = 64) (hinit : init.length ≤ P.length * 64) :
    applyWrites init (T.map fun x => (slot x, f x)) = P.flatMap f := by
  have hslotlt : ∀ x ∈ T, slot x < P.length := by
    intro x hx
    obtain ⟨i, h, e⟩ := List.mem_iff_getElem.1 (hperm.mem_iff.1 hx)
    rw [← e, hslot i h]
    exact h
  generalize hwsdef : (T.map fun x => (slot x, f x)) = ws
  have hws : ∀ w ∈ ws, w.1 < P.length ∧ w.2.length = 64 := by
    intro w hw
    rw [← hwsdef] at hw
    obtain ⟨x, hx, rfl⟩ := List.mem_map.1 hw
    exact ⟨hslotlt x hx, hf x (hperm.mem_iff.1 hx)⟩
  have hws2 : ∀ w ∈ ws, w.2.length = 64 := fun w hw => (hws w hw).2
  have hPslot : P.map slot = List.range P.length := by
    apply List.ext_getElem
    · rw [List.length_map, List.length_range]
    · intro i h1 h2
      rw [List.getElem_map, List.getElem_range]
      exact hslot i _
  have hnd : (ws.map Prod.fst).Nodup := by
    have e : ws.map Prod.fst = T.map slot := by
      rw [← hwsdef, List.map_map]
      rfl
    rw [e, (hperm.map slot).nodup_iff, hPslot]
    exact List.nodup_range
  have hmemws : ∀ i (h : i < P.length), (i, f P[i]) ∈ ws := by
    intro i h
    have h1 : P[i] ∈ T := hperm.mem_iff.2 (List.getElem_mem h)
    have h2 : (slot P[i], f P[i]) ∈ T.map (fun x => (slot x, f x)) :=
      List.mem_map.2 ⟨P[i], h1, rfl⟩
    rw [hslot i h, hwsdef] at h2
    exact h2
  have hlen : (applyWrites init ws).length = P.length * 64 := by
    apply Nat.le_antisymm
    · exact length_applyWrites_le init ws P.length hws hinit
    · by_cases hP : P.length = 0
      · omega
      · have hlast : P.length - 1 < P.length := by omega
        have h1 := length_applyWrites_ge_of_mem init ws _ (hmemws (P.length - 1) hlast)
        have h2 := hws2 _ (hmemws (P.length - 1) hlast)
        simp only at h1 h2
        omega
  apply ext_blockAt _ _ P.length hlen (length_flatMap64 P f hf)
  intro i hi
  rw [blockAt_flatMap P f hf i hi]
  exact blockAt_applyWrites_of_mem init ws hws2 hnd i _ (hmemws i hi)

/-- special case `T = P`: writing the blocks in slot order -/
theorem applyWrites_seq {α : Type} (P : List α) (slot : α → Nat) (f : α → List UInt8)
    (init : List UInt8) (hslot : ∀ i (h : i < P.length), slot P[i] = i)
    (hf : ∀ x ∈ P, (f x).length = 64) (hinit : init.length ≤ P.length * 64) :
    applyWrites init (P.map fun x => (slot x, f x)) = P.flatMap f :=
  applyWrites_perm P P slot f init (List.Perm.refl P) hslot hf hinit

end Bao.WriteAtL
