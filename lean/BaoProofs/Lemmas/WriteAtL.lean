import BaoModel.Store

/-!
# Positional 64-byte writes into a `Vec<u8>` backing (`writeAt`)

Writing the blocks of a list in any order at their slots reproduces the concatenation.
-/

namespace Bao.WriteAtL
open Bao

/-- the `i`-th 64-byte block -/
def blockAt (data : List UInt8) (i : Nat) : List UInt8 := (data.drop (i * 64)).take 64

/-- apply positional 64-byte writes `(slot, bytes)` in order -/
def applyWrites (data : List UInt8) (ws : List (Nat × List UInt8)) : List UInt8 :=
  ws.foldl (fun acc w => writeAt acc (w.1 * 64) w.2) data

theorem applyWrites_nil (data : List UInt8) : applyWrites data [] = data := rfl

theorem applyWrites_cons (data : List UInt8) (w : Nat × List UInt8) (ws : List (Nat × List UInt8)) :
    applyWrites data (w :: ws) = applyWrites (writeAt data (w.1 * 64) w.2) ws := rfl

/-! ## `writeAt` -/

theorem length_writeAt (data : List UInt8) (off : Nat) (bytes : List UInt8) :
    (writeAt data off bytes).length = max data.length (off + bytes.length) := by
  unfold writeAt
  by_cases h : data.length < off
  · simp only [h, if_true, List.length_append, List.length_take, List.length_drop,
      List.length_replicate]
    omega
  · simp only [h, if_false, List.length_append, List.length_take, List.length_drop]
    omega

/-- pointwise description of `writeAt` -/
theorem getElem?_writeAt (data : List UInt8) (off : Nat) (bytes : List UInt8) (i : Nat) :
    (writeAt data off bytes)[i]? =
      if i < off then (if i < data.length then data[i]? else some 0)
      else if i < off + bytes.length then bytes[i - off]? else data[i]? := by
  unfold writeAt
  by_cases h : data.length < off
  · simp only [h, if_true, List.getElem?_append, List.length_append, List.length_take,
      List.length_replicate, List.getElem?_take, List.getElem?_drop, List.getElem?_replicate]
    have e1 : min off (data.length + (off - data.length)) = off := by omega
    simp only [e1]
    by_cases h1 : i < off
    · have h1' : i < off + bytes.length := by omega
      simp only [h1, h1', if_true]
      by_cases h2 : i < data.length
      · simp only [h2, if_true]
      · have h3 : i - data.length < off - data.length := by omega
        simp only [h2, if_false, h3, if_true]
    · simp only [h1, if_false]
      by_cases h2 : i < off + bytes.length
      · simp only [h2, if_true]
      · have h4 : ¬ off + bytes.length + (i - (off + bytes.length)) < data.length := by omega
        have h5 : ¬ off + bytes.length + (i - (off + bytes.length)) - data.length
            < off - data.length := by omega
        have h6 : data.length ≤ i := by omega
        simp only [h2, h4, h5, if_false, List.getElem?_eq_none h6]
  · simp only [h, if_false, List.getElem?_append, List.length_append, List.length_take,
      List.getElem?_take, List.getElem?_drop]
    have e1 : min off data.length = off := by omega
    simp only [e1]
    by_cases h1 : i < off
    · have h1' : i < off + bytes.length := by omega
      have h2 : i < data.length := by omega
      simp only [h1, h1', h2, if_true]
    · simp only [h1, if_false]
      by_cases h2 : i < off + bytes.length
      · simp only [h2, if_true]
      · have e2 : off + bytes.length + (i - (off + bytes.length)) = i := by omega
        simp only [h2, if_false, e2]

end Bao.WriteAtL
