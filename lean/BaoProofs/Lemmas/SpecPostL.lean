import BaoModel.Ops1
import BaoProofs.Props.C15Post
import BaoProofs.Props.C12

/-!
# Lemmas for `Bao.Ops.planPostWF` (the executable specification predicate of the post-order plan)

`planPostWF size bs plan = none` is unfolded into six clauses over the plan views of
`BaoProofs/Lemmas/NodeIter.lean` (`leavesOf`, `stackRun`, `rootFlag`, `parentsOf`), `bothFlags` and
the span walk `spanRun`: `planPostWF_none_iff`.  The span walk over the plan of a subtree pushes
exactly the chunk span of that subtree, clipped to the blob (`span_planD`, `span_plan`).  The match expressions written inline in the predicate are restated here as
definitions with the same source text (`leafView`, `parentView`, `notBoth`, `stackStep'`), which
are definitionally the predicate's, and then related to the views by case analysis.
-/

namespace Bao.SpecPost

open Bao Bao.NodeIterL Bao.Ops

/-- the leaf list the predicate compares with: block `i` starts at chunk `i·2^bs` and has
`min g (size − i·g)` bytes, `g = 2^bs·1024` -/
def wantLeaves (size bs : Nat) : List (Nat × Nat) :=
  (List.range (Spec.nBlocks size bs)).map
    fun i => (i * 2 ^ bs, min (2 ^ bs * 1024) (size - i * (2 ^ bs * 1024)))

/-- a parent item flags both children (leaf items: vacuously) -/
def bothFlags : Chunk → Bool
  | .parent _ _ l r _ => l && r
  | .leaf .. => true

/-! ### the six clauses of the predicate -/

/-- clause 1: the leaf items are exactly the blocks `0 … nBlocks-1`, in order -/
def LeavesTile (size bs : Nat) (plan : List Chunk) : Prop := leavesOf plan = wantLeaves size bs

/-- clause 2: the hash stack run from the empty stack does not underflow and ends at height 1 -/
def StackOk (plan : List Chunk) : Prop := stackRun 0 plan = some 1

/-- clause 3: the root flags are `false, …, false, true` -/
def RootLast (plan : List Chunk) : Prop :=
  plan.map rootFlag = List.replicate (plan.length - 1) false ++ [true]

/-- clause 4: the parent items are the persisted nodes in post-order -/
def ParentsPersisted (size bs : Nat) (plan : List Chunk) : Prop :=
  parentsOf plan = Spec.persistedPost size bs

/-- clause 5: every parent item flags both children -/
def BothChildren (plan : List Chunk) : Prop := ∀ c ∈ plan, bothFlags c = true

/-- one step of the span walk of clause 6: the state is a stack of chunk spans `(first, one past
last)`; a leaf pushes its span, a parent needs the spans of its two subtrees on top — adjacent and
meeting at the node's middle chunk — and replaces them by their union (same source text as the
inline function of the predicate) -/
def spanStep (st : Option (List (Nat × Nat))) (c : Chunk) : Option (List (Nat × Nat)) :=
    match st with
    | none => none
    | some st =>
      match c with
      | .leaf s z _ _ => some ((s, s + max 1 ((z + 1023) / 1024)) :: st)
      | .parent node _ _ _ _ =>
        match st with
        | (rs, re) :: (ls, le) :: rest =>
          if le == rs && rs == Node.mid node then some ((ls, re) :: rest) else none
        | _ => none

/-- the span walk over a plan from the span stack `st`; `none` = some parent did not find its two
subtrees on top -/
def spanRun (st : List (Nat × Nat)) (plan : List Chunk) : Option (List (Nat × Nat)) :=
  plan.foldl spanStep (some st)

/-- clause 6: the span walk from the empty stack runs through: every parent comes right after its
two subtrees -/
def SpansOk (plan : List Chunk) : Prop := ∃ st, spanRun [] plan = some st

/-! ### the predicate's inline matches as definitions -/

def leafView (c : Chunk) : Option (Nat × Nat) :=
  match c with | .leaf s z _ _ => some (s, z) | _ => none

def parentView (c : Chunk) : Option Nat :=
  match c with | .parent node _ _ _ _ => some node | _ => none

def notBoth (c : Chunk) : Bool :=
  match c with | .parent _ _ l r _ => !(l && r) | _ => false

def stackStep' (h : Option Nat) (c : Chunk) : Option Nat :=
    match h with
    | none => none
    | some h =>
      match c with
      | .parent .. => if h < 2 then none else some (h - 1)
      | .leaf .. => some (h + 1)

theorem view_leaves (plan : List Chunk) : plan.filterMap leafView = leavesOf plan := by
  unfold leavesOf; congr 1; funext c; cases c <;> rfl

theorem view_parents (plan : List Chunk) : plan.filterMap parentView = parentsOf plan := by
  unfold parentsOf; congr 1; funext c; cases c <;> rfl

theorem view_both (c : Chunk) : notBoth c = !bothFlags c := by
  cases c <;> rfl

theorem view_stack : stackStep' = stackStep := by
  funext h c
  cases h with
  | none => rfl
  | some h =>
    cases c with
    | leaf => rfl
    | parent =>
      simp only [stackStep, stackStep']
      split <;> split <;> first | rfl | omega

/-- the predicate accepts a plan iff the six clauses hold -/
theorem planPostWF_none_iff (size bs : Nat) (plan : List Chunk) :
    planPostWF size bs plan = none ↔
      LeavesTile size bs plan ∧ StackOk plan ∧ RootLast plan ∧ ParentsPersisted size bs plan ∧
      BothChildren plan ∧ SpansOk plan := by
  unfold LeavesTile StackOk RootLast ParentsPersisted BothChildren SpansOk planPostWF
  simp only []
  change (if (plan.filterMap leafView != wantLeaves size bs) = true then _ else
    if (plan.foldl stackStep' (some 0) != some 1) = true then _ else
    if (plan.map rootFlag != _) = true then _ else
    if (plan.filterMap parentView != _) = true then _ else
    if (plan.any notBoth) = true then _ else
    if (spanRun [] plan).isNone = true then _ else _) = none ↔ _
  rw [view_stack, view_leaves, view_parents]
  change (if (leavesOf plan != wantLeaves size bs) = true then _ else
    if (stackRun 0 plan != some 1) = true then _ else _) = none ↔ _
  simp only [bne_iff_ne, ne_eq, ite_not]
  have hany : plan.any notBoth = true ↔ ¬ ∀ c ∈ plan, bothFlags c = true := by
    simp only [List.any_eq_true, view_both, Bool.not_eq_true', Classical.not_forall,
      Bool.not_eq_true, exists_prop]
  by_cases h1 : leavesOf plan = wantLeaves size bs
  · by_cases h2 : stackRun 0 plan = some 1
    · by_cases h3 : plan.map rootFlag = List.replicate (plan.length - 1) false ++ [true]
      · by_cases h4 : parentsOf plan = Spec.persistedPost size bs
        · by_cases h5 : ∀ c ∈ plan, bothFlags c = true
          · simp only [h1, h2, h3, h4, if_true, if_neg (mt hany.mp (not_not_intro h5)), true_and]
            cases h6 : spanRun [] plan with
            | none =>
              simp only [Option.isNone_none, if_true]
              exact ⟨fun h => (by cases h), fun h => by obtain ⟨_, st, hst⟩ := h; cases hst⟩
            | some st =>
              simp only [Option.isNone_some, Bool.false_eq_true, if_false]
              exact ⟨fun _ => ⟨h5, st, rfl⟩, fun _ => trivial⟩
          · simp only [h1, h2, h3, h4, if_true, if_pos (hany.mpr h5), true_and]
            exact ⟨fun h => (by cases h), fun h => absurd h.1 h5⟩
        · simp [h1, h2, h3, h4]
      · simp [h1, h2, h3]
    · simp [h1, h2]
  · simp [h1]

/-! ### root flag clause in split form -/

theorem rootLast_of_split {plan init : List Chunk} {last : Chunk} (h : plan = init ++ [last])
    (hl : rootFlag last = true) (hi : ∀ c ∈ init, rootFlag c = false) :
    plan.map rootFlag = List.replicate (plan.length - 1) false ++ [true] := by
  subst h
  rw [List.map_append, List.length_append, List.length_singleton, Nat.add_sub_cancel,
    List.map_singleton, hl]
  congr 1
  rw [List.eq_replicate_iff]
  refine ⟨List.length_map _, ?_⟩
  intro b hb
  obtain ⟨c, hc, rfl⟩ := List.mem_map.mp hb
  exact hi c hc

theorem split_of_rootLast {plan : List Chunk}
    (h : plan.map rootFlag = List.replicate (plan.length - 1) false ++ [true]) :
    ∃ init last, plan = init ++ [last] ∧ rootFlag last = true ∧ ∀ c ∈ init, rootFlag c = false := by
  rcases List.eq_nil_or_concat plan with rfl | ⟨init, last, rfl⟩
  · simp at h
  · rw [List.concat_eq_append] at h ⊢
    rw [List.map_append, List.length_append, List.length_singleton, Nat.add_sub_cancel,
      List.map_singleton] at h
    have hlen : (init.map rootFlag).length = (List.replicate init.length false).length := by
      rw [List.length_map, List.length_replicate]
    obtain ⟨h1, h2⟩ := List.append_inj h hlen
    refine ⟨init, last, rfl, by simpa using h2, ?_⟩
    intro c hc
    exact (List.eq_replicate_iff.mp h1).2 _ (List.mem_map.mpr ⟨c, hc, rfl⟩)

/-! ### every parent item of the recursion flags both children -/

theorem both_planRec (size bs root F : Nat) (L k : Nat) :
    ∀ c ∈ planRec size bs root F L k, bothFlags c = true := by
  induction L generalizing k with
  | zero =>
    intro c hc
    simp only [planRec] at hc
    split at hc
    · split at hc
      · simp only [List.mem_cons, List.not_mem_nil, or_false] at hc
        rcases hc with rfl | rfl | rfl <;> rfl
      · simp only [List.mem_cons, List.not_mem_nil, or_false] at hc
        subst hc; rfl
    · simp at hc
  | succ L ih =>
    intro c hc
    simp only [planRec] at hc
    split at hc
    · simp only [List.mem_append, List.mem_cons, List.not_mem_nil, or_false] at hc
      rcases hc with (hc | hc) | rfl
      · exact ih _ c hc
      · exact ih _ c hc
      · rfl
    · exact ih _ c hc

/-- every item is a leaf or a parent -/
theorem length_views (plan : List Chunk) :
    plan.length = (leavesOf plan).length + (parentsOf plan).length := by
  induction plan with
  | nil => rfl
  | cons c t ih =>
    cases c with
    | leaf s z r rs =>
      have e1 : leavesOf (.leaf s z r rs :: t) = (s, z) :: leavesOf t := rfl
      have e2 : parentsOf (.leaf s z r rs :: t) = parentsOf t := rfl
      rw [e1, e2, List.length_cons, List.length_cons, ih]; omega
    | parent n r l rr rs =>
      have e1 : leavesOf (.parent n r l rr rs :: t) = leavesOf t := rfl
      have e2 : parentsOf (.parent n r l rr rs :: t) = n :: parentsOf t := rfl
      rw [e1, e2, List.length_cons, List.length_cons, ih]; omega

/-! ### the leaf list the predicate wants -/

theorem wantLeaves_eq (size bs : Nat) :
    wantLeaves size bs = (List.range (Tree.blocks ⟨size, bs⟩)).map (leafInfo size bs) := by
  unfold wantLeaves
  rw [C12.blocks_spec]
  congr 1
  funext i
  simp only [leafInfo, Nat.mul_assoc]

theorem wantLeaves_length (size bs : Nat) : (wantLeaves size bs).length = Spec.nBlocks size bs := by
  simp [wantLeaves]

theorem wantLeaves_get (size bs i : Nat) (h : i < (wantLeaves size bs).length) :
    (wantLeaves size bs)[i] = (i * 2 ^ bs, min (2 ^ bs * 1024) (size - i * (2 ^ bs * 1024))) := by
  simp [wantLeaves]

/-- the wanted leaves tile `[0, size)`: leaf `i` starts at byte `i·g` (`g = 2^bs·1024`), has at
most `g` bytes, ends where leaf `i+1` starts, and the last one ends at `size` -/
theorem wantLeaves_tile (size bs i : Nat) (h : i < Spec.nBlocks size bs) :
    let g := 2 ^ bs * 1024
    let z := min g (size - i * g)
    z ≤ g ∧ i * g + z = if i + 1 < Spec.nBlocks size bs then (i + 1) * g else size := by
  intro g z
  refine ⟨Nat.min_le_left _ _, ?_⟩
  rw [← C12.blocks_spec] at h ⊢
  have := leaf_cover size bs i h
  simp only [leafInfo, Nat.mul_assoc] at this
  exact this

/-! ### clause 6: the span walk over the plan of a subtree -/

theorem spanRun_nil (st : List (Nat × Nat)) : spanRun st [] = some st := rfl

theorem spanRun_leaf (st : List (Nat × Nat)) (s z : Nat) (r : Bool) (rs : Ranges) (t : List Chunk) :
    spanRun st (.leaf s z r rs :: t) = spanRun ((s, s + max 1 ((z + 1023) / 1024)) :: st) t := rfl

theorem spanRun_parent {rs re ls le node : Nat} (rest : List (Nat × Nat)) (r l rr : Bool)
    (x : Ranges) (t : List Chunk) (h1 : le = rs) (h2 : rs = Node.mid node) :
    spanRun ((rs, re) :: (ls, le) :: rest) (.parent node r l rr x :: t)
      = spanRun ((ls, re) :: rest) t := by
  have : spanStep (some ((rs, re) :: (ls, le) :: rest)) (.parent node r l rr x)
      = some ((ls, re) :: rest) := by
    simp only [spanStep, h1, ← h2, beq_self_eq_true, Bool.and_self, if_true]
  unfold spanRun
  rw [List.foldl_cons, this]

/-- a parent step that succeeds found two adjacent spans meeting at the node's middle chunk -/
theorem spanStep_parent_inv {st s : List (Nat × Nat)} {node : Nat} {r l rr : Bool} {x : Ranges}
    (h : spanStep (some st) (.parent node r l rr x) = some s) :
    ∃ ls re rest, st = (Node.mid node, re) :: (ls, Node.mid node) :: rest ∧ s = (ls, re) :: rest := by
  match st, h with
  | [], h => simp [spanStep] at h
  | [_], h => simp [spanStep] at h
  | (rs, re) :: (ls, le) :: rest, h =>
    simp only [spanStep, Bool.and_eq_true, beq_iff_eq] at h
    split at h
    · rename_i hc
      obtain ⟨h1, h2⟩ := hc
      subst h1; subst h2
      exact ⟨ls, re, rest, rfl, (Option.some.inj h).symm⟩
    · cases h

theorem spanRun_append (st : List (Nat × Nat)) (a b : List Chunk) :
    spanRun st (a ++ b) = (spanRun st a).bind fun st' => spanRun st' b := by
  unfold spanRun
  rw [List.foldl_append]
  cases List.foldl spanStep (some st) a with
  | some st' => rfl
  | none =>
    simp only [Option.bind_none]
    induction b with
    | nil => rfl
    | cons c b ih => exact ih

/-- no prefix of a plan whose span walk runs through fails -/
theorem span_prefix {plan a b : List Chunk} {st r : List (Nat × Nat)} (h : spanRun st plan = some r)
    (hab : plan = a ++ b) : ∃ s, spanRun st a = some s := by
  rw [hab, spanRun_append] at h
  cases hs : spanRun st a with
  | some s => exact ⟨s, rfl⟩
  | none => rw [hs] at h; simp at h

/-- in a plan whose span walk runs through, every parent item finds — at its position — the spans
of two subtrees on top of the stack: adjacent, meeting exactly at the node's middle chunk -/
theorem span_at_parent {plan a b : List Chunk} {r0 : List (Nat × Nat)} {node : Nat}
    {r l rr : Bool} {x : Ranges} (h : spanRun [] plan = some r0)
    (hab : plan = a ++ .parent node r l rr x :: b) :
    ∃ ls re rest, spanRun [] a = some ((Node.mid node, re) :: (ls, Node.mid node) :: rest) := by
  have hab' : plan = (a ++ [.parent node r l rr x]) ++ b := by rw [hab, List.append_assoc]; rfl
  obtain ⟨s, hs⟩ := span_prefix h hab'
  rw [spanRun_append] at hs
  cases ha : spanRun [] a with
  | none => rw [ha] at hs; simp at hs
  | some st =>
    rw [ha, Option.bind_some] at hs
    change spanStep (some st) (.parent node r l rr x) = some s at hs
    obtain ⟨ls, re, rest, e, _⟩ := spanStep_parent_inv hs
    exact ⟨ls, re, rest, by rw [e]⟩

open Bao.Offsets Bao.Bits in
/-- block `b` of the blob starts before the blob's last chunk ends -/
theorem block_start_lt (size bs b : Nat) (h : b < Tree.blocks ⟨size, bs⟩) :
    b * 2 ^ bs < Spec.nChunks size := by
  unfold Spec.nChunks
  by_cases h0 : b = 0
  · subst h0; omega
  · have := (lt_blocks_iff size bs b (by omega)).mp h
    rw [Nat.pow_add, ← Nat.mul_assoc] at this
    have e10 : (2 : Nat) ^ 10 = 1024 := by decide
    rw [e10] at this
    generalize b * 2 ^ bs = q at *
    omega

open Bao.Offsets Bao.Bits in
/-- a block index at or past `blocks` starts at or past the end of the blob -/
theorem nChunks_le_of_blocks_le (size bs b : Nat) (h : Tree.blocks ⟨size, bs⟩ ≤ b) :
    Spec.nChunks size ≤ b * 2 ^ bs := by
  have hb := blocks_pos size bs
  have := mt (lt_blocks_iff size bs b (by omega)).mpr (by omega)
  rw [Nat.pow_add, ← Nat.mul_assoc] at this
  have e10 : (2 : Nat) ^ 10 = 1024 := by decide
  rw [e10] at this
  have hq : 0 < b * 2 ^ bs := Nat.mul_pos (by omega) (two_pow_pos' bs)
  unfold Spec.nChunks
  generalize b * 2 ^ bs = q at *
  omega

open Bao.Offsets Bao.Bits in
/-- the span pushed by the leaf item of block `b`: its chunks, clipped to the blob -/
theorem leaf_span (size bs b : Nat) (h : b < Tree.blocks ⟨size, bs⟩) :
    b * 2 ^ bs + max 1 ((min (2 ^ bs * 1024) (size - b * 2 ^ bs * 1024) + 1023) / 1024)
      = min ((b + 1) * 2 ^ bs) (Spec.nChunks size) := by
  have hp := two_pow_pos' bs
  have h1 : 0 < b → b * 2 ^ bs * 1024 < size := by
    intro hb
    have := (lt_blocks_iff size bs b hb).mp h
    rwa [Nat.pow_add, ← Nat.mul_assoc] at this
  have h2 := lt_blocks_iff size bs (b + 1) (by omega)
  rw [Nat.pow_add, ← Nat.mul_assoc, Nat.add_mul, Nat.one_mul] at h2
  have e10 : (2 : Nat) ^ 10 = 1024 := by decide
  rw [e10] at h2
  have h0 : b = 0 → b * 2 ^ bs = 0 := by intro hb; rw [hb, Nat.zero_mul]
  rw [Nat.add_mul, Nat.one_mul]
  unfold Spec.nChunks
  generalize b * 2 ^ bs = q at *
  generalize 2 ^ bs = p at *
  by_cases hb : 0 < b
  · have := h1 hb
    by_cases hn : b + 1 < Tree.blocks ⟨size, bs⟩
    · have := h2.mp hn; omega
    · have := mt h2.mpr hn; omega
  · have := h0 (by omega)
    by_cases hn : b + 1 < Tree.blocks ⟨size, bs⟩
    · have := h2.mp hn; omega
    · have := mt h2.mpr hn; omega

theorem midOf_shift (k L bs : Nat) : Spec.midOf k L * 2 ^ bs = Spec.midOf k (L + bs) := by
  unfold Spec.midOf
  rw [Nat.add_mul, Nat.mul_assoc, ← Nat.pow_add, ← Nat.pow_add, Nat.add_right_comm L 1 bs]

section spans
open Bao.Spec Bao.Offsets Bao.Bits
variable {size bs F : Nat} (g : Geo size bs F) (root : Nat)
include g

/-- running the span walk over the plan of the non-empty subtree `(k, L)` of the shifted tree
pushes exactly the chunk span of that subtree, clipped to the blob -/
theorem span_planD (L k : Nat) (hne : startOf k L < F) (st : List (Nat × Nat)) :
    spanRun st (planD size bs root F L k)
      = some ((startOf k L * 2 ^ bs, min (endOf k L * 2 ^ bs) (nChunks size)) :: st) := by
  have hodd := g.odd; have hle := g.le; have hge := g.ge
  induction L generalizing k st with
  | zero =>
    rw [startOf_zero] at hne
    rw [endOf_start, startOf_zero, Nat.zero_add, Nat.pow_one]
    by_cases h : 2 * k + 1 < Tree.blocks ⟨size, bs⟩
    · have ha := block_start_lt size bs _ h
      obtain ⟨_, hmid⟩ := chunkRange_up bs k g.hbs
      rw [planD_zero_full g root h]
      simp only [leafItem]
      rw [spanRun_leaf, leaf_span size bs _ (by omega), spanRun_leaf, leaf_span size bs _ h,
        spanRun_parent _ _ _ _ _ _ (Nat.min_eq_left (Nat.le_of_lt ha))
          (by rw [hmid, odd_mul]), spanRun_nil]
    · have hb := nChunks_le_of_blocks_le size bs (2 * k + 1) (by omega)
      have hb2 := nChunks_le_of_blocks_le size bs (2 * k + 2) (by omega)
      rw [planD_zero_half g root hne (by omega)]
      simp only [leafItem]
      rw [spanRun_leaf, leaf_span size bs _ (by omega), spanRun_nil, Nat.min_eq_right hb,
        Nat.min_eq_right hb2]
  | succ L ih =>
    by_cases h : nodeOf k (L + 1) < F
    · have hl : startOf (2 * k) L < F := by
        rw [Offsets.startOf_left]
        have := nodeOf_start k (L + 1); have := two_pow_pos' (L + 1); omega
      have hr := (right_nonempty hodd h).1
      have ha := block_start_lt size bs (startOf (2 * k + 1) L) (by omega)
      rw [planD_succ_pos g root h, spanRun_append, spanRun_append, ih _ hl, Option.bind_some,
        ih _ hr, Option.bind_some, Bits.endOf_left, Bits.startOf_right,
        Bits.endOf_right, Offsets.startOf_left]
      rw [Bits.startOf_right] at ha
      rw [spanRun_parent _ _ _ _ _ _ (Nat.min_eq_left (Nat.le_of_lt ha))
        (by rw [up_nodeOf, C18.mid_spec, midOf_shift]), spanRun_nil]
    · have hB : Tree.blocks ⟨size, bs⟩ ≤ endOf (2 * k) L := by
        rw [endOf_start, Offsets.startOf_left]
        have := nodeOf_start k (L + 1); have := two_pow_pos' (L + 1); omega
      have hB2 : Tree.blocks ⟨size, bs⟩ ≤ endOf k (L + 1) := by
        rw [← Bits.endOf_right, endOf_start, Offsets.startOf_right]
        rw [endOf_start, Offsets.startOf_left] at hB
        omega
      rw [planD_succ_neg root h, ih _ (by rw [Offsets.startOf_left]; exact hne),
        Offsets.startOf_left,
        Nat.min_eq_right (nChunks_le_of_blocks_le size bs _ hB),
        Nat.min_eq_right (nChunks_le_of_blocks_le size bs _ hB2)]

end spans

/-- the span walk over the model plan ends with the single span `[0, nChunks)` -/
theorem span_plan (size bs : Nat) (hs : size ≤ 2 ^ 63) (hbs : bs ≤ 10) :
    spanRun [] (Tree.postOrderChunks ⟨size, bs⟩) = some [(0, Spec.nChunks size)] := by
  obtain ⟨_, _, hlt, hF⟩ := rootLevel_spec size bs hs
  have g := shifted_geo size bs hs hbs
  have hge := g.ge
  have hB : Tree.blocks ⟨size, bs⟩ ≤ Spec.endOf 0 (rootLevel ⟨size, bs⟩) := by
    simp only [Spec.endOf, Nat.zero_add, Nat.one_mul]; omega
  rw [plan_rec size bs hs hbs, ← planD_eq_planRec g,
    span_planD g _ _ 0 (by simp only [Spec.startOf, Nat.zero_mul]; omega) [],
    Nat.min_eq_right (nChunks_le_of_blocks_le size bs _ hB)]
  simp only [Spec.startOf, Nat.zero_mul]

end Bao.SpecPost
