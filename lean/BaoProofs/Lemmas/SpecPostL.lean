import BaoModel.Ops1
import BaoProofs.Props.C15Post
import BaoProofs.Props.C12

/-!
# Lemmas for `Bao.Ops.planPostWF` (the executable specification predicate of the post-order plan)

`planPostWF size bs plan = none` is unfolded into five clauses over the plan views of
`BaoProofs/Lemmas/NodeIter.lean` (`leavesOf`, `stackRun`, `rootFlag`, `parentsOf`) and `bothFlags`:
`planPostWF_none_iff`.  The match expressions written inline in the predicate are restated here as
definitions with the same source text (`leafView`, `parentView`, `notBoth`, `stackStep'`), which
are definitionally the predicate's, and then related to the views by case analysis.
-/

namespace Bao.SpecPost

open Bao Bao.NodeIterL Bao.Ops

/-- the leaf list the predicate compares with: block `i` starts at chunk `i·2^bs` and has
`min g (size − i·g)` bytes, `g = 2^bs·1024` -/
def wantLeaves (size bs : Nat) : List (Nat × Nat) :=
  (List.range (Spec.nBlocks size bs)).map
    fun i => (i * 2 ^ bs, min (2 ^ bs * 1024) (size - i * (2 ^ bs * 1024)))

/-- a parent item flags both children (leaf items: vacuously) -/
def bothFlags : Chunk → Bool
  | .parent _ _ l r _ => l && r
  | .leaf .. => true

/-! ### the five clauses of the predicate -/

/-- clause 1: the leaf items are exactly the blocks `0 … nBlocks-1`, in order -/
def LeavesTile (size bs : Nat) (plan : List Chunk) : Prop := leavesOf plan = wantLeaves size bs

/-- clause 2: the hash stack run from the empty stack does not underflow and ends at height 1 -/
def StackOk (plan : List Chunk) : Prop := stackRun 0 plan = some 1

/-- clause 3: the root flags are `false, …, false, true` -/
def RootLast (plan : List Chunk) : Prop :=
  plan.map rootFlag = List.replicate (plan.length - 1) false ++ [true]

/-- clause 4: the parent items are the persisted nodes in post-order -/
def ParentsPersisted (size bs : Nat) (plan : List Chunk) : Prop :=
  parentsOf plan = Spec.persistedPost size bs

/-- clause 5: every parent item flags both children -/
def BothChildren (plan : List Chunk) : Prop := ∀ c ∈ plan, bothFlags c = true

/-! ### the predicate's inline matches as definitions -/

def leafView (c : Chunk) : Option (Nat × Nat) :=
  match c with | .leaf s z _ _ => some (s, z) | _ => none

def parentView (c : Chunk) : Option Nat :=
  match c with | .parent node _ _ _ _ => some node | _ => none

def notBoth (c : Chunk) : Bool :=
  match c with | .parent _ _ l r _ => !(l && r) | _ => false

def stackStep' (h : Option Nat) (c : Chunk) : Option Nat :=
    match h with
    | none => none
    | some h =>
      match c with
      | .parent .. => if h < 2 then none else some (h - 1)
      | .leaf .. => some (h + 1)

theorem view_leaves (plan : List Chunk) : plan.filterMap leafView = leavesOf plan := by
  unfold leavesOf; congr 1; funext c; cases c <;> rfl

theorem view_parents (plan : List Chunk) : plan.filterMap parentView = parentsOf plan := by
  unfold parentsOf; congr 1; funext c; cases c <;> rfl

theorem view_both (c : Chunk) : notBoth c = !bothFlags c := by
  cases c <;> rfl

theorem view_stack : stackStep' = stackStep := by
  funext h c
  cases h with
  | none => rfl
  | some h =>
    cases c with
    | leaf => rfl
    | parent =>
      simp only [stackStep, stackStep']
      split <;> split <;> first | rfl | omega

/-- the predicate accepts a plan iff the five clauses hold -/
theorem planPostWF_none_iff (size bs : Nat) (plan : List Chunk) :
    planPostWF size bs plan = none ↔
      LeavesTile size bs plan ∧ StackOk plan ∧ RootLast plan ∧ ParentsPersisted size bs plan ∧
      BothChildren plan := by
  unfold LeavesTile StackOk RootLast ParentsPersisted BothChildren planPostWF
  simp only []
  change (if (plan.filterMap leafView != wantLeaves size bs) = true then _ else
    if (plan.foldl stackStep' (some 0) != some 1) = true then _ else
    if (plan.map rootFlag != _) = true then _ else
    if (plan.filterMap parentView != _) = true then _ else 
    if (plan.any notBoth) = true then _ else _) = none ↔ _
  rw [view_stack, view_leaves, view_parents]
  change (if (leavesOf plan != wantLeaves size bs) = true then _ else
    if (stackRun 0 plan != some 1) = true then _ else _) = none ↔ _
  simp only [bne_iff_ne, ne_eq, ite_not]
  have hany : plan.any notBoth = true ↔ ¬ ∀ c ∈ plan, bothFlags c = true := by
    simp only [List.any_eq_true, view_both, Bool.not_eq_true', Classical.not_forall,
      Bool.not_eq_true, exists_prop]
  by_cases h1 : leavesOf plan = wantLeaves size bs
  · by_cases h2 : stackRun 0 plan = some 1
    · by_cases h3 : plan.map rootFlag = List.replicate (plan.length - 1) false ++ [true]
      · by_cases h4 : parentsOf plan = Spec.persistedPost size bs
        · by_cases h5 : ∀ c ∈ plan, bothFlags c = true
          · simp only [h1, h2, h3, h4, if_true, if_neg (mt hany.mp (not_not_intro h5)), true_and]
            exact ⟨fun _ => h5, fun _ => trivial⟩
          · simp only [h1, h2, h3, h4, if_true, if_pos (hany.mpr h5), true_and]
            exact ⟨fun h => (by cases h), fun h => absurd h h5⟩
        · simp [h1, h2, h3, h4]
      · simp [h1, h2, h3]
    · simp [h1, h2]
  · simp [h1]

/-! ### root flag clause in split form -/

theorem rootLast_of_split {plan init : List Chunk} {last : Chunk} (h : plan = init ++ [last])
    (hl : rootFlag last = true) (hi : ∀ c ∈ init, rootFlag c = false) :
    plan.map rootFlag = List.replicate (plan.length - 1) false ++ [true] := by
  subst h
  rw [List.map_append, List.length_append, List.length_singleton, Nat.add_sub_cancel,
    List.map_singleton, hl]
  congr 1
  rw [List.eq_replicate_iff]
  refine ⟨List.length_map _, ?_⟩
  intro b hb
  obtain ⟨c, hc, rfl⟩ := List.mem_map.mp hb
  exact hi c hc

theorem split_of_rootLast {plan : List Chunk}
    (h : plan.map rootFlag = List.replicate (plan.length - 1) false ++ [true]) :
    ∃ init last, plan = init ++ [last] ∧ rootFlag last = true ∧ ∀ c ∈ init, rootFlag c = false := by
  rcases List.eq_nil_or_concat plan with rfl | ⟨init, last, rfl⟩
  · simp at h
  · rw [List.concat_eq_append] at h ⊢
    rw [List.map_append, List.length_append, List.length_singleton, Nat.add_sub_cancel,
      List.map_singleton] at h
    have hlen : (init.map rootFlag).length = (List.replicate init.length false).length := by
      rw [List.length_map, List.length_replicate]
    obtain ⟨h1, h2⟩ := List.append_inj h hlen
    refine ⟨init, last, rfl, by simpa using h2, ?_⟩
    intro c hc
    exact (List.eq_replicate_iff.mp h1).2 _ (List.mem_map.mpr ⟨c, hc, rfl⟩)

/-! ### every parent item of the recursion flags both children -/

theorem both_planRec (size bs root F : Nat) (L k : Nat) :
    ∀ c ∈ planRec size bs root F L k, bothFlags c = true := by
  induction L generalizing k with
  | zero =>
    intro c hc
    simp only [planRec] at hc
    split at hc
    · split at hc
      · simp only [List.mem_cons, List.not_mem_nil, or_false] at hc
        rcases hc with rfl | rfl | rfl <;> rfl
      · simp only [List.mem_cons, List.not_mem_nil, or_false] at hc
        subst hc; rfl
    · simp at hc
  | succ L ih =>
    intro c hc
    simp only [planRec] at hc
    split at hc
    · simp only [List.mem_append, List.mem_cons, List.not_mem_nil, or_false] at hc
      rcases hc with (hc | hc) | rfl
      · exact ih _ c hc
      · exact ih _ c hc
      · rfl
    · exact ih _ c hc

/-- every item is a leaf or a parent -/
theorem length_views (plan : List Chunk) :
    plan.length = (leavesOf plan).length + (parentsOf plan).length := by
  induction plan with
  | nil => rfl
  | cons c t ih =>
    cases c with
    | leaf s z r rs =>
      have e1 : leavesOf (.leaf s z r rs :: t) = (s, z) :: leavesOf t := rfl
      have e2 : parentsOf (.leaf s z r rs :: t) = parentsOf t := rfl
      rw [e1, e2, List.length_cons, List.length_cons, ih]; omega
    | parent n r l rr rs =>
      have e1 : leavesOf (.parent n r l rr rs :: t) = leavesOf t := rfl
      have e2 : parentsOf (.parent n r l rr rs :: t) = n :: parentsOf t := rfl
      rw [e1, e2, List.length_cons, List.length_cons, ih]; omega

/-! ### the leaf list the predicate wants -/

theorem wantLeaves_eq (size bs : Nat) :
    wantLeaves size bs = (List.range (Tree.blocks ⟨size, bs⟩)).map (leafInfo size bs) := by
  unfold wantLeaves
  rw [C12.blocks_spec]
  congr 1
  funext i
  simp only [leafInfo, Nat.mul_assoc]

theorem wantLeaves_length (size bs : Nat) : (wantLeaves size bs).length = Spec.nBlocks size bs := by
  simp [wantLeaves]

theorem wantLeaves_get (size bs i : Nat) (h : i < (wantLeaves size bs).length) :
    (wantLeaves size bs)[i] = (i * 2 ^ bs, min (2 ^ bs * 1024) (size - i * (2 ^ bs * 1024))) := by
  simp [wantLeaves]

/-- the wanted leaves tile `[0, size)`: leaf `i` starts at byte `i·g` (`g = 2^bs·1024`), has at
most `g` bytes, ends where leaf `i+1` starts, and the last one ends at `size` -/
theorem wantLeaves_tile (size bs i : Nat) (h : i < Spec.nBlocks size bs) :
    let g := 2 ^ bs * 1024
    let z := min g (size - i * g)
    z ≤ g ∧ i * g + z = if i + 1 < Spec.nBlocks size bs then (i + 1) * g else size := by
  intro g z
  refine ⟨Nat.min_le_left _ _, ?_⟩
  rw [← C12.blocks_spec] at h ⊢
  have := leaf_cover size bs i h
  simp only [leafInfo, Nat.mul_assoc] at this
  exact this

end Bao.SpecPost
