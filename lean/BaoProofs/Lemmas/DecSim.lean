import BaoModel.Validate
import BaoProofs.Lemmas.Offsets

/-!
# Simulation lemmas for the decoders and encoders (C08, C20)

* `next_sim`: one step of the sync decoder and one step of the fsm decoder return the same
  item / error / done / panic; the successor states are equal, except that after an error the
  (dead) hash stacks differ.  `runAux_eq`, `decodeRangesAux_eq`: whole runs are equal.
* `encodeValidatedLoop_flavour`, `encodePlainLoop_flavour`: the encoders depend on the flavour only
  through `Store.load` on the parent nodes of the plan.
* `selectedRec_sim`, `traverseLoop_sim`: the item-stream traversal and the validating byte encoder
  run in lock step.  `plainLoop_eq_of_ok`: plain encoder = validating encoder when all checks pass.
* `prePartial_next_tree`: the plan iterator never changes `tree` / `minFullLevel`.
* `next_item`, `next_err`, `next_done`: what a decoder step does to `tree`, `hash`, `encoded`, and
  what the same step does on a longer stream (`app d x`).  `runAux_consumed`, `runAux_app`.
* `Steps`, `Reach`: sequences of decoder steps.
* `load_flavour_of_slot`, `load_flavour_mem`, `load_flavour_persisted`: when `Store.load` does not
  depend on the flavour.
* `encodeRangesValidated_flavour`, `encodeRanges_flavour`, `encodeRanges_eq_validated_of_ok`,
  `traverseRangesValidated_spec`: the same facts for the entry points.
* `validateRec_flavour`, `validRanges_flavour`, `validOutboardRanges_flavour`: the validators.
-/

namespace Bao.DecSim
open Bao

variable {H : Type}

/-! ## decoder step simulation -/


/-- forget the (dead) stack of the state returned together with an error -/
def killErr : DecNext H (Dec H) → DecNext H (Dec H)
  | .err e d => .err e { d with stack := [] }
  | x => x

theorem next_sim (hf : HashFns H) [BEq H] (d : Dec H) :
    killErr (d.nextSync hf) = killErr (d.nextFsm hf) := by
  unfold Dec.nextSync Dec.nextFsm
  cases h : Response.next d.iter with
  | done => rfl
  | panic => rfl
  | item c it =>
    cases c with
    | parent node isRoot left right rs =>
      simp only
      cases hr : readExact d.encoded 64 with
      | error e => rfl
      | ok p =>
        obtain ⟨buf, rest⟩ := p
        simp only
        cases hs : d.stack with
        | nil => rfl
        | cons ph st =>
          simp only
          split <;> rfl
    | leaf start size isRoot rs => simp only

theorem runAux_eq (hf : HashFns H) [BEq H] (fuel : Nat) (d : Dec H) :
    Dec.runAux hf .sync fuel d = Dec.runAux hf .fsm fuel d := by
  induction fuel generalizing d with
  | zero => rfl
  | succ n ih =>
    have h := next_sim hf d
    unfold Dec.runAux
    simp only [Dec.next]
    cases hs : d.nextSync hf <;> cases hf' : d.nextFsm hf <;> simp [hs, hf', killErr] at h ⊢
    · obtain ⟨rfl, rfl⟩ := h; simp [ih]
    · exact ⟨h.1, h.2.2.1⟩
    · rw [h]

theorem decodeRangesAux_eq (hf : HashFns H) [BEq H] (tree : Tree) (fuel : Nat) (d : Dec H)
    (sink : Sink H) (ws : List (Nat × Nat)) (ss : List Nat) :
    decodeRangesAux hf .sync tree fuel d sink ws ss = decodeRangesAux hf .fsm tree fuel d sink ws ss := by
  induction fuel generalizing d sink ws ss with
  | zero => rfl
  | succ n ih =>
    have h := next_sim hf d
    unfold decodeRangesAux
    simp only [Dec.next]
    cases hs : d.nextSync hf <;> cases hf' : d.nextFsm hf <;> simp [hs, hf', killErr] at h ⊢
    · obtain ⟨rfl, rfl⟩ := h
      rename_i i s
      cases i with
      | parent node l r =>
        simp only
        split
        · split <;> simp [ih]
        · exact ih ..
      | leaf off data => exact ih ..
    · exact ⟨h.1, h.2.2.1⟩
    · rw [h]

/-! ## encoders -/


/-- the nodes whose hash pair a plan loads -/
def planParents : List Chunk → List Nat
  | [] => []
  | .parent n _ _ _ _ :: p => n :: planParents p
  | .leaf _ _ _ _ :: p => planParents p

theorem prePartialChunks_nil (t : Tree) (ml : Nat) : Tree.prePartialChunks t [] ml = some [] := by
  simp [Tree.prePartialChunks, PrePartial.fuelFor, PrePartial.new, PrePartial.run, PrePartial.next]

theorem truncate_nil (size : Nat) : Ranges.truncate [] size = [] := by
  simp [Ranges.truncate]

theorem encodeValidatedLoop_flavour (hf : HashFns H) [BEq H] (data : List UInt8) (ob : Store H)
    (plan : List Chunk) (stack : List H) (out : List UInt8)
    (h : ∀ node ∈ planParents plan, ob.load hf .sync node = ob.load hf .fsm node) :
    encodeValidatedLoop hf .sync data ob plan stack out
      = encodeValidatedLoop hf .fsm data ob plan stack out := by
  induction plan generalizing stack out with
  | nil => rfl
  | cons c plan ih =>
    cases c with
    | parent node isRoot left right rs =>
      have hn := h node (by simp [planParents])
      have ih' := fun stack out => ih stack out (fun n hn => h n (by simp [planParents, hn]))
      simp only [encodeValidatedLoop, hn]
      repeat' split
      all_goals first | rfl | exact ih' ..
    | leaf start size isRoot rs =>
      have ih' := fun stack out => ih stack out (fun n hn => h n (by simp [planParents, hn]))
      simp only [encodeValidatedLoop]
      repeat' split
      all_goals first | rfl | exact ih' ..

theorem encodePlainLoop_flavour (hf : HashFns H) (data : List UInt8) (ob : Store H)
    (plan : List Chunk) (out : List UInt8)
    (h : ∀ node ∈ planParents plan, ob.load hf .sync node = ob.load hf .fsm node) :
    encodePlainLoop hf .sync data ob plan out = encodePlainLoop hf .fsm data ob plan out := by
  induction plan generalizing out with
  | nil => rfl
  | cons c plan ih =>
    cases c with
    | parent node isRoot left right rs =>
      have hn := h node (by simp [planParents])
      have ih' := fun out => ih out (fun n hn => h n (by simp [planParents, hn]))
      simp only [encodePlainLoop, hn]
      repeat' split
      all_goals first | rfl | exact ih' ..
    | leaf start size isRoot rs =>
      have ih' := fun out => ih out (fun n hn => h n (by simp [planParents, hn]))
      simp only [encodePlainLoop]
      repeat' split
      all_goals first | rfl | exact ih' ..

/-! ## item-stream traversal -/


/-- the wire bytes of an item -/
def itemBytes (hf : HashFns H) : Item H → List UInt8
  | .parent _ l r => hf.toBytes l ++ hf.toBytes r
  | .leaf _ d => d

theorem flatten_toEncoded (hf : HashFns H) (i : Item H) :
    EncodedItem.flatten hf i.toEncoded = itemBytes hf i := by
  cases i <;> rfl

theorem flatMap_flatten_map (hf : HashFns H) (its : List (Item H)) :
    (its.map Item.toEncoded).flatMap (EncodedItem.flatten hf) = its.flatMap (itemBytes hf) := by
  induction its with
  | nil => rfl
  | cons i its ih => simp [flatten_toEncoded, ih]

/-- `traverse_selected_rec` and `encode_selected_rec`: same hash, and the items flatten to the bytes -/
theorem selectedRec_sim (hf : HashFns H) (L start : Nat) (data : List UInt8) (isRoot : Bool)
    (q : Ranges) (ml : Nat) (em : Bool) :
    (traverseSelectedRec hf L start data isRoot q ml em).1
        = (encodeSelectedRec hf L start data isRoot q ml em).1 ∧
    (traverseSelectedRec hf L start data isRoot q ml em).2.flatMap (itemBytes hf)
        = (encodeSelectedRec hf L start data isRoot q ml em).2 := by
  induction L generalizing start data isRoot q with
  | zero =>
    simp only [traverseSelectedRec, encodeSelectedRec, true_and]
    split <;> simp [itemBytes]
  | succ L ih =>
    simp only [traverseSelectedRec, encodeSelectedRec]
    split
    · simp only [true_and]
      split <;> simp [itemBytes]
    · split
      · exact ih ..
      · have hl := ih start (data.take (2 ^ L * chunkLen)) false (Ranges.splitInner q start (start + 2 ^ L)).1
        have hr := ih (start + 2 ^ L) (data.drop (2 ^ L * chunkLen)) false (Ranges.splitInner q start (start + 2 ^ L)).2
        simp only [hl.1, hr.1, true_and, List.flatMap_append, hl.2, hr.2]
        split <;> simp [itemBytes]

/-- the item loop and the byte loop (sync loads) run in lock step -/
theorem traverseLoop_sim (hf : HashFns H) [BEq H] (data : List UInt8) (ob : Store H)
    (plan : List Chunk) (stack : List H) (out : List (EncodedItem H)) (outB : List UInt8) :
    ∃ its : List (Item H),
      (traverseLoop hf data ob plan stack out).1 = out ++ its.map Item.toEncoded ∧
      (encodeValidatedLoop hf .sync data ob plan stack outB).out = outB ++ its.flatMap (itemBytes hf) ∧
      (traverseLoop hf data ob plan stack out).2
        = (encodeValidatedLoop hf .sync data ob plan stack outB).terminal := by
  induction plan generalizing stack out outB with
  | nil => exact ⟨[], by simp [traverseLoop, encodeValidatedLoop]⟩
  | cons c plan ih =>
    cases c with
    | parent node isRoot left right rs =>
      simp only [traverseLoop, encodeValidatedLoop]
      cases ob.load hf .sync node with
      | err e => exact ⟨[], by simp⟩
      | panic => exact ⟨[], by simp⟩
      | ok o =>
        cases o with
        | none => exact ⟨[], by simp⟩
        | some p =>
          obtain ⟨l, r⟩ := p
          cases stack with
          | nil => exact ⟨[], by simp⟩
          | cons ex st =>
            simp only
            split
            · exact ⟨[], by simp⟩
            · obtain ⟨its, h1, h2, h3⟩ := ih (if left then l :: (if right then r :: st else st) else (if right then r :: st else st))
                (out ++ [.parent node l r]) (outB ++ hf.toBytes l ++ hf.toBytes r)
              exact ⟨.parent node l r :: its, by simp [h1, Item.toEncoded], by rw [h2]; simp [itemBytes], h3⟩
    | leaf start size isRoot rs =>
      simp only [traverseLoop, encodeValidatedLoop]
      cases stack with
      | nil => exact ⟨[], by simp⟩
      | cons ex st =>
        simp only
        cases readExactAt data (toBytes start) size with
        | error e => exact ⟨[], by simp⟩
        | ok buf =>
          simp only
          have hs := selectedRec_sim hf recFuel start buf isRoot rs ob.tree.bs true
          split
          · simp only [hs.1]
            split
            · exact ⟨[], by simp⟩
            · obtain ⟨its, h1, h2, h3⟩ := ih st
                (out ++ (traverseSelectedRec hf recFuel start buf isRoot rs ob.tree.bs true).2.map Item.toEncoded)
                (outB ++ (encodeSelectedRec hf recFuel start buf isRoot rs ob.tree.bs true).2)
              exact ⟨(traverseSelectedRec hf recFuel start buf isRoot rs ob.tree.bs true).2 ++ its,
                by simp [h1], by simp [h2, hs.2], h3⟩
          · simp only
            split
            · exact ⟨[], by simp⟩
            · obtain ⟨its, h1, h2, h3⟩ := ih st (out ++ [.leaf (toBytes start) buf]) (outB ++ buf)
              exact ⟨.leaf (toBytes start) buf :: its, by simp [h1, Item.toEncoded],
                by simp [h2, itemBytes], h3⟩

/-- when every check passes the plain encoder writes what the validating encoder writes -/
theorem plainLoop_eq_of_ok (hf : HashFns H) [BEq H] (fl : Flavour) (data : List UInt8) (ob : Store H)
    (plan : List Chunk) (stack : List H) (out : List UInt8)
    (h : (encodeValidatedLoop hf fl data ob plan stack out).terminal = .ok) :
    encodePlainLoop hf fl data ob plan out = encodeValidatedLoop hf fl data ob plan stack out := by
  induction plan generalizing stack out with
  | nil => rfl
  | cons c plan ih =>
    cases c with
    | parent node isRoot left right rs =>
      simp only [encodePlainLoop, encodeValidatedLoop] at h ⊢
      cases hl : ob.load hf fl node with
      | err e => rfl
      | panic => rfl
      | ok o =>
        cases o with
        | none => rfl
        | some p =>
          obtain ⟨l, r⟩ := p
          simp only [hl] at h ⊢
          cases stack with
          | nil => simp at h
          | cons ex st =>
            simp only at h ⊢
            split at h
            · simp at h
            · rw [if_neg (by assumption)]
              exact ih _ _ h
    | leaf start size isRoot rs =>
      simp only [encodePlainLoop, encodeValidatedLoop] at h ⊢
      cases stack with
      | nil => simp at h
      | cons ex st =>
        simp only at h ⊢
        cases hr : readExactAt data (toBytes start) size with
        | error e => rfl
        | ok buf =>
          simp only [hr] at h ⊢
          by_cases hall : (!Ranges.isAll rs) = true
          · simp only [hall, if_true] at h ⊢
            split at h
            · simp at h
            · rw [if_neg (by assumption)]
              exact ih _ _ h
          · simp only [hall, Bool.false_eq_true, ↓reduceIte] at h ⊢
            split at h
            · simp at h
            · rw [if_neg (by assumption)]
              exact ih _ _ h

/-! ## the plan iterator keeps its geometry -/

theorem prePartial_next_tree {it it' : PrePartial} {c : Chunk} (h : it.next = .item c it') :
    it'.tree = it.tree ∧ it'.minFullLevel = it.minFullLevel := by
  unfold PrePartial.next at h
  split at h
  · simp only [IterNext.item.injEq] at h; obtain ⟨_, rfl⟩ := h; exact ⟨rfl, rfl⟩
  · split at h
    · cases h
    · split at h
      · cases h
      · dsimp only at h
        split at h
        · simp only [IterNext.item.injEq] at h; obtain ⟨_, rfl⟩ := h; exact ⟨rfl, rfl⟩
        · split at h
          · split at h
            · cases h
            · split at h
              · cases h
              · simp only [IterNext.item.injEq] at h; obtain ⟨_, rfl⟩ := h; exact ⟨rfl, rfl⟩
          · split at h
            · simp only [IterNext.item.injEq] at h; obtain ⟨_, rfl⟩ := h; exact ⟨rfl, rfl⟩
            · simp only [IterNext.item.injEq] at h; obtain ⟨_, rfl⟩ := h; exact ⟨rfl, rfl⟩

theorem response_next_tree {it it' : PrePartial} {c : Chunk} (h : Response.next it = .item c it') :
    it'.tree = it.tree ∧ it'.minFullLevel = it.minFullLevel := by
  unfold Response.next at h
  split at h
  · simp only [IterNext.item.injEq] at h
    obtain ⟨_, rfl⟩ := h
    exact prePartial_next_tree (by assumption)
  · cases h
  · cases h

theorem response_tree_new (t : Tree) (q : Ranges) : Response.tree (Response.new t q) = t := by
  simp [Response.tree, Response.new, PrePartial.new]

/-! ## decoder steps: geometry, hash, reader position -/

theorem readExact_ok {s : List UInt8} {n : Nat} {buf rest : List UInt8}
    (h : readExact s n = .ok (buf, rest)) : s = buf ++ rest ∧ buf.length = n := by
  unfold readExact at h
  split at h
  · simp only [Except.ok.injEq, Prod.mk.injEq] at h
    obtain ⟨rfl, rfl⟩ := h
    exact ⟨(List.take_append_drop n s).symm, by simp; omega⟩
  · cases h

theorem readExact_append {s : List UInt8} {n : Nat} {buf rest : List UInt8}
    (h : readExact s n = .ok (buf, rest)) (x : List UInt8) :
    readExact (s ++ x) n = .ok (buf, rest ++ x) := by
  unfold readExact at h ⊢
  split at h
  · rename_i hn
    simp only [Except.ok.injEq, Prod.mk.injEq] at h
    obtain ⟨rfl, rfl⟩ := h
    rw [if_pos (by simp; omega)]
    simp [List.take_append_of_le_length hn, List.drop_append_of_le_length hn]
  · cases h

/-- bytes an item occupies on the wire -/
def itemSize : Item H → Nat
  | .parent _ _ _ => 64
  | .leaf _ d => d.length

/-- the same decoder reading from a longer stream -/
def app (d : Dec H) (x : List UInt8) : Dec H := { d with encoded := d.encoded ++ x }

theorem nextSync_item (hf : HashFns H) [BEq H] {d d' : Dec H} {i : Item H}
    (h : d.nextSync hf = .item i d') :
    (∃ c, Response.next d.iter = .item c d'.iter) ∧ d'.hash = d.hash ∧
    (∃ buf, d.encoded = buf ++ d'.encoded ∧ buf.length = itemSize i) ∧
    ∀ x, (app d x).nextSync hf = .item i (app d' x) := by
  unfold Dec.nextSync at h
  cases hr : Response.next d.iter with
  | done => simp [hr] at h
  | panic => simp [hr] at h
  | item c it =>
    cases c with
    | parent node isRoot left right rs =>
      simp only [hr] at h
      cases hx : readExact d.encoded 64 with
      | error e => simp [hx] at h
      | ok p =>
        obtain ⟨buf, rest⟩ := p
        simp only [hx] at h
        cases hs : d.stack with
        | nil => simp [hs] at h
        | cons ph st =>
          simp only [hs] at h
          split at h
          · cases h
          · simp only [DecNext.item.injEq] at h
            obtain ⟨rfl, rfl⟩ := h
            obtain ⟨h1, h2⟩ := readExact_ok hx
            refine ⟨⟨_, rfl⟩, rfl, ⟨buf, h1, h2⟩, fun x => ?_⟩
            unfold Dec.nextSync
            simp only [app, hr, readExact_append hx x, hs]
            rw [if_neg (by assumption)]
    | leaf start size isRoot rs =>
      simp only [hr] at h
      cases hx : readExact d.encoded size with
      | error e => simp [hx] at h
      | ok p =>
        obtain ⟨buf, rest⟩ := p
        simp only [hx] at h
        cases hs : d.stack with
        | nil => simp [hs] at h
        | cons ph st =>
          simp only [hs] at h
          split at h
          · cases h
          · simp only [DecNext.item.injEq] at h
            obtain ⟨rfl, rfl⟩ := h
            obtain ⟨h1, h2⟩ := readExact_ok hx
            refine ⟨⟨_, rfl⟩, rfl, ⟨buf, h1, ?_⟩, fun x => ?_⟩
            · simp only [itemSize]
            · unfold Dec.nextSync
              simp only [app, hr, readExact_append hx x, hs]
              rw [if_neg (by assumption)]

theorem nextSync_err (hf : HashFns H) [BEq H] {d d' : Dec H} {e : DecodeError}
    (h : d.nextSync hf = .err e d') :
    (∃ c, Response.next d.iter = .item c d'.iter) ∧ d'.hash = d.hash ∧
    ∃ buf, d.encoded = buf ++ d'.encoded := by
  unfold Dec.nextSync at h
  cases hr : Response.next d.iter with
  | done => simp [hr] at h
  | panic => simp [hr] at h
  | item c it =>
    cases c with
    | parent node isRoot left right rs =>
      simp only [hr] at h
      cases hx : readExact d.encoded 64 with
      | error e =>
        simp only [hx, DecNext.err.injEq] at h
        obtain ⟨_, rfl⟩ := h
        exact ⟨⟨_, rfl⟩, rfl, [], rfl⟩
      | ok p =>
        obtain ⟨buf, rest⟩ := p
        simp only [hx] at h
        cases hs : d.stack with
        | nil => simp [hs] at h
        | cons ph st =>
          simp only [hs] at h
          split at h
          · simp only [DecNext.err.injEq] at h
            obtain ⟨_, rfl⟩ := h
            exact ⟨⟨_, rfl⟩, rfl, buf, (readExact_ok hx).1⟩
          · cases h
    | leaf start size isRoot rs =>
      simp only [hr] at h
      cases hx : readExact d.encoded size with
      | error e =>
        simp only [hx, DecNext.err.injEq] at h
        obtain ⟨_, rfl⟩ := h
        exact ⟨⟨_, rfl⟩, rfl, [], rfl⟩
      | ok p =>
        obtain ⟨buf, rest⟩ := p
        simp only [hx] at h
        cases hs : d.stack with
        | nil => simp [hs] at h
        | cons ph st =>
          simp only [hs] at h
          split at h
          · simp only [DecNext.err.injEq] at h
            obtain ⟨_, rfl⟩ := h
            exact ⟨⟨_, rfl⟩, rfl, buf, (readExact_ok hx).1⟩
          · cases h

theorem nextSync_done (hf : HashFns H) [BEq H] {d d' : Dec H}
    (h : d.nextSync hf = .done d') :
    d' = d ∧ Response.next d.iter = .done ∧ ∀ x, (app d x).nextSync hf = .done (app d x) := by
  unfold Dec.nextSync at h
  cases hr : Response.next d.iter with
  | done =>
    simp only [hr, DecNext.done.injEq] at h
    refine ⟨h.symm, rfl, fun x => ?_⟩
    unfold Dec.nextSync
    simp only [app, hr]
  | panic => simp [hr] at h
  | item c it =>
    exfalso
    cases c with
    | parent node isRoot left right rs =>
      simp only [hr] at h
      repeat' split at h
      all_goals cases h
    | leaf start size isRoot rs =>
      simp only [hr] at h
      repeat' split at h
      all_goals cases h

theorem next_item_sync (hf : HashFns H) [BEq H] {fl : Flavour} {d d' : Dec H} {i : Item H}
    (h : d.next hf fl = .item i d') : d.nextSync hf = .item i d' := by
  cases fl with
  | sync => exact h
  | fsm =>
    have hs := next_sim hf d
    simp only [Dec.next] at h
    rw [h] at hs
    cases hn : d.nextSync hf <;> simp [hn, killErr] at hs ⊢
    exact hs

theorem next_done_sync (hf : HashFns H) [BEq H] {fl : Flavour} {d d' : Dec H}
    (h : d.next hf fl = .done d') : d.nextSync hf = .done d' := by
  cases fl with
  | sync => exact h
  | fsm =>
    have hs := next_sim hf d
    simp only [Dec.next] at h
    rw [h] at hs
    cases hn : d.nextSync hf <;> simp [hn, killErr] at hs ⊢
    exact hs

theorem next_err_sync (hf : HashFns H) [BEq H] {fl : Flavour} {d d' : Dec H} {e : DecodeError}
    (h : d.next hf fl = .err e d') :
    ∃ d0, d.nextSync hf = .err e d0 ∧ d0.iter = d'.iter ∧ d0.encoded = d'.encoded ∧ d0.hash = d'.hash := by
  cases fl with
  | sync => exact ⟨d', h, rfl, rfl, rfl⟩
  | fsm =>
    have hs := next_sim hf d
    simp only [Dec.next] at h
    rw [h] at hs
    cases hn : d.nextSync hf <;> simp [hn, killErr] at hs ⊢
    exact ⟨_, ⟨hs.1, rfl⟩, hs.2⟩

theorem next_of_sync_item (hf : HashFns H) [BEq H] (fl : Flavour) {d d' : Dec H} {i : Item H}
    (h : d.nextSync hf = .item i d') : d.next hf fl = .item i d' := by
  cases fl with
  | sync => exact h
  | fsm =>
    have hs := next_sim hf d
    simp only [Dec.next]
    rw [h] at hs
    cases hn : d.nextFsm hf <;> simp [hn, killErr] at hs ⊢
    exact ⟨hs.1.symm, hs.2.symm⟩

theorem next_of_sync_done (hf : HashFns H) [BEq H] (fl : Flavour) {d d' : Dec H}
    (h : d.nextSync hf = .done d') : d.next hf fl = .done d' := by
  cases fl with
  | sync => exact h
  | fsm =>
    have hs := next_sim hf d
    simp only [Dec.next]
    rw [h] at hs
    cases hn : d.nextFsm hf <;> simp [hn, killErr] at hs ⊢
    exact hs.symm

/-- total wire size of a list of items -/
def itemsSize (is : List (Item H)) : Nat := (is.map itemSize).sum

theorem itemsSize_cons (i : Item H) (is : List (Item H)) :
    itemsSize (i :: is) = itemSize i + itemsSize is := by simp [itemsSize]

theorem itemsSize_append (a b : List (Item H)) : itemsSize (a ++ b) = itemsSize a + itemsSize b := by
  simp [itemsSize]

/-! ### general step facts (both flavours) -/

theorem next_item (hf : HashFns H) [BEq H] {fl : Flavour} {d d' : Dec H} {i : Item H}
    (h : d.next hf fl = .item i d') :
    d'.tree = d.tree ∧ d'.hash = d.hash ∧
    (∃ buf, d.encoded = buf ++ d'.encoded ∧ buf.length = itemSize i) ∧
    ∀ x, (app d x).next hf fl = .item i (app d' x) := by
  obtain ⟨⟨c, hc⟩, h2, h3, h4⟩ := nextSync_item hf (next_item_sync hf h)
  obtain ⟨ht, hm⟩ := response_next_tree hc
  exact ⟨by simp [Dec.tree, Response.tree, ht, hm], h2, h3, fun x => next_of_sync_item hf fl (h4 x)⟩

theorem next_err (hf : HashFns H) [BEq H] {fl : Flavour} {d d' : Dec H} {e : DecodeError}
    (h : d.next hf fl = .err e d') :
    d'.tree = d.tree ∧ d'.hash = d.hash ∧ ∃ buf, d.encoded = buf ++ d'.encoded := by
  obtain ⟨d0, h0, hi, he, hh⟩ := next_err_sync hf h
  obtain ⟨⟨c, hc⟩, h2, h3⟩ := nextSync_err hf h0
  obtain ⟨ht, hm⟩ := response_next_tree hc
  rw [hi] at ht hm
  exact ⟨by simp [Dec.tree, Response.tree, ht, hm], by rw [← hh, h2], by rw [← he]; exact h3⟩

theorem next_done (hf : HashFns H) [BEq H] {fl : Flavour} {d d' : Dec H}
    (h : d.next hf fl = .done d') :
    d' = d ∧ ∀ x, (app d x).next hf fl = .done (app d x) := by
  obtain ⟨h1, _, h3⟩ := nextSync_done hf (next_done_sync hf h)
  exact ⟨h1, fun x => next_of_sync_done hf fl (h3 x)⟩

/-! ### whole runs -/

theorem runAux_consumed (hf : HashFns H) [BEq H] (fl : Flavour) (fuel : Nat) (d : Dec H)
    (h : (Dec.runAux hf fl fuel d).terminal = .done) :
    ∃ c, d.encoded = c ++ (Dec.runAux hf fl fuel d).rest ∧
      c.length = itemsSize (Dec.runAux hf fl fuel d).items := by
  induction fuel generalizing d with
  | zero => simp [Dec.runAux] at h
  | succ n ih =>
    unfold Dec.runAux at h ⊢
    cases hn : d.next hf fl with
    | panic => simp [hn] at h
    | err e d' => simp [hn] at h
    | done d' =>
      obtain ⟨rfl, _⟩ := next_done hf hn
      exact ⟨[], by simp [itemsSize]⟩
    | item i d' =>
      simp only [hn] at h ⊢
      obtain ⟨_, _, ⟨buf, hb, hl⟩, _⟩ := next_item hf hn
      obtain ⟨c, hc, hcl⟩ := ih d' h
      exact ⟨buf ++ c, by rw [hb, hc]; simp, by simp [itemsSize_cons, hl, hcl]⟩

theorem runAux_app (hf : HashFns H) [BEq H] (fl : Flavour) (fuel : Nat) (d : Dec H)
    (x : List UInt8) (h : (Dec.runAux hf fl fuel d).terminal = .done) :
    Dec.runAux hf fl fuel (app d x)
      = ⟨(Dec.runAux hf fl fuel d).items, .done, (Dec.runAux hf fl fuel d).rest ++ x⟩ := by
  induction fuel generalizing d with
  | zero => simp [Dec.runAux] at h
  | succ n ih =>
    unfold Dec.runAux at h ⊢
    cases hn : d.next hf fl with
    | panic => simp [hn] at h
    | err e d' => simp [hn] at h
    | done d' =>
      obtain ⟨rfl, h2⟩ := next_done hf hn
      simp only [h2 x]
      rfl
    | item i d' =>
      simp only [hn] at h ⊢
      obtain ⟨_, _, _, h4⟩ := next_item hf hn
      simp only [h4 x, ih d' h]

/-! ## sequences of steps -/

/-- `Steps hf fl d is d'`: from `d`, successive calls of `next` returned the items `is` (in this
order) and left the decoder in state `d'` -/
inductive Steps (hf : HashFns H) [BEq H] (fl : Flavour) : Dec H → List (Item H) → Dec H → Prop
  | refl (d : Dec H) : Steps hf fl d [] d
  | item {d d' d'' : Dec H} {is : List (Item H)} {i : Item H} :
      Steps hf fl d is d' → d'.next hf fl = .item i d'' → Steps hf fl d (is ++ [i]) d''

/-- one call of `next` that hands a decoder back: an item, an error, or done -/
def Succ (hf : HashFns H) [BEq H] (fl : Flavour) (d d' : Dec H) : Prop :=
  (∃ i, d.next hf fl = .item i d') ∨ (∃ e, d.next hf fl = .err e d') ∨ d.next hf fl = .done d'

/-- any number of calls of `next`, also after an error and after the end -/
inductive Reach (hf : HashFns H) [BEq H] (fl : Flavour) : Dec H → Dec H → Prop
  | refl (d : Dec H) : Reach hf fl d d
  | step {d d' d'' : Dec H} : Reach hf fl d d' → Succ hf fl d' d'' → Reach hf fl d d''

theorem Steps.reach {hf : HashFns H} [BEq H] {fl : Flavour} {d d' : Dec H} {is : List (Item H)}
    (h : Steps hf fl d is d') : Reach hf fl d d' := by
  induction h with
  | refl => exact .refl _
  | item _ hn ih => exact .step ih (.inl ⟨_, hn⟩)

theorem succ_inv {hf : HashFns H} [BEq H] {fl : Flavour} {d d' : Dec H} (h : Succ hf fl d d') :
    d'.tree = d.tree ∧ d'.hash = d.hash ∧ ∃ buf, d.encoded = buf ++ d'.encoded := by
  rcases h with ⟨i, h⟩ | ⟨e, h⟩ | h
  · obtain ⟨h1, h2, ⟨buf, h3, _⟩, _⟩ := next_item hf h
    exact ⟨h1, h2, buf, h3⟩
  · exact next_err hf h
  · obtain ⟨rfl, _⟩ := next_done hf h
    exact ⟨rfl, rfl, [], rfl⟩

theorem reach_inv {hf : HashFns H} [BEq H] {fl : Flavour} {d d' : Dec H} (h : Reach hf fl d d') :
    d'.tree = d.tree ∧ d'.hash = d.hash ∧ ∃ c, d.encoded = c ++ d'.encoded := by
  induction h with
  | refl => exact ⟨rfl, rfl, [], rfl⟩
  | step _ hs ih =>
    obtain ⟨h1, h2, c, h3⟩ := ih
    obtain ⟨k1, k2, b, k3⟩ := succ_inv hs
    exact ⟨k1.trans h1, k2.trans h2, c ++ b, by rw [h3, k3]; simp⟩

theorem steps_consumed {hf : HashFns H} [BEq H] {fl : Flavour} {d d' : Dec H} {is : List (Item H)}
    (h : Steps hf fl d is d') :
    ∃ c, d.encoded = c ++ d'.encoded ∧ c.length = itemsSize is := by
  induction h with
  | refl => exact ⟨[], rfl, rfl⟩
  | item _ hn ih =>
    obtain ⟨c, h1, h2⟩ := ih
    obtain ⟨_, _, ⟨b, k1, k2⟩, _⟩ := next_item hf hn
    exact ⟨c ++ b, by rw [h1, k1]; simp, by simp [itemsSize, h2, k2]⟩

/-! ## `Store.load` in the two flavours -/

theorem load_flavour_of_slot (hf : HashFns H) (st : Store H) (node : Nat)
    (h : ∀ k, st.slot node = some k → k * 64 + 64 ≤ st.data.length) :
    st.load hf .sync node = st.load hf .fsm node := by
  unfold Store.load
  cases hs : st.slot node with
  | none => cases st.kind <;> rfl
  | some k =>
    have hk := h k hs
    cases st.kind <;> simp only [hk, if_true]

theorem load_flavour_mem (hf : HashFns H) (st : Store H) (node : Nat)
    (h : st.kind = .preMem ∨ st.kind = .postMem ∨ st.kind = .empty) :
    st.load hf .sync node = st.load hf .fsm node := by
  unfold Store.load
  rcases h with h | h | h <;> simp only [h]

/-- a persisted node of a pre-order store has a slot below the number of pairs -/
theorem slot_lt_pre (st : Store H) (hk : st.kind = .preIo ∨ st.kind = .preMem)
    (hs : st.tree.size ≤ 2 ^ 63) (node : Nat)
    (hn : node ∈ Spec.persistedPre st.tree.size st.tree.bs) :
    ∃ k, st.slot node = some k ∧ k < st.tree.outboardPairs := by
  obtain ⟨hlen, hmap⟩ := Offsets.persistedPre_offsets st.tree.size st.tree.bs hs
  obtain ⟨i, hi, rfl⟩ := List.mem_iff_getElem.1 hn
  have := Offsets.getElem_of_map_eq_range _ _ 0 hmap i hi
  refine ⟨0 + i, ?_, ?_⟩
  · unfold Store.slot
    rcases hk with hk | hk <;> simp only [hk] <;> exact this
  · unfold Tree.outboardPairs
    have : Tree.blocks ⟨st.tree.size, st.tree.bs⟩ = st.tree.blocks := rfl
    omega

/-- a persisted node of a post-order store has a slot below the number of pairs -/
theorem slot_lt_post (st : Store H) (hk : st.kind = .postIo ∨ st.kind = .postMem)
    (hs : st.tree.size ≤ 2 ^ 63) (node : Nat)
    (hn : node ∈ Spec.persistedPost st.tree.size st.tree.bs) :
    ∃ k, st.slot node = some k ∧ k < st.tree.outboardPairs := by
  obtain ⟨hlen, hmap⟩ := Offsets.persistedPost_offsets st.tree.size st.tree.bs hs
  obtain ⟨i, hi, rfl⟩ := List.mem_iff_getElem.1 hn
  have := Offsets.getElem_of_map_eq_range _ _ 0 hmap i hi
  refine ⟨0 + i, ?_, ?_⟩
  · unfold Store.slot
    rcases hk with hk | hk <;> simp only [hk] <;> exact this
  · unfold Tree.outboardPairs
    have : Tree.blocks ⟨st.tree.size, st.tree.bs⟩ = st.tree.blocks := rfl
    omega

/-- on an io-backed store whose backing holds the whole outboard, the persisted nodes load the same
pair in both flavours (the memory kinds and `empty` never depend on the flavour) -/
theorem load_flavour_persisted (hf : HashFns H) (st : Store H) (hs : st.tree.size ≤ 2 ^ 63)
    (hlen : st.tree.outboardSize ≤ st.data.length) (node : Nat)
    (hpre : st.kind = .preIo → node ∈ Spec.persistedPre st.tree.size st.tree.bs)
    (hpost : st.kind = .postIo → node ∈ Spec.persistedPost st.tree.size st.tree.bs) :
    st.load hf .sync node = st.load hf .fsm node := by
  cases hk : st.kind with
  | preMem => exact load_flavour_mem hf st node (.inl hk)
  | postMem => exact load_flavour_mem hf st node (.inr (.inl hk))
  | empty => exact load_flavour_mem hf st node (.inr (.inr hk))
  | preIo =>
    obtain ⟨k, h1, h2⟩ := slot_lt_pre st (.inl hk) hs node (hpre hk)
    apply load_flavour_of_slot
    intro k' hk'
    rw [h1] at hk'
    cases hk'
    unfold Tree.outboardSize at hlen
    omega
  | postIo =>
    obtain ⟨k, h1, h2⟩ := slot_lt_post st (.inl hk) hs node (hpost hk)
    apply load_flavour_of_slot
    intro k' hk'
    rw [h1] at hk'
    cases hk'
    unfold Tree.outboardSize at hlen
    omega

/-! ## whole encoders -/

theorem encodeRangesValidated_nil (hf : HashFns H) [BEq H] (fl : Flavour) (data : List UInt8)
    (st : Store H) : encodeRangesValidated hf fl data st [] = ⟨[], .ok⟩ := by
  cases fl <;>
    simp [encodeRangesValidated, truncate_nil, prePartialChunks_nil, encodeValidatedLoop]

theorem encodeRanges_nil (hf : HashFns H) (fl : Flavour) (data : List UInt8)
    (st : Store H) : encodeRanges hf fl data st [] = ⟨[], .ok⟩ := by
  simp [encodeRanges, truncate_nil, prePartialChunks_nil, encodePlainLoop]

theorem encodeRangesValidated_flavour (hf : HashFns H) [BEq H] (data : List UInt8) (st : Store H)
    (ranges : Ranges)
    (h : ∀ plan, st.tree.prePartialChunks (Ranges.truncate ranges st.tree.size) 0 = some plan →
      ∀ node ∈ planParents plan, st.load hf .sync node = st.load hf .fsm node) :
    encodeRangesValidated hf .sync data st ranges = encodeRangesValidated hf .fsm data st ranges := by
  cases ranges with
  | nil => rw [encodeRangesValidated_nil, encodeRangesValidated_nil]
  | cons a q =>
    simp only [encodeRangesValidated, Ranges.isEmpty, List.isEmpty_cons, Bool.and_false,
      Bool.false_eq_true, if_false]
    cases hp : st.tree.prePartialChunks (Ranges.truncate (a :: q) st.tree.size) 0 with
    | none => rfl
    | some plan => exact encodeValidatedLoop_flavour hf data st plan _ _ (h plan hp)

theorem encodeRanges_flavour (hf : HashFns H) (data : List UInt8) (st : Store H)
    (ranges : Ranges)
    (h : ∀ plan, st.tree.prePartialChunks (Ranges.truncate ranges st.tree.size) 0 = some plan →
      ∀ node ∈ planParents plan, st.load hf .sync node = st.load hf .fsm node) :
    encodeRanges hf .sync data st ranges = encodeRanges hf .fsm data st ranges := by
  simp only [encodeRanges]
  cases hp : st.tree.prePartialChunks (Ranges.truncate ranges st.tree.size) 0 with
  | none => rfl
  | some plan => exact encodePlainLoop_flavour hf data st plan _ (h plan hp)

theorem encodeRanges_eq_validated_of_ok (hf : HashFns H) [BEq H] (fl : Flavour) (data : List UInt8)
    (st : Store H) (ranges : Ranges)
    (h : (encodeRangesValidated hf fl data st ranges).terminal = .ok) :
    encodeRanges hf fl data st ranges = encodeRangesValidated hf fl data st ranges := by
  cases ranges with
  | nil => rw [encodeRangesValidated_nil, encodeRanges_nil]
  | cons a q =>
    simp only [encodeRangesValidated, Ranges.isEmpty, List.isEmpty_cons, Bool.and_false,
      Bool.false_eq_true, if_false, encodeRanges] at h ⊢
    cases hp : st.tree.prePartialChunks (Ranges.truncate (a :: q) st.tree.size) 0 with
    | none => rfl
    | some plan =>
      simp only [hp] at h
      exact plainLoop_eq_of_ok hf fl data st plan _ _ h

/-- the item stream of `traverse_ranges_validated`, against the sync validating encoder -/
theorem traverseRangesValidated_spec (hf : HashFns H) [BEq H] (data : List UInt8) (st : Store H)
    (ranges : Ranges) :
    match traverseRangesValidated hf data st ranges with
    | none => (encodeRangesValidated hf .sync data st ranges).terminal = .panic
    | some items =>
      ∃ (mid : List (Item H)) (last : EncodedItem H),
        items = .size st.tree.size :: (mid.map Item.toEncoded ++ [last]) ∧
        (encodeRangesValidated hf .sync data st ranges).out = mid.flatMap (itemBytes hf) ∧
        ((last = .done ∧ (encodeRangesValidated hf .sync data st ranges).terminal = .ok) ∨
         ∃ e, last = .error e ∧ (encodeRangesValidated hf .sync data st ranges).terminal = .err e) := by
  cases ranges with
  | nil =>
    rw [encodeRangesValidated_nil]
    exact ⟨[], .done, by simp⟩
  | cons a q =>
    simp only [encodeRangesValidated, traverseRangesValidated, Ranges.isEmpty, List.isEmpty_cons,
      Bool.and_false, Bool.false_eq_true, if_false]
    cases hp : st.tree.prePartialChunks (Ranges.truncate (a :: q) st.tree.size) 0 with
    | none => rfl
    | some plan =>
      simp only
      obtain ⟨its, h1, h2, h3⟩ := traverseLoop_sim hf data st plan [st.root] [] []
      rw [List.nil_append] at h1 h2
      cases ht : (encodeValidatedLoop hf .sync data st plan [st.root] []).terminal with
      | ok =>
        rw [ht] at h3
        have : traverseLoop hf data st plan [st.root] [] = (its.map Item.toEncoded, .ok) :=
          Prod.ext h1 h3
        rw [this]
        exact ⟨its, .done, by simp, h2, .inl ⟨rfl, rfl⟩⟩
      | err e =>
        rw [ht] at h3
        have : traverseLoop hf data st plan [st.root] [] = (its.map Item.toEncoded, .err e) :=
          Prod.ext h1 h3
        rw [this]
        exact ⟨its, .error e, by simp, h2, .inr ⟨e, rfl, rfl⟩⟩
      | panic =>
        rw [ht] at h3
        have : traverseLoop hf data st plan [st.root] [] = (its.map Item.toEncoded, .panic) :=
          Prod.ext h1 h3
        rw [this]

theorem flatMap_flatten_frame (hf : HashFns H) (n : Nat) (mid : List (Item H)) (last : EncodedItem H)
    (hl : last = .done ∨ ∃ e, last = .error e) :
    (EncodedItem.size n :: (mid.map Item.toEncoded ++ [last])).flatMap (EncodedItem.flatten hf)
      = mid.flatMap (itemBytes hf) := by
  have : EncodedItem.flatten hf last = [] := by
    rcases hl with rfl | ⟨e, rfl⟩ <;> rfl
  have hsz : EncodedItem.flatten hf (.size n) = [] := rfl
  simp [List.flatMap_cons, List.flatMap_append, flatMap_flatten_map, this, hsz]

/-! ## validators -/

theorem validateRec_flavour (hf : HashFns H) [BEq H] (withData : Bool) (ob : Store H)
    (data : List UInt8) (filled : Nat)
    (h : ∀ node, ob.load hf .sync node = ob.load hf .fsm node)
    (fuel : Nat) (ph : H) (sh : Nat) (isRoot : Bool) (rs : Ranges) :
    validateRec hf .sync withData ob data filled fuel ph sh isRoot rs
      = validateRec hf .fsm withData ob data filled fuel ph sh isRoot rs := by
  induction fuel generalizing ph sh isRoot rs with
  | zero => rfl
  | succ n ih =>
    simp only [validateRec, h, ih]

theorem validRanges_flavour (hf : HashFns H) [BEq H] (ob : Store H) (data : List UInt8)
    (ranges : Ranges) (h : ∀ node, ob.load hf .sync node = ob.load hf .fsm node) :
    validRanges hf .sync ob data ranges = validRanges hf .fsm ob data ranges := by
  simp only [validRanges, validateRec_flavour hf true ob data _ h]

theorem validOutboardRanges_flavour (hf : HashFns H) [BEq H] (ob : Store H)
    (ranges : Ranges) (h : ∀ node, ob.load hf .sync node = ob.load hf .fsm node) :
    validOutboardRanges hf .sync ob ranges = validOutboardRanges hf .fsm ob ranges := by
  simp only [validOutboardRanges, validateRec_flavour hf false ob [] _ h]

end Bao.DecSim
