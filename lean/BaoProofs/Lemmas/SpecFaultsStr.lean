import BaoProofs.Lemmas.SpecSerdeL

/-!
# String lemmas for `Lemmas/SpecFaults*.lean`

* `splitOn_hash`: `String.splitOn " # "` on the list of characters (`splitH`), and
  `splitOn_hash_intercalate`: it inverts joining `#`-free parts with `" # "`.
-/

namespace Bao.SpecFaults
open Bao Bao.SpecIndex Bao.SpecOb Bao.SpecSerde
open String String.Slice String.Slice.Pattern String.Slice.Pattern.Model

/-! ## `splitOn " # "` -/

/-- list model of `splitOn " # "`: `cur` is the part being read -/
def splitH : List Char → List Char → List (List Char)
  | cur, [] => [cur]
  | cur, c :: rest =>
    if c = ' ' ∧ rest.take 2 = ['#', ' '] then cur :: splitH [] (rest.drop 2)
    else splitH (cur ++ [c]) rest
termination_by _ l => l.length
decreasing_by all_goals (simp only [List.length_cons, List.length_drop]; omega)

theorem splitH_nil (cur : List Char) : splitH cur [] = [cur] := by rw [splitH]

theorem splitH_sep (cur rest : List Char) :
    splitH cur (' ' :: '#' :: ' ' :: rest) = cur :: splitH [] rest := by
  rw [splitH]; simp

theorem splitH_other (cur : List Char) (c : Char) (rest : List Char)
    (h : ¬ (c = ' ' ∧ rest.take 2 = ['#', ' '])) :
    splitH cur (c :: rest) = splitH (cur ++ [c]) rest := by
  rw [splitH, if_neg h]

/-- one step of the loop at a position that is not the end -/
theorem aux_step (s sep : String) (p : List Char) (c : Char) (rest : List Char)
    (h : s.toList = p ++ c :: rest) (b j : String.Pos.Raw) (r : List String) :
    String.splitOnAux s sep b ⟨bsize p⟩ j r =
      if c == j.get sep then
        if (j.next sep).atEnd sep then
          String.splitOnAux s sep ⟨bsize (p ++ [c])⟩ ⟨bsize (p ++ [c])⟩ 0
            (b.extract s ((⟨bsize (p ++ [c])⟩ : String.Pos.Raw).unoffsetBy (j.next sep)) :: r)
        else String.splitOnAux s sep b ⟨bsize (p ++ [c])⟩ (j.next sep) r
      else String.splitOnAux s sep b (((⟨bsize p⟩ : String.Pos.Raw).unoffsetBy j).next s) 0 r := by
  rw [String.splitOnAux]
  have hend : ¬ String.Pos.Raw.atEnd s ⟨bsize p⟩ = true := by
    have hc := Char.utf8Size_pos c
    simp only [String.Pos.Raw.atEnd, utf8ByteSize_eq_bsize, h, ge_iff_le, decide_eq_true_eq]
    rw [bsize_append]
    simp only [bsize]
    omega
  rw [if_neg hend]
  have hget : String.Pos.Raw.get s ⟨bsize p⟩ = c := by
    unfold String.Pos.Raw.get
    rw [h]
    have := getAux_at p c rest 0
    simp only [Nat.zero_add] at this
    exact this
  have hnext : String.Pos.Raw.next s ⟨bsize p⟩ = ⟨bsize (p ++ [c])⟩ := by
    unfold String.Pos.Raw.next
    rw [hget, bsize_append]
    simp only [bsize, Nat.add_zero]
    rfl
  rw [hget, hnext]

/-- the loop at the end of the string -/
theorem aux_end (s sep : String) (pre cur : List Char) (h : s.toList = pre ++ cur)
    (j : String.Pos.Raw) (r : List String) :
    String.splitOnAux s sep ⟨bsize pre⟩ ⟨bsize (pre ++ cur)⟩ j r
      = r.reverse ++ [String.ofList cur] := by
  rw [String.splitOnAux]
  have hend : String.Pos.Raw.atEnd s ⟨bsize (pre ++ cur)⟩ = true := by
    simp only [String.Pos.Raw.atEnd, utf8ByteSize_eq_bsize, h, ge_iff_le, Nat.le_refl, decide_true]
  rw [if_pos hend]
  simp only [List.reverse_cons]
  rw [extract_at s pre cur [] (by simpa using h)]

theorem next_at (s : String) (p : List Char) (c : Char) (rest : List Char)
    (h : s.toList = p ++ c :: rest) :
    String.Pos.Raw.next s ⟨bsize p⟩ = ⟨bsize (p ++ [c])⟩ := by
  have hget : String.Pos.Raw.get s ⟨bsize p⟩ = c := by
    unfold String.Pos.Raw.get
    rw [h]
    have := getAux_at p c rest 0
    simp only [Nat.zero_add] at this
    exact this
  unfold String.Pos.Raw.next
  rw [hget, bsize_append]
  simp only [bsize, Nat.add_zero]
  rfl

theorem hsep_get0 : String.Pos.Raw.get " # " 0 = ' ' := by rfl
theorem hsep_next0 : String.Pos.Raw.next " # " 0 = ⟨1⟩ := by rfl
theorem hsep_end1 : String.Pos.Raw.atEnd " # " ⟨1⟩ = false := by rfl
theorem hsep_get1 : String.Pos.Raw.get " # " ⟨1⟩ = '#' := by rfl
theorem hsep_next1 : String.Pos.Raw.next " # " ⟨1⟩ = ⟨2⟩ := by rfl
theorem hsep_end2 : String.Pos.Raw.atEnd " # " ⟨2⟩ = false := by rfl
theorem hsep_get2 : String.Pos.Raw.get " # " ⟨2⟩ = ' ' := by rfl
theorem hsep_next2 : String.Pos.Raw.next " # " ⟨2⟩ = ⟨3⟩ := by rfl
theorem hsep_end3 : String.Pos.Raw.atEnd " # " ⟨3⟩ = true := by rfl

theorem unoff (n k : Nat) : (⟨n + k⟩ : String.Pos.Raw).unoffsetBy ⟨k⟩ = ⟨n⟩ := by
  ext; simp

theorem unoff0 (n : Nat) : (⟨n⟩ : String.Pos.Raw).unoffsetBy 0 = ⟨n⟩ := by
  ext; simp

theorem bsize_sp : bsize [' '] = 1 := by rfl
theorem bsize_sp_hash : bsize [' ', '#'] = 2 := by rfl
theorem bsize_sp_hash_sp : bsize [' ', '#', ' '] = 3 := by rfl

theorem splitOnAux_hash (s : String) : ∀ (n : Nat) (rest pre cur : List Char) (r : List String),
    rest.length ≤ n → s.toList = pre ++ cur ++ rest →
    String.splitOnAux s " # " ⟨bsize pre⟩ ⟨bsize (pre ++ cur)⟩ 0 r
      = r.reverse ++ (splitH cur rest).map String.ofList := by
  intro n
  induction n with
  | zero =>
    intro rest pre cur r hn h
    have : rest = [] := List.eq_nil_of_length_eq_zero (by omega)
    subst this
    rw [aux_end s _ pre cur (by simpa using h), splitH_nil]
    rfl
  | succ n ih =>
    intro rest pre cur r hn h
    cases rest with
    | nil =>
      rw [aux_end s _ pre cur (by simpa using h), splitH_nil]
      rfl
    | cons c rest =>
      simp only [List.length_cons] at hn
      rw [aux_step s _ (pre ++ cur) c rest h, hsep_get0, hsep_next0, hsep_end1]
      by_cases hc : c = ' '
      · subst hc
        simp only [beq_self_eq_true, if_true, Bool.false_eq_true, if_false]
        -- state j = 1
        cases rest with
        | nil =>
          have h1 : s.toList = pre ++ (cur ++ [' ']) := by rw [h]; simp
          have := aux_end s " # " pre (cur ++ [' ']) h1 ⟨1⟩ r
          rw [← List.append_assoc] at this
          rw [this, splitH_other _ _ _ (by simp), splitH_nil]
          rfl
        | cons c2 rest2 =>
          have h1 : s.toList = (pre ++ cur ++ [' ']) ++ c2 :: rest2 := by rw [h]; simp
          rw [aux_step s _ (pre ++ cur ++ [' ']) c2 rest2 h1, hsep_get1, hsep_next1, hsep_end2]
          have hback : (((⟨bsize (pre ++ cur ++ [' '])⟩ : String.Pos.Raw).unoffsetBy ⟨1⟩).next s)
              = ⟨bsize (pre ++ cur ++ [' '])⟩ := by
            rw [bsize_append (pre ++ cur), bsize_sp, unoff, next_at s (pre ++ cur) ' ' (c2 :: rest2) h,
              bsize_append (pre ++ cur), bsize_sp]
          by_cases hc2 : c2 = '#'
          · subst hc2
            simp only [beq_self_eq_true, if_true, Bool.false_eq_true, if_false]
            -- state j = 2
            cases rest2 with
            | nil =>
              have h2 : s.toList = pre ++ (cur ++ [' ', '#']) := by rw [h]; simp
              have := aux_end s " # " pre (cur ++ [' ', '#']) h2 ⟨2⟩ r
              rw [show pre ++ (cur ++ [' ', '#']) = pre ++ cur ++ [' '] ++ ['#'] by simp] at this
              rw [this, splitH_other _ _ _ (by simp), splitH_other _ _ _ (by simp), splitH_nil]
              simp
            | cons c3 rest3 =>
              have h2 : s.toList = (pre ++ cur ++ [' '] ++ ['#']) ++ c3 :: rest3 := by rw [h]; simp
              rw [aux_step s _ (pre ++ cur ++ [' '] ++ ['#']) c3 rest3 h2, hsep_get2, hsep_next2,
                hsep_end3]
              by_cases hc3 : c3 = ' '
              · subst hc3
                simp only [beq_self_eq_true, if_true]
                have hun : ((⟨bsize (pre ++ cur ++ [' '] ++ ['#'] ++ [' '])⟩ : String.Pos.Raw).unoffsetBy ⟨3⟩)
                    = ⟨bsize (pre ++ cur)⟩ := by
                  rw [show pre ++ cur ++ [' '] ++ ['#'] ++ [' '] = (pre ++ cur) ++ [' ', '#', ' '] by simp,
                    bsize_append (pre ++ cur), bsize_sp_hash_sp, unoff]
                rw [hun, extract_at s pre cur (' ' :: '#' :: ' ' :: rest3) h]
                have h3 : s.toList = (pre ++ cur ++ [' '] ++ ['#'] ++ [' ']) ++ [] ++ rest3 := by
                  rw [h]; simp
                have := ih rest3 (pre ++ cur ++ [' '] ++ ['#'] ++ [' ']) [] (String.ofList cur :: r)
                  (by simp only [List.length_cons] at hn; omega) h3
                rw [List.append_nil] at this
                rw [this, splitH_sep]
                simp
              · have hb : (c3 == ' ') = false := by simpa using hc3
                simp only [hb, Bool.false_eq_true, if_false]
                have hback2 : (((⟨bsize (pre ++ cur ++ [' '] ++ ['#'])⟩ : String.Pos.Raw).unoffsetBy ⟨2⟩).next s)
                    = ⟨bsize (pre ++ cur ++ [' '])⟩ := by
                  rw [show pre ++ cur ++ [' '] ++ ['#'] = (pre ++ cur) ++ [' ', '#'] by simp,
                    bsize_append (pre ++ cur), bsize_sp_hash, unoff,
                    next_at s (pre ++ cur) ' ' ('#' :: c3 :: rest3) h]
                rw [hback2]
                have h3 : s.toList = pre ++ (cur ++ [' ']) ++ ('#' :: c3 :: rest3) := by
                  rw [h]; simp
                have := ih ('#' :: c3 :: rest3) pre (cur ++ [' ']) r (by simp only [List.length_cons] at *; omega) h3
                rw [← List.append_assoc] at this
                rw [this, splitH_other cur ' ' _ (by simp [hc3])]
          · have hb : (c2 == '#') = false := by simpa using hc2
            simp only [hb, Bool.false_eq_true, if_false]
            rw [hback]
            have h3 : s.toList = pre ++ (cur ++ [' ']) ++ (c2 :: rest2) := by rw [h]; simp
            have := ih (c2 :: rest2) pre (cur ++ [' ']) r (by simp only [List.length_cons] at *; omega) h3
            rw [← List.append_assoc] at this
            rw [this, splitH_other cur ' ' _ (by simp [hc2])]
      · have hb : (c == ' ') = false := by simpa using hc
        simp only [hb, Bool.false_eq_true, if_false]
        rw [unoff0, next_at s (pre ++ cur) c rest h]
        have h3 : s.toList = pre ++ (cur ++ [c]) ++ rest := by rw [h]; simp
        have := ih rest pre (cur ++ [c]) r (by omega) h3
        rw [← List.append_assoc] at this
        rw [this, splitH_other cur c _ (by simp [hc])]

theorem splitOn_hash (s : String) : s.splitOn " # " = (splitH [] s.toList).map String.ofList := by
  unfold String.splitOn
  rw [if_neg (by decide)]
  have := splitOnAux_hash s s.toList.length s.toList [] [] [] (Nat.le_refl _) (by simp)
  simpa [bsize] using this

/-! ### `splitOn " # "` inverts joining `#`-free parts -/

theorem splitH_append (t : List Char) (ht : '#' ∉ t) (cur rest : List Char)
    (hr : ∀ r', rest ≠ '#' :: r') : splitH cur (t ++ rest) = splitH (cur ++ t) rest := by
  induction t generalizing cur with
  | nil => simp
  | cons c t ih =>
    have ht' : '#' ∉ t := fun h => ht (List.mem_cons_of_mem _ h)
    have hno : ¬ (c = ' ' ∧ (t ++ rest).take 2 = ['#', ' ']) := by
      rintro ⟨-, h2⟩
      cases t with
      | nil =>
        cases rest with
        | nil => simp at h2
        | cons a rest =>
          simp only [List.nil_append] at h2
          have : a = '#' := by
            cases rest <;> simp at h2 <;> exact h2.1
          exact hr rest (by rw [this])
      | cons a t =>
        have : a = '#' := by
          have := congrArg List.head? h2
          cases h : (t ++ rest) <;> simp [h] at this <;> exact this
        exact ht (by rw [this]; simp)
    rw [List.cons_append, splitH_other _ _ _ hno, ih ht', List.append_assoc]
    rfl

/-- the characters of `" # ".intercalate (a :: as)` after `a` -/
def joinTailH : List (List Char) → List Char
  | [] => []
  | t :: ts => ' ' :: '#' :: ' ' :: (t ++ joinTailH ts)

theorem joinTailH_head (ts : List (List Char)) : ∀ r', joinTailH ts ≠ '#' :: r' := by
  intro r' h
  cases ts with
  | nil => cases h
  | cons t ts => simp [joinTailH] at h

theorem splitH_join (ts : List (List Char)) (hts : ∀ t ∈ ts, '#' ∉ t) (cur : List Char) :
    splitH cur (joinTailH ts) = cur :: ts := by
  induction ts generalizing cur with
  | nil => rw [joinTailH, splitH_nil]
  | cons t ts ih =>
    have ht := hts t (List.mem_cons_self ..)
    have hts' : ∀ u ∈ ts, '#' ∉ u := fun u hu => hts u (List.mem_cons_of_mem _ hu)
    rw [joinTailH, splitH_sep, splitH_append t ht _ _ (joinTailH_head ts), ih hts', List.nil_append]

theorem toList_intercalate_hash (a : String) (as : List String) :
    (" # ".intercalate (a :: as)).toList = a.toList ++ joinTailH (as.map String.toList) := by
  induction as generalizing a with
  | nil => simp [joinTailH]
  | cons u l ih =>
    rw [String.intercalate_cons_cons, String.toList_append, String.toList_append, ih,
      show (" # " : String).toList = [' ', '#', ' '] from rfl]
    simp [joinTailH]

/-- `splitOn " # "` inverts joining `#`-free parts with `" # "` -/
theorem splitOn_hash_intercalate (a : String) (as : List String)
    (h : ∀ t ∈ a :: as, '#' ∉ t.toList) : (" # ".intercalate (a :: as)).splitOn " # " = a :: as := by
  rw [splitOn_hash, toList_intercalate_hash]
  have ha := h a (List.mem_cons_self ..)
  have has : ∀ t ∈ as.map String.toList, '#' ∉ t := by
    intro t ht
    obtain ⟨u, hu, rfl⟩ := List.mem_map.1 ht
    exact h u (List.mem_cons_of_mem _ hu)
  rw [splitH_append a.toList ha _ _ (joinTailH_head _), splitH_join _ has, List.nil_append]
  simp [String.ofList_toList]

/-! ## `String.replace` on the list of characters -/

/-- list model of `replace p r`: leftmost, non-overlapping; `skip` characters of a match are still to
be dropped -/
def replAux (p r : List Char) : Nat → List Char → List Char
  | _, [] => []
  | skip + 1, _ :: cs => replAux p r skip cs
  | 0, c :: cs =>
    if p.isPrefixOf (c :: cs) then r ++ replAux p r (p.length - 1) cs else c :: replAux p r 0 cs

def replL (p r l : List Char) : List Char := replAux p r 0 l

theorem replAux_skip (p r : List Char) (x t : List Char) :
    replAux p r x.length (x ++ t) = replAux p r 0 t := by
  induction x with
  | nil => rfl
  | cons c x ih => simpa [replAux] using ih

theorem replL_match (p r t : List Char) (hp : p ≠ []) : replL p r (p ++ t) = r ++ replL p r t := by
  obtain ⟨c, p', rfl⟩ := List.exists_cons_of_ne_nil hp
  unfold replL
  have h1 : (c :: p').isPrefixOf (c :: (p' ++ t)) = true := by
    rw [List.isPrefixOf_iff_prefix]; exact ⟨t, rfl⟩
  simp only [List.cons_append, replAux, h1, if_true, List.length_cons, Nat.add_sub_cancel]
  rw [replAux_skip]

theorem replL_skip (p r : List Char) (u t : List Char)
    (h : ∀ u1 u2, u = u1 ++ u2 → u2 ≠ [] → ¬ p <+: u2 ++ t) :
    replL p r (u ++ t) = u ++ replL p r t := by
  induction u with
  | nil => rfl
  | cons c u ih =>
    have h0 : ¬ p <+: (c :: u) ++ t := h [] (c :: u) rfl (by simp)
    have h1 : p.isPrefixOf (c :: (u ++ t)) = false := by
      rw [Bool.eq_false_iff, Ne, List.isPrefixOf_iff_prefix]; exact h0
    unfold replL at *
    simp only [List.cons_append, replAux, h1, Bool.false_eq_true, if_false]
    rw [ih (fun u1 u2 e hne => h (c :: u1) u2 (by rw [e]; rfl) hne)]

theorem toList_ne_nil (s : String) (h : s ≠ "") : s.toList ≠ [] := by
  intro e
  exact h (String.toList_injective (by rw [e]; rfl))

theorem foldl_valid (pat rep : String) (hp : pat ≠ "") {s : Slice}
    (f : String → SearchStep s → String)
    (hm : ∀ acc a b, f acc (.matched a b) = acc ++ rep)
    (hr : ∀ acc a b, f acc (.rejected a b) = acc ++ (s.slice! a b).copy)
    {pos : s.Pos} {l : List (SearchStep s)} (h : IsValidSearchFrom pat pos l) :
    ∀ t1 t2 acc, pos.Splits t1 t2 →
      l.foldl f acc = acc ++ String.ofList (replL pat.toList rep.toList t2.toList) := by
  induction h with
  | endPos =>
    intro t1 t2 acc hs
    have : t2 = "" := (hs.eq_endPos_iff).1 rfl
    subst this
    simp [replL, replAux]
  | @matched l start stop hmatch hvalid ih =>
    intro t1 t2 acc hs
    obtain ⟨u1, u2, h1, h2⟩ := ForwardStringSearcher.isLongestMatchAt_iff_splits.1 hmatch
    have e : t2 = pat ++ u2 := hs.eq_right h1
    subst e
    rw [List.foldl_cons, hm, ih _ _ _ h2, String.toList_append, replL_match _ _ _ (toList_ne_nil _ hp)]
    apply String.toList_injective
    simp [String.toList_append]
  | @mismatched l start stop hlt rej hvalid ih =>
    intro t1 t2 acc hs
    have hs' := stop.splits
    obtain ⟨u, hu, e1, e2⟩ := (hs.lt_iff_exists_eq_append hs').1 hlt
    have hsl : (s.slice! start stop).copy = u := by
      have hle : start ≤ stop := Std.le_of_lt hlt
      obtain ⟨hle', hc⟩ := (Slice.copy_slice_eq_iff_splits (t := u) (pos₁ := start) (pos₂ := stop)).2
        ⟨t1, (s.sliceFrom stop).copy, e2 ▸ hs, e1 ▸ hs'⟩
      rw [← Slice.slice_eq_slice! (h := hle')]
      exact hc
    rw [List.foldl_cons, hr, hsl, ih _ _ _ hs', e2, String.toList_append]
    rw [replL_skip]
    · apply String.toList_injective
      simp [String.toList_append]
    · intro u1 u2 eu hne hpre
      obtain ⟨v, hv⟩ := hpre
      -- the position between `t1 ++ u1` and `u2 ++ rest`
      have hcopy : s.copy = (t1 ++ String.ofList u1) ++ (String.ofList u2 ++ (s.sliceFrom stop).copy) := by
        rw [hs.eq_append, e2]
        apply String.toList_injective
        simp [String.toList_append, eu]
      have hp' := Slice.Pos.splits_ofEqAppend hcopy
      have hge : start ≤ Slice.Pos.ofEqAppend hcopy :=
        (hs.le_iff_exists_eq_append hp').2 ⟨String.ofList u1, rfl, by
          rw [e2]; apply String.toList_injective; simp [String.toList_append, eu]⟩
      have hlt' : Slice.Pos.ofEqAppend hcopy < stop :=
        (hp'.lt_iff_exists_eq_append hs').2 ⟨String.ofList u2, by
          intro e; apply hne; have := congrArg String.toList e; simpa using this, by
          rw [e1]; apply String.toList_injective; simp [String.toList_append, eu], rfl⟩
      apply rej _ hge hlt'
      rw [ForwardStringSearcher.matchesAt_iff_splits]
      refine ⟨t1 ++ String.ofList u1, String.ofList v, ?_⟩
      have : String.ofList u2 ++ (s.sliceFrom stop).copy = pat ++ String.ofList v := by
        apply String.toList_injective
        simp [String.toList_append, hv]
      rw [← this]
      exact hp'

theorem replace_eq (s pat rep : String) (hp : pat ≠ "") :
    s.replace pat rep = String.ofList (replL pat.toList rep.toList s.toList) := by
  have := ForwardStringSearcher.lawfulToForwardSearcherModel hp
  show s.toSlice.replace pat rep = _
  unfold Slice.replace
  rw [← Std.Iter.foldl_toList]
  rw [foldl_valid pat rep hp _ (fun _ _ _ => by simp [String.appendSlice_eq, ToSlice.toSlice]) (fun _ _ _ => rfl)
    (LawfulToForwardSearcherModel.isValidSearchFrom_toList s.toSlice) "" s.toSlice.copy ""
    (Slice.splits_startPos _)]
  simp


/-- a pattern with a character that does not occur in `s` is not replaced -/
theorem replace_noop (s pat rep : String) (c : Char) (hc : c ∈ pat.toList) (hs : c ∉ s.toList) :
    s.replace pat rep = s := by
  have hp : pat ≠ "" := by
    intro e; rw [e] at hc; simp at hc
  rw [replace_eq _ _ _ hp]
  have := replL_skip pat.toList rep.toList s.toList [] (by
    intro u1 u2 e hne hpre
    rw [List.append_nil] at hpre
    have : c ∈ u2 := hpre.subset hc
    exact hs (by rw [e]; exact List.mem_append_right _ this))
  rw [List.append_nil] at this
  rw [this]
  simp [replL, replAux]

/-! ## one-character separators, character-free strings -/

/-- the string does not contain the character `c` -/
def NoCh (c : Char) (s : String) : Prop := c ∉ s.toList

theorem noCh_append {c : Char} {s t : String} (hs : NoCh c s) (ht : NoCh c t) : NoCh c (s ++ t) := by
  unfold NoCh at *
  rw [String.toList_append, List.mem_append]
  exact fun h => h.elim hs ht

theorem noCh_lit (c : Char) (s : String) (h : (s.toList.contains c) = false) : NoCh c s := by
  unfold NoCh
  intro hm
  have : s.toList.contains c = true := List.contains_iff_mem.2 hm
  rw [h] at this; cases this

theorem noCh_nat (c : Char) (hc : c.isDigit = false) (n : Nat) : NoCh c (toString n) := by
  show c ∉ (Nat.repr n).toList
  rw [Nat.toList_repr]
  intro h
  have := Nat.isDigit_of_mem_toDigits (by omega) (by omega) h
  rw [hc] at this; cases this

theorem oneChar_eq : OneChar "=" '=' := ⟨rfl, rfl, rfl, by decide⟩
theorem oneChar_slash : OneChar "/" '/' := ⟨rfl, rfl, rfl, by decide⟩
theorem oneChar_at : OneChar "@" '@' := ⟨rfl, rfl, rfl, by decide⟩

theorem splitLc_two (c0 : Char) (a b : List Char) (ha : c0 ∉ a) (hb : c0 ∉ b) :
    splitLc c0 [] (a ++ c0 :: b) = [a, b] := by
  rw [splitLc_append c0 a ha, splitLc, if_pos rfl, List.nil_append]
  have := splitLc_append c0 b hb [] []
  rw [List.append_nil, List.nil_append] at this
  rw [this, splitLc]

theorem splitLc_three (c0 : Char) (a b c : List Char) (ha : c0 ∉ a) (hb : c0 ∉ b) (hc : c0 ∉ c) :
    splitLc c0 [] (a ++ c0 :: (b ++ c0 :: c)) = [a, b, c] := by
  rw [splitLc_append c0 a ha, splitLc, if_pos rfl, List.nil_append, splitLc_two c0 b c hb hc]

/-- `kd=rest` splits at the `=` -/
theorem split_eq2 (kd rest : String) (h1 : NoCh '=' kd) (h2 : NoCh '=' rest) :
    (kd ++ "=" ++ rest).splitOn "=" = [kd, rest] := by
  rw [splitOn_char "=" '=' oneChar_eq]
  have : (kd ++ "=" ++ rest).toList = kd.toList ++ '=' :: rest.toList := by
    simp [String.toList_append]
  rw [this, splitLc_two '=' _ _ h1 h2]
  simp [String.ofList_toList]

/-- `res/a0/p1` splits at the two `/` -/
theorem split_slash3 (res : String) (h1 : NoCh '/' res) :
    (res ++ "/a0/p1").splitOn "/" = [res, "a0", "p1"] := by
  rw [splitOn_char "/" '/' oneChar_slash]
  have : (res ++ "/a0/p1").toList = res.toList ++ '/' :: ("a0".toList ++ '/' :: "p1".toList) := by
    rw [String.toList_append]; rfl
  rw [this, splitLc_three '/' _ _ _ h1 (by decide) (by decide)]
  simp [String.ofList_toList]

/-- the object name of a part is what precedes the first `@` -/
theorem split_at_head (o rest : String) (h : NoCh '@' o) :
    ((o ++ "@" ++ rest).splitOn "@").head! = o := by
  rw [splitOn_char "@" '@' oneChar_at]
  have e : (o ++ "@" ++ rest).toList = o.toList ++ '@' :: rest.toList := by
    simp [String.toList_append]
  obtain ⟨tl, hh⟩ := splitLc_head '@' [] (o.toList ++ '@' :: rest.toList)
  rw [e, hh]
  have hp : ∀ c ∈ o.toList, (c != '@') = true := by
    intro c hc
    have : c ≠ '@' := fun e' => h (e' ▸ hc)
    simpa using this
  rw [(takeWhile_stop _ _ hp).2 '@' _ (by decide)]
  simp only [List.nil_append, List.map_cons, String.ofList_toList]
  rfl

/-- a line `first tok tok …` splits at the spaces -/
theorem split_line (first : String) (toks : List String) (hne : toks ≠ []) (h1 : NoSp first)
    (h2 : ∀ t ∈ toks, NoSp t) :
    (first ++ " " ++ " ".intercalate toks).splitOn " " = first :: toks := by
  obtain ⟨b, l, rfl⟩ := List.exists_cons_of_ne_nil hne
  rw [← String.intercalate_cons_cons]
  apply splitOn_intercalate _ (by simp)
  intro t ht
  rcases List.mem_cons.1 ht with rfl | ht
  · exact h1
  · exact h2 t ht

/-! ## `startsWith`, `contains` -/

theorem startsWith_append (p x : String) : (p ++ x).startsWith p = true := by
  rw [String.startsWith_string_iff, String.toList_append]
  exact List.prefix_append _ _

theorem not_startsWith (s pat : String) (c c' : Char) (t t' : List Char) (hs : s.toList = c :: t)
    (hp : pat.toList = c' :: t') (hne : c ≠ c') : s.startsWith pat = false := by
  rw [Bool.eq_false_iff, Ne, String.startsWith_string_iff, hs, hp]
  rintro ⟨u, hu⟩
  simp only [List.cons_append, List.cons.injEq] at hu
  exact hne hu.1.symm

theorem not_contains_of_char (s pat : String) (c : Char) (hc : c ∈ pat.toList) (hs : c ∉ s.toList) :
    s.contains pat = false := by
  rw [String.contains_string_eq_false_iff]
  intro h
  exact hs (h.subset hc)

end Bao.SpecFaults
