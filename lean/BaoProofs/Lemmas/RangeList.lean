import BaoModel.Spec

set_option linter.unusedSimpArgs false

/-!
# Boundary lists: `countLt` / `bsearch` / `contains` on well-formed lists, `take`, `drop`

Everything is phrased through two prefix counters: `countLt q x` (model) and `countLe q x`
(here).  On a strictly increasing list they are the number of boundaries `< x` resp. `≤ x`,
`contains q x` is "`countLe q x` is odd", and `take` / `drop` act on the counters by
`min k ·` resp. `· - k`.  `split`, `splitInner`, `truncatedLen` and `Spec.selected` are then
rewritten as arithmetic on these counters, so the property proofs are case splits + `omega`.
-/

namespace Bao.Ranges

/-- number of leading boundaries `≤ x` (twin of `countLt`) -/
def countLe : List Nat → Nat → Nat
  | [], _ => 0
  | b :: rest, x => if b ≤ x then countLe rest x + 1 else 0

/-! ## `WF` -/

theorem WF_cons_cons {a b : Nat} {rest : List Nat} :
    WF (a :: b :: rest) = true ↔ a < b ∧ WF (b :: rest) = true := by
  simp [WF]

theorem WF_tail {a : Nat} {rest : List Nat} (h : WF (a :: rest) = true) : WF rest = true := by
  cases rest with
  | nil => rfl
  | cons b r => exact (WF_cons_cons.1 h).2

theorem WF_head_lt {a : Nat} {rest : List Nat} (h : WF (a :: rest) = true) :
    ∀ b ∈ rest, a < b := by
  induction rest generalizing a with
  | nil => intro b hb; cases hb
  | cons c r ih =>
    intro b hb
    have h' := WF_cons_cons.1 h
    rcases List.mem_cons.1 hb with rfl | hb
    · exact h'.1
    · exact Nat.lt_trans h'.1 (ih h'.2 b hb)

theorem WF_take {q : List Nat} (h : WF q = true) (k : Nat) : WF (q.take k) = true := by
  induction q generalizing k with
  | nil => simp [WF]
  | cons a rest ih =>
    match k, rest, h, ih with
    | 0, _, _, _ => simp [WF]
    | 1, _, _, _ => simp [WF]
    | k + 2, [], _, _ => simp [WF]
    | k + 2, b :: r, h, ih =>
      have h' := WF_cons_cons.1 h
      have := ih h'.2 (k + 1)
      simp only [List.take_succ_cons] at this ⊢
      exact WF_cons_cons.2 ⟨h'.1, this⟩

theorem WF_drop {q : List Nat} (h : WF q = true) (k : Nat) : WF (q.drop k) = true := by
  induction k generalizing q with
  | zero => simpa using h
  | succ k ih =>
    cases q with
    | nil => simp [WF]
    | cons a rest => simpa using ih (WF_tail h)

/-! ## the counters -/

theorem countLt_le_countLe (q : List Nat) (x : Nat) : countLt q x ≤ countLe q x := by
  induction q with
  | nil => simp [countLt, countLe]
  | cons b rest ih =>
    simp only [countLt, countLe]
    split <;> split <;> omega

theorem countLe_le_length (q : List Nat) (x : Nat) : countLe q x ≤ q.length := by
  induction q with
  | nil => simp [countLe]
  | cons b rest ih =>
    simp only [countLe, List.length_cons]
    split <;> omega

theorem countLt_le_length (q : List Nat) (x : Nat) : countLt q x ≤ q.length :=
  Nat.le_trans (countLt_le_countLe q x) (countLe_le_length q x)

theorem countLe_eq_zero_of_forall_gt {l : List Nat} {x : Nat} (h : ∀ b ∈ l, x < b) :
    countLe l x = 0 := by
  cases l with
  | nil => rfl
  | cons c r =>
    have := h c (List.mem_cons_self ..)
    simp only [countLe]
    split <;> omega

/-- on a strictly increasing list at most one boundary equals `x` -/
theorem countLe_le_countLt_succ {q : List Nat} (h : WF q = true) (x : Nat) :
    countLe q x ≤ countLt q x + 1 := by
  induction q with
  | nil => simp [countLe]
  | cons b rest ih =>
    have ih := ih (WF_tail h)
    simp only [countLt, countLe]
    by_cases h1 : b < x
    · have : b ≤ x := Nat.le_of_lt h1
      simp only [h1, this, if_true]; omega
    · by_cases h2 : b ≤ x
      · have : countLe rest x = 0 :=
          countLe_eq_zero_of_forall_gt (fun c hc => by have := WF_head_lt h c hc; omega)
        simp only [h1, h2, if_true, if_false, this]; omega
      · simp only [h1, h2, if_false]; omega

theorem countLe_mono (q : List Nat) {x y : Nat} (hxy : x ≤ y) : countLe q x ≤ countLe q y := by
  induction q with
  | nil => simp [countLe]
  | cons b rest ih =>
    simp only [countLe]
    split <;> split <;> omega

theorem countLe_le_countLt (q : List Nat) {x y : Nat} (hxy : x < y) :
    countLe q x ≤ countLt q y := by
  induction q with
  | nil => simp [countLe]
  | cons b rest ih =>
    simp only [countLe, countLt]
    split <;> split <;> omega

theorem countLt_le_countLe_of_le (q : List Nat) {x y : Nat} (hxy : x ≤ y) :
    countLt q x ≤ countLe q y :=
  Nat.le_trans (countLt_le_countLe q x) (countLe_mono q hxy)

/-- the boundaries in front of the insertion point are `< x` -/
theorem lt_of_mem_take_countLt (q : List Nat) (x : Nat) :
    ∀ b ∈ q.take (countLt q x), b < x := by
  induction q with
  | nil => intro b hb; simp at hb
  | cons c rest ih =>
    intro b hb
    simp only [countLt] at hb
    split at hb
    · simp only [List.take_succ_cons, List.mem_cons] at hb
      rcases hb with rfl | hb
      · assumption
      · exact ih b hb
    · simp at hb

/-- the boundaries in front of `countLe` are `≤ x` -/
theorem le_of_mem_take_countLe (q : List Nat) (x : Nat) :
    ∀ b ∈ q.take (countLe q x), b ≤ x := by
  induction q with
  | nil => intro b hb; simp at hb
  | cons c rest ih =>
    intro b hb
    simp only [countLe] at hb
    split at hb
    · simp only [List.take_succ_cons, List.mem_cons] at hb
      rcases hb with rfl | hb
      · assumption
      · exact ih b hb
    · simp at hb

/-- the boundary at the insertion point, if any, is `≥ x` -/
theorem getElem?_countLt_ge (q : List Nat) (x b : Nat) (h : q[countLt q x]? = some b) : x ≤ b := by
  induction q with
  | nil => simp at h
  | cons c rest ih =>
    simp only [countLt] at h
    split at h
    · simp only [List.getElem?_cons_succ] at h; exact ih h
    · simp only [List.getElem?_cons_zero, Option.some.injEq] at h; omega

theorem getElem?_countLt_eq_iff (q : List Nat) (x : Nat) :
    q[countLt q x]? = some x ↔ countLt q x < countLe q x := by
  induction q with
  | nil => simp [countLt, countLe]
  | cons b rest ih =>
    simp only [countLt, countLe]
    by_cases h1 : b < x
    · have : b ≤ x := Nat.le_of_lt h1
      simp only [h1, this, if_true, List.getElem?_cons_succ, ih]; omega
    · simp only [h1, if_false, List.getElem?_cons_zero, Option.some.injEq]
      split <;> omega

theorem countLt_take (q : List Nat) (k x : Nat) : countLt (q.take k) x = min k (countLt q x) := by
  induction q generalizing k with
  | nil => simp [countLt]
  | cons b rest ih =>
    cases k with
    | zero => simp [countLt]
    | succ k =>
      simp only [List.take_succ_cons, countLt, ih]
      split <;> omega

theorem countLe_take (q : List Nat) (k x : Nat) : countLe (q.take k) x = min k (countLe q x) := by
  induction q generalizing k with
  | nil => simp [countLe]
  | cons b rest ih =>
    cases k with
    | zero => simp [countLe]
    | succ k =>
      simp only [List.take_succ_cons, countLe, ih]
      split <;> omega

theorem countLe_drop {q : List Nat} (h : WF q = true) (k x : Nat) :
    countLe (q.drop k) x = countLe q x - k := by
  induction q generalizing k with
  | nil => simp [countLe]
  | cons b rest ih =>
    cases k with
    | zero => simp
    | succ k =>
      simp only [List.drop_succ_cons, countLe]
      split
      · rw [ih (WF_tail h)]; omega
      · rw [countLe_eq_zero_of_forall_gt]
        · omega
        · intro c hc
          have := WF_head_lt h c (List.mem_of_mem_drop hc)
          omega

/-! ## `bsearch`, `contains` -/

theorem bsearch_eq (q : List Nat) (x : Nat) :
    bsearch q x = (decide (countLt q x < countLe q x), countLt q x) := by
  simp only [bsearch, Prod.mk.injEq, and_true]
  rw [Bool.eq_iff_iff]
  simp only [beq_iff_eq, decide_eq_true_eq]
  exact getElem?_countLt_eq_iff q x

/-- `binary_search` reports `Ok(i)` exactly when `x` is a boundary (WF lists) -/
theorem bsearch_found_iff {q : List Nat} (h : WF q = true) (x : Nat) :
    (bsearch q x).1 = true ↔ countLe q x = countLt q x + 1 := by
  have := countLe_le_countLt_succ h x
  simp only [bsearch_eq, decide_eq_true_eq]; omega

/-- `bsearch` reports `Ok` exactly when `x` is one of the boundaries (WF lists) -/
theorem bsearch_found_iff_mem {q : List Nat} (h : WF q = true) (x : Nat) :
    (bsearch q x).1 = true ↔ x ∈ q := by
  simp only [bsearch_eq, decide_eq_true_eq, ← getElem?_countLt_eq_iff]
  constructor
  · intro hx; exact List.mem_of_getElem? hx
  · intro hx
    induction q with
    | nil => cases hx
    | cons b rest ih =>
      simp only [countLt]
      rcases List.mem_cons.1 hx with rfl | hx
      · simp
      · have hb := WF_head_lt h x hx
        simp only [hb, if_true, List.getElem?_cons_succ]
        exact ih (WF_tail h) hx

/-- membership in a well-formed range set: an odd number of boundaries is `≤ x` -/
theorem contains_eq {q : List Nat} (h : WF q = true) (x : Nat) :
    contains q x = decide (countLe q x % 2 = 1) := by
  have h1 := countLe_le_countLt_succ h x
  have h2 := countLt_le_countLe q x
  simp only [contains, bsearch_eq]
  by_cases hlt : countLt q x < countLe q x
  · simp only [hlt, decide_true]
    rw [Bool.eq_iff_iff]; simp only [beq_iff_eq, decide_eq_true_eq]; omega
  · simp only [hlt, decide_false]
    rw [Bool.eq_iff_iff]; simp only [beq_iff_eq, decide_eq_true_eq]; omega

theorem contains_nil (x : Nat) : contains [] x = false := by
  simp [contains, bsearch, countLt]

theorem contains_singleton (b x : Nat) : contains [b] x = decide (b ≤ x) := by
  rw [contains_eq (by rfl)]
  simp only [countLe]
  split <;> simp [*]

/-- membership in a prefix of the boundary list -/
theorem contains_take {q : List Nat} (h : WF q = true) (k x : Nat) :
    contains (q.take k) x = decide (min k (countLe q x) % 2 = 1) := by
  rw [contains_eq (WF_take h k), countLe_take]

/-- membership in a suffix of the boundary list -/
theorem contains_drop {q : List Nat} (h : WF q = true) (k x : Nat) :
    contains (q.drop k) x = decide ((countLe q x - k) % 2 = 1) := by
  rw [contains_eq (WF_drop h k), countLe_drop h]

/-- points in front of the cut keep their membership when the list is cut at `≥ countLe` -/
theorem contains_take_of_le {q : List Nat} (h : WF q = true) {k x : Nat} (hk : countLe q x ≤ k) :
    contains (q.take k) x = contains q x := by
  rw [contains_take h, contains_eq h, Nat.min_eq_right hk]

/-! ## `split` -/

/-- `split` as arithmetic on the counters -/
theorem split_eq {q : List Nat} (h : WF q = true) (a : Nat) :
    split q a =
      (q.take (countLt q a),
        q.drop (if countLt q a % 2 = 0 then countLt q a
                else if countLe q a = countLt q a + 1 then countLt q a + 1
                else countLt q a - 1)) := by
  have h1 := countLe_le_countLt_succ h a
  have h2 := countLt_le_countLe q a
  have h3 := countLe_le_length q a
  simp only [split, bsearch_eq]
  by_cases hev : countLt q a % 2 = 0
  · simp [hev]
  · have hev' : ¬ (countLt q a % 2 == 0) = true := by simpa using hev
    simp only [hev', hev, if_false, Bool.false_eq_true]
    by_cases hlt : countLt q a < countLe q a
    · have : countLe q a = countLt q a + 1 := by omega
      simp only [hlt, decide_true]
      simp only [this, if_true]
      rw [Nat.min_eq_left (by omega)]
    · have : ¬ countLe q a = countLt q a + 1 := by omega
      simp only [hlt, decide_false]
      simp only [this, if_false]

theorem split_fst (q : List Nat) (a : Nat) : (split q a).1 = q.take (countLt q a) := by
  simp only [split, bsearch_eq]
  split
  · rfl
  · split <;> rfl

/-! ## `truncatedLen` -/

theorem chunksOf_sub_one (size : Nat) : chunksOf size - 1 = Spec.nChunks size - 1 := by
  simp only [chunksOf, Spec.nChunks]
  split <;> omega

/-- `truncatedLen` as arithmetic on the counters -/
theorem truncatedLen_eq {q : List Nat} (h : WF q = true) (size : Nat) :
    truncatedLen q size =
      (if countLe q (Spec.nChunks size - 1) = countLt q (Spec.nChunks size - 1) + 1 then
        (if countLt q (Spec.nChunks size - 1) % 2 = 0 then countLt q (Spec.nChunks size - 1) + 1
         else if q.length = countLt q (Spec.nChunks size - 1) + 1
           then countLt q (Spec.nChunks size - 1) + 1
           else countLt q (Spec.nChunks size - 1))
       else
        (if countLt q (Spec.nChunks size - 1) % 2 = 0 then
          (if q.length = countLt q (Spec.nChunks size - 1) then countLt q (Spec.nChunks size - 1)
           else countLt q (Spec.nChunks size - 1) + 1)
         else countLt q (Spec.nChunks size - 1))) := by
  have h1 := countLe_le_countLt_succ h (Spec.nChunks size - 1)
  have h2 := countLt_le_countLe q (Spec.nChunks size - 1)
  simp only [truncatedLen, bsearch_eq, chunksOf_sub_one]
  by_cases hlt : countLt q (Spec.nChunks size - 1) < countLe q (Spec.nChunks size - 1)
  · have : countLe q (Spec.nChunks size - 1) = countLt q (Spec.nChunks size - 1) + 1 := by omega
    simp only [hlt, decide_true, beq_iff_eq]
    simp only [this, if_true]
  · have : ¬ countLe q (Spec.nChunks size - 1) = countLt q (Spec.nChunks size - 1) + 1 := by omega
    simp only [hlt, decide_false, beq_iff_eq]
    simp only [this, if_false]

/-- the boundaries strictly in front of the last kept one are below the last chunk -/
theorem truncatedLen_le_succ (q : List Nat) (size : Nat) :
    truncatedLen q size ≤ countLt q (Spec.nChunks size - 1) + 1 := by
  simp only [truncatedLen, bsearch_eq, chunksOf_sub_one]
  split <;> rename_i heq <;> simp only [Prod.mk.injEq] at heq <;> obtain ⟨-, rfl⟩ := heq <;>
    repeat' split
  all_goals omega

theorem truncatedLen_le_length (q : List Nat) (size : Nat) :
    truncatedLen q size ≤ q.length := by
  have h3 := countLt_le_length q (Spec.nChunks size - 1)
  have h4 := (getElem?_countLt_eq_iff q (Spec.nChunks size - 1))
  have h5 : countLt q (Spec.nChunks size - 1) < countLe q (Spec.nChunks size - 1) →
      countLt q (Spec.nChunks size - 1) < q.length := fun hh =>
    Nat.lt_of_lt_of_le hh (countLe_le_length _ _)
  simp only [truncatedLen, bsearch_eq, chunksOf_sub_one]
  split <;> rename_i heq <;> simp only [Prod.mk.injEq, decide_eq_true_eq, decide_eq_false_iff_not] at heq <;>
    obtain ⟨hf, rfl⟩ := heq <;> repeat' split
  all_goals (simp only [beq_iff_eq] at *; omega)

/-! ## `Spec.selected` -/

/-- "the set has a point `≥ m`": a range `[a,b)` with `b > m`, or an open end -/
def reachesPast : List Nat → Nat → Bool
  | [], _ => false
  | [_], _ => true
  | _ :: b :: rest, m => decide (b > m) || reachesPast rest m

private def pastAt (q : List Nat) (m : Nat) (i : Nat) : Bool :=
  if i % 2 == 0 then
    match q[i]?, q[i+1]? with
    | some _, some b => decide (b > m)
    | some _, none => true
    | _, _ => false
  else false

private theorem any_range_succ_succ (f : Nat → Bool) (n : Nat) :
    (List.range (n + 2)).any f = (f 0 || f 1 || (List.range n).any fun i => f (i + 2)) := by
  rw [List.range_succ_eq_map, List.range_succ_eq_map]
  simp only [List.any_cons, List.any_map, List.map_cons, List.map_map, Bool.or_assoc]
  rfl

private theorem any_pastAt (q : List Nat) (m : Nat) :
    ((List.range q.length).any (pastAt q m)) = reachesPast q m := by
  fun_induction reachesPast q m with
  | case1 => rfl
  | case2 a => rfl
  | case3 a b rest m ih =>
    simp only [List.length_cons, any_range_succ_succ, reachesPast, ← ih]
    have h0 : pastAt (a :: b :: rest) m 0 = decide (b > m) := by simp [pastAt]
    have h1 : pastAt (a :: b :: rest) m 1 = false := by simp [pastAt]
    have h2 : (fun i => pastAt (a :: b :: rest) m (i + 2)) = pastAt rest m := by
      funext i
      simp only [pastAt, Nat.add_mod_right, List.getElem?_cons_succ]
    rw [h0, h1, h2]; simp

/-- `reachesPast` on a well-formed list: an open end, or a boundary `> m` -/
theorem reachesPast_eq {q : List Nat} (h : WF q = true) (m : Nat) :
    reachesPast q m = (decide (q.length % 2 = 1) || decide (countLe q m < q.length)) := by
  fun_induction reachesPast q m with
  | case1 => rfl
  | case2 a => simp [reachesPast]
  | case3 a b rest m ih =>
    have hab := (WF_cons_cons.1 h).1
    have ih := ih (WF_tail (WF_tail h))
    have hl := countLe_le_length rest m
    simp only [reachesPast, ih, countLe, List.length_cons]
    rw [Bool.eq_iff_iff]
    simp only [Bool.or_eq_true, decide_eq_true_eq]
    by_cases hb : b ≤ m
    · have ha : a ≤ m := by omega
      simp only [hb, ha, if_true, decide_eq_true_eq]; omega
    · simp only [hb, if_false]
      split <;> simp only [decide_eq_true_eq] <;> omega

/-- the closed form suggested by the informal statement: non-empty and (open end or last
boundary `> m`) -/
theorem reachesPast_eq_getLast {q : List Nat} (h : WF q = true) (m : Nat) :
    reachesPast q m = true ↔ ∃ hne : q ≠ [], q.length % 2 = 1 ∨ q.getLast hne > m := by
  fun_induction reachesPast q m with
  | case1 => simp [reachesPast]
  | case2 a => simp [reachesPast]
  | case3 a b rest m ih =>
    have ih := ih (WF_tail (WF_tail h))
    simp only [reachesPast, Bool.or_eq_true, decide_eq_true_eq, ih]
    cases rest with
    | nil => simp
    | cons c r =>
      have hbc : ∀ x ∈ c :: r, b < x := WF_head_lt (WF_tail h)
      have hlast := hbc _ (List.getLast_mem (List.cons_ne_nil c r))
      simp only [ne_eq, reduceCtorEq, not_false_eq_true, List.length_cons, List.getLast_cons,
        exists_true_left]
      omega

/-- `Spec.selected` with the index search replaced by `reachesPast` -/
theorem selected_eq_reachesPast (size : Nat) (q : List Nat) (c : Nat) :
    Spec.selected size q c =
      (decide (c < Spec.nChunks size) &&
        (contains q c || (c == Spec.nChunks size - 1 && reachesPast q (Spec.nChunks size - 1)))) := by
  rw [← any_pastAt]; rfl

/-- `Spec.selected` as arithmetic on the counters -/
theorem selected_eq {q : List Nat} (h : WF q = true) (size c : Nat) :
    Spec.selected size q c =
      (decide (c < Spec.nChunks size) &&
        (decide (countLe q c % 2 = 1) ||
          (c == Spec.nChunks size - 1 &&
            (decide (q.length % 2 = 1) || decide (countLe q (Spec.nChunks size - 1) < q.length))))) := by
  rw [selected_eq_reachesPast, contains_eq h, reachesPast_eq h]

theorem nChunks_pos (size : Nat) : 0 < Spec.nChunks size := by
  simp only [Spec.nChunks]; omega

/-! ## `truncate` -/

/-- bundle of the counter facts every `truncate` proof needs -/
theorem truncatedLen_facts {q : List Nat} (h : WF q = true) (size : Nat) :
    ∃ i j, i = countLt q (Spec.nChunks size - 1) ∧ j = countLe q (Spec.nChunks size - 1) ∧
      i ≤ j ∧ j ≤ i + 1 ∧ j ≤ q.length ∧
      truncatedLen q size =
        (if j = i + 1 then (if i % 2 = 0 then i + 1 else if q.length = i + 1 then i + 1 else i)
         else (if i % 2 = 0 then (if q.length = i then i else i + 1) else i)) :=
  ⟨_, _, rfl, rfl, countLt_le_countLe _ _, countLe_le_countLt_succ h _, countLe_le_length _ _,
    truncatedLen_eq h size⟩

theorem truncate_selected_aux {q : List Nat} (h : WF q = true) (size c : Nat) :
    Spec.selected size (truncate q size) c = Spec.selected size q c := by
  obtain ⟨i, j, hi, hj, h1, h2, h3, hk⟩ := truncatedLen_facts h size
  have h4 : c < Spec.nChunks size - 1 → countLe q c ≤ i := fun hc => hi ▸ countLe_le_countLt q hc
  have h5 : c = Spec.nChunks size - 1 → countLe q c = j := fun hc => by rw [hj, hc]
  rw [truncate, selected_eq (WF_take h _), selected_eq h]
  simp only [countLe_take, List.length_take, ← hj]
  generalize truncatedLen q size = k at *
  generalize countLe q c = jc at *
  generalize q.length = len at *
  generalize Spec.nChunks size = n at *
  rw [Bool.eq_iff_iff]
  simp only [Bool.and_eq_true, Bool.or_eq_true, decide_eq_true_eq, beq_iff_eq]
  repeat' split at hk
  all_goals omega

theorem truncate_idempotent_aux {q : List Nat} (h : WF q = true) (size : Nat) :
    truncate (truncate q size) size = truncate q size := by
  obtain ⟨i, j, hi, hj, h1, h2, h3, hk⟩ := truncatedLen_facts h size
  obtain ⟨i', j', hi', hj', h1', h2', h3', hk'⟩ := truncatedLen_facts (WF_take h (truncatedLen q size)) size
  simp only [truncate, List.take_take]
  rw [countLt_take, ← hi] at hi'
  rw [countLe_take, ← hj] at hj'
  rw [List.length_take] at hk' h3'
  generalize truncatedLen (List.take (truncatedLen q size) q) size = k' at *
  generalize truncatedLen q size = k at *
  have : min k' k = k := by
    generalize q.length = len at *
    repeat' split at hk
    all_goals (repeat' split at hk')
    all_goals omega
  rw [this]

theorem truncate_bounded_init (q : List Nat) (size : Nat) :
    ∀ b ∈ (truncate q size).dropLast, b < Spec.nChunks size - 1 := by
  intro b hb
  apply lt_of_mem_take_countLt q (Spec.nChunks size - 1) b
  rw [truncate, List.dropLast_eq_take, List.take_take, List.length_take] at hb
  have := truncatedLen_le_succ q size
  exact List.take_subset_take_left q (by omega) hb

theorem truncate_bounded_even {q : List Nat} (h : WF q = true) (size : Nat)
    (hev : (truncate q size).length % 2 = 0) :
    ∀ b ∈ truncate q size, b ≤ Spec.nChunks size - 1 := by
  intro b hb
  apply le_of_mem_take_countLe q (Spec.nChunks size - 1) b
  obtain ⟨i, j, hi, hj, h1, h2, h3, hk⟩ := truncatedLen_facts h size
  rw [truncate] at hb hev
  rw [List.length_take] at hev
  rw [← hj]
  refine List.take_subset_take_left q ?_ hb
  generalize truncatedLen q size = k at *
  generalize q.length = len at *
  repeat' split at hk
  all_goals omega

theorem selected_nil (size c : Nat) : Spec.selected size [] c = false := by
  rw [selected_eq (by rfl)]; simp [countLe]

theorem truncate_empty_iff_aux {q : List Nat} (h : WF q = true) (size : Nat) :
    truncate q size = [] ↔ ∀ c, Spec.selected size q c = false := by
  constructor
  · intro he c
    rw [← truncate_selected_aux h, he, selected_nil]
  · intro hall
    -- the chunk of the first boundary (or the last chunk) would be selected
    cases q with
    | nil => rfl
    | cons a rest =>
      exfalso
      have hn := nChunks_pos size
      have hl := countLe_le_length (a :: rest) (Spec.nChunks size - 1)
      have hlast := hall (Spec.nChunks size - 1)
      have hfirst := hall a
      have ha : countLe (a :: rest) a = 1 := by
        simp only [countLe, Nat.le_refl, if_true]
        rw [countLe_eq_zero_of_forall_gt (WF_head_lt h)]
      rw [selected_eq h] at hlast hfirst
      rw [ha] at hfirst
      simp only [Bool.and_eq_false_iff, Bool.or_eq_false_iff, decide_eq_false_iff_not,
        beq_eq_false_iff_ne] at hlast hfirst
      have ham : a ≤ Spec.nChunks size - 1 := by
        false_or_by_contra
        rename_i hgt
        simp only [countLe, hgt, if_false, List.length_cons] at hlast
        omega
      simp only [not_true_eq_false, false_and, or_false] at hfirst
      omega

/-! ## `split` / `splitInner`: membership and well-formedness -/

theorem split_wf {q : List Nat} (h : WF q = true) (a : Nat) :
    WF (split q a).1 = true ∧ WF (split q a).2 = true := by
  rw [split_eq h]; exact ⟨WF_take h _, WF_drop h _⟩

theorem split_left_contains {q : List Nat} (h : WF q = true) {a x : Nat} (hx : x < a) :
    contains (split q a).1 x = contains q x := by
  rw [split_fst]; exact contains_take_of_le h (countLe_le_countLt q hx)

theorem split_right_contains {q : List Nat} (h : WF q = true) {a x : Nat} (hx : a ≤ x) :
    contains (split q a).2 x = contains q x := by
  have h1 := countLe_mono q hx
  have h2 := countLt_le_countLe q a
  rw [split_eq h, contains_drop h, contains_eq h]
  rw [Bool.eq_iff_iff]; simp only [decide_eq_true_eq]
  repeat' split
  all_goals omega

/-- the `[x] ↦ [0]` normalisation step of `split_inner` -/
def fixAll (l : List Nat) (s : Nat) : List Nat :=
  match l with
  | [x] => if x ≤ s then [0] else l
  | _ => l

theorem splitInner_eq (q : List Nat) (s m : Nat) :
    splitInner q s m = (fixAll (split q m).1 s, fixAll (split q m).2 m) := rfl

theorem fixAll_wf {l : List Nat} (h : WF l = true) (s : Nat) : WF (fixAll l s) = true := by
  unfold fixAll; split
  · split
    · rfl
    · exact h
  · exact h

theorem fixAll_contains (l : List Nat) {s x : Nat} (hx : s ≤ x) :
    contains (fixAll l s) x = contains l x := by
  unfold fixAll; split
  · split
    · simp only [contains_singleton]; rw [Bool.eq_iff_iff]; simp only [decide_eq_true_eq]; omega
    · rfl
  · rfl

theorem fixAll_eq_all {l : List Nat} {s : Nat} (h : fixAll l s = [0]) {x : Nat} (hx : s ≤ x) :
    contains l x = true := by
  rw [← fixAll_contains l hx, h, contains_singleton]; simp

end Bao.Ranges
