import BaoProofs.Lemmas.OutboardL

/-!
# `copy` / `flip` between outboards (C12, last sentence)

`copy` walks the pre-order node iterator of the source tree, `load`s every node from the source and
`save`s what it got to the target.  With the slot bijections of C12 (`C12.pre`, `C12.post`) and the
positional-write lemma `WriteAtL.applyWrites_perm` this gives a closed form for the result:

  `copy hf fl src dst = .ok { dst with data := P.flatMap fun x => reenc hf (blockAt src.data (slotD src x)) }`

where `P` is the persisted-node list in the order of the TARGET (`plist dst.kind …`), `slotD src x` the
slot of `x` in the SOURCE, and `reenc` what parsing + re-serialising does to a 64-byte record (the
identity under the byte round trip `hbt`).
-/

namespace Bao.CopyL
open Bao Bao.Spec Bao.WriteAtL Bao.OutboardL Bao.NodeIterL

section
variable {H : Type} (hf : HashFns H)

/-! ## records -/

/-- what `load` (parse) followed by `save` (serialise) does to a 64-byte record -/
def reenc (b : List UInt8) : List UInt8 :=
  hf.toBytes (hf.ofBytes (b.take 32)) ++ hf.toBytes (hf.ofBytes ((b.drop 32).take 32))

theorem reenc_length (hlen : ∀ h, (hf.toBytes h).length = 32) (b : List UInt8) :
    (reenc hf b).length = 64 := by
  unfold reenc
  rw [List.length_append, hlen, hlen]

/-- under the byte round trip a 64-byte record is copied verbatim -/
theorem reenc_id (hbt : ∀ b : List UInt8, b.length = 32 → hf.toBytes (hf.ofBytes b) = b)
    (b : List UInt8) (hb : b.length = 64) : reenc hf b = b := by
  unfold reenc
  have e : (b.drop 32).take 32 = b.drop 32 :=
    List.take_of_length_le (by rw [List.length_drop]; omega)
  rw [e, hbt _ (by rw [List.length_take]; omega), hbt _ (by rw [List.length_drop]; omega),
    List.take_append_drop]

/-- a record of the form `toBytes l ++ toBytes r` is copied verbatim under `ofBytes ∘ toBytes = id` -/
theorem reenc_pair (hlen : ∀ h, (hf.toBytes h).length = 32)
    (hrt : ∀ h, hf.ofBytes (hf.toBytes h) = h) (l r : H) :
    reenc hf (hf.toBytes l ++ hf.toBytes r) = hf.toBytes l ++ hf.toBytes r := by
  unfold reenc
  rw [List.take_left' (hlen _), List.drop_left' (hlen _),
    List.take_of_length_le (by rw [hlen]; omega), hrt, hrt]

theorem reenc_pairBytes (hlen : ∀ h, (hf.toBytes h).length = 32)
    (hrt : ∀ h, hf.ofBytes (hf.toBytes h) = h) (d : List UInt8) (x : Nat) :
    reenc hf (pairBytes hf d x) = pairBytes hf d x := by
  unfold pairBytes
  exact reenc_pair hf hlen hrt _ _

theorem wbytes_parsePair (x : Nat) (b : List UInt8) :
    wbytes hf (x, parsePair hf b) = reenc hf b := rfl

/-! ## blocks of a prefix -/

theorem flatMap_congr' {α β : Type} (l : List α) (f g : α → List β) (h : ∀ x ∈ l, f x = g x) :
    l.flatMap f = l.flatMap g := by
  induction l with
  | nil => rfl
  | cons a t ih =>
    rw [List.flatMap_cons, List.flatMap_cons, h a List.mem_cons_self,
      ih (fun x hx => h x (List.mem_cons_of_mem _ hx))]

theorem blockAt_take (data : List UInt8) (N i : Nat) (hi : i < N) :
    blockAt (data.take (N * 64)) i = blockAt data i := by
  apply List.ext_getElem?
  intro j
  rw [getElem?_blockAt, getElem?_blockAt]
  by_cases hj : j < 64
  · simp only [hj, if_true, List.getElem?_take]
    rw [if_pos (by omega)]
  · simp only [hj, if_false]

/-- the concatenation of the first `N` blocks is the prefix of `N * 64` bytes -/
theorem flatMap_blocks_eq_take {α : Type} (P : List α) (sl : α → Nat) (data : List UInt8)
    (hsl : ∀ i (h : i < P.length), sl P[i] = i) (hd : P.length * 64 ≤ data.length) :
    P.flatMap (fun x => blockAt data (sl x)) = data.take (P.length * 64) := by
  have h64 : ∀ x ∈ P, (blockAt data (sl x)).length = 64 := by
    intro x hx
    obtain ⟨i, hi, rfl⟩ := List.getElem_of_mem hx
    rw [hsl i hi]
    exact length_blockAt data i (by omega)
  apply ext_blockAt _ _ P.length (length_flatMap64 P _ h64)
    (by rw [List.length_take]; omega)
  intro i hi
  rw [blockAt_flatMap P _ h64 i hi, hsl i hi, blockAt_take data P.length i hi]

/-! ## `load` / the loop -/

/-- `load` of a stored node whose record lies inside the backing: the parsed record -/
theorem load_block (fl : Flavour) (s : Store H) (hk : s.kind ≠ .empty) (x i : Nat)
    (hsl : s.slot x = some i) (hle : i * 64 + 64 ≤ s.data.length) :
    s.load hf fl x = .ok (some (parsePair hf (blockAt s.data i))) := by
  unfold Store.load blockAt
  cases hkd : s.kind with
  | empty => exact (hk hkd).elim
  | preIo => simp only [hsl, if_pos hle]
  | postIo => simp only [hsl, if_pos hle]
  | preMem => simp only [hsl, if_pos hle]
  | postMem => simp only [hsl, if_pos hle]

theorem copyLoop_nil (fl : Flavour) (src dst : Store H) : copyLoop hf fl src [] dst = .ok dst := rfl

/-- nodes the source does not store are skipped -/
theorem copyLoop_none (fl : Flavour) (src dst : Store H) (xs : List Nat)
    (h : ∀ x ∈ xs, src.load hf fl x = .ok none) : copyLoop hf fl src xs dst = .ok dst := by
  induction xs with
  | nil => rfl
  | cons x xs ih =>
    simp only [copyLoop, h x List.mem_cons_self]
    exact ih (fun y hy => h y (List.mem_cons_of_mem _ hy))

theorem copyLoop_append (fl : Flavour) (src : Store H) (xs ys : List Nat) (dst d1 : Store H)
    (h : copyLoop hf fl src xs dst = .ok d1) :
    copyLoop hf fl src (xs ++ ys) dst = copyLoop hf fl src ys d1 := by
  induction xs generalizing dst with
  | nil =>
    simp only [copyLoop] at h
    cases h
    rfl
  | cons x xs ih =>
    simp only [List.cons_append, copyLoop] at h ⊢
    cases hl : src.load hf fl x with
    | err e => rw [hl] at h; cases h
    | panic => rw [hl] at h; cases h
    | ok o =>
      rw [hl] at h
      cases o with
      | none => exact ih dst h
      | some p =>
        simp only at h ⊢
        cases hsv : dst.save hf x p with
        | err e => rw [hsv] at h; cases h
        | panic => rw [hsv] at h; cases h
        | ok d2 => rw [hsv] at h; exact ih d2 h

/-- over nodes the source stores (record inside the backing) the loop is `putAll` of the parsed
records -/
theorem copyLoop_putAll (fl : Flavour) (src : Store H) (hk : src.kind ≠ .empty) (sl : Nat → Nat)
    (xs : List Nat)
    (hsl : ∀ x ∈ xs, src.slot x = some (sl x) ∧ sl x * 64 + 64 ≤ src.data.length)
    (dst : Store H) :
    copyLoop hf fl src xs dst
      = putAll (putStore hf) dst (xs.map fun x => (x, parsePair hf (blockAt src.data (sl x)))) := by
  induction xs generalizing dst with
  | nil => rfl
  | cons x xs ih =>
    obtain ⟨h1, h2⟩ := hsl x List.mem_cons_self
    simp only [copyLoop, load_block hf fl src hk x (sl x) h1 h2, List.map_cons, putAll, putStore]
    cases hsv : dst.save hf x (parsePair hf (blockAt src.data (sl x))) with
    | err e => rfl
    | panic => rfl
    | ok d2 => exact ih (fun y hy => hsl y (List.mem_cons_of_mem _ hy)) d2

/-! ## the persisted nodes in the order of a store kind, and their slots -/

/-- the persisted nodes in the order in which a store of kind `k` lays them out -/
def plist (k : StoreKind) (size bs : Nat) : List Nat :=
  match k with
  | .postIo | .postMem => persistedPost size bs
  | _ => persistedPre size bs

/-- slot of a node, `0` if it has none -/
def slotD (s : Store H) (x : Nat) : Nat := (s.slot x).getD 0

theorem plist_pre {k : StoreKind} (hk : k = .preIo ∨ k = .preMem) (size bs : Nat) :
    plist k size bs = persistedPre size bs := by
  rcases hk with h | h <;> rw [h] <;> rfl

theorem plist_post {k : StoreKind} (hk : k = .postIo ∨ k = .postMem) (size bs : Nat) :
    plist k size bs = persistedPost size bs := by
  rcases hk with h | h <;> rw [h] <;> rfl

theorem kind_cases (s : Store H) (hk : s.kind ≠ .empty) :
    (s.kind = .preIo ∨ s.kind = .preMem) ∨ (s.kind = .postIo ∨ s.kind = .postMem) := by
  cases hkd : s.kind with
  | empty => exact (hk hkd).elim
  | preIo => exact .inl (.inl rfl)
  | preMem => exact .inl (.inr rfl)
  | postIo => exact .inr (.inl rfl)
  | postMem => exact .inr (.inr rfl)

theorem plist_perm (k : StoreKind) (size bs : Nat) (hs : size ≤ 2 ^ 63) :
    (plist k size bs).Perm (persistedPre size bs) := by
  cases k with
  | postIo => exact persistedPost_perm size bs hs
  | postMem => exact persistedPost_perm size bs hs
  | preIo => exact List.Perm.refl _
  | preMem => exact List.Perm.refl _
  | empty => exact List.Perm.refl _

theorem plist_length (k : StoreKind) (size bs : Nat) (hs : size ≤ 2 ^ 63) (hbs : bs ≤ 10) :
    (plist k size bs).length = Tree.blocks ⟨size, bs⟩ - 1 := by
  rw [(plist_perm k size bs hs).length_eq]
  exact (C12.pre size bs hs hbs).1

/-- the slot function of a (non-empty-kind) store enumerates its list -/
theorem slot_plist (s : Store H) (hk : s.kind ≠ .empty) (size bs : Nat) (hs : size ≤ 2 ^ 63)
    (hbs : bs ≤ 10) (ht : s.tree = ⟨size, bs⟩) (i : Nat) (h : i < (plist s.kind size bs).length) :
    s.slot (plist s.kind size bs)[i] = some i := by
  rcases kind_cases s hk with hk' | hk'
  · have e := plist_pre hk' size bs
    rw [slot_pre hk', ht]
    simp only [e]
    exact (C12.pre size bs hs hbs).2 i (by rw [← e]; exact h)
  · have e := plist_post hk' size bs
    rw [slot_post hk', ht]
    simp only [e]
    exact (C12.post size bs hs hbs).2 i (by rw [← e]; exact h)

theorem slotD_plist (s : Store H) (hk : s.kind ≠ .empty) (size bs : Nat) (hs : size ≤ 2 ^ 63)
    (hbs : bs ≤ 10) (ht : s.tree = ⟨size, bs⟩) (i : Nat) (h : i < (plist s.kind size bs).length) :
    slotD s (plist s.kind size bs)[i] = i := by
  unfold slotD
  rw [slot_plist s hk size bs hs hbs ht i h]
  rfl

/-- every persisted node has a slot `< blocks - 1` in every non-empty-kind store -/
theorem slot_persisted (s : Store H) (hk : s.kind ≠ .empty) (size bs : Nat) (hs : size ≤ 2 ^ 63)
    (hbs : bs ≤ 10) (ht : s.tree = ⟨size, bs⟩) (x : Nat) (hx : x ∈ persistedPre size bs) :
    s.slot x = some (slotD s x) ∧ slotD s x < Tree.blocks ⟨size, bs⟩ - 1 := by
  have hx' := (plist_perm s.kind size bs hs).mem_iff.mpr hx
  obtain ⟨i, hi, rfl⟩ := List.getElem_of_mem hx'
  rw [slotD_plist s hk size bs hs hbs ht i hi, slot_plist s hk size bs hs hbs ht i hi]
  exact ⟨rfl, by rw [← plist_length s.kind size bs hs hbs]; exact hi⟩

/-- the node at slot `slotD s x` of the list of `s` is `x` -/
theorem plist_slotD (s : Store H) (hk : s.kind ≠ .empty) (size bs : Nat) (hs : size ≤ 2 ^ 63)
    (hbs : bs ≤ 10) (ht : s.tree = ⟨size, bs⟩) (x : Nat) (hx : x ∈ persistedPre size bs) :
    ∃ h : slotD s x < (plist s.kind size bs).length, (plist s.kind size bs)[slotD s x] = x := by
  have hx' := (plist_perm s.kind size bs hs).mem_iff.mpr hx
  obtain ⟨i, hi, e⟩ := List.getElem_of_mem hx'
  have h1 := slotD_plist s hk size bs hs hbs ht i hi
  rw [e] at h1
  subst h1
  exact ⟨hi, e⟩

/-- the half-filled last leaf has no slot -/
theorem slot_halfLeaf (s : Store H) (hk : s.kind ≠ .empty) (size bs : Nat) (hs : size ≤ 2 ^ 63)
    (hbs : bs ≤ 10) (ht : s.tree = ⟨size, bs⟩) (x : Nat) (hx : x ∈ halfLeaf ⟨size, bs⟩) :
    s.slot x = none := by
  unfold halfLeaf at hx
  by_cases hb : Tree.blocks ⟨size, bs⟩ % 2 = 1
  · rw [if_pos hb] at hx
    simp only [List.mem_singleton] at hx
    subst hx
    rcases kind_cases s hk with hk' | hk'
    · rw [slot_pre hk', ht]
      exact (C12.pre_none size bs hs hbs).2 hb
    · rw [slot_post hk', ht, (C12.post_none size bs hs hbs).2 hb]
      rfl
  · rw [if_neg hb] at hx
    cases hx

/-! ## the closed form of `copy` -/

/-- the data a copy from `src` leaves in a store of kind `k` -/
def copied (src : Store H) (k : StoreKind) (size bs : Nat) : List UInt8 :=
  (plist k size bs).flatMap fun x => reenc hf (blockAt src.data (slotD src x))

/-- MAIN: `copy` succeeds and the target's backing becomes the concatenation, in the target's
order, of the (re-encoded) source records of the persisted nodes.  No hypothesis on the byte
representation except the 32-byte length. -/
theorem copy_run (hlen : ∀ h, (hf.toBytes h).length = 32) (size bs : Nat) (hs : size ≤ 2 ^ 63)
    (hbs : bs ≤ 10) (fl : Flavour) (src dst : Store H)
    (hst : src.tree = ⟨size, bs⟩) (hdt : dst.tree = ⟨size, bs⟩)
    (hsk : src.kind ≠ .empty) (hsd : (Tree.blocks ⟨size, bs⟩ - 1) * 64 ≤ src.data.length)
    (hdk : ((dst.kind = .preIo ∨ dst.kind = .postIo) ∧
              dst.data.length ≤ (Tree.blocks ⟨size, bs⟩ - 1) * 64) ∨
           ((dst.kind = .preMem ∨ dst.kind = .postMem) ∧
              dst.data.length = (Tree.blocks ⟨size, bs⟩ - 1) * 64)) :
    copy hf fl src dst = .ok { dst with data := copied hf src dst.kind size bs } := by
  have hdne : dst.kind ≠ .empty := by
    rcases hdk with ⟨h | h, _⟩ | ⟨h | h, _⟩ <;> simp [h]
  unfold copy
  rw [hst, preIter_eq size bs hs hbs]
  -- the persisted part
  have hsrc : ∀ x ∈ persistedPre size bs,
      src.slot x = some (slotD src x) ∧ slotD src x * 64 + 64 ≤ src.data.length := by
    intro x hx
    obtain ⟨h1, h2⟩ := slot_persisted src hsk size bs hs hbs hst x hx
    exact ⟨h1, by omega⟩
  have hdst : ∀ x ∈ persistedPre size bs,
      dst.slot x = some (slotD dst x) ∧ slotD dst x < Tree.blocks ⟨size, bs⟩ - 1 :=
    fun x hx => slot_persisted dst hdne size bs hs hbs hdt x hx
  let ws : List (Nat × H × H) :=
    (persistedPre size bs).map fun x => (x, parsePair hf (blockAt src.data (slotD src x)))
  have hmem : ∀ w ∈ ws, w.1 ∈ persistedPre size bs := by
    intro w hw
    obtain ⟨x, hx, rfl⟩ := List.mem_map.mp hw
    exact hx
  have hsw : swrites hf (slotD dst) ws
      = (persistedPre size bs).map fun x =>
          (slotD dst x, reenc hf (blockAt src.data (slotD src x))) := by
    unfold swrites
    rw [List.map_map]
    rfl
  have hput : putAll (putStore hf) dst ws
      = .ok { dst with data := applyWrites dst.data (swrites hf (slotD dst) ws) } := by
    rcases hdk with ⟨hk, _⟩ | ⟨hk, hl⟩
    · exact putAll_io hf dst hk (slotD dst) ws (fun w hw => (hdst _ (hmem w hw)).1)
    · refine putAll_mem hf dst hk (slotD dst) ws (fun w hw => (hdst _ (hmem w hw)).1) _ hl
        (fun w hw => (hdst _ (hmem w hw)).2) (fun w hw => ?_)
      obtain ⟨x, _, rfl⟩ := List.mem_map.mp hw
      exact reenc_length hf hlen _
  have hinit : dst.data.length ≤ (plist dst.kind size bs).length * 64 := by
    rw [plist_length dst.kind size bs hs hbs]
    rcases hdk with ⟨_, hl⟩ | ⟨_, hl⟩ <;> omega
  have hdata : applyWrites dst.data (swrites hf (slotD dst) ws) = copied hf src dst.kind size bs := by
    rw [hsw]
    exact applyWrites_perm (plist dst.kind size bs) (persistedPre size bs) (slotD dst)
      (fun x => reenc hf (blockAt src.data (slotD src x))) dst.data
      (plist_perm dst.kind size bs hs).symm
      (fun i h => slotD_plist dst hdne size bs hs hbs hdt i h)
      (fun x _ => reenc_length hf hlen _) hinit
  have h1 : copyLoop hf fl src (persistedPre size bs) dst
      = .ok { dst with data := copied hf src dst.kind size bs } := by
    rw [copyLoop_putAll hf fl src hsk (slotD src) _ hsrc dst]
    rw [← hdata]
    exact hput
  rw [copyLoop_append hf fl src _ _ dst _ h1]
  apply copyLoop_none
  intro x hx
  exact load_none hf fl src hsk x (slot_halfLeaf src hsk size bs hs hbs hst x hx)

/-! ## consequences for the result -/

theorem copied_length (hlen : ∀ h, (hf.toBytes h).length = 32) (src : Store H) (k : StoreKind)
    (size bs : Nat) (hs : size ≤ 2 ^ 63) (hbs : bs ≤ 10) :
    (copied hf src k size bs).length = (Tree.blocks ⟨size, bs⟩ - 1) * 64 := by
  unfold copied
  rw [length_flatMap64 _ _ (fun x _ => reenc_length hf hlen _), plist_length k size bs hs hbs]

/-- the record of a persisted node `x` in the result (at the slot `x` has in a store `t` of the
target kind) is the re-encoded source record of `x` -/
theorem blockAt_copied (hlen : ∀ h, (hf.toBytes h).length = 32) (src t : Store H)
    (size bs : Nat) (hs : size ≤ 2 ^ 63) (hbs : bs ≤ 10) (htk : t.kind ≠ .empty)
    (htt : t.tree = ⟨size, bs⟩) (x : Nat) (hx : x ∈ persistedPre size bs) :
    blockAt (copied hf src t.kind size bs) (slotD t x)
      = reenc hf (blockAt src.data (slotD src x)) := by
  obtain ⟨hi, e⟩ := plist_slotD t htk size bs hs hbs htt x hx
  unfold copied
  rw [blockAt_flatMap _ _ (fun x _ => reenc_length hf hlen _) _ hi, e]

/-- under the byte round trip the records are the source's own -/
theorem copied_hbt (hbt : ∀ b : List UInt8, b.length = 32 → hf.toBytes (hf.ofBytes b) = b)
    (src : Store H) (hsk : src.kind ≠ .empty) (k : StoreKind) (size bs : Nat) (hs : size ≤ 2 ^ 63)
    (hbs : bs ≤ 10) (hst : src.tree = ⟨size, bs⟩)
    (hsd : (Tree.blocks ⟨size, bs⟩ - 1) * 64 ≤ src.data.length) :
    copied hf src k size bs = (plist k size bs).flatMap fun x => blockAt src.data (slotD src x) := by
  unfold copied
  apply flatMap_congr'
  intro x hx
  have hx' := (plist_perm k size bs hs).mem_iff.mp hx
  obtain ⟨_, h2⟩ := slot_persisted src hsk size bs hs hbs hst x hx'
  exact reenc_id hf hbt _ (length_blockAt _ _ (by omega))

/-- same order, byte round trip: the result is the prefix of the source -/
theorem copied_same (hbt : ∀ b : List UInt8, b.length = 32 → hf.toBytes (hf.ofBytes b) = b)
    (src : Store H) (hsk : src.kind ≠ .empty) (k : StoreKind) (size bs : Nat) (hs : size ≤ 2 ^ 63)
    (hbs : bs ≤ 10) (hst : src.tree = ⟨size, bs⟩)
    (hsd : (Tree.blocks ⟨size, bs⟩ - 1) * 64 ≤ src.data.length)
    (hk : plist k size bs = plist src.kind size bs) :
    copied hf src k size bs = src.data.take ((Tree.blocks ⟨size, bs⟩ - 1) * 64) := by
  rw [copied_hbt hf hbt src hsk k size bs hs hbs hst hsd, hk,
    ← plist_length src.kind size bs hs hbs]
  exact flatMap_blocks_eq_take _ _ _ (fun i h => slotD_plist src hsk size bs hs hbs hst i h)
    (by rw [plist_length src.kind size bs hs hbs]; exact hsd)

/-! ## the records as lists of blocks ("invents nothing") -/

theorem range_map_getElem {α β : Type} (P : List α) (g : α → β) (F : Nat → β)
    (h : ∀ i (hi : i < P.length), F i = g P[i]) : (List.range P.length).map F = P.map g := by
  apply List.ext_getElem
  · rw [List.length_map, List.length_map, List.length_range]
  · intro i h1 h2
    rw [List.getElem_map, List.getElem_map, List.getElem_range]
    exact h i (by simpa using h2)

/-- the blocks of a concatenation of 64-byte blocks -/
theorem blocks_flatMap {α : Type} (P : List α) (f : α → List UInt8)
    (h64 : ∀ x ∈ P, (f x).length = 64) :
    (List.range P.length).map (blockAt (P.flatMap f)) = P.map f :=
  range_map_getElem P f _ (fun i hi => blockAt_flatMap P f h64 i hi)

/-- the first `blocks - 1` blocks of a store, listed along its layout -/
theorem blocks_store (s : Store H) (hk : s.kind ≠ .empty) (size bs : Nat) (hs : size ≤ 2 ^ 63)
    (hbs : bs ≤ 10) (ht : s.tree = ⟨size, bs⟩) :
    (List.range (Tree.blocks ⟨size, bs⟩ - 1)).map (blockAt s.data)
      = (plist s.kind size bs).map fun x => blockAt s.data (slotD s x) := by
  rw [← plist_length s.kind size bs hs hbs]
  exact range_map_getElem _ _ _
    (fun i hi => by rw [slotD_plist s hk size bs hs hbs ht i hi])

/-- the 64-byte records of the result are a permutation of the (re-encoded) records of the source -/
theorem blocks_copied_perm (hlen : ∀ h, (hf.toBytes h).length = 32) (src : Store H)
    (hsk : src.kind ≠ .empty) (k : StoreKind) (size bs : Nat) (hs : size ≤ 2 ^ 63) (hbs : bs ≤ 10)
    (hst : src.tree = ⟨size, bs⟩) :
    ((List.range (Tree.blocks ⟨size, bs⟩ - 1)).map (blockAt (copied hf src k size bs))).Perm
      ((List.range (Tree.blocks ⟨size, bs⟩ - 1)).map fun i => reenc hf (blockAt src.data i)) := by
  have e1 : (List.range (Tree.blocks ⟨size, bs⟩ - 1)).map (blockAt (copied hf src k size bs))
      = (plist k size bs).map fun x => reenc hf (blockAt src.data (slotD src x)) := by
    rw [← plist_length k size bs hs hbs]
    exact blocks_flatMap _ _ (fun x _ => reenc_length hf hlen _)
  have e2 : ((List.range (Tree.blocks ⟨size, bs⟩ - 1)).map fun i => reenc hf (blockAt src.data i))
      = (plist src.kind size bs).map fun x => reenc hf (blockAt src.data (slotD src x)) := by
    rw [← plist_length src.kind size bs hs hbs]
    exact range_map_getElem _ _ _
      (fun i hi => by rw [slotD_plist src hsk size bs hs hbs hst i hi])
  rw [e1, e2]
  exact ((plist_perm k size bs hs).trans (plist_perm src.kind size bs hs).symm).map _

/-! ## copying a specification outboard -/

/-- a store holding the specification outboard of its kind -/
def specData (d : List UInt8) (k : StoreKind) (bs : Nat) : List UInt8 :=
  (plist k d.length bs).flatMap (pairBytes hf d)

theorem specData_pre (d : List UInt8) {k : StoreKind} (hk : k = .preIo ∨ k = .preMem) (bs : Nat) :
    specData hf d k bs = Spec.preOutboard hf d bs := by
  unfold specData Spec.preOutboard
  rw [plist_pre hk]

theorem specData_post (d : List UInt8) {k : StoreKind} (hk : k = .postIo ∨ k = .postMem) (bs : Nat) :
    specData hf d k bs = Spec.postOutboard hf d bs := by
  unfold specData Spec.postOutboard
  rw [plist_post hk]

/-- copying from a store that holds the specification outboard of its kind yields the specification
outboard of the target kind; needs one of the two round trips -/
theorem copied_spec (hlen : ∀ h, (hf.toBytes h).length = 32)
    (hcodec : (∀ h, hf.ofBytes (hf.toBytes h) = h) ∨
      (∀ b : List UInt8, b.length = 32 → hf.toBytes (hf.ofBytes b) = b))
    (d : List UInt8) (bs : Nat) (hs : d.length ≤ 2 ^ 63) (hbs : bs ≤ 10) (src : Store H)
    (hsk : src.kind ≠ .empty) (hst : src.tree = ⟨d.length, bs⟩)
    (hsd : src.data = specData hf d src.kind bs) (k : StoreKind) :
    copied hf src k d.length bs = specData hf d k bs := by
  unfold copied specData
  apply flatMap_congr'
  intro x hx
  have hx' := (plist_perm k d.length bs hs).mem_iff.mp hx
  obtain ⟨hi, e⟩ := plist_slotD src hsk d.length bs hs hbs hst x hx'
  have hb : blockAt src.data (slotD src x) = pairBytes hf d x := by
    rw [hsd]
    unfold specData
    rw [blockAt_flatMap _ _ (fun x _ => pairBytes_length hf hlen d x) _ hi, e]
  rw [hb]
  rcases hcodec with hrt | hbt
  · exact reenc_pairBytes hf hlen hrt d x
  · exact reenc_id hf hbt _ (pairBytes_length hf hlen d x)

theorem specData_length (hlen : ∀ h, (hf.toBytes h).length = 32) (d : List UInt8) (k : StoreKind)
    (bs : Nat) (hs : d.length ≤ 2 ^ 63) (hbs : bs ≤ 10) :
    (specData hf d k bs).length = (Tree.blocks ⟨d.length, bs⟩ - 1) * 64 := by
  unfold specData
  rw [length_flatMap64 _ _ (fun x _ => pairBytes_length hf hlen d x), plist_length k _ bs hs hbs]

/-! ## `flip` -/

/-- the kind `flip` produces -/
def flipKind (k : StoreKind) : StoreKind :=
  match k with
  | .postMem | .postIo => .preMem
  | _ => .postMem

theorem flipKind_mem (k : StoreKind) : flipKind k = .preMem ∨ flipKind k = .postMem := by
  cases k <;> simp [flipKind]

theorem flip_run (hlen : ∀ h, (hf.toBytes h).length = 32) (size bs : Nat) (hs : size ≤ 2 ^ 63)
    (hbs : bs ≤ 10) (s : Store H) (hst : s.tree = ⟨size, bs⟩) (hsk : s.kind ≠ .empty)
    (hsd : (Tree.blocks ⟨size, bs⟩ - 1) * 64 ≤ s.data.length) :
    flip hf s = .ok ⟨flipKind s.kind, s.root, s.tree, copied hf s (flipKind s.kind) size bs⟩ := by
  have h := copy_run hf hlen size bs hs hbs .sync s
    ⟨flipKind s.kind, s.root, s.tree, List.replicate s.tree.outboardSize 0⟩ hst hst hsk hsd
    (.inr ⟨flipKind_mem s.kind, by rw [hst, List.length_replicate]; rfl⟩)
  unfold flip
  simp only
  change (match copy hf .sync s ⟨flipKind s.kind, s.root, s.tree,
      List.replicate s.tree.outboardSize 0⟩ with | .ok t => Res.ok t | _ => Res.panic) = _
  rw [h]

/-- flipping twice gives the store back (byte round trip; backing of exactly the outboard size) -/
theorem copied_copied (hlen : ∀ h, (hf.toBytes h).length = 32)
    (hbt : ∀ b : List UInt8, b.length = 32 → hf.toBytes (hf.ofBytes b) = b)
    (size bs : Nat) (hs : size ≤ 2 ^ 63) (hbs : bs ≤ 10) (s t : Store H)
    (hst : s.tree = ⟨size, bs⟩) (hsk : s.kind ≠ .empty)
    (hsd : s.data.length = (Tree.blocks ⟨size, bs⟩ - 1) * 64)
    (htt : t.tree = ⟨size, bs⟩) (htk : t.kind ≠ .empty)
    (htd : t.data = copied hf s t.kind size bs) :
    copied hf t s.kind size bs = s.data := by
  have htl : (Tree.blocks ⟨size, bs⟩ - 1) * 64 ≤ t.data.length := by
    rw [htd, copied_length hf hlen s t.kind size bs hs hbs]
    exact Nat.le_refl _
  rw [copied_hbt hf hbt t htk s.kind size bs hs hbs htt htl]
  have e : ((plist s.kind size bs).flatMap fun x => blockAt t.data (slotD t x))
      = (plist s.kind size bs).flatMap fun x => blockAt s.data (slotD s x) := by
    apply flatMap_congr'
    intro x hx
    have hx' := (plist_perm s.kind size bs hs).mem_iff.mp hx
    obtain ⟨_, h2⟩ := slot_persisted s hsk size bs hs hbs hst x hx'
    rw [htd, blockAt_copied hf hlen s t size bs hs hbs htk htt x hx']
    exact reenc_id hf hbt _ (length_blockAt _ _ (by omega))
  rw [e, flatMap_blocks_eq_take _ _ _ (fun i h => slotD_plist s hsk size bs hs hbs hst i h)
    (by rw [plist_length s.kind size bs hs hbs]; omega)]
  exact List.take_of_length_le (by rw [plist_length s.kind size bs hs hbs]; omega)

/-! ## statements per node -/

/-- the 64-byte record of node `x` in store `s`: the block at its slot (`[]` if it has no slot) -/
def recordOf (s : Store H) (x : Nat) : List UInt8 :=
  match s.slot x with
  | some i => blockAt s.data i
  | none => []

theorem recordOf_persisted (s : Store H) (hk : s.kind ≠ .empty) (size bs : Nat) (hs : size ≤ 2 ^ 63)
    (hbs : bs ≤ 10) (ht : s.tree = ⟨size, bs⟩) (x : Nat) (hx : x ∈ persistedPre size bs) :
    recordOf s x = blockAt s.data (slotD s x) := by
  unfold recordOf
  rw [(slot_persisted s hk size bs hs hbs ht x hx).1]

theorem copied_eq_records (src : Store H) (hsk : src.kind ≠ .empty) (k : StoreKind) (size bs : Nat)
    (hs : size ≤ 2 ^ 63) (hbs : bs ≤ 10) (hst : src.tree = ⟨size, bs⟩) :
    copied hf src k size bs = (plist k size bs).flatMap fun x => reenc hf (recordOf src x) := by
  unfold copied
  apply flatMap_congr'
  intro x hx
  rw [recordOf_persisted src hsk size bs hs hbs hst x ((plist_perm k size bs hs).mem_iff.mp hx)]

/-- what a copy does for one persisted node (byte round trip): same record, same `load` -/
theorem copy_node (hlen : ∀ h, (hf.toBytes h).length = 32)
    (hbt : ∀ b : List UInt8, b.length = 32 → hf.toBytes (hf.ofBytes b) = b)
    (size bs : Nat) (hs : size ≤ 2 ^ 63) (hbs : bs ≤ 10) (src dst' : Store H)
    (hst : src.tree = ⟨size, bs⟩) (hdt : dst'.tree = ⟨size, bs⟩)
    (hsk : src.kind ≠ .empty) (hdk : dst'.kind ≠ .empty)
    (hsd : (Tree.blocks ⟨size, bs⟩ - 1) * 64 ≤ src.data.length)
    (hdd : dst'.data = copied hf src dst'.kind size bs)
    (x : Nat) (hx : x ∈ persistedPre size bs) :
    ∃ i j, src.slot x = some i ∧ dst'.slot x = some j ∧
      i < Tree.blocks ⟨size, bs⟩ - 1 ∧ j < Tree.blocks ⟨size, bs⟩ - 1 ∧
      blockAt dst'.data j = blockAt src.data i ∧
      ∀ fl fl', src.load hf fl x = .ok (some (parsePair hf (blockAt src.data i))) ∧
        dst'.load hf fl' x = src.load hf fl x := by
  obtain ⟨s1, s2⟩ := slot_persisted src hsk size bs hs hbs hst x hx
  obtain ⟨d1, d2⟩ := slot_persisted dst' hdk size bs hs hbs hdt x hx
  have hb : blockAt dst'.data (slotD dst' x) = blockAt src.data (slotD src x) := by
    rw [hdd, blockAt_copied hf hlen src dst' size bs hs hbs hdk hdt x hx]
    exact reenc_id hf hbt _ (length_blockAt _ _ (by omega))
  have hdl : dst'.data.length = (Tree.blocks ⟨size, bs⟩ - 1) * 64 := by
    rw [hdd, copied_length hf hlen src _ size bs hs hbs]
  refine ⟨slotD src x, slotD dst' x, s1, d1, s2, d2, hb, fun fl fl' => ?_⟩
  have hls := load_block hf fl src hsk x _ s1 (by omega)
  have hld := load_block hf fl' dst' hdk x _ d1 (by omega)
  exact ⟨hls, by rw [hls, hld, hb]⟩

end

end Bao.CopyL
