import BaoProofs.Lemmas.C01Inv
import BaoProofs.Lemmas.HashCFLoc

/-!
# The decoder invariant behind C01, with a LOCAL collision freedom hypothesis

Twin of `Lemmas/C01Inv.lean`.  The global `CollisionFree hf` is replaced by
`CollisionFreeOn hf S` for a set `S` of hash inputs that contains

* `trueEvals hf d` – the inputs evaluated by the honest hashing of the whole blob
  (`Spec.root hf d`), and
* the inputs the decoder evaluates in the steps under consideration (`Dec.stepEvals`,
  `runEvalsAux`, `runEvals`).

The invariant is sharpened from `TrueCv` (any root flag) to `TrueCvL`: the flag is the one the
honest hashing uses for that interval (`true` for the root interval `[0, n)`, `false` for every
other), because only those evaluations are in `trueEvals`.
-/

set_option maxRecDepth 8192

namespace Bao

variable {H : Type}

/-- the hash inputs evaluated by one `Dec.nextSync` step (nothing when the plan is exhausted, the
read fails, or – for a parent – the stack is empty, which panics before hashing) -/
def Dec.evalsSync (hf : HashFns H) (d : Dec H) : List (HashIn H) :=
  match Response.next d.iter with
  | .done => []
  | .panic => []
  | .item (.parent _ isRoot _ _ _) _ =>
    match readExact d.encoded 64 with
    | .error _ => []
    | .ok (buf, _) =>
      match d.stack with
      | [] => []
      | _ :: _ => [.parent (parsePair hf buf).1 (parsePair hf buf).2 isRoot]
  | .item (.leaf start size isRoot _) _ =>
    match readExact d.encoded size with
    | .error _ => []
    | .ok (buf, _) => hashEvals hf start buf isRoot

/-- the hash inputs evaluated by one `Dec.nextFsm` step (the fsm decoder pops before hashing a
leaf) -/
def Dec.evalsFsm (hf : HashFns H) (d : Dec H) : List (HashIn H) :=
  match Response.next d.iter with
  | .done => []
  | .panic => []
  | .item (.parent _ isRoot _ _ _) _ =>
    match readExact d.encoded 64 with
    | .error _ => []
    | .ok (buf, _) =>
      match d.stack with
      | [] => []
      | _ :: _ => [.parent (parsePair hf buf).1 (parsePair hf buf).2 isRoot]
  | .item (.leaf start size isRoot _) _ =>
    match readExact d.encoded size with
    | .error _ => []
    | .ok (buf, _) =>
      match d.stack with
      | [] => []
      | _ :: _ => hashEvals hf start buf isRoot

/-- the hash inputs evaluated by one decoder step -/
def Dec.stepEvals (hf : HashFns H) (fl : Flavour) (d : Dec H) : List (HashIn H) :=
  match fl with
  | .sync => d.evalsSync hf
  | .fsm => d.evalsFsm hf

/-- twin of `Dec.runAux`: all hash inputs evaluated by the run, including those of the final step
(the one that reports an error, if any) -/
def runEvalsAux (hf : HashFns H) [BEq H] (fl : Flavour) : Nat → Dec H → List (HashIn H)
  | 0, _ => []
  | fuel + 1, d =>
    d.stepEvals hf fl ++
      match d.next hf fl with
      | .item _ d' => runEvalsAux hf fl fuel d'
      | _ => []

/-- twin of `Dec.run` -/
def Dec.runEvals (hf : HashFns H) [BEq H] (fl : Flavour) (d : Dec H) : List (HashIn H) :=
  runEvalsAux hf fl (PrePartial.fuelFor d.iter.tree + 1) d

/-- twin of `decodeAll` (and of the decoder inside `decodeRanges`): every hash input the decoder
evaluates on `stream`, when set up with `root`, the claimed geometry `tree` and the query `q` -/
def runEvals (hf : HashFns H) [BEq H] (fl : Flavour) (root : H) (tree : Tree) (q : Ranges)
    (stream : List UInt8) : List (HashIn H) :=
  (Dec.new root tree q stream).runEvals hf fl

end Bao

namespace Bao.C01

open Bao.Spec

variable {H : Type}

/-- the inputs evaluated by the honest hashing of the whole blob, `Spec.root hf d` -/
def trueEvals (hf : HashFns H) (d : List UInt8) : List (HashIn H) :=
  hashEvals hf 0 (slice d 0 (nChunks d.length)) true

theorem trueEvals_eq (hf : HashFns H) (d : List UInt8) : trueEvals hf d = hashEvals hf 0 d true := by
  rw [trueEvals, slice_full]

/-- the root flag the honest hashing uses for the chunk interval `[c, e)` -/
def isRootIv (d : List UInt8) (c e : Nat) : Bool := decide (c = 0 ∧ e = nChunks d.length)

/-- `h` is the chaining value of a subtree of the true blob, with the honest root flag -/
def TrueCvL (hf : HashFns H) (d : List UInt8) (h : H) : Prop :=
  ∃ c e, Sub d c e ∧ h = Spec.cv hf d c e (isRootIv d c e)

theorem TrueCvL.toTrueCv {hf : HashFns H} {d : List UInt8} {h : H} (ht : TrueCvL hf d h) :
    TrueCv hf d h := by
  obtain ⟨c, e, hs, he⟩ := ht
  exact ⟨c, e, _, hs, he⟩

def StackOkL (hf : HashFns H) (d : List UInt8) (st : List H) : Prop := ∀ h ∈ st, TrueCvL hf d h

theorem TrueCvL.root (hf : HashFns H) (d : List UInt8) : TrueCvL hf d (Spec.root hf d) :=
  ⟨0, _, Sub.root d, by simp [isRootIv, Spec.root]⟩

/-! ## every subtree interval is evaluated by the honest hashing -/

section
variable {hf : HashFns H} {d : List UInt8}

private theorem eq_of_dvd_between {p c c' : Nat} (hc : p ∣ c) (hc' : p ∣ c') (h1 : c ≤ c')
    (h2 : c' < c + p) : c' = c := by
  have hd : p ∣ c' - c := Nat.dvd_sub hc' hc
  have : c' - c = 0 := Nat.eq_zero_of_dvd_of_lt hd (by omega)
  omega

private theorem split_len {c p e n len : Nat} (hp : 0 < p) (hn : (n - 1) * 1024 < len)
    (hcp : c + p < n) (he : e = min (c + (p + p)) n) :
    p * 1024 < min ((e - c) * 1024) (len - c * 1024) ∧
      min ((e - c) * 1024) (len - c * 1024) ≤ (p + p) * 1024 := by
  omega

/-- the evaluation list of a tree interval `(c, M)` contains the evaluation lists of all its
sub-intervals `(c', M')` (with flag `false` unless it is the same interval) -/
theorem sub_evals (hd : d.length ≤ 2 ^ 64 * 1024) (T : HashIn H → Prop) :
    ∀ (M c : Nat) (f : Bool), 2 ^ M ∣ c → c < nChunks d.length →
      (∀ x ∈ hashEvals hf c (slice d c (min (c + 2 ^ M) (nChunks d.length))) f, T x) →
      ∀ (M' c' : Nat), M' ≤ M → 2 ^ M' ∣ c' → c ≤ c' → c' < c + 2 ^ M → c' < nChunks d.length →
        ∀ x ∈ hashEvals hf c' (slice d c' (min (c' + 2 ^ M') (nChunks d.length)))
            (decide (c' = c ∧ min (c' + 2 ^ M') (nChunks d.length) =
              min (c + 2 ^ M) (nChunks d.length)) && f), T x := by
  intro M
  induction M with
  | zero =>
    intro c f _ _ hT M' c' hM' _ h1 h2 _
    have hM0 : M' = 0 := by omega
    subst hM0
    have hcc : c' = c := by simp at h2; omega
    subst hcc
    simpa using hT
  | succ M ih =>
    intro c f hdvd hcn hT M' c' hM' hdvd' h1 h2 hcn'
    have hpow : 2 ^ (M + 1) = 2 ^ M + 2 ^ M := by rw [Nat.pow_succ]; omega
    have hdvdM : 2 ^ M ∣ c := Nat.dvd_trans (Nat.pow_dvd_pow 2 (Nat.le_succ M)) hdvd
    by_cases htop : M' = M + 1
    · -- the same interval
      subst htop
      have hcc : c' = c := eq_of_dvd_between hdvd hdvd' h1 h2
      subst hcc
      simpa using hT
    · have hM'' : M' ≤ M := by omega
      have hpp : 2 ^ M' ≤ 2 ^ M := Nat.pow_le_pow_right (by decide) hM''
      have hpos : 0 < 2 ^ M' := Nat.two_pow_pos _
      by_cases hmid : c + 2 ^ M < nChunks d.length
      · -- the node exists: its evaluation list is the parent input and the lists of the halves
        have hlenpos : 0 < d.length := by
          have := nChunks_ge d.length
          by_cases h0 : d.length = 0
          · simp [nChunks, h0] at hmid
          · omega
        have hn1 := nChunks_lt hlenpos
        obtain ⟨ha, hb⟩ := split_len (c := c) (p := 2 ^ M) (Nat.two_pow_pos _) hn1 hmid rfl
        rw [← slice_length, ← hpow] at ha hb
        have hM64 : M < 64 := by
          have := slice_length_le d c (min (c + 2 ^ (M + 1)) (nChunks d.length))
          apply (Nat.pow_lt_pow_iff_right (a := 2) (by decide)).1
          omega
        have hce : c + 2 ^ M ≤ min (c + 2 ^ (M + 1)) (nChunks d.length) := by omega
        have hev : hashEvals hf c (slice d c (min (c + 2 ^ (M + 1)) (nChunks d.length))) f = _ :=
          evalsOf_parent (hf := hf) (N := 64) ha hb (by omega) (by omega) c f
        rw [slice_take hce, slice_drop hce] at hev
        rw [hev] at hT
        by_cases hleft : c' < c + 2 ^ M
        · have hT' : ∀ x ∈ hashEvals hf c (slice d c (min (c + 2 ^ M) (nChunks d.length))) false,
              T x := by
            intro x hx
            have hmin : min (c + 2 ^ M) (nChunks d.length) = c + 2 ^ M := by omega
            rw [hmin] at hx
            exact hT x (List.mem_cons_of_mem _ (List.mem_append_left _ hx))
          have := ih c false hdvdM hcn hT' M' c' hM'' hdvd' h1 hleft hcn'
          have hflag : (decide (c' = c ∧ min (c' + 2 ^ M') (nChunks d.length) =
              min (c + 2 ^ (M + 1)) (nChunks d.length)) && f) = false := by
            have : ¬ (c' = c ∧ min (c' + 2 ^ M') (nChunks d.length) =
              min (c + 2 ^ (M + 1)) (nChunks d.length)) := by omega
            simp [this]
          rw [hflag]
          simpa using this
        · have hT' : ∀ x ∈ hashEvals hf (c + 2 ^ M)
              (slice d (c + 2 ^ M) (min (c + 2 ^ M + 2 ^ M) (nChunks d.length))) false, T x := by
            intro x hx
            have hmin : min (c + 2 ^ M + 2 ^ M) (nChunks d.length) =
                min (c + 2 ^ (M + 1)) (nChunks d.length) := by omega
            rw [hmin] at hx
            exact hT x (List.mem_cons_of_mem _ (List.mem_append_right _ hx))
          have hdvdR : 2 ^ M ∣ c + 2 ^ M := Nat.dvd_add hdvdM (Nat.dvd_refl _)
          have := ih (c + 2 ^ M) false hdvdR hmid hT' M' c' hM'' hdvd' (by omega) (by omega) hcn'
          have hflag : (decide (c' = c ∧ min (c' + 2 ^ M') (nChunks d.length) =
              min (c + 2 ^ (M + 1)) (nChunks d.length)) && f) = false := by
            have : ¬ (c' = c ∧ min (c' + 2 ^ M') (nChunks d.length) =
              min (c + 2 ^ (M + 1)) (nChunks d.length)) := by omega
            simp [this]
          rw [hflag]
          simpa using this
      · -- the node does not exist: the interval is the interval of its left child
        have hmin : min (c + 2 ^ (M + 1)) (nChunks d.length) =
            min (c + 2 ^ M) (nChunks d.length) := by omega
        rw [hmin] at hT ⊢
        exact ih c f hdvdM hcn hT M' c' hM'' hdvd' h1 (by omega) hcn'

/-- **every subtree interval of the true tree is hashed by the honest hashing of the blob**, with
the honest root flag: its evaluation list is part of `trueEvals` -/
theorem trueEvals_sub (hd : d.length ≤ 2 ^ 64 * 1024) {c e : Nat} (hs : Sub d c e) :
    ∀ x ∈ hashEvals hf c (slice d c e) (isRootIv d c e), x ∈ trueEvals hf d := by
  obtain ⟨M', hdvd, he, hc⟩ := hs
  have hlt : nChunks d.length < 2 ^ nChunks d.length := Nat.lt_two_pow_self
  have hle : 2 ^ nChunks d.length ≤ 2 ^ (M' + nChunks d.length) :=
    Nat.pow_le_pow_right (by decide) (by omega)
  have hmin : min (0 + 2 ^ (M' + nChunks d.length)) (nChunks d.length) = nChunks d.length := by
    omega
  have := sub_evals (hf := hf) hd (fun x => x ∈ trueEvals hf d) (M' + nChunks d.length) 0 true
    (Nat.dvd_zero _) (by omega) (by rw [hmin]; exact fun x hx => hx) M' c (by omega) hdvd
    (by omega) (by omega) hc
  rw [hmin, ← he] at this
  simpa [isRootIv] using this

/-! ## the two checks of the decoder -/

/-- a hash of the true tree that passes the parent check: the pair read from the stream is the
true pair of a node of the true tree, and both children are hashes of the true tree.  Injectivity
is used for two inputs only: the top input of the honest hashing of that subtree, and the parent
input the decoder evaluates. -/
theorem parent_check_loc {S : HashIn H → Prop} (cf : CollisionFreeOn hf S)
    (hT : ∀ x ∈ trueEvals hf d, S x) (hd : d.length ≤ 2 ^ 64 * 1024) {h l r : H}
    {isRoot : Bool} (ht : TrueCvL hf d h) (hS : S (.parent l r isRoot))
    (heq : h = hf.parentCv l r isRoot) :
    TruePair hf d l r ∧ TrueCvL hf d l ∧ TrueCvL hf d r := by
  obtain ⟨c, e, hs, rfl⟩ := ht
  have hsub := trueEvals_sub (hf := hf) hd hs
  unfold Spec.cv at heq
  have hlen : (slice d c e).length ≤ 2 ^ 64 * 1024 := Nat.le_trans (slice_length_le d c e) hd
  rcases hashEvals_shape (hf := hf) hlen c (isRootIv d c e) with
    ⟨_, e1, ee⟩ | ⟨L, hL, ha, hb, e1, ee⟩
  · rw [e1] at heq
    exact (cf.chunk_ne_parent (hT _ (hsub _ (by rw [ee]; exact List.mem_singleton_self _))) hS
      heq).elim
  · have hpar := e1
    rw [heq] at e1
    obtain ⟨hl, hr, hflag⟩ :=
      cf.parent_inj hS (hT _ (hsub _ (by rw [ee]; exact List.mem_cons_self ..))) e1
    obtain ⟨s1, s2, hmid, hdvd, he⟩ := hs.split ha hb
    have hce : c + 2 ^ L ≤ e := by
      generalize 2 ^ (L + 1) = P at *
      generalize 2 ^ L = p at *
      omega
    rw [slice_take hce] at hl
    rw [slice_drop hce] at hr
    have hpos : 0 < 2 ^ L := Nat.two_pow_pos _
    have hf1 : isRootIv d c (c + 2 ^ L) = false := by
      simp only [isRootIv, decide_eq_false_iff_not]; omega
    have hf2 : isRootIv d (c + 2 ^ L) e = false := by
      simp only [isRootIv, decide_eq_false_iff_not]; omega
    obtain ⟨k, hk⟩ := hdvd
    have hstart : startOf k L = c := by rw [startOf, hk, Nat.mul_comm]
    have hmidOf : midOf k L = c + 2 ^ L := by rw [midOf, hk, Nat.mul_comm]
    have hend : endOf k L = c + 2 ^ (L + 1) := by rw [endOf, hk, Nat.add_mul, Nat.mul_comm]; omega
    refine ⟨⟨k, L, hL, by omega, ?_, ?_⟩, ⟨c, c + 2 ^ L, s1, by rw [hf1]; exact hl⟩,
      ⟨c + 2 ^ L, e, s2, by rw [hf2]; exact hr⟩⟩
    · simp only [Spec.pair, hstart, hmidOf, hend, ← he]
      rw [hl, hr]; rfl
    · intro f'
      rw [hstart, hend, ← he, hl, hr]
      unfold Spec.cv
      rw [hashSubtree_parent ha hb hL, slice_take hce, slice_drop hce]

/-- a hash of the true tree that passes the leaf check: the bytes read from the stream are the
bytes of that subtree of the true blob, at the right offset.  Injectivity is used only on the
inputs of the honest hashing of that subtree and of the decoder's `hash_subtree` call. -/
theorem leaf_check_loc {S : HashIn H → Prop} (cf : CollisionFreeOn hf S)
    (hT : ∀ x ∈ trueEvals hf d, S x) (hd : d.length ≤ 2 ^ 64 * 1024) {h : H} {start : Nat}
    {buf : List UInt8} {isRoot : Bool} (ht : TrueCvL hf d h)
    (hS : ∀ x ∈ hashEvals hf start buf isRoot, S x)
    (heq : h = hashSubtree hf start buf isRoot) : TrueLeaf d (toBytes start) buf := by
  obtain ⟨c, e, hs, rfl⟩ := ht
  have hsub := trueEvals_sub (hf := hf) hd hs
  obtain ⟨hc, hb, _⟩ := cv_inj_on' cf (fun x hx => hT x (hsub x hx)) hS heq
  exact ⟨c, e, hs, by rw [toBytes, hc], hb.symm⟩

theorem StackOkL.push2 {st : List H} {l r : H} (hs : StackOkL hf d st) (hl : TrueCvL hf d l)
    (hr : TrueCvL hf d r) (left right : Bool) :
    StackOkL hf d (if left then l :: (if right then r :: st else st)
      else (if right then r :: st else st)) := by
  intro x hx
  cases left <;> cases right <;> simp at hx
  · exact hs x hx
  · rcases hx with rfl | hx
    · exact hr
    · exact hs x hx
  · rcases hx with rfl | hx
    · exact hl
    · exact hs x hx
  · rcases hx with rfl | rfl | hx
    · exact hl
    · exact hr
    · exact hs x hx

/-! ## one decoder step: what an item-yielding step did -/

variable [BEq H] [LawfulBEq H]

/-- the shape of a decoder step that yields an item: either a parent step (popped hash = parent
hash of the pair read; children pushed as requested) or a leaf step (popped hash = tree hash of
the bytes read) -/
def StepInv (hf : HashFns H) (evals : List (HashIn H)) (dec : Dec H) (i : Item H)
    (dec' : Dec H) : Prop :=
  (∃ (node : Nat) (l r : H) (isRoot left right : Bool) (ph : H) (st : List H), dec.stack = ph :: st ∧ ph = hf.parentCv l r isRoot ∧
      evals = [.parent l r isRoot] ∧ i = .parent node l r ∧
      dec'.stack = (if left then l :: (if right then r :: st else st)
        else (if right then r :: st else st))) ∨
  (∃ start buf isRoot lh st, dec.stack = lh :: st ∧ lh = hashSubtree hf start buf isRoot ∧
      evals = hashEvals hf start buf isRoot ∧ i = .leaf (toBytes start) buf ∧ dec'.stack = st)

theorem nextSync_inv (dec : Dec H) {i : Item H} {dec' : Dec H}
    (h : dec.nextSync hf = .item i dec') : StepInv hf (dec.evalsSync hf) dec i dec' := by
  unfold Dec.nextSync at h
  unfold Dec.evalsSync
  split at h
  · cases h
  · cases h
  · -- parent
    rename_i node isRoot left right rg iter hnext
    split at h
    · cases h
    · rename_i buf rest hread
      simp only at h
      split at h
      · cases h
      · rename_i parentHash stack hst
        split at h
        · cases h
        · rename_i hne
          injection h with hi hdec
          subst hi hdec
          left
          refine ⟨node, _, _, isRoot, left, right, parentHash, stack, hst, eq_of_not_bne hne, ?_,
            rfl, ?_⟩
          · simp only [hnext, hread, hst]
          · cases left <;> cases right <;> rfl
  · -- leaf
    rename_i start size isRoot rg iter hnext
    split at h
    · cases h
    · rename_i buf rest hread
      simp only at h
      split at h
      · cases h
      · rename_i leafHash stack hst
        split at h
        · cases h
        · rename_i hne
          injection h with hi hdec
          subst hi hdec
          right
          exact ⟨start, buf, isRoot, leafHash, stack, hst, eq_of_not_bne hne, by simp only [hnext, hread],
            rfl, rfl⟩

theorem nextFsm_inv (dec : Dec H) {i : Item H} {dec' : Dec H}
    (h : dec.nextFsm hf = .item i dec') : StepInv hf (dec.evalsFsm hf) dec i dec' := by
  unfold Dec.nextFsm at h
  unfold Dec.evalsFsm
  split at h
  · cases h
  · cases h
  · -- parent
    rename_i node isRoot left right rg iter hnext
    split at h
    · cases h
    · rename_i buf rest hread
      simp only at h
      split at h
      · cases h
      · rename_i parentHash stack hst
        split at h
        · cases h
        · rename_i hne
          injection h with hi hdec
          subst hi hdec
          left
          refine ⟨node, _, _, isRoot, left, right, parentHash, stack, hst, eq_of_not_bne hne, ?_,
            rfl, ?_⟩
          · simp only [hnext, hread, hst]
          · cases left <;> cases right <;> rfl
  · -- leaf
    rename_i start size isRoot rg iter hnext
    split at h
    · cases h
    · rename_i buf rest hread
      simp only at h
      split at h
      · cases h
      · rename_i leafHash stack hst
        split at h
        · cases h
        · rename_i hne
          injection h with hi hdec
          subst hi hdec
          right
          exact ⟨start, buf, isRoot, leafHash, stack, hst, eq_of_not_bne hne,
            by simp only [hnext, hread, hst], rfl, rfl⟩

theorem next_inv (fl : Flavour) (dec : Dec H) {i : Item H} {dec' : Dec H}
    (h : dec.next hf fl = .item i dec') : StepInv hf (dec.stepEvals hf fl) dec i dec' := by
  cases fl
  · exact nextSync_inv dec h
  · exact nextFsm_inv dec h

/-- **step invariant, local form**: both flavours, any iterator state, any stream.  `hf` has to be
collision free only on a set containing `trueEvals hf d` and the inputs this step evaluates. -/
theorem next_sound_loc {S : HashIn H → Prop} (cf : CollisionFreeOn hf S)
    (hT : ∀ x ∈ trueEvals hf d, S x) (hd : d.length ≤ 2 ^ 64 * 1024) (fl : Flavour)
    (dec : Dec H) (hE : ∀ x ∈ dec.stepEvals hf fl, S x) (hs : StackOkL hf d dec.stack)
    {i : Item H} {dec' : Dec H} (h : dec.next hf fl = .item i dec') :
    ItemOk hf d i ∧ StackOkL hf d dec'.stack := by
  rcases next_inv fl dec h with
    ⟨node, l, r, isRoot, left, right, ph, st, hst, hph, hev, rfl, hst'⟩ |
    ⟨start, buf, isRoot, lh, st, hst, hlh, hev, rfl, hst'⟩
  · rw [hst] at hs
    rw [hev] at hE
    obtain ⟨hp, hl, hr⟩ := parent_check_loc cf hT hd (hs _ (List.mem_cons_self ..))
      (hE _ (List.mem_singleton_self _)) hph
    refine ⟨hp, ?_⟩
    rw [hst']
    exact StackOkL.push2 (fun x hx => hs x (List.mem_cons_of_mem _ hx)) hl hr _ _
  · rw [hst] at hs
    rw [hev] at hE
    refine ⟨leaf_check_loc cf hT hd (hs _ (List.mem_cons_self ..)) hE hlh, ?_⟩
    rw [hst']
    exact fun x hx => hs x (List.mem_cons_of_mem _ hx)

/-! ## the drivers -/

omit [LawfulBEq H] in
theorem runEvalsAux_step (fl : Flavour) (fuel : Nat) (dec : Dec H) :
    ∀ x ∈ dec.stepEvals hf fl, x ∈ runEvalsAux hf fl (fuel + 1) dec := by
  intro x hx
  unfold runEvalsAux
  exact List.mem_append_left _ hx

omit [LawfulBEq H] in
theorem runEvalsAux_next (fl : Flavour) (fuel : Nat) (dec : Dec H) {i : Item H} {dec' : Dec H}
    (h : dec.next hf fl = .item i dec') :
    ∀ x ∈ runEvalsAux hf fl fuel dec', x ∈ runEvalsAux hf fl (fuel + 1) dec := by
  intro x hx
  unfold runEvalsAux
  rw [h]
  exact List.mem_append_right _ hx

theorem runAux_sound_loc (hd : d.length ≤ 2 ^ 64 * 1024) (fl : Flavour) :
    ∀ (fuel : Nat) (dec : Dec H),
      CollisionFreeOn hf (fun x => x ∈ trueEvals hf d ∨ x ∈ runEvalsAux hf fl fuel dec) →
      StackOkL hf d dec.stack →
      ∀ i ∈ (Dec.runAux hf fl fuel dec).items, ItemOk hf d i := by
  intro fuel
  induction fuel with
  | zero => intro dec _ _ i hi; simp [Dec.runAux] at hi
  | succ fuel ih =>
    intro dec cf hs i hi
    unfold Dec.runAux at hi
    split at hi
    · simp at hi
    · simp at hi
    · simp at hi
    · rename_i it dec' hnext
      obtain ⟨hit, hs'⟩ := next_sound_loc cf (fun x hx => .inl hx) hd fl dec
        (fun x hx => .inr (runEvalsAux_step fl fuel dec x hx)) hs hnext
      simp only [List.mem_cons] at hi
      rcases hi with rfl | hi
      · exact hit
      · refine ih dec' (cf.mono ?_) hs' i hi
        intro x hx
        exact hx.imp id (runEvalsAux_next fl fuel dec hnext x)

theorem decodeRangesAux_sound_loc (hd : d.length ≤ 2 ^ 64 * 1024) (fl : Flavour) (tree : Tree) :
    ∀ (fuel : Nat) (dec : Dec H) (sink : Sink H) (ws : List (Nat × Nat)) (ss : List Nat),
      CollisionFreeOn hf (fun x => x ∈ trueEvals hf d ∨ x ∈ runEvalsAux hf fl fuel dec) →
      StackOkL hf d dec.stack →
      ∃ (wl : List (Nat × List UInt8)) (pl : List (Nat × H × H)),
        (∀ w ∈ wl, TrueLeaf d w.1 w.2) ∧ (∀ p ∈ pl, TruePair hf d p.2.1 p.2.2) ∧
        (decodeRangesAux hf fl tree fuel dec sink ws ss).sink.target = applyWrites sink.target wl ∧
        (decodeRangesAux hf fl tree fuel dec sink ws ss).sink.ob = applySaves hf sink.ob pl := by
  intro fuel
  induction fuel with
  | zero => intro dec sink ws ss _ _; exact ⟨[], [], by simp, by simp, rfl, rfl⟩
  | succ fuel ih =>
    intro dec sink ws ss cf hs
    have step : ∀ {i : Item H} {dec' : Dec H}, dec.next hf fl = .item i dec' →
        ItemOk hf d i ∧ StackOkL hf d dec'.stack ∧
        CollisionFreeOn hf (fun x => x ∈ trueEvals hf d ∨ x ∈ runEvalsAux hf fl fuel dec') := by
      intro i dec' hnext
      obtain ⟨hit, hs'⟩ := next_sound_loc cf (fun x hx => .inl hx) hd fl dec
        (fun x hx => .inr (runEvalsAux_step fl fuel dec x hx)) hs hnext
      exact ⟨hit, hs', cf.mono (fun x hx => hx.imp id (runEvalsAux_next fl fuel dec hnext x))⟩
    unfold decodeRangesAux
    split
    · exact ⟨[], [], by simp, by simp, rfl, rfl⟩
    · exact ⟨[], [], by simp, by simp, rfl, rfl⟩
    · exact ⟨[], [], by simp, by simp, rfl, rfl⟩
    · rename_i node l r dec' hnext
      obtain ⟨hit, hs', cf'⟩ := step hnext
      split
      · split
        · rename_i ob hsave
          obtain ⟨wl, pl, hw, hp, ht, ho⟩ := ih dec' { sink with ob } ws (node :: ss) cf' hs'
          refine ⟨wl, (node, l, r) :: pl, hw, ?_, ht, ?_⟩
          · intro p hp'
            simp only [List.mem_cons] at hp'
            rcases hp' with rfl | hp'
            · exact hit
            · exact hp p hp'
          · rw [ho]
            simp only [applySaves, List.foldl_cons, hsave]
        · exact ⟨[], [], by simp, by simp, rfl, rfl⟩
        · exact ⟨[], [], by simp, by simp, rfl, rfl⟩
      · exact ih dec' sink ws ss cf' hs'
    · rename_i off data dec' hnext
      obtain ⟨hit, hs', cf'⟩ := step hnext
      obtain ⟨wl, pl, hw, hp, ht, ho⟩ :=
        ih dec' { sink with target := writeAt sink.target off data } ((off, data.length) :: ws) ss
          cf' hs'
      refine ⟨(off, data) :: wl, pl, ?_, hp, ?_, ho⟩
      · intro w hw'
        simp only [List.mem_cons] at hw'
        rcases hw' with rfl | hw'
        · exact hit
        · exact hw w hw'
      · rw [ht]; rfl

end

end Bao.C01
