import BaoModel.Codec
import BaoModel.Spec
import BaoProofs.Lemmas.HashCF
import BaoProofs.Lemmas.NodeIter
import BaoProofs.Lemmas.WriteAtL
import BaoProofs.Props.C12

/-!
# Outboard creation computes the BLAKE3 tree (lemmas for C03)

* `obGen`      – `outboardLoop` and `outboardPostOrderLoop` as ONE loop, parametric in what is done
                 with a finished hash pair (`put`): `outboardLoop_eq`, `outboardPostOrderLoop_eq`.
* `cv_split`   – `Spec.cv` of an interval is the parent of the `Spec.cv`s of its halves.
* `run_sub`    – (the heart) running the loop over the plan of the subtree `(k, L)` pushes the
                 `Spec.cv` of its chunk interval, consumes exactly its bytes and `put`s exactly the
                 `Spec.pair`s of its persisted nodes in post-order.
* `run_plan`   – the whole plan.
* stores       – `putAll` on the five store kinds = `WriteAtL.applyWrites` (`putAll_io/mem/empty`); with
                 the C12 bijection the final backing is `Spec.preOutboard` / `Spec.postOutboard`
                 (`writes_pre/post`, `outboard_run_pre/post/empty`).
* reading back – `load_persisted`, `load_unstored`; sizes `preOutboard_length`, `postOutboard_length`.
-/

set_option maxRecDepth 8192   -- `omega` with the literal 1024

namespace Bao.OutboardL
open Bao Bao.Spec Bao.Bits Bao.Offsets Bao.NodeIterL Bao.WriteAtL

/-! ## the two loops as one -/

/-- the two outboard loops as one: `put` is what happens to a finished hash pair -/
def obGen {H σ : Type} (hf : HashFns H) (put : σ → Nat → H × H → Res IoErr σ) :
    List Chunk → List H → List UInt8 → σ → ObRun H σ
  | [], stack, _, s =>
    match stack with
    | [h] => ⟨.ok h, s⟩
    | _ => ⟨.panic, s⟩
  | .parent node isRoot _ _ _ :: plan, stack, data, s =>
    match stack with
    | r :: l :: stack =>
      match put s node (l, r) with
      | .err e => ⟨.err e, s⟩
      | .panic => ⟨.panic, s⟩
      | .ok s' => obGen hf put plan (hf.parentCv l r isRoot :: stack) data s'
    | _ => ⟨.panic, s⟩
  | .leaf start size isRoot _ :: plan, stack, data, s =>
    match readExact data size with
    | .error e => ⟨.err e, s⟩
    | .ok (buf, rest) => obGen hf put plan (hashSubtree hf start buf isRoot :: stack) rest s

/-- `put` of `outboard_impl`: `OutboardMut::save` -/
def putStore {H : Type} (hf : HashFns H) : Store H → Nat → H × H → Res IoErr (Store H) :=
  fun ob n p => ob.save hf n p

/-- `put` of `outboard_post_order_impl`: append to the writer -/
def putWriter {H : Type} (hf : HashFns H) : List UInt8 → Nat → H × H → Res IoErr (List UInt8) :=
  fun out _ p => .ok (out ++ hf.toBytes p.1 ++ hf.toBytes p.2)

section loops
variable {H : Type} (hf : HashFns H)

theorem outboardLoop_eq (plan : List Chunk) (st : List H) (data : List UInt8) (ob : Store H) :
    outboardLoop hf plan st data ob = obGen hf (putStore hf) plan st data ob := by
  induction plan generalizing st data ob with
  | nil => unfold outboardLoop obGen; rfl
  | cons c plan ih =>
    cases c with
    | parent node isRoot l r rg =>
      match st with
      | [] => unfold outboardLoop obGen; rfl
      | [_] => unfold outboardLoop obGen; rfl
      | r :: l :: st =>
        unfold outboardLoop obGen
        simp only [putStore]
        cases ob.save hf node (l, r) with
        | ok ob' => exact ih _ _ _
        | err e => rfl
        | panic => rfl
    | leaf start size isRoot rg =>
      unfold outboardLoop obGen
      cases readExact data size with
      | error e => rfl
      | ok p => exact ih _ _ _

theorem outboardPostOrderLoop_eq (plan : List Chunk) (st : List H) (data out : List UInt8) :
    outboardPostOrderLoop hf plan st data out = obGen hf (putWriter hf) plan st data out := by
  induction plan generalizing st data out with
  | nil => unfold outboardPostOrderLoop obGen; rfl
  | cons c plan ih =>
    cases c with
    | parent node isRoot l r rg =>
      match st with
      | [] => unfold outboardPostOrderLoop obGen; rfl
      | [_] => unfold outboardPostOrderLoop obGen; rfl
      | r :: l :: st =>
        unfold outboardPostOrderLoop obGen
        exact ih _ _ _
    | leaf start size isRoot rg =>
      unfold outboardPostOrderLoop obGen
      cases readExact data size with
      | error e => rfl
      | ok p => exact ih _ _ _

end loops

/-! ## applying `put` to a list of pairs -/

/-- apply `put` to a list of `(node, pair)` in order, stopping at the first failure -/
def putAll {H σ : Type} (put : σ → Nat → H × H → Res IoErr σ) : σ → List (Nat × H × H) → Res IoErr σ
  | s, [] => .ok s
  | s, (n, p) :: ws =>
    match put s n p with
    | .ok s' => putAll put s' ws
    | .err e => .err e
    | .panic => .panic

theorem putAll_append {H σ : Type} {put : σ → Nat → H × H → Res IoErr σ} {s s' : σ}
    {a b : List (Nat × H × H)} (h : putAll put s (a ++ b) = .ok s') :
    ∃ s1, putAll put s a = .ok s1 ∧ putAll put s1 b = .ok s' := by
  induction a generalizing s with
  | nil => exact ⟨s, rfl, h⟩
  | cons w a ih =>
    obtain ⟨n, p⟩ := w
    simp only [List.cons_append, putAll] at h ⊢
    cases hp : put s n p with
    | ok s2 => rw [hp] at h; exact ih h
    | err e => rw [hp] at h; cases h
    | panic => rw [hp] at h; cases h

theorem putAll_single {H σ : Type} {put : σ → Nat → H × H → Res IoErr σ} {s s' : σ}
    {n : Nat} {p : H × H} (h : putAll put s [(n, p)] = .ok s') : put s n p = .ok s' := by
  simp only [putAll] at h
  cases hp : put s n p with
  | ok s2 => rw [hp] at h; exact h
  | err e => rw [hp] at h; cases h
  | panic => rw [hp] at h; cases h

/-! ## the hash of an interval -/

theorem slice_length (d : List UInt8) (a b : Nat) :
    (slice d a b).length = min ((b - a) * 1024) (d.length - a * 1024) := by
  simp [slice, List.length_take, List.length_drop]

/-- the chaining value of `[a, b)` is the parent of those of `[a, m)` and `[m, b)` when `m - a` is
a power of two, `0 < b - m ≤ m - a`, and chunk `m` is inside the blob -/
theorem cv_split {H : Type} (hf : HashFns H) (d : List UInt8) {a m b j : Nat} (hj : j < 64)
    (hm : m = a + 2 ^ j) (hmb : m < b) (hb : b ≤ m + 2 ^ j) (hlen : m * 1024 < d.length)
    (r : Bool) :
    cv hf d a b r = hf.parentCv (cv hf d a m false) (cv hf d m b false) r := by
  have hp := two_pow_pos' j
  have h1 : 2 ^ j * 1024 < (slice d a b).length := by
    rw [slice_length]; generalize 2 ^ j = p at *; subst hm; omega
  have h2 : (slice d a b).length ≤ 2 ^ (j + 1) * 1024 := by
    rw [slice_length, Nat.pow_succ]; generalize 2 ^ j = p at *; subst hm; omega
  unfold cv
  rw [hashSubtree_parent h1 h2 hj]
  have e1 : (slice d a b).take (2 ^ j * 1024) = slice d a m := by
    unfold slice
    rw [List.take_take]
    congr 1
    generalize 2 ^ j = p at *; subst hm; omega
  have e2 : (slice d a b).drop (2 ^ j * 1024) = slice d m b := by
    unfold slice
    rw [List.drop_take, List.drop_drop]
    generalize 2 ^ j = p at *; subst hm
    congr 2 <;> omega
  rw [e1, e2, hm]

/-- `(node, Spec.pair)` of a node id -/
def nodePair {H : Type} (hf : HashFns H) (d : List UInt8) (x : Nat) : Nat × H × H :=
  (x, Spec.pair hf d (indexOf x) (levelOf x))

theorem nodePair_nodeOf {H : Type} (hf : HashFns H) (d : List UInt8) {k L : Nat} (hL : L ≤ 64) :
    nodePair hf d (nodeOf k L) = (nodeOf k L, Spec.pair hf d k L) := by
  unfold nodePair
  rw [indexOf_nodeOf hL, levelOf_nodeOf hL]

/-! ## single steps of the loop -/

section eqns
variable {H σ : Type} (hf : HashFns H) (put : σ → Nat → H × H → Res IoErr σ)

theorem obGen_nil (h : H) (data : List UInt8) (s : σ) :
    obGen hf put [] [h] data s = ⟨.ok h, s⟩ := by
  rw [obGen]

theorem obGen_parent_ok {node : Nat} {isRoot l r : Bool} {rg : Ranges} {plan : List Chunk}
    {x y : H} {st : List H} {data : List UInt8} {s s' : σ} (h : put s node (y, x) = .ok s') :
    obGen hf put (.parent node isRoot l r rg :: plan) (x :: y :: st) data s
      = obGen hf put plan (hf.parentCv y x isRoot :: st) data s' := by
  rw [obGen]
  simp only [h]

theorem obGen_leaf_ok {start size : Nat} {isRoot : Bool} {rg : Ranges} {plan : List Chunk}
    {st : List H} {data : List UInt8} {s : σ} (h : size ≤ data.length) :
    obGen hf put (.leaf start size isRoot rg :: plan) st data s
      = obGen hf put plan (hashSubtree hf start (data.take size) isRoot :: st) (data.drop size) s := by
  rw [obGen]
  simp only [readExact, if_pos h]

end eqns

section steps
variable {H σ : Type} (hf : HashFns H) (put : σ → Nat → H × H → Res IoErr σ)

/-- a parent item on top of the two child values: one `put` of `Spec.pair`, pushes the parent's
`Spec.cv` -/
theorem parent_step (d : List UInt8) {k Lc : Nat} (hL : Lc < 64)
    (hmid : midOf k Lc < nChunks d.length) (flag l r : Bool) (rg : Ranges) (tail : List Chunk)
    (st : List H) (data : List UInt8) {s s' : σ}
    (hput : put s (nodeOf k Lc) (Spec.pair hf d k Lc) = .ok s') :
    obGen hf put (.parent (nodeOf k Lc) flag l r rg :: tail)
        (cv hf d (midOf k Lc) (min (endOf k Lc) (nChunks d.length)) false
          :: cv hf d (startOf k Lc) (midOf k Lc) false :: st) data s
      = obGen hf put tail
          (cv hf d (startOf k Lc) (min (endOf k Lc) (nChunks d.length)) flag :: st) data s' := by
  have hp := two_pow_pos' Lc
  have hmlen : midOf k Lc * 1024 < d.length :=
    (lt_nChunks_iff d.length (midOf k Lc) (by rw [midOf_eq]; omega)).mp hmid
  have hsplit := cv_split hf d (a := startOf k Lc) (m := midOf k Lc)
    (b := min (endOf k Lc) (nChunks d.length)) (j := Lc) hL
    (by rw [startOf_eq, midOf_eq])
    (by rw [endOf_eq, midOf_eq] at *; omega) (by rw [endOf_eq, midOf_eq]; omega) hmlen flag
  have hpair : Spec.pair hf d k Lc
      = (cv hf d (startOf k Lc) (midOf k Lc) false,
         cv hf d (midOf k Lc) (min (endOf k Lc) (nChunks d.length)) false) := rfl
  rw [hpair] at hput
  rw [obGen_parent_ok hf put hput, ← hsplit]

/-- the leaf item of block `b`: reads exactly the block, pushes its `Spec.cv` -/
theorem leaf_step (d : List UInt8) (bs b : Nat) (hb : b < Tree.blocks ⟨d.length, bs⟩)
    {a e : Nat} (ha : a = b * 2 ^ bs) (he : e = min ((b + 1) * 2 ^ bs) (nChunks d.length))
    (flag : Bool) (tail : List Chunk) (st : List H) (s : σ) :
    obGen hf put (leafItem d.length bs b flag :: tail) st (d.drop (a * 1024)) s
      = obGen hf put tail (cv hf d a e flag :: st) (d.drop (e * 1024)) s := by
  have hp := two_pow_pos' bs
  have hq : b * 2 ^ bs * 1024 ≤ d.length := by
    by_cases h0 : b = 0
    · subst h0; omega
    · have := (lt_blocks_iff d.length bs b (by omega)).mp hb
      rw [Nat.pow_add, ← Nat.mul_assoc] at this
      have e10 : (2 : Nat) ^ 10 = 1024 := by decide
      rw [e10] at this
      omega
  rw [Nat.add_mul, Nat.one_mul] at he
  subst ha
  unfold leafItem
  generalize b * 2 ^ bs = q at *
  generalize 2 ^ bs = p at *
  have hsz : min (p * 1024) (d.length - q * 1024) ≤ (d.drop (q * 1024)).length := by
    rw [List.length_drop]; omega
  rw [obGen_leaf_ok hf put hsz]
  have hn : nChunks d.length = max 1 ((d.length + 1023) / 1024) := rfl
  have e1 : (d.drop (q * 1024)).take (min (p * 1024) (d.length - q * 1024)) = slice d q e := by
    unfold slice
    rw [List.take_eq_take_iff, List.length_drop]
    omega
  have e2 : (d.drop (q * 1024)).drop (min (p * 1024) (d.length - q * 1024))
      = d.drop (e * 1024) := by
    rw [List.drop_drop, List.drop_eq_drop_iff]
    omega
  rw [e1, e2]
  rfl

end steps

/-! ## the heart: the loop over the plan of a subtree -/

theorem level_bound {size bs k L : Nat} (hs : size ≤ 2 ^ 63)
    (hx : nodeOf k L < Tree.blocks ⟨size, bs⟩ - 1) : L + bs < 53 := by
  have h := persisted_mid hx
  rw [nodeOf_succ'] at h
  have h1 : 2 ^ L ≤ (2 * k + 1) * 2 ^ L := Nat.le_mul_of_pos_left _ (by omega)
  have h2 : 2 ^ L * 2 ^ bs * 1024 ≤ (2 * k + 1) * 2 ^ L * 2 ^ bs * 1024 :=
    Nat.mul_le_mul_right _ (Nat.mul_le_mul_right _ h1)
  have e10 : (2 : Nat) ^ 10 = 1024 := by decide
  have h3 : 2 ^ (L + bs + 10) < 2 ^ 63 := by
    rw [Nat.pow_add, Nat.pow_add, e10]; omega
  have := (Nat.pow_lt_pow_iff_right (a := 2) (by decide)).1 h3
  omega

/-- the root flag the plan puts on the top item of subtree `(k, L)` -/
theorem flag_eq {k L h0 : Nat} (hk : L = h0 → k = 0) :
    (nodeOf k L == nodeOf 0 h0) = decide (L = h0) := by
  by_cases h : L = h0
  · subst h; rw [hk rfl]; simp
  · have : nodeOf k L ≠ nodeOf 0 h0 := fun e => h (C18.nodeOf_inj e).2
    simp [h, this]

section run
variable {H σ : Type} (hf : HashFns H) (put : σ → Nat → H × H → Res IoErr σ)

/-- `(node, Spec.pair)` of the persisted nodes of the shifted subtree `(k, L)`, in post-order -/
def subPairs (d : List UInt8) (bs L k : Nat) : List (Nat × H × H) :=
  (postD (Tree.blocks ⟨d.length, bs⟩ - 1) L k).map fun x => nodePair hf d (up bs x)

/-- **Key lemma.**  Running the loop over the plan of the shifted subtree `(k, L)` (chunk
coordinates `(k, L + bs)`), with the data positioned at its first chunk: the stack gains the
`Spec.cv` of its chunk interval (ROOT flag iff it is the root), exactly its bytes are consumed, and
`put` receives exactly the `Spec.pair`s of its persisted nodes, in post-order. -/
theorem run_sub (d : List UInt8) {bs F : Nat} (g : Geo d.length bs F) (hs : d.length ≤ 2 ^ 63)
    (h0 : Nat) (hroot : nodeOf 0 h0 < F) (L : Nat) :
    ∀ (k : Nat), L ≤ h0 → (L = h0 → k = 0) → startOf k L < F →
    ∀ (tail : List Chunk) (st : List H) (s s' : σ),
      putAll put s (subPairs hf d bs L k) = .ok s' →
      obGen hf put (planRec d.length bs (nodeOf 0 h0) F L k ++ tail) st
          (d.drop (startOf k (L + bs) * 1024)) s
        = obGen hf put tail
            (cv hf d (startOf k (L + bs)) (min (endOf k (L + bs)) (nChunks d.length))
              (decide (L = h0)) :: st)
            (d.drop (min (endOf k (L + bs)) (nChunks d.length) * 1024)) s' := by
  have hodd := g.odd; have hle := g.le; have hge := g.ge; have hbs := g.hbs
  induction L with
  | zero =>
    intro k hL hk hne tail st s s' hput
    rw [Offsets.startOf_zero] at hne
    simp only [Nat.zero_add]
    have hp := two_pow_pos' bs
    have hex := exists_iff d.length bs k 0
    rw [Nat.zero_add, Offsets.nodeOf_zero] at hex
    have hsa : startOf k bs = 2 * k * 2 ^ bs := by rw [startOf_eq, Nat.mul_assoc]
    have hma : midOf k bs = (2 * k + 1) * 2 ^ bs := by rw [midOf_eq, odd_mul]
    have hea : endOf k bs = (2 * k + 1 + 1) * 2 ^ bs := by
      rw [endOf_eq, Nat.add_mul, odd_mul]; omega
    have hme := midOf_lt_endOf k bs
    have hfl := flag_eq (k := k) (L := 0) (h0 := h0) hk
    rw [Offsets.nodeOf_zero] at hfl
    by_cases hfull : 2 * k + 1 < Tree.blocks ⟨d.length, bs⟩
    · have hxB : 2 * k < Tree.blocks ⟨d.length, bs⟩ - 1 := by omega
      have hmid : midOf k bs < nChunks d.length := hex.mpr hxB
      have hLb := level_bound (k := k) (L := 0) hs (by rw [Offsets.nodeOf_zero]; exact hxB)
      have hsp : subPairs hf d bs 0 k = [(nodeOf k bs, Spec.pair hf d k bs)] := by
        have hu := up_nodeOf bs k 0
        rw [Nat.zero_add] at hu
        simp only [subPairs, postD, Offsets.nodeOf_zero, if_pos hxB, List.map_cons, List.map_nil]
        rw [← Offsets.nodeOf_zero, hu, nodePair_nodeOf hf d (by omega)]
      rw [hsp] at hput
      simp only [planRec, if_pos hne, if_pos hfull, List.cons_append, List.nil_append]
      rw [leaf_step hf put d bs (2 * k) (by omega) hsa
            (show midOf k bs = min ((2 * k + 1) * 2 ^ bs) (nChunks d.length) by omega),
        leaf_step hf put d bs (2 * k + 1) hfull hma
            (show min (endOf k bs) (nChunks d.length)
              = min ((2 * k + 1 + 1) * 2 ^ bs) (nChunks d.length) by rw [hea]),
        parent_step hf put d (by omega) hmid _ _ _ _ _ _ _ (putAll_single hput), hfl]
    · have hxB : ¬ (2 * k < Tree.blocks ⟨d.length, bs⟩ - 1) := by omega
      have hmid : ¬ (midOf k bs < nChunks d.length) := mt hex.mp hxB
      have hsp : subPairs hf d bs 0 k = ([] : List (Nat × H × H)) := by
        simp only [subPairs, postD, Offsets.nodeOf_zero, if_neg hxB, List.map_nil]
      rw [hsp] at hput
      simp only [putAll, Res.ok.injEq] at hput
      subst hput
      simp only [planRec, if_pos hne, if_neg hfull, List.cons_append, List.nil_append]
      rw [leaf_step hf put d bs (2 * k) (by omega) hsa
            (show min (endOf k bs) (nChunks d.length)
              = min ((2 * k + 1) * 2 ^ bs) (nChunks d.length) by omega), hfl]
  | succ L ih =>
    intro k hL hk hne tail st s s' hput
    have e : L + 1 + bs = L + bs + 1 := by omega
    have hex := exists_iff d.length bs k (L + 1)
    rw [e] at hex
    have hme := midOf_lt_endOf k (L + bs + 1)
    by_cases hx : nodeOf k (L + 1) < F
    · have hxo := nodeOf_succ_odd k L
      have hxB : nodeOf k (L + 1) < Tree.blocks ⟨d.length, bs⟩ - 1 := by omega
      have hmid : midOf k (L + bs + 1) < nChunks d.length := hex.mpr hxB
      have hLb := level_bound hs hxB
      have hsp : subPairs hf d bs (L + 1) k
          = subPairs hf d bs L (2 * k) ++ subPairs hf d bs L (2 * k + 1)
            ++ [(nodeOf k (L + bs + 1), Spec.pair hf d k (L + bs + 1))] := by
        simp only [subPairs, postD, if_pos hxB, List.map_append, List.map_cons, List.map_nil]
        rw [up_nodeOf, e, nodePair_nodeOf hf d (by omega)]
      rw [hsp] at hput
      obtain ⟨s2, hput12, hput3⟩ := putAll_append hput
      obtain ⟨s1, hput1, hput2⟩ := putAll_append hput12
      simp only [planRec, if_pos hx, List.append_assoc, List.cons_append, List.nil_append]
      rw [e]
      have hl := ih (2 * k) (by omega) (by omega) (by rw [Offsets.startOf_left]; exact hne)
        (planRec d.length bs (nodeOf 0 h0) F L (2 * k + 1) ++
          Chunk.parent (nodeOf k (L + bs + 1)) (nodeOf k (L + 1) == nodeOf 0 h0) true true []
            :: tail) st s s1 hput1
      rw [Bits.startOf_left, Bits.endOf_left, Nat.min_eq_left (Nat.le_of_lt hmid)] at hl
      rw [hl]
      have hr := ih (2 * k + 1) (by omega) (by omega) (right_nonempty hodd hx).1
        (Chunk.parent (nodeOf k (L + bs + 1)) (nodeOf k (L + 1) == nodeOf 0 h0) true true []
            :: tail)
        (cv hf d (startOf k (L + bs + 1)) (midOf k (L + bs + 1)) (decide (L = h0)) :: st) s1 s2
        hput2
      rw [Bits.startOf_right, Bits.endOf_right] at hr
      rw [hr]
      have hf1 : decide (L = h0) = false := by simp; omega
      rw [hf1, parent_step hf put d (by omega) hmid _ _ _ _ _ _ _ (putAll_single hput3),
        flag_eq hk]
    · have hxB : ¬ (nodeOf k (L + 1) < Tree.blocks ⟨d.length, bs⟩ - 1) := by omega
      have hmid : ¬ (midOf k (L + bs + 1) < nChunks d.length) := mt hex.mp hxB
      have hne0 : L + 1 ≠ h0 := by
        intro h; rw [hk h, h] at hx; exact hx hroot
      have hsp : subPairs hf d bs (L + 1) k = subPairs hf d bs L (2 * k) := by
        simp only [subPairs, postD, if_neg hxB]
      rw [hsp] at hput
      simp only [planRec, if_neg hx]
      rw [e]
      have hl := ih (2 * k) (by omega) (by omega) (by rw [Offsets.startOf_left]; exact hne)
        tail st s s' hput
      rw [Bits.startOf_left, Bits.endOf_left] at hl
      rw [hl]
      have hf1 : decide (L = h0) = false := by simp; omega
      have hf2 : decide (L + 1 = h0) = false := by simp; omega
      have he : min (midOf k (L + bs + 1)) (nChunks d.length)
          = min (endOf k (L + bs + 1)) (nChunks d.length) := by omega
      rw [hf1, hf2, he]

/-- the number of chunks is at most `blocks · 2^bs` -/
theorem nChunks_le_blocks (size bs : Nat) :
    nChunks size ≤ Tree.blocks ⟨size, bs⟩ * 2 ^ bs := by
  have hB := blocks_pos size bs
  have hp := two_pow_pos' bs
  have hpos : 0 < Tree.blocks ⟨size, bs⟩ * 2 ^ bs := Nat.mul_pos hB hp
  have h1 := mt (lt_blocks_iff size bs (Tree.blocks ⟨size, bs⟩) hB).mpr (Nat.lt_irrefl _)
  rw [Nat.pow_add, ← Nat.mul_assoc] at h1
  have h2 := mt (lt_nChunks_iff size _ hpos).mp h1
  omega

/-- the `(node, Spec.pair)` list of a blob, in post-order -/
def postPairs (d : List UInt8) (bs : Nat) : List (Nat × H × H) :=
  (persistedPost d.length bs).map (nodePair hf d)

/-- **the whole plan**: if `put` accepts the `Spec.pair`s of the persisted nodes in post-order,
the loop returns the BLAKE3 root and the sink that received exactly these pairs -/
theorem run_plan (d : List UInt8) (bs : Nat) (hs : d.length ≤ 2 ^ 63) (hbs : bs ≤ 10) (s s' : σ)
    (hput : putAll put s (postPairs hf d bs) = .ok s') :
    obGen hf put (Tree.postOrderChunks ⟨d.length, bs⟩) [] d s = ⟨.ok (Spec.root hf d), s'⟩ := by
  obtain ⟨hh, e, hlt, hF⟩ := rootLevel_spec d.length bs hs
  have g := shifted_geo d.length bs hs hbs
  have hge := g.ge
  have hpp : postPairs hf d bs = subPairs hf d bs (rootLevel ⟨d.length, bs⟩) 0 := by
    unfold postPairs subPairs
    rw [persistedPost_eq_postD d.length bs (rootLevel ⟨d.length, bs⟩) hs (by omega), List.map_map]
    rfl
  rw [hpp] at hput
  have hs0 : startOf 0 (rootLevel ⟨d.length, bs⟩) = 0 := by simp [startOf]
  have hs1 : startOf 0 (rootLevel ⟨d.length, bs⟩ + bs) = 0 := by simp [startOf]
  have hrun := run_sub hf put d g hs (rootLevel ⟨d.length, bs⟩) hlt (rootLevel ⟨d.length, bs⟩) 0
    (Nat.le_refl _) (fun _ => rfl) (by rw [hs0]; omega) [] [] s s' hput
  rw [hs1, List.append_nil, Nat.zero_mul, List.drop_zero, ← e, ← plan_rec d.length bs hs hbs]
    at hrun
  rw [hrun, obGen_nil]
  have hn := nChunks_le_blocks d.length bs
  have hend : min (endOf 0 (rootLevel ⟨d.length, bs⟩ + bs)) (nChunks d.length)
      = nChunks d.length := by
    have : Tree.blocks ⟨d.length, bs⟩ * 2 ^ bs ≤ 2 ^ (rootLevel ⟨d.length, bs⟩ + 1) * 2 ^ bs :=
      Nat.mul_le_mul_right _ (by omega)
    have e2 : endOf 0 (rootLevel ⟨d.length, bs⟩ + bs)
        = 2 ^ (rootLevel ⟨d.length, bs⟩ + 1) * 2 ^ bs := by
      unfold endOf
      rw [Nat.zero_add, Nat.one_mul, ← Nat.pow_add]
      congr 1; omega
    omega
  rw [hend]
  simp [Spec.root]

end run

/-! ## the sinks -/

section sinks
variable {H : Type} (hf : HashFns H)

/-- the bytes written for a pair -/
def wbytes (w : Nat × H × H) : List UInt8 := hf.toBytes w.2.1 ++ hf.toBytes w.2.2

theorem putAll_writer (out : List UInt8) (ws : List (Nat × H × H)) :
    putAll (putWriter hf) out ws = .ok (out ++ ws.flatMap (wbytes hf)) := by
  induction ws generalizing out with
  | nil => simp [putAll]
  | cons w ws ih =>
    obtain ⟨n, p⟩ := w
    simp only [putAll, putWriter, ih, List.flatMap_cons, wbytes, List.append_assoc]

theorem flatMap_postPairs (d : List UInt8) (bs : Nat) :
    (postPairs hf d bs).flatMap (wbytes hf) = Spec.postOutboard hf d bs := by
  unfold postPairs Spec.postOutboard
  rw [List.flatMap_map]
  rfl

/-- `outboard_post_order`: the BLAKE3 root and the post-order outboard -/
theorem writer_run (d : List UInt8) (bs : Nat) (hs : d.length ≤ 2 ^ 63) (hbs : bs ≤ 10) :
    outboardPostOrder hf d ⟨d.length, bs⟩
      = ⟨.ok (Spec.root hf d), Spec.postOutboard hf d bs⟩ := by
  unfold outboardPostOrder
  rw [outboardPostOrderLoop_eq,
    run_plan hf _ d bs hs hbs [] _ (putAll_writer hf [] _), flatMap_postPairs]
  simp

/-! ### `save` on the store kinds -/

theorem save_io {ob : Store H} (hk : ob.kind = .preIo ∨ ob.kind = .postIo) {n k : Nat}
    (hsl : ob.slot n = some k) (p : H × H) :
    ob.save hf n p
      = .ok { ob with data := writeAt ob.data (k * 64) (hf.toBytes p.1 ++ hf.toBytes p.2) } := by
  unfold Store.save
  rcases hk with h | h <;> simp only [h, hsl]

theorem save_mem {ob : Store H} (hk : ob.kind = .preMem ∨ ob.kind = .postMem) {n k : Nat}
    (hsl : ob.slot n = some k) (hlen : k * 64 + 64 ≤ ob.data.length) (p : H × H) :
    ob.save hf n p
      = .ok { ob with data := writeAt ob.data (k * 64) (hf.toBytes p.1 ++ hf.toBytes p.2) } := by
  unfold Store.save
  rcases hk with h | h <;> simp only [h, hsl, if_pos hlen]

theorem save_empty {ob : Store H} (hk : ob.kind = .empty) {n : Nat}
    (hrel : ob.tree.isRelevant n = true) (p : H × H) : ob.save hf n p = .ok ob := by
  unfold Store.save
  simp only [hk, hrel, if_true]

/-- the positional writes `(slot, bytes)` of a list of pairs -/
def swrites (sl : Nat → Nat) (ws : List (Nat × H × H)) : List (Nat × List UInt8) :=
  ws.map fun w => (sl w.1, wbytes hf w)

theorem putAll_io (ob : Store H) (hk : ob.kind = .preIo ∨ ob.kind = .postIo) (sl : Nat → Nat)
    (ws : List (Nat × H × H)) (hsl : ∀ w ∈ ws, ob.slot w.1 = some (sl w.1)) :
    putAll (putStore hf) ob ws
      = .ok { ob with data := applyWrites ob.data (swrites hf sl ws) } := by
  induction ws generalizing ob with
  | nil => rfl
  | cons w ws ih =>
    obtain ⟨n, p⟩ := w
    have h1 := hsl (n, p) List.mem_cons_self
    simp only [putAll, putStore, save_io hf hk h1]
    exact ih { ob with data := writeAt ob.data (sl n * 64) (hf.toBytes p.1 ++ hf.toBytes p.2) } hk
      (fun w hw => hsl w (List.mem_cons_of_mem _ hw))

theorem putAll_mem (ob : Store H) (hk : ob.kind = .preMem ∨ ob.kind = .postMem) (sl : Nat → Nat)
    (ws : List (Nat × H × H)) (hsl : ∀ w ∈ ws, ob.slot w.1 = some (sl w.1)) (N : Nat)
    (hN : ob.data.length = N * 64) (hlt : ∀ w ∈ ws, sl w.1 < N)
    (hb : ∀ w ∈ ws, (wbytes hf w).length = 64) :
    putAll (putStore hf) ob ws
      = .ok { ob with data := applyWrites ob.data (swrites hf sl ws) } := by
  induction ws generalizing ob with
  | nil => rfl
  | cons w ws ih =>
    obtain ⟨n, p⟩ := w
    have h1 := hsl (n, p) List.mem_cons_self
    have h2 := hlt (n, p) List.mem_cons_self
    have h3 := hb (n, p) List.mem_cons_self
    simp only [wbytes] at h3
    simp only at h1 h2
    simp only [putAll, putStore, save_mem hf hk h1 (by omega)]
    exact ih { ob with data := writeAt ob.data (sl n * 64) (hf.toBytes p.1 ++ hf.toBytes p.2) } hk
      (fun w hw => hsl w (List.mem_cons_of_mem _ hw))
      (by simp only [length_writeAt]; omega)
      (fun w hw => hlt w (List.mem_cons_of_mem _ hw))
      (fun w hw => hb w (List.mem_cons_of_mem _ hw))

theorem putAll_empty (ob : Store H) (hk : ob.kind = .empty) (ws : List (Nat × H × H))
    (hrel : ∀ w ∈ ws, ob.tree.isRelevant w.1 = true) :
    putAll (putStore hf) ob ws = .ok ob := by
  induction ws with
  | nil => rfl
  | cons w ws ih =>
    obtain ⟨n, p⟩ := w
    simp only [putAll, putStore, save_empty hf hk (hrel (n, p) List.mem_cons_self)]
    exact ih (fun w hw => hrel w (List.mem_cons_of_mem _ hw))

/-! ### the persisted nodes and their slots -/

theorem postD_perm_preD (N L k : Nat) : (postD N L k).Perm (preD N L k) := by
  induction L generalizing k with
  | zero => exact List.Perm.refl _
  | succ L ih =>
    by_cases h : nodeOf k (L + 1) < N
    · simp only [postD, preD, if_pos h]
      exact List.perm_append_comm.trans (List.Perm.cons _ ((ih _).append (ih _)))
    · simp only [postD, preD, if_neg h]
      exact ih _

/-- the post-order and the pre-order list hold the same nodes -/
theorem persistedPost_perm (size bs : Nat) (hs : size ≤ 2 ^ 63) :
    (persistedPost size bs).Perm (persistedPre size bs) := by
  have hB := blocks_le size bs hs
  have hh : Tree.blocks ⟨size, bs⟩ - 1 < 2 ^ (63 + 1) := by omega
  rw [persistedPost_eq_postD size bs 63 hs hh, persistedPre_eq_preD size bs 63 hs hh]
  exact (postD_perm_preD _ _ _).map _

/-- slot functions -/
def slPre (size bs x : Nat) : Nat := (Tree.preOrderOffset ⟨size, bs⟩ x).getD 0
def slPost (size bs x : Nat) : Nat :=
  ((Tree.postOrderOffset ⟨size, bs⟩ x).map Tree.PostOffset.value).getD 0

theorem pre_offset_mem {size bs x : Nat} (hs : size ≤ 2 ^ 63) (hbs : bs ≤ 10)
    (hx : x ∈ persistedPre size bs) :
    Tree.preOrderOffset ⟨size, bs⟩ x = some (slPre size bs x) ∧
      slPre size bs x < Tree.blocks ⟨size, bs⟩ - 1 := by
  obtain ⟨i, hi, rfl⟩ := List.getElem_of_mem hx
  obtain ⟨hlen, hoff⟩ := C12.pre size bs hs hbs
  have := hoff i hi
  unfold slPre
  rw [this]
  exact ⟨rfl, by simp only [Option.getD_some]; omega⟩

theorem post_offset_mem {size bs x : Nat} (hs : size ≤ 2 ^ 63) (hbs : bs ≤ 10)
    (hx : x ∈ persistedPost size bs) :
    (Tree.postOrderOffset ⟨size, bs⟩ x).map Tree.PostOffset.value = some (slPost size bs x) ∧
      slPost size bs x < Tree.blocks ⟨size, bs⟩ - 1 := by
  obtain ⟨i, hi, rfl⟩ := List.getElem_of_mem hx
  obtain ⟨hlen, hoff⟩ := C12.post size bs hs hbs
  have := hoff i hi
  unfold slPost
  rw [this]
  exact ⟨rfl, by simp only [Option.getD_some]; omega⟩

/-- a persisted node is relevant for the outboard -/
theorem isRelevant_persisted {size bs x : Nat} (hs : size ≤ 2 ^ 63)
    (hx : x ∈ persistedPost size bs) : Tree.isRelevant ⟨size, bs⟩ x = true := by
  have hB := blocks_le size bs hs
  have hh : Tree.blocks ⟨size, bs⟩ - 1 < 2 ^ (63 + 1) := by omega
  rw [persistedPost_eq_postD size bs 63 hs hh] at hx
  obtain ⟨y, hy, rfl⟩ := List.mem_map.mp hx
  have hyN := mem_postD_lt _ _ _ _ hy
  obtain ⟨k, L, rfl⟩ := C18.coords_exist y
  have hLb := level_bound hs hyN
  have hm := persisted_mid hyN
  unfold Tree.isRelevant
  simp only [Node.mid, up_succ, toBytes]
  rw [up_nodeOf, C18.level_nodeOf (by omega)]
  by_cases h0 : L = 0
  · subst h0
    simp [hm]
  · have : ¬ (L + bs < bs) := by omega
    have : L + bs > bs := by omega
    simp [*]

/-! ### the final backing of a store -/

theorem pairBytes_length (hlen : ∀ h, (hf.toBytes h).length = 32) (d : List UInt8) (x : Nat) :
    (pairBytes hf d x).length = 64 := by
  simp [pairBytes, hlen]

theorem swrites_postPairs (sl : Nat → Nat) (d : List UInt8) (bs : Nat) :
    swrites hf sl (postPairs hf d bs)
      = (persistedPost d.length bs).map fun x => (sl x, pairBytes hf d x) := by
  unfold swrites postPairs
  rw [List.map_map]
  rfl

theorem mem_postPairs {d : List UInt8} {bs : Nat} {w : Nat × H × H}
    (hw : w ∈ postPairs hf d bs) :
    w.1 ∈ persistedPost d.length bs ∧ wbytes hf w = pairBytes hf d w.1 := by
  obtain ⟨x, hx, rfl⟩ := List.mem_map.mp hw
  exact ⟨hx, rfl⟩

/-- writing the pairs, produced in post-order, at their PRE-order slots gives the pre-order
outboard, whatever (not longer) backing one starts from -/
theorem writes_pre (hlen : ∀ h, (hf.toBytes h).length = 32) (d : List UInt8) (bs : Nat)
    (hs : d.length ≤ 2 ^ 63) (hbs : bs ≤ 10) (init : List UInt8)
    (hinit : init.length ≤ (Tree.blocks ⟨d.length, bs⟩ - 1) * 64) :
    applyWrites init (swrites hf (slPre d.length bs) (postPairs hf d bs))
      = Spec.preOutboard hf d bs := by
  obtain ⟨hl, hoff⟩ := C12.pre d.length bs hs hbs
  rw [swrites_postPairs]
  exact applyWrites_perm (persistedPre d.length bs) (persistedPost d.length bs)
    (slPre d.length bs) (pairBytes hf d) init (persistedPost_perm d.length bs hs)
    (fun i h => by unfold slPre; rw [hoff i h]; rfl)
    (fun x _ => pairBytes_length hf hlen d x) (by rw [hl]; exact hinit)

/-- … and at their POST-order slots the post-order outboard -/
theorem writes_post (hlen : ∀ h, (hf.toBytes h).length = 32) (d : List UInt8) (bs : Nat)
    (hs : d.length ≤ 2 ^ 63) (hbs : bs ≤ 10) (init : List UInt8)
    (hinit : init.length ≤ (Tree.blocks ⟨d.length, bs⟩ - 1) * 64) :
    applyWrites init (swrites hf (slPost d.length bs) (postPairs hf d bs))
      = Spec.postOutboard hf d bs := by
  obtain ⟨hl, hoff⟩ := C12.post d.length bs hs hbs
  rw [swrites_postPairs]
  exact applyWrites_perm (persistedPost d.length bs) (persistedPost d.length bs)
    (slPost d.length bs) (pairBytes hf d) init (List.Perm.refl _)
    (fun i h => by unfold slPost; rw [hoff i h]; rfl)
    (fun x _ => pairBytes_length hf hlen d x) (by rw [hl]; exact hinit)

/-- `outboard` on an io store (auto-extending, any not longer initial backing) or an in-memory
store (backing of exactly the outboard size), for a slot function `sl` and its target -/
theorem outboard_run_gen (hlen : ∀ h, (hf.toBytes h).length = 32) (d : List UInt8) (bs : Nat)
    (hs : d.length ≤ 2 ^ 63) (hbs : bs ≤ 10) (ob : Store H) (htree : ob.tree = ⟨d.length, bs⟩)
    (hk : ((ob.kind = .preIo ∨ ob.kind = .postIo) ∧
            ob.data.length ≤ (Tree.blocks ⟨d.length, bs⟩ - 1) * 64) ∨
          ((ob.kind = .preMem ∨ ob.kind = .postMem) ∧
            ob.data.length = (Tree.blocks ⟨d.length, bs⟩ - 1) * 64))
    (sl : Nat → Nat) (target : List UInt8)
    (hsl : ∀ x ∈ persistedPost d.length bs,
      ob.slot x = some (sl x) ∧ sl x < Tree.blocks ⟨d.length, bs⟩ - 1)
    (hw : ∀ init : List UInt8, init.length ≤ (Tree.blocks ⟨d.length, bs⟩ - 1) * 64 →
      applyWrites init (swrites hf sl (postPairs hf d bs)) = target) :
    outboard hf d ob.tree ob = ⟨.ok (Spec.root hf d), { ob with data := target }⟩ := by
  unfold outboard
  rw [outboardLoop_eq, htree]
  apply run_plan hf _ d bs hs hbs
  have hsl' : ∀ w ∈ postPairs hf d bs, ob.slot w.1 = some (sl w.1) :=
    fun w hw => (hsl _ (mem_postPairs hf hw).1).1
  rcases hk with ⟨hk, hl⟩ | ⟨hk, hl⟩
  · rw [putAll_io hf ob hk sl _ hsl', hw _ hl, htree]
  · rw [putAll_mem hf ob hk sl _ hsl' _ hl (fun w hw => (hsl _ (mem_postPairs hf hw).1).2)
      (fun w hw => by
        rw [(mem_postPairs hf hw).2]; exact pairBytes_length hf hlen d _),
      hw _ (Nat.le_of_eq hl), htree]

theorem slot_pre {ob : Store H} (hk : ob.kind = .preIo ∨ ob.kind = .preMem) (x : Nat) :
    ob.slot x = ob.tree.preOrderOffset x := by
  unfold Store.slot
  rcases hk with h | h <;> simp only [h]

theorem slot_post {ob : Store H} (hk : ob.kind = .postIo ∨ ob.kind = .postMem) (x : Nat) :
    ob.slot x = (ob.tree.postOrderOffset x).map (·.value) := by
  unfold Store.slot
  rcases hk with h | h <;> simp only [h]

/-- pre-order stores end up holding `Spec.preOutboard` -/
theorem outboard_run_pre (hlen : ∀ h, (hf.toBytes h).length = 32) (d : List UInt8) (bs : Nat)
    (hs : d.length ≤ 2 ^ 63) (hbs : bs ≤ 10) (ob : Store H) (htree : ob.tree = ⟨d.length, bs⟩)
    (hk : (ob.kind = .preIo ∧ ob.data.length ≤ ob.tree.outboardSize) ∨
          (ob.kind = .preMem ∧ ob.data.length = ob.tree.outboardSize)) :
    outboard hf d ob.tree ob
      = ⟨.ok (Spec.root hf d), { ob with data := Spec.preOutboard hf d bs }⟩ := by
  have hsz : ob.tree.outboardSize = (Tree.blocks ⟨d.length, bs⟩ - 1) * 64 := by rw [htree]; rfl
  rw [hsz] at hk
  have hk' : ob.kind = .preIo ∨ ob.kind = .preMem := by
    rcases hk with h | h
    · exact .inl h.1
    · exact .inr h.1
  refine outboard_run_gen hf hlen d bs hs hbs ob htree ?_ (slPre d.length bs) _ ?_
    (writes_pre hf hlen d bs hs hbs)
  · rcases hk with ⟨h, hl⟩ | ⟨h, hl⟩
    · exact .inl ⟨.inl h, hl⟩
    · exact .inr ⟨.inl h, hl⟩
  · intro x hx
    rw [slot_pre hk', htree]
    exact pre_offset_mem hs hbs ((persistedPost_perm d.length bs hs).mem_iff.mp hx)

/-- post-order stores end up holding `Spec.postOutboard` -/
theorem outboard_run_post (hlen : ∀ h, (hf.toBytes h).length = 32) (d : List UInt8) (bs : Nat)
    (hs : d.length ≤ 2 ^ 63) (hbs : bs ≤ 10) (ob : Store H) (htree : ob.tree = ⟨d.length, bs⟩)
    (hk : (ob.kind = .postIo ∧ ob.data.length ≤ ob.tree.outboardSize) ∨
          (ob.kind = .postMem ∧ ob.data.length = ob.tree.outboardSize)) :
    outboard hf d ob.tree ob
      = ⟨.ok (Spec.root hf d), { ob with data := Spec.postOutboard hf d bs }⟩ := by
  have hsz : ob.tree.outboardSize = (Tree.blocks ⟨d.length, bs⟩ - 1) * 64 := by rw [htree]; rfl
  rw [hsz] at hk
  have hk' : ob.kind = .postIo ∨ ob.kind = .postMem := by
    rcases hk with h | h
    · exact .inl h.1
    · exact .inr h.1
  refine outboard_run_gen hf hlen d bs hs hbs ob htree ?_ (slPost d.length bs) _ ?_
    (writes_post hf hlen d bs hs hbs)
  · rcases hk with ⟨h, hl⟩ | ⟨h, hl⟩
    · exact .inl ⟨.inr h, hl⟩
    · exact .inr ⟨.inr h, hl⟩
  · intro x hx
    rw [slot_post hk', htree]
    exact post_offset_mem hs hbs hx

/-- the `EmptyOutboard`: the root is computed, nothing is stored -/
theorem outboard_run_empty (d : List UInt8) (bs : Nat)
    (hs : d.length ≤ 2 ^ 63) (hbs : bs ≤ 10) (ob : Store H) (htree : ob.tree = ⟨d.length, bs⟩)
    (hk : ob.kind = .empty) :
    outboard hf d ob.tree ob = ⟨.ok (Spec.root hf d), ob⟩ := by
  unfold outboard
  rw [outboardLoop_eq, htree]
  apply run_plan hf _ d bs hs hbs
  apply putAll_empty hf ob hk
  intro w hw
  rw [htree]
  exact isRelevant_persisted hs (mem_postPairs hf hw).1

/-! ### sizes, `load` -/

theorem preOutboard_length (hlen : ∀ h, (hf.toBytes h).length = 32) (d : List UInt8) (bs : Nat)
    (hs : d.length ≤ 2 ^ 63) (hbs : bs ≤ 10) :
    (Spec.preOutboard hf d bs).length = (Tree.blocks ⟨d.length, bs⟩ - 1) * 64 := by
  unfold Spec.preOutboard
  rw [length_flatMap64 _ _ (fun x _ => pairBytes_length hf hlen d x), (C12.pre d.length bs hs hbs).1]

theorem postOutboard_length (hlen : ∀ h, (hf.toBytes h).length = 32) (d : List UInt8) (bs : Nat)
    (hs : d.length ≤ 2 ^ 63) (hbs : bs ≤ 10) :
    (Spec.postOutboard hf d bs).length = (Tree.blocks ⟨d.length, bs⟩ - 1) * 64 := by
  unfold Spec.postOutboard
  rw [length_flatMap64 _ _ (fun x _ => pairBytes_length hf hlen d x), (C12.post d.length bs hs hbs).1]

theorem parsePair_pairBytes (hlen : ∀ h, (hf.toBytes h).length = 32)
    (hrt : ∀ h, hf.ofBytes (hf.toBytes h) = h) (d : List UInt8) (x : Nat) :
    parsePair hf (pairBytes hf d x) = Spec.pair hf d (indexOf x) (levelOf x) := by
  unfold parsePair pairBytes
  simp only
  rw [List.take_left' (hlen _), List.drop_left' (hlen _), List.take_of_length_le (by rw [hlen]; omega),
    hrt, hrt]

/-- `load` of a node with slot `i` from a non-empty-kind store whose backing is the concatenation
of 64-byte blocks `f P[0] ++ f P[1] ++ …` -/
theorem load_gen {α : Type} (fl : Flavour) (ob : Store H) (hk : ob.kind ≠ .empty) (P : List α)
    (f : α → List UInt8) (hf64 : ∀ x ∈ P, (f x).length = 64) (hdata : ob.data = P.flatMap f)
    (i : Nat) (hi : i < P.length) (x : Nat) (hsl : ob.slot x = some i) :
    ob.load hf fl x = .ok (some (parsePair hf (f P[i]))) := by
  have hle : i * 64 + 64 ≤ ob.data.length := by
    rw [hdata, length_flatMap64 _ _ hf64]; omega
  have hb : (ob.data.drop (i * 64)).take 64 = f P[i] := by
    rw [hdata]; exact blockAt_flatMap P f hf64 i hi
  unfold Store.load
  cases hkd : ob.kind with
  | empty => exact (hk hkd).elim
  | preIo => simp only [hsl, if_pos hle, hb]
  | postIo => simp only [hsl, if_pos hle, hb]
  | preMem => simp only [hsl, if_pos hle, hb]
  | postMem => simp only [hsl, if_pos hle, hb]

theorem load_none (fl : Flavour) (ob : Store H) (hk : ob.kind ≠ .empty) (x : Nat)
    (hsl : ob.slot x = none) : ob.load hf fl x = .ok none := by
  unfold Store.load
  cases hkd : ob.kind with
  | empty => exact (hk hkd).elim
  | preIo => simp only [hsl]
  | postIo => simp only [hsl]
  | preMem => simp only [hsl]
  | postMem => simp only [hsl]

/-- `load` of a persisted node from a store holding the outboard of its kind -/
theorem load_persisted (hlen : ∀ h, (hf.toBytes h).length = 32)
    (hrt : ∀ h, hf.ofBytes (hf.toBytes h) = h) (d : List UInt8) (bs : Nat)
    (hs : d.length ≤ 2 ^ 63) (hbs : bs ≤ 10) (fl : Flavour) (ob : Store H)
    (htree : ob.tree = ⟨d.length, bs⟩)
    (hk : ((ob.kind = .preIo ∨ ob.kind = .preMem) ∧ ob.data = Spec.preOutboard hf d bs) ∨
          ((ob.kind = .postIo ∨ ob.kind = .postMem) ∧ ob.data = Spec.postOutboard hf d bs))
    (x : Nat) (hx : x ∈ persistedPre d.length bs) :
    ob.load hf fl x = .ok (some (Spec.pair hf d (indexOf x) (levelOf x))) := by
  rcases hk with ⟨hk, hd⟩ | ⟨hk, hd⟩
  · obtain ⟨i, hi, rfl⟩ := List.getElem_of_mem hx
    have hne : ob.kind ≠ .empty := by rcases hk with h | h <;> simp [h]
    rw [load_gen hf fl ob hne _ (pairBytes hf d) (fun x _ => pairBytes_length hf hlen d x) hd i hi,
      parsePair_pairBytes hf hlen hrt]
    rw [slot_pre hk, htree]
    exact (C12.pre d.length bs hs hbs).2 i hi
  · have hx' := (persistedPost_perm d.length bs hs).mem_iff.mpr hx
    obtain ⟨i, hi, rfl⟩ := List.getElem_of_mem hx'
    have hne : ob.kind ≠ .empty := by rcases hk with h | h <;> simp [h]
    rw [load_gen hf fl ob hne _ (pairBytes hf d) (fun x _ => pairBytes_length hf hlen d x) hd i hi,
      parsePair_pairBytes hf hlen hrt]
    rw [slot_post hk, htree]
    exact (C12.post d.length bs hs hbs).2 i hi

/-- nodes below the block size and the half-filled last leaf are not stored -/
theorem load_unstored (d : List UInt8) (bs : Nat)
    (hs : d.length ≤ 2 ^ 63) (hbs : bs ≤ 10) (fl : Flavour) (ob : Store H)
    (htree : ob.tree = ⟨d.length, bs⟩) (hk : ob.kind ≠ .empty) (x : Nat)
    (hx : Node.level x < bs ∨ (Tree.blocks ⟨d.length, bs⟩ % 2 = 1 ∧
      x = Node.subBs (Tree.blocks ⟨d.length, bs⟩ - 1) bs)) :
    ob.load hf fl x = .ok none := by
  apply load_none hf fl ob hk
  obtain ⟨p1, p2⟩ := C12.pre_none d.length bs hs hbs
  obtain ⟨q1, q2⟩ := C12.post_none d.length bs hs hbs
  have hpre : Tree.preOrderOffset ⟨d.length, bs⟩ x = none := by
    rcases hx with h | ⟨h, rfl⟩
    · exact p1 x h
    · exact p2 h
  have hpost : Tree.postOrderOffset ⟨d.length, bs⟩ x = none := by
    rcases hx with h | ⟨h, rfl⟩
    · exact q1 x h
    · exact q2 h
  unfold Store.slot
  cases hkd : ob.kind with
  | empty => exact (hk hkd).elim
  | preIo => simp only [htree, hpre]
  | preMem => simp only [htree, hpre]
  | postIo => simp only [htree, hpost, Option.map_none]
  | postMem => simp only [htree, hpost, Option.map_none]

end sinks

end Bao.OutboardL
