import BaoProofs.Lemmas.PlanPreCover
import BaoProofs.Lemmas.C01Inv
import BaoProofs.Lemmas.NodeIter

/-!
# The validators (`valid_ranges`, `valid_outboard_ranges`) report exactly the verifiable groups

Everything is phrased in *shifted coordinates*: the shifted node `(k, L)` has shifted id
`nodeOf k L` and real id `nodeOf k (L + bs)`; its chunk range is
`[startOf k (L+bs), endOf k (L+bs))`.  The shifted tree is dense (ids `0 … F-1`,
`F = tree.shifted.2`); a shifted id `≥ F` does not exist and its left child takes its place
(this is what `TreeNode::right_descendant` computes, `NodeIterL.dl`).

* `GroupC L k g`   : `g` is (the chunk range of) a chunk group below `(k, L)`, found by walking
  down from `(k, L)` towards the chunk `g.1`.
* `LinkedC L k owed isRoot g` : `GroupC`, and every persisted node on that walk has a stored pair
  whose parent hash is the hash owed from above, and (with data) the stored bytes of the group
  hash to the half owed to it.  Does not mention the query.
* `ReachC L k rs g` : the query restricted by `split(ranges, node)` along the same walk is non-empty
  at every step.  Does not mention the store contents.
* `rec_spec` : `validate_rec` yields exactly the `g` with `LinkedC ∧ ReachC` (soundness for every
  run, completeness for runs that end without error), strictly increasing.
-/

set_option maxRecDepth 8192

namespace Bao.ValidL
open Bao Bao.Spec Bao.Bits

variable {H : Type}

/-! ## definitions -/

/-- stored bytes `[s, e)` of the data file -/
def bytesAt (data : List UInt8) (s e : Nat) : List UInt8 := (data.drop s).take (e - s)

/-- the data check of one group (always true for the outboard-only validator): the stored bytes
`[s, e)`, hashed as the subtree starting at chunk `c`, give `owed` -/
def LeafOk (hf : HashFns H) (data : List UInt8) (wd : Bool) (c s e : Nat) (owed : H)
    (isRoot : Bool) : Prop :=
  wd = true → hashSubtree hf c (bytesAt data s e) isRoot = owed

section defs
variable (hf : HashFns H) (ld : Nat → Res IoErr (Option (H × H))) (data : List UInt8) (wd : Bool)
  (t : Tree) (F : Nat)

/-- `g` is a chunk group below the shifted node `(k, L)` (walk towards chunk `g.1`) -/
def GroupC : Nat → Nat → Nat × Nat → Prop
  | 0, k, g =>
    nodeOf k 0 < F ∧
    if toBytes (midOf k t.bs) < t.size then
      if g.1 < midOf k t.bs then g = (startOf k t.bs, midOf k t.bs)
      else g = (midOf k t.bs, chunksOf (min (toBytes (endOf k t.bs)) t.size))
    else g = (startOf k t.bs, chunksOf (min (toBytes (endOf k t.bs)) t.size))
  | L + 1, k, g =>
    if nodeOf k (L + 1) < F then
      if g.1 < midOf k (L + 1 + t.bs) then GroupC L (2 * k) g else GroupC L (2 * k + 1) g
    else GroupC L (2 * k) g

/-- `g` is a chunk group below `(k, L)` and is linked to the hash `owed` by stored pairs -/
def LinkedC : Nat → Nat → H → Bool → Nat × Nat → Prop
  | 0, k, owed, isRoot, g =>
    nodeOf k 0 < F ∧
    if toBytes (midOf k t.bs) < t.size then
      match ld (nodeOf k t.bs) with
      | .ok (some (lh, rh)) =>
        hf.parentCv lh rh isRoot = owed ∧
        if g.1 < midOf k t.bs then
          g = (startOf k t.bs, midOf k t.bs) ∧
            LeafOk hf data wd (startOf k t.bs) (toBytes (startOf k t.bs)) (toBytes (midOf k t.bs))
              lh false
        else
          g = (midOf k t.bs, chunksOf (min (toBytes (endOf k t.bs)) t.size)) ∧
            LeafOk hf data wd (midOf k t.bs) (toBytes (midOf k t.bs))
              (min (toBytes (endOf k t.bs)) t.size) rh false
      | _ => False
    else
      g = (startOf k t.bs, chunksOf (min (toBytes (endOf k t.bs)) t.size)) ∧
        LeafOk hf data wd (startOf k t.bs) (toBytes (startOf k t.bs))
          (min (toBytes (endOf k t.bs)) t.size) owed isRoot
  | L + 1, k, owed, isRoot, g =>
    if nodeOf k (L + 1) < F then
      match ld (nodeOf k (L + 1 + t.bs)) with
      | .ok (some (lh, rh)) =>
        hf.parentCv lh rh isRoot = owed ∧
        if g.1 < midOf k (L + 1 + t.bs) then LinkedC L (2 * k) lh false g
        else LinkedC L (2 * k + 1) rh false g
      | _ => False
    else LinkedC L (2 * k) owed isRoot g

/-- the query `rs`, restricted by `split(ranges, node)` on the walk from `(k, L)` to `g`, is
non-empty at every step -/
def ReachC : Nat → Nat → Ranges → Nat × Nat → Prop
  | 0, k, rs, g =>
    rs ≠ [] ∧
    (toBytes (midOf k t.bs) < t.size →
      if g.1 < midOf k t.bs then (Ranges.splitNode rs (nodeOf k t.bs)).1 ≠ []
      else (Ranges.splitNode rs (nodeOf k t.bs)).2 ≠ [])
  | L + 1, k, rs, g =>
    if nodeOf k (L + 1) < F then
      rs ≠ [] ∧
      if g.1 < midOf k (L + 1 + t.bs) then
        ReachC L (2 * k) (Ranges.splitNode rs (nodeOf k (L + 1 + t.bs))).1 g
      else ReachC L (2 * k + 1) (Ranges.splitNode rs (nodeOf k (L + 1 + t.bs))).2 g
    else ReachC L (2 * k) rs g

end defs

/-! ## what a validator run reports -/

/-- the run `r` reports exactly the groups with `P` (completely only if it ends without error),
all inside `[lo, hi)`, in strictly increasing order and pairwise disjoint -/
structure RunSpec (r : ValRun) (P : Nat × Nat → Prop) (lo hi : Nat) : Prop where
  sound : ∀ g ∈ r.yields, P g
  complete : r.terminal = .ok → ∀ g, P g → g ∈ r.yields
  bound : ∀ g ∈ r.yields, lo ≤ g.1 ∧ g.1 < hi ∧ g.2 ≤ hi
  sorted : r.yields.Pairwise (fun a b => a.2 ≤ b.1 ∧ a.1 < b.1)

theorem RunSpec.stop {P : Nat × Nat → Prop} {lo hi : Nat} (e : ValEnd) (h : ∀ g, ¬ P g) :
    RunSpec ⟨[], e⟩ P lo hi :=
  ⟨fun _ hg => (by cases hg), fun _ g hp => absurd hp (h g), fun _ hg => (by cases hg),
    List.Pairwise.nil⟩

theorem RunSpec.fail {P : Nat × Nat → Prop} {lo hi : Nat} {e : ValEnd} (h : e ≠ .ok) :
    RunSpec ⟨[], e⟩ P lo hi :=
  ⟨fun _ hg => (by cases hg), fun he => absurd he h, fun _ hg => (by cases hg), List.Pairwise.nil⟩

theorem RunSpec.single {P : Nat × Nat → Prop} {lo hi : Nat} (g₀ : Nat × Nat) (h0 : P g₀)
    (h : ∀ g, P g → g = g₀) (hb : lo ≤ g₀.1 ∧ g₀.1 < hi ∧ g₀.2 ≤ hi) :
    RunSpec ⟨[g₀], .ok⟩ P lo hi :=
  ⟨fun g hg => (by rw [List.mem_singleton.1 hg]; exact h0),
    fun _ g hp => List.mem_singleton.2 (h g hp),
    fun g hg => (by rw [List.mem_singleton.1 hg]; exact hb), List.pairwise_singleton _ _⟩

theorem RunSpec.congr {r : ValRun} {P Q : Nat × Nat → Prop} {lo hi : Nat}
    (h : RunSpec r P lo hi) (hpq : ∀ g, P g ↔ Q g) : RunSpec r Q lo hi :=
  ⟨fun g hg => (hpq g).1 (h.sound g hg), fun he g hq => h.complete he g ((hpq g).2 hq), h.bound,
    h.sorted⟩

theorem andThen_yields (a : ValRun) (b : Unit → ValRun) :
    (a.andThen b).yields = a.yields ++ (if a.terminal = .ok then (b ()).yields else []) := by
  unfold ValRun.andThen
  cases h : a.terminal <;> simp

theorem andThen_terminal (a : ValRun) (b : Unit → ValRun) :
    (a.andThen b).terminal = .ok ↔ a.terminal = .ok ∧ (b ()).terminal = .ok := by
  unfold ValRun.andThen
  cases h : a.terminal <;> simp [h]

/-- sequencing: the left run reports the groups starting in front of `mid`, the right run the
groups starting at or behind `mid` -/
theorem RunSpec.andThen {a : ValRun} {b : Unit → ValRun} {P P1 P2 : Nat × Nat → Prop}
    {lo mid hi : Nat} (ha : RunSpec a P1 lo mid) (hb : RunSpec (b ()) P2 mid hi)
    (hlm : lo ≤ mid) (hmh : mid ≤ hi)
    (hP : ∀ g, P g ↔ if g.1 < mid then P1 g else P2 g) : RunSpec (a.andThen b) P lo hi := by
  have hsub : ∀ g ∈ (a.andThen b).yields, g ∈ a.yields ∨ g ∈ (b ()).yields := by
    intro g hg
    rw [andThen_yields, List.mem_append] at hg
    rcases hg with hg | hg
    · exact Or.inl hg
    · split at hg
      · exact Or.inr hg
      · cases hg
  refine ⟨?_, ?_, ?_, ?_⟩
  · intro g hg
    rcases hsub g hg with hg | hg
    · have := ha.bound g hg
      rw [hP, if_pos this.2.1]; exact ha.sound g hg
    · have := hb.bound g hg
      rw [hP, if_neg (by omega)]; exact hb.sound g hg
  · intro he g hp
    obtain ⟨h1, h2⟩ := (andThen_terminal a b).1 he
    rw [andThen_yields, if_pos h1, List.mem_append]
    rw [hP] at hp
    split at hp
    · exact Or.inl (ha.complete h1 g hp)
    · exact Or.inr (hb.complete h2 g hp)
  · intro g hg
    rcases hsub g hg with hg | hg
    · have := ha.bound g hg; omega
    · have := hb.bound g hg; omega
  · rw [andThen_yields, List.pairwise_append]
    refine ⟨ha.sorted, ?_, ?_⟩
    · split
      · exact hb.sorted
      · exact List.Pairwise.nil
    · intro x hx y hy
      have h1 := ha.bound x hx
      split at hy
      · have h2 := hb.bound y hy; omega
      · cases hy

/-! ## the `yield_range` closure -/

/-- the `yield_range` closure of `validate_rec` -/
def yieldRange [BEq H] (hf : HashFns H) (wd : Bool) (data : List UInt8) (s e : Nat) (h : H)
    (root : Bool) : ValRun :=
  if wd then
    match yieldIfValid hf data s e h root with
    | .error err => ⟨[], .err err⟩
    | .ok ys => ⟨ys, .ok⟩
  else ⟨[(fullChunksOf s, chunksOf e)], .ok⟩

theorem readExactAt_ok {data : List UInt8} {s e : Nat} {tmp : List UInt8}
    (h : readExactAt data s (e - s) = .ok tmp) : tmp = bytesAt data s e := by
  unfold readExactAt at h
  unfold bytesAt
  split at h
  · rename_i h0; cases h; rw [h0]; rfl
  · split at h
    · cases h; rfl
    · cases h

theorem readExactAt_of_le {data : List UInt8} {s e : Nat} (h : e ≤ data.length) :
    readExactAt data s (e - s) = .ok (bytesAt data s e) := by
  unfold readExactAt bytesAt
  split
  · rename_i h0; rw [h0]; rfl
  · rw [if_pos (by omega)]

theorem fullChunksOf_toBytes (c : Nat) : fullChunksOf (toBytes c) = c := by
  unfold fullChunksOf toBytes; omega

theorem chunksOf_toBytes (c : Nat) : chunksOf (toBytes c) = c := by
  unfold chunksOf toBytes
  have : c * 1024 % 1024 = 0 := Nat.mul_mod_left c 1024
  simp only [this, ne_eq, not_true_eq_false, if_false]; omega

theorem chunksOf_mono {a b : Nat} (h : a ≤ b) : chunksOf a ≤ chunksOf b := by
  unfold chunksOf
  split <;> split <;> omega

theorem yieldRange_spec [BEq H] [LawfulBEq H] (hf : HashFns H) (wd : Bool) (data : List UInt8)
    (c e : Nat) (h : H) (root : Bool) {lo hi : Nat} (h1 : lo ≤ c) (h2 : c < hi)
    (h3 : chunksOf e ≤ hi) :
    RunSpec (yieldRange hf wd data (toBytes c) e h root)
      (fun g => g = (c, chunksOf e) ∧ LeafOk hf data wd c (toBytes c) e h root) lo hi := by
  unfold yieldRange
  cases wd with
  | false =>
    simp only [Bool.false_eq_true, if_false, fullChunksOf_toBytes]
    exact RunSpec.single _ ⟨rfl, fun hh => by cases hh⟩ (fun g hg => hg.1) ⟨h1, h2, h3⟩
  | true =>
    simp only [if_true, yieldIfValid]
    cases hr : readExactAt data (toBytes c) (e - toBytes c) with
    | error err => exact RunSpec.fail (by simp)
    | ok tmp =>
      have ht := readExactAt_ok hr
      subst ht
      simp only [fullChunksOf_toBytes]
      by_cases heq : hashSubtree hf c (bytesAt data (toBytes c) e) root = h
      · simp only [heq, beq_self_eq_true, if_true]
        exact RunSpec.single _ ⟨rfl, fun _ => heq⟩ (fun g hg => hg.1) ⟨h1, h2, h3⟩
      · have : (hashSubtree hf c (bytesAt data (toBytes c) e) root == h) = false := by
          simpa using heq
        simp only [this, Bool.false_eq_true, if_false]
        exact RunSpec.stop _ (fun g hg => heq (hg.2 rfl))

theorem yieldRange_ok [BEq H] (hf : HashFns H) (wd : Bool) (data : List UInt8)
    (s e : Nat) (h : H) (root : Bool) (hd : wd = true → e ≤ data.length) :
    (yieldRange hf wd data s e h root).terminal = .ok := by
  unfold yieldRange
  cases wd with
  | false => rfl
  | true =>
    simp only [if_true, yieldIfValid, readExactAt_of_le (hd rfl)]
    by_cases hq : (hashSubtree hf (fullChunksOf s) (bytesAt data s e) root == h) = true
    · simp only [hq, if_true]
    · simp only [hq, Bool.false_eq_true, if_false]

/-- one step of `validate_rec` -/
theorem validateRec_succ [BEq H] (hf : HashFns H) (fl : Flavour) (wd : Bool) (ob : Store H)
    (data : List UInt8) (filled fuel : Nat) (ph : H) (shifted : Nat) (isRoot : Bool) (rs : Ranges) :
    validateRec hf fl wd ob data filled (fuel + 1) ph shifted isRoot rs =
      if rs.isEmpty then ⟨[], .ok⟩
      else
        let node := Node.subBs shifted ob.tree.bs
        let lmr := ob.tree.leafByteRanges3 node
        if !ob.tree.isRelevant node then yieldRange hf wd data lmr.1 lmr.2.2 ph isRoot
        else
          match ob.load hf fl node with
          | .err e => ⟨[], .err e⟩
          | .panic => ⟨[], .panic⟩
          | .ok none => ⟨[], .ok⟩
          | .ok (some (lh, rh)) =>
            if hf.parentCv lh rh isRoot != ph then ⟨[], .ok⟩
            else
              let sp := Ranges.splitNode rs node
              if Node.isLeaf shifted then
                (if !sp.1.isEmpty then yieldRange hf wd data lmr.1 lmr.2.1 lh false
                  else ⟨[], .ok⟩).andThen fun _ =>
                  (if !sp.2.isEmpty then yieldRange hf wd data lmr.2.1 lmr.2.2 rh false
                    else ⟨[], .ok⟩)
              else
                match Node.leftChild shifted, Node.rightDescendant shifted filled with
                | some left, some right =>
                  (validateRec hf fl wd ob data filled fuel lh left false sp.1).andThen fun _ =>
                    validateRec hf fl wd ob data filled fuel rh right false sp.2
                | _, _ => ⟨[], .panic⟩ := by
  rfl

/-! ## geometry of an existing shifted node -/

section geo
variable {t : Tree} {F : Nat}

theorem subBs_node (g : PlanPre.Geo t.size t.bs F) {k L : Nat} (h : nodeOf k L < F) :
    Node.subBs (nodeOf k L) t.bs = nodeOf k (L + t.bs) :=
  C18.subBs_spec (g.real_lt h)

theorem lbr3_node (g : PlanPre.Geo t.size t.bs F) {k L : Nat} (h : nodeOf k L < F) :
    t.leafByteRanges3 (nodeOf k (L + t.bs)) =
      (toBytes (startOf k (L + t.bs)), min (toBytes (midOf k (L + t.bs))) t.size,
        min (toBytes (endOf k (L + t.bs))) t.size) := by
  unfold Tree.leafByteRanges3
  rw [C18.chunkRange_spec (g.level_le h), C18.mid_spec]

theorem isRelevant_node (g : PlanPre.Geo t.size t.bs F) {k L : Nat} (h : nodeOf k L < F) :
    t.isRelevant (nodeOf k (L + t.bs)) =
      (decide (0 < L) || decide (toBytes (midOf k (L + t.bs)) < t.size)) := by
  unfold Tree.isRelevant
  simp only [C18.level_nodeOf (g.level_le h), C18.mid_spec]
  by_cases h0 : 0 < L
  · have h1 : ¬ (L + t.bs < t.bs) := by omega
    have h2 : L + t.bs > t.bs := by omega
    simp [h0, h1, h2]
  · have h1 : ¬ (L + t.bs < t.bs) := by omega
    have h2 : ¬ (L + t.bs > t.bs) := by omega
    simp [h0, h1, h2]

theorem chunksOf_hi_le (k M size : Nat) : chunksOf (min (toBytes (endOf k M)) size) ≤ endOf k M := by
  have := chunksOf_mono (Nat.min_le_left (toBytes (endOf k M)) size)
  rwa [chunksOf_toBytes] at this

end geo

/-! ## `dl`: the three notions skip non-existing nodes -/

section dl
open NodeIterL
variable (hf : HashFns H) (ld : Nat → Res IoErr (Option (H × H))) (data : List UInt8) (wd : Bool)
  (t : Tree) (F : Nat)

theorem GroupC_dl (L k : Nat) :
    GroupC t F L k = GroupC t F (dl F L k).2 (dl F L k).1 := by
  induction L generalizing k with
  | zero => simp [dl]
  | succ L ih =>
    by_cases h : nodeOf k (L + 1) < F
    · simp [dl, h]
    · simp only [dl, if_neg h]
      rw [← ih]
      funext g
      simp only [GroupC, if_neg h]

theorem LinkedC_dl (L k : Nat) :
    LinkedC hf ld data wd t F L k = LinkedC hf ld data wd t F (dl F L k).2 (dl F L k).1 := by
  induction L generalizing k with
  | zero => simp [dl]
  | succ L ih =>
    by_cases h : nodeOf k (L + 1) < F
    · simp [dl, h]
    · simp only [dl, if_neg h]
      rw [← ih]
      funext owed isRoot g
      simp only [LinkedC, if_neg h]

theorem ReachC_dl (L k : Nat) :
    ReachC t F L k = ReachC t F (dl F L k).2 (dl F L k).1 := by
  induction L generalizing k with
  | zero => simp [dl]
  | succ L ih =>
    by_cases h : nodeOf k (L + 1) < F
    · simp [dl, h]
    · simp only [dl, if_neg h]
      rw [← ih]
      funext rs g
      simp only [ReachC, if_neg h]

theorem dl_start (F bs L k : Nat) :
    startOf (dl F L k).1 ((dl F L k).2 + bs) = startOf k (L + bs) := by
  induction L generalizing k with
  | zero => simp [dl]
  | succ L ih =>
    by_cases h : nodeOf k (L + 1) < F
    · simp [dl, h]
    · simp only [dl, if_neg h]
      rw [ih, PlanPre.child_ls]

theorem dl_end_le (F bs L k : Nat) :
    endOf (dl F L k).1 ((dl F L k).2 + bs) ≤ endOf k (L + bs) := by
  induction L generalizing k with
  | zero => simp [dl]
  | succ L ih =>
    by_cases h : nodeOf k (L + 1) < F
    · simp [dl, h]
    · simp only [dl, if_neg h]
      have := ih (2 * k)
      rw [PlanPre.child_le] at this
      have := midOf_lt_endOf k (L + 1 + bs)
      omega

end dl

/-! ## groups: identity and range -/

section group
variable (hf : HashFns H) (ld : Nat → Res IoErr (Option (H × H))) (data : List UInt8) (wd : Bool)
  (t : Tree) (F : Nat)

/-- a linked group is a group -/
theorem LinkedC.group : ∀ (L k : Nat) (owed : H) (isRoot : Bool) (g : Nat × Nat),
    LinkedC hf ld data wd t F L k owed isRoot g → GroupC t F L k g := by
  intro L
  induction L with
  | zero =>
    intro k owed isRoot g h
    simp only [LinkedC] at h
    simp only [GroupC]
    refine ⟨h.1, ?_⟩
    have h := h.2
    split at h
    · rw [if_pos ‹_›]
      split at h
      · have h := h.2
        split at h
        · rw [if_pos ‹_›]; exact h.1
        · rw [if_neg ‹_›]; exact h.1
      · exact h.elim
    · rw [if_neg ‹_›]; exact h.1
  | succ L ih =>
    intro k owed isRoot g h
    simp only [LinkedC] at h
    simp only [GroupC]
    split at h
    · rw [if_pos ‹_›]
      split at h
      · have h := h.2
        split at h
        · rw [if_pos ‹_›]; exact ih _ _ _ _ h
        · rw [if_neg ‹_›]; exact ih _ _ _ _ h
      · exact h.elim
    · rw [if_neg ‹_›]; exact ih _ _ _ _ h

/-- a group below `(k, L)` lies inside the chunk range of `(k, L)` -/
theorem GroupC.range : ∀ (L k : Nat) (g : Nat × Nat), GroupC t F L k g →
    startOf k (L + t.bs) ≤ g.1 ∧ g.1 < endOf k (L + t.bs) ∧ g.2 ≤ endOf k (L + t.bs) := by
  intro L
  induction L with
  | zero =>
    intro k g h
    have hsm := startOf_lt_midOf k t.bs
    have hme := midOf_lt_endOf k t.bs
    have hce := chunksOf_hi_le k t.bs t.size
    simp only [GroupC] at h
    have h := h.2
    simp only [Nat.zero_add]
    split at h
    · split at h
      · rw [h]; simp only; omega
      · rw [h]; simp only; omega
    · rw [h]; simp only; omega
  | succ L ih =>
    intro k g h
    have hsm := startOf_lt_midOf k (L + 1 + t.bs)
    have hme := midOf_lt_endOf k (L + 1 + t.bs)
    simp only [GroupC] at h
    split at h
    · split at h
      · have := ih _ _ h
        rw [PlanPre.child_ls, PlanPre.child_le] at this; omega
      · have := ih _ _ h
        rw [PlanPre.child_rs, PlanPre.child_re] at this; omega
    · have := ih _ _ h
      rw [PlanPre.child_ls, PlanPre.child_le] at this; omega

/-- without the data check the data file does not matter -/
theorem LinkedC_false_data (data data' : List UInt8) :
    ∀ L k, LinkedC hf ld data false t F L k = LinkedC hf ld data' false t F L k := by
  intro L
  induction L with
  | zero =>
    intro k
    funext owed isRoot g
    simp only [LinkedC, LeafOk, Bool.false_eq_true, false_implies]
  | succ L ih =>
    intro k
    funext owed isRoot g
    simp only [LinkedC, ih]

end group

/-! ## reached = touched by the query -/

section reach
open PlanPre
variable {t : Tree} {F : Nat}

theorem chunksOf_hi_eq {size : Nat} (hsz : 0 < size) (e : Nat) :
    chunksOf (min (toBytes e) size) = min e (nChunks size) := by
  unfold chunksOf toBytes nChunks
  split <;> omega

/-- a reached group contains a selected chunk (`Tight`, `Bounded`: the restricted query has no
redundant boundaries outside the node) -/
theorem reach_touched_aux (g : Geo t.size t.bs F) (hsz : 0 < t.size) :
    ∀ (L k : Nat) (rs : Ranges) (gr : Nat × Nat), Ranges.WF rs = true →
      Tight rs (startOf k (L + t.bs)) → Bounded t.size rs (endOf k (L + t.bs)) →
      GroupC t F L k gr → ReachC t F L k rs gr →
      ∃ c, gr.1 ≤ c ∧ c < gr.2 ∧ Spec.selected t.size rs c = true ∧
        startOf k (L + t.bs) ≤ c ∧ c < endOf k (L + t.bs) := by
  intro L
  induction L with
  | zero =>
    intro k rs gr hwf ht hb hgr hre
    simp only [Nat.zero_add] at ht hb ⊢
    simp only [GroupC] at hgr
    simp only [ReachC] at hre
    obtain ⟨hk, hgr⟩ := hgr
    obtain ⟨hne, hre⟩ := hre
    have hsm := startOf_lt_midOf k t.bs
    have hme := midOf_lt_endOf k t.bs
    have hlev : 0 + t.bs ≤ 64 := g.level_le hk
    have hsN : startOf k t.bs < nChunks t.size := by
      have := g.start_lt_nChunks (k := k) (L := 0) (Nat.lt_of_le_of_lt (startOf_le_nodeOf k 0) hk)
      simpa using this
    by_cases hm : toBytes (midOf k t.bs) < t.size
    · have hmN : midOf k t.bs < nChunks t.size := lt_nChunks_of_toBytes_lt hm
      have hwfs := C14.splitInner_wf (startOf k t.bs) (midOf k t.bs) hwf
      have hre := hre hm
      have hsp := splitNode_eq (k := k) (L := 0) t.bs rs hlev
      simp only [Nat.zero_add] at hsp
      rw [hsp] at hre
      simp only [lq, rq, Nat.zero_add] at hre
      rw [if_pos hm] at hgr
      by_cases hg : gr.1 < midOf k t.bs
      · rw [if_pos hg] at hgr hre
        obtain ⟨c, h1, h2, h3⟩ := leaf_witness (size := t.size) hwfs.1 hre
          (tight_left (midOf k t.bs) ht) (Or.inr (left_lt_mid rs (startOf k t.bs) (by omega)))
          hsm hsN
        have hc : c < midOf k t.bs := by omega
        rw [selected_left hwf h1 hc hmN] at h3
        rw [hgr]
        exact ⟨c, h1, hc, h3, h1, by omega⟩
      · rw [if_neg hg] at hgr hre
        obtain ⟨c, h1, h2, h3⟩ := leaf_witness hwfs.2 hre
          (tight_right hwf (startOf k t.bs) (midOf k t.bs))
          (bounded_right hwf (startOf k t.bs) (midOf k t.bs) (by omega) hb) hme hmN
        rw [selected_right hwf h1] at h3
        rw [hgr, chunksOf_hi_eq hsz]
        exact ⟨c, h1, h2, h3, by omega, by omega⟩
    · rw [if_neg hm] at hgr
      obtain ⟨c, h1, h2, h3⟩ := leaf_witness hwf hne ht hb (by omega) hsN
      rw [hgr, chunksOf_hi_eq hsz]
      exact ⟨c, h1, h2, h3, h1, by omega⟩
  | succ L ih =>
    intro k rs gr hwf ht hb hgr hre
    simp only [GroupC] at hgr
    simp only [ReachC] at hre
    have hsm := startOf_lt_midOf k (L + 1 + t.bs)
    have hme := midOf_lt_endOf k (L + 1 + t.bs)
    by_cases hk : nodeOf k (L + 1) < F
    · rw [if_pos hk] at hgr hre
      have hmN := g.mid_lt_nChunks hk
      have hwfs := C14.splitInner_wf (startOf k (L + 1 + t.bs)) (midOf k (L + 1 + t.bs)) hwf
      obtain ⟨hne, hre⟩ := hre
      rw [splitNode_eq t.bs rs (g.level_le hk)] at hre
      simp only [lq, rq] at hre
      by_cases hg : gr.1 < midOf k (L + 1 + t.bs)
      · rw [if_pos hg] at hgr hre
        obtain ⟨c, h1, h2, h3, h4, h5⟩ := ih (2 * k) _ gr hwfs.1
          (by rw [child_ls]; exact tight_left _ ht)
          (Or.inr (by rw [child_le]; exact left_lt_mid rs _ (by omega))) hgr hre
        rw [child_ls] at h4; rw [child_le] at h5
        rw [selected_left hwf h4 h5 hmN] at h3
        exact ⟨c, h1, h2, h3, h4, by omega⟩
      · rw [if_neg hg] at hgr hre
        obtain ⟨c, h1, h2, h3, h4, h5⟩ := ih (2 * k + 1) _ gr hwfs.2
          (by rw [child_rs]; exact tight_right hwf _ _)
          (by rw [child_re]; exact bounded_right hwf _ _ (by omega) hb) hgr hre
        rw [child_rs] at h4; rw [child_re] at h5
        rw [selected_right hwf h4] at h3
        exact ⟨c, h1, h2, h3, by omega, h5⟩
    · rw [if_neg hk] at hgr hre
      have hmN := g.skip_mid_ge (Nat.le_of_not_lt hk)
      obtain ⟨c, h1, h2, h3, h4, h5⟩ := ih (2 * k) rs gr hwf (by rw [child_ls]; exact ht)
        (Or.inl (by rw [child_le]; exact hmN)) hgr hre
      rw [child_ls] at h4; rw [child_le] at h5
      exact ⟨c, h1, h2, h3, h4, by omega⟩

/-- a group that contains a selected chunk is reached -/
theorem touched_reach_aux (g : Geo t.size t.bs F) :
    ∀ (L k : Nat) (rs : Ranges) (gr : Nat × Nat), Ranges.WF rs = true → GroupC t F L k gr →
      (∃ c, gr.1 ≤ c ∧ c < gr.2 ∧ Spec.selected t.size rs c = true) → ReachC t F L k rs gr := by
  intro L
  induction L with
  | zero =>
    intro k rs gr hwf hgr ⟨c, h1, h2, h3⟩
    simp only [GroupC] at hgr
    simp only [ReachC]
    obtain ⟨hk, hgr⟩ := hgr
    refine ⟨ne_nil_of_selected h3, fun hm => ?_⟩
    have hlev : 0 + t.bs ≤ 64 := g.level_le hk
    have hmN : midOf k t.bs < nChunks t.size := lt_nChunks_of_toBytes_lt hm
    have hsp := splitNode_eq (k := k) (L := 0) t.bs rs hlev
    simp only [Nat.zero_add] at hsp
    rw [hsp]
    simp only [lq, rq, Nat.zero_add]
    rw [if_pos hm] at hgr
    by_cases hg : gr.1 < midOf k t.bs
    · rw [if_pos hg] at hgr ⊢
      rw [hgr] at h1 h2
      simp only at h1 h2
      apply ne_nil_of_selected (size := t.size) (c := c)
      rw [selected_left hwf h1 h2 hmN]; exact h3
    · rw [if_neg hg] at hgr ⊢
      rw [hgr] at h1
      simp only at h1
      apply ne_nil_of_selected (size := t.size) (c := c)
      rw [selected_right hwf h1]; exact h3
  | succ L ih =>
    intro k rs gr hwf hgr ⟨c, h1, h2, h3⟩
    simp only [GroupC] at hgr
    simp only [ReachC]
    by_cases hk : nodeOf k (L + 1) < F
    · rw [if_pos hk] at hgr ⊢
      have hmN := g.mid_lt_nChunks hk
      have hwfs := C14.splitInner_wf (startOf k (L + 1 + t.bs)) (midOf k (L + 1 + t.bs)) hwf
      refine ⟨ne_nil_of_selected h3, ?_⟩
      rw [splitNode_eq t.bs rs (g.level_le hk)]
      simp only [lq, rq]
      by_cases hg : gr.1 < midOf k (L + 1 + t.bs)
      · rw [if_pos hg] at hgr ⊢
        have hr := GroupC.range t F L (2 * k) gr hgr
        rw [child_ls, child_le] at hr
        refine ih (2 * k) _ gr hwfs.1 hgr ⟨c, h1, h2, ?_⟩
        rw [selected_left hwf (by omega) (by omega) hmN]; exact h3
      · rw [if_neg hg] at hgr ⊢
        refine ih (2 * k + 1) _ gr hwfs.2 hgr ⟨c, h1, h2, ?_⟩
        rw [selected_right hwf (by omega)]; exact h3
    · rw [if_neg hk] at hgr ⊢
      exact ih (2 * k) rs gr hwf hgr ⟨c, h1, h2, h3⟩

end reach

/-! ## a linked group holds true blob bytes -/

/-- the stored bytes of the reported chunk range `g` -/
def groupBytes (data : List UInt8) (size : Nat) (g : Nat × Nat) : List UInt8 :=
  bytesAt data (toBytes g.1) (min (toBytes g.2) size)

theorem min_chunksOf_hi (a size : Nat) :
    min (toBytes (chunksOf (min (toBytes a) size))) size = min (toBytes a) size := by
  unfold chunksOf toBytes
  split <;> omega

section truth
open C01
variable {hf : HashFns H} {ld : Nat → Res IoErr (Option (H × H))} {data d : List UInt8}
  {t : Tree} {F : Nat}

/-- if the hash owed to `(k, L)` is a chaining value of the true tree of `d`, the stored bytes of a
linked group are the bytes of a subtree interval of `d`, at the same offset -/
theorem linked_trueLeaf (cf : CollisionFree hf) (hd : d.length ≤ 2 ^ 64 * 1024) :
    ∀ (L k : Nat) (owed : H) (isRoot : Bool) (g : Nat × Nat), TrueCv hf d owed →
      LinkedC hf ld data true t F L k owed isRoot g →
      TrueLeaf d (toBytes g.1) (groupBytes data t.size g) := by
  intro L
  induction L with
  | zero =>
    intro k owed isRoot g ht h
    simp only [LinkedC] at h
    have h := h.2
    split at h
    · rename_i hm
      split at h
      · rename_i lh rh hl
        obtain ⟨hp, h⟩ := h
        obtain ⟨-, hl', hr'⟩ := parent_check cf hd ht hp.symm
        split at h
        · obtain ⟨hg, hlf⟩ := h
          subst hg
          have := leaf_check cf hl' (hlf rfl).symm
          unfold groupBytes
          simp only
          rwa [show min (toBytes (midOf k t.bs)) t.size = toBytes (midOf k t.bs) by omega]
        · obtain ⟨hg, hlf⟩ := h
          subst hg
          have := leaf_check cf hr' (hlf rfl).symm
          unfold groupBytes
          simp only
          rwa [min_chunksOf_hi]
      · exact h.elim
    · obtain ⟨hg, hlf⟩ := h
      subst hg
      have := leaf_check cf ht (hlf rfl).symm
      unfold groupBytes
      simp only
      rwa [min_chunksOf_hi]
  | succ L ih =>
    intro k owed isRoot g ht h
    simp only [LinkedC] at h
    split at h
    · split at h
      · obtain ⟨hp, h⟩ := h
        obtain ⟨-, hl', hr'⟩ := parent_check cf hd ht hp.symm
        split at h
        · exact ih _ _ _ _ hl' h
        · exact ih _ _ _ _ hr' h
      · exact h.elim
    · exact ih _ _ _ _ ht h

theorem bytesAt_length {data : List UInt8} {s e : Nat} (h : e ≤ data.length) :
    (bytesAt data s e).length = e - s := by
  simp only [bytesAt, List.length_take, List.length_drop]; omega

/-- the stored bytes of a linked group equal the blob's bytes at the same place, and lie inside
the blob -/
theorem linked_true_bytes (cf : CollisionFree hf) (hd : d.length ≤ 2 ^ 64 * 1024)
    (hlen : t.size ≤ data.length) (L k : Nat) (owed : H) (isRoot : Bool) (g : Nat × Nat)
    (ht : TrueCv hf d owed) (h : LinkedC hf ld data true t F L k owed isRoot g) :
    groupBytes data t.size g = groupBytes d t.size g ∧
      toBytes g.1 + (groupBytes data t.size g).length ≤ d.length := by
  have hl := linked_trueLeaf cf hd L k owed isRoot g ht h
  obtain ⟨-, h2, h3⟩ := hl.spec
  have hlen' : (groupBytes data t.size g).length = min (toBytes g.2) t.size - toBytes g.1 :=
    bytesAt_length (by omega)
  refine ⟨?_, h2⟩
  rw [hlen'] at h3
  exact h3

end truth

/-! ## the intact store: every group is linked -/

section intact
open C01 PlanPre
variable {hf : HashFns H} {ld : Nat → Res IoErr (Option (H × H))} {d : List UInt8}
  {t : Tree} {F : Nat}

theorem midOf_start (k M : Nat) : midOf k M = startOf k M + 2 ^ M := rfl

/-- the parent hash of the true pair of an existing node is the chaining value of its interval -/
theorem cv_parent (hf : HashFns H) (d : List UInt8) {k M : Nat} (hM : M < 64)
    (hm : midOf k M < nChunks d.length) (r : Bool) :
    hf.parentCv (cv hf d (startOf k M) (midOf k M) false)
        (cv hf d (midOf k M) (min (endOf k M) (nChunks d.length)) false) r =
      cv hf d (startOf k M) (min (endOf k M) (nChunks d.length)) r := by
  have hp := two_pow_pos' M
  have e1 := midOf_start k M
  have e2 := Offsets.endOf_start k M
  have e3 : (2 : Nat) ^ (M + 1) = 2 * 2 ^ M := Nat.pow_succ'
  have hpos : 0 < d.length := by
    apply Nat.pos_of_ne_zero
    intro h0
    simp [nChunks, h0] at hm
    omega
  have hn1 := nChunks_lt hpos
  have hle : startOf k M + 2 ^ M ≤ min (endOf k M) (nChunks d.length) := by omega
  have h1 : 2 ^ M * 1024 < (slice d (startOf k M) (min (endOf k M) (nChunks d.length))).length := by
    rw [slice_length]
    generalize 2 ^ M = p at *
    omega
  have h2 : (slice d (startOf k M) (min (endOf k M) (nChunks d.length))).length
      ≤ 2 ^ (M + 1) * 1024 := by
    rw [slice_length, e3]
    generalize 2 ^ M = p at *
    omega
  unfold cv
  rw [hashSubtree_parent h1 h2 hM, slice_take hle, slice_drop hle, ← e1]

theorem bytesAt_eq_slice (d : List UInt8) (a b : Nat) :
    bytesAt d (toBytes a) (min (toBytes b) d.length) = slice d a (min b (nChunks d.length)) := by
  unfold bytesAt slice toBytes
  rw [List.take_eq_take_iff]
  simp only [List.length_drop, nChunks]
  omega

theorem bytesAt_eq_slice_full (d : List UInt8) (a b : Nat) :
    bytesAt d (toBytes a) (toBytes b) = slice d a b := by
  unfold bytesAt slice toBytes
  rw [show b * 1024 - a * 1024 = (b - a) * 1024 by omega]

theorem level_lt_of_mid {size k M : Nat} (hs : size ≤ 2 ^ 63) (hm : toBytes (midOf k M) < size) :
    M < 64 := by
  have e1 := midOf_start k M
  unfold toBytes at hm
  have : 2 ^ M < 2 ^ 64 := by
    have : (2 : Nat) ^ 63 < 2 ^ 64 := by decide
    omega
  exact (Nat.pow_lt_pow_iff_right (a := 2) (by decide)).1 this

/-- in a store whose persisted nodes hold the true pairs and whose data is the blob, every group
below `(k, L)` is linked to the true chaining value of `(k, L)` -/
theorem intact_aux (g : Geo t.size t.bs F) (hsz : t.size = d.length) (hs : d.length ≤ 2 ^ 63)
    (wd : Bool)
    (hld : ∀ k M, t.bs ≤ M → midOf k M < nChunks d.length →
      ld (nodeOf k M) = .ok (some (Spec.pair hf d k M))) :
    ∀ (L k : Nat) (isRoot : Bool) (gr : Nat × Nat), GroupC t F L k gr →
      LinkedC hf ld d wd t F L k
        (cv hf d (startOf k (L + t.bs)) (min (endOf k (L + t.bs)) (nChunks d.length)) isRoot)
        isRoot gr := by
  intro L
  induction L with
  | zero =>
    intro k isRoot gr hgr
    simp only [GroupC] at hgr
    obtain ⟨hk, hgr⟩ := hgr
    simp only [LinkedC, Nat.zero_add]
    refine ⟨hk, ?_⟩
    by_cases hm : toBytes (midOf k t.bs) < t.size
    · rw [if_pos hm] at hgr ⊢
      have hmN : midOf k t.bs < nChunks d.length := by
        rw [← hsz]; exact lt_nChunks_of_toBytes_lt hm
      have hM : t.bs < 64 := level_lt_of_mid (by omega) hm
      rw [hld k t.bs (Nat.le_refl _) hmN]
      simp only [Spec.pair]
      refine ⟨cv_parent hf d hM hmN isRoot, ?_⟩
      by_cases hg : gr.1 < midOf k t.bs
      · rw [if_pos hg] at hgr ⊢
        refine ⟨hgr, fun _ => ?_⟩
        rw [bytesAt_eq_slice_full]; rfl
      · rw [if_neg hg] at hgr ⊢
        refine ⟨hgr, fun _ => ?_⟩
        rw [hsz, bytesAt_eq_slice]; rfl
    · rw [if_neg hm] at hgr ⊢
      refine ⟨hgr, fun _ => ?_⟩
      rw [hsz, bytesAt_eq_slice]; rfl
  | succ L ih =>
    intro k isRoot gr hgr
    simp only [GroupC] at hgr
    simp only [LinkedC]
    by_cases hk : nodeOf k (L + 1) < F
    · rw [if_pos hk] at hgr ⊢
      have hm := g.mid_lt hk
      have hmN : midOf k (L + 1 + t.bs) < nChunks d.length := by
        rw [← hsz]; exact lt_nChunks_of_toBytes_lt hm
      have hM : L + 1 + t.bs < 64 := level_lt_of_mid (by omega) hm
      rw [hld k (L + 1 + t.bs) (by omega) hmN]
      simp only [Spec.pair]
      refine ⟨cv_parent hf d hM hmN isRoot, ?_⟩
      by_cases hg : gr.1 < midOf k (L + 1 + t.bs)
      · rw [if_pos hg] at hgr ⊢
        have := ih (2 * k) false gr hgr
        rw [child_ls, child_le, show min (midOf k (L + 1 + t.bs)) (nChunks d.length)
          = midOf k (L + 1 + t.bs) by omega] at this
        exact this
      · rw [if_neg hg] at hgr ⊢
        have := ih (2 * k + 1) false gr hgr
        rw [child_rs, child_re] at this
        exact this
    · rw [if_neg hk] at hgr ⊢
      have hmN := g.skip_mid_ge (Nat.le_of_not_lt hk)
      rw [hsz] at hmN
      have hme := midOf_lt_endOf k (L + 1 + t.bs)
      have := ih (2 * k) isRoot gr hgr
      rw [child_ls, child_le] at this
      rw [show min (endOf k (L + 1 + t.bs)) (nChunks d.length)
        = min (midOf k (L + 1 + t.bs)) (nChunks d.length) by omega]
      exact this

end intact

/-! ## every chunk group of the tree is a group -/

section allgroups
open PlanPre

theorem startOf_shift (k L bs : Nat) : startOf k (L + bs) = startOf k L * 2 ^ bs := by
  unfold startOf
  rw [show L + bs + 1 = L + 1 + bs by omega, Nat.pow_add, Nat.mul_assoc]

theorem midOf_shift (k L bs : Nat) : midOf k (L + bs) = midOf k L * 2 ^ bs := by
  have e1 : midOf k (L + bs) = startOf k (L + bs) + 2 ^ (L + bs) := rfl
  have e2 : midOf k L = startOf k L + 2 ^ L := rfl
  rw [e1, e2, startOf_shift, Nat.pow_add, Nat.add_mul]

theorem endOf_shift (k L bs : Nat) : endOf k (L + bs) = endOf k L * 2 ^ bs := by
  unfold endOf
  rw [show L + bs + 1 = L + 1 + bs by omega, Nat.pow_add, Nat.mul_assoc]

theorem chunksOf_min (e size : Nat) :
    chunksOf (min (toBytes e) size) = min e (chunksOf size) := by
  unfold chunksOf toBytes
  split <;> split <;> omega

/-- the chunk range of chunk group `i` -/
def groupRange (t : Tree) (i : Nat) : Nat × Nat :=
  (i * 2 ^ t.bs, min ((i + 1) * 2 ^ t.bs) (chunksOf t.size))

theorem ite_prop_pos {c : Prop} [Decidable c] {A B : Prop} (hc : c) (h : A) :
    if c then A else B := by rw [if_pos hc]; exact h

theorem ite_prop_neg {c : Prop} [Decidable c] {A B : Prop} (hc : ¬ c) (h : B) :
    if c then A else B := by rw [if_neg hc]; exact h

theorem group_exists_aux (size bs F : Nat) (g : Geo size bs F) :
    ∀ (L k i : Nat), startOf k L < F → startOf k L ≤ i → i < endOf k L →
      i < Tree.blocks ⟨size, bs⟩ → GroupC ⟨size, bs⟩ F L k (groupRange ⟨size, bs⟩ i) := by
  have hp := two_pow_pos' bs
  intro L
  induction L with
  | zero =>
    intro k i hF hlo hhi hib
    have es := startOf_shift k 0 bs
    have em := midOf_shift k 0 bs
    have ee := endOf_shift k 0 bs
    simp only [Nat.zero_add] at es em ee
    have e0 : startOf k 0 = 2 * k := Offsets.startOf_zero k
    have e1 : midOf k 0 = 2 * k + 1 := by simp [midOf]; omega
    have e2 : endOf k 0 = 2 * k + 2 := by simp [endOf]; omega
    have e3 : nodeOf k 0 = 2 * k := Offsets.nodeOf_zero k
    rw [e0] at es hF hlo; rw [e1] at em; rw [e2] at ee hhi
    simp only [GroupC]
    refine ⟨by omega, ?_⟩
    have hcm := chunksOf_min (endOf k bs) size
    have hlt : 2 * k * 2 ^ bs < (2 * k + 1) * 2 ^ bs := (Nat.mul_lt_mul_right hp).2 (by omega)
    have hlt2 : (2 * k + 1) * 2 ^ bs < (2 * k + 2) * 2 ^ bs := (Nat.mul_lt_mul_right hp).2 (by omega)
    by_cases hm : toBytes (midOf k bs) < size
    · refine ite_prop_pos hm ?_
      have hmc : (2 * k + 1) * 2 ^ bs ≤ chunksOf size := by
        rw [← em]; unfold toBytes at hm; unfold chunksOf; split <;> omega
      by_cases hi : i = 2 * k
      · subst hi
        refine ite_prop_pos (show 2 * k * 2 ^ bs < midOf k bs by rw [em]; exact hlt) ?_
        show (2 * k * 2 ^ bs, min ((2 * k + 1) * 2 ^ bs) (chunksOf size)) = (startOf k bs, midOf k bs)
        rw [es, em, Nat.min_eq_left hmc]
      · have hi : i = 2 * k + 1 := by omega
        subst hi
        refine ite_prop_neg (show ¬ ((2 * k + 1) * 2 ^ bs < midOf k bs) by rw [em]; omega) ?_
        show ((2 * k + 1) * 2 ^ bs, min ((2 * k + 2) * 2 ^ bs) (chunksOf size)) =
          (midOf k bs, chunksOf (min (toBytes (endOf k bs)) size))
        rw [hcm, em, ee]
    · refine ite_prop_neg hm ?_
      have hb : ¬ (2 * k + 1 < Tree.blocks ⟨size, bs⟩) := by
        rw [Offsets.lt_blocks_iff size bs (2 * k + 1) (by omega)]
        unfold toBytes at hm
        rw [em, Nat.mul_assoc, ← Nat.pow_add 2 bs 10] at hm
        omega
      have hi : i = 2 * k := by omega
      subst hi
      have hcm' : chunksOf size ≤ (2 * k + 1) * 2 ^ bs := by
        have := chunksOf_mono (Nat.le_of_not_lt hm)
        rwa [chunksOf_toBytes, em] at this
      show (2 * k * 2 ^ bs, min ((2 * k + 1) * 2 ^ bs) (chunksOf size)) =
        (startOf k bs, chunksOf (min (toBytes (endOf k bs)) size))
      rw [hcm, es, ee, Nat.min_eq_right hcm', Nat.min_eq_right (by omega)]
  | succ L ih =>
    intro k i hF hlo hhi hib
    have em := midOf_shift k (L + 1) bs
    simp only [GroupC]
    by_cases hk : nodeOf k (L + 1) < F
    · refine ite_prop_pos hk ?_
      by_cases hi : i < midOf k (L + 1)
      · refine ite_prop_pos (show i * 2 ^ bs < midOf k (L + 1 + bs) by
          rw [em]; exact (Nat.mul_lt_mul_right hp).2 hi) ?_
        exact ih (2 * k) i (by rw [Bits.startOf_left]; exact hF) (by rw [Bits.startOf_left]; exact hlo)
          (by rw [Bits.endOf_left]; exact hi) hib
      · refine ite_prop_neg (show ¬ (i * 2 ^ bs < midOf k (L + 1 + bs)) by
          rw [em]; intro h; exact hi ((Nat.mul_lt_mul_right hp).1 h)) ?_
        exact ih (2 * k + 1) i (g.right_exists hk) (by rw [Bits.startOf_right]; omega)
          (by rw [Bits.endOf_right]; exact hhi) hib
    · refine ite_prop_neg hk ?_
      have h1 := g.ge_blocks
      have h2 : nodeOf k (L + 1) + 1 = midOf k (L + 1) := by rw [nodeOf_succ, midOf_eq]
      exact ih (2 * k) i (by rw [Bits.startOf_left]; exact hF) (by rw [Bits.startOf_left]; exact hlo)
        (by rw [Bits.endOf_left]; omega) hib

/-- conversely every group below `(k, L)` is the chunk range of one of the chunk groups of the
tree -/
theorem group_is_range_aux (size bs F : Nat) (g : Geo size bs F) :
    ∀ (L k : Nat) (gr : Nat × Nat), startOf k L < F → GroupC ⟨size, bs⟩ F L k gr →
      ∃ i, startOf k L ≤ i ∧ i < endOf k L ∧ i < Tree.blocks ⟨size, bs⟩ ∧
        gr = groupRange ⟨size, bs⟩ i := by
  have hp := two_pow_pos' bs
  intro L
  induction L with
  | zero =>
    intro k gr hF hgr
    have es := startOf_shift k 0 bs
    have em := midOf_shift k 0 bs
    have ee := endOf_shift k 0 bs
    simp only [Nat.zero_add] at es em ee
    have e0 : startOf k 0 = 2 * k := Offsets.startOf_zero k
    have e1 : midOf k 0 = 2 * k + 1 := by simp [midOf]; omega
    have e2 : endOf k 0 = 2 * k + 2 := by simp [endOf]; omega
    rw [e0] at es hF; rw [e1] at em; rw [e2] at ee
    rw [e0, e2]
    have hFb := g.le_blocks
    simp only [GroupC] at hgr
    obtain ⟨-, hgr⟩ := hgr
    have hcm := chunksOf_min (endOf k bs) size
    by_cases hm : toBytes (midOf k bs) < size
    · rw [if_pos hm] at hgr
      have hmc : (2 * k + 1) * 2 ^ bs ≤ chunksOf size := by
        rw [← em]; unfold toBytes at hm; unfold chunksOf; split <;> omega
      have hb : 2 * k + 1 < Tree.blocks ⟨size, bs⟩ := by
        rw [Offsets.lt_blocks_iff size bs (2 * k + 1) (by omega)]
        unfold toBytes at hm
        rw [em, Nat.mul_assoc, ← Nat.pow_add 2 bs 10] at hm
        exact hm
      split at hgr
      · refine ⟨2 * k, by omega, by omega, by omega, ?_⟩
        rw [hgr]
        show (startOf k bs, midOf k bs) = (2 * k * 2 ^ bs, min ((2 * k + 1) * 2 ^ bs) (chunksOf size))
        rw [es, em, Nat.min_eq_left hmc]
      · refine ⟨2 * k + 1, by omega, by omega, hb, ?_⟩
        rw [hgr]
        show (midOf k bs, chunksOf (min (toBytes (endOf k bs)) size)) =
          ((2 * k + 1) * 2 ^ bs, min ((2 * k + 2) * 2 ^ bs) (chunksOf size))
        rw [hcm, em, ee]
    · rw [if_neg hm] at hgr
      have hlt2 : (2 * k + 1) * 2 ^ bs < (2 * k + 2) * 2 ^ bs :=
        (Nat.mul_lt_mul_right hp).2 (by omega)
      have hcm' : chunksOf size ≤ (2 * k + 1) * 2 ^ bs := by
        have := chunksOf_mono (Nat.le_of_not_lt hm)
        rwa [chunksOf_toBytes, em] at this
      refine ⟨2 * k, by omega, by omega, by omega, ?_⟩
      rw [hgr]
      show (startOf k bs, chunksOf (min (toBytes (endOf k bs)) size)) =
        (2 * k * 2 ^ bs, min ((2 * k + 1) * 2 ^ bs) (chunksOf size))
      rw [hcm, es, ee, Nat.min_eq_right hcm', Nat.min_eq_right (by omega)]
  | succ L ih =>
    intro k gr hF hgr
    have hsm := startOf_lt_midOf k (L + 1)
    have hme := midOf_lt_endOf k (L + 1)
    simp only [GroupC] at hgr
    by_cases hk : nodeOf k (L + 1) < F
    · rw [if_pos hk] at hgr
      split at hgr
      · obtain ⟨i, h1, h2, h3, h4⟩ := ih (2 * k) gr (by rw [Bits.startOf_left]; exact hF) hgr
        rw [Bits.startOf_left] at h1; rw [Bits.endOf_left] at h2
        exact ⟨i, h1, by omega, h3, h4⟩
      · obtain ⟨i, h1, h2, h3, h4⟩ := ih (2 * k + 1) gr (g.right_exists hk) hgr
        rw [Bits.startOf_right] at h1; rw [Bits.endOf_right] at h2
        exact ⟨i, by omega, h2, h3, h4⟩
    · rw [if_neg hk] at hgr
      obtain ⟨i, h1, h2, h3, h4⟩ := ih (2 * k) gr (by rw [Bits.startOf_left]; exact hF) hgr
      rw [Bits.startOf_left] at h1; rw [Bits.endOf_left] at h2
      exact ⟨i, h1, by omega, h3, h4⟩

end allgroups

/-! ## every existing node of level `≥ bs` is in the persisted list -/

section persisted

theorem mem_preNodes_anc (n minL M k : Nat) (hM : minL ≤ M) (hm : midOf k M < n) :
    ∀ j, nodeOf k M ∈ preNodes n minL (M + j) (k / 2 ^ j) := by
  intro j
  induction j with
  | zero =>
    simp only [Nat.add_zero, Nat.pow_zero, Nat.div_one]
    cases M with
    | zero =>
      have : minL = 0 := by omega
      simp [preNodes, hm, this]
    | succ M =>
      simp only [preNodes, if_pos hm, ge_iff_le, if_pos hM]
      simp
  | succ j ih =>
    have hp : k / 2 ^ j / 2 = k / 2 ^ (j + 1) := by
      rw [Nat.div_div_eq_div_mul, ← Nat.pow_succ]
    rw [show M + (j + 1) = M + j + 1 by omega]
    simp only [preNodes]
    rcases Nat.mod_two_eq_zero_or_one (k / 2 ^ j) with h0 | h1
    · have hc : 2 * (k / 2 ^ (j + 1)) = k / 2 ^ j := by omega
      split
      · rw [hc]
        exact List.mem_append_left _ (List.mem_append_right _ ih)
      · rw [hc]; exact ih
    · have hc : 2 * (k / 2 ^ (j + 1)) + 1 = k / 2 ^ j := by omega
      have hmid : midOf (k / 2 ^ (j + 1)) (M + j + 1) < n := by
        rw [← Bits.startOf_right, hc]
        have h1 : k / 2 ^ j * 2 ^ j ≤ k := Nat.div_mul_le_self k (2 ^ j)
        have h2 : startOf (k / 2 ^ j) (M + j) = k / 2 ^ j * 2 ^ j * 2 ^ (M + 1) := by
          unfold startOf
          rw [show M + j + 1 = j + (M + 1) by omega, Nat.pow_add, Nat.mul_assoc]
        have h3 : startOf k M = k * 2 ^ (M + 1) := rfl
        have h4 := startOf_lt_midOf k M
        have h5 : k / 2 ^ j * 2 ^ j * 2 ^ (M + 1) ≤ k * 2 ^ (M + 1) := Nat.mul_le_mul_right _ h1
        omega
      rw [if_pos hmid, hc]
      exact List.mem_append_right _ ih

/-- every existing node `(k, M)` of level `M ≥ bs` is persisted -/
theorem mem_persistedPre (size bs k M : Nat) (hs : size ≤ 2 ^ 63) (hM : bs ≤ M)
    (hm : midOf k M < nChunks size) : nodeOf k M ∈ persistedPre size bs := by
  unfold persistedPre
  have hn := Offsets.log2ceil_spec 64 (nChunks size) (Offsets.nChunks_le size hs)
  generalize log2ceil 64 (nChunks size) = Hh at *
  have e1 : midOf k M = startOf k M + 2 ^ M := rfl
  have e3 : startOf k M = k * 2 ^ (M + 1) := rfl
  have hlt : 2 ^ M < 2 ^ Hh := by omega
  have hMH : M < Hh := (Nat.pow_lt_pow_iff_right (a := 2) (by decide)).1 hlt
  obtain ⟨j, rfl⟩ : ∃ j, Hh = M + j := ⟨Hh - M, by omega⟩
  have hk : k / 2 ^ j = 0 := by
    apply Nat.div_eq_of_lt
    have hpM := two_pow_pos' M
    have h1 : k * 2 ^ (M + 1) < 2 ^ (M + j) := by omega
    have h2 : (2 : Nat) ^ (M + j) = 2 ^ j * 2 ^ M := by rw [Nat.add_comm, Nat.pow_add]
    have h3 : (2 : Nat) ^ (M + 1) = 2 * 2 ^ M := Nat.pow_succ'
    rw [h2, h3] at h1
    have h4 : k * 2 ^ M < 2 ^ j * 2 ^ M := by
      have : k * 2 ^ M ≤ k * (2 * 2 ^ M) := Nat.mul_le_mul_left _ (by omega)
      omega
    exact (Nat.mul_lt_mul_right hpM).1 h4
  have := mem_preNodes_anc (nChunks size) bs M k hM hm j
  rwa [hk] at this

end persisted

/-! ## `validate_rec` reports exactly the linked groups the query reaches -/

section rec
variable [BEq H] [LawfulBEq H] (hf : HashFns H) (fl : Flavour) (wd : Bool) (ob : Store H)
  (data : List UInt8) (F : Nat)

/-- what `validate_rec` started at the shifted node `(k, L)` has to report -/
def Want (L k : Nat) (owed : H) (isRoot : Bool) (rs : Ranges) (g : Nat × Nat) : Prop :=
  LinkedC hf (ob.load hf fl) data wd ob.tree F L k owed isRoot g ∧ ReachC ob.tree F L k rs g

theorem isEmpty_false_iff {rs : Ranges} : rs.isEmpty = false ↔ rs ≠ [] := by
  cases rs <;> simp

/-- chunk-group level -/
theorem rec_spec_zero (g : PlanPre.Geo ob.tree.size ob.tree.bs F) (k : Nat) (hk : nodeOf k 0 < F)
    (fuel : Nat) (owed : H) (isRoot : Bool) (rs : Ranges) :
    RunSpec (validateRec hf fl wd ob data F (fuel + 1) owed (nodeOf k 0) isRoot rs)
      (Want hf fl wd ob data F 0 k owed isRoot rs)
      (startOf k (0 + ob.tree.bs)) (endOf k (0 + ob.tree.bs)) := by
  have hsm := startOf_lt_midOf k ob.tree.bs
  have hme := midOf_lt_endOf k ob.tree.bs
  have hce := chunksOf_hi_le k ob.tree.bs ob.tree.size
  rw [validateRec_succ]
  by_cases hrs : rs = []
  · subst hrs
    simp only [List.isEmpty_nil, if_true]
    exact RunSpec.stop _ (fun g hg => hg.2.1 rfl)
  rw [if_neg (by simpa using hrs)]
  have e1 := subBs_node g hk
  have e2 := lbr3_node g hk
  have e3 := isRelevant_node g hk
  simp only [Nat.zero_add, Nat.lt_irrefl, decide_false, Bool.false_or] at e1 e2 e3
  simp only [e1, e2, e3, Nat.zero_add, C18.isLeaf_spec, decide_true, if_true]
  by_cases hm : toBytes (midOf k ob.tree.bs) < ob.tree.size
  · -- a full group pair: the node is persisted
    simp only [hm, decide_true, Bool.not_true, Bool.false_eq_true, if_false]
    have hmin : min (toBytes (midOf k ob.tree.bs)) ob.tree.size = toBytes (midOf k ob.tree.bs) := by
      omega
    rw [hmin]
    cases hl : ob.load hf fl (nodeOf k ob.tree.bs) with
    | err e => exact RunSpec.fail (by simp)
    | panic => exact RunSpec.fail (by simp)
    | ok p =>
      cases p with
      | none =>
        refine RunSpec.stop _ (fun g hg => ?_)
        have := hg.1
        simp only [LinkedC, hm, if_true, hl] at this
        exact this.2
      | some p =>
        obtain ⟨lh, rh⟩ := p
        simp only
        by_cases hp : hf.parentCv lh rh isRoot = owed
        · have : (hf.parentCv lh rh isRoot != owed) = false := by simp [hp]
          rw [if_neg (by simp [this])]
          refine RunSpec.andThen (mid := midOf k ob.tree.bs)
            (P1 := fun g => (Ranges.splitNode rs (nodeOf k ob.tree.bs)).1 ≠ [] ∧
              g = (startOf k ob.tree.bs, midOf k ob.tree.bs) ∧
              LeafOk hf data wd (startOf k ob.tree.bs) (toBytes (startOf k ob.tree.bs))
                (toBytes (midOf k ob.tree.bs)) lh false)
            (P2 := fun g => (Ranges.splitNode rs (nodeOf k ob.tree.bs)).2 ≠ [] ∧
              g = (midOf k ob.tree.bs, chunksOf (min (toBytes (endOf k ob.tree.bs)) ob.tree.size)) ∧
              LeafOk hf data wd (midOf k ob.tree.bs) (toBytes (midOf k ob.tree.bs))
                (min (toBytes (endOf k ob.tree.bs)) ob.tree.size) rh false)
            ?_ ?_ (by omega) (by omega) ?_
          · by_cases he : (Ranges.splitNode rs (nodeOf k ob.tree.bs)).1 = []
            · simp only [he, List.isEmpty_nil, Bool.not_true, Bool.false_eq_true, if_false]
              exact RunSpec.stop _ (fun g hg => hg.1 rfl)
            · rw [if_pos (by simpa using he)]
              have := yieldRange_spec hf wd data (startOf k ob.tree.bs)
                (toBytes (midOf k ob.tree.bs)) lh false (lo := startOf k ob.tree.bs)
                (hi := midOf k ob.tree.bs) (Nat.le_refl _) hsm (by rw [chunksOf_toBytes]; omega)
              rw [chunksOf_toBytes] at this
              exact this.congr (fun g => by simp [he])
          · by_cases he : (Ranges.splitNode rs (nodeOf k ob.tree.bs)).2 = []
            · simp only [he, List.isEmpty_nil, Bool.not_true, Bool.false_eq_true, if_false]
              exact RunSpec.stop _ (fun g hg => hg.1 rfl)
            · rw [if_pos (by simpa using he)]
              have := yieldRange_spec hf wd data (midOf k ob.tree.bs)
                (min (toBytes (endOf k ob.tree.bs)) ob.tree.size) rh false
                (lo := midOf k ob.tree.bs) (hi := endOf k ob.tree.bs) (Nat.le_refl _) hme hce
              exact this.congr (fun g => by simp [he])
          · intro g
            by_cases hg : g.1 < midOf k ob.tree.bs
            · simp only [Want, LinkedC, ReachC, hm, if_true, hl, hp, true_and, forall_const, hg]
              exact ⟨fun h => ⟨h.2.2, h.1.2⟩, fun h => ⟨⟨hk, h.2⟩, hrs, h.1⟩⟩
            · simp only [Want, LinkedC, ReachC, hm, if_true, hl, hp, true_and, forall_const, hg,
                if_false]
              exact ⟨fun h => ⟨h.2.2, h.1.2⟩, fun h => ⟨⟨hk, h.2⟩, hrs, h.1⟩⟩
        · have : (hf.parentCv lh rh isRoot != owed) = true := by simp [hp]
          rw [if_pos this]
          refine RunSpec.stop _ (fun g hg => ?_)
          have := hg.1
          simp only [LinkedC, hm, if_true, hl] at this
          exact hp this.2.1
  · -- the half leaf: not persisted, hashed against the hash owed to the node itself
    simp only [hm, decide_false, Bool.not_false, if_true]
    have := yieldRange_spec hf wd data (startOf k ob.tree.bs)
      (min (toBytes (endOf k ob.tree.bs)) ob.tree.size) owed isRoot
      (lo := startOf k ob.tree.bs) (hi := endOf k ob.tree.bs) (Nat.le_refl _) (by omega) hce
    refine this.congr (fun g => ?_)
    simp only [Want, LinkedC, ReachC, hm, if_false, false_implies, and_true]
    constructor
    · intro h; exact ⟨⟨hk, h⟩, hrs⟩
    · intro h; exact h.1.2

theorem RunSpec.mono_hi {r : ValRun} {P : Nat × Nat → Prop} {lo hi hi' : Nat}
    (h : RunSpec r P lo hi) (hh : hi ≤ hi') : RunSpec r P lo hi' :=
  ⟨h.sound, h.complete, fun g hg => (by have := h.bound g hg; omega), h.sorted⟩

theorem nodeOf_left_lt (k L : Nat) : nodeOf (2 * k) L < nodeOf k (L + 1) := by
  have h1 := nodeOf_sub_half k L
  have h2 := two_pow_pos' L
  have h3 := Offsets.two_pow_le_nodeOf_succ k L
  omega

/-- `validate_rec` at an existing shifted node `(k, L)`: sound for every run, complete for runs
that end without error, strictly increasing and inside the node's chunk range -/
theorem rec_spec (g : PlanPre.Geo ob.tree.size ob.tree.bs F) (n : Nat) :
    ∀ L, L ≤ n → L ≤ 63 → ∀ k, nodeOf k L < F → ∀ fuel, L < fuel → ∀ owed isRoot rs,
      RunSpec (validateRec hf fl wd ob data F fuel owed (nodeOf k L) isRoot rs)
        (Want hf fl wd ob data F L k owed isRoot rs)
        (startOf k (L + ob.tree.bs)) (endOf k (L + ob.tree.bs)) := by
  induction n with
  | zero =>
    intro L hLn _ k hk fuel hfu owed isRoot rs
    obtain rfl : L = 0 := by omega
    obtain ⟨f, rfl⟩ : ∃ f, fuel = f + 1 := ⟨fuel - 1, by omega⟩
    exact rec_spec_zero hf fl wd ob data F g k hk f owed isRoot rs
  | succ n ih =>
    intro L hLn hL k hk fuel hfu owed isRoot rs
    obtain ⟨f, rfl⟩ : ∃ f, fuel = f + 1 := ⟨fuel - 1, by omega⟩
    cases L with
    | zero => exact rec_spec_zero hf fl wd ob data F g k hk f owed isRoot rs
    | succ L =>
      have hsm := startOf_lt_midOf k (L + 1 + ob.tree.bs)
      have hme := midOf_lt_endOf k (L + 1 + ob.tree.bs)
      rw [validateRec_succ]
      by_cases hrs : rs = []
      · subst hrs
        simp only [List.isEmpty_nil, if_true]
        refine RunSpec.stop _ (fun g hg => ?_)
        have := hg.2
        simp only [ReachC, if_pos hk] at this
        exact this.1 rfl
      rw [if_neg (by simpa using hrs)]
      have e1 := subBs_node g hk
      have e3 := isRelevant_node g hk
      simp only [Nat.zero_lt_succ, decide_true, Bool.true_or] at e3
      have e4 : Node.isLeaf (nodeOf k (L + 1)) = false := by rw [C18.isLeaf_spec]; simp
      simp only [e1, e3, e4, Bool.not_true, Bool.false_eq_true, if_false]
      cases hl : ob.load hf fl (nodeOf k (L + 1 + ob.tree.bs)) with
      | err e => exact RunSpec.fail (by simp)
      | panic => exact RunSpec.fail (by simp)
      | ok p =>
        cases p with
        | none =>
          refine RunSpec.stop _ (fun g hg => ?_)
          have := hg.1
          simp only [LinkedC, if_pos hk, hl] at this
        | some p =>
          obtain ⟨lh, rh⟩ := p
          simp only
          by_cases hp : hf.parentCv lh rh isRoot = owed
          · have : (hf.parentCv lh rh isRoot != owed) = false := by simp [hp]
            rw [if_neg (by simp [this])]
            rw [C18.leftChild_spec (by omega), NodeIterL.rightDescendant_dl F L k (by omega) g.odd hk]
            simp only
            have hlt := nodeOf_left_lt k L
            have hl' := ih L (by omega) (by omega) (2 * k) (by omega) f (by omega) lh false
              (Ranges.splitNode rs (nodeOf k (L + 1 + ob.tree.bs))).1
            rw [PlanPre.child_ls, PlanPre.child_le] at hl'
            have hdl := NodeIterL.dl_level_le F L (2 * k + 1)
            have hr' := ih (NodeIterL.dl F L (2 * k + 1)).2 (by omega) (by omega)
              (NodeIterL.dl F L (2 * k + 1)).1 (NodeIterL.dl_lt F L (2 * k + 1) (g.right_exists hk))
              f (by omega) rh false (Ranges.splitNode rs (nodeOf k (L + 1 + ob.tree.bs))).2
            rw [dl_start, PlanPre.child_rs] at hr'
            have hr'' := hr'.mono_hi (hi' := endOf k (L + 1 + ob.tree.bs))
              (by have := dl_end_le F ob.tree.bs L (2 * k + 1); rw [PlanPre.child_re] at this
                  exact this)
            refine RunSpec.andThen hl' hr'' (by omega) (by omega) ?_
            intro g
            unfold Want
            rw [← LinkedC_dl, ← ReachC_dl]
            by_cases hg : g.1 < midOf k (L + 1 + ob.tree.bs)
            · simp only [LinkedC, ReachC, if_pos hk, hl, hp, true_and, hg, if_true]
              exact ⟨fun h => ⟨h.1, h.2.2⟩, fun h => ⟨h.1, hrs, h.2⟩⟩
            · simp only [LinkedC, ReachC, if_pos hk, hl, hp, true_and, hg, if_false]
              exact ⟨fun h => ⟨h.1, h.2.2⟩, fun h => ⟨h.1, hrs, h.2⟩⟩
          · have : (hf.parentCv lh rh isRoot != owed) = true := by simp [hp]
            rw [if_pos this]
            refine RunSpec.stop _ (fun g hg => ?_)
            have := hg.1
            simp only [LinkedC, if_pos hk, hl] at this
            exact hp this.1

/-- no io error can happen: every load of an existing node that the validator loads (the nodes
relevant for the outboard) succeeds (memory stores, or io stores with a long enough backing, or
the fsm flavour), and the data file is as long as the blob -/
def NoIoErr (wd : Bool) : Prop :=
  (∀ x, x < F → ob.tree.isRelevant (Node.subBs x ob.tree.bs) = true →
    ∃ p, ob.load hf fl (Node.subBs x ob.tree.bs) = .ok p) ∧
  (wd = true → ob.tree.size ≤ data.length)

omit [LawfulBEq H] in
theorem ite_yieldRange_ok (c : Bool) (s e : Nat) (h : H) (root : Bool)
    (hd : wd = true → e ≤ data.length) :
    (if c then yieldRange hf wd data s e h root else ⟨[], .ok⟩).terminal = .ok := by
  cases c
  · rfl
  · exact yieldRange_ok hf wd data s e h root hd

omit [LawfulBEq H] in
/-- without io errors `validate_rec` ends normally -/
theorem rec_ok (g : PlanPre.Geo ob.tree.size ob.tree.bs F) (hno : NoIoErr hf fl ob data F wd)
    (n : Nat) :
    ∀ L, L ≤ n → L ≤ 63 → ∀ k, nodeOf k L < F → ∀ fuel, L < fuel → ∀ owed isRoot rs,
      (validateRec hf fl wd ob data F fuel owed (nodeOf k L) isRoot rs).terminal = .ok := by
  have hmin : ∀ a, wd = true → min a ob.tree.size ≤ data.length := fun a h => by
    have := hno.2 h; omega
  induction n with
  | zero =>
    intro L hLn _ k hk fuel hfu owed isRoot rs
    obtain rfl : L = 0 := by omega
    obtain ⟨f, rfl⟩ : ∃ f, fuel = f + 1 := ⟨fuel - 1, by omega⟩
    rw [validateRec_succ]
    by_cases hrs : rs = []
    · subst hrs; rfl
    rw [if_neg (by simpa using hrs)]
    have e1 := subBs_node g hk
    have e2 := lbr3_node g hk
    simp only [e1, e2]
    by_cases hrel : ob.tree.isRelevant (nodeOf k (0 + ob.tree.bs)) = true
    case neg =>
      have hrel' : ob.tree.isRelevant (nodeOf k (0 + ob.tree.bs)) = false := by simpa using hrel
      simp only [hrel', Bool.not_false, if_true]
      exact yieldRange_ok _ _ _ _ _ _ _ (hmin _)
    obtain ⟨p, hp⟩ := hno.1 _ hk (by rw [e1]; exact hrel)
    rw [e1] at hp
    simp only [hrel, hp, Bool.not_true, Bool.false_eq_true, if_false]
    cases p with
      | none => rfl
      | some p =>
        obtain ⟨lh, rh⟩ := p
        simp only
        split
        · rfl
        · simp only [C18.isLeaf_spec, decide_true, if_true]
          rw [andThen_terminal]
          exact ⟨ite_yieldRange_ok _ _ _ _ _ _ _ _ (hmin _), ite_yieldRange_ok _ _ _ _ _ _ _ _ (hmin _)⟩
  | succ n ih =>
    intro L hLn hL k hk fuel hfu owed isRoot rs
    obtain ⟨f, rfl⟩ : ∃ f, fuel = f + 1 := ⟨fuel - 1, by omega⟩
    rw [validateRec_succ]
    by_cases hrs : rs = []
    · subst hrs; rfl
    rw [if_neg (by simpa using hrs)]
    have e1 := subBs_node g hk
    have e2 := lbr3_node g hk
    simp only [e1, e2]
    by_cases hrel : ob.tree.isRelevant (nodeOf k (L + ob.tree.bs)) = true
    case neg =>
      have hrel' : ob.tree.isRelevant (nodeOf k (L + ob.tree.bs)) = false := by simpa using hrel
      simp only [hrel', Bool.not_false, if_true]
      exact yieldRange_ok _ _ _ _ _ _ _ (hmin _)
    obtain ⟨p, hp⟩ := hno.1 _ hk (by rw [e1]; exact hrel)
    rw [e1] at hp
    simp only [hrel, hp, Bool.not_true, Bool.false_eq_true, if_false]
    cases p with
      | none => rfl
      | some p =>
        obtain ⟨lh, rh⟩ := p
        simp only
        split
        · rfl
        · cases L with
          | zero =>
            simp only [C18.isLeaf_spec, decide_true, if_true]
            rw [andThen_terminal]
            exact ⟨ite_yieldRange_ok _ _ _ _ _ _ _ _ (hmin _),
              ite_yieldRange_ok _ _ _ _ _ _ _ _ (hmin _)⟩
          | succ L =>
            have e4 : Node.isLeaf (nodeOf k (L + 1)) = false := by rw [C18.isLeaf_spec]; simp
            rw [if_neg (by simp [e4]), C18.leftChild_spec (by omega),
              NodeIterL.rightDescendant_dl F L k (by omega) g.odd hk]
            simp only
            have hlt := nodeOf_left_lt k L
            have hdl := NodeIterL.dl_level_le F L (2 * k + 1)
            rw [andThen_terminal]
            exact ⟨ih L (by omega) (by omega) (2 * k) (by omega) f (by omega) _ _ _,
              ih _ (by omega) (by omega) _ (NodeIterL.dl_lt F L (2 * k + 1) (g.right_exists hk))
                f (by omega) _ _ _⟩

end rec

/-! ## the public validators -/

section top
open PlanPre
variable [BEq H] [LawfulBEq H] (hf : HashFns H) (fl : Flavour) (ob : Store H) (data : List UInt8)

theorem tree_geo (t : Tree) (hs : t.size ≤ 2 ^ 63) (hbs : t.bs ≤ 10) :
    Geo t.size t.bs t.shifted.2 := shifted_geo t.size t.bs hs hbs

/-- an existing shifted id is the node of its computed coordinates; its level is at most 63 -/
theorem shifted_coords (t : Tree) (hs : t.size ≤ 2 ^ 63) (hbs : t.bs ≤ 10) {x : Nat}
    (hx : x < t.shifted.2) :
    x = nodeOf (Spec.indexOf x) (Spec.levelOf x) ∧ Spec.levelOf x ≤ 63 := by
  have g := tree_geo t hs hbs
  have h1 := g.le_blocks
  have h2 := Offsets.blocks_le t.size t.bs hs
  have hx64 : x + 1 < 2 ^ 64 := by omega
  have hc := (C18.coords_eq (x := x) (by omega)).1
  refine ⟨hc, ?_⟩
  have := C18.level_lt (k := Spec.indexOf x) (L := Spec.levelOf x) (by rw [← hc]; exact hx64)
  omega

/-- `validate_rec` started at any existing shifted id -/
theorem rec_spec_id (wd : Bool) (hs : ob.tree.size ≤ 2 ^ 63) (hbs : ob.tree.bs ≤ 10) {x : Nat}
    (hx : x < ob.tree.shifted.2) (fuel : Nat) (hfu : Spec.levelOf x < fuel) (owed : H)
    (isRoot : Bool) (rs : Ranges) :
    RunSpec (validateRec hf fl wd ob data ob.tree.shifted.2 fuel owed x isRoot rs)
      (Want hf fl wd ob data ob.tree.shifted.2 (Spec.levelOf x) (Spec.indexOf x) owed isRoot rs)
      (startOf (Spec.indexOf x) (Spec.levelOf x + ob.tree.bs))
      (endOf (Spec.indexOf x) (Spec.levelOf x + ob.tree.bs)) := by
  obtain ⟨hc, hL⟩ := shifted_coords ob.tree hs hbs hx
  have := rec_spec hf fl wd ob data ob.tree.shifted.2 (tree_geo ob.tree hs hbs) (Spec.levelOf x)
    (Spec.levelOf x) (Nat.le_refl _) hL (Spec.indexOf x) (by rw [← hc]; exact hx) fuel hfu owed
    isRoot rs
  rwa [← hc] at this

omit [LawfulBEq H] in
theorem rec_ok_id (wd : Bool) (hs : ob.tree.size ≤ 2 ^ 63) (hbs : ob.tree.bs ≤ 10)
    (hno : NoIoErr hf fl ob data ob.tree.shifted.2 wd) {x : Nat}
    (hx : x < ob.tree.shifted.2) (fuel : Nat) (hfu : Spec.levelOf x < fuel) (owed : H)
    (isRoot : Bool) (rs : Ranges) :
    (validateRec hf fl wd ob data ob.tree.shifted.2 fuel owed x isRoot rs).terminal = .ok := by
  obtain ⟨hc, hL⟩ := shifted_coords ob.tree hs hbs hx
  have := rec_ok hf fl wd ob data ob.tree.shifted.2 (tree_geo ob.tree hs hbs) hno (Spec.levelOf x)
    (Spec.levelOf x) (Nat.le_refl _) hL (Spec.indexOf x) (by rw [← hc]; exact hx) fuel hfu owed
    isRoot rs
  rwa [← hc] at this

/-- facts about the shifted root -/
theorem root_facts (t : Tree) (hs : t.size ≤ 2 ^ 63) :
    t.shifted.1 < t.shifted.2 ∧ Spec.levelOf t.shifted.1 ≤ 63 ∧ Spec.indexOf t.shifted.1 = 0 := by
  obtain ⟨size, bs⟩ := t
  obtain ⟨h1, h2, h3⟩ := rootLevel_spec size bs hs
  refine ⟨by rw [h2]; exact h3, h1, ?_⟩
  rw [h2, indexOf_nodeOf (by omega)]

omit [LawfulBEq H] in
/-- the validators on a tree with more than one chunk group: `validate_rec` at the shifted root -/
theorem validRanges_many (hb : ob.tree.blocks ≠ 1) (q : Ranges) :
    validRanges hf fl ob data q =
      validateRec hf fl true ob data ob.tree.shifted.2 65 ob.root ob.tree.shifted.1 true
        (Ranges.truncate q ob.tree.size) := by
  unfold validRanges
  have : (ob.tree.blocks == 1) = false := by simpa using hb
  simp only [this, Bool.false_eq_true, if_false]

omit [LawfulBEq H] in
theorem validOutboardRanges_many (hb : ob.tree.blocks ≠ 1) (q : Ranges) :
    validOutboardRanges hf fl ob q =
      validateRec hf fl false ob [] ob.tree.shifted.2 65 ob.root ob.tree.shifted.1 true
        (Ranges.truncate q ob.tree.size) := by
  unfold validOutboardRanges
  have : (ob.tree.blocks == 1) = false := by simpa using hb
  simp only [this, Bool.false_eq_true, if_false]

/-- the data validator on a tree with a single chunk group: one hash check, the query is ignored -/
theorem validRanges_one (hb : ob.tree.blocks = 1) (q : Ranges) :
    RunSpec (validRanges hf fl ob data q)
      (fun g => g = (0, ob.tree.chunks) ∧
        hashSubtree hf 0 (data.take ob.tree.size) true = ob.root) 0 (ob.tree.chunks + 1) ∧
    (ob.tree.size ≤ data.length → (validRanges hf fl ob data q).terminal = .ok) := by
  unfold validRanges
  have : (ob.tree.blocks == 1) = true := by simpa using hb
  simp only [this, if_true]
  cases hr : readExactAt data 0 ob.tree.size with
  | error e =>
    refine ⟨RunSpec.fail (by simp), fun hlen => ?_⟩
    have := readExactAt_of_le (s := 0) hlen
    rw [Nat.sub_zero, hr] at this
    cases this
  | ok tmp =>
    have ht : tmp = data.take ob.tree.size := by
      have := readExactAt_ok (s := 0) (e := ob.tree.size) hr
      rw [this]; simp [bytesAt]
    subst ht
    simp only
    by_cases heq : hashSubtree hf 0 (data.take ob.tree.size) true = ob.root
    · have hb' : (hashSubtree hf 0 (data.take ob.tree.size) true == ob.root) = true := by
        simp [heq]
      rw [if_pos hb']
      exact ⟨RunSpec.single _ ⟨rfl, heq⟩ (fun g hg => hg.1) ⟨Nat.le_refl _, by simp, by simp⟩,
        fun _ => rfl⟩
    · have hb' : ¬ (hashSubtree hf 0 (data.take ob.tree.size) true == ob.root) = true := by
        simpa using heq
      rw [if_neg hb']
      exact ⟨RunSpec.stop _ (fun g hg => heq hg.2), fun _ => rfl⟩

omit [LawfulBEq H] in
theorem validOutboardRanges_one (hb : ob.tree.blocks = 1) (q : Ranges) :
    validOutboardRanges hf fl ob q = ⟨[(0, ob.tree.chunks)], .ok⟩ := by
  unfold validOutboardRanges
  have : (ob.tree.blocks == 1) = true := by simpa using hb
  simp only [this, if_true]

end top

/-! ## the notions at the level of the model (shifted ids, stores) -/

section notions
variable (hf : HashFns H) (fl : Flavour) (ob : Store H) (data : List UInt8) (withData : Bool)

/-- `g` is the chunk range of a chunk group below the shifted node `shifted` of tree `t` -/
def Group (t : Tree) (shifted : Nat) (g : Nat × Nat) : Prop :=
  GroupC t t.shifted.2 (Spec.levelOf shifted) (Spec.indexOf shifted) g

/-- group `g` lies below the shifted node `shifted`, every persisted node on the path from
`shifted` down to `g` holds a pair whose parent hash is the hash owed from above (`owed` at
`shifted` itself), and (with data) the stored bytes of `g` hash to the half owed to it -/
def Linked (owed : H) (shifted : Nat) (isRoot : Bool) (g : Nat × Nat) : Prop :=
  LinkedC hf (ob.load hf fl) data withData ob.tree ob.tree.shifted.2
    (Spec.levelOf shifted) (Spec.indexOf shifted) owed isRoot g

/-- the chain of `split(ranges, node)` from `shifted` down to `g` never produces an empty query -/
def Reach (t : Tree) (ranges : Ranges) (shifted : Nat) (g : Nat × Nat) : Prop :=
  ReachC t t.shifted.2 (Spec.levelOf shifted) (Spec.indexOf shifted) ranges g

/-- the query `q` selects a chunk of `g` -/
def Touched (size : Nat) (q : Ranges) (g : Nat × Nat) : Prop :=
  ∃ c, g.1 ≤ c ∧ c < g.2 ∧ Spec.selected size q c = true

/-- `g` is verifiably stored: linked to the root of the store (a tree with a single chunk group
has no stored pairs: its only group is checked against the root directly) -/
def Verifiable (g : Nat × Nat) : Prop :=
  if ob.tree.blocks = 1 then
    g = (0, ob.tree.chunks) ∧
      (withData = true → hashSubtree hf 0 (data.take ob.tree.size) true = ob.root)
  else Linked hf fl ob data withData ob.root ob.tree.shifted.1 true g

/-- no load of an existing node can fail, and the data file is as long as the blob -/
def NoIo : Prop := NoIoErr hf fl ob data ob.tree.shifted.2 withData

/-- loads of an `EmptyOutboard` never fail -/
theorem noIo_empty (hk : ob.kind = .empty) (hd : withData = true → ob.tree.size ≤ data.length) :
    NoIo hf fl ob data withData := by
  refine ⟨fun x _ _ => ?_, hd⟩
  unfold Store.load
  rw [hk]
  exact ⟨_, rfl⟩

/-- loads of the io-backed outboards never fail in the `fsm` flavour (a short read gives zeros) -/
theorem noIo_fsm (hk : ob.kind = .preIo ∨ ob.kind = .postIo)
    (hd : withData = true → ob.tree.size ≤ data.length) :
    NoIo hf .fsm ob data withData := by
  refine ⟨fun x _ _ => ?_, hd⟩
  unfold Store.load
  rcases hk with hk | hk <;> rw [hk] <;> simp only <;> split <;> try split
  all_goals exact ⟨_, rfl⟩

theorem size_pos_of_blocks (t : Tree) (hb : t.blocks ≠ 1) : 0 < t.size := by
  apply Nat.pos_of_ne_zero
  intro h0
  apply hb
  unfold Tree.blocks Tree.blocksRaw
  rw [h0]
  simp

/-- without the data check the data file does not matter -/
theorem Verifiable_false_data (data data' : List UInt8) (g : Nat × Nat) :
    Verifiable hf fl ob data false g ↔ Verifiable hf fl ob data' false g := by
  unfold Verifiable Linked
  rw [LinkedC_false_data hf (ob.load hf fl) ob.tree ob.tree.shifted.2 data data']
  simp

end notions

/-! ## summaries -/

/-- what is proved about a run: it reports only `V`-groups (always), all of them if it ends
normally, it ends normally when no io error is possible, and its reports are strictly increasing,
pairwise disjoint and free of duplicates -/
structure Exact (r : ValRun) (V : Nat × Nat → Prop) (noio : Prop) : Prop where
  sound : ∀ g ∈ r.yields, V g
  complete : r.terminal = .ok → ∀ g, V g → g ∈ r.yields
  ok : noio → r.terminal = .ok
  sorted : r.yields.Pairwise (fun a b => a.2 ≤ b.1 ∧ a.1 < b.1)
  nodup : r.yields.Nodup

theorem RunSpec.exact {r : ValRun} {P V : Nat × Nat → Prop} {lo hi : Nat} {noio : Prop}
    (h : RunSpec r P lo hi) (hpv : ∀ g, P g ↔ V g) (hok : noio → r.terminal = .ok) :
    Exact r V noio :=
  ⟨fun g hg => (hpv g).1 (h.sound g hg), fun he g hv => h.complete he g ((hpv g).2 hv), hok,
    h.sorted, h.sorted.imp (fun hab e => by rw [e] at hab; omega)⟩

/-- the form "`r = ⟨ys, .ok⟩` with `g ∈ ys ↔ V g`" -/
theorem Exact.iff {r : ValRun} {V : Nat × Nat → Prop} {noio : Prop} (h : Exact r V noio)
    (hno : noio) :
    ∃ ys, r = ⟨ys, .ok⟩ ∧ (∀ g, g ∈ ys ↔ V g) ∧
      ys.Pairwise (fun a b => a.2 ≤ b.1 ∧ a.1 < b.1) ∧ ys.Nodup := by
  have hok := h.ok hno
  refine ⟨r.yields, ?_, fun g => ⟨h.sound g, h.complete hok g⟩, h.sorted, h.nodup⟩
  cases r
  simp only at hok
  rw [hok]

section summaries
open PlanPre
variable [BEq H] [LawfulBEq H] (hf : HashFns H) (fl : Flavour) (ob : Store H) (data : List UInt8)

theorem rec_exact (wd : Bool) (hs : ob.tree.size ≤ 2 ^ 63) (hbs : ob.tree.bs ≤ 10) {x : Nat}
    (hx : x < ob.tree.shifted.2) (fuel : Nat) (hfu : Node.level x < fuel) (owed : H)
    (isRoot : Bool) (rs : Ranges) :
    Exact (validateRec hf fl wd ob data ob.tree.shifted.2 fuel owed x isRoot rs)
      (fun g => Linked hf fl ob data wd owed x isRoot g ∧ Reach ob.tree rs x g)
      (NoIo hf fl ob data wd) := by
  have hx64 : x < 2 ^ 64 := by
    have g := tree_geo ob.tree hs hbs
    have h1 := g.le_blocks
    have h2 := Offsets.blocks_le ob.tree.size ob.tree.bs hs
    omega
  have hlev := (C18.coords_eq hx64).2
  rw [hlev] at hfu
  exact (rec_spec_id hf fl ob data wd hs hbs hx fuel hfu owed isRoot rs).exact
    (fun g => Iff.rfl) (fun hno => rec_ok_id hf fl ob data wd hs hbs hno hx fuel hfu owed isRoot rs)

theorem validRanges_exact (hs : ob.tree.size ≤ 2 ^ 63) (hbs : ob.tree.bs ≤ 10) (q : Ranges) :
    Exact (validRanges hf fl ob data q)
      (fun g => Verifiable hf fl ob data true g ∧
        (ob.tree.blocks = 1 ∨
          Reach ob.tree (Ranges.truncate q ob.tree.size) ob.tree.shifted.1 g))
      (NoIo hf fl ob data true) := by
  by_cases hb : ob.tree.blocks = 1
  · obtain ⟨h1, h2⟩ := validRanges_one hf fl ob data hb q
    refine h1.exact (fun g => ?_) (fun hno => h2 (hno.2 rfl))
    simp only [Verifiable, forall_const, hb, if_true, true_or, and_true]
  · obtain ⟨hr1, hr2, hr3⟩ := root_facts ob.tree hs
    rw [validRanges_many hf fl ob data hb q]
    have hlev := (C18.coords_eq (x := ob.tree.shifted.1) (by
      have g := tree_geo ob.tree hs hbs
      have h1 := g.le_blocks
      have h2 := Offsets.blocks_le ob.tree.size ob.tree.bs hs
      omega)).2
    have := rec_exact hf fl ob data true hs hbs hr1 65 (by omega) ob.root true
      (Ranges.truncate q ob.tree.size)
    refine ⟨fun g hg => ?_, fun he g hv => ?_, this.ok, this.sorted, this.nodup⟩
    · have := this.sound g hg
      simp only [Verifiable, hb, if_false, false_or]; exact this
    · apply this.complete he
      simpa only [Verifiable, hb, if_false, false_or] using hv

theorem validOutboardRanges_exact (hs : ob.tree.size ≤ 2 ^ 63) (hbs : ob.tree.bs ≤ 10)
    (q : Ranges) :
    Exact (validOutboardRanges hf fl ob q)
      (fun g => Verifiable hf fl ob [] false g ∧
        (ob.tree.blocks = 1 ∨
          Reach ob.tree (Ranges.truncate q ob.tree.size) ob.tree.shifted.1 g))
      (NoIo hf fl ob [] false) := by
  by_cases hb : ob.tree.blocks = 1
  · rw [validOutboardRanges_one hf fl ob hb q]
    refine (RunSpec.single (P := fun g => g = (0, ob.tree.chunks)) (lo := 0)
      (hi := ob.tree.chunks + 1) _ rfl (fun g hg => hg) ⟨Nat.le_refl _, by simp, by simp⟩).exact
      (fun g => ?_) (fun _ => rfl)
    simp [Verifiable, hb]
  · obtain ⟨hr1, hr2, hr3⟩ := root_facts ob.tree hs
    rw [validOutboardRanges_many hf fl ob hb q]
    have := rec_exact hf fl ob [] false hs hbs hr1 65 (by
      have hlev := (C18.coords_eq (x := ob.tree.shifted.1) (by
        have g := tree_geo ob.tree hs hbs
        have h1 := g.le_blocks
        have h2 := Offsets.blocks_le ob.tree.size ob.tree.bs hs
        omega)).2
      omega) ob.root true (Ranges.truncate q ob.tree.size)
    refine ⟨fun g hg => ?_, fun he g hv => ?_, this.ok, this.sorted, this.nodup⟩
    · have := this.sound g hg
      simp only [Verifiable, hb, if_false, false_or]; exact this
    · apply this.complete he
      simpa only [Verifiable, hb, if_false, false_or] using hv

end summaries

/-! ## the whole tree -/

section whole
open PlanPre C01

theorem root_level (t : Tree) : Spec.levelOf t.shifted.1 = rootLevel t := rfl

theorem endOf_zero_left (L : Nat) : endOf 0 L = 2 ^ (L + 1) := by simp [endOf]

theorem root_covers (t : Tree) (hs : t.size ≤ 2 ^ 63) :
    nChunks t.size ≤ endOf 0 (rootLevel t + t.bs) := by
  obtain ⟨size, bs⟩ := t
  exact rootLevel_covers size bs hs

/-- for groups of the tree: reached by the canonical query = touched by the query -/
theorem reach_iff_touched_top (t : Tree) (hs : t.size ≤ 2 ^ 63) (hbs : t.bs ≤ 10)
    (hb : t.blocks ≠ 1) (q : Ranges) (hq : Ranges.WF q = true) (g : Nat × Nat)
    (hg : Group t t.shifted.1 g) :
    Reach t (Ranges.truncate q t.size) t.shifted.1 g ↔ Touched t.size q g := by
  have hsz := size_pos_of_blocks t hb
  obtain ⟨-, -, hr3⟩ := root_facts t hs
  have geo := tree_geo t hs hbs
  have hwf := C14.truncate_wf t.size hq
  have hsel := C14.truncate_selected t.size hq
  unfold Reach Group at *
  rw [hr3, root_level] at hg ⊢
  constructor
  · intro h
    obtain ⟨c, h1, h2, h3, -, -⟩ := reach_touched_aux geo hsz (rootLevel t) 0 _ g hwf
      (by rw [startOf_zero_left]; exact tight_zero hwf)
      (Or.inl (root_covers t hs)) hg h
    exact ⟨c, h1, h2, by rw [← hsel]; exact h3⟩
  · rintro ⟨c, h1, h2, h3⟩
    exact touched_reach_aux geo (rootLevel t) 0 _ g hwf hg ⟨c, h1, h2, by rw [hsel]; exact h3⟩

/-- the groups below the shifted root are the chunk ranges of the `blocks` chunk groups -/
theorem group_iff_top (t : Tree) (hs : t.size ≤ 2 ^ 63) (hbs : t.bs ≤ 10) (g : Nat × Nat) :
    Group t t.shifted.1 g ↔ ∃ i, i < t.blocks ∧ g = groupRange t i := by
  obtain ⟨hr1, -, hr3⟩ := root_facts t hs
  have geo := tree_geo t hs hbs
  unfold Group
  rw [hr3, root_level]
  obtain ⟨size, bs⟩ := t
  obtain ⟨h, hh, e, _, hbl⟩ := shifted_root size bs hs
  have hL : rootLevel ⟨size, bs⟩ = h := by
    unfold rootLevel; rw [e, levelOf_nodeOf (by omega)]
  have h0 : startOf 0 (rootLevel ⟨size, bs⟩) < (Tree.shifted ⟨size, bs⟩).2 := by
    rw [startOf_zero_left]; omega
  constructor
  · intro hg
    obtain ⟨i, -, -, h3, h4⟩ := group_is_range_aux size bs _ geo _ 0 g h0 hg
    exact ⟨i, h3, h4⟩
  · rintro ⟨i, hi, rfl⟩
    exact group_exists_aux size bs _ geo _ 0 i h0 (by rw [startOf_zero_left]; omega)
      (by rw [hL, endOf_zero_left]; exact Nat.lt_of_lt_of_le hi hbl) hi

variable {hf : HashFns H} {fl : Flavour} {ob : Store H} {data d : List UInt8}

/-- if every load of an existing node of level `≥ bs` succeeds, no io error is possible -/
theorem noIo_of_load {wd : Bool} (hs : ob.tree.size ≤ 2 ^ 63) (hbs : ob.tree.bs ≤ 10)
    (hld : ∀ k M, ob.tree.bs ≤ M → midOf k M < nChunks ob.tree.size →
      ∃ p, ob.load hf fl (nodeOf k M) = .ok p)
    (hd : wd = true → ob.tree.size ≤ data.length) : NoIo hf fl ob data wd := by
  refine ⟨fun x hx hrel => ?_, hd⟩
  obtain ⟨hc, hL⟩ := shifted_coords ob.tree hs hbs hx
  have geo := tree_geo ob.tree hs hbs
  generalize Spec.indexOf x = k at hc
  generalize Spec.levelOf x = L at hc hL
  subst hc
  rw [subBs_node geo hx] at hrel ⊢
  rw [isRelevant_node geo hx] at hrel
  cases L with
  | zero =>
    simp only [Nat.lt_irrefl, decide_false, Bool.false_or, decide_eq_true_eq] at hrel
    exact hld k _ (by omega) (lt_nChunks_of_toBytes_lt hrel)
  | succ L => exact hld k _ (by omega) (geo.mid_lt_nChunks hx)

/-- a verifiable group is a group of the tree -/
theorem Verifiable.group {wd : Bool} {g : Nat × Nat} (hb : ob.tree.blocks ≠ 1)
    (h : Verifiable hf fl ob data wd g) : Group ob.tree ob.tree.shifted.1 g := by
  unfold Verifiable at h
  rw [if_neg hb] at h
  exact LinkedC.group _ _ _ _ _ _ _ _ _ _ _ h

/-- a verifiable group holds true blob bytes: if the root of the store is the BLAKE3 hash of `d`
and chaining values do not collide, the stored bytes of the group are the bytes of `d` at the same
place (and lie inside `d`) -/
theorem verifiable_true_bytes (cf : CollisionFree hf) (hd : d.length ≤ 2 ^ 64 * 1024)
    (hroot : ob.root = Spec.root hf d) (hlen : ob.tree.size ≤ data.length) {g : Nat × Nat}
    (h : Verifiable hf fl ob data true g) :
    groupBytes data ob.tree.size g = groupBytes d ob.tree.size g ∧
      toBytes g.1 + (groupBytes data ob.tree.size g).length ≤ d.length := by
  unfold Verifiable at h
  split at h
  · obtain ⟨rfl, h⟩ := h
    have h := h rfl
    rw [hroot] at h
    unfold Spec.root Spec.cv at h
    rw [slice_full] at h
    obtain ⟨-, hb, -⟩ := cv_inj cf h
    have hc : ob.tree.size ≤ toBytes ob.tree.chunks := by
      unfold Tree.chunks chunksOf toBytes; split <;> omega
    have hlen' : d.length = ob.tree.size := by
      rw [← hb, List.length_take]; omega
    have e1 : groupBytes data ob.tree.size (0, ob.tree.chunks) = d := by
      rw [← hb]
      simp only [groupBytes, bytesAt, toBytes, Nat.zero_mul, List.drop_zero, Nat.sub_zero]
      rw [show min (ob.tree.chunks * 1024) ob.tree.size = ob.tree.size by
        unfold toBytes at hc; omega]
    have e2 : groupBytes d ob.tree.size (0, ob.tree.chunks) = d := by
      simp only [groupBytes, bytesAt, toBytes, Nat.zero_mul, List.drop_zero, Nat.sub_zero]
      rw [show min (ob.tree.chunks * 1024) ob.tree.size = d.length by
        unfold toBytes at hc; omega]
      exact List.take_length
    rw [e1, e2]
    exact ⟨rfl, by simp [toBytes]⟩
  · exact linked_true_bytes cf hd hlen _ _ _ _ _ (hroot ▸ TrueCv.root hf d) h

/-- a store whose loads return the true pairs, over the true data: every chunk group is
verifiable -/
theorem intact_of_load_top (hs : d.length ≤ 2 ^ 63) (hbs : ob.tree.bs ≤ 10)
    (hsz : ob.tree.size = d.length) (hroot : ob.root = Spec.root hf d) (wd : Bool)
    (hld : ∀ k M, ob.tree.bs ≤ M → midOf k M < nChunks d.length →
      ob.load hf fl (nodeOf k M) = .ok (some (Spec.pair hf d k M)))
    (i : Nat) (hi : i < ob.tree.blocks) :
    Verifiable hf fl ob d wd (groupRange ob.tree i) := by
  have hs' : ob.tree.size ≤ 2 ^ 63 := by omega
  unfold Verifiable
  split
  · rename_i hb
    have h1 : i = 0 := by omega
    subst h1
    have hsmall : ¬ (1 * 2 ^ (ob.tree.bs + 10) < ob.tree.size) := by
      rw [← Offsets.lt_blocks_iff ob.tree.size ob.tree.bs 1 (by omega)]
      have : Tree.blocks ⟨ob.tree.size, ob.tree.bs⟩ = ob.tree.blocks := rfl
      omega
    have hc : ob.tree.chunks ≤ 2 ^ ob.tree.bs := by
      have := chunksOf_mono (a := ob.tree.size) (b := toBytes (2 ^ ob.tree.bs)) (by
        unfold toBytes; rw [Nat.pow_add] at hsmall; omega)
      rwa [chunksOf_toBytes] at this
    refine ⟨?_, fun _ => ?_⟩
    · unfold groupRange Tree.chunks at *
      simp only [Nat.zero_mul, Nat.zero_add, Nat.one_mul]
      rw [Nat.min_eq_right hc]
    · rw [hroot, hsz, List.take_length]
      unfold Spec.root Spec.cv
      rw [slice_full]
  · rename_i hb
    obtain ⟨hr1, -, hr3⟩ := root_facts ob.tree hs'
    have geo := tree_geo ob.tree hs' hbs
    have hg := (group_iff_top ob.tree hs' hbs _).2 ⟨i, hi, rfl⟩
    unfold Group at hg
    unfold Linked
    rw [hr3, root_level] at hg ⊢
    have := intact_aux (hf := hf) (ld := ob.load hf fl) geo hsz hs wd hld (rootLevel ob.tree) 0 true
      _ hg
    have hcov : nChunks d.length ≤ endOf 0 (rootLevel ob.tree + ob.tree.bs) := by
      rw [← hsz]
      exact root_covers ob.tree hs'
    rw [startOf_zero_left, Nat.min_eq_right hcov] at this
    rw [hroot]
    exact this

end whole

/-! ## the recursion of `Linked` / `Reach` at the level of shifted ids

`Linked` and `Reach` are defined through coordinates; these equations show that they follow the
tree exactly like `validate_rec`: left child, right descendant, `split(ranges, node)`. -/

section shape
open PlanPre
variable (hf : HashFns H) (fl : Flavour) (ob : Store H) (data : List UInt8) (wd : Bool)

theorem coords_of_nodeOf {k L : Nat} (hL : L ≤ 64) :
    Spec.levelOf (nodeOf k L) = L ∧ Spec.indexOf (nodeOf k L) = k :=
  ⟨levelOf_nodeOf hL, indexOf_nodeOf hL⟩

/-- an inner shifted node: the stored pair must give the owed hash; continue with the left child
and the left hash if the group starts in front of the node's mid, else with the right descendant
and the right hash -/
theorem Linked_inner (hs : ob.tree.size ≤ 2 ^ 63) (hbs : ob.tree.bs ≤ 10) {x : Nat}
    (hx : x < ob.tree.shifted.2) (hleaf : Node.isLeaf x = false) (owed : H) (isRoot : Bool)
    (g : Nat × Nat) :
    Linked hf fl ob data wd owed x isRoot g ↔
      ∃ lh rh lc rd, ob.load hf fl (Node.subBs x ob.tree.bs) = .ok (some (lh, rh)) ∧
        hf.parentCv lh rh isRoot = owed ∧ Node.leftChild x = some lc ∧
        Node.rightDescendant x ob.tree.shifted.2 = some rd ∧
        if g.1 < Node.mid (Node.subBs x ob.tree.bs) then Linked hf fl ob data wd lh lc false g
        else Linked hf fl ob data wd rh rd false g := by
  obtain ⟨hc, hL⟩ := shifted_coords ob.tree hs hbs hx
  have geo := tree_geo ob.tree hs hbs
  unfold Linked
  generalize Spec.indexOf x = k at hc
  generalize Spec.levelOf x = L at hc hL
  subst hc
  cases L with
  | zero => rw [C18.isLeaf_spec] at hleaf; simp at hleaf
  | succ L =>
    have hdl := NodeIterL.dl_level_le ob.tree.shifted.2 L (2 * k + 1)
    rw [subBs_node geo hx, C18.mid_spec, C18.leftChild_spec (by omega),
      NodeIterL.rightDescendant_dl _ L k (by omega) geo.odd hx]
    simp only [LinkedC, if_pos hx]
    constructor
    · intro h
      split at h
      · rename_i lh rh hl
        refine ⟨lh, rh, _, _, hl, h.1, rfl, rfl, ?_⟩
        rw [(coords_of_nodeOf (by omega)).1, (coords_of_nodeOf (by omega)).2,
          (coords_of_nodeOf (k := (NodeIterL.dl ob.tree.shifted.2 L (2 * k + 1)).1) (by omega)).1,
          (coords_of_nodeOf (k := (NodeIterL.dl ob.tree.shifted.2 L (2 * k + 1)).1) (by omega)).2,
          ← LinkedC_dl]
        exact h.2
      · exact h.elim
    · rintro ⟨lh, rh, lc, rd, hl, hp, hlc, hrd, h⟩
      obtain rfl := Option.some.inj hlc
      obtain rfl := Option.some.inj hrd
      rw [(coords_of_nodeOf (by omega)).1, (coords_of_nodeOf (by omega)).2,
        (coords_of_nodeOf (k := (NodeIterL.dl ob.tree.shifted.2 L (2 * k + 1)).1) (by omega)).1,
        (coords_of_nodeOf (k := (NodeIterL.dl ob.tree.shifted.2 L (2 * k + 1)).1) (by omega)).2,
        ← LinkedC_dl] at h
      rw [hl]
      exact ⟨hp, h⟩

/-- the same walk for the query: `split(ranges, node)`, left half to the left child, right half to
the right descendant; an empty (sub-)query reaches nothing -/
theorem Reach_inner (t : Tree) (hs : t.size ≤ 2 ^ 63) (hbs : t.bs ≤ 10) {x : Nat}
    (hx : x < t.shifted.2) (hleaf : Node.isLeaf x = false) (rs : Ranges) (g : Nat × Nat) :
    Reach t rs x g ↔
      rs ≠ [] ∧ ∃ lc rd, Node.leftChild x = some lc ∧
        Node.rightDescendant x t.shifted.2 = some rd ∧
        if g.1 < Node.mid (Node.subBs x t.bs) then
          Reach t (Ranges.splitNode rs (Node.subBs x t.bs)).1 lc g
        else Reach t (Ranges.splitNode rs (Node.subBs x t.bs)).2 rd g := by
  obtain ⟨hc, hL⟩ := shifted_coords t hs hbs hx
  have geo := tree_geo t hs hbs
  unfold Reach
  generalize Spec.indexOf x = k at hc
  generalize Spec.levelOf x = L at hc hL
  subst hc
  cases L with
  | zero => rw [C18.isLeaf_spec] at hleaf; simp at hleaf
  | succ L =>
    have hdl := NodeIterL.dl_level_le t.shifted.2 L (2 * k + 1)
    rw [subBs_node geo hx, C18.mid_spec, C18.leftChild_spec (by omega),
      NodeIterL.rightDescendant_dl _ L k (by omega) geo.odd hx]
    simp only [ReachC, if_pos hx]
    constructor
    · rintro ⟨hne, h⟩
      refine ⟨hne, _, _, rfl, rfl, ?_⟩
      rw [(coords_of_nodeOf (by omega)).1, (coords_of_nodeOf (by omega)).2,
        (coords_of_nodeOf (k := (NodeIterL.dl t.shifted.2 L (2 * k + 1)).1) (by omega)).1,
        (coords_of_nodeOf (k := (NodeIterL.dl t.shifted.2 L (2 * k + 1)).1) (by omega)).2,
        ← ReachC_dl]
      exact h
    · rintro ⟨hne, lc, rd, hlc, hrd, h⟩
      obtain rfl := Option.some.inj hlc
      obtain rfl := Option.some.inj hrd
      rw [(coords_of_nodeOf (by omega)).1, (coords_of_nodeOf (by omega)).2,
        (coords_of_nodeOf (k := (NodeIterL.dl t.shifted.2 L (2 * k + 1)).1) (by omega)).1,
        (coords_of_nodeOf (k := (NodeIterL.dl t.shifted.2 L (2 * k + 1)).1) (by omega)).2,
        ← ReachC_dl] at h
      exact ⟨hne, h⟩

/-- a shifted leaf (chunk-group level).  With `(l, m, r) = leaf_byte_ranges3(node)`: if the node is
persisted, the stored pair must give the owed hash and the group is the left half `[l, m)` checked
against the left hash or the right half `[m, r)` checked against the right hash; if it is the half
leaf (not persisted) the group is `[l, r)` checked against the owed hash itself -/
theorem Linked_leaf (hs : ob.tree.size ≤ 2 ^ 63) (hbs : ob.tree.bs ≤ 10) {x : Nat}
    (hx : x < ob.tree.shifted.2) (hleaf : Node.isLeaf x = true) (owed : H) (isRoot : Bool)
    (g : Nat × Nat) :
    Linked hf fl ob data wd owed x isRoot g ↔
      let node := Node.subBs x ob.tree.bs
      let lmr := ob.tree.leafByteRanges3 node
      if ob.tree.isRelevant node then
        ∃ lh rh, ob.load hf fl node = .ok (some (lh, rh)) ∧ hf.parentCv lh rh isRoot = owed ∧
          if g.1 < Node.mid node then
            g = (fullChunksOf lmr.1, chunksOf lmr.2.1) ∧
              LeafOk hf data wd (fullChunksOf lmr.1) lmr.1 lmr.2.1 lh false
          else
            g = (fullChunksOf lmr.2.1, chunksOf lmr.2.2) ∧
              LeafOk hf data wd (fullChunksOf lmr.2.1) lmr.2.1 lmr.2.2 rh false
      else
        g = (fullChunksOf lmr.1, chunksOf lmr.2.2) ∧
          LeafOk hf data wd (fullChunksOf lmr.1) lmr.1 lmr.2.2 owed isRoot := by
  obtain ⟨hc, hL⟩ := shifted_coords ob.tree hs hbs hx
  have geo := tree_geo ob.tree hs hbs
  unfold Linked
  generalize Spec.indexOf x = k at hc
  generalize Spec.levelOf x = L at hc hL
  subst hc
  cases L with
  | succ L => rw [C18.isLeaf_spec] at hleaf; simp at hleaf
  | zero =>
    have e1 := subBs_node geo hx
    have e2 := lbr3_node geo hx
    have e3 := isRelevant_node geo hx
    simp only [Nat.zero_add, Nat.lt_irrefl, decide_false, Bool.false_or] at e1 e2 e3
    simp only [e1, e2, e3, C18.mid_spec, LinkedC, fullChunksOf_toBytes, decide_eq_true_eq]
    by_cases hm : toBytes (midOf k ob.tree.bs) < ob.tree.size
    · have hmin : min (toBytes (midOf k ob.tree.bs)) ob.tree.size = toBytes (midOf k ob.tree.bs) := by
        omega
      simp only [hm, if_true, hmin, fullChunksOf_toBytes, chunksOf_toBytes]
      constructor
      · rintro ⟨-, h⟩
        split at h
        · rename_i lh rh hl
          exact ⟨lh, rh, hl, h⟩
        · exact h.elim
      · rintro ⟨lh, rh, hl, h⟩
        rw [hl]
        exact ⟨hx, h⟩
    · simp only [hm, if_false]
      exact ⟨fun h => h.2, fun h => ⟨hx, h⟩⟩

/-- a shifted leaf, query side: the query is non-empty, and if the node is persisted the half of
`split(ranges, node)` on the group's side is non-empty -/
theorem Reach_leaf (t : Tree) (hs : t.size ≤ 2 ^ 63) (hbs : t.bs ≤ 10) {x : Nat}
    (hx : x < t.shifted.2) (hleaf : Node.isLeaf x = true) (rs : Ranges) (g : Nat × Nat) :
    Reach t rs x g ↔
      rs ≠ [] ∧ (t.isRelevant (Node.subBs x t.bs) = true →
        if g.1 < Node.mid (Node.subBs x t.bs) then
          (Ranges.splitNode rs (Node.subBs x t.bs)).1 ≠ []
        else (Ranges.splitNode rs (Node.subBs x t.bs)).2 ≠ []) := by
  obtain ⟨hc, hL⟩ := shifted_coords t hs hbs hx
  have geo := tree_geo t hs hbs
  unfold Reach
  generalize Spec.indexOf x = k at hc
  generalize Spec.levelOf x = L at hc hL
  subst hc
  cases L with
  | succ L => rw [C18.isLeaf_spec] at hleaf; simp at hleaf
  | zero =>
    have e1 := subBs_node geo hx
    have e3 := isRelevant_node geo hx
    simp only [Nat.zero_add, Nat.lt_irrefl, decide_false, Bool.false_or] at e1 e3
    simp only [e1, e3, C18.mid_spec, ReachC, decide_eq_true_eq]

end shape

end Bao.ValidL
