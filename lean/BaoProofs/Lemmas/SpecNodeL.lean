import BaoProofs.Props.C18
import BaoProofs.Lemmas.SpecIndexStr
import BaoModel.Ops1

/-!
# Lemmas for `Props/C18SpecNode.lean`: the `node` / `nodebs` / `noderp` verdicts accept the model

The three verdicts compare the implementation's output string with ONE string computed from the
`(k, L)` coordinates `Spec.indexOf x`, `Spec.levelOf x` (`if impl == spec then none else …`), so
"no false alarm" is the equation `model string = spec string`, which follows component by component
from the C18 theorems (`BaoProofs/Props/C18.lean`).

* `popc_eq`            `Spec.popc` (the verdict's popcount) is the model's `popcountAux`
* `sLc … sPor`         verbatim copies of the `let`s of `Ops.nodeSpecStr` (tied to it by `rfl`:
                       `nodeSpecStr_eq`)
* `*_clause`           one lemma per compared component of `node`
* `nodeStr_eq`         `nodeStr x = nodeSpecStr x` for `x + 1 < 2^64`
* `subBs_clause`, `addBs_clause`, `nodeBsModel_eq`    the two components of `nodebs`
* `up_eq`              the verdict's walk `opNodeRp.up` is `Node.restrictedParentAux`
* `restrictedParent_clause`, `restrictedParent_clause_u64`   … hence `Node.restrictedParent x len`
                       (`x ≠ u64::MAX`, any `len`; or every `u64` id and `len ≤ 2^64`)
* `opNode_eq`, `opNodeBs_eq`, `opNodeRp_eq`   the operations after the argument parse
-/

namespace Bao.SpecNode
open Bao Bao.Bits Bao.Ops Bao.Proto Bao.C18
open Bao.Spec (nodeOf startOf endOf midOf levelOf indexOf)

/-! ## the verdict's popcount is the model's -/

theorem popc_eq (f x : Nat) : Spec.popc f x = popcountAux f x := by
  induction f generalizing x with
  | zero => rfl
  | succ f ih =>
    simp only [Spec.popc, popcountAux, ih]
    split
    · next h => subst h; simp [popcountAux_zero]
    · rfl

theorem popc64_eq (x : Nat) : Spec.popc 64 x = popcount x := popc_eq 64 x

/-! ## `node`: the components of `nodeSpecStr` as named definitions -/

/-- left child expected by the verdict -/
def sLc (x : Nat) : Option Nat :=
  if levelOf x = 0 then none else some (nodeOf (2 * indexOf x) (levelOf x - 1))

/-- right child expected by the verdict -/
def sRc (x : Nat) : Option Nat :=
  if levelOf x = 0 then none else some (nodeOf (2 * indexOf x + 1) (levelOf x - 1))

/-- parent expected by the verdict -/
def sPar (x : Nat) : Option Nat :=
  if levelOf x = 63 then none else some (nodeOf (indexOf x / 2) (levelOf x + 1))

/-- `count_below` expected by the verdict -/
def sBelow (x : Nat) : Nat := 2 ^ (levelOf x + 1) - 2

/-- next left ancestor expected by the verdict -/
def sNla (x : Nat) : Option Nat :=
  if indexOf x = 0 then none else some (x + 1 - 2 ^ levelOf x - 1)

/-- node range expected by the verdict -/
def sNr (x : Nat) : Nat × Nat :=
  (startOf (indexOf x) (levelOf x), startOf (indexOf x) (levelOf x) + 2 ^ (levelOf x + 1) - 1)

/-- chunk range expected by the verdict -/
def sCr (x : Nat) : Nat × Nat :=
  (startOf (indexOf x) (levelOf x), endOf (indexOf x) (levelOf x))

/-- `right_count` expected by the verdict -/
def sRcnt (x : Nat) : Nat := Spec.popc 64 (x + 1) - 1

/-- post-order offset expected by the verdict -/
def sPoo (x : Nat) : Nat :=
  sBelow x + (startOf (indexOf x) (levelOf x) - Spec.popc 64 (startOf (indexOf x) (levelOf x)))

/-- post-order range expected by the verdict -/
def sPor (x : Nat) : Nat × Nat := (sPoo x - sBelow x, sPoo x + 1)

/-- the thirteen tokens the `node` verdict expects -/
def specTokens (x : Nat) : List String :=
  [toString (levelOf x), toString (x + 1), bool01 (levelOf x == 0), optNat (sLc x), optNat (sRc x),
    optNat (sPar x), toString (sBelow x), optNat (sNla x), pair (sNr x), pair (sCr x),
    toString (sRcnt x), toString (sPoo x), pair (sPor x)]

/-- the thirteen tokens the model prints -/
def modelTokens (x : Nat) : List String :=
  [toString (Node.level x), toString (Node.mid x), bool01 (Node.isLeaf x),
    optNat (Node.leftChild x), optNat (Node.rightChild x), optNat (Node.parent x),
    toString (Node.countBelow x), optNat (Node.nextLeftAncestor x),
    pair (Node.nodeRange x), pair (Node.chunkRange x), toString (Node.rightCount x),
    toString (Node.postOrderOffset x), pair (Node.postOrderRange x)]

/-- the copies ARE the `let`s of `nodeSpecStr` -/
theorem nodeSpecStr_eq (x : Nat) : nodeSpecStr x = " ".intercalate (specTokens x) := rfl

theorem nodeStr_eq_tokens (x : Nat) : nodeStr x = " ".intercalate (modelTokens x) := rfl

/-! ## `node`: one lemma per compared component -/

/-- every `u64` id other than `u64::MAX`: coordinates with `L < 64` -/
theorem coords_lt {x : Nat} (hx : x + 1 < 2 ^ 64) :
    ∃ k L, L < 64 ∧ x = nodeOf k L ∧ levelOf x = L ∧ indexOf x = k := by
  obtain ⟨k, L, rfl⟩ := coords_exist x
  have hL := level_lt hx
  exact ⟨k, L, hL, rfl, levelOf_nodeOf (by omega), indexOf_nodeOf (by omega)⟩

theorem level_clause {x : Nat} (hx : x < 2 ^ 64) : Node.level x = levelOf x := (coords_eq hx).2

theorem mid_clause (x : Nat) : Node.mid x = x + 1 := rfl

theorem isLeaf_clause {x : Nat} (hx : x < 2 ^ 64) : Node.isLeaf x = (levelOf x == 0) := by
  obtain ⟨k, L, rfl⟩ := coords_exist x
  rw [levelOf_nodeOf (level_le hx), isLeaf_spec]
  cases L <;> rfl

theorem leftChild_clause {x : Nat} (hx : x < 2 ^ 64) : Node.leftChild x = sLc x := by
  obtain ⟨k, L, rfl⟩ := coords_exist x
  have hL := level_le hx
  unfold sLc
  rw [levelOf_nodeOf hL, indexOf_nodeOf hL]
  cases L with
  | zero => simp [leftChild_leaf]
  | succ n => simp [leftChild_spec hL]

theorem rightChild_clause {x : Nat} (hx : x < 2 ^ 64) : Node.rightChild x = sRc x := by
  obtain ⟨k, L, rfl⟩ := coords_exist x
  have hL := level_le hx
  unfold sRc
  rw [levelOf_nodeOf hL, indexOf_nodeOf hL]
  cases L with
  | zero => simp [rightChild_leaf]
  | succ n => simp [rightChild_spec hL]

theorem parent_clause {x : Nat} (hx : x + 1 < 2 ^ 64) : Node.parent x = sPar x := by
  obtain ⟨k, L, hL, rfl, eL, ek⟩ := coords_lt hx
  unfold sPar
  rw [eL, ek]
  by_cases h63 : L = 63
  · subst h63; simp [parent_top]
  · rw [if_neg h63, parent_spec (by omega)]

theorem countBelow_clause {x : Nat} (hx : x + 1 < 2 ^ 64) : Node.countBelow x = sBelow x := by
  obtain ⟨k, L, hL, rfl, eL, ek⟩ := coords_lt hx
  unfold sBelow
  rw [eL, countBelow_spec hx]

theorem nextLeftAncestor_clause {x : Nat} (hx : x < 2 ^ 64) : Node.nextLeftAncestor x = sNla x := by
  obtain ⟨k, L, rfl⟩ := coords_exist x
  have hL := level_le hx
  unfold sNla
  rw [levelOf_nodeOf hL, indexOf_nodeOf hL, nextLeftAncestor_spec, nodeOf_succ, startOf_eq,
    Nat.add_sub_cancel]

theorem nodeRange_clause {x : Nat} (hx : x < 2 ^ 64) : Node.nodeRange x = sNr x := by
  obtain ⟨k, L, rfl⟩ := coords_exist x
  have hL := level_le hx
  unfold sNr
  rw [levelOf_nodeOf hL, indexOf_nodeOf hL, nodeRange_spec hL]

theorem chunkRange_clause {x : Nat} (hx : x < 2 ^ 64) : Node.chunkRange x = sCr x := by
  obtain ⟨k, L, rfl⟩ := coords_exist x
  have hL := level_le hx
  unfold sCr
  rw [levelOf_nodeOf hL, indexOf_nodeOf hL, chunkRange_spec hL]

/-- no bound needed: both sides count the one bits of `x + 1` with fuel 64 -/
theorem rightCount_clause (x : Nat) : Node.rightCount x = sRcnt x := by
  unfold sRcnt Node.rightCount
  rw [popc64_eq]

theorem postOrderOffset_clause {x : Nat} (hx : x + 1 < 2 ^ 64) :
    Node.postOrderOffset x = sPoo x := by
  obtain ⟨k, L, hL, rfl, eL, ek⟩ := coords_lt hx
  unfold sPoo sBelow
  rw [eL, ek, popc64_eq, postOrderOffset_spec hx]

theorem postOrderRange_clause {x : Nat} (hx : x + 1 < 2 ^ 64) :
    Node.postOrderRange x = sPor x := by
  unfold sPor Node.postOrderRange
  rw [postOrderOffset_clause hx, countBelow_clause hx]

/-- token level: the model's thirteen tokens are the verdict's -/
theorem modelTokens_eq {x : Nat} (hx : x + 1 < 2 ^ 64) : modelTokens x = specTokens x := by
  have h : x < 2 ^ 64 := by omega
  unfold modelTokens specTokens
  rw [level_clause h, mid_clause, isLeaf_clause h, leftChild_clause h, rightChild_clause h,
    parent_clause hx, countBelow_clause hx, nextLeftAncestor_clause h, nodeRange_clause h,
    chunkRange_clause h, rightCount_clause, postOrderOffset_clause hx, postOrderRange_clause hx]

/-- string level: the model's output IS the string the verdict compares with -/
theorem nodeStr_eq {x : Nat} (hx : x + 1 < 2 ^ 64) : nodeStr x = nodeSpecStr x := by
  rw [nodeStr_eq_tokens, nodeSpecStr_eq, modelTokens_eq hx]

/-- `opNode` after the argument parse -/
theorem opNode_verdict (a impl : String) (x : Nat) (h : a.toNat? = some x) :
    opNode [a] impl =
      { model := nodeStr x,
        specFail := if impl == nodeSpecStr x then none else some s!"spec={nodeSpecStr x}",
        nontrivial := true } := by
  unfold opNode
  simp only [h]

theorem opNode_eq (a impl : String) (x : Nat) (h : a.toNat? = some x) :
    (opNode [a] impl).model = nodeStr x ∧
    (opNode [a] impl).specFail
      = (if impl == nodeSpecStr x then none else some s!"spec={nodeSpecStr x}") := by
  rw [opNode_verdict a impl x h]
  exact ⟨rfl, rfl⟩

/-! ## `nodebs` -/

/-- the model's output of `nodebs x n` -/
def nodeBsModel (x n : Nat) : String := s!"{Node.subBs x n} {optNat (Node.addBs x n)}"

/-- `subtract_block_size` expected by the verdict -/
def sSub (x n : Nat) : Nat := nodeOf (indexOf x) (levelOf x + n)

/-- `add_block_size` expected by the verdict -/
def sAdd (x n : Nat) : Option Nat :=
  if levelOf x ≥ n then some (nodeOf (indexOf x) (levelOf x - n)) else none

/-- the string the `nodebs` verdict compares with -/
def nodeBsSpec (x n : Nat) : String := s!"{sSub x n} {optNat (sAdd x n)}"

theorem opNodeBs_verdict (args : List String) (impl : String) (x n : Nat)
    (h : args.mapM (·.toNat?) = some [x, n]) :
    opNodeBs args impl =
      { model := nodeBsModel x n,
        specFail := if impl == nodeBsSpec x n then none else some s!"spec={nodeBsSpec x n}" } := by
  unfold opNodeBs
  simp only [h]
  rfl

theorem opNodeBs_eq (args : List String) (impl : String) (x n : Nat)
    (h : args.mapM (·.toNat?) = some [x, n]) :
    (opNodeBs args impl).model = nodeBsModel x n ∧
    (opNodeBs args impl).specFail
      = (if impl == nodeBsSpec x n then none else some s!"spec={nodeBsSpec x n}") := by
  rw [opNodeBs_verdict args impl x n h]
  exact ⟨rfl, rfl⟩

/-- the shifted node in coordinates: `(x+1)·2^n = nodeOf k (L+n) + 1` -/
theorem succ_mul_pow (k L n : Nat) : (nodeOf k L + 1) * 2 ^ n = nodeOf k (L + n) + 1 := by
  rw [nodeOf_succ', nodeOf_succ', Nat.mul_assoc, ← Nat.pow_add]

theorem subBs_clause {x n : Nat} (hx : x < 2 ^ 64) (h : (x + 1) * 2 ^ n ≤ 2 ^ 64) :
    Node.subBs x n = sSub x n := by
  obtain ⟨k, L, rfl⟩ := coords_exist x
  have hL := level_le hx
  unfold sSub
  rw [levelOf_nodeOf hL, indexOf_nodeOf hL]
  rw [succ_mul_pow] at h
  exact subBs_spec (by omega)

theorem addBs_clause {x n : Nat} (hx : x < 2 ^ 64) : Node.addBs x n = sAdd x n := by
  obtain ⟨k, L, rfl⟩ := coords_exist x
  have hL := level_le hx
  unfold sAdd
  rw [levelOf_nodeOf hL, indexOf_nodeOf hL, addBs_spec]

theorem nodeBsModel_eq {x n : Nat} (hx : x < 2 ^ 64) (h : (x + 1) * 2 ^ n ≤ 2 ^ 64) :
    nodeBsModel x n = nodeBsSpec x n := by
  unfold nodeBsModel nodeBsSpec
  rw [subBs_clause hx h, addBs_clause hx]

/-! ## `noderp` -/

theorem up_zero (len k L : Nat) : opNodeRp.up len 0 k L = none := rfl

theorem up_succ (len f k L : Nat) : opNodeRp.up len (f + 1) k L =
    if L ≥ 63 then none else
      if nodeOf (k / 2) (L + 1) < len then some (nodeOf (k / 2) (L + 1))
      else opNodeRp.up len f (k / 2) (L + 1) := rfl

theorem rpa_zero (x len : Nat) : Node.restrictedParentAux 0 x len = none := rfl

theorem rpa_succ (f x len : Nat) : Node.restrictedParentAux (f + 1) x len =
    match Node.parent x with
    | none => none
    | some p => if p < len then some p else Node.restrictedParentAux f p len := rfl

/-- the verdict's walk in `(k, L)` coordinates is the model's loop, step by step -/
theorem up_eq (len fuel k L : Nat) (hL : L ≤ 63) :
    opNodeRp.up len fuel k L = Node.restrictedParentAux fuel (nodeOf k L) len := by
  induction fuel generalizing k L with
  | zero => rw [up_zero, rpa_zero]
  | succ f ih =>
    rw [up_succ, rpa_succ]
    by_cases h63 : L = 63
    · have hge : L ≥ 63 := by omega
      rw [if_pos hge, h63, parent_top]
    · have hL' : L < 63 := by omega
      have hn : ¬ L ≥ 63 := by omega
      rw [if_neg hn, parent_spec hL']
      show _ = if nodeOf (k / 2) (L + 1) < len then _ else _
      rw [ih (k / 2) (L + 1) (by omega)]

/-- the restricted parent expected by the verdict -/
def sRp (x len : Nat) : Option Nat := opNodeRp.up len 64 (indexOf x) (levelOf x)

theorem restrictedParent_clause {x : Nat} (len : Nat) (hx : x + 1 < 2 ^ 64) :
    Node.restrictedParent x len = sRp x len := by
  obtain ⟨k, L, hL, rfl, eL, ek⟩ := coords_lt hx
  unfold sRp Node.restrictedParent
  rw [eL, ek, up_eq len 64 k L (by omega)]

/-! ### `noderp` at `x = u64::MAX` (level 64), `len` a `u64`

Above `2^64` the model's `parent` (level capped at 64 by the fuel of `trailingOnes`) oscillates
between `2^65 − 1` and `2^65 + 2^64 − 1`, never below `len ≤ 2^64`; the verdict stops at once. -/

theorem parent_max : Node.parent (2 ^ 64 - 1) = some (2 ^ 65 - 1) := by decide +kernel
theorem parent_above₁ : Node.parent (2 ^ 65 - 1) = some (2 ^ 65 + 2 ^ 64 - 1) := by decide +kernel
theorem parent_above₂ : Node.parent (2 ^ 65 + 2 ^ 64 - 1) = some (2 ^ 65 - 1) := by decide +kernel

theorem rpa_above (len f : Nat) (hlen : len ≤ 2 ^ 64) :
    Node.restrictedParentAux f (2 ^ 65 - 1) len = none ∧
    Node.restrictedParentAux f (2 ^ 65 + 2 ^ 64 - 1) len = none := by
  induction f with
  | zero => exact ⟨rfl, rfl⟩
  | succ f ih =>
    rw [rpa_succ, rpa_succ, parent_above₁, parent_above₂]
    simp only
    rw [if_neg (by omega), if_neg (by omega)]
    exact ⟨ih.2, ih.1⟩

theorem restrictedParent_max {len : Nat} (hlen : len ≤ 2 ^ 64) :
    Node.restrictedParent (2 ^ 64 - 1) len = none := by
  unfold Node.restrictedParent
  rw [show (64 : Nat) = 63 + 1 from rfl, rpa_succ, parent_max]
  simp only
  rw [if_neg (by omega)]
  exact (rpa_above len 63 hlen).1

theorem sRp_max (len : Nat) : sRp (2 ^ 64 - 1) len = none := by
  unfold sRp
  rw [show levelOf (2 ^ 64 - 1) = 64 by decide +kernel, show (64 : Nat) = 63 + 1 from rfl, up_succ,
    if_pos (by omega)]

/-- all `u64` ids, `len` a `u64` (or `2^64`) -/
theorem restrictedParent_clause_u64 {x len : Nat} (hx : x < 2 ^ 64) (hlen : len ≤ 2 ^ 64) :
    Node.restrictedParent x len = sRp x len := by
  by_cases h : x + 1 < 2 ^ 64
  · exact restrictedParent_clause len h
  · obtain rfl : x = 2 ^ 64 - 1 := by omega
    rw [restrictedParent_max hlen, sRp_max]

theorem opNodeRp_verdict (args : List String) (impl : String) (x len : Nat)
    (h : args.mapM (·.toNat?) = some [x, len]) :
    opNodeRp args impl =
      { model := optNat (Node.restrictedParent x len),
        specFail := if impl == optNat (sRp x len) then none
          else some s!"spec={optNat (sRp x len)}" } := by
  unfold opNodeRp
  simp only [h]
  rfl

theorem opNodeRp_eq (args : List String) (impl : String) (x len : Nat)
    (h : args.mapM (·.toNat?) = some [x, len]) :
    (opNodeRp args impl).model = optNat (Node.restrictedParent x len) ∧
    (opNodeRp args impl).specFail
      = (if impl == optNat (sRp x len) then none else some s!"spec={optNat (sRp x len)}") := by
  rw [opNodeRp_verdict args impl x len h]
  exact ⟨rfl, rfl⟩

/-- two-argument parse of decimal renderings -/
theorem mapM_two (x y : Nat) :
    [toString x, toString y].mapM (·.toNat?) = some [x, y] :=
  SpecIndex.mapM_toNat?_toString [x, y]

end Bao.SpecNode
