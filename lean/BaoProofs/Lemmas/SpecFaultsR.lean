import BaoProofs.Lemmas.SpecFaultsL
import BaoProofs.Props.C04SpecEnc
import BaoProofs.Props.C03

/-!
# More lemmas for `Lemmas/SpecFaults.lean`: the skeleton of an operation against the log of its twin

* section 8: the reach hypothesis `EncReach` of the byte encoders holds on intact stores
  (`encReach_intact`): the fault-free run of `encodeRangesF` ends `ok` (`C04SpecEnc`), an `ok` run made
  all the calls of its plan (`loopFL_ok_log`), and the skeleton has at most these calls (`plan_count`);
* section 9: `twinOk` holds for `outboard_post_order` (`twinOk_obpo`);
* section 10: `splitOn "/"` of the rendered operation descriptor.
-/

namespace Bao.SpecFaults
open Bao Bao.Ops Bao.Proto Bao.SpecIndex Bao.SpecOb Bao.SpecSerde Bao.EncFaultL

/-! ## 8. the reach hypothesis of the byte encoders holds on intact stores -/

/-- the objects of the calls an encoder makes for one chunk of its plan -/
def chunkObjs : Chunk → List EncObj
  | .parent .. => [.ob, .w]
  | .leaf .. => [.data, .w]

/-- a fault-free run that ends `ok` made all the calls of its plan -/
theorem loopFL_ok_log {H : Type} (hf : HashFns H) [BEq H] (fl : Flavour) (validate : Bool)
    (data : List UInt8) (ob : Store H) (plan : List Chunk) :
    ∀ (stack : List H) (out : List UInt8) (nd no nw : Nat),
    (encodeLoopFL hf fl validate data ob none plan stack out nd no nw).2.terminal = .ok →
    (encodeLoopFL hf fl validate data ob none plan stack out nd no nw).1.map EncEv.obj
      = plan.flatMap chunkObjs := by
  induction plan with
  | nil => intros; rfl
  | cons c plan ih =>
    intro stack out nd no nw
    cases c with
    | parent node isRoot left right rs =>
      simp only [encodeLoopFL, hits_none]
      rcases ob.load hf fl node with (_ | ⟨l, r⟩) | e | _
      · intro h; cases h
      · cases validate with
        | true =>
          cases stack with
          | nil => intro h; cases h
          | cons expected stack =>
            simp only [if_true]
            by_cases hm : (hf.parentCv l r isRoot != expected) = true
            · simp only [if_pos hm]; intro h; cases h
            · simp only [if_neg hm]
              intro h
              simp only [List.map_cons, List.flatMap_cons, chunkObjs, EncEv.obj, List.cons_append,
                List.nil_append]
              rw [ih _ _ _ _ _ h]
        | false =>
          simp only [Bool.false_eq_true, if_false]
          intro h
          simp only [List.map_cons, List.flatMap_cons, chunkObjs, EncEv.obj, List.cons_append,
            List.nil_append]
          rw [ih _ _ _ _ _ h]
      · intro h; cases h
      · intro h; cases h
    | leaf start size isRoot rs =>
      simp only [encodeLoopFL, hits_none]
      have key : ∀ (stack : List H) (expected : Option H),
          (match readExactAt data (toBytes start) size with
            | .error e => (([.data start size], ⟨out, .err (.io e)⟩) : List EncEv × EncRun)
            | .ok buf =>
              match (if (!Ranges.isAll rs) = true then
                  encodeSelectedRec hf recFuel start buf isRoot rs ob.tree.bs true
                else (hashSubtree hf start buf isRoot, buf)) with
              | (actual, toWrite) =>
              if (match expected with | some e => actual != e | none => false) = true then
                ([.data start size], ⟨out, .err (.leafHashMismatch start)⟩)
              else
                (.data start size :: .w false start toWrite ::
                  (encodeLoopFL hf fl validate data ob none plan stack (out ++ toWrite) (nd + 1) no
                    (nw + 1)).1,
                  (encodeLoopFL hf fl validate data ob none plan stack (out ++ toWrite) (nd + 1) no
                    (nw + 1)).2)).2.terminal = .ok →
          (match readExactAt data (toBytes start) size with
            | .error e => (([.data start size], ⟨out, .err (.io e)⟩) : List EncEv × EncRun)
            | .ok buf =>
              match (if (!Ranges.isAll rs) = true then
                  encodeSelectedRec hf recFuel start buf isRoot rs ob.tree.bs true
                else (hashSubtree hf start buf isRoot, buf)) with
              | (actual, toWrite) =>
              if (match expected with | some e => actual != e | none => false) = true then
                ([.data start size], ⟨out, .err (.leafHashMismatch start)⟩)
              else
                (.data start size :: .w false start toWrite ::
                  (encodeLoopFL hf fl validate data ob none plan stack (out ++ toWrite) (nd + 1) no
                    (nw + 1)).1,
                  (encodeLoopFL hf fl validate data ob none plan stack (out ++ toWrite) (nd + 1) no
                    (nw + 1)).2)).1.map EncEv.obj
            = (Chunk.leaf start size isRoot rs :: plan).flatMap chunkObjs := by
        intro stack expected
        cases readExactAt data (toBytes start) size with
        | error e => intro h; cases h
        | ok buf =>
          simp only []
          generalize (if (!Ranges.isAll rs) = true then
            encodeSelectedRec hf recFuel start buf isRoot rs ob.tree.bs true
            else (hashSubtree hf start buf isRoot, buf)) = p
          obtain ⟨actual, toWrite⟩ := p
          simp only []
          generalize (match expected with | some e => actual != e | none => false) = cnd
          cases cnd with
          | true => intro h; cases h
          | false =>
            simp only [Bool.false_eq_true, if_false]
            intro h
            simp only [List.map_cons, List.flatMap_cons, chunkObjs, EncEv.obj, List.cons_append,
              List.nil_append]
            rw [ih _ _ _ _ _ h]
      cases validate with
      | true =>
        cases stack with
        | nil => intro h; cases h
        | cons expected stack => exact key stack (some expected)
      | false => exact key stack none

/-- the skeleton events of one chunk of an encoder plan -/
def encSkel (d : List UInt8) (bs : Nat) (kind : StoreKind) (c : Chunk) : List Ev :=
  match c with
  | .parent node _ _ _ _ =>
    [(⟨"ob", s!"load_{node}", some (true, node)⟩ : Ev)] ++
    (if (kind == .preIo || kind == .postIo) then
      match ({ kind, root := [], tree := ⟨d.length, bs⟩, data := [] } : Store HB).slot node with
      | some k => [(⟨"obio", s!"read_at_{k * 64}_64", some (true, node)⟩ : Ev)]
      | none => []
     else []) ++
    [⟨"w", "write_64", some (true, node)⟩]
  | .leaf start size isRoot rs =>
    let buf := (d.drop (start * 1024)).take size
    let n := if !Ranges.isAll rs then (encodeSelectedRec hf recFuel start buf isRoot rs bs true).2.length else size
    [⟨"data", s!"read_at_{start * 1024}_{size}", some (false, start)⟩, ⟨"w", s!"write_{n}", some (false, start)⟩]

/-- the names of the byte encoders -/
def encNames : List String := ["encv-sync", "encp-sync", "encv-fsm", "encp-fsm"]

theorem opTrace_enc (name : String) (hn : name ∈ encNames) (d : List UInt8) (bs : Nat)
    (kind : StoreKind) (ranges : Ranges) :
    opTrace name d bs kind ranges =
      if name == "encv-sync" && ranges.isEmpty then some [] else
      ((⟨d.length, bs⟩ : Tree).prePartialChunks (Ranges.truncate ranges d.length) 0).map
        fun plan => plan.flatMap (encSkel d bs kind) := by
  simp only [encNames, List.mem_cons, List.not_mem_nil, or_false] at hn
  rcases hn with rfl | rfl | rfl | rfl <;> rfl

theorem cnt_parent (l1 l3 : String) (i1 i3 : Option (Bool × Nat)) (X : List Ev)
    (hX : X = [] ∨ ∃ l i, X = [(⟨"obio", l, i⟩ : Ev)]) (o : String)
    (ho : o = "data" ∨ o = "ob" ∨ o = "w" ∨ o = "obio") :
    ((([(⟨"ob", l1, i1⟩ : Ev)] ++ X ++ [(⟨"w", l3, i3⟩ : Ev)]).filter (·.obj == o)).length
      ≤ ([EncObj.ob, EncObj.w] : List EncObj).count (encObjOf o)) := by
  rcases hX with rfl | ⟨l, i, rfl⟩ <;> rcases ho with rfl | rfl | rfl | rfl <;>
    simp +decide [List.filter, encObjOf]

theorem cnt_leaf (l1 l2 : String) (i1 i2 : Option (Bool × Nat)) (o : String)
    (ho : o = "data" ∨ o = "ob" ∨ o = "w" ∨ o = "obio") :
    ((([(⟨"data", l1, i1⟩ : Ev), (⟨"w", l2, i2⟩ : Ev)]).filter (·.obj == o)).length
      ≤ ([EncObj.data, EncObj.w] : List EncObj).count (encObjOf o)) := by
  rcases ho with rfl | rfl | rfl | rfl <;> simp +decide [List.filter, encObjOf]

theorem encSkel_count (d : List UInt8) (bs : Nat) (kind : StoreKind) (c : Chunk) (o : String)
    (ho : o ∈ ["data", "ob", "w", "obio"]) :
    ((encSkel d bs kind c).filter (·.obj == o)).length ≤ (chunkObjs c).count (encObjOf o) := by
  simp only [List.mem_cons, List.not_mem_nil, or_false] at ho
  cases c with
  | parent node isRoot left right rs =>
    apply cnt_parent _ _ _ _ _ _ o ho
    split
    · split
      · exact Or.inr ⟨_, _, rfl⟩
      · exact Or.inl rfl
    · exact Or.inl rfl
  | leaf start size isRoot rs => exact cnt_leaf _ _ _ _ o ho

theorem plan_count (d : List UInt8) (bs : Nat) (kind : StoreKind) (plan : List Chunk) (o : String)
    (ho : o ∈ ["data", "ob", "w", "obio"]) :
    ((plan.flatMap (encSkel d bs kind)).filter (·.obj == o)).length
      ≤ (plan.flatMap chunkObjs).count (encObjOf o) := by
  induction plan with
  | nil => simp
  | cons c plan ih =>
    simp only [List.flatMap_cons, List.filter_append, List.length_append, List.count_append]
    exact Nat.add_le_add (encSkel_count d bs kind c o ho) ih

/-- the fault-free run of the encoder twin on an intact store ends `ok` -/
theorem encF_intact_ok (kind : StoreKind) (hne : kind ≠ .empty) (d : List UInt8) (bs : Nat)
    (hs : d.length ≤ 2 ^ 63) (hbs : bs ≤ 10) (fl : Flavour) (validate : Bool) {q : Ranges}
    (hwf : Ranges.WF q = true) :
    (encodeRangesF hf fl validate d (intactStore kind d bs) q none).terminal = .ok := by
  cases validate with
  | true => rw [C10.encF_none_validated, SpecEnc.val_component kind hne d bs hs hbs fl hwf]
  | false => rw [C10.encF_none_plain, SpecEnc.plain_component kind hne d bs hs hbs fl hwf]

/-- … hence its call log is the whole plan -/
theorem encLog_intact (kind : StoreKind) (hne : kind ≠ .empty) (d : List UInt8) (bs : Nat)
    (hs : d.length ≤ 2 ^ 63) (hbs : bs ≤ 10) (fl : Flavour) (validate : Bool) {q : Ranges}
    (hwf : Ranges.WF q = true) (hc : (validate && fl == .sync && q.isEmpty) = false)
    (plan : List Chunk)
    (hplan : (⟨d.length, bs⟩ : Tree).prePartialChunks (Ranges.truncate q d.length) 0 = some plan) :
    encLog hf fl validate d (intactStore kind d bs) q = plan.flatMap chunkObjs := by
  have hok := encF_intact_ok kind hne d bs hs hbs fl validate hwf
  rw [← encRunL_run] at hok
  unfold encLog encEvents
  unfold encRunL at hok ⊢
  rw [if_neg (by rw [hc]; exact Bool.false_ne_true)] at hok ⊢
  simp only [SpecEnc.intactStore_tree, hplan] at hok ⊢
  exact loopFL_ok_log hf fl validate d _ plan _ _ _ _ _ hok

theorem flOf_fsm (name : String) (h : name.endsWith "-fsm" = true) : flOf name = .fsm := by
  unfold flOf; rw [if_pos h]
theorem flOf_sync (name : String) (h : name.endsWith "-fsm" = false) : flOf name = .sync := by
  unfold flOf; rw [if_neg (by rw [h]; exact Bool.false_ne_true)]

/-- the reach hypothesis of the byte encoders holds on every intact store that is not the
`EmptyOutboard` (blob size `≤ 2^63`, block size `≤ 10`, well-formed query) -/
theorem encReach_intact (name : String) (hn : name ∈ encNames) (d : List UInt8) (bs : Nat)
    (kind : StoreKind) (ranges : Ranges) (tr : List Ev) (hne : kind ≠ .empty)
    (hs : d.length ≤ 2 ^ 63) (hbs : bs ≤ 10) (hwf : Ranges.WF ranges = true)
    (htr : opTrace name d bs kind ranges = some tr) : EncReach name d bs kind ranges tr := by
  intro o ho
  rw [opTrace_enc name hn] at htr
  have hobjs : o ∈ ["data", "ob", "w", "obio"] := by
    simp only [encNames, List.mem_cons, List.not_mem_nil, or_false] at hn
    rcases hn with rfl | rfl | rfl | rfl <;> (rw [opObjs_enc _ (by swdec)] at ho; exact ho)
  split at htr
  · cases htr; exact Nat.zero_le _
  · rename_i hcond
    obtain ⟨plan, hplan, rfl⟩ := Option.map_eq_some_iff.1 htr
    have hc : ((name.startsWith "encv") && flOf name == .sync && ranges.isEmpty) = false := by
      simp only [encNames, List.mem_cons, List.not_mem_nil, or_false] at hn
      rcases hn with rfl | rfl | rfl | rfl
      · rw [show ("encv-sync" : String).startsWith "encv" = true from by swdec,
          flOf_sync _ (by rw [endsWith_eq_decide]; decide),
          show (Flavour.sync == Flavour.sync) = true from by decide]
        simpa using hcond
      · rw [show ("encp-sync" : String).startsWith "encv" = false from by swdec]; rfl
      · rw [flOf_fsm _ (by rw [endsWith_eq_decide]; decide),
          show (Flavour.fsm == Flavour.sync) = false from by decide]
        simp
      · rw [show ("encp-fsm" : String).startsWith "encv" = false from by swdec]; rfl
    rw [encLog_intact kind hne d bs hs hbs (flOf name) _ hwf hc plan hplan]
    exact plan_count d bs kind plan o hobjs


/-! ## 9. `twinOk` holds for `outboard_post_order` -/

/-- the skeleton calls of one chunk of the post-order plan -/
def obpoSkel : Chunk → List (String × String)
  | .parent .. => [("w", "write_32"), ("w", "write_32")]
  | .leaf _ size _ _ => [("data", s!"read_{size}")]

theorem hits_none (o : FObj) (n : Nat) : Fault.hits none o n = none := rfl

/-- a fault-free run that ends `ok` made all the calls of its plan (hash outputs are 32 bytes) -/
theorem obpoLoop_ok_calls {H : Type} (hf : HashFns H) (hol : OutLen hf) (plan : List Chunk) :
    ∀ (stack : List H) (data out : List UInt8) (nd nw : Nat),
    (∀ x ∈ stack, (hf.toBytes x).length = 32) →
    (∃ h, (outboardPostOrderLoopF hf none plan stack data out nd nw).2.res = .ok h) →
    FEv.calls (outboardPostOrderLoopF hf none plan stack data out nd nw).1 = plan.flatMap obpoSkel := by
  induction plan with
  | nil =>
    intro stack data out nd nw _ _
    unfold outboardPostOrderLoopF
    split <;> rfl
  | cons c plan ih =>
    intro stack data out nd nw hst hok
    cases c with
    | parent node isRoot left right rs =>
      unfold outboardPostOrderLoopF at hok ⊢
      match stack, hst with
      | [], _ => obtain ⟨h, hh⟩ := hok; cases hh
      | [_], _ => obtain ⟨h, hh⟩ := hok; cases hh
      | r :: l :: stack, hst =>
        simp only [hits_none] at hok ⊢
        have hl := hst l (by simp)
        have hr := hst r (by simp)
        have hst' : ∀ x ∈ hf.parentCv l r isRoot :: stack, (hf.toBytes x).length = 32 := by
          intro x hx
          rcases List.mem_cons.1 hx with rfl | hx
          · exact hol.2 _ _ _
          · exact hst x (by simp [hx])
        have := ih _ _ _ _ _ hst' hok
        simp only [FEv.calls, List.filterMap_cons, FEv.obj, Option.map_some, FEv.label, hl, hr,
          List.flatMap_cons, obpoSkel] at this ⊢
        rw [this]
        rfl
    | leaf start size isRoot rs =>
      unfold outboardPostOrderLoopF at hok ⊢
      simp only [hits_none] at hok ⊢
      cases hre : readExact data size with
      | error e => rw [hre] at hok; obtain ⟨h, hh⟩ := hok; cases hh
      | ok p =>
        obtain ⟨buf, rest⟩ := p
        rw [hre] at hok
        simp only [] at hok ⊢
        have hst' : ∀ x ∈ hashSubtree hf start buf isRoot :: stack, (hf.toBytes x).length = 32 := by
          intro x hx
          rcases List.mem_cons.1 hx with rfl | hx
          · exact cvLevel_len hf hol _ _ _ _
          · exact hst x hx
        have := ih _ _ _ _ _ hst' hok
        simp only [FEv.calls, List.filterMap_cons, FEv.obj, Option.map_some, FEv.label,
          List.flatMap_cons, obpoSkel] at this ⊢
        rw [this]
        rfl

theorem skel_flatMap {α : Type} (l : List α) (f : α → List Ev) (g : α → List (String × String))
    (h : ∀ c, ((f c).filter (·.obj != "obio")).map (fun e => (e.obj, e.label)) = g c) :
    ((l.flatMap f).filter (·.obj != "obio")).map (fun e => (e.obj, e.label)) = l.flatMap g := by
  induction l with
  | nil => rfl
  | cons c l ih => simp only [List.flatMap_cons, List.filter_append, List.map_append, ih, h]

/-- `twinOk` for `obpo-sync` / `obpo-fsm`: the call log of the fault-free `outboardPostOrderF` IS the
skeleton (blob size `≤ 2^63`, block size `≤ 10`): the model prints the real report -/
theorem twinOk_obpo (name : String) (hn : name = "obpo-sync" ∨ name = "obpo-fsm") (d : List UInt8)
    (bs : Nat) (kind : StoreKind) (ranges : Ranges) (tr : List Ev)
    (hs : d.length ≤ 2 ^ 63) (hbs : bs ≤ 10) (htr : opTrace name d bs kind ranges = some tr) :
    twinOkOf name d bs kind ranges tr = true := by
  have htr' : tr = (⟨d.length, bs⟩ : Tree).postOrderChunks.flatMap fun c =>
      match c with
      | .parent .. => [(⟨"w", "write_32", none⟩ : Ev), ⟨"w", "write_32", none⟩]
      | .leaf _ size _ _ => [⟨"data", s!"read_{size}", none⟩] := by
    rcases hn with rfl | rfl <;> (injection htr with htr; exact htr.symm)
  have hcalls : faultCalls name d bs kind ranges
      = some (FEv.calls (outboardPostOrderF hf d ⟨d.length, bs⟩ none).1) := by
    rcases hn with rfl | rfl <;> exact (twinF_obpo _ d bs kind ranges (by swdec) (by swdec)).calls
  unfold twinOkOf
  rw [hcalls]
  simp only [beq_iff_eq]
  have hok : ∃ h, (outboardPostOrderF hf d ⟨d.length, bs⟩ none).2.res = .ok h := by
    rw [C10.obpoF_none, C03.post_order_writer hf d bs hs hbs]
    exact ⟨_, rfl⟩
  unfold outboardPostOrderF at hok ⊢
  rw [obpoLoop_ok_calls hf hf_outLen _ [] d [] 0 0 (fun _ h => by cases h) hok, htr']
  symm
  apply skel_flatMap
  intro c
  cases c <;> rfl


/-! ## 10. rendered descriptors -/

theorem toList_intercalate_slash (a : String) (as : List String) :
    ("/".intercalate (a :: as)).toList = a.toList ++ joinTailC '/' (as.map String.toList) := by
  induction as generalizing a with
  | nil => simp [joinTailC]
  | cons u l ih =>
    rw [String.intercalate_cons_cons, String.toList_append, String.toList_append, ih,
      show ("/" : String).toList = ['/'] from rfl]
    simp [joinTailC]

/-- `splitOn "/"` inverts joining `/`-free tokens with `"/"` -/
theorem splitOn_slash_intercalate (toks : List String) (hne : toks ≠ [])
    (hc : ∀ t ∈ toks, NoCh '/' t) : ("/".intercalate toks).splitOn "/" = toks := by
  obtain ⟨a, as, rfl⟩ := List.exists_cons_of_ne_nil hne
  rw [splitOn_char "/" '/' oneChar_slash, toList_intercalate_slash]
  have ha := hc a (List.mem_cons_self ..)
  have has : ∀ t ∈ as.map String.toList, '/' ∉ t := by
    intro t ht
    obtain ⟨u, hu, rfl⟩ := List.mem_map.1 ht
    exact hc u (List.mem_cons_of_mem _ hu)
  rw [splitLc_append '/' a.toList ha, splitLc_join '/' _ has, List.nil_append]
  simp [String.ofList_toList]

theorem noSlash_natList (l : List Nat) : NoCh '/' (natList l) := by
  unfold natList
  split
  · exact noCh_lit _ _ (by decide)
  · refine noCh_intercalate '/' "," (noCh_lit _ _ (by decide)) _ ?_
    intro t ht
    obtain ⟨n, -, rfl⟩ := List.mem_map.1 ht
    exact noCh_nat '/' (by decide) n

theorem noSlash_kindStr (k : StoreKind) : NoCh '/' (kindStr k) := by
  cases k <;> exact noCh_lit _ _ (by decide)

/-- the rendered descriptor splits into its five fields -/
theorem spec_split (name b : String) (bs : Nat) (kind : StoreKind) (ranges : Ranges)
    (hname : NoCh '/' name) (hb : NoCh '/' b) :
    ("/".intercalate [name, b, toString bs, kindStr kind, natList ranges]).splitOn "/"
      = [name, b, toString bs, kindStr kind, natList ranges] := by
  apply splitOn_slash_intercalate _ (by simp)
  intro t ht
  simp only [List.mem_cons, List.not_mem_nil, or_false] at ht
  rcases ht with rfl | rfl | rfl | rfl | rfl
  · exact hname
  · exact hb
  · exact noCh_nat '/' (by decide) bs
  · exact noSlash_kindStr kind
  · exact noSlash_natList ranges

/-- the names of `opTrace` that start with `enc` are the four encoder names -/
theorem encNames_of (name : String) (hn : name ∈ names17) (h : name.startsWith "enc" = true) :
    name ∈ encNames := by
  simp only [names17, List.mem_cons, List.not_mem_nil, or_false] at hn
  rcases hn with rfl | rfl | rfl | rfl | rfl | rfl | rfl | rfl | rfl | rfl | rfl | rfl | rfl | rfl |
    rfl | rfl | rfl
  iterate 4 decide
  all_goals (exfalso; revert h; rw [sw_eq]; decide)

/-! ## 11. the token verdict does reject -/

/-- the token verdict rejects a swallowed fault -/
theorem tokVerdict_rejects_ok (part kd0 : String) (h1 : NoCh '=' kd0) :
    (tokVerdict part (kd0 ++ "=" ++ "Ok" ++ "/a0/p1")).isSome = true := by
  unfold tokVerdict
  rw [String.append_assoc, split_eq2 kd0 _ h1 (noCh_lit _ _ (by decide))]
  simp only []
  rw [split_slash3 "Ok" (noCh_lit _ _ (by decide))]
  simp

/-- the token verdict rejects a fault reported as a hash mismatch -/
theorem tokVerdict_rejects_mismatch (part kd0 : String) (n : Nat) (h1 : NoCh '=' kd0) :
    (tokVerdict part (kd0 ++ "=" ++ numRes "ParentHashMismatch" n ++ "/a0/p1")).isSome = true := by
  have hne : NoCh '=' (numRes "ParentHashMismatch" n) := numRes_noCh '=' (by decide) _ n (by decide)
  have hsl : NoCh '/' (numRes "ParentHashMismatch" n) := numRes_noCh '/' (by decide) _ n (by decide)
  unfold tokVerdict
  rw [String.append_assoc, split_eq2 kd0 _ h1 (noCh_append hne (noCh_lit _ _ (by decide)))]
  simp only []
  rw [split_slash3 _ hsl]
  have h2 : (numRes "ParentHashMismatch" n == "Ok") = false := by
    have := ne_Ok_of_head _ 'P' _ (numRes_toList "ParentHashMismatch" n 'P' _ rfl) (by decide)
    simpa using this
  have h3 : (numRes "ParentHashMismatch" n).startsWith "panic" = false :=
    not_startsWith _ "panic" 'P' 'p' _ ['a', 'n', 'i', 'c']
      (numRes_toList "ParentHashMismatch" n 'P' _ rfl) rfl (by decide)
  have h4 : (numRes "ParentHashMismatch" n).contains "HashMismatch" = true := by
    rw [String.contains_string_iff]
    refine ⟨"Parent".toList, ("(" ++ toString n ++ ")").toList, ?_⟩
    unfold numRes
    simp only [String.toList_append]
    rfl
  simp only [h2, h3, h4, Bool.false_eq_true, if_false, if_true, Option.isSome_some]


end Bao.SpecFaults
