import BaoProofs.Props.C12Store
import BaoProofs.Lemmas.SpecIndexStr
import BaoProofs.Props.C13
import BaoModel.Ops5

/-!
# Lemmas for `Props/C12SpecIndex.lean`: the counting indices `Spec.preIndex` / `Spec.postIndex`

* `countLevel` / `countSub`: `countSub n minL L k` is the length of `preNodes n minL L k`
  (and of `postNodes n minL L k`): `countSub_eq_length`, `countSub_eq_length_post`.
* `preIndexAux` / `postIndexAux` walk down from `(k, Lx + d)` to `(kx, Lx)`; when they answer
  `some r`, `r - idx` is a position of `nodeOf kx Lx` in `preNodes` / `postNodes`
  (`preIndexAux_some`, `postIndexAux_some`); for an existing node of level `≥ minL` inside the
  subtree they do answer (`preIndexAux_isSome`, `postIndexAux_isSome`).
* top level: `preIndex_iff`, `preIndex_none_iff`, `postIndex_iff`, `postIndex_none_iff` (with the C12
  injectivity), `preIndex_eq_indexOfNode'`, `postIndex_eq_indexOfNode'`.
* the nodes the verdicts call "of the tree": `inTree_cases`; `pre_model`, `post_model` (model offset =
  counting index, with the stable tag), `slot_model`, `relevant_model`.
* stores: `store_some`, `store_some_empty`, `store_none` (any hash instance).
* `treeoff` strings: `specTok`, `modelTok`, `treeoffVerdict`, `opTreeOff_eq`, `tok_eq`, `bads_nil`.
* `store` strings: `storeModelStr`, `storeVerdict`, `opStore_eq`, `verdict_some/none`,
  `model_some/none`, `randBytes_length`.
* tokens: no token contains a space (`noSp_modelTok`, `noSp_specTok`, `noSp_storeTokens`), so
  `splitOn " "` (`Lemmas/SpecIndexStr.lean`) recovers them: `treeoff_split_model`, `treeoff_split_spec`,
  `split_fmt5`; `storeTokens`.
-/

namespace Bao.SpecIndex
open Bao Bao.Spec Bao.Bits Bao.Offsets

/-! ## `countLevel` -/

theorem lt_ceil_div_iff (a b k : Nat) (hb : 0 < b) : k < (a + b - 1) / b ↔ k * b < a := by
  rw [Nat.lt_iff_add_one_le, Nat.le_div_iff_mul_le hb, Nat.add_mul, Nat.one_mul]
  omega

/-- `k' < lim ↔ mid < n` -/
theorem lt_lim_iff (n L k : Nat) (h : ¬ n ≤ 2 ^ L) :
    k < (n - 2 ^ L + 2 ^ (L + 1) - 1) / 2 ^ (L + 1) ↔ midOf k L < n := by
  rw [lt_ceil_div_iff _ _ _ (two_pow_pos' _)]
  unfold midOf
  omega

theorem countLevel_single (n L k : Nat) :
    countLevel n L k (k + 1) = if midOf k L < n then 1 else 0 := by
  unfold countLevel
  by_cases h : n ≤ 2 ^ L
  · have : ¬ midOf k L < n := by unfold midOf; omega
    rw [if_pos h, if_neg this]
  · rw [if_neg h]
    have := lt_lim_iff n L k h
    simp only
    generalize (n - 2 ^ L + 2 ^ (L + 1) - 1) / 2 ^ (L + 1) = lim at *
    by_cases hm : midOf k L < n
    · rw [if_pos hm]; have := this.2 hm; omega
    · rw [if_neg hm]; have := mt this.1 hm; omega

theorem countLevel_add (n L lo mid hi : Nat) (h1 : lo ≤ mid) (h2 : mid ≤ hi) :
    countLevel n L lo hi = countLevel n L lo mid + countLevel n L mid hi := by
  unfold countLevel
  by_cases h : n ≤ 2 ^ L
  · simp only [if_pos h]
  · simp only [if_neg h]
    generalize (n - 2 ^ L + 2 ^ (L + 1) - 1) / 2 ^ (L + 1) = lim
    omega

/-! ## `countSub` as a sum over the levels -/

/-- the contribution of level `L'` to `countSub n minL L k` -/
def term (n minL L k L' : Nat) : Nat :=
  if L' ≥ minL then countLevel n L' (k * 2 ^ (L - L')) ((k + 1) * 2 ^ (L - L')) else 0

/-- sum of the contributions of the levels `< m` -/
def csum (n minL L k : Nat) : Nat → Nat
  | 0 => 0
  | m + 1 => csum n minL L k m + term n minL L k m

theorem foldl_eq_csum (n minL L k m : Nat) :
    (List.range m).foldl (fun acc L' =>
      if L' ≥ minL then acc + countLevel n L' (k * 2 ^ (L - L')) ((k + 1) * 2 ^ (L - L')) else acc) 0
      = csum n minL L k m := by
  induction m with
  | zero => rfl
  | succ m ih =>
    rw [List.range_succ, List.foldl_append, ih]
    simp only [List.foldl_cons, List.foldl_nil, csum, term]
    split <;> rfl

theorem countSub_eq_csum (n minL L k : Nat) : countSub n minL L k = csum n minL L k (L + 1) :=
  foldl_eq_csum n minL L k (L + 1)

theorem term_split (n minL L k m : Nat) (hm : m ≤ L) :
    term n minL (L + 1) k m = term n minL L (2 * k) m + term n minL L (2 * k + 1) m := by
  unfold term
  by_cases h : m ≥ minL
  · simp only [if_pos h]
    have e : L + 1 - m = (L - m) + 1 := by omega
    rw [e, Nat.pow_succ]
    have hp := two_pow_pos' (L - m)
    generalize 2 ^ (L - m) = p at *
    have e1 : k * (p * 2) = 2 * k * p := by
      rw [Nat.mul_comm p 2, ← Nat.mul_assoc, Nat.mul_comm k 2]
    have e2 : (k + 1) * (p * 2) = (2 * k + 1 + 1) * p := by
      rw [Nat.mul_comm p 2, ← Nat.mul_assoc]; congr 1; omega
    rw [e1, e2]
    apply countLevel_add
    · exact Nat.mul_le_mul_right _ (by omega)
    · exact Nat.mul_le_mul_right _ (by omega)
  · simp only [if_neg h]

theorem csum_split (n minL L k m : Nat) (hm : m ≤ L + 1) :
    csum n minL (L + 1) k m = csum n minL L (2 * k) m + csum n minL L (2 * k + 1) m := by
  induction m with
  | zero => rfl
  | succ m ih =>
    simp only [csum, ih (by omega), term_split n minL L k m (by omega)]
    omega

theorem term_top (n minL L k : Nat) :
    term n minL L k L = if midOf k L < n ∧ L ≥ minL then 1 else 0 := by
  unfold term
  by_cases h : L ≥ minL
  · simp only [if_pos h, Nat.sub_self, Nat.pow_zero, Nat.mul_one, countLevel_single]
    by_cases hm : midOf k L < n
    · rw [if_pos hm, if_pos ⟨hm, h⟩]
    · rw [if_neg hm, if_neg (fun c => hm c.1)]
  · rw [if_neg h, if_neg (fun c => h c.2)]

theorem countSub_zero (n minL k : Nat) :
    countSub n minL 0 k = if midOf k 0 < n ∧ 0 ≥ minL then 1 else 0 := by
  rw [countSub_eq_csum]
  simp only [csum, term_top, Nat.zero_add]

theorem countSub_succ (n minL L k : Nat) :
    countSub n minL (L + 1) k
      = countSub n minL L (2 * k) + countSub n minL L (2 * k + 1)
        + (if midOf k (L + 1) < n ∧ L + 1 ≥ minL then 1 else 0) := by
  rw [countSub_eq_csum, countSub_eq_csum, countSub_eq_csum]
  show csum n minL (L + 1) k (L + 1) + term n minL (L + 1) k (L + 1) = _
  rw [csum_split n minL L k (L + 1) (Nat.le_refl _), term_top]

/-! ## the lists -/

theorem preNodes_nil_of_start (n minL L k : Nat) (h : n ≤ startOf k L) :
    preNodes n minL L k = [] := by
  induction L generalizing k with
  | zero =>
    have := startOf_lt_midOf k 0
    have hm : ¬ (midOf k 0 < n ∧ 0 ≥ minL) := by omega
    simp only [preNodes, if_neg hm]
  | succ L ih =>
    have := startOf_lt_midOf k (L + 1)
    have hm : ¬ midOf k (L + 1) < n := by omega
    simp only [preNodes, if_neg hm]
    exact ih _ (by rw [Bits.startOf_left]; exact h)

theorem postNodes_nil_of_start (n minL L k : Nat) (h : n ≤ startOf k L) :
    postNodes n minL L k = [] := by
  induction L generalizing k with
  | zero =>
    have := startOf_lt_midOf k 0
    have hm : ¬ (midOf k 0 < n ∧ 0 ≥ minL) := by omega
    simp only [postNodes, if_neg hm]
  | succ L ih =>
    have := startOf_lt_midOf k (L + 1)
    have hm : ¬ midOf k (L + 1) < n := by omega
    simp only [postNodes, if_neg hm]
    exact ih _ (by rw [Bits.startOf_left]; exact h)

theorem postNodes_length (n minL L k : Nat) :
    (postNodes n minL L k).length = (preNodes n minL L k).length := by
  induction L generalizing k with
  | zero => rfl
  | succ L ih =>
    simp only [postNodes, preNodes]
    split
    · simp only [List.length_append, ih]; omega
    · exact ih _

/-- `countSub` counts the nodes of the recursive list -/
theorem countSub_eq_length (n minL L k : Nat) :
    countSub n minL L k = (preNodes n minL L k).length := by
  induction L generalizing k with
  | zero =>
    rw [countSub_zero]
    simp only [preNodes]
    split <;> rfl
  | succ L ih =>
    rw [countSub_succ, ih, ih]
    simp only [preNodes]
    by_cases hm : midOf k (L + 1) < n
    · simp only [if_pos hm, List.length_append]
      by_cases hl : L + 1 ≥ minL
      · rw [if_pos ⟨hm, hl⟩]; simp only [if_pos hl, List.length_singleton]; omega
      · rw [if_neg (fun c => hl c.2)]; simp only [if_neg hl, List.length_nil]; omega
    · have hr : preNodes n minL L (2 * k + 1) = [] :=
        preNodes_nil_of_start _ _ _ _ (by rw [Bits.startOf_right]; omega)
      rw [if_neg (fun c => hm c.1)]
      simp only [if_neg hm, hr, List.length_nil]
      omega

theorem countSub_eq_length_post (n minL L k : Nat) :
    countSub n minL L k = (postNodes n minL L k).length := by
  rw [postNodes_length, countSub_eq_length]

/-! ## small list facts -/

theorem getElem?_mid {α : Type} (a l r : List α) (j : Nat) (x : α) (h : l[j]? = some x) :
    (a ++ l ++ r)[a.length + j]? = some x := by
  obtain ⟨hj, _⟩ := List.getElem?_eq_some_iff.1 h
  rw [List.append_assoc, List.getElem?_append_right (by omega), Nat.add_sub_cancel_left,
    List.getElem?_append_left hj, h]

theorem getElem?_right {α : Type} (a l r : List α) (j : Nat) :
    (a ++ l ++ r)[a.length + l.length + j]? = r[j]? := by
  rw [List.getElem?_append_right (by rw [List.length_append]; omega), List.length_append,
    Nat.add_sub_cancel_left]

theorem getElem?_left' {α : Type} (l r : List α) (j : Nat) (x : α) (h : l[j]? = some x) :
    (l ++ r)[j]? = some x := by
  obtain ⟨hj, _⟩ := List.getElem?_eq_some_iff.1 h
  rw [List.getElem?_append_left hj, h]

/-! ## the walk down the tree -/

theorem preIndexAux_succ (n minL kx Lx d k idx : Nat) :
    preIndexAux n minL kx Lx (Lx + d + 1) k idx =
      if startOf kx Lx < midOf k (Lx + d + 1) then
        preIndexAux n minL kx Lx (Lx + d) (2 * k)
          (idx + (if midOf k (Lx + d + 1) < n ∧ Lx + d + 1 ≥ minL then 1 else 0))
      else preIndexAux n minL kx Lx (Lx + d) (2 * k + 1)
          (idx + (if midOf k (Lx + d + 1) < n ∧ Lx + d + 1 ≥ minL then 1 else 0)
            + countSub n minL (Lx + d) (2 * k)) := by
  rw [preIndexAux]
  rw [if_neg (by omega), if_neg (by omega)]

theorem preIndexAux_self (n minL kx Lx k idx : Nat) : preIndexAux n minL kx Lx Lx k idx =
    if k = kx ∧ midOf k Lx < n ∧ Lx ≥ minL then some idx else none := by
  rw [preIndexAux.eq_def]; simp only [if_true]

theorem postIndexAux_succ (n minL kx Lx d k idx : Nat) :
    postIndexAux n minL kx Lx (Lx + d + 1) k idx =
      if startOf kx Lx < midOf k (Lx + d + 1) then
        postIndexAux n minL kx Lx (Lx + d) (2 * k) idx
      else postIndexAux n minL kx Lx (Lx + d) (2 * k + 1)
          (idx + countSub n minL (Lx + d) (2 * k)) := by
  rw [postIndexAux]
  rw [if_neg (by omega), if_neg (by omega)]

theorem postIndexAux_self (n minL kx Lx k idx : Nat) : postIndexAux n minL kx Lx Lx k idx =
    if k = kx ∧ midOf k Lx < n ∧ Lx ≥ minL then some (idx + countSub n minL Lx k - 1)
    else none := by
  rw [postIndexAux.eq_def]; simp only [if_true]

/-- `(kx, Lx)` lies in the subtree `(k, Lx + d + 1)`: it lies in the left half iff its first chunk
is before the mid -/
theorem descend_cases (kx Lx d k : Nat) (h : kx / 2 ^ (d + 1) = k) :
    (startOf kx Lx < midOf k (Lx + d + 1) ∧ kx / 2 ^ d = 2 * k) ∨
    (¬ startOf kx Lx < midOf k (Lx + d + 1) ∧ kx / 2 ^ d = 2 * k + 1) := by
  have hq : kx / 2 ^ d / 2 = k := by rw [Nat.div_div_eq_div_mul, ← Nat.pow_succ]; exact h
  have hiff : startOf kx Lx < midOf k (Lx + d + 1) ↔ kx / 2 ^ d < 2 * k + 1 := by
    rw [Nat.div_lt_iff_lt_mul (two_pow_pos' d)]
    unfold startOf midOf
    have e1 : (2 : Nat) ^ (Lx + d + 1 + 1) = 2 * (2 ^ d * 2 ^ (Lx + 1)) := by
      rw [← Nat.pow_add, ← Nat.pow_succ']; congr 1; omega
    have e2 : (2 : Nat) ^ (Lx + d + 1) = 2 ^ d * 2 ^ (Lx + 1) := by
      rw [← Nat.pow_add]; congr 1; omega
    rw [e1, e2]
    have hp := two_pow_pos' (Lx + 1)
    generalize 2 ^ (Lx + 1) = p at *
    generalize 2 ^ d = e at *
    have e3 : k * (2 * (e * p)) + e * p = (2 * k + 1) * e * p := by grind
    rw [e3]
    exact Nat.mul_lt_mul_right hp
  omega

/-- the pre-order list of an existing node begins with ... (shape used below) -/
theorem preNodes_succ_shape (n minL L k : Nat) :
    preNodes n minL (L + 1) k =
      if midOf k (L + 1) < n then
        (if L + 1 ≥ minL then [nodeOf k (L + 1)] else []) ++ preNodes n minL L (2 * k)
          ++ preNodes n minL L (2 * k + 1)
      else preNodes n minL L (2 * k) := by
  simp only [preNodes]

theorem here_length (n minL L k : Nat) (hm : midOf k (L + 1) < n) :
    (if L + 1 ≥ minL then [nodeOf k (L + 1)] else []).length
      = (if midOf k (L + 1) < n ∧ L + 1 ≥ minL then 1 else 0) := by
  by_cases hl : L + 1 ≥ minL
  · rw [if_pos hl, if_pos ⟨hm, hl⟩]; rfl
  · rw [if_neg hl, if_neg (fun c => hl c.2)]; rfl

/-- when the pre-order walk answers `some r`, `r - idx` is a position of the node in the recursive
pre-order list -/
theorem preIndexAux_some (n minL kx Lx : Nat) : ∀ d k idx r, kx / 2 ^ d = k →
    preIndexAux n minL kx Lx (Lx + d) k idx = some r →
    ∃ j, r = idx + j ∧ (preNodes n minL (Lx + d) k)[j]? = some (nodeOf kx Lx) := by
  intro d
  induction d with
  | zero =>
    intro k idx r hk h
    rw [Nat.add_zero, preIndexAux_self] at h
    split at h
    · rename_i hc
      obtain ⟨rfl, hm, hl⟩ := hc
      injection h with h
      refine ⟨0, by omega, ?_⟩
      rw [Nat.add_zero]
      cases Lx with
      | zero => simp only [preNodes, if_pos (And.intro hm hl)]; rfl
      | succ L => simp only [preNodes, if_pos hm, if_pos hl]; rfl
    · cases h
  | succ d ih =>
    intro k idx r hk h
    rw [← Nat.add_assoc, preIndexAux_succ] at h
    rw [← Nat.add_assoc, preNodes_succ_shape]
    rcases descend_cases kx Lx d k hk with ⟨hlt, hq⟩ | ⟨hlt, hq⟩
    · rw [if_pos hlt] at h
      obtain ⟨j, hr, hj⟩ := ih _ _ _ hq h
      by_cases hm : midOf k (Lx + d + 1) < n
      · rw [if_pos hm]
        refine ⟨(if midOf k (Lx + d + 1) < n ∧ Lx + d + 1 ≥ minL then 1 else 0) + j, by omega, ?_⟩
        rw [← here_length n minL (Lx + d) k hm]
        exact getElem?_mid _ _ _ _ _ hj
      · rw [if_neg hm]
        rw [if_neg (fun c => hm c.1)] at hr
        exact ⟨j, by omega, hj⟩
    · rw [if_neg hlt] at h
      obtain ⟨j, hr, hj⟩ := ih _ _ _ hq h
      by_cases hm : midOf k (Lx + d + 1) < n
      · rw [if_pos hm]
        refine ⟨(if midOf k (Lx + d + 1) < n ∧ Lx + d + 1 ≥ minL then 1 else 0)
          + (preNodes n minL (Lx + d) (2 * k)).length + j, ?_, ?_⟩
        · rw [countSub_eq_length] at hr; omega
        · rw [← here_length n minL (Lx + d) k hm, getElem?_right]
          exact hj
      · have hr' : preNodes n minL (Lx + d) (2 * k + 1) = [] :=
          preNodes_nil_of_start _ _ _ _ (by rw [Bits.startOf_right]; omega)
        rw [hr'] at hj
        simp at hj

/-- an existing node of level `≥ minL` inside the subtree is found -/
theorem preIndexAux_isSome (n minL kx Lx : Nat) (hm : midOf kx Lx < n) (hl : Lx ≥ minL) :
    ∀ d k idx, kx / 2 ^ d = k → ∃ r, preIndexAux n minL kx Lx (Lx + d) k idx = some r := by
  intro d
  induction d with
  | zero =>
    intro k idx hk
    rw [Nat.pow_zero, Nat.div_one] at hk
    rw [Nat.add_zero, preIndexAux_self, if_pos ⟨hk.symm, by rw [← hk]; exact hm, hl⟩]
    exact ⟨_, rfl⟩
  | succ d ih =>
    intro k idx hk
    rw [← Nat.add_assoc, preIndexAux_succ]
    rcases descend_cases kx Lx d k hk with ⟨hlt, hq⟩ | ⟨hlt, hq⟩
    · rw [if_pos hlt]; exact ih _ _ hq
    · rw [if_neg hlt]; exact ih _ _ hq

/-! ### post-order -/

theorem postNodes_succ_shape (n minL L k : Nat) :
    postNodes n minL (L + 1) k =
      if midOf k (L + 1) < n then
        postNodes n minL L (2 * k) ++ postNodes n minL L (2 * k + 1)
          ++ (if L + 1 ≥ minL then [nodeOf k (L + 1)] else [])
      else postNodes n minL L (2 * k) := by
  simp only [postNodes]

/-- the post-order list of an existing node of level `≥ minL` ends with the node -/
theorem postNodes_last (n minL L k : Nat) (hm : midOf k L < n) (hl : L ≥ minL) :
    ∃ l, postNodes n minL L k = l ++ [nodeOf k L] := by
  cases L with
  | zero => exact ⟨[], by simp only [postNodes, if_pos (And.intro hm hl)]; rfl⟩
  | succ L =>
    exact ⟨postNodes n minL L (2 * k) ++ postNodes n minL L (2 * k + 1),
      by simp only [postNodes, if_pos hm, if_pos hl]⟩

theorem postIndexAux_some (n minL kx Lx : Nat) : ∀ d k idx r, kx / 2 ^ d = k →
    postIndexAux n minL kx Lx (Lx + d) k idx = some r →
    ∃ j, r = idx + j ∧ (postNodes n minL (Lx + d) k)[j]? = some (nodeOf kx Lx) := by
  intro d
  induction d with
  | zero =>
    intro k idx r hk h
    rw [Nat.add_zero, postIndexAux_self] at h
    split at h
    · rename_i hc
      obtain ⟨rfl, hm, hl⟩ := hc
      injection h with h
      obtain ⟨l, hl'⟩ := postNodes_last n minL Lx k hm hl
      rw [countSub_eq_length_post, hl', List.length_append, List.length_singleton] at h
      refine ⟨l.length, by omega, ?_⟩
      rw [Nat.add_zero, hl']
      simp
    · cases h
  | succ d ih =>
    intro k idx r hk h
    rw [← Nat.add_assoc, postIndexAux_succ] at h
    rw [← Nat.add_assoc, postNodes_succ_shape]
    rcases descend_cases kx Lx d k hk with ⟨hlt, hq⟩ | ⟨hlt, hq⟩
    · rw [if_pos hlt] at h
      obtain ⟨j, hr, hj⟩ := ih _ _ _ hq h
      refine ⟨j, hr, ?_⟩
      split
      · rw [List.append_assoc]; exact getElem?_left' _ _ _ _ hj
      · exact hj
    · rw [if_neg hlt] at h
      obtain ⟨j, hr, hj⟩ := ih _ _ _ hq h
      by_cases hm : midOf k (Lx + d + 1) < n
      · rw [if_pos hm]
        refine ⟨(postNodes n minL (Lx + d) (2 * k)).length + j, ?_, ?_⟩
        · rw [countSub_eq_length_post] at hr; omega
        · rw [List.append_assoc, List.getElem?_append_right (by omega), Nat.add_sub_cancel_left]
          exact getElem?_left' _ _ _ _ hj
      · have hr' : postNodes n minL (Lx + d) (2 * k + 1) = [] :=
          postNodes_nil_of_start _ _ _ _ (by rw [Bits.startOf_right]; omega)
        rw [hr'] at hj
        simp at hj

theorem postIndexAux_isSome (n minL kx Lx : Nat) (hm : midOf kx Lx < n) (hl : Lx ≥ minL) :
    ∀ d k idx, kx / 2 ^ d = k → ∃ r, postIndexAux n minL kx Lx (Lx + d) k idx = some r := by
  intro d
  induction d with
  | zero =>
    intro k idx hk
    rw [Nat.pow_zero, Nat.div_one] at hk
    rw [Nat.add_zero, postIndexAux_self, if_pos ⟨hk.symm, by rw [← hk]; exact hm, hl⟩]
    exact ⟨_, rfl⟩
  | succ d ih =>
    intro k idx hk
    rw [← Nat.add_assoc, postIndexAux_succ]
    rcases descend_cases kx Lx d k hk with ⟨hlt, hq⟩ | ⟨hlt, hq⟩
    · rw [if_pos hlt]; exact ih _ _ hq
    · rw [if_neg hlt]; exact ih _ _ hq

/-! ## the top level: `preIndex` / `postIndex` against `persistedPre` / `persistedPost` -/

theorem preIndex_nodeOf (size bs k L : Nat) (hL : L ≤ 64) :
    preIndex size bs (nodeOf k L) = if startOf k L ≥ nChunks size then none else
      preIndexAux (nChunks size) bs k L (max (log2ceil 64 (nChunks size)) L) 0 0 := by
  unfold preIndex
  simp only [levelOf_nodeOf hL, indexOf_nodeOf hL]

theorem postIndex_nodeOf (size bs k L : Nat) (hL : L ≤ 64) :
    postIndex size bs (nodeOf k L) = if startOf k L ≥ nChunks size then none else
      postIndexAux (nChunks size) bs k L (max (log2ceil 64 (nChunks size)) L) 0 0 := by
  unfold postIndex
  simp only [levelOf_nodeOf hL, indexOf_nodeOf hL]

/-- a node that starts inside a blob of `n ≤ 2^(L+d)` chunks lies in the subtree `(0, L + d)` -/
theorem root_inside (n k L d : Nat) (hn : n ≤ 2 ^ (L + d)) (hst : startOf k L < n) :
    k / 2 ^ d = 0 := by
  apply Nat.div_eq_of_lt
  unfold startOf at hst
  have hp := two_pow_pos' L
  have e1 : (2 : Nat) ^ (L + d) = 2 ^ d * 2 ^ L := by rw [Nat.add_comm, Nat.pow_add]
  have e2 : (2 : Nat) ^ (L + 1) = 2 * 2 ^ L := Nat.pow_succ'
  rw [e1] at hn
  rw [e2] at hst
  have h4 : k * 2 ^ L < 2 ^ d * 2 ^ L := by
    have : k * 2 ^ L ≤ k * (2 * 2 ^ L) := Nat.mul_le_mul_left _ (by omega)
    omega
  exact (Nat.mul_lt_mul_right hp).1 h4

theorem two_pow_le_midOf (k L : Nat) : 2 ^ L ≤ midOf k L := by
  unfold midOf; omega

/-- a level above the root level: the walk answers `none` -/
theorem no_node_above (n H k L : Nat) (hn : n ≤ 2 ^ H) (hL : H < L) : ¬ midOf k L < n := by
  have h1 := two_pow_le_midOf k L
  have h2 : (2 : Nat) ^ H < 2 ^ L := Nat.pow_lt_pow_right (by decide) hL
  omega

theorem preIndex_some_imp (size bs k L i : Nat) (hs : size ≤ 2 ^ 63) (hL : L ≤ 64)
    (h : preIndex size bs (nodeOf k L) = some i) :
    (persistedPre size bs)[i]? = some (nodeOf k L) := by
  have hH := log2ceil_spec 64 (nChunks size) (nChunks_le size hs)
  rw [preIndex_nodeOf _ _ _ _ hL] at h
  unfold persistedPre
  generalize log2ceil 64 (nChunks size) = H at *
  split at h
  · cases h
  · rename_i hst
    by_cases hLH : L ≤ H
    · obtain ⟨d, rfl⟩ : ∃ d, H = L + d := ⟨H - L, by omega⟩
      rw [Nat.max_eq_left hLH] at h
      obtain ⟨j, hj, hget⟩ := preIndexAux_some _ _ _ _ d 0 0 i
        (root_inside _ _ _ _ hH (by omega)) h
      rw [Nat.zero_add] at hj
      rw [hj]; exact hget
    · rw [Nat.max_eq_right (by omega), preIndexAux_self] at h
      have := no_node_above _ _ 0 L hH (by omega)
      rw [if_neg (fun c => this c.2.1)] at h
      cases h

theorem postIndex_some_imp (size bs k L i : Nat) (hs : size ≤ 2 ^ 63) (hL : L ≤ 64)
    (h : postIndex size bs (nodeOf k L) = some i) :
    (persistedPost size bs)[i]? = some (nodeOf k L) := by
  have hH := log2ceil_spec 64 (nChunks size) (nChunks_le size hs)
  rw [postIndex_nodeOf _ _ _ _ hL] at h
  unfold persistedPost
  generalize log2ceil 64 (nChunks size) = H at *
  split at h
  · cases h
  · rename_i hst
    by_cases hLH : L ≤ H
    · obtain ⟨d, rfl⟩ : ∃ d, H = L + d := ⟨H - L, by omega⟩
      rw [Nat.max_eq_left hLH] at h
      obtain ⟨j, hj, hget⟩ := postIndexAux_some _ _ _ _ d 0 0 i
        (root_inside _ _ _ _ hH (by omega)) h
      rw [Nat.zero_add] at hj
      rw [hj]; exact hget
    · rw [Nat.max_eq_right (by omega), postIndexAux_self] at h
      have := no_node_above _ _ 0 L hH (by omega)
      rw [if_neg (fun c => this c.2.1)] at h
      cases h

/-- an existing node of level `≥ bs` has an index -/
theorem preIndex_isSome (size bs k L : Nat) (hs : size ≤ 2 ^ 63) (hL : L ≤ 64) (hb : bs ≤ L)
    (hm : midOf k L < nChunks size) : ∃ i, preIndex size bs (nodeOf k L) = some i := by
  have hH := log2ceil_spec 64 (nChunks size) (nChunks_le size hs)
  rw [preIndex_nodeOf _ _ _ _ hL]
  generalize log2ceil 64 (nChunks size) = H at *
  have hst := startOf_lt_midOf k L
  rw [if_neg (by omega)]
  have hLH : L ≤ H := by
    apply Classical.byContradiction
    intro hc
    exact no_node_above _ _ k L hH (by omega) hm
  obtain ⟨d, rfl⟩ : ∃ d, H = L + d := ⟨H - L, by omega⟩
  rw [Nat.max_eq_left hLH]
  exact preIndexAux_isSome _ _ _ _ hm hb d 0 0 (root_inside _ _ _ _ hH (by omega))

theorem postIndex_isSome (size bs k L : Nat) (hs : size ≤ 2 ^ 63) (hL : L ≤ 64) (hb : bs ≤ L)
    (hm : midOf k L < nChunks size) : ∃ i, postIndex size bs (nodeOf k L) = some i := by
  have hH := log2ceil_spec 64 (nChunks size) (nChunks_le size hs)
  rw [postIndex_nodeOf _ _ _ _ hL]
  generalize log2ceil 64 (nChunks size) = H at *
  have hst := startOf_lt_midOf k L
  rw [if_neg (by omega)]
  have hLH : L ≤ H := by
    apply Classical.byContradiction
    intro hc
    exact no_node_above _ _ k L hH (by omega) hm
  obtain ⟨d, rfl⟩ : ∃ d, H = L + d := ⟨H - L, by omega⟩
  rw [Nat.max_eq_left hLH]
  exact postIndexAux_isSome _ _ _ _ hm hb d 0 0 (root_inside _ _ _ _ hH (by omega))

/-- coordinates of a persisted node -/
theorem mem_persistedPre_coords (size bs x : Nat) (hs : size ≤ 2 ^ 63)
    (hx : x ∈ persistedPre size bs) :
    ∃ k L, x = nodeOf k L ∧ bs ≤ L ∧ L < 53 ∧ midOf k L < nChunks size := by
  have hB := blocks_le size bs hs
  have hh : Tree.blocks ⟨size, bs⟩ - 1 < 2 ^ (63 + 1) := by omega
  rw [NodeIterL.persistedPre_eq_preD size bs 63 hs hh] at hx
  obtain ⟨y, hy, rfl⟩ := List.mem_map.mp hx
  have hyN := mem_preD_lt _ _ _ _ hy
  obtain ⟨k, L, rfl⟩ := C18.coords_exist y
  exact ⟨k, L + bs, up_nodeOf bs k L, by omega, OutboardL.level_bound hs hyN,
    (exists_iff size bs k L).2 hyN⟩

theorem coords_of_u64 (x : Nat) (hx : x < 2 ^ 64) : ∃ k L, x = nodeOf k L ∧ L ≤ 64 := by
  obtain ⟨k, L, rfl⟩ := C18.coords_exist x
  exact ⟨k, L, rfl, level_le_of_lt hx⟩

/-- `preIndex` is the position in `persistedPre` -/
theorem preIndex_iff (size bs x i : Nat) (hs : size ≤ 2 ^ 63) (hbs : bs ≤ 10)
    (hx : x < 2 ^ 64) :
    preIndex size bs x = some i ↔ (persistedPre size bs)[i]? = some x := by
  obtain ⟨k, L, rfl, hL⟩ := coords_of_u64 x hx
  constructor
  · exact preIndex_some_imp size bs k L i hs (by omega)
  · intro h
    have hmem : nodeOf k L ∈ persistedPre size bs := List.mem_of_getElem? h
    obtain ⟨k', L', e, hb, hL', hm⟩ := mem_persistedPre_coords size bs _ hs hmem
    obtain ⟨rfl, rfl⟩ := C18.nodeOf_inj e
    obtain ⟨r, hr⟩ := preIndex_isSome size bs k L hs (by omega) hb hm
    have h2 := preIndex_some_imp size bs k L r hs (by omega) hr
    obtain ⟨hi, ei⟩ := List.getElem?_eq_some_iff.1 h
    obtain ⟨hr', er⟩ := List.getElem?_eq_some_iff.1 h2
    have := C12.pre_injective size bs hs hbs i r hi hr' (by rw [ei, er])
    rw [this]; exact hr

theorem preIndex_none_iff (size bs x : Nat) (hs : size ≤ 2 ^ 63) (hbs : bs ≤ 10)
    (hx : x < 2 ^ 64) :
    preIndex size bs x = none ↔ x ∉ persistedPre size bs := by
  constructor
  · intro h hmem
    obtain ⟨i, hi, e⟩ := List.getElem_of_mem hmem
    have := (preIndex_iff size bs x i hs hbs hx).2 (List.getElem?_eq_some_iff.2 ⟨hi, e⟩)
    rw [h] at this; cases this
  · intro h
    cases hp : preIndex size bs x with
    | none => rfl
    | some i => exact absurd (List.mem_of_getElem? ((preIndex_iff size bs x i hs hbs hx).1 hp)) h

/-- `postIndex` is the position in `persistedPost` -/
theorem postIndex_iff (size bs x i : Nat) (hs : size ≤ 2 ^ 63) (hbs : bs ≤ 10)
    (hx : x < 2 ^ 64) :
    postIndex size bs x = some i ↔ (persistedPost size bs)[i]? = some x := by
  obtain ⟨k, L, rfl, hL⟩ := coords_of_u64 x hx
  constructor
  · exact postIndex_some_imp size bs k L i hs (by omega)
  · intro h
    have hmem : nodeOf k L ∈ persistedPre size bs :=
      (OutboardL.persistedPost_perm size bs hs).mem_iff.1 (List.mem_of_getElem? h)
    obtain ⟨k', L', e, hb, hL', hm⟩ := mem_persistedPre_coords size bs _ hs hmem
    obtain ⟨rfl, rfl⟩ := C18.nodeOf_inj e
    obtain ⟨r, hr⟩ := postIndex_isSome size bs k L hs (by omega) hb hm
    have h2 := postIndex_some_imp size bs k L r hs (by omega) hr
    obtain ⟨hi, ei⟩ := List.getElem?_eq_some_iff.1 h
    obtain ⟨hr', er⟩ := List.getElem?_eq_some_iff.1 h2
    have := C12.post_injective size bs hs hbs i r hi hr' (by rw [ei, er])
    rw [this]; exact hr

theorem postIndex_none_iff (size bs x : Nat) (hs : size ≤ 2 ^ 63) (hbs : bs ≤ 10)
    (hx : x < 2 ^ 64) :
    postIndex size bs x = none ↔ x ∉ persistedPost size bs := by
  constructor
  · intro h hmem
    obtain ⟨i, hi, e⟩ := List.getElem_of_mem hmem
    have := (postIndex_iff size bs x i hs hbs hx).2 (List.getElem?_eq_some_iff.2 ⟨hi, e⟩)
    rw [h] at this; cases this
  · intro h
    cases hp : postIndex size bs x with
    | none => rfl
    | some i => exact absurd (List.mem_of_getElem? ((postIndex_iff size bs x i hs hbs hx).1 hp)) h

/-! ### `Spec.indexOfNode` -/

theorem takeWhile_length_first (l : List Nat) (x i : Nat) (h : l[i]? = some x)
    (hf : ∀ j, j < i → l[j]? ≠ some x) : (l.takeWhile (· != x)).length = i := by
  induction l generalizing i with
  | nil => simp at h
  | cons a l ih =>
    cases i with
    | zero =>
      simp only [List.getElem?_cons_zero, Option.some.injEq] at h
      subst h
      simp
    | succ i =>
      have h0 := hf 0 (by omega)
      simp only [List.getElem?_cons_zero, ne_eq, Option.some.injEq] at h0
      have hne : (a != x) = true := by simpa using h0
      simp only [List.getElem?_cons_succ] at h
      rw [List.takeWhile_cons, if_pos hne, List.length_cons,
        ih i h (fun j hj => by have := hf (j + 1) (by omega); simpa using this)]

theorem takeWhile_not_mem (l : List Nat) (x : Nat) (h : x ∉ l) : l.takeWhile (· != x) = l := by
  induction l with
  | nil => rfl
  | cons a l ih =>
    have hne : (a != x) = true := by
      have : a ≠ x := fun e => h (by rw [e]; exact List.mem_cons_self ..)
      simpa using this
    rw [List.takeWhile_cons, if_pos hne, ih (fun hm => h (List.mem_cons_of_mem _ hm))]

/-- in a list without repetitions `Spec.indexOfNode` is "the position, if any" -/
theorem indexOfNode_eq (l : List Nat) (hinj : ∀ i j (hi : i < l.length) (hj : j < l.length),
    l[i] = l[j] → i = j) (x : Nat) (o : Option Nat)
    (hsome : ∀ i, o = some i → l[i]? = some x) (hnone : o = none → x ∉ l) :
    o = indexOfNode l x := by
  unfold indexOfNode
  cases o with
  | none =>
    rw [takeWhile_not_mem l x (hnone rfl)]
    simp
  | some i =>
    have h := hsome i rfl
    obtain ⟨hi, ei⟩ := List.getElem?_eq_some_iff.1 h
    have := takeWhile_length_first l x i h (fun j hj hc => by
      obtain ⟨hj', ej⟩ := List.getElem?_eq_some_iff.1 hc
      have := hinj j i hj' hi (by rw [ej, ei])
      omega)
    simp only [this, if_pos hi]


theorem preIndex_eq_indexOfNode' (size bs x : Nat) (hs : size ≤ 2 ^ 63) (hbs : bs ≤ 10)
    (hx : x < 2 ^ 64) : preIndex size bs x = indexOfNode (persistedPre size bs) x :=
  indexOfNode_eq _ (C12.pre_injective size bs hs hbs) x _
    (fun i h => (preIndex_iff size bs x i hs hbs hx).1 h)
    (fun h => (preIndex_none_iff size bs x hs hbs hx).1 h)

theorem postIndex_eq_indexOfNode' (size bs x : Nat) (hs : size ≤ 2 ^ 63) (hbs : bs ≤ 10)
    (hx : x < 2 ^ 64) : postIndex size bs x = indexOfNode (persistedPost size bs) x :=
  indexOfNode_eq _ (C12.post_injective size bs hs hbs) x _
    (fun i h => (postIndex_iff size bs x i hs hbs hx).1 h)
    (fun h => (postIndex_none_iff size bs x hs hbs hx).1 h)

/-! ## the nodes the verdicts call "of the tree" -/

/-- `Ops.inTree` (= `relevant` of `opTreeOff`): a persisted node, a node below the block level, or
the half-filled last leaf -/
theorem inTree_cases (size bs x : Nat) (hs : size ≤ 2 ^ 63) (hx : x < 2 ^ 64)
    (h : Ops.inTree size bs x = true) :
    x ∈ persistedPre size bs ∨ Node.level x < bs ∨
      (Tree.blocks ⟨size, bs⟩ % 2 = 1 ∧ x = Node.subBs (Tree.blocks ⟨size, bs⟩ - 1) bs) := by
  obtain ⟨k, L, rfl, hL⟩ := coords_of_u64 x hx
  unfold Ops.inTree at h
  simp only [levelOf_nodeOf hL, indexOf_nodeOf hL,
    ← blocks_eq_nBlocks, Bool.or_eq_true, Bool.and_eq_true, decide_eq_true_eq, beq_iff_eq] at h
  rcases h with hm | ⟨hodd, he⟩
  · by_cases hb : bs ≤ L
    · obtain ⟨i, hi⟩ := preIndex_isSome size bs k L hs (by omega) hb hm
      exact .inl (List.mem_of_getElem? (preIndex_some_imp size bs k L i hs (by omega) hi))
    · refine .inr (.inl ?_)
      rw [C18.level_nodeOf (by omega)]; omega
  · exact .inr (.inr ⟨hodd, he⟩)

/-- for the nodes of the tree the model's pre-order offset is the counting index -/
theorem pre_model (size bs x : Nat) (hs : size ≤ 2 ^ 63) (hbs : bs ≤ 10) (hx : x < 2 ^ 64)
    (h : Ops.inTree size bs x = true) :
    Tree.preOrderOffset ⟨size, bs⟩ x = preIndex size bs x := by
  have hnone : Tree.preOrderOffset ⟨size, bs⟩ x = none →
      Tree.preOrderOffset ⟨size, bs⟩ x = preIndex size bs x := by
    intro hn
    rw [hn, eq_comm, preIndex_none_iff size bs x hs hbs hx]
    intro hmem
    obtain ⟨i, hi, e⟩ := List.getElem_of_mem hmem
    have := (C12.pre size bs hs hbs).2 i hi
    rw [e, hn] at this; cases this
  rcases inTree_cases size bs x hs hx h with hmem | hlv | ⟨hodd, rfl⟩
  · obtain ⟨i, hi, e⟩ := List.getElem_of_mem hmem
    have h1 := (C12.pre size bs hs hbs).2 i hi
    rw [e] at h1
    rw [h1, (preIndex_iff size bs x i hs hbs hx).2 (List.getElem?_eq_some_iff.2 ⟨hi, e⟩)]
  · exact hnone ((C12.pre_none size bs hs hbs).1 x hlv)
  · exact hnone ((C12.pre_none size bs hs hbs).2 hodd)

/-- the tag the `treeoff` verdict expects -/
def tagOf (size x : Nat) (i : Nat) : Tree.PostOffset :=
  if endOf (indexOf x) (levelOf x) * 1024 ≤ size then .stable i else .unstable i

/-- for the nodes of the tree the model's post-order offset is the counting index, tagged stable
iff the whole (untruncated) chunk interval of the node lies inside the blob -/
theorem post_model (size bs x : Nat) (hs : size ≤ 2 ^ 63) (hbs : bs ≤ 10) (hx : x < 2 ^ 64)
    (h : Ops.inTree size bs x = true) :
    Tree.postOrderOffset ⟨size, bs⟩ x = (postIndex size bs x).map (tagOf size x) := by
  have hperm := OutboardL.persistedPost_perm size bs hs
  have hnone : Tree.postOrderOffset ⟨size, bs⟩ x = none →
      Tree.postOrderOffset ⟨size, bs⟩ x = (postIndex size bs x).map (tagOf size x) := by
    intro hn
    have : postIndex size bs x = none := by
      rw [postIndex_none_iff size bs x hs hbs hx]
      intro hmem
      obtain ⟨i, hi, e⟩ := List.getElem_of_mem hmem
      have := (C12.post size bs hs hbs).2 i hi
      rw [e, hn] at this; cases this
    rw [hn, this]; rfl
  rcases inTree_cases size bs x hs hx h with hmem | hlv | ⟨hodd, rfl⟩
  · obtain ⟨k, L, rfl, hb, hL, hm⟩ := mem_persistedPre_coords size bs x hs hmem
    obtain ⟨i, hi, e⟩ := List.getElem_of_mem (hperm.mem_iff.2 hmem)
    have h1 := (C12.post size bs hs hbs).2 i hi
    rw [e] at h1
    rw [(postIndex_iff size bs _ i hs hbs hx).2 (List.getElem?_eq_some_iff.2 ⟨hi, e⟩)]
    have hst := (C13.stable_iff size bs k L hs hbs hb).1
    simp only [Option.map_some, tagOf, levelOf_nodeOf (show L ≤ 64 by omega),
      indexOf_nodeOf (show L ≤ 64 by omega)]
    cases hpo : Tree.postOrderOffset ⟨size, bs⟩ (nodeOf k L) with
    | none => rw [hpo] at h1; cases h1
    | some po =>
      rw [hpo] at h1
      cases po with
      | stable v =>
        simp only [Option.map_some, Tree.PostOffset.value, Option.some.injEq] at h1
        rw [if_pos (hst.1 ⟨v, hpo⟩), h1]
      | unstable v =>
        simp only [Option.map_some, Tree.PostOffset.value, Option.some.injEq] at h1
        have hns : ¬ endOf k L * 1024 ≤ size := by
          intro hc
          obtain ⟨w, hw⟩ := hst.2 hc
          rw [hpo] at hw; cases hw
        rw [if_neg hns, h1]
  · exact hnone ((C12.post_none size bs hs hbs).1 x hlv)
  · exact hnone ((C12.post_none size bs hs hbs).2 hodd)

/-! ## the stores -/

section store
open Bao.C12Store Bao.WriteAtL Bao.OutboardL
variable {H : Type}

/-- the index the `store` verdict expects for the slot of a node -/
def idxOf (kind : StoreKind) (size bs node : Nat) : Option Nat :=
  if Ops.isPostKind kind then postIndex size bs node else preIndex size bs node

theorem value_tagOf (size x i : Nat) : (tagOf size x i).value = i := by
  unfold tagOf; split <;> rfl

/-- persisting kinds: the slot of a node of the tree is the counting index -/
theorem slot_model (kind : StoreKind) (root : H) (size bs node : Nat) (data : List UInt8)
    (hs : size ≤ 2 ^ 63) (hbs : bs ≤ 10) (hx : node < 2 ^ 64)
    (hin : Ops.inTree size bs node = true) (hk : kind ≠ .empty) :
    Store.slot (⟨kind, root, ⟨size, bs⟩, data⟩ : Store H) node = idxOf kind size bs node := by
  unfold idxOf Store.slot
  cases kind with
  | empty => exact absurd rfl hk
  | preIo => exact pre_model size bs node hs hbs hx hin
  | preMem => exact pre_model size bs node hs hbs hx hin
  | postIo =>
    simp only [Ops.isPostKind, if_true]
    rw [post_model size bs node hs hbs hx hin, Option.map_map]
    cases postIndex size bs node <;> simp [value_tagOf]
  | postMem =>
    simp only [Ops.isPostKind, if_true]
    rw [post_model size bs node hs hbs hx hin, Option.map_map]
    cases postIndex size bs node <;> simp [value_tagOf]

/-- `EmptyOutboard`: a node of the tree is relevant iff it has a counting index -/
theorem relevant_model (size bs node : Nat) (hs : size ≤ 2 ^ 63) (hbs : bs ≤ 10)
    (hx : node < 2 ^ 64) (hin : Ops.inTree size bs node = true) :
    Tree.isRelevant ⟨size, bs⟩ node = (preIndex size bs node).isSome := by
  have hnone : Tree.preOrderOffset ⟨size, bs⟩ node = none → (preIndex size bs node).isSome = false := by
    intro h; rw [← pre_model size bs node hs hbs hx hin, h]; rfl
  rcases inTree_cases size bs node hs hx hin with hmem | hlv | ⟨hodd, rfl⟩
  · rw [isRelevant_persisted hs ((persistedPost_perm size bs hs).mem_iff.2 hmem)]
    obtain ⟨i, hi, e⟩ := List.getElem_of_mem hmem
    rw [(preIndex_iff size bs node i hs hbs hx).2 (List.getElem?_eq_some_iff.2 ⟨hi, e⟩)]
    rfl
  · rw [hnone ((C12.pre_none size bs hs hbs).1 node hlv)]
    unfold Tree.isRelevant
    simp only [hlv, if_true]
  · rw [hnone ((C12.pre_none size bs hs hbs).2 hodd)]
    exact halfLeaf_not_relevant ⟨size, bs⟩ hs hbs hodd

/-- an index is below the number of persisted nodes -/
theorem idxOf_lt (kind : StoreKind) (size bs node i : Nat) (hs : size ≤ 2 ^ 63) (hbs : bs ≤ 10)
    (hx : node < 2 ^ 64) (h : idxOf kind size bs node = some i) :
    i < Tree.blocks ⟨size, bs⟩ - 1 := by
  unfold idxOf at h
  split at h
  · obtain ⟨hi, _⟩ := List.getElem?_eq_some_iff.1 ((postIndex_iff size bs node i hs hbs hx).1 h)
    rw [(C12.post size bs hs hbs).1] at hi; exact hi
  · obtain ⟨hi, _⟩ := List.getElem?_eq_some_iff.1 ((preIndex_iff size bs node i hs hbs hx).1 h)
    rw [(C12.pre size bs hs hbs).1] at hi; exact hi

theorem parsePair_bytes' (hf : HashFns H) (p : H × H)
    (hb1 : (hf.toBytes p.1).length = 32) (hb2 : (hf.toBytes p.2).length = 32)
    (hr1 : hf.ofBytes (hf.toBytes p.1) = p.1) (hr2 : hf.ofBytes (hf.toBytes p.2) = p.2) :
    parsePair hf (hf.toBytes p.1 ++ hf.toBytes p.2) = p := by
  unfold parsePair
  rw [List.take_left' hb1, List.drop_left' hb1, List.take_of_length_le (by rw [hb2]; omega), hr1, hr2]

/-- persisting kinds, node with index `i`: first load = the 64 bytes at `64·i`, save succeeds and
replaces exactly these bytes, second load = the saved pair -/
theorem store_some (hf : HashFns H) (fl : Flavour) (kind : StoreKind) (root : H)
    (size bs node i : Nat) (backing : List UInt8) (pair : H × H)
    (hb1 : (hf.toBytes pair.1).length = 32) (hb2 : (hf.toBytes pair.2).length = 32)
    (hr1 : hf.ofBytes (hf.toBytes pair.1) = pair.1) (hr2 : hf.ofBytes (hf.toBytes pair.2) = pair.2)
    (hs : size ≤ 2 ^ 63) (hbs : bs ≤ 10) (hx : node < 2 ^ 64)
    (hin : Ops.inTree size bs node = true)
    (hdl : backing.length = Tree.outboardSize ⟨size, bs⟩)
    (hk : kind ≠ .empty) (hidx : idxOf kind size bs node = some i) :
    Store.load hf fl (⟨kind, root, ⟨size, bs⟩, backing⟩ : Store H) node
        = .ok (some (parsePair hf ((backing.drop (i * 64)).take 64))) ∧
    Store.save hf (⟨kind, root, ⟨size, bs⟩, backing⟩ : Store H) node pair
        = .ok ⟨kind, root, ⟨size, bs⟩, backing.take (i * 64)
            ++ (hf.toBytes pair.1 ++ hf.toBytes pair.2) ++ backing.drop (i * 64 + 64)⟩ ∧
    Store.load hf fl (⟨kind, root, ⟨size, bs⟩, backing.take (i * 64)
            ++ (hf.toBytes pair.1 ++ hf.toBytes pair.2) ++ backing.drop (i * 64 + 64)⟩ : Store H) node
        = .ok (some pair) := by
  have hlt := idxOf_lt kind size bs node i hs hbs hx hidx
  have hsz : Tree.outboardSize ⟨size, bs⟩ = (Tree.blocks ⟨size, bs⟩ - 1) * 64 := rfl
  have hinb : i * 64 + 64 ≤ backing.length := by omega
  have hb : (hf.toBytes pair.1 ++ hf.toBytes pair.2).length = 64 := by
    rw [List.length_append, hb1, hb2]
  have hsl := fun data => (slot_model kind root size bs node data hs hbs hx hin hk).trans hidx
  have hw := writeAt_slot backing i _ hb hinb
  refine ⟨?_, ?_, ?_⟩
  · exact load_some hf fl (s := ⟨kind, root, ⟨size, bs⟩, backing⟩) hk (hsl backing) hinb
  · rw [save_some hf (s := ⟨kind, root, ⟨size, bs⟩, backing⟩) hk (hsl backing) hinb pair]
    simp only [hw]
  · rw [← hw]
    have hin' : i * 64 + 64 ≤ (writeAt backing (i * 64) (hf.toBytes pair.1 ++ hf.toBytes pair.2)).length := by
      rw [length_writeAt]; omega
    rw [load_some hf fl (s := ⟨kind, root, ⟨size, bs⟩,
        writeAt backing (i * 64) (hf.toBytes pair.1 ++ hf.toBytes pair.2)⟩) hk (hsl _) hin',
      blockAt_writeAt_self _ _ _ hb, parsePair_bytes' hf pair hb1 hb2 hr1 hr2]

/-- `EmptyOutboard`, node with an index: loads the zero pair, save accepted and dropped -/
theorem store_some_empty (hf : HashFns H) (fl : Flavour) (root : H)
    (size bs node i : Nat) (backing : List UInt8) (pair : H × H)
    (hs : size ≤ 2 ^ 63) (hbs : bs ≤ 10) (hx : node < 2 ^ 64)
    (hin : Ops.inTree size bs node = true) (hidx : idxOf .empty size bs node = some i) :
    Store.load hf fl (⟨.empty, root, ⟨size, bs⟩, backing⟩ : Store H) node
        = .ok (some (hf.ofBytes zeros32, hf.ofBytes zeros32)) ∧
    Store.save hf (⟨.empty, root, ⟨size, bs⟩, backing⟩ : Store H) node pair
        = .ok ⟨.empty, root, ⟨size, bs⟩, backing⟩ := by
  have hrel : Tree.isRelevant ⟨size, bs⟩ node = true := by
    rw [relevant_model size bs node hs hbs hx hin]
    have : preIndex size bs node = some i := hidx
    rw [this]; rfl
  exact (empty_store hf fl ⟨.empty, root, ⟨size, bs⟩, backing⟩ rfl node pair).1 hrel

/-- a node of the tree without index: both loads `none`, the backing is untouched, the io kinds
accept the save, the memory kinds and the `EmptyOutboard` refuse it -/
theorem store_none (hf : HashFns H) (fl : Flavour) (kind : StoreKind) (root : H)
    (size bs node : Nat) (backing : List UInt8) (pair : H × H)
    (hs : size ≤ 2 ^ 63) (hbs : bs ≤ 10) (hx : node < 2 ^ 64)
    (hin : Ops.inTree size bs node = true) (hidx : idxOf kind size bs node = none) :
    Store.load hf fl (⟨kind, root, ⟨size, bs⟩, backing⟩ : Store H) node = .ok none ∧
    Store.save hf (⟨kind, root, ⟨size, bs⟩, backing⟩ : Store H) node pair
      = (if kind = .preIo ∨ kind = .postIo then .ok ⟨kind, root, ⟨size, bs⟩, backing⟩
         else .err ⟨.invalidInput, false⟩) := by
  by_cases hk : kind = .empty
  · subst hk
    have hrel : Tree.isRelevant ⟨size, bs⟩ node = false := by
      rw [relevant_model size bs node hs hbs hx hin]
      have : preIndex size bs node = none := hidx
      rw [this]; rfl
    have := (empty_store hf fl ⟨.empty, root, ⟨size, bs⟩, backing⟩ rfl node pair).2.1 hrel
    rw [if_neg (by simp)]
    exact this
  · have hsl := (slot_model kind root size bs node backing hs hbs hx hin hk).trans hidx
    refine ⟨load_not_persisted hf fl _ node hsl, ?_⟩
    obtain ⟨h1, h2⟩ := save_not_persisted hf ⟨kind, root, ⟨size, bs⟩, backing⟩ node pair hsl
    cases kind with
    | empty => exact absurd rfl hk
    | preIo => rw [if_pos (.inl rfl)]; exact h1 (.inl rfl)
    | postIo => rw [if_pos (.inr rfl)]; exact h1 (.inr rfl)
    | preMem => rw [if_neg (by simp)]; exact h2 (.inl rfl)
    | postMem => rw [if_neg (by simp)]; exact h2 (.inr rfl)

end store

/-! ## `treeoff`: the tokens of the model and of the verdict -/

section treeoff
open Bao.Ops Bao.Proto

/-- the token the `treeoff` verdict computes for id `x` (verbatim copy of the `let`s of
`Ops.opTreeOff`; `opTreeOff_eq` ties the copy to the operation by `rfl`) -/
def specTok (size bs x : Nat) : String :=
  let L := Spec.levelOf x
  let k := Spec.indexOf x
  let pre := Spec.preIndex size bs x
  let post := Spec.postIndex size bs x
  let stable := Spec.endOf k L * 1024 ≤ size
  let postS := match post with
    | none => "-"
    | some i => if stable then s!"S{i}" else s!"U{i}"
  s!"{optNat pre}/{postS}"

def modelTok (size bs x : Nat) : String :=
  s!"{optNat (Tree.preOrderOffset ⟨size, bs⟩ x)}/{postOffStr (Tree.postOrderOffset ⟨size, bs⟩ x)}"

def treeoffVerdict (size bs id0 count : Nat) (impl : String) : Option String :=
  let ids := (List.range count).map (· + id0)
  let implT := impl.splitOn " "
  let specT := (" ".intercalate (ids.map (specTok size bs))).splitOn " "
  let bads := (List.zip ids (List.zip implT specT)).filter fun (x, (a, b)) => Ops.inTree size bs x && a != b
  match bads with
  | [] => if implT.length == ids.length then none else some "malformed"
  | (x, (a, b)) :: _ => some s!"node {x}: impl {a} spec {b}"

theorem opTreeOff_eq (args : List String) (impl : String) (size bs id0 count : Nat)
    (h : args.mapM (·.toNat?) = some [size, bs, id0, count]) :
    (opTreeOff args impl).specFail = treeoffVerdict size bs id0 count impl ∧
    (opTreeOff args impl).model
      = " ".intercalate (((List.range count).map (· + id0)).map (modelTok size bs)) := by
  unfold opTreeOff
  simp only [h]
  exact ⟨rfl, rfl⟩

theorem tok_eq (size bs x : Nat) (hs : size ≤ 2 ^ 63) (hbs : bs ≤ 10) (hx : x < 2 ^ 64)
    (h : Ops.inTree size bs x = true) : modelTok size bs x = specTok size bs x := by
  unfold modelTok specTok
  rw [pre_model size bs x hs hbs hx h, post_model size bs x hs hbs hx h]
  cases postIndex size bs x with
  | none => rfl
  | some i =>
    simp only [Option.map_some, tagOf]
    split <;> rfl

/-- the list of compared components is empty when the implementation's tokens are the model's -/
theorem bads_nil (size bs : Nat) (hs : size ≤ 2 ^ 63) (hbs : bs ≤ 10) (ids : List Nat)
    (hids : ∀ x ∈ ids, x < 2 ^ 64) :
    ((List.zip ids (List.zip (ids.map (modelTok size bs)) (ids.map (specTok size bs)))).filter
      fun (x, (a, b)) => Ops.inTree size bs x && a != b) = [] := by
  induction ids with
  | nil => rfl
  | cons x ids ih =>
    simp only [List.map_cons, List.zip_cons_cons, List.filter_cons]
    have hx := hids x (List.mem_cons_self ..)
    have ih' := ih (fun y hy => hids y (List.mem_cons_of_mem _ hy))
    by_cases hin : Ops.inTree size bs x = true
    · rw [tok_eq size bs x hs hbs hx hin]
      simp only [bne_self_eq_false, Bool.and_false, Bool.false_eq_true, if_false]
      exact ih'
    · simp only [Bool.not_eq_true] at hin
      simp only [hin, Bool.false_and, Bool.false_eq_true, if_false]
      exact ih'

end treeoff

/-! ## `store`: the output of the model and the verdict on it -/

section storeStr
open Bao.Ops Bao.Proto

/-- the model's output of `store` for a given backing and pair (verbatim copy of the `let`s of
`Ops.opStore`; `opStore_eq` ties the copies to the operation by `rfl`) -/
def storeModelStr (fl : Flavour) (kind : StoreKind) (size bs node : Nat) (backing : List UInt8)
    (pair : HB × HB) : String :=
  let tree : Tree := ⟨size, bs⟩
  let s0 : Store HB := ⟨kind, zeros32, tree, backing⟩
  let l0 := Store.load hf fl s0 node
  let r := Store.save hf s0 node pair
  let (rs, s1, rp) : String × Store HB × Bool := match r with
    | .ok s => ("Ok", s, false)
    | .err e => (ioErrStr e, s0, false)
    | .panic => ("", s0, true)
  let l1 := Store.load hf fl s1 node
  match loadStr l0, loadStr l1, rp with
    | some a, some c, false => s!"{a} {rs} {c} Ok {dig s1.data}"
    | _, _, _ => "panic"

def storeVerdict (kind : StoreKind) (size bs node : Nat) (backing : List UInt8) (pair : HB × HB)
    (tokens : List String) : Option String :=
  let idx := if isPostKind kind then Spec.postIndex size bs node else Spec.preIndex size bs node
  match tokens with
  | [a, b, c, d, after] =>
    let isIo := kind == .preIo || kind == .postIo
    match idx with
    | some i =>
      let old := if kind == .empty then zerosN 64 else (backing.drop (i * 64)).take 64
      let new := if kind == .empty then zerosN 64 else pair.1 ++ pair.2
      let exp := if kind == .empty then backing else backing.take (i * 64) ++ new ++ backing.drop (i * 64 + 64)
      if a != dig old then some "load does not return the 64 bytes of the node's slot"
      else if b != "Ok" then some "save of a persisted node failed"
      else if c != dig new then some "load after save does not return the saved pair"
      else if d != "Ok" then some "sync failed"
      else if after != dig exp then some "save changed something other than the node's slot"
      else none
    | none =>
      if a != "none" || c != "none" then some "a node that is not persisted has a pair"
      else if after != dig backing then some "save of a node that is not persisted changed the backing"
      else if b != (if isIo then "Ok" else "Io(InvalidInput)") then some "save of a node that is not persisted: unexpected result"
      else none
  | _ => some "malformed (panic?)"

/-- the three byte strings the verdict expects for a node with index `i` -/
def expOld (kind : StoreKind) (backing : List UInt8) (i : Nat) : List UInt8 :=
  if kind == .empty then zerosN 64 else (backing.drop (i * 64)).take 64
def expNew (kind : StoreKind) (pair : HB × HB) : List UInt8 :=
  if kind == .empty then zerosN 64 else pair.1 ++ pair.2
def expAfter (kind : StoreKind) (backing : List UInt8) (pair : HB × HB) (i : Nat) : List UInt8 :=
  if kind == .empty then backing
  else backing.take (i * 64) ++ expNew kind pair ++ backing.drop (i * 64 + 64)

theorem verdict_some (kind : StoreKind) (size bs node i : Nat) (backing : List UInt8)
    (pair : HB × HB) (hidx : idxOf kind size bs node = some i) :
    storeVerdict kind size bs node backing pair
      [dig (expOld kind backing i), "Ok", dig (expNew kind pair), "Ok",
        dig (expAfter kind backing pair i)] = none := by
  unfold idxOf at hidx
  unfold storeVerdict
  simp only [hidx]
  simp only [expOld, expNew, expAfter, bne_self_eq_false, Bool.false_eq_true, if_false]

theorem verdict_none (kind : StoreKind) (size bs node : Nat) (backing : List UInt8)
    (pair : HB × HB) (d : String) (hidx : idxOf kind size bs node = none) :
    storeVerdict kind size bs node backing pair
      ["none", if kind = .preIo ∨ kind = .postIo then "Ok" else "Io(InvalidInput)", "none", d,
        dig backing] = none := by
  unfold idxOf at hidx
  unfold storeVerdict
  simp only [hidx]
  cases kind <;> simp <;> decide

theorem z64 : (zeros32 ++ zeros32 : List UInt8) = zerosN 64 := by decide

theorem parse_concat (b : List UInt8) (hb : b.length = 64) :
    (parsePair hf b).1 ++ (parsePair hf b).2 = b := by
  unfold parsePair
  show b.take 32 ++ (b.drop 32).take 32 = b
  rw [List.take_of_length_le (l := b.drop 32) (by rw [List.length_drop]; omega), List.take_append_drop]

/-- the output format of `store`: five tokens -/
def fmt5 (a rs c after : String) : String := s!"{a} {rs} {c} Ok {after}"

theorem model_some (fl : Flavour) (kind : StoreKind) (size bs node i : Nat) (backing : List UInt8)
    (pair : HB × HB) (hp1 : pair.1.length = 32) (hp2 : pair.2.length = 32)
    (hs : size ≤ 2 ^ 63) (hbs : bs ≤ 10) (hx : node < 2 ^ 64)
    (hin : Ops.inTree size bs node = true)
    (hdl : backing.length = Tree.outboardSize ⟨size, bs⟩)
    (hidx : idxOf kind size bs node = some i) :
    storeModelStr fl kind size bs node backing pair
      = fmt5 (dig (expOld kind backing i)) "Ok" (dig (expNew kind pair))
          (dig (expAfter kind backing pair i)) := by
  by_cases hk : kind = .empty
  · subst hk
    obtain ⟨h1, h2⟩ := store_some_empty hf fl zeros32 size bs node i backing pair hs hbs hx hin hidx
    have e : hf.ofBytes zeros32 ++ hf.ofBytes zeros32 = zerosN 64 := z64
    have hke : (StoreKind.empty == StoreKind.empty) = true := rfl
    unfold storeModelStr
    simp only [h1, h2, loadStr, e, expOld, expNew, expAfter, hke, if_true, fmt5]
  · obtain ⟨h1, h2, h3⟩ := store_some hf fl kind zeros32 size bs node i backing pair hp1 hp2 rfl rfl
      hs hbs hx hin hdl hk hidx
    have hlt := idxOf_lt kind size bs node i hs hbs hx hidx
    have hsz : Tree.outboardSize ⟨size, bs⟩ = (Tree.blocks ⟨size, bs⟩ - 1) * 64 := rfl
    have hbl : ((backing.drop (i * 64)).take 64).length = 64 := by
      rw [List.length_take, List.length_drop]; omega
    have hke : (kind == StoreKind.empty) = false := by cases kind <;> first | rfl | exact absurd rfl hk
    have e := parse_concat _ hbl
    have et : ∀ p : HB × HB, hf.toBytes p.1 ++ hf.toBytes p.2 = p.1 ++ p.2 := fun _ => rfl
    simp only [et] at h2 h3
    unfold storeModelStr
    simp only [h1, h2, h3, loadStr, e, expOld, expNew, expAfter, hke, fmt5, Bool.false_eq_true, if_false]

theorem ioErrStr_invalid : ioErrStr ⟨.invalidInput, false⟩ = "Io(InvalidInput)" := by rfl

theorem model_none (fl : Flavour) (kind : StoreKind) (size bs node : Nat) (backing : List UInt8)
    (pair : HB × HB) (hs : size ≤ 2 ^ 63) (hbs : bs ≤ 10) (hx : node < 2 ^ 64)
    (hin : Ops.inTree size bs node = true) (hidx : idxOf kind size bs node = none) :
    storeModelStr fl kind size bs node backing pair
      = fmt5 "none" (if kind = .preIo ∨ kind = .postIo then "Ok" else "Io(InvalidInput)") "none"
          (dig backing) := by
  obtain ⟨h1, h2⟩ := store_none hf fl kind zeros32 size bs node backing pair hs hbs hx hin hidx
  unfold storeModelStr
  by_cases hio : kind = .preIo ∨ kind = .postIo
  · rw [if_pos hio] at h2
    simp only [h1, h2, loadStr, if_pos hio, fmt5]
  · rw [if_neg hio] at h2
    simp only [h1, h2, loadStr, if_neg hio, fmt5, ioErrStr_invalid]

theorem opStore_eq (a b c d e f impl : String) (fl : Flavour) (kind : StoreKind)
    (size bs seed node : Nat)
    (h1 : flavour? a = some fl) (h2 : storeKind? b = some kind) (h3 : c.toNat? = some size)
    (h4 : d.toNat? = some bs) (h5 : e.toNat? = some seed) (h6 : f.toNat? = some node) :
    (opStore [a, b, c, d, e, f] impl).model
      = storeModelStr fl kind size bs node (randBytes seed (Tree.outboardSize ⟨size, bs⟩))
          (randBytes (seed + 1) 32, randBytes (seed + 2) 32) ∧
    (opStore [a, b, c, d, e, f] impl).specFail
      = (if !Ops.inTree size bs node then none else
          storeVerdict kind size bs node (randBytes seed (Tree.outboardSize ⟨size, bs⟩))
            (randBytes (seed + 1) 32, randBytes (seed + 2) 32) (impl.splitOn " ")) := by
  unfold opStore
  simp only [h1, h2, h3, h4, h5, h6]
  refine ⟨rfl, ?_⟩
  simp only [Option.isSome_none, Bool.or_false]
  rfl

/-! ### the pseudo random bytes have the requested length -/

theorem forIn_push_size {σ : Type} (l : List Nat)
    (f : Nat → Array UInt8 × σ → Id (ForInStep (Array UInt8 × σ)))
    (hf : ∀ i s, ∃ b st', f i s = pure (ForInStep.yield (s.1.push b, st')))
    (init : Array UInt8 × σ) :
    ((forIn (m := Id) l init f).run).1.size = init.1.size + l.length := by
  induction l generalizing init with
  | nil => simp
  | cons a l ih =>
    obtain ⟨b, st', e⟩ := hf a init
    simp only [List.forIn_cons, List.length_cons, e]
    show ((forIn (m := Id) l (init.1.push b, st') f).run).1.size = _
    rw [ih]
    simp only [Array.size_push]
    omega

theorem randBytes_length (seed n : Nat) : (randBytes seed n).length = n := by
  unfold randBytes
  simp only [Std.Legacy.Range.forIn_eq_forIn_range', Id.run]
  show (Array.toList (Prod.fst (Id.run (forIn (m := Id) _ _ _)))).length = n
  rw [Array.length_toList, forIn_push_size]
  · simp [Std.Legacy.Range.size]
  · intro i s
    split
    · exact ⟨_, _, rfl⟩
    · exact ⟨_, _, rfl⟩

end storeStr

/-! ## the tokens contain no space: `splitOn " "` recovers them -/

section tokens
open Bao.Ops Bao.Proto

theorem noSp_lit (s : String) (h : (s.toList.contains ' ') = false) : NoSp s := by
  unfold NoSp
  intro hm
  rw [List.contains_iff_mem.2 hm] at h
  cases h

theorem noSp_optNat (o : Option Nat) : NoSp (optNat o) := by
  cases o with
  | none => exact noSp_lit "-" (by decide)
  | some n => exact noSp_nat n

theorem noSp_postOffStr (o : Option Tree.PostOffset) : NoSp (postOffStr o) := by
  rcases o with _ | ⟨n | n⟩
  · exact noSp_lit "-" (by decide)
  · exact noSp_append (noSp_lit "S" (by decide)) (noSp_nat n)
  · exact noSp_append (noSp_lit "U" (by decide)) (noSp_nat n)

theorem noSp_modelTok (size bs x : Nat) : NoSp (modelTok size bs x) := by
  unfold modelTok
  exact noSp_append (noSp_append (noSp_optNat _) (noSp_lit "/" (by decide))) (noSp_postOffStr _)

theorem noSp_specTok (size bs x : Nat) : NoSp (specTok size bs x) := by
  unfold specTok
  refine noSp_append (noSp_append (noSp_optNat _) (noSp_lit "/" (by decide))) ?_
  show NoSp (match postIndex size bs x with | none => "-" | some i => _)
  cases postIndex size bs x with
  | none => exact noSp_lit "-" (by decide)
  | some i =>
    simp only []
    split
    · exact noSp_append (noSp_lit "S" (by decide)) (noSp_nat i)
    · exact noSp_append (noSp_lit "U" (by decide)) (noSp_nat i)

theorem noSp_dig (b : List UInt8) : NoSp (dig b) := by
  unfold dig
  exact noSp_append (noSp_append (noSp_nat _) (noSp_lit ":" (by decide))) (noSp_nat _)

theorem fmt5_eq (a rs c after : String) :
    fmt5 a rs c after = " ".intercalate [a, rs, c, "Ok", after] := by
  simp only [fmt5, String.intercalate_cons_cons, String.intercalate_singleton]
  have e : (" Ok " : String) = " " ++ ("Ok" ++ " ") := by decide
  show a ++ " " ++ rs ++ " " ++ c ++ " Ok " ++ after = _
  rw [e]
  simp only [String.append_assoc]


theorem treeoff_split_model (size bs : Nat) (ids : List Nat) (hne : ids ≠ []) :
    (" ".intercalate (ids.map (modelTok size bs))).splitOn " " = ids.map (modelTok size bs) := by
  apply splitOn_intercalate _ (by simpa using hne)
  intro t ht
  obtain ⟨x, _, rfl⟩ := List.mem_map.1 ht
  exact noSp_modelTok size bs x

theorem treeoff_split_spec (size bs : Nat) (ids : List Nat) (hne : ids ≠ []) :
    (" ".intercalate (ids.map (specTok size bs))).splitOn " " = ids.map (specTok size bs) := by
  apply splitOn_intercalate _ (by simpa using hne)
  intro t ht
  obtain ⟨x, _, rfl⟩ := List.mem_map.1 ht
  exact noSp_specTok size bs x

/-- the five tokens the `store` verdict expects (and, by `model_some` / `model_none`, the model
prints) -/
def storeTokens (kind : StoreKind) (size bs node : Nat) (backing : List UInt8) (pair : HB × HB) :
    List String :=
  match idxOf kind size bs node with
  | some i => [dig (expOld kind backing i), "Ok", dig (expNew kind pair), "Ok",
      dig (expAfter kind backing pair i)]
  | none => ["none", if kind = .preIo ∨ kind = .postIo then "Ok" else "Io(InvalidInput)", "none",
      "Ok", dig backing]

theorem noSp_storeTokens (kind : StoreKind) (size bs node : Nat) (backing : List UInt8)
    (pair : HB × HB) : ∀ t ∈ storeTokens kind size bs node backing pair, ' ' ∉ t.toList := by
  have hok : NoSp "Ok" := noSp_lit _ (by decide)
  have hnone : NoSp "none" := noSp_lit _ (by decide)
  have hinv : NoSp "Io(InvalidInput)" := noSp_lit _ (by decide)
  unfold storeTokens
  cases idxOf kind size bs node with
  | some i =>
    intro t ht
    simp only [List.mem_cons, List.not_mem_nil, or_false] at ht
    rcases ht with rfl | rfl | rfl | rfl | rfl
    · exact noSp_dig _
    · exact hok
    · exact noSp_dig _
    · exact hok
    · exact noSp_dig _
  | none =>
    intro t ht
    simp only [List.mem_cons, List.not_mem_nil, or_false] at ht
    rcases ht with rfl | rfl | rfl | rfl | rfl
    · exact hnone
    · split
      · exact hok
      · exact hinv
    · exact hnone
    · exact hok
    · exact noSp_dig _

/-- five space-free tokens printed with `fmt5` are recovered by `splitOn " "` -/
theorem split_fmt5 (a rs c after : String) (h : ∀ t ∈ [a, rs, c, "Ok", after], ' ' ∉ t.toList) :
    (fmt5 a rs c after).splitOn " " = [a, rs, c, "Ok", after] := by
  rw [fmt5_eq]
  exact splitOn_intercalate _ (by simp) h

end tokens

end Bao.SpecIndex
