import BaoModel.Ranges

/-!
# Range sets as boundary lists: semantic lemmas

`contains` on a strictly sorted boundary list is the parity of the number of
boundaries `≤ x` (`par`).  `union` is a merge that realises "or" on that parity.
-/

namespace Bao.Ranges

/-! ## `WF` -/

theorem WF_cons_iff (a : Nat) (l : List Nat) :
    WF (a :: l) = true ↔ (∀ y ∈ l, a < y) ∧ WF l = true := by
  induction l generalizing a with
  | nil => simp [WF]
  | cons b rest ih =>
    simp only [WF, Bool.and_eq_true, decide_eq_true_eq, List.mem_cons, forall_eq_or_imp]
    rw [ih b]
    constructor
    · rintro ⟨hab, hall, hwf⟩
      exact ⟨⟨hab, fun y hy => Nat.lt_trans hab (hall y hy)⟩, hall, hwf⟩
    · rintro ⟨⟨hab, _⟩, hall, hwf⟩
      exact ⟨hab, hall, hwf⟩

theorem WF_tail {a : Nat} {l : List Nat} (h : WF (a :: l) = true) : WF l = true :=
  ((WF_cons_iff a l).1 h).2

theorem WF_head_lt {a : Nat} {l : List Nat} (h : WF (a :: l) = true) : ∀ y ∈ l, a < y :=
  ((WF_cons_iff a l).1 h).1

/-! ## parity semantics -/

/-- parity of the number of boundaries `≤ x` -/
def par : List Nat → Nat → Bool
  | [], _ => false
  | a :: l, x => xor (decide (a ≤ x)) (par l x)

theorem par_eq_false_of_lt {l : List Nat} {x : Nat} (h : ∀ y ∈ l, x < y) : par l x = false := by
  induction l with
  | nil => rfl
  | cons a l ih =>
    have h1 : x < a := h a (List.mem_cons_self ..)
    have h2 := ih (fun y hy => h y (List.mem_cons_of_mem _ hy))
    simp [par, h2, Nat.not_le.2 h1]

theorem contains_nil (x : Nat) : contains [] x = false := by
  simp [contains, bsearch, countLt]

theorem flip_parity (n : Nat) : ((n + 1) % 2 == 1) = !(n % 2 == 1) := by
  rcases Nat.mod_two_eq_zero_or_one n with h0 | h0 <;>
    (have h1 : (n + 1) % 2 = 1 - n % 2 := by omega) <;> simp [h1, h0]

theorem flip_parity' (n : Nat) : ((n + 1) % 2 == 0) = !(n % 2 == 0) := by
  rcases Nat.mod_two_eq_zero_or_one n with h0 | h0 <;>
    (have h1 : (n + 1) % 2 = 1 - n % 2 := by omega) <;> simp [h1, h0]

/-- `contains` peels one boundary at a time (no sortedness needed) -/
theorem contains_cons (a : Nat) (l : List Nat) (x : Nat) :
    contains (a :: l) x = if a < x then !contains l x else decide (a = x) := by
  by_cases h : a < x
  · simp only [contains, bsearch, countLt, h, if_true, List.getElem?_cons_succ]
    cases hb : (l[countLt l x]? == some x) <;> simp only [flip_parity, flip_parity']
  · simp only [contains, bsearch, countLt, h, if_false, List.getElem?_cons_zero]
    by_cases e : a = x
    · simp [e]
    · have : (a == x) = false := by simp [e]
      simp [e, this]

theorem contains_eq_par {l : List Nat} (h : WF l = true) (x : Nat) : contains l x = par l x := by
  induction l with
  | nil => simp [contains_nil, par]
  | cons a l ih =>
    rw [contains_cons, par, ih (WF_tail h)]
    by_cases h1 : a < x
    · simp [h1, Nat.le_of_lt h1]
    · have : par l x = false := par_eq_false_of_lt (fun y hy => by
        have := WF_head_lt h y hy; omega)
      by_cases e : a = x
      · simp [e, this]
      · have : ¬ a ≤ x := by omega
        simp [*]

/-! ## `union` -/

theorem unionAux_lb (m : Nat) (fuel : Nat) (A B : List Nat) (ia ib : Bool)
    (hA : ∀ y ∈ A, m < y) (hB : ∀ y ∈ B, m < y) : ∀ y ∈ unionAux fuel A B ia ib, m < y := by
  fun_induction unionAux fuel A B ia ib <;> simp_all

theorem lt_of_lt_head {m a : Nat} {l : List Nat} (h : WF (a :: l) = true) (hm : m < a) :
    ∀ y ∈ a :: l, m < y := by
  intro y hy
  rcases List.mem_cons.1 hy with rfl | hy
  · exact hm
  · exact Nat.lt_trans hm (WF_head_lt h y hy)

theorem unionAux_wf (fuel : Nat) (A B : List Nat) (ia ib : Bool)
    (hA : WF A = true) (hB : WF B = true) : WF (unionAux fuel A B ia ib) = true := by
  fun_induction unionAux fuel A B ia ib
  case case1 => rfl
  case case2 => rfl
  case case3 x a ia ib h ih =>
    exact (WF_cons_iff _ _).2 ⟨unionAux_lb _ _ _ _ _ _ (WF_head_lt hA) (by simp), ih (WF_tail hA) hB⟩
  case case4 x a ia ib h ih => exact ih (WF_tail hA) hB
  case case5 y b ia ib h ih =>
    exact (WF_cons_iff _ _).2 ⟨unionAux_lb _ _ _ _ _ _ (by simp) (WF_head_lt hB), ih hA (WF_tail hB)⟩
  case case6 y b ia ib h ih => exact ih hA (WF_tail hB)
  case case7 x a y b ia ib hxy h ih =>
    exact (WF_cons_iff _ _).2
      ⟨unionAux_lb _ _ _ _ _ _ (WF_head_lt hA) (lt_of_lt_head hB hxy), ih (WF_tail hA) hB⟩
  case case8 x a y b ia ib hxy h ih => exact ih (WF_tail hA) hB
  case case9 x a y b ia ib hxy hyx h ih =>
    exact (WF_cons_iff _ _).2
      ⟨unionAux_lb _ _ _ _ _ _ (lt_of_lt_head hA hyx) (WF_head_lt hB), ih hA (WF_tail hB)⟩
  case case10 x a y b ia ib hxy hyx h ih => exact ih hA (WF_tail hB)
  case case11 x a y b ia ib hxy hyx h ih =>
    have e : y = x := by omega
    subst e
    exact (WF_cons_iff _ _).2
      ⟨unionAux_lb _ _ _ _ _ _ (WF_head_lt hA) (WF_head_lt hB), ih (WF_tail hA) (WF_tail hB)⟩
  case case12 x a y b ia ib hxy hyx h ih => exact ih (WF_tail hA) (WF_tail hB)

theorem lt_of_lt_head' {m a : Nat} {l : List Nat} (h : WF (a :: l) = true) (hm : m < a) :
    ∀ y ∈ l, m < y :=
  fun y hy => lt_of_lt_head h hm y (List.mem_cons_of_mem _ hy)

theorem par_cons_of_lt {a z : Nat} {l : List Nat} (h : WF (a :: l) = true) (hz : z < a) :
    par (a :: l) z = false :=
  par_eq_false_of_lt (lt_of_lt_head h hz)

theorem par_unionAux_lt {z : Nat} (fuel : Nat) (A B : List Nat) (ia ib : Bool)
    (hA : ∀ y ∈ A, z < y) (hB : ∀ y ∈ B, z < y) : par (unionAux fuel A B ia ib) z = false :=
  par_eq_false_of_lt (unionAux_lb z fuel A B ia ib hA hB)

theorem par_cons (a : Nat) (l : List Nat) (x : Nat) :
    par (a :: l) x = xor (decide (a ≤ x)) (par l x) := rfl

theorem not_mem_nil_lt (z : Nat) : ∀ y ∈ ([] : List Nat), z < y := by simp

/-- Bool algebra of one merge step that flips the `A` side -/
theorem step_a : ∀ (ia ib P Pa Pb : Bool),
    xor (!ia || ib) P = (xor (!ia) Pa || xor ib Pb) →
    xor (ia || ib) (if ((ia || ib) != (!ia || ib)) then xor true P else P)
      = (xor ia (xor true Pa) || xor ib Pb) := by decide

theorem step_b : ∀ (ia ib P Pa Pb : Bool),
    xor (ia || !ib) P = (xor ia Pa || xor (!ib) Pb) →
    xor (ia || ib) (if ((ia || ib) != (ia || !ib)) then xor true P else P)
      = (xor ia Pa || xor ib (xor true Pb)) := by decide

theorem step_ab : ∀ (ia ib P Pa Pb : Bool),
    xor (!ia || !ib) P = (xor (!ia) Pa || xor (!ib) Pb) →
    xor (ia || ib) (if ((ia || ib) != (!ia || !ib)) then xor true P else P)
      = (xor ia (xor true Pa) || xor ib (xor true Pb)) := by decide

theorem unionAux_par (fuel : Nat) (A B : List Nat) (ia ib : Bool)
    (hA : WF A = true) (hB : WF B = true) (hf : A.length + B.length ≤ fuel) (z : Nat) :
    xor (ia || ib) (par (unionAux fuel A B ia ib) z)
      = (xor ia (par A z) || xor ib (par B z)) := by
  fun_induction unionAux fuel A B ia ib
  case case1 A B ia ib =>
    have h1 : A = [] := List.eq_nil_of_length_eq_zero (by omega)
    have h2 : B = [] := List.eq_nil_of_length_eq_zero (by omega)
    simp [h1, h2, par]
  case case2 => simp [par]
  case case3 x a ia ib h ih =>
    have ih' := ih (WF_tail hA) hB (by simp only [List.length_cons] at hf ⊢; omega)
    by_cases hz : x ≤ z
    · have := step_a ia ib _ _ _ ih'
      rw [if_pos h] at this
      simpa only [par, hz, decide_true] using this
    · have hz' := hz
      have hz : z < x := by omega
      rw [par_cons_of_lt hA hz, par_cons,
        par_unionAux_lt _ _ _ _ _ (lt_of_lt_head' hA hz) (not_mem_nil_lt z)]
      simp [par, hz']
  case case4 x a ia ib h ih =>
    have ih' := ih (WF_tail hA) hB (by simp only [List.length_cons] at hf ⊢; omega)
    by_cases hz : x ≤ z
    · have := step_a ia ib _ _ _ ih'
      rw [if_neg h] at this
      simpa only [par, hz, decide_true] using this
    · have hz' := hz
      have hz : z < x := by omega
      rw [par_cons_of_lt hA hz,
        par_unionAux_lt _ _ _ _ _ (lt_of_lt_head' hA hz) (not_mem_nil_lt z)]
      simp [par]
  case case5 y b ia ib h ih =>
    have ih' := ih hA (WF_tail hB) (by simp only [List.length_cons] at hf ⊢; omega)
    by_cases hz : y ≤ z
    · have := step_b ia ib _ _ _ ih'
      rw [if_pos h] at this
      simpa only [par, hz, decide_true] using this
    · have hz' := hz
      have hz : z < y := by omega
      rw [par_cons_of_lt hB hz, par_cons,
        par_unionAux_lt _ _ _ _ _ (not_mem_nil_lt z) (lt_of_lt_head' hB hz)]
      simp [par, hz']
  case case6 y b ia ib h ih =>
    have ih' := ih hA (WF_tail hB) (by simp only [List.length_cons] at hf ⊢; omega)
    by_cases hz : y ≤ z
    · have := step_b ia ib _ _ _ ih'
      rw [if_neg h] at this
      simpa only [par, hz, decide_true] using this
    · have hz' := hz
      have hz : z < y := by omega
      rw [par_cons_of_lt hB hz,
        par_unionAux_lt _ _ _ _ _ (not_mem_nil_lt z) (lt_of_lt_head' hB hz)]
      simp [par]
  case case7 x a y b ia ib hxy h ih =>
    have ih' := ih (WF_tail hA) hB (by simp only [List.length_cons] at hf ⊢; omega)
    by_cases hz : x ≤ z
    · have := step_a ia ib _ _ _ ih'
      rw [if_pos h] at this
      simpa only [par, hz, decide_true] using this
    · have hz' := hz
      have hz : z < x := by omega
      rw [par_cons_of_lt hA hz, par_cons_of_lt hB (Nat.lt_trans hz hxy), par_cons,
        par_unionAux_lt _ _ _ _ _ (lt_of_lt_head' hA hz) (lt_of_lt_head hB (Nat.lt_trans hz hxy))]
      simp [hz']
  case case8 x a y b ia ib hxy h ih =>
    have ih' := ih (WF_tail hA) hB (by simp only [List.length_cons] at hf ⊢; omega)
    by_cases hz : x ≤ z
    · have := step_a ia ib _ _ _ ih'
      rw [if_neg h] at this
      simpa only [par, hz, decide_true] using this
    · have hz' := hz
      have hz : z < x := by omega
      rw [par_cons_of_lt hA hz, par_cons_of_lt hB (Nat.lt_trans hz hxy),
        par_unionAux_lt _ _ _ _ _ (lt_of_lt_head' hA hz) (lt_of_lt_head hB (Nat.lt_trans hz hxy))]
      simp
  case case9 x a y b ia ib hxy hyx h ih =>
    have ih' := ih hA (WF_tail hB) (by simp only [List.length_cons] at hf ⊢; omega)
    by_cases hz : y ≤ z
    · have := step_b ia ib _ _ _ ih'
      rw [if_pos h] at this
      simpa only [par, hz, decide_true] using this
    · have hz' := hz
      have hz : z < y := by omega
      rw [par_cons_of_lt hB hz, par_cons_of_lt hA (Nat.lt_trans hz hyx), par_cons,
        par_unionAux_lt _ _ _ _ _ (lt_of_lt_head hA (Nat.lt_trans hz hyx)) (lt_of_lt_head' hB hz)]
      simp [hz']
  case case10 x a y b ia ib hxy hyx h ih =>
    have ih' := ih hA (WF_tail hB) (by simp only [List.length_cons] at hf ⊢; omega)
    by_cases hz : y ≤ z
    · have := step_b ia ib _ _ _ ih'
      rw [if_neg h] at this
      simpa only [par, hz, decide_true] using this
    · have hz' := hz
      have hz : z < y := by omega
      rw [par_cons_of_lt hB hz, par_cons_of_lt hA (Nat.lt_trans hz hyx),
        par_unionAux_lt _ _ _ _ _ (lt_of_lt_head hA (Nat.lt_trans hz hyx)) (lt_of_lt_head' hB hz)]
      simp
  case case11 x a y b ia ib hxy hyx h ih =>
    have e : y = x := by omega
    subst e
    have ih' := ih (WF_tail hA) (WF_tail hB) (by simp only [List.length_cons] at hf ⊢; omega)
    by_cases hz : y ≤ z
    · have := step_ab ia ib _ _ _ ih'
      rw [if_pos h] at this
      simpa only [par, hz, decide_true] using this
    · have hz' := hz
      have hz : z < y := by omega
      rw [par_cons_of_lt hB hz, par_cons_of_lt hA hz, par_cons,
        par_unionAux_lt _ _ _ _ _ (lt_of_lt_head' hA hz) (lt_of_lt_head' hB hz)]
      simp [hz']
  case case12 x a y b ia ib hxy hyx h ih =>
    have e : y = x := by omega
    subst e
    have ih' := ih (WF_tail hA) (WF_tail hB) (by simp only [List.length_cons] at hf ⊢; omega)
    by_cases hz : y ≤ z
    · have := step_ab ia ib _ _ _ ih'
      rw [if_neg h] at this
      simpa only [par, hz, decide_true] using this
    · have hz' := hz
      have hz : z < y := by omega
      rw [par_cons_of_lt hB hz, par_cons_of_lt hA hz,
        par_unionAux_lt _ _ _ _ _ (lt_of_lt_head' hA hz) (lt_of_lt_head' hB hz)]
      simp

theorem union_wf {A B : List Nat} (hA : WF A = true) (hB : WF B = true) :
    WF (union A B) = true :=
  unionAux_wf _ _ _ _ _ hA hB

theorem union_contains {A B : List Nat} (hA : WF A = true) (hB : WF B = true) (x : Nat) :
    contains (union A B) x = (contains A x || contains B x) := by
  rw [contains_eq_par (union_wf hA hB), contains_eq_par hA, contains_eq_par hB]
  have := unionAux_par (A.length + B.length + 1) A B false false hA hB (by omega) x
  simpa [union] using this

theorem union_mem {A B : List Nat} (hA : WF A = true) (hB : WF B = true) (x : Nat) :
    contains (union A B) x = true ↔ contains A x = true ∨ contains B x = true := by
  rw [union_contains hA hB, Bool.or_eq_true]

theorem mem_unionAux (fuel : Nat) (A B : List Nat) (ia ib : Bool) :
    ∀ y ∈ unionAux fuel A B ia ib, y ∈ A ∨ y ∈ B := by
  fun_induction unionAux fuel A B ia ib <;> simp_all <;> grind

/-- every boundary of a union is a boundary of one of the operands -/
theorem mem_union {A B : List Nat} {y : Nat} (h : y ∈ union A B) : y ∈ A ∨ y ∈ B :=
  mem_unionAux _ _ _ _ _ y h

/-! ## items, intervals, folds -/

theorem contains_single (a x : Nat) : contains [a] x = decide (a ≤ x) := by
  rw [contains_cons, contains_nil]
  by_cases h : a < x
  · simp [h, Nat.le_of_lt h]
  · by_cases e : a = x
    · simp [e]
    · have : ¬ a ≤ x := by omega
      simp [h, e, this]

theorem contains_eq_false_of_lt {l : List Nat} {x : Nat} (hwf : WF l = true) (h : ∀ y ∈ l, x < y) :
    contains l x = false := by
  rw [contains_eq_par hwf, par_eq_false_of_lt h]

theorem contains_cons_cons {a b : Nat} {rest : List Nat} (h : WF (a :: b :: rest) = true) (x : Nat) :
    contains (a :: b :: rest) x = ((decide (a ≤ x) && decide (x < b)) || contains rest x) := by
  have hab : a < b := WF_head_lt h b (List.mem_cons_self ..)
  have hwr : WF rest = true := WF_tail (WF_tail h)
  rw [contains_eq_par h, par_cons, par_cons, ← contains_eq_par hwr]
  by_cases hx : x < b
  · have : contains rest x = false :=
      contains_eq_false_of_lt hwr (lt_of_lt_head' (WF_tail h) hx)
    have hx' : ¬ b ≤ x := by omega
    simp [this, hx, hx']
  · have h1 : a ≤ x := by omega
    have h2 : b ≤ x := by omega
    simp [hx, h1, h2]

/-- membership in one item of `iter()` -/
def Item.has : Item → Nat → Prop
  | .range a b, x => a ≤ x ∧ x < b
  | .from_ a, x => a ≤ x

/-- an item of a well-formed set with boundaries below `N` -/
def Item.ok (N : Nat) : Item → Prop
  | .range a b => a < b ∧ b < N
  | .from_ a => a < N

theorem contains_iff_items {R : List Nat} (h : WF R = true) (x : Nat) :
    contains R x = true ↔ ∃ it ∈ items R, it.has x := by
  fun_induction items R
  case case1 => simp [contains_nil]
  case case2 a => simp [contains_single, Item.has]
  case case3 a b rest ih =>
    rw [contains_cons_cons h, Bool.or_eq_true, ih (WF_tail (WF_tail h))]
    simp [Item.has]

theorem items_ok {R : List Nat} {N : Nat} (h : WF R = true) (hN : ∀ y ∈ R, y < N) :
    ∀ it ∈ items R, it.ok N := by
  fun_induction items R
  case case1 => simp
  case case2 a => simp [Item.ok] at hN ⊢; exact hN
  case case3 a b rest ih =>
    intro it hit
    rcases List.mem_cons.1 hit with rfl | hit
    · exact ⟨WF_head_lt h b (List.mem_cons_self ..), hN b (by simp)⟩
    · exact ih (WF_tail (WF_tail h)) (fun y hy => hN y (by simp [hy])) it hit

/-- an interval inside the set lies inside a single item (items are separated by gaps) -/
theorem interval_in_item {R : List Nat} (h : WF R = true) {lo hi : Nat} (hle : lo ≤ hi)
    (hall : ∀ x, lo ≤ x → x ≤ hi → contains R x = true) :
    ∃ it ∈ items R, it.has lo ∧ it.has hi := by
  fun_induction items R
  case case1 => simpa [contains_nil] using hall lo (Nat.le_refl _) hle
  case case2 a =>
    have := hall lo (Nat.le_refl _) hle
    simp [contains_single] at this
    exact ⟨_, List.mem_singleton.2 rfl, this, Nat.le_trans this hle⟩
  case case3 a b rest ih =>
    have hwr : WF rest = true := WF_tail (WF_tail h)
    have hb : contains (a :: b :: rest) b = false := by
      rw [contains_cons_cons h, contains_eq_false_of_lt hwr (WF_head_lt (WF_tail h))]; simp
    have hlo := hall lo (Nat.le_refl _) hle
    rw [contains_cons_cons h] at hlo
    simp only [Bool.or_eq_true, Bool.and_eq_true, decide_eq_true_eq] at hlo
    by_cases hlob : lo < b
    · have h1 : a ≤ lo := by
        rcases hlo with h1 | h1
        · exact h1.1
        · rw [contains_eq_false_of_lt hwr (lt_of_lt_head' (WF_tail h) hlob)] at h1; cases h1
      have h2 : hi < b := by
        apply Nat.lt_of_not_le; intro hbh
        rw [hall b (by omega) hbh] at hb; cases hb
      exact ⟨_, List.mem_cons_self .., ⟨h1, hlob⟩, ⟨by omega, h2⟩⟩
    · obtain ⟨it, hit, hh⟩ := ih hwr (fun x h1 h2 => by
        have := hall x h1 h2
        rw [contains_cons_cons h] at this
        have hx : ¬ x < b := by omega
        simpa [hx] using this)
      exact ⟨it, List.mem_cons_of_mem _ hit, hh⟩

theorem ofRange_wf (a b : Nat) : WF (ofRange a b) = true := by
  unfold ofRange; split <;> simp [WF, *]

theorem ofRange_contains (a b x : Nat) : contains (ofRange a b) x = true ↔ a ≤ x ∧ x < b := by
  unfold ofRange; split
  · rename_i h
    rw [contains_cons_cons (by simp [WF, h])]; simp [contains_nil]
  · simp [contains_nil]; omega

theorem ofFrom_wf (a : Nat) : WF (ofFrom a) = true := rfl

theorem ofFrom_contains (a x : Nat) : contains (ofFrom a) x = true ↔ a ≤ x := by
  simp [ofFrom, contains_single]

theorem mem_ofRange {a b y : Nat} (h : y ∈ ofRange a b) : y = a ∨ y = b := by
  unfold ofRange at h; split at h <;> simp at h; exact h

/-- fold of a step function that adds `P it` to the set, under an invariant `I` -/
theorem foldl_sem (s : List Nat → Item → List Nat) (P : Item → Nat → Prop) (D : Nat → Prop)
    (good : Item → Prop) (I : List Nat → Prop)
    (hs : ∀ res it, good it → I res →
      I (s res it) ∧ ∀ x, D x → (contains (s res it) x = true ↔ contains res x = true ∨ P it x))
    (its : List Item) (hg : ∀ it ∈ its, good it) (init : List Nat) (hinit : I init) :
    I (its.foldl s init) ∧
      ∀ x, D x → (contains (its.foldl s init) x = true ↔
        contains init x = true ∨ ∃ it ∈ its, P it x) := by
  induction its generalizing init with
  | nil => simp [hinit]
  | cons it its ih =>
    have h1 := hs init it (hg it (List.mem_cons_self ..)) hinit
    have h2 := ih (fun i hi => hg i (List.mem_cons_of_mem _ hi)) (s init it) h1.1
    refine ⟨h2.1, fun x hx => ?_⟩
    rw [List.foldl_cons, h2.2 x hx, h1.2 x hx]
    simp only [List.mem_cons, exists_eq_or_imp]
    exact or_assoc

/-! ## group arithmetic: everything relative to the group start `c / p * p` -/

theorem div_le_iff' {p : Nat} (hp : 0 < p) (y g : Nat) : y / p ≤ g ↔ y < g * p + p := by
  rw [← Nat.lt_succ_iff, Nat.div_lt_iff_lt_mul hp, Nat.succ_mul]

theorem le_div_iff' {p : Nat} (hp : 0 < p) (y g : Nat) : g ≤ y / p ↔ g * p ≤ y :=
  Nat.le_div_iff_mul_le hp

theorem group_bounds {p : Nat} (hp : 0 < p) (c : Nat) : c / p * p ≤ c ∧ c < c / p * p + p :=
  ⟨(le_div_iff' hp c _).1 (Nat.le_refl _), (div_le_iff' hp c _).1 (Nat.le_refl _)⟩

/-- same group ↔ inside the group interval -/
theorem same_group_iff {p : Nat} (hp : 0 < p) (x c : Nat) :
    x / p = c / p ↔ c / p * p ≤ x ∧ x < c / p * p + p := by
  rw [← le_div_iff' hp, ← div_le_iff' hp]; omega

theorem ceil_le_iff {p : Nat} (hp : 0 < p) (a c : Nat) :
    (a + p - 1) / p * p ≤ c ↔ a ≤ c / p * p := by
  rw [← le_div_iff' hp, div_le_iff' hp]; omega

theorem lt_floor_iff {p : Nat} (hp : 0 < p) (b c : Nat) :
    c < b / p * p ↔ c / p * p + p ≤ b := by
  rw [← Nat.succ_mul, ← le_div_iff' hp, ← Nat.not_le, ← le_div_iff' hp]; omega

theorem floor_le_iff {p : Nat} (hp : 0 < p) (a c : Nat) :
    a / p * p ≤ c ↔ a < c / p * p + p := by
  rw [← le_div_iff' hp, div_le_iff' hp]

theorem lt_ceil_iff {p : Nat} (hp : 0 < p) (b c : Nat) :
    c < (b / p + (if b % p ≠ 0 then 1 else 0)) * p ↔ c / p * p < b := by
  rw [← Nat.not_le, ← le_div_iff' hp]
  by_cases h : b % p = 0
  · have hb : b = b / p * p := by
      have := Nat.div_add_mod b p; rw [h, Nat.mul_comm] at this; omega
    have : c / p * p < b ↔ c / p * p < b / p * p := by rw [← hb]
    rw [this, Nat.mul_lt_mul_right hp]; simp [h]
  · have h1 : c / p * p < b ↔ c / p * p ≤ b := by
      constructor
      · omega
      · intro hle
        rcases Nat.lt_or_eq_of_le hle with h2 | h2
        · exact h2
        · exact absurd (by rw [← h2, Nat.mul_mod_left]) h
    rw [h1, ← le_div_iff' hp]; simp [h]; omega

/-! ## `round_up_to_chunks` -/

def chunksStep (res : List Nat) (it : Item) : List Nat :=
  match it with
  | .from_ a => union res (ofFrom (fullChunksOf a))
  | .range a b => union res (ofRange (fullChunksOf a) (chunksOf b))

theorem roundUpToChunks_eq (R : List Nat) :
    roundUpToChunks R = (items R).foldl chunksStep [] := rfl

/-- some byte of chunk `c` lies in the item -/
def chunksP (it : Item) (c : Nat) : Prop :=
  ∃ x, 1024 * c ≤ x ∧ x < 1024 * c + 1024 ∧ it.has x

/-- invariant: sorted, boundaries `≤ B` -/
def Inv (B : Nat) (res : List Nat) : Prop := WF res = true ∧ ∀ y ∈ res, y ≤ B

theorem Inv_nil (B : Nat) : Inv B [] := ⟨rfl, by simp⟩

theorem Inv_union_range {B : Nat} {res : List Nat} (h : Inv B res) {a b : Nat}
    (hb : a < b → b ≤ B) : Inv B (union res (ofRange a b)) := by
  refine ⟨union_wf h.1 (ofRange_wf a b), fun y hy => ?_⟩
  rcases mem_union hy with h1 | h1
  · exact h.2 y h1
  · unfold ofRange at h1
    split at h1
    · rename_i hab
      have := hb hab
      simp at h1; omega
    · simp at h1

theorem Inv_union_from {B : Nat} {res : List Nat} (h : Inv B res) {a : Nat}
    (ha : a ≤ B) : Inv B (union res (ofFrom a)) := by
  refine ⟨union_wf h.1 (ofFrom_wf a), fun y hy => ?_⟩
  rcases mem_union hy with h1 | h1
  · exact h.2 y h1
  · simp [ofFrom] at h1; omega

theorem chunksStep_sem (res : List Nat) (it : Item) (hok : it.ok (2 ^ 64)) (h : Inv (2 ^ 54) res) :
    Inv (2 ^ 54) (chunksStep res it) ∧
      ∀ c, True → (contains (chunksStep res it) c = true ↔ contains res c = true ∨ chunksP it c) := by
  cases it with
  | range a b =>
    have hok : a < b ∧ b < 2 ^ 64 := hok
    refine ⟨Inv_union_range h (fun _ => by unfold chunksOf; split <;> omega), fun c _ => ?_⟩
    simp only [chunksStep, union_mem h.1 (ofRange_wf _ _), ofRange_contains, chunksP, Item.has,
      fullChunksOf, chunksOf]
    apply or_congr Iff.rfl
    constructor
    · intro hc
      refine ⟨max a (1024 * c), ?_⟩
      split at hc <;> omega
    · rintro ⟨x, hx⟩
      split <;> omega
  | from_ a =>
    have hok : a < 2 ^ 64 := hok
    refine ⟨Inv_union_from h (by unfold fullChunksOf; omega), fun c _ => ?_⟩
    simp only [chunksStep, union_mem h.1 (ofFrom_wf _), ofFrom_contains, chunksP, Item.has,
      fullChunksOf]
    apply or_congr Iff.rfl
    constructor
    · intro hc
      exact ⟨max a (1024 * c), by omega⟩
    · rintro ⟨x, hx⟩
      omega

theorem roundUpToChunks_sem {R : List Nat} (h : WF R = true) (hN : ∀ y ∈ R, y < 2 ^ 64) :
    Inv (2 ^ 54) (roundUpToChunks R) ∧
      ∀ c, contains (roundUpToChunks R) c = true ↔
        ∃ x, 1024 * c ≤ x ∧ x < 1024 * c + 1024 ∧ contains R x = true := by
  have := foldl_sem chunksStep chunksP (fun _ => True) (Item.ok (2 ^ 64)) (Inv (2 ^ 54))
    chunksStep_sem (items R) (items_ok h hN) [] (Inv_nil _)
  refine ⟨this.1, fun c => ?_⟩
  rw [roundUpToChunks_eq, this.2 c trivial]
  simp only [contains_nil, false_or, chunksP, contains_iff_items h, Bool.false_eq_true]
  constructor
  · rintro ⟨it, hit, x, h1, h2, h3⟩
    exact ⟨x, h1, h2, it, hit, h3⟩
  · rintro ⟨x, h1, h2, it, hit, h3⟩
    exact ⟨it, hit, x, h1, h2, h3⟩

/-! ## `round_up_to_chunks_groups` -/

def groupsStep (bs : Nat) (res : List Nat) (it : Item) : List Nat :=
  match it with
  | .from_ a => union res (ofFrom (chunkGroupStart a bs))
  | .range a b =>
    match chunkGroupEnd? b bs with
    | some e => union res (ofRange (chunkGroupStart a bs) e)
    | none => union res (ofFrom (chunkGroupStart a bs))

theorem roundUpToChunkGroups_eq (R : List Nat) (bs : Nat) :
    roundUpToChunkGroups R bs = (items R).foldl (groupsStep bs) [] := rfl

/-- some chunk (a u64) of the chunk group of `c` lies in the item -/
def groupsP (bs : Nat) (it : Item) (c : Nat) : Prop :=
  ∃ x, x < 2 ^ 64 ∧ x / 2 ^ bs = c / 2 ^ bs ∧ it.has x

theorem chunkGroupEnd?_eq (e bs : Nat) : chunkGroupEnd? e bs =
    if (e / 2 ^ bs + (if e % 2 ^ bs ≠ 0 then 1 else 0)) * 2 ^ bs < 2 ^ 64
    then some ((e / 2 ^ bs + (if e % 2 ^ bs ≠ 0 then 1 else 0)) * 2 ^ bs) else none := rfl

theorem groupsStep_sem (bs : Nat) (res : List Nat) (it : Item) (hok : it.ok (2 ^ 64))
    (h : Inv (2 ^ 64 - 1) res) :
    Inv (2 ^ 64 - 1) (groupsStep bs res it) ∧
      ∀ c, c < 2 ^ 64 →
        (contains (groupsStep bs res it) c = true ↔ contains res c = true ∨ groupsP bs it c) := by
  have hp : 0 < 2 ^ bs := Nat.two_pow_pos bs
  cases it with
  | range a b =>
    have hok : a < b ∧ b < 2 ^ 64 := hok
    have hfl : a / 2 ^ bs * 2 ^ bs ≤ a := Nat.div_mul_le_self a _
    simp only [groupsStep, chunkGroupEnd?_eq, chunkGroupStart]
    by_cases hlt : (b / 2 ^ bs + (if b % 2 ^ bs ≠ 0 then 1 else 0)) * 2 ^ bs < 2 ^ 64
    · rw [if_pos hlt]
      refine ⟨Inv_union_range h (fun _ => by omega), fun c hc => ?_⟩
      have hG := group_bounds hp c
      simp only [union_mem h.1 (ofRange_wf _ _), ofRange_contains, groupsP, Item.has,
        lt_ceil_iff hp, floor_le_iff hp]
      simp only [same_group_iff hp]
      generalize c / 2 ^ bs * 2 ^ bs = G at *
      apply or_congr Iff.rfl
      constructor
      · intro hh
        exact ⟨max a G, by omega⟩
      · rintro ⟨x, hx⟩
        omega
    · rw [if_neg hlt]
      refine ⟨Inv_union_from h (by omega), fun c hc => ?_⟩
      have hG := group_bounds hp c
      have hcb : c / 2 ^ bs * 2 ^ bs < b := (lt_ceil_iff hp b c).1 (by omega)
      simp only [union_mem h.1 (ofFrom_wf _), ofFrom_contains, groupsP, Item.has,
        floor_le_iff hp]
      simp only [same_group_iff hp]
      generalize c / 2 ^ bs * 2 ^ bs = G at *
      apply or_congr Iff.rfl
      constructor
      · intro hh
        exact ⟨max a G, by omega⟩
      · rintro ⟨x, hx⟩
        omega
  | from_ a =>
    have hok : a < 2 ^ 64 := hok
    have hfl : a / 2 ^ bs * 2 ^ bs ≤ a := Nat.div_mul_le_self a _
    refine ⟨Inv_union_from h (by unfold chunkGroupStart; omega), fun c hc => ?_⟩
    have hG := group_bounds hp c
    simp only [groupsStep, chunkGroupStart, union_mem h.1 (ofFrom_wf _), ofFrom_contains, groupsP,
      Item.has, floor_le_iff hp]
    simp only [same_group_iff hp]
    generalize c / 2 ^ bs * 2 ^ bs = G at *
    apply or_congr Iff.rfl
    constructor
    · intro hh
      exact ⟨max a G, by omega⟩
    · rintro ⟨x, hx⟩
      omega

theorem roundUpToChunkGroups_sem {R : List Nat} (bs : Nat) (h : WF R = true)
    (hN : ∀ y ∈ R, y < 2 ^ 64) :
    Inv (2 ^ 64 - 1) (roundUpToChunkGroups R bs) ∧
      ∀ c, c < 2 ^ 64 → (contains (roundUpToChunkGroups R bs) c = true ↔
        ∃ x, x < 2 ^ 64 ∧ x / 2 ^ bs = c / 2 ^ bs ∧ contains R x = true) := by
  have := foldl_sem (groupsStep bs) (groupsP bs) (fun c => c < 2 ^ 64) (Item.ok (2 ^ 64))
    (Inv (2 ^ 64 - 1)) (groupsStep_sem bs) (items R) (items_ok h hN) [] (Inv_nil _)
  refine ⟨this.1, fun c hc => ?_⟩
  rw [roundUpToChunkGroups_eq, this.2 c hc]
  simp only [contains_nil, false_or, groupsP, contains_iff_items h, Bool.false_eq_true]
  constructor
  · rintro ⟨it, hit, x, h1, h2, h3⟩
    exact ⟨x, h1, h2, it, hit, h3⟩
  · rintro ⟨x, h1, h2, it, hit, h3⟩
    exact ⟨it, hit, x, h1, h2, h3⟩

/-! ## `full_chunk_groups` -/

def fullStep (bs : Nat) (res : List Nat) (it : Item) : List Nat :=
  match it with
  | .from_ a =>
    match ceilGroup? a bs with
    | some s => union res (ofFrom s)
    | none => res
  | .range a b =>
    match ceilGroup? a bs with
    | some s =>
      let e := floorGroup b bs
      if s < e then union res (ofRange s e) else res
    | none => res

theorem fullChunkGroups_eq (R : List Nat) (bs : Nat) :
    fullChunkGroups R bs = (items R).foldl (fullStep bs) [] := rfl

/-- every chunk (a u64) of the chunk group of `c` lies in the item -/
def fullP (bs : Nat) (it : Item) (c : Nat) : Prop :=
  ∀ x, x < 2 ^ 64 → x / 2 ^ bs = c / 2 ^ bs → it.has x

theorem ceilGroup?_eq (v bs : Nat) : ceilGroup? v bs =
    if (v + 2 ^ bs - 1) / 2 ^ bs * 2 ^ bs < 2 ^ 64
    then some ((v + 2 ^ bs - 1) / 2 ^ bs * 2 ^ bs) else none := rfl

/-- chunk groups do not straddle `2^64` -/
theorem group_top {bs c : Nat} (hbs : bs ≤ 64) (hc : c < 2 ^ 64) :
    c / 2 ^ bs * 2 ^ bs + 2 ^ bs ≤ 2 ^ 64 := by
  have hp : 0 < 2 ^ bs := Nat.two_pow_pos bs
  have e : 2 ^ 64 = 2 ^ (64 - bs) * 2 ^ bs := by rw [← Nat.pow_add]; congr 1; omega
  have h1 : c / 2 ^ bs < 2 ^ (64 - bs) := by rw [Nat.div_lt_iff_lt_mul hp, ← e]; exact hc
  have h2 : (c / 2 ^ bs + 1) * 2 ^ bs ≤ 2 ^ (64 - bs) * 2 ^ bs := Nat.mul_le_mul_right _ h1
  rw [Nat.succ_mul] at h2
  omega

theorem fullP_range {bs c : Nat} (hbs : bs ≤ 64) (hc : c < 2 ^ 64) (a b : Nat) :
    fullP bs (.range a b) c ↔
      (a + 2 ^ bs - 1) / 2 ^ bs * 2 ^ bs ≤ c ∧ c < b / 2 ^ bs * 2 ^ bs := by
  have hp : 0 < 2 ^ bs := Nat.two_pow_pos bs
  have hG := group_bounds hp c
  have htop := group_top hbs hc
  simp only [fullP, Item.has, ceil_le_iff hp, lt_floor_iff hp]
  simp only [same_group_iff hp]
  generalize c / 2 ^ bs * 2 ^ bs = G at *
  generalize 2 ^ bs = p at *
  constructor
  · intro hh
    have h1 := hh G (by omega) (by omega)
    have h2 := hh (G + p - 1) (by omega) (by omega)
    omega
  · intro hh x _ hx
    omega

theorem fullP_from {bs c : Nat} (hbs : bs ≤ 64) (hc : c < 2 ^ 64) (a : Nat) :
    fullP bs (.from_ a) c ↔ (a + 2 ^ bs - 1) / 2 ^ bs * 2 ^ bs ≤ c := by
  have hp : 0 < 2 ^ bs := Nat.two_pow_pos bs
  have hG := group_bounds hp c
  have htop := group_top hbs hc
  simp only [fullP, Item.has, ceil_le_iff hp]
  simp only [same_group_iff hp]
  generalize c / 2 ^ bs * 2 ^ bs = G at *
  generalize 2 ^ bs = p at *
  constructor
  · intro hh
    exact hh G (by omega) (by omega)
  · intro hh x _ hx
    omega

theorem fullStep_sem (bs : Nat) (hbs : bs ≤ 64) (res : List Nat) (it : Item)
    (hok : it.ok (2 ^ 64)) (h : Inv (2 ^ 64 - 1) res) :
    Inv (2 ^ 64 - 1) (fullStep bs res it) ∧
      ∀ c, c < 2 ^ 64 →
        (contains (fullStep bs res it) c = true ↔ contains res c = true ∨ fullP bs it c) := by
  have hp : 0 < 2 ^ bs := Nat.two_pow_pos bs
  cases it with
  | range a b =>
    have hok : a < b ∧ b < 2 ^ 64 := hok
    have hfl : b / 2 ^ bs * 2 ^ bs ≤ b := Nat.div_mul_le_self b _
    simp only [fullStep, ceilGroup?_eq]
    generalize he : floorGroup b bs = e
    change b / 2 ^ bs * 2 ^ bs = e at he
    subst he
    by_cases hlt : (a + 2 ^ bs - 1) / 2 ^ bs * 2 ^ bs < 2 ^ 64
    · rw [if_pos hlt]
      dsimp only
      by_cases hse : (a + 2 ^ bs - 1) / 2 ^ bs * 2 ^ bs < b / 2 ^ bs * 2 ^ bs
      · rw [if_pos hse]
        refine ⟨Inv_union_range h (fun _ => by omega), fun c hc => ?_⟩
        rw [fullP_range hbs hc, union_mem h.1 (ofRange_wf _ _), ofRange_contains]
      · rw [if_neg hse]
        refine ⟨h, fun c hc => ?_⟩
        rw [fullP_range hbs hc]
        constructor
        · exact Or.inl
        · rintro (h1 | h1)
          · exact h1
          · omega
    · rw [if_neg hlt]
      refine ⟨h, fun c hc => ?_⟩
      rw [fullP_range hbs hc]
      constructor
      · exact Or.inl
      · rintro (h1 | h1)
        · exact h1
        · omega
  | from_ a =>
    have hok : a < 2 ^ 64 := hok
    simp only [fullStep, ceilGroup?_eq]
    by_cases hlt : (a + 2 ^ bs - 1) / 2 ^ bs * 2 ^ bs < 2 ^ 64
    · rw [if_pos hlt]
      refine ⟨Inv_union_from h (by omega), fun c hc => ?_⟩
      rw [fullP_from hbs hc, union_mem h.1 (ofFrom_wf _), ofFrom_contains]
    · rw [if_neg hlt]
      refine ⟨h, fun c hc => ?_⟩
      rw [fullP_from hbs hc]
      constructor
      · exact Or.inl
      · rintro (h1 | h1)
        · exact h1
        · omega

theorem fullChunkGroups_sem {R : List Nat} (bs : Nat) (hbs : bs ≤ 64) (h : WF R = true)
    (hN : ∀ y ∈ R, y < 2 ^ 64) :
    Inv (2 ^ 64 - 1) (fullChunkGroups R bs) ∧
      ∀ c, c < 2 ^ 64 → (contains (fullChunkGroups R bs) c = true ↔
        ∀ x, x < 2 ^ 64 → x / 2 ^ bs = c / 2 ^ bs → contains R x = true) := by
  have := foldl_sem (fullStep bs) (fullP bs) (fun c => c < 2 ^ 64) (Item.ok (2 ^ 64))
    (Inv (2 ^ 64 - 1)) (fullStep_sem bs hbs) (items R) (items_ok h hN) [] (Inv_nil _)
  refine ⟨this.1, fun c hc => ?_⟩
  rw [fullChunkGroups_eq, this.2 c hc]
  simp only [contains_nil, false_or, Bool.false_eq_true]
  have hp : 0 < 2 ^ bs := Nat.two_pow_pos bs
  constructor
  · rintro ⟨it, hit, hP⟩ x hx hxc
    exact (contains_iff_items h x).2 ⟨it, hit, hP x hx hxc⟩
  · intro hall
    have hG := group_bounds hp c
    have htop := group_top hbs hc
    obtain ⟨it, hit, hlo, hhi⟩ := interval_in_item h
      (lo := c / 2 ^ bs * 2 ^ bs) (hi := c / 2 ^ bs * 2 ^ bs + 2 ^ bs - 1) (by omega)
      (fun x h1 h2 => hall x (by omega) ((same_group_iff hp x c).2 (by omega)))
    refine ⟨it, hit, fun x _ hxc => ?_⟩
    rw [same_group_iff hp] at hxc
    cases it with
    | range a b => exact ⟨by have := hlo.1; omega, by have := hhi.2; omega⟩
    | from_ a => have : a ≤ _ := hlo; exact Nat.le_trans this hxc.1

/-! ## the two spellings of "round up to a group boundary" agree -/

theorem ceil_forms {p : Nat} (hp : 0 < p) (v : Nat) :
    (v / p + (if v % p ≠ 0 then 1 else 0)) * p = (v + p - 1) / p * p := by
  apply Nat.le_antisymm
  · have h1 := (ceil_le_iff hp v ((v + p - 1) / p * p)).1 (Nat.le_refl _)
    have h2 := lt_ceil_iff hp v ((v + p - 1) / p * p)
    omega
  · have h1 := lt_ceil_iff hp v ((v / p + (if v % p ≠ 0 then 1 else 0)) * p)
    have h2 := ceil_le_iff hp v ((v / p + (if v % p ≠ 0 then 1 else 0)) * p)
    omega

/-- `chunk_group_end` (checked) and `ceil` of `src/io/mod.rs` are the same function -/
theorem chunkGroupEnd?_eq_ceilGroup? (e bs : Nat) : chunkGroupEnd? e bs = ceilGroup? e bs := by
  rw [chunkGroupEnd?_eq, ceilGroup?_eq, ceil_forms (Nat.two_pow_pos bs)]

/-- the model's `r < 2^64` test is Rust's `value.checked_add(mask)` test -/
theorem ceilGroup?_isSome_iff {v bs : Nat} (hbs : bs ≤ 64) :
    (ceilGroup? v bs).isSome = true ↔ v + (2 ^ bs - 1) < 2 ^ 64 := by
  have hp : 0 < 2 ^ bs := Nat.two_pow_pos bs
  rw [ceilGroup?_eq]
  have e : 2 ^ 64 = 2 ^ (64 - bs) * 2 ^ bs := by rw [← Nat.pow_add]; congr 1; omega
  have h1 : (v + 2 ^ bs - 1) / 2 ^ bs * 2 ^ bs < 2 ^ 64 ↔ v + 2 ^ bs - 1 < 2 ^ 64 := by
    rw [e, Nat.mul_lt_mul_right hp, Nat.div_lt_iff_lt_mul hp]
  split
  · rename_i h; simp; rw [h1] at h; omega
  · rename_i h; simp; rw [h1] at h; omega

end Bao.Ranges
