import BaoProofs.Lemmas.ItemsEq
import BaoProofs.Lemmas.DecRunL
import BaoProofs.Lemmas.OutboardL

/-!
# The bridge: response plan ↔ `Spec.items`, and the honest run

* `Skel R p I` – two lists of the same length, related item by item.
* `Match hf d c it` – a plan item and a specification item describe the same wire item: same node
  and the stored pair of that node / same start chunk, same length, the blob's bytes.
* `node_match` / `plan_items` – the response plan of `(⟨d.length, bs⟩, truncate q)` and
  `Spec.items hf d bs q` have the same skeleton.
* `node_run` / `honest_run` – the decoder run over the plan on the honest stream returns exactly
  the specification items and consumes exactly their bytes (every comparison succeeds by
  `cv_split`; no collision-freedom).
-/

set_option maxRecDepth 8192

namespace Bao.DecodeSpec
open Bao Bao.Spec Bao.PlanPre Bao.Ranges Bao.Bits

variable {H : Type}

/-! ## item-wise related lists -/

inductive Skel {α β : Type} (R : α → β → Prop) : List α → List β → Prop
  | nil : Skel R [] []
  | cons {a : α} {b : β} {l₁ : List α} {l₂ : List β} : R a b → Skel R l₁ l₂ → Skel R (a :: l₁) (b :: l₂)

theorem Skel.append {α β : Type} {R : α → β → Prop} {a₁ a₂ : List α} {b₁ b₂ : List β}
    (h₁ : Skel R a₁ b₁) (h₂ : Skel R a₂ b₂) : Skel R (a₁ ++ a₂) (b₁ ++ b₂) := by
  induction h₁ with
  | nil => exact h₂
  | cons h _ ih => exact .cons h ih

theorem Skel.length_eq {α β : Type} {R : α → β → Prop} {a : List α} {b : List β}
    (h : Skel R a b) : a.length = b.length := by
  induction h with
  | nil => rfl
  | cons _ _ ih => simp [ih]

theorem Skel.singleton {α β : Type} {R : α → β → Prop} {a : α} {b : β} (h : R a b) :
    Skel R [a] [b] := .cons h .nil

/-- split the left list where the right list is split -/
theorem Skel.split_right {α β : Type} {R : α → β → Prop} {a : List α} {b₁ b₂ : List β} {y : β}
    (h : Skel R a (b₁ ++ y :: b₂)) :
    ∃ a₁ x a₂, a = a₁ ++ x :: a₂ ∧ Skel R a₁ b₁ ∧ R x y ∧ Skel R a₂ b₂ := by
  induction b₁ generalizing a with
  | nil =>
    cases h with
    | cons hr ht => exact ⟨[], _, _, rfl, .nil, hr, ht⟩
  | cons z b₁ ih =>
    cases h with
    | cons hr ht =>
      obtain ⟨a₁, x, a₂, rfl, h1, h2, h3⟩ := ih ht
      exact ⟨_ :: a₁, x, a₂, rfl, .cons hr h1, h2, h3⟩

theorem Skel.getElem? {α β : Type} {R : α → β → Prop} {a : List α} {b : List β}
    (h : Skel R a b) {i : Nat} {x : α} {y : β} (hx : a[i]? = some x) (hy : b[i]? = some y) :
    R x y := by
  induction h generalizing i with
  | nil => simp at hx
  | cons hr _ ih =>
    cases i with
    | zero => simp at hx hy; subst hx hy; exact hr
    | succ i => simp at hx hy; exact ih hx hy

/-! ## matching items -/

/-- a plan item and a specification item that describe the same wire item of blob `d` -/
def Match (hf : HashFns H) (d : List UInt8) : Chunk → SItem → Prop
  | .parent node _ _ _ _, .parent node' bytes => node' = node ∧ bytes = Spec.pairBytes hf d node
  | .leaf start size _ _, .leaf start' bytes =>
    start' = start ∧ bytes.length = size ∧ bytes = (d.drop (start * 1024)).take size
  | _, _ => False

theorem Match.size {hf : HashFns H} {d : List UInt8} (hlen : ∀ h, (hf.toBytes h).length = 32)
    {c : Chunk} {it : SItem} (h : Match hf d c it) : it.bytes.length = c.size := by
  cases c <;> cases it <;> simp only [Match] at h
  · obtain ⟨-, rfl⟩ := h
    simp [SItem.bytes, Chunk.size, pairBytes, hlen]
  · exact h.2.1

theorem nodeParent_zero (root L k : Nat) (rs : Ranges) :
    nodeParent 0 root L k rs = .parent (nodeOf k L) (nodeOf k L == root)
      (!(lq 0 L k rs).isEmpty) (!(rq 0 L k rs).isEmpty) rs := rfl

theorem nodeLeaf_zero (size root L k : Nat) (rs : Ranges) :
    nodeLeaf size 0 root L k rs = .leaf (startOf k L)
      (min (toBytes (endOf k L)) size - toBytes (startOf k L)) (nodeOf k L == root) rs := rfl

theorem leftLeaf_zero (k : Nat) (rs : Ranges) :
    leftLeaf 0 k rs = .leaf (startOf k 0) (toBytes (midOf k 0) - toBytes (startOf k 0)) false
      (lq 0 0 k rs) := rfl

theorem rightLeaf_zero (size k : Nat) (rs : Ranges) :
    rightLeaf size 0 k rs = .leaf (midOf k 0) (min (toBytes (endOf k 0)) size - toBytes (midOf k 0))
      false (rq 0 0 k rs) := rfl

theorem parentItem_eq (hf : HashFns H) (d : List UInt8) {k L : Nat} (hL : L ≤ 64) :
    parentItem hf d k L = .parent (nodeOf k L) (Spec.pairBytes hf d (nodeOf k L)) := by
  unfold parentItem pairBytes pair
  rw [indexOf_nodeOf hL, levelOf_nodeOf hL]

/-- a clipped chunk interval as bytes of the blob -/
theorem slice_clip (d : List UInt8) {s e : Nat} (hs : s < nChunks d.length) (hse : s < e) :
    slice d s (min e (nChunks d.length))
      = (d.drop (s * 1024)).take (min (e * 1024) d.length - s * 1024) ∧
    (slice d s (min e (nChunks d.length))).length = min (e * 1024) d.length - s * 1024 := by
  have hn : nChunks d.length = max 1 ((d.length + 1023) / 1024) := rfl
  constructor
  · unfold slice
    rw [List.take_eq_take_iff]
    simp only [List.length_drop]
    omega
  · rw [C01.slice_length]
    omega

theorem match_wholeLeaf (hf : HashFns H) (d : List UInt8) (root : Nat) {k L : Nat} (rs : Ranges)
    (hs : startOf k L < nChunks d.length) :
    Match hf d (nodeLeaf d.length 0 root L k rs) (wholeLeaf d k L) := by
  obtain ⟨h1, h2⟩ := slice_clip d hs (startOf_lt_endOf k L)
  rw [nodeLeaf_zero]
  exact ⟨rfl, h2, h1⟩

theorem two_zero_geom (k : Nat) :
    startOf k 0 = 2 * k ∧ midOf k 0 = 2 * k + 1 ∧ endOf k 0 = 2 * k + 2 := by
  rw [startOf_eq, midOf_eq, endOf_eq]; simp

theorem slice_full_chunk (d : List UInt8) {j : Nat} (h : (j + 1) * 1024 < d.length) :
    slice d j (j + 1) = (d.drop (j * 1024)).take 1024 ∧ (slice d j (j + 1)).length = 1024 := by
  constructor
  · unfold slice; congr 1; omega
  · rw [C01.slice_length]; omega

theorem slice_last_chunk (d : List UInt8) {j : Nat} (h : j * 1024 < d.length) :
    slice d j (j + 1) = (d.drop (j * 1024)).take (min ((j + 1) * 1024) d.length - j * 1024) ∧
    (slice d j (j + 1)).length = min ((j + 1) * 1024) d.length - j * 1024 := by
  constructor
  · unfold slice
    rw [List.take_eq_take_iff]
    simp only [List.length_drop]
    omega
  · rw [C01.slice_length]; omega

/-! ## the skeleton -/

section skeleton
variable {hf : HashFns H} {d : List UInt8} {B filled root : Nat} {sel : Nat → Bool}

theorem node_match (g : Geo d.length 0 filled) (L k : Nat) (rs : Ranges) :
    NInv d.length filled sel L k rs →
    Skel (Match hf d) (planPre d.length 0 B filled root L k rs)
      (itemsI hf d (nChunks d.length) B sel (L + 1) k) := by
  refine planPre_induct (size := d.length) (bs := 0) (ml := B) (filled := filled) (root := root)
    (P := fun L k rs p => NInv d.length filled sel L k rs →
      Skel (Match hf d) p (itemsI hf d (nChunks d.length) B sel (L + 1) k))
    ?_ ?_ ?_ ?_ ?_ ?_ ?_ L k rs
  · -- nil
    intro L k h
    rw [items_nil h]; exact .nil
  · -- gone
    intro k rs _ hge h
    have := h.ex
    rw [Offsets.startOf_zero] at this
    rw [Offsets.nodeOf_zero] at hge
    omega
  · -- skip
    intro L k rs hne hge ih h
    rw [items_skip g h hne hge]
    exact ih (h.skip g hge)
  · -- query leaf
    intro L k rs hne hlt hq h
    have hrs := queryLeaf_all hq
    have hLB := queryLeaf_lt hq
    subst hrs
    have hs := h.start_lt g
    by_cases hm : midOf k L < nChunks d.length
    · rw [items_all h hm (by omega)]
      exact .singleton (match_wholeLeaf hf d root _ hs)
    · cases L with
      | succ L => exact absurd (g.mid_lt_nChunks hlt) hm
      | zero =>
        rw [items_single g h hne (by omega)]
        exact .singleton (match_wholeLeaf hf d root _ hs)
  · -- half leaf
    intro k rs hne hlt _ hh h
    have hs := h.start_lt g
    have hm : nChunks d.length ≤ midOf k 0 :=
      nChunks_le_of_le_toBytes (by have := startOf_lt_midOf k 0; omega) hh
    rw [items_single g h hne hm]
    exact .singleton (match_wholeLeaf hf d root _ hs)
  · -- chunk group
    intro k rs hne hlt hq hh h
    have hm : midOf k 0 < nChunks d.length := lt_nChunks_of_toBytes_lt hh
    obtain ⟨e1, e2, e3⟩ := two_zero_geom k
    rw [items_parent g h hne hm hq, itemsI_zero, itemsI_zero, sel_left_chunk h hm,
      sel_right_chunk h hm, parentItem_eq hf d (by omega)]
    refine .cons ⟨rfl, rfl⟩ (.append ?_ ?_)
    · by_cases hl : (lq 0 0 k rs).isEmpty = true
      · simp only [hl, if_true, Bool.not_true, Bool.false_eq_true, if_false]; exact .nil
      · simp only [hl, Bool.not_false, if_true]
        rw [leftLeaf_zero]
        unfold toBytes at hh ⊢
        obtain ⟨s1, s2⟩ := slice_full_chunk d (j := 2 * k) (by omega)
        exact .singleton ⟨e1.symm, by rw [s2]; omega, by rw [s1, e1, e2]; congr 1; omega⟩
    · by_cases hr : (rq 0 0 k rs).isEmpty = true
      · simp only [hr, if_true, Bool.not_true, Bool.false_eq_true, if_false]; exact .nil
      · simp only [hr, Bool.not_false, if_true]
        rw [rightLeaf_zero]
        unfold toBytes at hh ⊢
        obtain ⟨s1, s2⟩ := slice_last_chunk d (j := 2 * k + 1) (by omega)
        exact .singleton ⟨e2.symm, by rw [s2, e2, e3], by rw [s1, e2, e3]⟩
  · -- inner node
    intro L k rs hne hlt hq ihl ihr h
    have hm := g.mid_lt_nChunks hlt
    have hL := g.level_le hlt
    rw [items_parent g h hne hm hq, parentItem_eq hf d (by omega)]
    exact .cons ⟨rfl, rfl⟩ (.append (ihl (h.left hm)) (ihr (h.right g hlt)))

end skeleton

/-! ## the whole plan -/

theorem log2ceil_min (f n : Nat) : log2ceil f n = 0 ∨ 2 ^ (log2ceil f n - 1) < n := by
  induction f generalizing n with
  | zero => left; rfl
  | succ f ih =>
    unfold log2ceil
    by_cases h1 : n ≤ 1
    · left; simp [h1]
    · rw [if_neg h1]
      right
      simp only [Nat.add_sub_cancel]
      rcases ih ((n + 1) / 2) with h0 | h0
      · rw [h0]; simp; omega
      · generalize log2ceil f ((n + 1) / 2) = l at h0 ⊢
        cases l with
        | zero => simp at h0 ⊢; omega
        | succ l => simp only [Nat.add_sub_cancel] at h0; rw [Nat.pow_succ]; omega

theorem blocks_zero_eq (size : Nat) : Tree.blocks ⟨size, 0⟩ = nChunks size := by
  rw [Offsets.blocks_eq_nBlocks]
  unfold nBlocks nChunks
  simp

/-- the height of the specification's root interval is the plan's root level plus one (except for
the one-chunk blob, where the specification starts at the chunk itself) -/
theorem log2ceil_rootLevel (size : Nat) (hs : size ≤ 2 ^ 63) (hn : 2 ≤ nChunks size) :
    log2ceil 64 (nChunks size) = rootLevel ⟨size, 0⟩ + 1 := by
  have h1 := Offsets.log2ceil_spec 64 (nChunks size) (Offsets.nChunks_le size hs)
  have h2 := log2ceil_min 64 (nChunks size)
  obtain ⟨h3, h4⟩ := rootLevel_char size 0 hs
  rw [blocks_zero_eq] at h3 h4
  generalize log2ceil 64 (nChunks size) = a at *
  generalize rootLevel ⟨size, 0⟩ = r at *
  generalize nChunks size = n at *
  have ha : a ≠ 0 := by
    rintro rfl; simp at h1; omega
  rcases h2 with h2 | h2
  · exact absurd h2 ha
  have hle : a - 1 < r + 1 :=
    (Nat.pow_lt_pow_iff_right (a := 2) (by decide)).1 (Nat.lt_of_lt_of_le h2 h3)
  rcases h4 with h4 | h4
  · omega
  · have : r < a := (Nat.pow_lt_pow_iff_right (a := 2) (by decide)).1 (Nat.lt_of_lt_of_le h4 h1)
    omega

theorem rootLevel_one_chunk (size : Nat) (hs : size ≤ 2 ^ 63) (hn : nChunks size = 1) :
    rootLevel ⟨size, 0⟩ = 0 := by
  obtain ⟨-, h4⟩ := rootLevel_char size 0 hs
  rw [blocks_zero_eq, hn] at h4
  rcases h4 with h4 | h4
  · exact h4
  · have := two_pow_pos' (rootLevel ⟨size, 0⟩); omega

/-- `Spec.items` as the items of the plan's root node -/
theorem items_top (hf : HashFns H) (d : List UInt8) (bs : Nat) (q : Ranges)
    (hd : d.length ≤ 2 ^ 63) :
    Spec.items hf d bs q = itemsI hf d (nChunks d.length) bs (Spec.selected d.length q)
      (rootLevel ⟨d.length, 0⟩ + 1) 0 := by
  unfold Spec.items
  simp only
  by_cases hn : 2 ≤ nChunks d.length
  · rw [log2ceil_rootLevel d.length hd hn]
  · have h1 : nChunks d.length = 1 := by have := Ranges.nChunks_pos d.length; omega
    rw [rootLevel_one_chunk d.length hd h1, itemsI_succ]
    obtain ⟨e1, e2, e3⟩ := two_zero_geom 0
    have hl : log2ceil 64 (nChunks d.length) = 0 := by rw [h1]; rfl
    rw [hl, e1, e2, e3, itemsI_zero]
    have hmin : min (2 * 0 + 2) (nChunks d.length) = 1 := by omega
    rw [hmin]
    have hany : anySel (Spec.selected d.length q) (2 * 0) 1 = Spec.selected d.length q 0 := by
      simp [anySel]
    rw [hany]
    cases hsel : Spec.selected d.length q 0
    · simp
    · have hge : 2 * 0 + 1 ≥ nChunks d.length := by omega
      simp [hge]

/-- the invariant at the root -/
theorem ninv_root {q : Ranges} (hwf : WF q = true) (size : Nat) (hs : size ≤ 2 ^ 63) :
    NInv size (Tree.shifted ⟨size, 0⟩).2 (Spec.selected size q) (rootLevel ⟨size, 0⟩) 0
      (truncate q size) := by
  obtain ⟨-, hroot, hlt⟩ := rootLevel_spec size 0 hs
  have h0 : startOf 0 (rootLevel ⟨size, 0⟩) = 0 := startOf_zero_left _
  refine ⟨?_, ?_, ?_⟩
  · rw [h0]; exact QInv.root hwf size (rootLevel_covers size 0 hs)
  · intro c _ _; exact (C14.truncate_selected size hwf c).symm
  · rw [h0]; omega

/-- **the bridge**: the response plan of `(⟨d.length, bs⟩, truncate q)` and `Spec.items hf d bs q`
have the same skeleton -/
theorem plan_items (hf : HashFns H) (d : List UInt8) (bs : Nat) (q : Ranges)
    (hd : d.length ≤ 2 ^ 63) (hwf : WF q = true) :
    Skel (Match hf d) (plan ⟨d.length, 0⟩ bs (truncate q d.length)) (Spec.items hf d bs q) := by
  rw [items_top hf d bs q hd]
  exact node_match (shifted_geo d.length 0 hd (by omega)) _ _ _ (ninv_root hwf d.length hd)

/-! ## the honest run -/

/-- the item the decoder returns for a specification item -/
def toItem (hf : HashFns H) : SItem → Item H
  | .parent node bytes => .parent node (parsePair hf bytes).1 (parsePair hf bytes).2
  | .leaf s bytes => .leaf (s * 1024) bytes

/-- the stack after a parent with flags `lf`, `rf` -/
def pushLR (lf rf : Bool) (l r : H) (stk : List H) : List H :=
  (if lf then [l] else []) ++ ((if rf then [r] else []) ++ stk)

theorem pushLR_not (a b : Bool) (l r : H) (stk : List H) :
    pushLR (!a) (!b) l r stk = (if a then [] else [l]) ++ ((if b then [] else [r]) ++ stk) := by
  cases a <;> cases b <;> rfl

section run
variable {hf : HashFns H} [BEq H] [LawfulBEq H]

omit [BEq H] [LawfulBEq H] in
theorem parsePair_pair (hrt : ∀ h, hf.ofBytes (hf.toBytes h) = h)
    (hlen : ∀ h, (hf.toBytes h).length = 32) (l r : H) :
    parsePair hf (hf.toBytes l ++ hf.toBytes r) = (l, r) := by
  unfold parsePair
  rw [List.take_left' (hlen l), List.drop_left' (hlen l), List.take_of_length_le (Nat.le_of_eq (hlen r)),
    hrt, hrt]

theorem runL_leaf_cons (s z : Nat) (flag : Bool) (x : Ranges) (bytes : List UInt8)
    (hz : bytes.length = z) (p : List Chunk) (stk : List H) (y : List UInt8) :
    runL hf (.leaf s z flag x :: p) (hashSubtree hf s bytes flag :: stk) (bytes ++ y)
      = ⟨.leaf (s * 1024) bytes :: (runL hf p stk y).items, (runL hf p stk y).fin⟩ := by
  have e1 : (bytes ++ y).take (Chunk.leaf s z flag x).size = bytes := List.take_left' hz
  have e2 : (bytes ++ y).drop (Chunk.leaf s z flag x).size = y := List.drop_left' hz
  rw [runL_cons, stepC_item_of (by simp [Chunk.size, ← hz]) (by rw [e1]; exact bne_self_eq_false _),
    e1, e2]
  rfl

theorem runL_parent_cons (hrt : ∀ h, hf.ofBytes (hf.toBytes h) = h)
    (hlen : ∀ h, (hf.toBytes h).length = 32) (node : Nat) (flag lf rf : Bool) (x : Ranges)
    (l r : H) (p : List Chunk) (stk : List H) (y : List UInt8) :
    runL hf (.parent node flag lf rf x :: p) (hf.parentCv l r flag :: stk)
        ((hf.toBytes l ++ hf.toBytes r) ++ y)
      = ⟨.parent node l r :: (runL hf p (pushLR lf rf l r stk) y).items,
         (runL hf p (pushLR lf rf l r stk) y).fin⟩ := by
  have hz : (hf.toBytes l ++ hf.toBytes r).length = 64 := by simp [hlen]
  have e1 : ((hf.toBytes l ++ hf.toBytes r) ++ y).take (Chunk.parent node flag lf rf x).size
      = hf.toBytes l ++ hf.toBytes r := List.take_left' hz
  have e2 : ((hf.toBytes l ++ hf.toBytes r) ++ y).drop (Chunk.parent node flag lf rf x).size = y :=
    List.drop_left' hz
  have hp := parsePair_pair hrt hlen l r
  rw [runL_cons, stepC_item_of (by simp [Chunk.size, hlen]; omega)
    (by rw [e1]; simp only [check, hp]; exact bne_self_eq_false _), e1, e2]
  simp only [itemOf, push, hp, pushLR]
  cases lf <;> cases rf <;> rfl

variable {d : List UInt8} {B filled root : Nat} {sel : Nat → Bool}

omit [BEq H] [LawfulBEq H] in
theorem toItem_parentItem (hrt : ∀ h, hf.ofBytes (hf.toBytes h) = h)
    (hlen : ∀ h, (hf.toBytes h).length = 32) (k L : Nat) :
    toItem hf (parentItem hf d k L) = .parent (nodeOf k L)
      (cv hf d (startOf k L) (midOf k L) false)
      (cv hf d (midOf k L) (min (endOf k L) (nChunks d.length)) false) := by
  simp only [toItem, parentItem, parsePair_pair hrt hlen]

theorem lt_length_of_lt_nChunks {len m : Nat} (hm0 : 0 < m) (hm : m < nChunks len) :
    m * 1024 < len := by
  unfold nChunks at hm; omega

/-- the parent step at node `(k, L)`: the comparison succeeds by `cv_split` -/
theorem node_parent_step (hrt : ∀ h, hf.ofBytes (hf.toBytes h) = h)
    (hlen : ∀ h, (hf.toBytes h).length = 32) {k L : Nat} (hL : L < 64)
    (hm : midOf k L < nChunks d.length) (flag lf rf : Bool) (x : Ranges) (p : List Chunk)
    (stk : List H) (y : List UInt8) :
    runL hf (.parent (nodeOf k L) flag lf rf x :: p)
        (cv hf d (startOf k L) (min (endOf k L) (nChunks d.length)) flag :: stk)
        ((parentItem hf d k L).bytes ++ y)
      = ⟨toItem hf (parentItem hf d k L) ::
          (runL hf p (pushLR lf rf (cv hf d (startOf k L) (midOf k L) false)
            (cv hf d (midOf k L) (min (endOf k L) (nChunks d.length)) false) stk) y).items,
         (runL hf p (pushLR lf rf (cv hf d (startOf k L) (midOf k L) false)
            (cv hf d (midOf k L) (min (endOf k L) (nChunks d.length)) false) stk) y).fin⟩ := by
  have hsm := startOf_lt_midOf k L
  have e1 := startOf_eq k L
  have e2 := midOf_eq k L
  have e3 := endOf_eq k L
  have hp := two_pow_pos' L
  have hsplit := OutboardL.cv_split hf d (a := startOf k L) (m := midOf k L)
    (b := min (endOf k L) (nChunks d.length)) (j := L) hL
    (by omega) (by omega) (by omega)
    (lt_length_of_lt_nChunks (by omega) hm) flag
  rw [hsplit, toItem_parentItem hrt hlen]
  exact runL_parent_cons hrt hlen _ _ _ _ _ _ _ _ _ _

theorem level_lt_of_mid_lt (hd : d.length ≤ 2 ^ 63) {k L : Nat}
    (hm : midOf k L < nChunks d.length) : L < 64 := by
  have h1 : 2 ^ L < 2 ^ 64 := by
    have : nChunks d.length ≤ 2 ^ 64 := Offsets.nChunks_le _ hd
    rw [midOf_eq] at hm
    omega
  exact (Nat.pow_lt_pow_iff_right (a := 2) (by decide)).1 h1

/-- the leaf step of the whole node `(k, L)` -/
theorem node_leaf_step {k L : Nat}
    (hsn : startOf k L < nChunks d.length) (x : Ranges) (p : List Chunk)
    (stk : List H) (y : List UInt8) :
    runL hf (nodeLeaf d.length 0 root L k x :: p)
        (cv hf d (startOf k L) (min (endOf k L) (nChunks d.length)) (nodeOf k L == root) :: stk)
        ((wholeLeaf d k L).bytes ++ y)
      = ⟨toItem hf (wholeLeaf d k L) :: (runL hf p stk y).items, (runL hf p stk y).fin⟩ := by
  obtain ⟨-, h2⟩ := slice_clip d hsn (startOf_lt_endOf k L)
  rw [nodeLeaf_zero]
  exact runL_leaf_cons _ _ _ _ _ (by unfold toBytes; exact h2) _ _ _

theorem flatMap_bytes_cons (it : SItem) (I : List SItem) :
    (it :: I).flatMap SItem.bytes = it.bytes ++ I.flatMap SItem.bytes := rfl

/-- **the honest run of a subtree**: with the `Spec.cv` of the node's interval on top of the stack
(nothing if the sub-query is empty), the decoder run over the node's plan on the node's honest bytes
returns exactly the node's specification items, pops that hash and consumes exactly those bytes -/
theorem node_run (hrt : ∀ h, hf.ofBytes (hf.toBytes h) = h)
    (hlen : ∀ h, (hf.toBytes h).length = 32) (hd : d.length ≤ 2 ^ 63)
    (g : Geo d.length 0 filled) {h : Nat} (hroot : root = nodeOf 0 h) (hrlt : root < filled)
    (L k : Nat) (rs : Ranges) :
    L ≤ h → NInv d.length filled sel L k rs → ∀ (stk : List H) (y : List UInt8),
      runL hf (planPre d.length 0 B filled root L k rs)
        ((if rs.isEmpty then [] else
            [cv hf d (startOf k L) (min (endOf k L) (nChunks d.length)) (nodeOf k L == root)]) ++ stk)
        ((itemsI hf d (nChunks d.length) B sel (L + 1) k).flatMap SItem.bytes ++ y)
      = ⟨(itemsI hf d (nChunks d.length) B sel (L + 1) k).map (toItem hf), .ok stk y⟩ := by
  subst hroot
  refine planPre_induct (size := d.length) (bs := 0) (ml := B) (filled := filled) (root := nodeOf 0 h)
    (P := fun L k rs p => L ≤ h → NInv d.length filled sel L k rs →
      ∀ (stk : List H) (y : List UInt8),
      runL hf p
        ((if rs.isEmpty then [] else
            [cv hf d (startOf k L) (min (endOf k L) (nChunks d.length)) (nodeOf k L == nodeOf 0 h)]) ++ stk)
        ((itemsI hf d (nChunks d.length) B sel (L + 1) k).flatMap SItem.bytes ++ y)
      = ⟨(itemsI hf d (nChunks d.length) B sel (L + 1) k).map (toItem hf), .ok stk y⟩)
    ?_ ?_ ?_ ?_ ?_ ?_ ?_ L k rs
  · -- nil
    intro L k _ hn stk y
    rw [items_nil hn]; rfl
  · -- gone
    intro k rs _ hge _ hn
    have := hn.ex
    rw [Offsets.startOf_zero] at this
    rw [Offsets.nodeOf_zero] at hge
    omega
  · -- skip
    intro L k rs hne hge ih hL hn stk y
    have hm : nChunks d.length ≤ midOf k (L + 1) := g.skip_mid_ge hge
    have hme := midOf_lt_endOf k (L + 1)
    have := ih (by omega) (hn.skip g hge) stk y
    rw [items_skip g hn hne hge]
    rw [startOf_left, endOf_left, nodeOf_beq_false (by omega : L < h)] at this
    have hf1 : (nodeOf k (L + 1) == nodeOf 0 h) = false := by
      rw [beq_eq_false_iff_ne]; omega
    rw [hf1, show min (endOf k (L + 1)) (nChunks d.length) = min (midOf k (L + 1)) (nChunks d.length)
      by omega]
    exact this
  · -- query leaf
    intro L k rs hne hlt hq _ hn stk y
    have hrs := queryLeaf_all hq
    have hLB := queryLeaf_lt hq
    subst hrs
    have hs := hn.start_lt g
    have hit : itemsI hf d (nChunks d.length) B sel (L + 1) k = [wholeLeaf d k L] := by
      by_cases hm : midOf k L < nChunks d.length
      · exact items_all hn hm (by omega)
      · cases L with
        | succ L => exact absurd (g.mid_lt_nChunks hlt) hm
        | zero => exact items_single g hn hne (by omega)
    rw [hit]
    simp only [List.isEmpty_cons, Bool.false_eq_true, if_false, List.singleton_append,
      flatMap_bytes_cons, List.flatMap_nil, List.append_nil, List.map_cons, List.map_nil]
    rw [node_leaf_step hs]; rfl
  · -- half leaf
    intro k rs hne hlt _ hh _ hn stk y
    have hs := hn.start_lt g
    have hm : nChunks d.length ≤ midOf k 0 :=
      nChunks_le_of_le_toBytes (by have := startOf_lt_midOf k 0; omega) hh
    rw [items_single g hn hne hm, isEmpty_eq_false hne]
    simp only [Bool.false_eq_true, if_false, List.singleton_append,
      flatMap_bytes_cons, List.flatMap_nil, List.append_nil, List.map_cons, List.map_nil]
    rw [node_leaf_step hs]; rfl
  · -- chunk group
    intro k rs hne hlt hq hh _ hn stk y
    have hm : midOf k 0 < nChunks d.length := lt_nChunks_of_toBytes_lt hh
    obtain ⟨e1, e2, e3⟩ := two_zero_geom k
    rw [items_parent g hn hne hm hq, itemsI_zero, itemsI_zero, sel_left_chunk hn hm,
      sel_right_chunk hn hm, isEmpty_eq_false hne, nodeParent_zero]
    simp only [Bool.false_eq_true, if_false, List.singleton_append, flatMap_bytes_cons,
      List.append_assoc, List.map_cons]
    rw [node_parent_step hrt hlen (by omega) hm, pushLR_not]
    have hmin : min (endOf k 0) (nChunks d.length) = 2 * k + 2 := by omega
    have hlenm : (2 * k + 1) * 1024 < d.length := by
      unfold toBytes at hh; rw [e2] at hh; exact hh
    obtain ⟨-, sl2⟩ := slice_full_chunk d (j := 2 * k) (by omega)
    obtain ⟨-, sr2⟩ := slice_last_chunk d (j := 2 * k + 1) (by omega)
    have hlz : (toBytes (midOf k 0) - toBytes (startOf k 0)) = 1024 := by
      unfold toBytes; omega
    have hrz : (slice d (2 * k + 1) (2 * k + 1 + 1)).length
        = min (toBytes (endOf k 0)) d.length - toBytes (midOf k 0) := by
      unfold toBytes; rw [sr2, e2, e3]
    have hcl : cv hf d (startOf k 0) (midOf k 0) false
        = hashSubtree hf (startOf k 0) (slice d (2 * k) (2 * k + 1)) false := by
      unfold cv; rw [e1, e2]
    have hcr : cv hf d (midOf k 0) (min (endOf k 0) (nChunks d.length)) false
        = hashSubtree hf (midOf k 0) (slice d (2 * k + 1) (2 * k + 1 + 1)) false := by
      unfold cv; rw [hmin, e2]
    rw [leftLeaf_zero, rightLeaf_zero, hcl, hcr]
    cases hl : (lq 0 0 k rs).isEmpty <;> cases hr : (rq 0 0 k rs).isEmpty <;>
      simp only [Bool.not_true, Bool.not_false, Bool.false_eq_true, if_false, if_true,
        List.nil_append, flatMap_bytes_cons, List.flatMap_nil,
        List.append_nil, List.map_cons, List.map_nil, List.append_assoc, SItem.bytes, toItem,
        List.cons_append]
    · rw [runL_leaf_cons _ _ _ _ _ (by rw [sl2, hlz]), runL_leaf_cons _ _ _ _ _ hrz]
      simp only [runL_nil, e1, e2]
    · rw [runL_leaf_cons _ _ _ _ _ (by rw [sl2, hlz])]
      simp only [runL_nil, e1]
    · rw [runL_leaf_cons _ _ _ _ _ hrz]
      simp only [runL_nil, e2]
    · simp only [runL_nil]
  · -- inner node
    intro L k rs hne hlt hq ihl ihr hL hn stk y
    have hm : midOf k (L + 1) < nChunks d.length := g.mid_lt_nChunks hlt
    have hL64 := level_lt_of_mid_lt hd hm
    have hsm := startOf_lt_midOf k (L + 1)
    have hme := midOf_lt_endOf k (L + 1)
    have il := ihl (by omega) (hn.left hm)
    have ir := ihr (by omega) (hn.right g hlt)
    rw [startOf_left, endOf_left, nodeOf_beq_false (by omega : L < h),
      show min (midOf k (L + 1)) (nChunks d.length) = midOf k (L + 1) by omega] at il
    rw [startOf_right, endOf_right, nodeOf_beq_false (by omega : L < h)] at ir
    rw [items_parent g hn hne hm hq, isEmpty_eq_false hne, nodeParent_zero]
    simp only [Bool.false_eq_true, if_false, List.singleton_append, flatMap_bytes_cons,
      List.append_assoc, List.map_cons, List.flatMap_append, List.map_append]
    rw [node_parent_step hrt hlen hL64 hm, pushLR_not, runL_append, il]
    simp only [Out.bind]
    rw [ir]

end run

end Bao.DecodeSpec
