import BaoProofs.Lemmas.ItemsEq
import BaoProofs.Lemmas.DecRunL
import BaoProofs.Lemmas.OutboardL

/-!
# The bridge: response plan ↔ `Spec.items`, and the honest run

* `Skel R p I` – two lists of the same length, related item by item.
* `Match hf d c it` – a plan item and a specification item describe the same wire item: same node
  and the stored pair of that node / same start chunk, same length, the blob's bytes.
* `node_match` / `plan_items` – the response plan of `(⟨d.length, bs⟩, truncate q)` and
  `Spec.items hf d bs q` have the same skeleton.
* `node_run` / `honest_run` – the decoder run over the plan on the honest stream returns exactly
  the specification items and consumes exactly their bytes (every comparison succeeds by
  `cv_split`; no collision-freedom).
-/

set_option maxRecDepth 8192

namespace Bao.DecodeSpec
open Bao Bao.Spec Bao.PlanPre Bao.Ranges Bao.Bits

variable {H : Type}

/-! ## item-wise related lists -/

inductive Skel {α β : Type} (R : α → β → Prop) : List α → List β → Prop
  | nil : Skel R [] []
  | cons {a : α} {b : β} {l₁ : List α} {l₂ : List β} : R a b → Skel R l₁ l₂ → Skel R (a :: l₁) (b :: l₂)

theorem Skel.append {α β : Type} {R : α → β → Prop} {a₁ a₂ : List α} {b₁ b₂ : List β}
    (h₁ : Skel R a₁ b₁) (h₂ : Skel R a₂ b₂) : Skel R (a₁ ++ a₂) (b₁ ++ b₂) := by
  induction h₁ with
  | nil => exact h₂
  | cons h _ ih => exact .cons h ih

theorem Skel.length_eq {α β : Type} {R : α → β → Prop} {a : List α} {b : List β}
    (h : Skel R a b) : a.length = b.length := by
  induction h with
  | nil => rfl
  | cons _ _ ih => simp [ih]

theorem Skel.singleton {α β : Type} {R : α → β → Prop} {a : α} {b : β} (h : R a b) :
    Skel R [a] [b] := .cons h .nil

/-- split the left list where the right list is split -/
theorem Skel.split_right {α β : Type} {R : α → β → Prop} {a : List α} {b₁ b₂ : List β} {y : β}
    (h : Skel R a (b₁ ++ y :: b₂)) :
    ∃ a₁ x a₂, a = a₁ ++ x :: a₂ ∧ Skel R a₁ b₁ ∧ R x y ∧ Skel R a₂ b₂ := by
  induction b₁ generalizing a with
  | nil =>
    cases h with
    | cons hr ht => exact ⟨[], _, _, rfl, .nil, hr, ht⟩
  | cons z b₁ ih =>
    cases h with
    | cons hr ht =>
      obtain ⟨a₁, x, a₂, rfl, h1, h2, h3⟩ := ih ht
      exact ⟨_ :: a₁, x, a₂, rfl, .cons hr h1, h2, h3⟩

theorem Skel.getElem? {α β : Type} {R : α → β → Prop} {a : List α} {b : List β}
    (h : Skel R a b) {i : Nat} {x : α} {y : β} (hx : a[i]? = some x) (hy : b[i]? = some y) :
    R x y := by
  induction h generalizing i with
  | nil => simp at hx
  | cons hr _ ih =>
    cases i with
    | zero => simp at hx hy; subst hx hy; exact hr
    | succ i => simp at hx hy; exact ih hx hy

/-! ## matching items -/

/-- a plan item and a specification item that describe the same wire item of blob `d` -/
def Match (hf : HashFns H) (d : List UInt8) : Chunk → SItem → Prop
  | .parent node _ _ _ _, .parent node' bytes => node' = node ∧ bytes = Spec.pairBytes hf d node
  | .leaf start size _ _, .leaf start' bytes =>
    start' = start ∧ bytes.length = size ∧ bytes = (d.drop (start * 1024)).take size
  | _, _ => False

theorem Match.size {hf : HashFns H} {d : List UInt8} (hlen : ∀ h, (hf.toBytes h).length = 32)
    {c : Chunk} {it : SItem} (h : Match hf d c it) : it.bytes.length = c.size := by
  cases c <;> cases it <;> simp only [Match] at h
  · obtain ⟨-, rfl⟩ := h
    simp [SItem.bytes, Chunk.size, pairBytes, hlen]
  · exact h.2.1

theorem nodeParent_zero (root L k : Nat) (rs : Ranges) :
    nodeParent 0 root L k rs = .parent (nodeOf k L) (nodeOf k L == root)
      (!(lq 0 L k rs).isEmpty) (!(rq 0 L k rs).isEmpty) rs := rfl

theorem nodeLeaf_zero (size root L k : Nat) (rs : Ranges) :
    nodeLeaf size 0 root L k rs = .leaf (startOf k L)
      (min (toBytes (endOf k L)) size - toBytes (startOf k L)) (nodeOf k L == root) rs := rfl

theorem leftLeaf_zero (k : Nat) (rs : Ranges) :
    leftLeaf 0 k rs = .leaf (startOf k 0) (toBytes (midOf k 0) - toBytes (startOf k 0)) false
      (lq 0 0 k rs) := rfl

theorem rightLeaf_zero (size k : Nat) (rs : Ranges) :
    rightLeaf size 0 k rs = .leaf (midOf k 0) (min (toBytes (endOf k 0)) size - toBytes (midOf k 0))
      false (rq 0 0 k rs) := rfl

theorem parentItem_eq (hf : HashFns H) (d : List UInt8) {k L : Nat} (hL : L ≤ 64) :
    parentItem hf d k L = .parent (nodeOf k L) (Spec.pairBytes hf d (nodeOf k L)) := by
  unfold parentItem pairBytes pair
  rw [indexOf_nodeOf hL, levelOf_nodeOf hL]

/-- a clipped chunk interval as bytes of the blob -/
theorem slice_clip (d : List UInt8) {s e : Nat} (hs : s < nChunks d.length) (hse : s < e) :
    slice d s (min e (nChunks d.length))
      = (d.drop (s * 1024)).take (min (e * 1024) d.length - s * 1024) ∧
    (slice d s (min e (nChunks d.length))).length = min (e * 1024) d.length - s * 1024 := by
  have hn : nChunks d.length = max 1 ((d.length + 1023) / 1024) := rfl
  constructor
  · unfold slice
    rw [List.take_eq_take_iff]
    simp only [List.length_drop]
    omega
  · rw [C01.slice_length]
    omega

theorem match_wholeLeaf (hf : HashFns H) (d : List UInt8) (root : Nat) {k L : Nat} (rs : Ranges)
    (hs : startOf k L < nChunks d.length) :
    Match hf d (nodeLeaf d.length 0 root L k rs) (wholeLeaf d k L) := by
  obtain ⟨h1, h2⟩ := slice_clip d hs (startOf_lt_endOf k L)
  rw [nodeLeaf_zero]
  exact ⟨rfl, h2, h1⟩

theorem two_zero_geom (k : Nat) :
    startOf k 0 = 2 * k ∧ midOf k 0 = 2 * k + 1 ∧ endOf k 0 = 2 * k + 2 := by
  rw [startOf_eq, midOf_eq, endOf_eq]; simp

theorem slice_full_chunk (d : List UInt8) {j : Nat} (h : (j + 1) * 1024 < d.length) :
    slice d j (j + 1) = (d.drop (j * 1024)).take 1024 ∧ (slice d j (j + 1)).length = 1024 := by
  constructor
  · unfold slice; congr 1; omega
  · rw [C01.slice_length]; omega

theorem slice_last_chunk (d : List UInt8) {j : Nat} (h : j * 1024 < d.length) :
    slice d j (j + 1) = (d.drop (j * 1024)).take (min ((j + 1) * 1024) d.length - j * 1024) ∧
    (slice d j (j + 1)).length = min ((j + 1) * 1024) d.length - j * 1024 := by
  constructor
  · unfold slice
    rw [List.take_eq_take_iff]
    simp only [List.length_drop]
    omega
  · rw [C01.slice_length]; omega

/-! ## the skeleton -/

section skeleton
variable {hf : HashFns H} {d : List UInt8} {B filled root : Nat} {sel : Nat → Bool}

theorem node_match (g : Geo d.length 0 filled) (L k : Nat) (rs : Ranges) :
    NInv d.length filled sel L k rs →
    Skel (Match hf d) (planPre d.length 0 B filled root L k rs)
      (itemsI hf d (nChunks d.length) B sel (L + 1) k) := by
  refine planPre_induct (size := d.length) (bs := 0) (ml := B) (filled := filled) (root := root)
    (P := fun L k rs p => NInv d.length filled sel L k rs →
      Skel (Match hf d) p (itemsI hf d (nChunks d.length) B sel (L + 1) k))
    ?_ ?_ ?_ ?_ ?_ ?_ ?_ L k rs
  · -- nil
    intro L k h
    rw [items_nil h]; exact .nil
  · -- gone
    intro k rs _ hge h
    have := h.ex
    rw [Offsets.startOf_zero] at this
    rw [Offsets.nodeOf_zero] at hge
    omega
  · -- skip
    intro L k rs hne hge ih h
    rw [items_skip g h hne hge]
    exact ih (h.skip g hge)
  · -- query leaf
    intro L k rs hne hlt hq h
    have hrs := queryLeaf_all hq
    have hLB := queryLeaf_lt hq
    subst hrs
    have hs := h.start_lt g
    by_cases hm : midOf k L < nChunks d.length
    · rw [items_all h hm (by omega)]
      exact .singleton (match_wholeLeaf hf d root _ hs)
    · cases L with
      | succ L => exact absurd (g.mid_lt_nChunks hlt) hm
      | zero =>
        rw [items_single g h hne (by omega)]
        exact .singleton (match_wholeLeaf hf d root _ hs)
  · -- half leaf
    intro k rs hne hlt _ hh h
    have hs := h.start_lt g
    have hm : nChunks d.length ≤ midOf k 0 :=
      nChunks_le_of_le_toBytes (by have := startOf_lt_midOf k 0; omega) hh
    rw [items_single g h hne hm]
    exact .singleton (match_wholeLeaf hf d root _ hs)
  · -- chunk group
    intro k rs hne hlt hq hh h
    have hm : midOf k 0 < nChunks d.length := lt_nChunks_of_toBytes_lt hh
    obtain ⟨e1, e2, e3⟩ := two_zero_geom k
    rw [items_parent g h hne hm hq, itemsI_zero, itemsI_zero, sel_left_chunk h hm,
      sel_right_chunk h hm, parentItem_eq hf d (by omega)]
    refine .cons ⟨rfl, rfl⟩ (.append ?_ ?_)
    · by_cases hl : (lq 0 0 k rs).isEmpty = true
      · simp only [hl, if_true, Bool.not_true, Bool.false_eq_true, if_false]; exact .nil
      · simp only [hl, if_false, Bool.not_false, if_true]
        rw [leftLeaf_zero]
        unfold toBytes at hh ⊢
        obtain ⟨s1, s2⟩ := slice_full_chunk d (j := 2 * k) (by omega)
        exact .singleton ⟨e1.symm, by rw [s2]; omega, by rw [s1, e1, e2]; congr 1; omega⟩
    · by_cases hr : (rq 0 0 k rs).isEmpty = true
      · simp only [hr, if_true, Bool.not_true, Bool.false_eq_true, if_false]; exact .nil
      · simp only [hr, if_false, Bool.not_false, if_true]
        rw [rightLeaf_zero]
        unfold toBytes at hh ⊢
        obtain ⟨s1, s2⟩ := slice_last_chunk d (j := 2 * k + 1) (by omega)
        exact .singleton ⟨e2.symm, by rw [s2, e2, e3], by rw [s1, e2, e3]⟩
  · -- inner node
    intro L k rs hne hlt hq ihl ihr h
    have hm := g.mid_lt_nChunks hlt
    have hL := g.level_le hlt
    rw [items_parent g h hne hm hq, parentItem_eq hf d (by omega)]
    exact .cons ⟨rfl, rfl⟩ (.append (ihl (h.left hm)) (ihr (h.right g hlt)))

end skeleton

end Bao.DecodeSpec
