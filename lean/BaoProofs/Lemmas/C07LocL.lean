import BaoProofs.Lemmas.HistValidL
import BaoProofs.Lemmas.SizeProofLoc

/-!
# Histories of `decode_ranges` calls with a LOCAL collision freedom hypothesis (C07)

Twin of `Lemmas/HistL.lean`, `Lemmas/HistLabelL.lean` and `Lemmas/HistLogL.lean`: the global
`CollisionFree hf` is replaced by `CollisionFreeOn hf S` for a set `S` that contains

* `trueEvals hf d` – the inputs evaluated by the honest hashing of the blob, and
* for every call of the history, `runEvals hf fl root tree q stream` – the inputs evaluated by the
  FAULT-FREE decoder run of that call (a fault-injected call stops earlier, so it evaluates a prefix
  of these; taking the fault-free list makes `histEvals` independent of the injected faults and of
  the state of the sink, it only depends on the root and the tree of the outboard, which a history
  never changes).

* `histEvals hf d ops sink` – the finite, computable list `trueEvals ++ (runEvals of every call)`;
* `fauxEffect_loc`, `run_effect_loc` – `HistL.decodeRangesFAux_sound`, `HistL.run_effect`;
* `run_good_loc`, `decodeAll_good_loc` – `HistLabelL.run_good`, `HistLabelL.decodeAll_good`;
* `step_log_loc`, `run_log_loc` – `HistLogL.step_log`, `HistLogL.run_log`.
-/

set_option maxRecDepth 8192

namespace Bao.C07Loc

open Bao Bao.Spec Bao.C01 Bao.C07

variable {H : Type}

/-! ## the evaluation list of a history -/

/-- the inputs evaluated by the (fault-free) decoder runs of the calls of a history, all set up with
the root `root` and the claimed geometry `tree` -/
def callEvals (hf : HashFns H) [BEq H] (root : H) (tree : Tree) (ops : List Op) :
    List (HashIn H) :=
  ops.flatMap fun op => runEvals hf op.fl root tree op.ranges op.stream

/-- **the evaluation list of a history**: the inputs of the honest hashing of the blob, then the
inputs of the decoder run of every call (on that call's stream and query, with the root and the tree
of the sink's outboard) -/
def histEvals (hf : HashFns H) [BEq H] (d : List UInt8) (ops : List Op) (sink : Sink H) :
    List (HashIn H) :=
  trueEvals hf d ++ callEvals hf sink.ob.root sink.ob.tree ops

section evals
variable (hf : HashFns H) [BEq H]

theorem callEvals_cons (root : H) (tree : Tree) (op : Op) (ops : List Op) :
    callEvals hf root tree (op :: ops) =
      runEvals hf op.fl root tree op.ranges op.stream ++ callEvals hf root tree ops := by
  simp only [callEvals, List.flatMap_cons]

theorem callEvals_append (root : H) (tree : Tree) (a b : List Op) :
    callEvals hf root tree (a ++ b) = callEvals hf root tree a ++ callEvals hf root tree b := by
  simp only [callEvals, List.flatMap_append]

theorem mem_callEvals {root : H} {tree : Tree} {ops : List Op} {x : HashIn H} :
    x ∈ callEvals hf root tree ops ↔
      ∃ op ∈ ops, x ∈ runEvals hf op.fl root tree op.ranges op.stream := by
  simp only [callEvals, List.mem_flatMap]

theorem histEvals_true (d : List UInt8) (ops : List Op) (sink : Sink H) :
    ∀ x ∈ trueEvals hf d, x ∈ histEvals hf d ops sink :=
  fun _ hx => List.mem_append_left _ hx

theorem histEvals_call (d : List UInt8) (ops : List Op) (sink : Sink H) :
    ∀ x ∈ callEvals hf sink.ob.root sink.ob.tree ops, x ∈ histEvals hf d ops sink :=
  fun _ hx => List.mem_append_right _ hx

/-- the evaluation list of a sub-history (same root and tree) is part of that of the history -/
theorem histEvals_mono (d : List UInt8) {ops ops' : List Op} (sink sink' : Sink H)
    (hr : sink'.ob.root = sink.ob.root) (ht : sink'.ob.tree = sink.ob.tree)
    (h : ∀ op ∈ ops', op ∈ ops) : ∀ x ∈ histEvals hf d ops' sink', x ∈ histEvals hf d ops sink := by
  intro x hx
  rcases List.mem_append.1 hx with hx | hx
  · exact List.mem_append_left _ hx
  · rw [hr, ht] at hx
    obtain ⟨op, hop, hx⟩ := (mem_callEvals hf).1 hx
    exact List.mem_append_right _ ((mem_callEvals hf).2 ⟨op, h op hop, hx⟩)

theorem histEvals_take (d : List UInt8) (ops : List Op) (sink : Sink H) (n : Nat) :
    ∀ x ∈ histEvals hf d (ops.take n) sink, x ∈ histEvals hf d ops sink :=
  histEvals_mono hf d sink sink rfl rfl (fun _ h => List.mem_of_mem_take h)

theorem histEvals_left (d : List UInt8) (a b : List Op) (sink : Sink H) :
    ∀ x ∈ histEvals hf d a sink, x ∈ histEvals hf d (a ++ b) sink :=
  histEvals_mono hf d sink sink rfl rfl (fun _ h => List.mem_append_left _ h)

end evals

/-! ## `HistL`: the effect of one fault-injected call and of a history -/

section effect
variable {hf : HashFns H} {d : List UInt8} [BEq H] [LawfulBEq H]

/-- twin of `C07.decodeRangesFAux_sound`; the hypothesis only mentions the inputs of the (fault-free)
decoder run from this state -/
theorem fauxEffect_loc (hd : d.length ≤ 2 ^ 64 * 1024) (fl : Flavour) (tree : Tree)
    (fw fs : Option Nat) :
    ∀ (fuel : Nat) (dec : Dec H) (sink : Sink H) (nw ns : Nat),
      CollisionFreeOn hf (fun x => x ∈ trueEvals hf d ∨ x ∈ runEvalsAux hf fl fuel dec) →
      StackOkL hf d dec.stack →
      Effect hf d sink (decodeRangesFAux hf fl tree fw fs fuel dec sink nw ns).1 := by
  intro fuel
  induction fuel with
  | zero => intro dec sink nw ns _ _; exact Effect.refl sink
  | succ fuel ih =>
    intro dec sink nw ns cf hs
    have step : ∀ {i : Item H} {dec' : Dec H}, dec.next hf fl = .item i dec' →
        ItemOk hf d i ∧ StackOkL hf d dec'.stack ∧
        CollisionFreeOn hf (fun x => x ∈ trueEvals hf d ∨ x ∈ runEvalsAux hf fl fuel dec') := by
      intro i dec' hnext
      obtain ⟨hit, hs'⟩ := next_sound_loc cf (fun x hx => .inl hx) hd fl dec
        (fun x hx => .inr (runEvalsAux_step fl fuel dec x hx)) hs hnext
      exact ⟨hit, hs', cf.mono (fun x hx => hx.imp id (runEvalsAux_next fl fuel dec hnext x))⟩
    unfold decodeRangesFAux
    split
    · exact Effect.refl sink
    · exact Effect.refl sink
    · exact Effect.refl sink
    · rename_i node l r dec' hnext
      obtain ⟨hit, hs', cf'⟩ := step hnext
      split
      · split
        · exact Effect.refl sink
        · split
          · rename_i ob hsave
            exact (Effect.save hit hsave).trans (ih dec' { sink with ob } nw (ns + 1) cf' hs')
          · exact Effect.refl sink
          · exact Effect.refl sink
      · exact ih dec' sink nw ns cf' hs'
    · rename_i off data dec' hnext
      obtain ⟨hit, hs', cf'⟩ := step hnext
      split
      · exact ih dec' sink nw ns cf' hs'
      · split
        · exact Effect.refl sink
        · exact (Effect.write hit).trans (ih dec' _ (nw + 1) ns cf' hs')

/-- twin of `C07.decodeRangesF_effect` -/
theorem decodeRangesF_effect_loc (hd : d.length ≤ 2 ^ 64 * 1024) (fl : Flavour) (s : List UInt8)
    (ranges : Ranges) (sink : Sink H) (fw fs : Option Nat) (hroot : sink.ob.root = Spec.root hf d)
    (cf : CollisionFreeOn hf (fun x => x ∈ trueEvals hf d ∨
      x ∈ runEvals hf fl sink.ob.root sink.ob.tree ranges s)) :
    Effect hf d sink (decodeRangesF hf fl s ranges sink fw fs).1 :=
  fauxEffect_loc hd fl _ fw fs _ _ sink 0 0 cf (by
    intro h hh
    simp only [Dec.new, List.mem_singleton] at hh
    subst hh
    rw [hroot]
    exact TrueCvL.root hf d)

/-- twin of `C07.run_effect`, for an arbitrary set `S` containing the inputs of the honest hashing
and of the calls -/
theorem run_effect_on {S : HashIn H → Prop} (cf : CollisionFreeOn hf S)
    (hT : ∀ x ∈ trueEvals hf d, S x) (hd : d.length ≤ 2 ^ 64 * 1024) (root : H) (tree : Tree) :
    ∀ (ops : List Op) (sink : Sink H), sink.ob.root = root → sink.ob.tree = tree →
      root = Spec.root hf d → (∀ x ∈ callEvals hf root tree ops, S x) →
      Effect hf d sink (run hf ops sink) := by
  intro ops
  induction ops with
  | nil => intro sink _ _ _ _; exact Effect.refl sink
  | cons op ops ih =>
    intro sink hr ht hroot hE
    rw [callEvals_cons] at hE
    have h1 : Effect hf d sink (step hf sink op) :=
      decodeRangesF_effect_loc hd op.fl op.stream op.ranges sink op.fw op.fs (hr.trans hroot)
        (cf.mono (fun x hx => hx.elim (hT x) (fun hx => hE x (List.mem_append_left _ (by
          rw [hr, ht] at hx; exact hx)))))
    have h2 := ih (step hf sink op) (h1.root.1.trans hr) (h1.root.2.1.trans ht) hroot
      (fun x hx => hE x (List.mem_append_right _ hx))
    exact h1.trans h2

/-- twin of `C07.run_effect` with the evaluation list of the history -/
theorem run_effect_loc (hd : d.length ≤ 2 ^ 64 * 1024) (ops : List Op) (sink : Sink H)
    (hroot : sink.ob.root = Spec.root hf d)
    (cf : CollisionFreeOn hf (fun x => x ∈ histEvals hf d ops sink)) :
    Effect hf d sink (run hf ops sink) :=
  run_effect_on cf (histEvals_true hf d ops sink) hd _ _ ops sink rfl rfl hroot
    (histEvals_call hf d ops sink)

end effect

/-! ## `HistLabelL`: the labelled run of the decoder under the true geometry -/

section label
open Bao.C07L Bao.PlanPre Bao.DecodeSpec Bao.Bits

variable {hf : HashFns H} {d : List UInt8} {bs : Nat} {S : HashIn H → Prop}

/-- the top input of the honest hashing of a split interval (evaluation twin of
`OutboardL.cv_split`) -/
theorem cvEvals_split_head (hf : HashFns H) (d : List UInt8) {a m b j : Nat} (hj : j < 64)
    (hm : m = a + 2 ^ j) (hmb : m < b) (hb : b ≤ m + 2 ^ j) (hlen : m * 1024 < d.length)
    (r : Bool) :
    HashIn.parent (cv hf d a m false) (cv hf d m b false) r ∈ hashEvals hf a (slice d a b) r := by
  have hp := two_pow_pos' j
  have h1 : 2 ^ j * 1024 < (slice d a b).length := by
    rw [C01.slice_length]; generalize 2 ^ j = p at *; subst hm; omega
  have h2 : (slice d a b).length ≤ 2 ^ (j + 1) * 1024 := by
    rw [C01.slice_length, Nat.pow_succ]; generalize 2 ^ j = p at *; subst hm; omega
  have hev : hashEvals hf a (slice d a b) r = _ :=
    evalsOf_parent (hf := hf) (N := 64) h1 h2 (by omega) (by omega) a r
  have e1 : (slice d a b).take (2 ^ j * 1024) = slice d a m := by
    unfold slice
    rw [List.take_take]
    congr 1
    generalize 2 ^ j = p at *; subst hm; omega
  have e2 : (slice d a b).drop (2 ^ j * 1024) = slice d m b := by
    unfold slice
    rw [List.drop_take, List.drop_drop]
    generalize 2 ^ j = p at *; subst hm
    congr 2 <;> omega
  rw [hev, e1, e2, ← hm]
  exact List.mem_cons_self

/-- the interval of node `(k, L)` is a subtree interval -/
theorem sub_node {k L : Nat} (hs : startOf k L < nChunks d.length) :
    Sub d (startOf k L) (min (endOf k L) (nChunks d.length)) :=
  ⟨L + 1, ⟨k, by unfold startOf; rw [Nat.mul_comm]⟩, by rw [Offsets.endOf_start], hs⟩

variable [BEq H] [LawfulBEq H]

/-- twin of `stepC_parent_cf` -/
theorem stepC_parent_loc (cf : CollisionFreeOn hf S) (hT : ∀ x ∈ trueEvals hf d, S x)
    (hd : d.length ≤ 2 ^ 64 * 1024) {k L : Nat} (hL : L < 64)
    (hm : midOf k L < nChunks d.length) {ir lf rf f : Bool} {x : Ranges} {stk : List H}
    {s : List UInt8} {i : Item H} {st' : List H} {s' : List UInt8}
    (hflag : f = isRootIv d (startOf k L) (min (endOf k L) (nChunks d.length)))
    (hS : ∀ y ∈ checkEvals hf (.parent (nodeOf k L) ir lf rf x) (s.take 64), S y)
    (h : stepC hf (.parent (nodeOf k L) ir lf rf x)
      (cv hf d (startOf k L) (min (endOf k L) (nChunks d.length)) f :: stk) s = .item i st' s') :
    i = pItem hf d k L ∧
      st' = pushLR lf rf (Spec.pair hf d k L).1 (Spec.pair hf d k L).2 stk := by
  obtain ⟨-, top, rest, hst, hc, hi, hst', -⟩ := stepC_item h
  injection hst with h1 h2
  subst h1 h2
  have htop : cv hf d (startOf k L) (min (endOf k L) (nChunks d.length)) f
      = check hf (.parent (nodeOf k L) ir lf rf x) (s.take 64) := by
    simpa [Chunk.size] using hc
  have hsm := startOf_lt_midOf k L
  have e1 := startOf_eq k L
  have e2 := midOf_eq k L
  have e3 := endOf_eq k L
  have hp := two_pow_pos' L
  have hlen := lt_length_of_lt_nChunks (len := d.length) (m := midOf k L) (by omega) hm
  have hsplit := OutboardL.cv_split hf d (a := startOf k L) (m := midOf k L)
    (b := min (endOf k L) (nChunks d.length)) (j := L) hL
    (by omega) (by omega) (by omega) hlen f
  have hhead := cvEvals_split_head hf d (a := startOf k L) (m := midOf k L)
    (b := min (endOf k L) (nChunks d.length)) (j := L) hL
    (by omega) (by omega) (by omega) hlen f
  rw [hsplit] at htop
  simp only [check] at htop
  have hsub : Sub d (startOf k L) (min (endOf k L) (nChunks d.length)) := sub_node (by omega)
  have hS1 : S (.parent (cv hf d (startOf k L) (midOf k L) false)
      (cv hf d (midOf k L) (min (endOf k L) (nChunks d.length)) false) f) := by
    refine hT _ (trueEvals_sub hd hsub _ ?_)
    rw [← hflag]
    exact hhead
  have hS2 : S (.parent (parsePair hf (s.take 64)).1 (parsePair hf (s.take 64)).2 ir) :=
    hS _ (by simp [checkEvals])
  obtain ⟨hl, hr, -⟩ := cf.parent_inj hS1 hS2 htop
  have hp1 : (Spec.pair hf d k L).1 = (parsePair hf (s.take 64)).1 := hl
  have hp2 : (Spec.pair hf d k L).2 = (parsePair hf (s.take 64)).2 := hr
  refine ⟨?_, ?_⟩
  · rw [hi]; simp only [itemOf, Chunk.size, pItem, hp1, hp2]
  · rw [hst', pushLR_eq]; simp only [Chunk.size, hp1, hp2]

/-- twin of `stepC_leaf_cf` -/
theorem stepC_leaf_loc (cf : CollisionFreeOn hf S) (hT : ∀ x ∈ trueEvals hf d, S x)
    (hd : d.length ≤ 2 ^ 64 * 1024) {c e z : Nat} {ir f : Bool} {x : Ranges}
    {stk : List H} {s : List UInt8} {i : Item H} {st' : List H} {s' : List UInt8}
    (hs : Sub d c e) (hflag : f = isRootIv d c e)
    (hS : ∀ y ∈ checkEvals hf (.leaf c z ir x) (s.take z), S y)
    (h : stepC hf (.leaf c z ir x) (cv hf d c e f :: stk) s = .item i st' s') :
    i = .leaf (c * 1024) (slice d c e) ∧ st' = stk := by
  obtain ⟨-, top, rest, hst, hc, hi, hst', -⟩ := stepC_item h
  injection hst with h1 h2
  subst h1 h2
  have htop : cv hf d c e f = check hf (.leaf c z ir x) (s.take z) := by
    simpa [Chunk.size] using hc
  simp only [check, cv] at htop
  obtain ⟨-, hb, -⟩ := cv_inj_on' cf
    (fun y hy => hT y (trueEvals_sub hd hs y (by rw [← hflag]; exact hy)))
    (fun y hy => hS y (by simpa only [checkEvals] using hy)) htop
  refine ⟨?_, ?_⟩
  · rw [hi]; simp only [itemOf, Chunk.size, toBytes, ← hb]
  · rw [hst']; rfl

omit [LawfulBEq H] in
/-- the inputs of a run over a prefix of the plan are inputs of the run over the plan -/
theorem runLEvals_append_sub (B : List Chunk) :
    ∀ (A : List Chunk) (st : List H) (s : List UInt8),
      ∀ y ∈ runLEvals hf A st s, y ∈ runLEvals hf (A ++ B) st s := by
  intro A
  induction A with
  | nil => intro st s y hy; simp [runLEvals] at hy
  | cons c A ih =>
    intro st s y hy
    cases hsc : stepC hf c st s with
    | item i st' s' =>
      rw [runLEvals_cons_item hsc] at hy
      rw [List.cons_append, runLEvals_cons_item hsc]
      rcases List.mem_append.1 hy with hy | hy
      · exact List.mem_append_left _ hy
      · exact List.mem_append_right _ (ih st' s' y hy)
    | err e s' => simp [runLEvals, hsc] at hy
    | panic s' => simp [runLEvals, hsc] at hy

omit [LawfulBEq H] in
/-- twin of `trace_bind`: the second run only needs its own inputs in `S` -/
theorem trace_bind_loc {P : List (Item H) → Item H → Prop} {pre : List (Item H)}
    {A B : List Chunk} {stA stB stk : List H} {s : List UInt8}
    (hE : ∀ y ∈ runLEvals hf (A ++ B) stA s, S y)
    (hA : Trace P pre (runL hf A stA s).items)
    (hAfin : ∀ st' s', (runL hf A stA s).fin = .ok st' s' → st' = stB)
    (hB : ∀ s1 pre', (∀ y ∈ pre, y ∈ pre') → (∀ y ∈ runLEvals hf B stB s1, S y) →
      Trace P pre' (runL hf B stB s1).items ∧
      ∀ st' s', (runL hf B stB s1).fin = .ok st' s' → st' = stk) :
    Trace P pre (runL hf (A ++ B) stA s).items ∧
      ∀ st' s', (runL hf (A ++ B) stA s).fin = .ok st' s' → st' = stk := by
  rw [runL_append]
  cases ho : runL hf A stA s with
  | mk its fin =>
    rw [ho] at hA hAfin
    cases fin with
    | ok st1 s1 =>
      have e := hAfin st1 s1 rfl
      subst e
      have hfin : (runL hf A stA s).fin = .ok st1 s1 := by rw [ho]
      rw [runLEvals_append_ok B A stA s st1 s1 hfin] at hE
      simp only [Out.bind]
      obtain ⟨h1, h2⟩ := hB s1 (its.reverse ++ pre) (fun y hy => List.mem_append_right _ hy)
        (fun y hy => hE y (List.mem_append_right _ hy))
      exact ⟨(Trace.append its _ pre).2 ⟨hA, h1⟩, h2⟩
    | err e s1 => exact ⟨hA, fun _ _ h => by cases h⟩
    | panic s1 => exact ⟨hA, fun _ _ h => by cases h⟩

/-- twin of `leaf_good` -/
theorem leaf_good_loc (cf : CollisionFreeOn hf S) (hT : ∀ x ∈ trueEvals hf d, S x)
    (hd : d.length ≤ 2 ^ 64 * 1024) {c e z : Nat} {ir f : Bool} {x : Ranges} {T lo hi : Nat}
    (hs : Sub d c e) (hflag : f = isRootIv d c e) (h1 : lo ≤ c) (h2 : c < e) (h3 : e ≤ hi)
    (hanc : ∀ y, c ≤ y → y < e → ∀ L, bs ≤ L → L < T →
      ¬ midOf (y / 2 ^ (L + 1)) L < nChunks d.length) (stk : List H) (s : List UInt8)
    (hE : ∀ y ∈ runLEvals hf [.leaf c z ir x] (cv hf d c e f :: stk) s, S y) :
    OutGood hf d bs T lo hi stk (runL hf [.leaf c z ir x] (cv hf d c e f :: stk) s) := by
  apply outGood_cons
  intro i st' s' hstep
  rw [runLEvals_cons_item hstep] at hE
  obtain ⟨rfl, rfl⟩ := stepC_leaf_loc cf hT hd hs hflag
    (fun y hy => hE y (List.mem_append_left _ hy)) hstep
  refine ⟨⟨c, e, hs, h1, h2, h3, rfl, rfl, ?_⟩, trivial, ?_⟩
  · intro y hy1 hy2 L hL1 hL2 hm
    exact absurd hm (hanc y hy1 hy2 L hL1 hL2)
  · intro st'' s'' h
    simp only [runL_nil, End.ok.injEq] at h
    exact h.1.symm

omit [LawfulBEq H] in
/-- twin of `opt_good` -/
theorem opt_good_loc {rs : Ranges} {p : List Chunk} {h : H} {T lo hi : Nat}
    (hnil : rs = [] → p = [])
    (hgood : rs ≠ [] → ∀ stk s, (∀ y ∈ runLEvals hf p (h :: stk) s, S y) →
      OutGood hf d bs T lo hi stk (runL hf p (h :: stk) s))
    (stk : List H) (s : List UInt8)
    (hE : ∀ y ∈ runLEvals hf p ((if rs.isEmpty then [] else [h]) ++ stk) s, S y) :
    OutGood hf d bs T lo hi stk (runL hf p ((if rs.isEmpty then [] else [h]) ++ stk) s) := by
  cases rs with
  | nil =>
    rw [hnil rfl]
    exact outGood_nil _ _ _ _ _
  | cons a l => exact hgood (by simp) stk s hE

/-- twin of `parent_good` -/
theorem parent_good_loc (cf : CollisionFreeOn hf S) (hT : ∀ x ∈ trueEvals hf d, S x)
    (hd : d.length ≤ 2 ^ 64 * 1024) {k L : Nat} (hL : L < 64)
    (hm : midOf k L < nChunks d.length) {ir f : Bool} {x : Ranges} {A B : List Chunk}
    (hflag : f = isRootIv d (startOf k L) (min (endOf k L) (nChunks d.length)))
    (lrs rrs : Ranges)
    (hA : ∀ stk' s',
      (∀ y ∈ runLEvals hf A ((if lrs.isEmpty then [] else [(Spec.pair hf d k L).1]) ++ stk') s',
        S y) →
      OutGood hf d bs L (startOf k L) (midOf k L) stk'
        (runL hf A ((if lrs.isEmpty then [] else [(Spec.pair hf d k L).1]) ++ stk') s'))
    (hB : ∀ stk' s',
      (∀ y ∈ runLEvals hf B ((if rrs.isEmpty then [] else [(Spec.pair hf d k L).2]) ++ stk') s',
        S y) →
      OutGood hf d bs L (midOf k L) (min (endOf k L) (nChunks d.length)) stk'
        (runL hf B ((if rrs.isEmpty then [] else [(Spec.pair hf d k L).2]) ++ stk') s'))
    (stk : List H) (s : List UInt8)
    (hE : ∀ y ∈ runLEvals hf (.parent (nodeOf k L) ir (!lrs.isEmpty) (!rrs.isEmpty) x :: (A ++ B))
        (cv hf d (startOf k L) (min (endOf k L) (nChunks d.length)) f :: stk) s, S y) :
    OutGood hf d bs (L + 1) (startOf k L) (min (endOf k L) (nChunks d.length)) stk
      (runL hf (.parent (nodeOf k L) ir (!lrs.isEmpty) (!rrs.isEmpty) x :: (A ++ B))
        (cv hf d (startOf k L) (min (endOf k L) (nChunks d.length)) f :: stk) s) := by
  have hsm := startOf_lt_midOf k L
  have hme := midOf_lt_endOf k L
  apply outGood_cons
  intro i st' s' hstep
  rw [runLEvals_cons_item hstep] at hE
  obtain ⟨rfl, rfl⟩ := stepC_parent_loc cf hT hd hL hm hflag
    (fun y hy => hE y (List.mem_append_left _ hy)) hstep
  have hE' := fun y hy => hE y (List.mem_append_right _ hy)
  rw [pushLR_not] at hE' ⊢
  refine ⟨⟨k, L, hL, hm, rfl⟩, ?_⟩
  have hself : ∀ y, startOf k L ≤ y → y < endOf k L → ∀ L', bs ≤ L' → L ≤ L' → L' < L + 1 →
      midOf (y / 2 ^ (L' + 1)) L' < nChunks d.length →
      pItem hf d (y / 2 ^ (L' + 1)) L' ∈ [pItem hf d k L] := by
    intro y hy1 hy2 L' _ h1 h2 _
    have : L' = L := by omega
    subst this
    rw [div_of_mem_range hy1 hy2]
    exact List.mem_singleton.2 rfl
  have hA' := hA ((if rrs.isEmpty then [] else [(Spec.pair hf d k L).2]) ++ stk) s'
    (fun y hy => hE' y (runLEvals_append_sub B A _ _ y hy))
  apply trace_bind_loc (S := S)
    (stB := (if rrs.isEmpty then [] else [(Spec.pair hf d k L).2]) ++ stk) hE'
  · exact Trace.lift (Nat.le_refl _) (by omega)
      (fun y a b => hself y a (by omega)) hA'.1 _ (fun _ h => h)
  · exact hA'.2
  · intro s1 pre' hsub hEB
    exact ⟨Trace.lift (by omega) (Nat.le_refl _)
      (fun y a b => hself y (by omega) (by omega)) (hB stk s1 hEB).1 _ hsub, (hB stk s1 hEB).2⟩

/-- twin of `wholeLeaf_good` -/
theorem wholeLeaf_good_loc (cf : CollisionFreeOn hf S) (hT : ∀ x ∈ trueEvals hf d, S x)
    (hd : d.length ≤ 2 ^ 64 * 1024) {filled : Nat} (g : Geo d.length 0 filled)
    {L k : Nat} (hex : startOf k L < filled) (root : Nat) (rs : Ranges) (f : Bool)
    (hflag : f = isRootIv d (startOf k L) (min (endOf k L) (nChunks d.length)))
    (hanc : ∀ y, startOf k L ≤ y → y < min (endOf k L) (nChunks d.length) → ∀ L', bs ≤ L' →
      L' < L + 1 → ¬ midOf (y / 2 ^ (L' + 1)) L' < nChunks d.length)
    (stk : List H) (s : List UInt8)
    (hE : ∀ y ∈ runLEvals hf [nodeLeaf d.length 0 root L k rs]
        (cv hf d (startOf k L) (min (endOf k L) (nChunks d.length)) f :: stk) s, S y) :
    OutGood hf d bs (L + 1) (startOf k L) (min (endOf k L) (nChunks d.length)) stk
      (runL hf [nodeLeaf d.length 0 root L k rs]
        (cv hf d (startOf k L) (min (endOf k L) (nChunks d.length)) f :: stk) s) := by
  have hsn : startOf k L < nChunks d.length := g.start_lt_nChunks (L := L) hex
  have hse := Offsets.endOf_start k L
  have hp := two_pow_pos' (L + 1)
  rw [nodeLeaf_zero] at hE ⊢
  exact leaf_good_loc cf hT hd (sub_node hsn) hflag (Nat.le_refl _) (by omega) (Nat.le_refl _)
    hanc stk s hE

/-- the honest flag of a proper left part / of a part not starting at chunk 0 is `false` -/
theorem isRootIv_false_of_lt {c e : Nat} (h : e < nChunks d.length) : false = isRootIv d c e := by
  simp only [isRootIv]
  exact (decide_eq_false (by omega)).symm

theorem isRootIv_false_of_pos {c e : Nat} (h : 0 < c) : false = isRootIv d c e := by
  simp only [isRootIv]
  exact (decide_eq_false (by omega)).symm

/-- twin of `run_good`: the labelled run of a subtree, with the honest root flag on the chaining
value and collision freedom only on a set containing `trueEvals hf d` and the inputs of this run -/
theorem run_good_loc (cf : CollisionFreeOn hf S) (hT : ∀ x ∈ trueEvals hf d, S x)
    (hd : d.length ≤ 2 ^ 63) {filled root : Nat}
    (g : Geo d.length 0 filled) (L k : Nat) (rs : Ranges) :
    startOf k L < filled → ∀ (f : Bool) (stk : List H) (s : List UInt8),
      f = isRootIv d (startOf k L) (min (endOf k L) (nChunks d.length)) →
      (∀ y ∈ runLEvals hf (planPre d.length 0 bs filled root L k rs)
          ((if rs.isEmpty then []
            else [cv hf d (startOf k L) (min (endOf k L) (nChunks d.length)) f]) ++ stk) s, S y) →
      OutGood hf d bs (L + 1) (startOf k L) (min (endOf k L) (nChunks d.length)) stk
        (runL hf (planPre d.length 0 bs filled root L k rs)
          ((if rs.isEmpty then []
            else [cv hf d (startOf k L) (min (endOf k L) (nChunks d.length)) f]) ++ stk) s) := by
  have hd' : d.length ≤ 2 ^ 64 * 1024 := by omega
  refine planPre_induct (size := d.length) (bs := 0) (ml := bs) (filled := filled) (root := root)
    (P := fun L k rs p => startOf k L < filled → ∀ (f : Bool) (stk : List H) (s : List UInt8),
      f = isRootIv d (startOf k L) (min (endOf k L) (nChunks d.length)) →
      (∀ y ∈ runLEvals hf p
          ((if rs.isEmpty then []
            else [cv hf d (startOf k L) (min (endOf k L) (nChunks d.length)) f]) ++ stk) s, S y) →
      OutGood hf d bs (L + 1) (startOf k L) (min (endOf k L) (nChunks d.length)) stk
        (runL hf p
          ((if rs.isEmpty then []
            else [cv hf d (startOf k L) (min (endOf k L) (nChunks d.length)) f]) ++ stk) s))
    ?_ ?_ ?_ ?_ ?_ ?_ ?_ L k rs
  · -- nil
    intro L k _ f stk s _ _
    exact outGood_nil _ _ _ _ _
  · -- gone
    intro k rs _ hge hex
    rw [Offsets.startOf_zero] at hex
    rw [Offsets.nodeOf_zero] at hge
    omega
  · -- skip
    intro L k rs hne hge ih hex f stk s hflag hE
    have hm : nChunks d.length ≤ midOf k (L + 1) := g.skip_mid_ge hge
    have hme := midOf_lt_endOf k (L + 1)
    have hmin : min (midOf k (L + 1)) (nChunks d.length)
        = min (endOf k (L + 1)) (nChunks d.length) := by omega
    have := ih (by rw [startOf_left]; exact hex) f stk s
      (by rw [startOf_left, endOf_left, hmin]; exact hflag)
      (by rw [startOf_left, endOf_left, hmin]; exact hE)
    rw [startOf_left, endOf_left, hmin] at this
    refine ⟨Trace.lift (pre2 := []) (Nat.le_refl _) (Nat.le_refl _) ?_ this.1 _
      (fun _ h => h), this.2⟩
    intro y hy1 hy2 L' _ h1 h2 hmid
    have : L' = L + 1 := by omega
    subst this
    rw [div_of_mem_range hy1 (by omega)] at hmid
    omega
  · -- query leaf
    intro L k rs hne hlt hq hex f stk s hflag hE
    have hLB := queryLeaf_lt hq
    rw [isEmpty_eq_false hne] at hE ⊢
    simp only [Bool.false_eq_true, if_false, List.singleton_append] at hE ⊢
    refine wholeLeaf_good_loc cf hT hd' g hex root rs f hflag ?_ stk s hE
    intro y _ _ L' h1 h2
    omega
  · -- half leaf
    intro k rs hne hlt _ hh hex f stk s hflag hE
    have hm : nChunks d.length ≤ midOf k 0 :=
      nChunks_le_of_le_toBytes (by have := startOf_lt_midOf k 0; omega) hh
    rw [isEmpty_eq_false hne] at hE ⊢
    simp only [Bool.false_eq_true, if_false, List.singleton_append] at hE ⊢
    refine wholeLeaf_good_loc cf hT hd' g hex root rs f hflag ?_ stk s hE
    intro y hy1 hy2 L' _ h2 hmid
    have : L' = 0 := by omega
    subst this
    rw [div_of_mem_range hy1 (by omega)] at hmid
    omega
  · -- chunk group
    intro k rs hne hlt hq hh hex f stk s hflag hE
    have hm : midOf k 0 < nChunks d.length := lt_nChunks_of_toBytes_lt hh
    obtain ⟨e1, e2, e3⟩ := two_zero_geom k
    rw [isEmpty_eq_false hne, nodeParent_zero] at hE ⊢
    simp only [Bool.false_eq_true, if_false, List.singleton_append] at hE ⊢
    refine parent_good_loc cf hT hd' (by omega) hm hflag (lq 0 0 k rs) (rq 0 0 k rs) ?_ ?_ stk s hE
    · refine opt_good_loc (fun h => by simp [h]) (fun hl stk' s' hE' => ?_)
      rw [if_neg (by simpa using hl), leftLeaf_zero] at hE' ⊢
      refine leaf_good_loc cf hT hd' ⟨0, Nat.one_dvd _, by omega, by omega⟩
        (isRootIv_false_of_lt hm) (Nat.le_refl _)
        (by omega) (Nat.le_refl _) (fun _ _ _ _ _ h => by omega) stk' s' hE'
    · refine opt_good_loc (fun h => by simp [h]) (fun hr stk' s' hE' => ?_)
      rw [if_neg (by simpa using hr), rightLeaf_zero] at hE' ⊢
      refine leaf_good_loc cf hT hd' ⟨0, Nat.one_dvd _, by omega, by omega⟩
        (isRootIv_false_of_pos (by omega)) (Nat.le_refl _)
        (by omega) (Nat.le_refl _) (fun _ _ _ _ _ h => by omega) stk' s' hE'
  · -- inner node
    intro L k rs hne hlt hq ihl ihr hex f stk s hflag hE
    have hm : midOf k (L + 1) < nChunks d.length := g.mid_lt_nChunks hlt
    have hL64 := level_lt_of_mid_lt hd hm
    have hme := midOf_lt_endOf k (L + 1)
    have hsm := startOf_lt_midOf k (L + 1)
    rw [isEmpty_eq_false hne, nodeParent_zero] at hE ⊢
    simp only [Bool.false_eq_true, if_false, List.singleton_append] at hE ⊢
    refine parent_good_loc cf hT hd' hL64 hm hflag (lq 0 (L + 1) k rs) (rq 0 (L + 1) k rs) ?_ ?_
      stk s hE
    · intro stk' s' hE'
      have hmin : min (midOf k (L + 1)) (nChunks d.length) = midOf k (L + 1) := by omega
      have := ihl (by rw [startOf_left]; exact hex) false stk' s'
        (by rw [startOf_left, endOf_left, hmin]; exact isRootIv_false_of_lt hm)
        (by rw [startOf_left, endOf_left, hmin]; exact hE')
      rw [startOf_left, endOf_left, hmin] at this
      exact this
    · intro stk' s' hE'
      have := ihr (g.right_exists hlt) false stk' s'
        (by rw [startOf_right, endOf_right]; exact isRootIv_false_of_pos (by omega))
        (by rw [startOf_right, endOf_right]; exact hE')
      rw [startOf_right, endOf_right] at this
      exact this

/-- twin of `decodeAll_good`: the items of a decode are a good trace, provided `hf` has no
collision among the inputs of the honest hashing and of this decoder run -/
theorem decodeAll_good_on (cf : CollisionFreeOn hf S) (hT : ∀ x ∈ trueEvals hf d, S x)
    (hd : d.length ≤ 2 ^ 63) (fl : Flavour) (q : Ranges) (s : List UInt8)
    (hE : ∀ x ∈ runEvals hf fl (Spec.root hf d) ⟨d.length, bs⟩ q s, S x) :
    Trace (IG hf d bs 64 0 (nChunks d.length)) []
      (decodeAll hf fl (Spec.root hf d) ⟨d.length, bs⟩ q s).items := by
  have hsup := runEvals_sup hf fl (Spec.root hf d) d.length bs q s hd
  rw [decodeAll_eq_runL hf fl _ d.length bs q s hd]
  simp only [Out.toRun]
  have g := shifted_geo d.length 0 hd (by omega)
  obtain ⟨hh, hroot, hlt⟩ := rootLevel_spec d.length 0 hd
  have hcov := rootLevel_covers d.length 0 hd
  rw [Nat.add_zero] at hcov
  generalize hq : Ranges.truncate q d.length = q' at hsup
  cases q' with
  | nil => rw [plan_nil]; trivial
  | cons a q'' =>
    have h0 : startOf 0 (rootLevel ⟨d.length, 0⟩) = 0 := startOf_zero_idx _
    have hex : startOf 0 (rootLevel ⟨d.length, 0⟩) < (Tree.shifted ⟨d.length, 0⟩).2 := by
      rw [h0]; omega
    have := run_good_loc (bs := bs) (root := (Tree.shifted ⟨d.length, 0⟩).1) cf hT hd g
      (rootLevel ⟨d.length, 0⟩) 0 (a :: q'') hex true [] s
      (by rw [h0, Nat.min_eq_right hcov]; simp [isRootIv])
      (by
        rw [h0, Nat.min_eq_right hcov]
        simp only [List.isEmpty_cons, Bool.false_eq_true, if_false, List.append_nil]
        intro y hy
        exact hE y (hsup y hy))
    rw [h0, Nat.min_eq_right hcov] at this
    simp only [List.isEmpty_cons, Bool.false_eq_true, if_false, List.append_nil] at this
    refine Trace.lift (pre2 := []) (Nat.le_refl _) (Nat.le_refl _) ?_ this.1 _ (fun _ h => h)
    intro y _ hy L _ h1 _ hmid
    exfalso
    have h2 : 2 ^ (rootLevel ⟨d.length, 0⟩ + 1) ≤ 2 ^ L := Nat.pow_le_pow_right (by decide) h1
    have h3 := two_pow_le_midOf (y / 2 ^ (L + 1)) L
    have h4 : endOf 0 (rootLevel ⟨d.length, 0⟩) = 2 ^ (rootLevel ⟨d.length, 0⟩ + 1) := by
      simp [endOf]
    omega

end label

/-! ## `HistLogL`: the labelled log of a history -/

section log
open Bao.C07L
open Bao.FaultL (Ev applyEvs)

variable {hf : HashFns H} {d : List UInt8} {bs : Nat} {S : HashIn H → Prop}
  [BEq H] [LawfulBEq H]

/-- twin of `step_log` -/
theorem step_log_on (cf : CollisionFreeOn hf S) (hT : ∀ x ∈ trueEvals hf d, S x)
    (hd : d.length ≤ 2 ^ 63) (sink : Sink H) (op : Op)
    (hroot : sink.ob.root = Spec.root hf d) (htree : sink.ob.tree = ⟨d.length, bs⟩)
    (hE : ∀ x ∈ runEvals hf op.fl sink.ob.root sink.ob.tree op.ranges op.stream, S x) :
    ∃ es, step hf sink op = applyEvs hf sink es ∧ EvsOk hf sink es ∧
      Trace (EG hf d bs) [] es := by
  obtain ⟨es, hlog⟩ := faux_log hf op.fl sink.ob.tree op.fw op.fs
    (PrePartial.fuelFor (Dec.new sink.ob.root sink.ob.tree op.ranges op.stream).iter.tree + 1)
    (Dec.new sink.ob.root sink.ob.tree op.ranges op.stream) sink 0 0
  have hgood := decodeAll_good_on (bs := bs) cf hT hd op.fl op.ranges op.stream
    (by rw [← hroot, ← htree]; exact hE)
  rw [← hroot, ← htree] at hgood
  have hlog' : Log hf ⟨d.length, bs⟩ sink
      (decodeAll hf op.fl sink.ob.root sink.ob.tree op.ranges op.stream).items es
      (step hf sink op) := by
    rw [← htree]; exact hlog
  obtain ⟨h1, h2⟩ := hlog'.apply
  exact ⟨es, h1, h2, hlog'.trace hd [] [] (fun _ _ _ h => by cases h) hgood⟩

/-- twin of `run_log`, for an arbitrary set `S` -/
theorem run_log_on (cf : CollisionFreeOn hf S) (hT : ∀ x ∈ trueEvals hf d, S x)
    (hd : d.length ≤ 2 ^ 63) (root : H) (tree : Tree) :
    ∀ (ops : List Op) (sink : Sink H), sink.ob.root = root → sink.ob.tree = tree →
      root = Spec.root hf d → tree = ⟨d.length, bs⟩ →
      (∀ x ∈ callEvals hf root tree ops, S x) →
      ∃ es, run hf ops sink = applyEvs hf sink es ∧ EvsOk hf sink es ∧
        Trace (EG hf d bs) [] es := by
  intro ops
  induction ops with
  | nil => intro sink _ _ _ _ _; exact ⟨[], rfl, trivial, trivial⟩
  | cons op ops ih =>
    intro sink hr ht hroot htree hE
    rw [callEvals_cons] at hE
    obtain ⟨es1, h1, h2, h3⟩ := step_log_on cf hT hd sink op (hr.trans hroot) (ht.trans htree)
      (fun x hx => hE x (List.mem_append_left _ (by rw [hr, ht] at hx; exact hx)))
    obtain ⟨r1, r2, -⟩ := step_root hf sink op
    obtain ⟨es2, g1, g2, g3⟩ := ih (step hf sink op) (r1.trans hr) (r2.trans ht) hroot htree
      (fun x hx => hE x (List.mem_append_right _ hx))
    refine ⟨es1 ++ es2, ?_, ?_, ?_⟩
    · rw [applyEvs_append, ← h1]; exact g1
    · exact EvsOk.append es1 es2 sink h2 (by rw [← h1]; exact g2)
    · exact (Trace.append es1 es2 []).2 ⟨h3,
        Trace.mono_pre (P := EG hf d bs) (fun _ _ _ h he => EG.mono h he) es2 [] _
          (fun _ h => by cases h) g3⟩

/-- twin of `run_log` with the evaluation list of the history -/
theorem run_log_loc (hd : d.length ≤ 2 ^ 63) (ops : List Op) (sink : Sink H)
    (hroot : sink.ob.root = Spec.root hf d) (htree : sink.ob.tree = ⟨d.length, bs⟩)
    (cf : CollisionFreeOn hf (fun x => x ∈ histEvals hf d ops sink)) :
    ∃ es, run hf ops sink = applyEvs hf sink es ∧ EvsOk hf sink es ∧
      Trace (EG hf d bs) [] es :=
  run_log_on cf (histEvals_true hf d ops sink) hd _ _ ops sink rfl rfl hroot htree
    (histEvals_call hf d ops sink)

end log

/-! ## collisions: from "not collision free on a list" to a found collision -/

section search
variable {hf : HashFns H}

/-- a list on which `hf` is not collision free contains a collision, and the quadratic search finds
one -/
theorem collision_of_not_cfOn [DecidableEq H] {l : List (HashIn H)}
    (h : ¬ CollisionFreeOn hf (fun x => x ∈ l)) :
    ∃ x y, findCollision hf l = some (x, y) ∧ x ∈ l ∧ y ∈ l ∧ x ≠ y ∧
      hf.eval x = hf.eval y := by
  have : ∃ x y, x ∈ l ∧ y ∈ l ∧ x ≠ y ∧ hf.eval x = hf.eval y := by
    apply Classical.byContradiction
    intro hno
    apply h
    intro x y hx hy e
    apply Classical.byContradiction
    intro hne
    exact hno ⟨x, y, hx, hy, hne, e⟩
  obtain ⟨x, y, hx, hy, hne, he⟩ := this
  obtain ⟨x', y', hf'⟩ := findCollision_complete hx hy hne he
  exact ⟨x', y', hf', findCollision_some hf'⟩

end search

end Bao.C07Loc
