import BaoProofs.Lemmas.HistSlotL

/-!
# The validator after a history (C07, stage D)

* `local_aux`, `verifiable_local` – a LOCAL form of `ValidL.intact_aux` / `intact_of_load_top`: a
  chunk group is `Verifiable` as soon as the loads of ITS OWN existing ancestors of level `≥ bs`
  return the true pairs and ITS OWN stored bytes are the blob's;
* `load_of_holds` – a slot that `Holds` loads as the true pair (needs that the stored bytes of a
  true pair parse back to it, `RtTrue`);
* `evs_len_ge` – the backing never shrinks; `noIo_of_full` – a full-size backing has no io errors.
-/

set_option maxRecDepth 8192

namespace Bao.C07L
open Bao Bao.Spec Bao.C01 Bao.C07 Bao.Bits Bao.WriteAtL Bao.ValidL Bao.PlanPre
open Bao.FaultL (Ev applyEv applyEvs saveOrKeep)

variable {H : Type}

theorem bytesAt_congr {a b : List UInt8} {s e : Nat}
    (h : ∀ i, s ≤ i → i < e → a[i]? = b[i]?) : bytesAt a s e = bytesAt b s e := by
  unfold bytesAt
  apply List.ext_getElem?
  intro j
  simp only [List.getElem?_take, List.getElem?_drop]
  by_cases hj : j < e - s
  · simp only [hj, if_true]; exact h _ (by omega) (by omega)
  · simp only [hj, if_false]

theorem toBytes_chunksOf_ge (x : Nat) : x ≤ toBytes (chunksOf x) := by
  unfold toBytes chunksOf; split <;> omega

section localintact
variable {hf : HashFns H} {ld : Nat → Res IoErr (Option (H × H))} {d tgt : List UInt8}
  {t : Tree} {F : Nat}

/-- the local form of `ValidL.intact_aux` -/
theorem local_aux (g : Geo t.size t.bs F) (hsz : t.size = d.length) (hs : d.length ≤ 2 ^ 63)
    (wd : Bool) (gr : Nat × Nat)
    (hld : ∀ k M, t.bs ≤ M → midOf k M < nChunks d.length → startOf k M ≤ gr.1 →
      gr.1 < endOf k M → ld (nodeOf k M) = .ok (some (Spec.pair hf d k M)))
    (hb : ∀ i, toBytes gr.1 ≤ i → i < toBytes gr.2 → tgt[i]? = d[i]?) :
    ∀ (L k : Nat) (isRoot : Bool), GroupC t F L k gr →
      LinkedC hf ld tgt wd t F L k
        (cv hf d (startOf k (L + t.bs)) (min (endOf k (L + t.bs)) (nChunks d.length)) isRoot)
        isRoot gr := by
  intro L
  induction L with
  | zero =>
    intro k isRoot hgr
    have hrange := GroupC.range t F 0 k gr hgr
    simp only [Nat.zero_add] at hrange
    simp only [GroupC] at hgr
    obtain ⟨hk, hgr⟩ := hgr
    simp only [LinkedC, Nat.zero_add]
    refine ⟨hk, ?_⟩
    by_cases hm : toBytes (midOf k t.bs) < t.size
    · rw [if_pos hm] at hgr ⊢
      have hmN : midOf k t.bs < nChunks d.length := by
        rw [← hsz]; exact lt_nChunks_of_toBytes_lt hm
      have hM : t.bs < 64 := level_lt_of_mid (by omega) hm
      rw [hld k t.bs (Nat.le_refl _) hmN hrange.1 hrange.2.1]
      simp only [Spec.pair]
      refine ⟨cv_parent hf d hM hmN isRoot, ?_⟩
      by_cases hg : gr.1 < midOf k t.bs
      · rw [if_pos hg] at hgr ⊢
        refine ⟨hgr, fun _ => ?_⟩
        rw [bytesAt_congr (b := d) (fun i h1 h2 => hb i (by rw [hgr]; exact h1)
          (by rw [hgr]; exact h2)), bytesAt_eq_slice_full]; rfl
      · rw [if_neg hg] at hgr ⊢
        refine ⟨hgr, fun _ => ?_⟩
        rw [bytesAt_congr (b := d) (fun i h1 h2 => hb i (by rw [hgr]; exact h1) (by
          rw [hgr]
          exact Nat.lt_of_lt_of_le h2 (toBytes_chunksOf_ge _))), hsz, bytesAt_eq_slice]; rfl
    · rw [if_neg hm] at hgr ⊢
      refine ⟨hgr, fun _ => ?_⟩
      rw [bytesAt_congr (b := d) (fun i h1 h2 => hb i (by rw [hgr]; exact h1) (by
        rw [hgr]
        exact Nat.lt_of_lt_of_le h2 (toBytes_chunksOf_ge _))), hsz, bytesAt_eq_slice]; rfl
  | succ L ih =>
    intro k isRoot hgr
    have hrange := GroupC.range t F (L + 1) k gr hgr
    simp only [GroupC] at hgr
    simp only [LinkedC]
    by_cases hk : nodeOf k (L + 1) < F
    · rw [if_pos hk] at hgr ⊢
      have hm := g.mid_lt hk
      have hmN : midOf k (L + 1 + t.bs) < nChunks d.length := by
        rw [← hsz]; exact lt_nChunks_of_toBytes_lt hm
      have hM : L + 1 + t.bs < 64 := level_lt_of_mid (by omega) hm
      rw [hld k (L + 1 + t.bs) (by omega) hmN hrange.1 hrange.2.1]
      simp only [Spec.pair]
      refine ⟨cv_parent hf d hM hmN isRoot, ?_⟩
      by_cases hg : gr.1 < midOf k (L + 1 + t.bs)
      · rw [if_pos hg] at hgr ⊢
        have := ih (2 * k) false hgr
        rw [child_ls, child_le, show min (midOf k (L + 1 + t.bs)) (nChunks d.length)
          = midOf k (L + 1 + t.bs) by omega] at this
        exact this
      · rw [if_neg hg] at hgr ⊢
        have := ih (2 * k + 1) false hgr
        rw [child_rs, child_re] at this
        exact this
    · rw [if_neg hk] at hgr ⊢
      have hmN := g.skip_mid_ge (Nat.le_of_not_lt hk)
      rw [hsz] at hmN
      have hme := midOf_lt_endOf k (L + 1 + t.bs)
      have := ih (2 * k) isRoot hgr
      rw [child_ls, child_le] at this
      rw [show min (endOf k (L + 1 + t.bs)) (nChunks d.length)
        = min (midOf k (L + 1 + t.bs)) (nChunks d.length) by omega]
      exact this

end localintact

section top
variable {hf : HashFns H} {fl : Flavour} {ob : Store H} {d tgt : List UInt8}

/-- **a group whose own ancestors load as true pairs and whose own bytes are the blob's is
verifiable** (whatever the rest of the store and of the data file holds) -/
theorem verifiable_local (hs : d.length ≤ 2 ^ 63) (hbs : ob.tree.bs ≤ 10)
    (hsz : ob.tree.size = d.length) (hroot : ob.root = Spec.root hf d) (wd : Bool)
    (htl : tgt.length = d.length) (i : Nat) (hi : i < ob.tree.blocks)
    (hld : ∀ k M, ob.tree.bs ≤ M → midOf k M < nChunks d.length →
      startOf k M ≤ (groupRange ob.tree i).1 → (groupRange ob.tree i).1 < endOf k M →
      ob.load hf fl (nodeOf k M) = .ok (some (Spec.pair hf d k M)))
    (hb : ∀ j, toBytes (groupRange ob.tree i).1 ≤ j → j < toBytes (groupRange ob.tree i).2 →
      tgt[j]? = d[j]?) :
    Verifiable hf fl ob tgt wd (groupRange ob.tree i) := by
  have hs' : ob.tree.size ≤ 2 ^ 63 := by omega
  unfold Verifiable
  split
  · rename_i hbl
    have h1 : i = 0 := by omega
    subst h1
    have hsmall : ¬ (1 * 2 ^ (ob.tree.bs + 10) < ob.tree.size) := by
      rw [← Offsets.lt_blocks_iff ob.tree.size ob.tree.bs 1 (by omega)]
      have : Tree.blocks ⟨ob.tree.size, ob.tree.bs⟩ = ob.tree.blocks := rfl
      omega
    have hc : ob.tree.chunks ≤ 2 ^ ob.tree.bs := by
      have := chunksOf_mono (a := ob.tree.size) (b := toBytes (2 ^ ob.tree.bs)) (by
        unfold toBytes; rw [Nat.pow_add] at hsmall; omega)
      rwa [chunksOf_toBytes] at this
    have hg : groupRange ob.tree 0 = (0, ob.tree.chunks) := by
      unfold groupRange Tree.chunks at *
      simp only [Nat.zero_mul, Nat.zero_add, Nat.one_mul]
      rw [Nat.min_eq_right hc]
    refine ⟨hg, fun _ => ?_⟩
    rw [hg] at hb
    have hcov : ob.tree.size ≤ toBytes ob.tree.chunks := toBytes_chunksOf_ge _
    have htd : tgt = d := by
      apply List.ext_getElem?
      intro j
      by_cases hj : j < d.length
      · exact hb j (by simp [toBytes]) (by simp only; omega)
      · rw [List.getElem?_eq_none (by omega), List.getElem?_eq_none (by omega)]
    rw [htd, hroot, hsz, List.take_length]
    unfold Spec.root Spec.cv
    rw [slice_full]
  · rename_i hbl
    obtain ⟨hr1, -, hr3⟩ := root_facts ob.tree hs'
    have geo := tree_geo ob.tree hs' hbs
    have hg := (group_iff_top ob.tree hs' hbs _).2 ⟨i, hi, rfl⟩
    unfold Group at hg
    unfold Linked
    rw [hr3, root_level] at hg ⊢
    have := local_aux (hf := hf) (ld := ob.load hf fl) (tgt := tgt) geo hsz hs wd _ hld hb
      (rootLevel ob.tree) 0 true hg
    have hcov : nChunks d.length ≤ endOf 0 (rootLevel ob.tree + ob.tree.bs) := by
      rw [← hsz]
      exact root_covers ob.tree hs'
    rw [startOf_zero_left, Nat.min_eq_right hcov] at this
    rw [hroot]
    exact this

end top

/-! ## loads of holding slots -/

section loads
variable {hf : HashFns H} {d : List UInt8} {bs : Nat}

/-- the stored bytes of the true pair of every existing node of level `≥ bs` parse back to that
pair (a round trip only on the finitely many hashes of the true tree of `d`: unlike the global round
trip this is compatible with `CollisionFree hf` and 32-byte hashes) -/
def RtTrue (hf : HashFns H) (d : List UInt8) (bs : Nat) : Prop :=
  ∀ k L, bs ≤ L → midOf k L < nChunks d.length →
    parsePair hf (Spec.pairBytes hf d (nodeOf k L)) = Spec.pair hf d k L

theorem load_of_holds (fl : Flavour) {ob : Store H} (hk : ob.kind ≠ .empty) {x : Nat}
    (h : Holds hf d ob x) : ob.load hf fl x = .ok (some (parsePair hf (Spec.pairBytes hf d x))) := by
  obtain ⟨i, h1, h2, h3⟩ := h
  unfold blockAt at h3
  unfold Store.load
  cases hkd : ob.kind with
  | empty => exact (hk hkd).elim
  | preIo => simp only [h1, if_pos h2, h3]
  | postIo => simp only [h1, if_pos h2, h3]
  | preMem => simp only [h1, if_pos h2, h3]
  | postMem => simp only [h1, if_pos h2, h3]

/-- a load inside the backing succeeds -/
theorem load_ok_of_le (fl : Flavour) {ob : Store H} (hk : ob.kind ≠ .empty) {x i : Nat}
    (h1 : ob.slot x = some i) (h2 : i * 64 + 64 ≤ ob.data.length) :
    ∃ p, ob.load hf fl x = .ok p := by
  unfold Store.load
  cases hkd : ob.kind with
  | empty => exact (hk hkd).elim
  | preIo => simp only [h1, if_pos h2]; exact ⟨_, rfl⟩
  | postIo => simp only [h1, if_pos h2]; exact ⟨_, rfl⟩
  | preMem => simp only [h1, if_pos h2]; exact ⟨_, rfl⟩
  | postMem => simp only [h1, if_pos h2]; exact ⟨_, rfl⟩

/-- the backing never shrinks -/
theorem evs_len_ge : ∀ (es : List (Ev H)) (sink : Sink H), sink.ob.kind ≠ .empty →
    sink.ob.data.length ≤ (applyEvs hf sink es).ob.data.length := by
  intro es
  induction es with
  | nil => intro sink _; exact Nat.le_refl _
  | cons e es ih =>
    intro sink hk
    rw [FaultL.applyEvs_cons]
    cases e with
    | write off data => exact ih (applyEv hf sink (.write off data)) hk
    | save node l r =>
      cases hs : sink.ob.save hf node (l, r) with
      | ok ob' =>
        have e : applyEv hf sink (.save node l r) = { sink with ob := ob' } := by
          simp only [applyEv, saveOrKeep, hs]
        rw [e]
        obtain ⟨-, r2, r3⟩ := save_root hf sink.ob ob' _ _ hs
        have h2 := ih { sink with ob := ob' } (by simp only [r3]; exact hk)
        have h1 : sink.ob.data.length ≤ ob'.data.length := by
          cases hsl : sink.ob.slot node with
          | none =>
            unfold Store.save at hs
            cases hkd : sink.ob.kind with
            | empty => exact absurd hkd hk
            | preIo => simp only [hkd, hsl] at hs; injection hs with hs; rw [← hs]; exact Nat.le_refl _
            | postIo => simp only [hkd, hsl] at hs; injection hs with hs; rw [← hs]; exact Nat.le_refl _
            | preMem => simp only [hkd, hsl] at hs; cases hs
            | postMem => simp only [hkd, hsl] at hs; cases hs
          | some j =>
            rw [save_ok_data hk hsl hs, length_writeAt]
            exact Nat.le_max_left _ _
        exact Nat.le_trans h1 h2
      | err e' =>
        have e : applyEv hf sink (.save node l r) = sink := by
          simp only [applyEv, saveOrKeep, hs]
        rw [e]; exact ih sink hk
      | panic =>
        have e : applyEv hf sink (.save node l r) = sink := by
          simp only [applyEv, saveOrKeep, hs]
        rw [e]; exact ih sink hk

/-- a store of a non-empty kind with the true geometry whose backing has (at least) the outboard
size: no io error is possible in the validators -/
theorem noIo_of_full (hd : d.length ≤ 2 ^ 63) (hbs : bs ≤ 10) (fl : Flavour) {ob : Store H}
    {kind : StoreKind} {P : List Nat} (T : Table H d bs kind P) (hkind : ob.kind = kind)
    (htree : ob.tree = ⟨d.length, bs⟩) (hfull : P.length * 64 ≤ ob.data.length)
    (data : List UInt8) (wd : Bool) (hdata : wd = true → d.length ≤ data.length) :
    NoIo hf fl ob data wd := by
  refine noIo_of_load (by rw [htree]; exact hd) (by rw [htree]; exact hbs) ?_
    (by rw [htree]; exact hdata)
  intro k M hM hm
  rw [htree] at hM hm
  obtain ⟨j, hj, -, hsl⟩ := T.index hkind htree (T.mem k M hM hm)
  exact load_ok_of_le fl (by rw [hkind]; exact T.nonempty) hsl (by omega)

/-- after a labelled list of completed calls: a chunk group all of whose byte positions are
delivered is verifiable in the final store over the final target -/
theorem group_verifiable (hrt : RtTrue hf d bs) (hd : d.length ≤ 2 ^ 63) (hbs : bs ≤ 10)
    {es : List (Ev H)} (htr : Trace (EG hf d bs) [] es) {ob : Store H} {tgt : List UInt8}
    (hk : ob.kind ≠ .empty) (htree : ob.tree = ⟨d.length, bs⟩) (hroot : ob.root = Spec.root hf d)
    (hinv : HInv hf d bs es.reverse ob) (htl : tgt.length = d.length)
    (htgt : ∀ i, Cov (FaultL.writes es) i → tgt[i]? = d[i]?) (fl : Flavour) (wd : Bool) (j : Nat)
    (hj : j < ob.tree.blocks)
    (hcov : ∀ i, toBytes (groupRange ob.tree j).1 ≤ i → i < toBytes (groupRange ob.tree j).2 →
      i < d.length → Cov (FaultL.writes es) i) :
    Verifiable hf fl ob tgt wd (groupRange ob.tree j) := by
  obtain ⟨kind, root, tree, data⟩ := ob
  simp only at htree hk hroot hj hcov ⊢
  subst htree
  refine verifiable_local hd hbs rfl hroot wd htl j hj ?_ ?_
  · intro k M hM hm h1 h2
    simp only [groupRange] at h1 h2 hcov
    have hpos : j * 2 ^ bs * 1024 < d.length := by
      by_cases hj0 : j = 0
      · subst hj0
        have := two_pow_le_midOf k M
        have hp := two_pow_pos' M
        unfold nChunks at hm
        omega
      · have := (Offsets.lt_blocks_iff d.length bs j (by omega)).1 hj
        rw [Nat.pow_add] at this
        have e : (2 : Nat) ^ 10 = 1024 := by decide
        rw [e, ← Nat.mul_assoc] at this
        exact this
    have hc : Cov (FaultL.writes es) (j * 2 ^ bs * 1024) := by
      refine hcov _ (Nat.le_refl _) ?_ hpos
      unfold toBytes
      have hp := two_pow_pos' bs
      have : j * 2 ^ bs < (j + 1) * 2 ^ bs := by rw [Nat.add_mul]; omega
      have : j * 2 ^ bs < chunksOf d.length := by unfold chunksOf; split <;> omega
      have : j * 2 ^ bs < min ((j + 1) * 2 ^ bs) (chunksOf d.length) := by omega
      omega
    have hdiv : j * 2 ^ bs * 1024 / 1024 / 2 ^ (M + 1) = k := by
      rw [Nat.mul_div_cancel _ (by decide)]
      exact div_of_mem_range h1 h2
    have hmem := cov_chunk htr hc M hM (by rw [hdiv]; exact hm)
    rw [hdiv] at hmem
    have hh := hinv k M (level_lt_64 hd hm) hM hm hmem
    rw [load_of_holds fl hk hh, hrt k M hM hm]
  · intro i h1 h2
    by_cases hi : i < d.length
    · exact htgt i (hcov i h1 h2 hi)
    · rw [List.getElem?_eq_none (by omega), List.getElem?_eq_none (by omega)]

end loads

end Bao.C07L
