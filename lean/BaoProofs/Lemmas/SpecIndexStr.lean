import Std.Data.String.ToNat
import BaoModel.Proto

/-!
# `String.splitOn " "` inverts joining space-free tokens with `" "`

`String.splitOn` is the legacy `String.splitOnAux` (well-founded recursion over raw byte positions).
Its primitives `Pos.Raw.get`, `Pos.Raw.extract`, `Pos.Raw.atEnd` are defined through the list of
characters of the string, so the loop can be followed on `s.toList` (`splitOnAux_space`, for the
separator `" "`): it computes `splitL` (`splitOn_space`), and `splitL` inverts joining space-free
tokens (`splitOn_intercalate`).  Also: decimal numbers contain no space (`noSp_nat`) and parse back
(`toNat?_toString`).
-/

namespace Bao.SpecIndex

/-- byte size of a list of characters -/
def bsize : List Char → Nat
  | [] => 0
  | c :: cs => c.utf8Size + bsize cs

theorem bsize_append (a b : List Char) : bsize (a ++ b) = bsize a + bsize b := by
  induction a with
  | nil => simp [bsize]
  | cons c a ih => simp [bsize, ih]; omega

theorem utf8ByteSize_ofList (l : List Char) : (String.ofList l).utf8ByteSize = bsize l := by
  induction l with
  | nil => rfl
  | cons c l ih =>
    rw [show c :: l = [c] ++ l from rfl, String.ofList_append, String.utf8ByteSize_append, ih,
      ← String.singleton_eq_ofList, String.utf8ByteSize_singleton]
    simp [bsize]

theorem utf8ByteSize_eq_bsize (s : String) : s.utf8ByteSize = bsize s.toList := by
  rw [← utf8ByteSize_ofList, String.ofList_toList]

theorem getAux_at (pre : List Char) (c : Char) (rest : List Char) (k : Nat) :
    String.Pos.Raw.utf8GetAux (pre ++ c :: rest) ⟨k⟩ ⟨k + bsize pre⟩ = c := by
  induction pre generalizing k with
  | nil => simp [String.Pos.Raw.utf8GetAux, bsize]
  | cons a pre ih =>
    have ha := Char.utf8Size_pos a
    have hne : (⟨k⟩ : String.Pos.Raw) ≠ ⟨k + bsize (a :: pre)⟩ := by
      intro h; injection h with h; simp [bsize] at h; omega
    simp only [List.cons_append, String.Pos.Raw.utf8GetAux, if_neg hne]
    have := ih (k + a.utf8Size)
    simp only [bsize]
    rw [show k + (a.utf8Size + bsize pre) = k + a.utf8Size + bsize pre by omega]
    exact this

theorem go₂_at (cur rest : List Char) (k : Nat) :
    String.Pos.Raw.extract.go₂ (cur ++ rest) ⟨k⟩ ⟨k + bsize cur⟩ = cur := by
  induction cur generalizing k with
  | nil =>
    cases rest with
    | nil => rfl
    | cons c rest => simp [String.Pos.Raw.extract.go₂, bsize]
  | cons a cur ih =>
    have ha := Char.utf8Size_pos a
    have hne : (⟨k⟩ : String.Pos.Raw) ≠ ⟨k + bsize (a :: cur)⟩ := by
      intro h; injection h with h; simp [bsize] at h; omega
    simp only [List.cons_append, String.Pos.Raw.extract.go₂, if_neg hne]
    have := ih (k + a.utf8Size)
    simp only [bsize]
    rw [show k + (a.utf8Size + bsize cur) = k + a.utf8Size + bsize cur by omega]
    congr 1

theorem go₁_at (pre cur rest : List Char) (k : Nat) (hc : cur ≠ []) :
    String.Pos.Raw.extract.go₁ (pre ++ cur ++ rest) ⟨k⟩ ⟨k + bsize pre⟩ ⟨k + bsize pre + bsize cur⟩
      = cur := by
  induction pre generalizing k with
  | nil =>
    obtain ⟨c, cur', rfl⟩ := List.exists_cons_of_ne_nil hc
    simp only [List.nil_append, List.cons_append, String.Pos.Raw.extract.go₁, bsize, Nat.add_zero,
      if_true]
    exact go₂_at (c :: cur') rest k
  | cons a pre ih =>
    have ha := Char.utf8Size_pos a
    have hne : (⟨k⟩ : String.Pos.Raw) ≠ ⟨k + bsize (a :: pre)⟩ := by
      intro h; injection h with h; simp [bsize] at h; omega
    simp only [List.cons_append, String.Pos.Raw.extract.go₁, if_neg hne]
    have := ih (k + a.utf8Size)
    simp only [bsize]
    rw [show k + (a.utf8Size + bsize pre) = k + a.utf8Size + bsize pre by omega]
    exact this

/-- `extract` between the positions after `pre` and after `pre ++ cur` is `cur` -/
theorem extract_at (s : String) (pre cur rest : List Char) (h : s.toList = pre ++ cur ++ rest) :
    String.Pos.Raw.extract s ⟨bsize pre⟩ ⟨bsize (pre ++ cur)⟩ = String.ofList cur := by
  unfold String.Pos.Raw.extract
  by_cases hc : cur = []
  · subst hc
    simp
  · have hpos : 0 < bsize cur := by
      obtain ⟨c, cur', rfl⟩ := List.exists_cons_of_ne_nil hc
      have := Char.utf8Size_pos c
      simp [bsize]; omega
    rw [bsize_append]
    simp only []
    rw [if_neg (by simp only [ge_iff_le]; omega), h]
    have := go₁_at pre cur rest 0 hc
    simp only [Nat.zero_add] at this
    rw [show (0 : String.Pos.Raw) = ⟨0⟩ from rfl, this]

/-- list model of `splitOn " "`: `cur` is the token being read -/
def splitL : List Char → List Char → List (List Char)
  | cur, [] => [cur]
  | cur, c :: rest => if c = ' ' then cur :: splitL [] rest else splitL (cur ++ [c]) rest

theorem sp_toList : (" " : String).toList = [' '] := by rfl
theorem sp_size : (" " : String).utf8ByteSize = 1 := by rfl

theorem splitOnAux_space (s : String) (rest : List Char) : ∀ (pre cur : List Char) (r : List String),
    s.toList = pre ++ cur ++ rest →
    String.splitOnAux s " " ⟨bsize pre⟩ ⟨bsize (pre ++ cur)⟩ 0 r
      = r.reverse ++ (splitL cur rest).map String.ofList := by
  induction rest with
  | nil =>
    intro pre cur r h
    rw [String.splitOnAux]
    have hend : String.Pos.Raw.atEnd s ⟨bsize (pre ++ cur)⟩ = true := by
      simp only [String.Pos.Raw.atEnd, utf8ByteSize_eq_bsize, h, List.append_nil, ge_iff_le,
        Nat.le_refl, decide_true]
    rw [if_pos hend]
    simp only [List.reverse_cons, splitL, List.map_cons, List.map_nil]
    rw [extract_at s pre cur [] h]
  | cons c rest ih =>
    intro pre cur r h
    have hc := Char.utf8Size_pos c
    rw [String.splitOnAux]
    have hend : ¬ String.Pos.Raw.atEnd s ⟨bsize (pre ++ cur)⟩ = true := by
      simp only [String.Pos.Raw.atEnd, utf8ByteSize_eq_bsize, h, ge_iff_le, decide_eq_true_eq]
      rw [bsize_append (pre ++ cur)]
      simp only [bsize]
      omega
    rw [if_neg hend]
    have hget : String.Pos.Raw.get s ⟨bsize (pre ++ cur)⟩ = c := by
      unfold String.Pos.Raw.get
      rw [h]
      have := getAux_at (pre ++ cur) c rest 0
      simp only [Nat.zero_add] at this
      exact this
    have hget0 : String.Pos.Raw.get " " 0 = ' ' := by rfl
    have hnext : String.Pos.Raw.next s ⟨bsize (pre ++ cur)⟩ = ⟨bsize (pre ++ cur ++ [c])⟩ := by
      unfold String.Pos.Raw.next
      rw [hget, bsize_append (pre ++ cur)]
      simp only [bsize, Nat.add_zero]
      rfl
    by_cases hsp : c = ' '
    · subst hsp
      have hb : (String.Pos.Raw.get s ⟨bsize (pre ++ cur)⟩ == String.Pos.Raw.get " " 0) = true := by
        rw [hget, hget0]; rfl
      rw [if_pos hb]
      have hj : String.Pos.Raw.atEnd " " (String.Pos.Raw.next " " 0) = true := by rfl
      simp only [hj, if_true, hnext]
      have hun : (⟨bsize (pre ++ cur ++ [' '])⟩ : String.Pos.Raw).unoffsetBy
          (String.Pos.Raw.next " " 0) = ⟨bsize (pre ++ cur)⟩ := by
        have : String.Pos.Raw.next " " 0 = ⟨1⟩ := by rfl
        rw [this, bsize_append (pre ++ cur)]
        simp only [bsize]
        ext
        simp
        rfl
      rw [hun, extract_at s pre cur (' ' :: rest) h]
      have h' : s.toList = (pre ++ cur ++ [' ']) ++ [] ++ rest := by
        rw [h]; simp
      have := ih (pre ++ cur ++ [' ']) [] (String.ofList cur :: r) h'
      rw [List.append_nil] at this
      rw [this]
      simp [splitL]
    · have hb : ¬ (String.Pos.Raw.get s ⟨bsize (pre ++ cur)⟩ == String.Pos.Raw.get " " 0) = true := by
        rw [hget, hget0]; simpa using hsp
      rw [if_neg hb]
      have hun : (⟨bsize (pre ++ cur)⟩ : String.Pos.Raw).unoffsetBy 0 = ⟨bsize (pre ++ cur)⟩ := by
        ext; simp
      rw [hun, hnext]
      have h' : s.toList = pre ++ (cur ++ [c]) ++ rest := by
        rw [h]; simp
      have := ih pre (cur ++ [c]) r h'
      rw [← List.append_assoc] at this
      rw [this]
      simp [splitL, hsp]

theorem splitOn_space (s : String) : s.splitOn " " = (splitL [] s.toList).map String.ofList := by
  unfold String.splitOn
  rw [if_neg (by decide)]
  have := splitOnAux_space s s.toList [] [] [] (by simp)
  simpa [bsize] using this

/-! ### the list model inverts joining space-free tokens -/

theorem splitL_append (t : List Char) (ht : ' ' ∉ t) (cur rest : List Char) :
    splitL cur (t ++ rest) = splitL (cur ++ t) rest := by
  induction t generalizing cur with
  | nil => simp
  | cons c t ih =>
    have hc : c ≠ ' ' := fun e => ht (by rw [e]; exact List.mem_cons_self ..)
    have ht' : ' ' ∉ t := fun h => ht (List.mem_cons_of_mem _ h)
    simp only [List.cons_append, splitL, if_neg hc]
    rw [ih ht', List.append_assoc]
    rfl

/-- the characters of `" ".intercalate (a :: as)` after `a` -/
def joinTail : List (List Char) → List Char
  | [] => []
  | t :: ts => ' ' :: (t ++ joinTail ts)

theorem splitL_join (ts : List (List Char)) (hts : ∀ t ∈ ts, ' ' ∉ t) (cur : List Char) :
    splitL cur (joinTail ts) = cur :: ts := by
  induction ts generalizing cur with
  | nil => rfl
  | cons t ts ih =>
    have ht := hts t (List.mem_cons_self ..)
    have hts' : ∀ u ∈ ts, ' ' ∉ u := fun u hu => hts u (List.mem_cons_of_mem _ hu)
    simp only [joinTail, splitL, if_true]
    rw [splitL_append t ht, ih hts', List.nil_append]

theorem toList_intercalate_sp (a : String) (as : List String) :
    (" ".intercalate (a :: as)).toList = a.toList ++ joinTail (as.map String.toList) := by
  induction as generalizing a with
  | nil => simp [joinTail]
  | cons u l ih =>
    rw [String.intercalate_cons_cons, String.toList_append, String.toList_append, ih, sp_toList]
    simp [joinTail]

/-- `splitOn " "` inverts joining space-free tokens with `" "` -/
theorem splitOn_intercalate (toks : List String) (hne : toks ≠ [])
    (hsp : ∀ t ∈ toks, ' ' ∉ t.toList) : (" ".intercalate toks).splitOn " " = toks := by
  obtain ⟨a, as, rfl⟩ := List.exists_cons_of_ne_nil hne
  rw [splitOn_space, toList_intercalate_sp]
  have ha := hsp a (List.mem_cons_self ..)
  have has : ∀ t ∈ as.map String.toList, ' ' ∉ t := by
    intro t ht
    obtain ⟨u, hu, rfl⟩ := List.mem_map.1 ht
    exact hsp u (List.mem_cons_of_mem _ hu)
  rw [splitL_append a.toList ha, splitL_join _ has, List.nil_append]
  simp [String.ofList_toList]

/-! ### space-free strings -/

/-- the string contains no space -/
def NoSp (s : String) : Prop := ' ' ∉ s.toList

theorem noSp_append {s t : String} (hs : NoSp s) (ht : NoSp t) : NoSp (s ++ t) := by
  unfold NoSp at *
  rw [String.toList_append, List.mem_append]
  exact fun h => h.elim hs ht

theorem noSp_nat (n : Nat) : NoSp (toString n) := by
  show ' ' ∉ (Nat.repr n).toList
  rw [Nat.toList_repr]
  intro h
  have := Nat.isDigit_of_mem_toDigits (by omega) (by omega) h
  exact absurd this (by decide)

theorem toNat?_toString (n : Nat) : (toString n).toNat? = some n := Nat.toNat?_repr n

theorem mapM_toNat?_toString (l : List Nat) :
    (l.map toString).mapM (·.toNat?) = some l := by
  induction l with
  | nil => rfl
  | cons a l ih => simp [List.mapM_cons, ih]

end Bao.SpecIndex
