import BaoProofs.Lemmas.EncL
import BaoProofs.Lemmas.HashCFLoc
import BaoProofs.Lemmas.C01InvLoc

/-!
# The validating encoder with a LOCAL collision freedom hypothesis (lemmas for `Props/C05Loc.lean`)

Twin of the second half of `Lemmas/EncL.lean`.  The global `CollisionFree hf` is replaced by
`CollisionFreeOn hf S` for a set `S` of hash inputs that contains what the two encoder runs under
consideration evaluate.

* `stepEvals`  – the hash inputs one plan item evaluates (twin of `C05.encStep`)
* `loopEvals`  – the hash inputs of `encodeValidatedLoop` (a structural twin of that loop)
* `encEvals`   – the hash inputs of `encodeRangesValidated`
* `loopEvals_cons`, `encEvals_eq_loop` – the twins of `C05.loop_cons`, `C05.validated_eq_loop`
* `step_rel_loc`, `loop_rel_loc`, `loop_rel_strict_loc` – the twins of `step_rel`, `loop_rel`,
  `loop_rel_strict`
* `validated_rel_loc` – the twin of `C05.validated_rel`
* `step_true_loc`, `loop_true_loc`, `validated_true_loc` – the twins of `step_true`, `loop_true`,
  `validated_true` (invariant sharpened to `C01.TrueCvL`, as in `Lemmas/C01InvLoc.lean`)
-/

namespace Bao.C05Loc

open Bao.C05

variable {H : Type}

/-- the hash inputs evaluated by one plan item of the validating encoder on the store `(data, ob)`:
a parent item hashes the loaded pair (before popping the expected hash); a leaf item pops, reads,
and hashes ALL the bytes read – also for a partially selected group (`C05.selectedRec_hash`) -/
def stepEvals (hf : HashFns H) (fl : Flavour) (data : List UInt8) (ob : Store H) :
    Chunk → List H → List (HashIn H)
  | .parent node isRoot _ _ _, _ =>
    match ob.load hf fl node with
    | .ok (some (l, r)) => [.parent l r isRoot]
    | _ => []
  | .leaf start size isRoot _, stack =>
    match stack with
    | [] => []
    | _ :: _ =>
      match readExactAt data (toBytes start) size with
      | .error _ => []
      | .ok buf => hashEvals hf start buf isRoot

/-- twin of `encodeValidatedLoop`: every hash input the loop evaluates, in order, the inputs of the
last (failing) item included -/
def loopEvals (hf : HashFns H) [BEq H] (fl : Flavour) (data : List UInt8) (ob : Store H) :
    List Chunk → List H → List (HashIn H)
  | [], _ => []
  | .parent node isRoot left right _ :: plan, stack =>
    match ob.load hf fl node with
    | .err _ => []
    | .panic => []
    | .ok none => []
    | .ok (some (l, r)) =>
      .parent l r isRoot ::
        match stack with
        | [] => []
        | expected :: stack =>
          if hf.parentCv l r isRoot != expected then []
          else
            let stack := if right then r :: stack else stack
            let stack := if left then l :: stack else stack
            loopEvals hf fl data ob plan stack
  | .leaf start size isRoot ranges :: plan, stack =>
    match stack with
    | [] => []
    | expected :: stack =>
      match readExactAt data (toBytes start) size with
      | .error _ => []
      | .ok buf =>
        hashEvals hf start buf isRoot ++
          let actual :=
            if !Ranges.isAll ranges then
              (encodeSelectedRec hf recFuel start buf isRoot ranges ob.tree.bs true).1
            else hashSubtree hf start buf isRoot
          if actual != expected then [] else loopEvals hf fl data ob plan stack

/-- twin of `encodeRangesValidated`: every hash input the validating encoder evaluates on the store
`(data, ob)` for the query `q` -/
def encEvals (hf : HashFns H) [BEq H] (fl : Flavour) (data : List UInt8) (ob : Store H)
    (q : Ranges) : List (HashIn H) :=
  if fl == .sync && q.isEmpty then []
  else
    match ob.tree.prePartialChunks (Ranges.truncate q ob.tree.size) 0 with
    | none => []
    | some plan => loopEvals hf fl data ob plan [ob.root]

section twin
variable (hf : HashFns H) [BEq H] (fl : Flavour) (data : List UInt8) (ob : Store H)

theorem loopEvals_nil (stack : List H) : loopEvals hf fl data ob [] stack = [] := by
  simp [loopEvals]

/-- the evaluation list of the loop: the inputs of the first item, then – if that item passes –
those of the rest of the plan on the new stack -/
theorem loopEvals_cons (c : Chunk) (plan : List Chunk) (stack : List H) :
    loopEvals hf fl data ob (c :: plan) stack =
      stepEvals hf fl data ob c stack ++
        match encStep hf fl data ob c stack with
        | .stop _ => []
        | .cont st _ => loopEvals hf fl data ob plan st := by
  cases c with
  | parent node isRoot left right rs =>
    simp only [loopEvals, stepEvals, encStep]
    cases ob.load hf fl node with
    | err e => rfl
    | panic => rfl
    | ok o =>
      cases o with
      | none => rfl
      | some p =>
        obtain ⟨l, r⟩ := p
        cases stack with
        | nil => rfl
        | cons expected stack =>
          simp only [pushLR, List.singleton_append]
          split <;> rfl
  | leaf start size isRoot rs =>
    simp only [loopEvals, stepEvals, encStep]
    cases stack with
    | nil => rfl
    | cons expected stack =>
      simp only
      cases readExactAt data (toBytes start) size with
      | error e => rfl
      | ok buf =>
        simp only [leafAW]
        split <;> split <;> simp_all

theorem encEvals_eq_loop (q : Ranges) :
    encEvals hf fl data ob q =
      match planOf ob q with
      | none => []
      | some plan => loopEvals hf fl data ob plan [ob.root] := by
  unfold encEvals
  split
  · rename_i h
    have hq : q = [] := by
      simp only [Bool.and_eq_true] at h
      cases q with
      | nil => rfl
      | cons a b => simp at h
    subst hq
    rw [planOf_nil]
    simp only [loopEvals_nil]
  · rfl

theorem stepEvals_sub (c : Chunk) (plan : List Chunk) (stack : List H) :
    ∀ x ∈ stepEvals hf fl data ob c stack, x ∈ loopEvals hf fl data ob (c :: plan) stack := by
  intro x hx
  rw [loopEvals_cons]
  exact List.mem_append_left _ hx

theorem loopEvals_tail_sub {c : Chunk} (plan : List Chunk) {stack st : List H} {em : List UInt8}
    (h : encStep hf fl data ob c stack = .cont st em) :
    ∀ x ∈ loopEvals hf fl data ob plan st, x ∈ loopEvals hf fl data ob (c :: plan) stack := by
  intro x hx
  rw [loopEvals_cons, h]
  exact List.mem_append_right _ hx

omit [BEq H] in
/-- the inputs of a parent item that loads a pair -/
theorem stepEvals_parent {node : Nat} {ir lf rf : Bool} {rs : Ranges} {l r : H}
    (hload : ob.load hf fl node = .ok (some (l, r))) (stack : List H) :
    stepEvals hf fl data ob (.parent node ir lf rf rs) stack = [.parent l r ir] := by
  simp only [stepEvals, hload]

omit [BEq H] in
/-- the inputs of a leaf item that pops and reads -/
theorem stepEvals_leaf {start size : Nat} {ir : Bool} {rs : Ranges} {e : H} {s : List H}
    {buf : List UInt8} (hread : readExactAt data (toBytes start) size = .ok buf) :
    stepEvals hf fl data ob (.leaf start size ir rs) (e :: s) = hashEvals hf start buf ir := by
  simp only [stepEvals, hread]

end twin

section rel
variable {hf : HashFns H} [BEq H] [LawfulBEq H] {fl fl₀ : Flavour} {data data₀ : List UInt8}
  {ob ob₀ : Store H} {S : HashIn H → Prop}

/-- twin of `C05.step_rel`: collision freedom is needed only on the inputs the two steps
evaluate -/
theorem step_rel_loc (cf : CollisionFreeOn hf S) (hbs : ob.tree.bs = ob₀.tree.bs)
    (hd : data.length ≤ 2 ^ 64 * 1024) (hd₀ : data₀.length ≤ 2 ^ 64 * 1024)
    {c : Chunk} {stack st : List H} {em : List UInt8}
    (hS : ∀ x ∈ stepEvals hf fl data ob c stack, S x)
    (hS₀ : ∀ x ∈ stepEvals hf fl₀ data₀ ob₀ c stack, S x)
    (h₀ : encStep hf fl₀ data₀ ob₀ c stack = .cont st em) :
    (∃ t, encStep hf fl data ob c stack = .stop t) ∨
    (encStep hf fl data ob c stack = .cont st em ∧ AgreeAt hf fl fl₀ data ob data₀ ob₀ c) := by
  cases hs : encStep hf fl data ob c stack with
  | stop t => exact .inl ⟨t, rfl⟩
  | cont st' em' =>
    right
    cases c with
    | parent node ir lf rf rs =>
      obtain ⟨l₀, r₀, e₀, s₀, hload₀, hst₀, hne₀, rfl, rfl⟩ := (step_parent_cont hf fl₀ data₀ ob₀).1 h₀
      obtain ⟨l, r, e, s, hload, hst, hne, rfl, rfl⟩ := (step_parent_cont hf fl data ob).1 hs
      rw [hst₀] at hst
      injection hst with he hs'
      subst he hs'
      have h1 : hf.parentCv l r ir = e₀ := by simpa using hne
      have h2 : hf.parentCv l₀ r₀ ir = e₀ := by simpa using hne₀
      rw [stepEvals_parent hf fl data ob hload] at hS
      rw [stepEvals_parent hf fl₀ data₀ ob₀ hload₀] at hS₀
      obtain ⟨rfl, rfl, _⟩ := cf.parent_inj (hS _ (List.mem_singleton_self _))
        (hS₀ _ (List.mem_singleton_self _)) (h1.trans h2.symm)
      exact ⟨rfl, by simp only [AgreeAt, hload, hload₀]⟩
    | leaf start size ir rs =>
      obtain ⟨e₀, buf₀, hst₀, hread₀, hne₀, rfl⟩ := (step_leaf_cont hf fl₀ data₀ ob₀).1 h₀
      obtain ⟨e, buf, hst, hread, hne, rfl⟩ := (step_leaf_cont hf fl data ob).1 hs
      rw [hst₀] at hst
      injection hst with he hs'
      subst he hs'
      have hb := (readExactAt_length hread).2
      have hb₀ := (readExactAt_length hread₀).2
      have h1 : (leafAW hf ob.tree.bs start buf ir rs).1 = e₀ := by simpa using hne
      have h2 : (leafAW hf ob₀.tree.bs start buf₀ ir rs).1 = e₀ := by simpa using hne₀
      rw [leafAW_hash _ _ _ _ _ _ (by omega)] at h1 h2
      rw [hst₀, stepEvals_leaf hf fl data ob hread] at hS
      rw [hst₀, stepEvals_leaf hf fl₀ data₀ ob₀ hread₀] at hS₀
      obtain ⟨_, rfl, _⟩ := cv_inj_on' cf hS hS₀ (h1.trans h2.symm)
      exact ⟨by rw [hbs], by simp only [AgreeAt, hread, hread₀]⟩

/-- twin of `C05.loop_rel` -/
theorem loop_rel_loc (cf : CollisionFreeOn hf S) (hbs : ob.tree.bs = ob₀.tree.bs)
    (hd : data.length ≤ 2 ^ 64 * 1024) (hd₀ : data₀.length ≤ 2 ^ 64 * 1024) :
    ∀ (plan : List Chunk) (stack : List H) (out : List UInt8),
      (∀ x ∈ loopEvals hf fl data ob plan stack, S x) →
      (∀ x ∈ loopEvals hf fl₀ data₀ ob₀ plan stack, S x) →
      (encodeValidatedLoop hf fl₀ data₀ ob₀ plan stack out).terminal = .ok →
      (encodeValidatedLoop hf fl data ob plan stack out).out
        <+: (encodeValidatedLoop hf fl₀ data₀ ob₀ plan stack out).out ∧
      ((encodeValidatedLoop hf fl data ob plan stack out).terminal = .ok →
        (encodeValidatedLoop hf fl data ob plan stack out).out
          = (encodeValidatedLoop hf fl₀ data₀ ob₀ plan stack out).out ∧
        ∀ c ∈ plan, AgreeAt hf fl fl₀ data ob data₀ ob₀ c) := by
  intro plan
  induction plan with
  | nil =>
    intro stack out _ _ _
    rw [loop_nil, loop_nil]
    exact ⟨List.prefix_refl _, fun _ => ⟨rfl, by simp⟩⟩
  | cons c plan ih =>
    intro stack out hS hS₀ hok
    rw [loop_cons] at hok ⊢
    rw [loop_cons]
    cases h₀ : encStep hf fl₀ data₀ ob₀ c stack with
    | stop t =>
      rw [h₀] at hok
      exact (step_stop_ne_ok hf fl₀ data₀ ob₀ h₀ hok).elim
    | cont st em =>
      rw [h₀] at hok
      simp only at hok ⊢
      rcases step_rel_loc (fl := fl) (data := data) (ob := ob) cf hbs hd hd₀
        (fun x hx => hS x (stepEvals_sub hf fl data ob c plan stack x hx))
        (fun x hx => hS₀ x (stepEvals_sub hf fl₀ data₀ ob₀ c plan stack x hx)) h₀
        with ⟨t, ht⟩ | ⟨hc, hag⟩
      · rw [ht]
        simp only
        refine ⟨(List.prefix_append out em).trans (loop_out_prefix hf fl₀ data₀ ob₀ plan st _), ?_⟩
        intro h
        exact (step_stop_ne_ok hf fl data ob ht h).elim
      · rw [hc]
        simp only
        obtain ⟨h1, h2⟩ := ih st (out ++ em)
          (fun x hx => hS x (loopEvals_tail_sub hf fl data ob plan hc x hx))
          (fun x hx => hS₀ x (loopEvals_tail_sub hf fl₀ data₀ ob₀ plan h₀ x hx)) hok
        refine ⟨h1, fun hk => ?_⟩
        obtain ⟨h3, h4⟩ := h2 hk
        refine ⟨h3, ?_⟩
        intro c' hc'
        rcases List.mem_cons.1 hc' with rfl | hc'
        · exact hag
        · exact h4 c' hc'

/-- twin of `C05.loop_rel_strict` -/
theorem loop_rel_strict_loc (cf : CollisionFreeOn hf S) (hb : ∀ h, hf.toBytes h ≠ [])
    (hbs : ob.tree.bs = ob₀.tree.bs)
    (hd : data.length ≤ 2 ^ 64 * 1024) (hd₀ : data₀.length ≤ 2 ^ 64 * 1024) :
    ∀ (plan : List Chunk), (∀ c ∈ plan, LeafNE c) → ∀ (stack : List H) (out : List UInt8),
      (∀ x ∈ loopEvals hf fl data ob plan stack, S x) →
      (∀ x ∈ loopEvals hf fl₀ data₀ ob₀ plan stack, S x) →
      (encodeValidatedLoop hf fl₀ data₀ ob₀ plan stack out).terminal = .ok →
      (encodeValidatedLoop hf fl data ob plan stack out).terminal ≠ .ok →
      (encodeValidatedLoop hf fl data ob plan stack out).out.length
        < (encodeValidatedLoop hf fl₀ data₀ ob₀ plan stack out).out.length := by
  intro plan
  induction plan with
  | nil =>
    intro _ stack out _ _ _ h
    rw [loop_nil] at h
    exact (h rfl).elim
  | cons c plan ih =>
    intro hne stack out hS hS₀ hok hnok
    rw [loop_cons] at hok hnok ⊢
    rw [loop_cons]
    cases h₀ : encStep hf fl₀ data₀ ob₀ c stack with
    | stop t =>
      rw [h₀] at hok
      exact (step_stop_ne_ok hf fl₀ data₀ ob₀ h₀ hok).elim
    | cont st em =>
      rw [h₀] at hok
      simp only at hok ⊢
      rcases step_rel_loc (fl := fl) (data := data) (ob := ob) cf hbs hd hd₀
        (fun x hx => hS x (stepEvals_sub hf fl data ob c plan stack x hx))
        (fun x hx => hS₀ x (stepEvals_sub hf fl₀ data₀ ob₀ c plan stack x hx)) h₀
        with ⟨t, ht⟩ | ⟨hc, _⟩
      · rw [ht]
        simp only
        have h1 := (loop_out_prefix hf fl₀ data₀ ob₀ plan st (out ++ em)).length_le
        have h2 := step_emit_ne hb hbs (hne c (List.mem_cons_self ..)) h₀ ht
        have h3 : 0 < em.length := List.length_pos_iff.2 h2
        rw [List.length_append] at h1
        omega
      · rw [hc] at hnok ⊢
        exact ih (fun c' h' => hne c' (List.mem_cons_of_mem _ h')) st (out ++ em)
          (fun x hx => hS x (loopEvals_tail_sub hf fl data ob plan hc x hx))
          (fun x hx => hS₀ x (loopEvals_tail_sub hf fl₀ data₀ ob₀ plan h₀ x hx)) hok hnok

/-- twin of `C05.validated_rel`: the relation between the run on any store and the run on a store
(same root, same tree) that passes all checks, assuming no collision among the inputs the two runs
evaluate -/
theorem validated_rel_loc (htree : ob.tree = ob₀.tree) (hroot : ob.root = ob₀.root)
    (hd : data.length ≤ 2 ^ 64 * 1024) (hd₀ : data₀.length ≤ 2 ^ 64 * 1024) (q : Ranges)
    (cf : CollisionFreeOn hf
      (fun x => x ∈ encEvals hf fl data ob q ++ encEvals hf fl₀ data₀ ob₀ q))
    (hok : (encodeRangesValidated hf fl₀ data₀ ob₀ q).terminal = .ok) :
    ∃ plan, planOf ob q = some plan ∧ planOf ob₀ q = some plan ∧
      (encodeRangesValidated hf fl data ob q).out <+: (encodeRangesValidated hf fl₀ data₀ ob₀ q).out ∧
      ((encodeRangesValidated hf fl data ob q).terminal = .ok →
        (encodeRangesValidated hf fl data ob q).out = (encodeRangesValidated hf fl₀ data₀ ob₀ q).out ∧
        ∀ c ∈ plan, AgreeAt hf fl fl₀ data ob data₀ ob₀ c) ∧
      ((∀ h, hf.toBytes h ≠ []) → (encodeRangesValidated hf fl data ob q).terminal ≠ .ok →
        (encodeRangesValidated hf fl data ob q).out.length
          < (encodeRangesValidated hf fl₀ data₀ ob₀ q).out.length) := by
  have hbs : ob.tree.bs = ob₀.tree.bs := by rw [htree]
  rw [encEvals_eq_loop, encEvals_eq_loop] at cf
  rw [validated_eq_loop] at hok ⊢
  rw [validated_eq_loop, planOf_congr htree q]
  rw [planOf_congr htree q] at cf
  cases hp : planOf ob₀ q with
  | none => rw [hp] at hok; cases hok
  | some plan =>
    rw [hp] at hok cf
    simp only at hok cf ⊢
    rw [hroot] at cf ⊢
    have hS : ∀ x ∈ loopEvals hf fl data ob plan [ob₀.root],
        x ∈ loopEvals hf fl data ob plan [ob₀.root] ++ loopEvals hf fl₀ data₀ ob₀ plan [ob₀.root] :=
      fun x hx => List.mem_append_left _ hx
    have hS₀ : ∀ x ∈ loopEvals hf fl₀ data₀ ob₀ plan [ob₀.root],
        x ∈ loopEvals hf fl data ob plan [ob₀.root] ++ loopEvals hf fl₀ data₀ ob₀ plan [ob₀.root] :=
      fun x hx => List.mem_append_right _ hx
    obtain ⟨h1, h2⟩ := loop_rel_loc (fl := fl) (data := data) (ob := ob) cf hbs hd hd₀ plan
      [ob₀.root] [] hS hS₀ hok
    refine ⟨plan, rfl, rfl, h1, h2, fun hb hn => ?_⟩
    exact loop_rel_strict_loc cf hb hbs hd hd₀ plan
      (prePartialChunks_leafNE (by rw [planOf] at hp; exact hp)) [ob₀.root] [] hS hS₀ hok hn

end rel

/-! ## a run that passes all checks against the root of a blob reads that blob (local form) -/

section readtrue
variable {hf : HashFns H} [BEq H] [LawfulBEq H] {fl : Flavour} {data : List UInt8} {ob : Store H}
  {d : List UInt8} {S : HashIn H → Prop}

/-- twin of `C05.step_true`; the pending hashes carry the honest root flag (`C01.TrueCvL`) -/
theorem step_true_loc (cf : CollisionFreeOn hf S) (hT : ∀ x ∈ C01.trueEvals hf d, S x)
    (hd : d.length ≤ 2 ^ 64 * 1024) (hdata : data.length ≤ 2 ^ 64 * 1024) {c : Chunk}
    {stack st : List H} {em : List UInt8} (hS : ∀ x ∈ stepEvals hf fl data ob c stack, S x)
    (hs : C01.StackOkL hf d stack) (h : encStep hf fl data ob c stack = .cont st em) :
    ReadTrue hf fl data ob d c ∧ C01.StackOkL hf d st := by
  cases c with
  | parent node ir lf rf rs =>
    obtain ⟨l, r, e, s, hload, rfl, hne, rfl, rfl⟩ := (step_parent_cont hf fl data ob).1 h
    have heq : e = hf.parentCv l r ir := by
      have : hf.parentCv l r ir = e := by simpa using hne
      exact this.symm
    rw [stepEvals_parent hf fl data ob hload] at hS
    obtain ⟨hp, hl, hr⟩ := C01.parent_check_loc cf hT hd (hs _ (List.mem_cons_self ..))
      (hS _ (List.mem_singleton_self _)) heq
    exact ⟨⟨l, r, hload, hp⟩,
      C01.StackOkL.push2 (fun x hx => hs x (List.mem_cons_of_mem _ hx)) hl hr _ _⟩
  | leaf start size ir rs =>
    obtain ⟨e, buf, rfl, hread, hne, rfl⟩ := (step_leaf_cont hf fl data ob).1 h
    have hb := (readExactAt_length hread).2
    have heq : e = hashSubtree hf start buf ir := by
      have : (leafAW hf ob.tree.bs start buf ir rs).1 = e := by simpa using hne
      rw [leafAW_hash _ _ _ _ _ _ (by omega)] at this
      exact this.symm
    rw [stepEvals_leaf hf fl data ob hread] at hS
    exact ⟨⟨buf, hread, C01.leaf_check_loc cf hT hd (hs _ (List.mem_cons_self ..)) hS heq⟩,
      fun x hx => hs x (List.mem_cons_of_mem _ hx)⟩

theorem loop_true_loc (cf : CollisionFreeOn hf S) (hT : ∀ x ∈ C01.trueEvals hf d, S x)
    (hd : d.length ≤ 2 ^ 64 * 1024) (hdata : data.length ≤ 2 ^ 64 * 1024) :
    ∀ (plan : List Chunk) (stack : List H) (out : List UInt8),
      (∀ x ∈ loopEvals hf fl data ob plan stack, S x) → C01.StackOkL hf d stack →
      (encodeValidatedLoop hf fl data ob plan stack out).terminal = .ok →
      ∀ c ∈ plan, ReadTrue hf fl data ob d c := by
  intro plan
  induction plan with
  | nil => intro _ _ _ _ _ c hc; cases hc
  | cons c plan ih =>
    intro stack out hS hs hok
    rw [loop_cons] at hok
    cases hst : encStep hf fl data ob c stack with
    | stop t =>
      rw [hst] at hok
      exact (step_stop_ne_ok hf fl data ob hst hok).elim
    | cont st em =>
      rw [hst] at hok
      obtain ⟨h1, h2⟩ := step_true_loc cf hT hd hdata
        (fun x hx => hS x (stepEvals_sub hf fl data ob c plan stack x hx)) hs hst
      intro c' hc'
      rcases List.mem_cons.1 hc' with rfl | hc'
      · exact h1
      · exact ih st (out ++ em)
          (fun x hx => hS x (loopEvals_tail_sub hf fl data ob plan hst x hx)) h2 hok c' hc'

/-- twin of `C05.validated_true`: a run that passes all checks against the root of blob `d` read
only true data of `d`, assuming no collision among the inputs of the honest hashing of `d` and of
the run -/
theorem validated_true_loc (hd : d.length ≤ 2 ^ 64 * 1024) (hdata : data.length ≤ 2 ^ 64 * 1024)
    (hroot : ob.root = Spec.root hf d) (q : Ranges)
    (cf : CollisionFreeOn hf (fun x => x ∈ C01.trueEvals hf d ++ encEvals hf fl data ob q))
    (hok : (encodeRangesValidated hf fl data ob q).terminal = .ok) :
    ∃ plan, planOf ob q = some plan ∧ ∀ c ∈ plan, ReadTrue hf fl data ob d c := by
  rw [validated_eq_loop] at hok
  rw [encEvals_eq_loop] at cf
  cases hp : planOf ob q with
  | none => rw [hp] at hok; cases hok
  | some plan =>
    rw [hp] at hok cf
    refine ⟨plan, rfl, loop_true_loc cf (fun x hx => List.mem_append_left _ hx) hd hdata plan
      [ob.root] [] (fun x hx => List.mem_append_right _ hx) ?_ hok⟩
    intro h hh
    rw [List.mem_singleton] at hh
    subst hh
    rw [hroot]
    exact C01.TrueCvL.root hf d

end readtrue

/-- from "no collision in the list" (as a negated existential) to `CollisionFreeOn` the list -/
theorem collisionFreeOn_of_no_collision {hf : HashFns H} {l : List (HashIn H)}
    (h : ¬ ∃ x y, x ∈ l ∧ y ∈ l ∧ x ≠ y ∧ hf.eval x = hf.eval y) :
    CollisionFreeOn hf (fun x => x ∈ l) := by
  intro x y hx hy e
  apply Classical.byContradiction
  intro hne
  exact h ⟨x, y, hx, hy, hne, e⟩

end Bao.C05Loc
