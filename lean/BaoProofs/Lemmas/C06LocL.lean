import BaoProofs.Lemmas.ValidL
import BaoProofs.Lemmas.C01InvLoc

/-!
# Lemmas for C06 with LOCAL collision freedom

`Lemmas/ValidL.lean` proves `verifiable_true_bytes` (a `Verifiable` chunk group holds the bytes of
the blob whose root the store carries) under the global `CollisionFree hf`.  Here the same is proved
under `CollisionFreeOn hf S` for any set `S` that contains

* `C01.trueEvals hf d`              – the inputs evaluated by the honest hashing of the blob, and
* `verifyEvals hf fl ob data g`      – the inputs evaluated when group `g` is checked against the
  store: for every persisted node on the walk from the shifted root down to `g` the parent input
  `(lh, rh, isRoot)` of the stored pair, and the evaluation list (`hashEvals`) of the tree hash of
  the stored bytes of `g`.

`linkEvals` mirrors `ValidL.LinkedC` clause by clause (same coordinates `(k, L)`, same `if`s, same
`match` on the load), `verifyEvals` mirrors `ValidL.Verifiable`.
-/

set_option maxRecDepth 8192

namespace Bao.C06Loc
open Bao Bao.Spec Bao.Bits Bao.ValidL Bao.C01

variable {H : Type}

/-! ## the evaluation lists -/

section defs
variable (hf : HashFns H) (ld : Nat → Res IoErr (Option (H × H))) (data : List UInt8)
  (t : Tree) (F : Nat)

/-- the hash inputs evaluated on the walk from the shifted node `(k, L)` towards chunk `g.1`
(twin of `LinkedC … true`): at a persisted node whose load gives a pair `(lh, rh)` the parent input
`(lh, rh, isRoot)`, then the list of the child the walk continues with; at the bottom the
evaluation list of the tree hash of the stored bytes of the group.  A load that gives no pair ends
the walk (nothing is hashed, `LinkedC` is false). -/
def linkEvals : Nat → Nat → Bool → Nat × Nat → List (HashIn H)
  | 0, k, isRoot, g =>
    if toBytes (midOf k t.bs) < t.size then
      match ld (nodeOf k t.bs) with
      | .ok (some (lh, rh)) =>
        .parent lh rh isRoot ::
          (if g.1 < midOf k t.bs then
            hashEvals hf (startOf k t.bs)
              (bytesAt data (toBytes (startOf k t.bs)) (toBytes (midOf k t.bs))) false
          else
            hashEvals hf (midOf k t.bs)
              (bytesAt data (toBytes (midOf k t.bs)) (min (toBytes (endOf k t.bs)) t.size)) false)
      | _ => []
    else
      hashEvals hf (startOf k t.bs)
        (bytesAt data (toBytes (startOf k t.bs)) (min (toBytes (endOf k t.bs)) t.size)) isRoot
  | L + 1, k, isRoot, g =>
    if nodeOf k (L + 1) < F then
      match ld (nodeOf k (L + 1 + t.bs)) with
      | .ok (some (lh, rh)) =>
        .parent lh rh isRoot ::
          (if g.1 < midOf k (L + 1 + t.bs) then linkEvals L (2 * k) false g
          else linkEvals L (2 * k + 1) false g)
      | _ => []
    else linkEvals L (2 * k) isRoot g

end defs

/-- the hash inputs evaluated when the chunk group `g` is verified against the store `ob` and the
data file `data` (twin of `Verifiable hf fl ob data true g`): a tree with a single chunk group has
no stored pairs, the first `size` bytes are hashed as the root; otherwise the walk from the shifted
root, owed `ob.root`, down to `g` -/
def verifyEvals (hf : HashFns H) (fl : Flavour) (ob : Store H) (data : List UInt8)
    (g : Nat × Nat) : List (HashIn H) :=
  if ob.tree.blocks = 1 then hashEvals hf 0 (data.take ob.tree.size) true
  else
    linkEvals hf (ob.load hf fl) data ob.tree ob.tree.shifted.2
      (Spec.levelOf ob.tree.shifted.1) (Spec.indexOf ob.tree.shifted.1) true g

/-! ## a linked group holds true blob bytes, local form -/

section truth
variable {hf : HashFns H} {ld : Nat → Res IoErr (Option (H × H))} {data d : List UInt8}
  {t : Tree} {F : Nat}

/-- twin of `ValidL.linked_trueLeaf`: if the hash owed to `(k, L)` is a chaining value of the true
tree of `d` (with the honest root flag), the stored bytes of a linked group are the bytes of a
subtree interval of `d` at the same offset.  Injectivity of `hf` is used only on `trueEvals hf d`
and on `linkEvals` of this walk. -/
theorem linked_trueLeaf_loc {S : HashIn H → Prop} (cf : CollisionFreeOn hf S)
    (hT : ∀ x ∈ trueEvals hf d, S x) (hd : d.length ≤ 2 ^ 64 * 1024) :
    ∀ (L k : Nat) (owed : H) (isRoot : Bool) (g : Nat × Nat), TrueCvL hf d owed →
      LinkedC hf ld data true t F L k owed isRoot g →
      (∀ x ∈ linkEvals hf ld data t F L k isRoot g, S x) →
      TrueLeaf d (toBytes g.1) (groupBytes data t.size g) := by
  intro L
  induction L with
  | zero =>
    intro k owed isRoot g ht h hE
    simp only [LinkedC] at h
    simp only [linkEvals] at hE
    have h := h.2
    split at h
    · rename_i hm
      rw [if_pos hm] at hE
      split at h
      · rename_i lh rh hl
        rw [hl] at hE
        simp only at hE
        obtain ⟨hp, h⟩ := h
        obtain ⟨-, hl', hr'⟩ :=
          parent_check_loc cf hT hd ht (hE _ (List.mem_cons_self ..)) hp.symm
        split at h
        · rename_i hlt
          rw [if_pos hlt] at hE
          obtain ⟨hg, hlf⟩ := h
          subst hg
          have := leaf_check_loc cf hT hd hl' (fun x hx => hE x (List.mem_cons_of_mem _ hx))
            (hlf rfl).symm
          unfold groupBytes
          simp only
          rwa [show min (toBytes (midOf k t.bs)) t.size = toBytes (midOf k t.bs) by omega]
        · rename_i hlt
          rw [if_neg hlt] at hE
          obtain ⟨hg, hlf⟩ := h
          subst hg
          have := leaf_check_loc cf hT hd hr' (fun x hx => hE x (List.mem_cons_of_mem _ hx))
            (hlf rfl).symm
          unfold groupBytes
          simp only
          rwa [min_chunksOf_hi]
      · exact h.elim
    · rename_i hm
      rw [if_neg hm] at hE
      obtain ⟨hg, hlf⟩ := h
      subst hg
      have := leaf_check_loc cf hT hd ht hE (hlf rfl).symm
      unfold groupBytes
      simp only
      rwa [min_chunksOf_hi]
  | succ L ih =>
    intro k owed isRoot g ht h hE
    simp only [LinkedC] at h
    simp only [linkEvals] at hE
    split at h
    · rename_i hF
      rw [if_pos hF] at hE
      split at h
      · rename_i lh rh hl
        rw [hl] at hE
        simp only at hE
        obtain ⟨hp, h⟩ := h
        obtain ⟨-, hl', hr'⟩ :=
          parent_check_loc cf hT hd ht (hE _ (List.mem_cons_self ..)) hp.symm
        split at h
        · rename_i hlt
          rw [if_pos hlt] at hE
          exact ih _ _ _ _ hl' h (fun x hx => hE x (List.mem_cons_of_mem _ hx))
        · rename_i hlt
          rw [if_neg hlt] at hE
          exact ih _ _ _ _ hr' h (fun x hx => hE x (List.mem_cons_of_mem _ hx))
      · exact h.elim
    · rename_i hF
      rw [if_neg hF] at hE
      exact ih _ _ _ _ ht h hE

/-- twin of `ValidL.linked_true_bytes` -/
theorem linked_true_bytes_loc {S : HashIn H → Prop} (cf : CollisionFreeOn hf S)
    (hT : ∀ x ∈ trueEvals hf d, S x) (hd : d.length ≤ 2 ^ 64 * 1024)
    (hlen : t.size ≤ data.length) (L k : Nat) (owed : H) (isRoot : Bool) (g : Nat × Nat)
    (ht : TrueCvL hf d owed) (h : LinkedC hf ld data true t F L k owed isRoot g)
    (hE : ∀ x ∈ linkEvals hf ld data t F L k isRoot g, S x) :
    groupBytes data t.size g = groupBytes d t.size g ∧
      toBytes g.1 + (groupBytes data t.size g).length ≤ d.length := by
  have hl := linked_trueLeaf_loc cf hT hd L k owed isRoot g ht h hE
  obtain ⟨-, h2, h3⟩ := hl.spec
  have hlen' : (groupBytes data t.size g).length = min (toBytes g.2) t.size - toBytes g.1 :=
    bytesAt_length (by omega)
  refine ⟨?_, h2⟩
  rw [hlen'] at h3
  exact h3

end truth

/-! ## the whole tree -/

section whole
variable {hf : HashFns H} {fl : Flavour} {ob : Store H} {data d : List UInt8}

/-- twin of `ValidL.verifiable_true_bytes`: a verifiable group holds true blob bytes, provided `hf`
has no collision on a set containing `trueEvals hf d` and `verifyEvals hf fl ob data g` -/
theorem verifiable_true_bytes_loc {S : HashIn H → Prop} (cf : CollisionFreeOn hf S)
    (hT : ∀ x ∈ trueEvals hf d, S x) {g : Nat × Nat}
    (hV : ∀ x ∈ verifyEvals hf fl ob data g, S x) (hd : d.length ≤ 2 ^ 64 * 1024)
    (hroot : ob.root = Spec.root hf d) (hlen : ob.tree.size ≤ data.length)
    (h : Verifiable hf fl ob data true g) :
    groupBytes data ob.tree.size g = groupBytes d ob.tree.size g ∧
      toBytes g.1 + (groupBytes data ob.tree.size g).length ≤ d.length := by
  unfold Verifiable at h
  unfold verifyEvals at hV
  split at h
  · rename_i hb
    rw [if_pos hb] at hV
    obtain ⟨rfl, h⟩ := h
    have h := h rfl
    rw [hroot] at h
    unfold Spec.root Spec.cv at h
    rw [slice_full] at h
    obtain ⟨-, hb, -⟩ := cv_inj_on' cf hV (fun x hx => hT x (by rw [trueEvals_eq]; exact hx)) h
    have hc : ob.tree.size ≤ toBytes ob.tree.chunks := by
      unfold Tree.chunks chunksOf toBytes; split <;> omega
    have hlen' : d.length = ob.tree.size := by
      rw [← hb, List.length_take]; omega
    have e1 : groupBytes data ob.tree.size (0, ob.tree.chunks) = d := by
      rw [← hb]
      simp only [groupBytes, bytesAt, toBytes, Nat.zero_mul, List.drop_zero, Nat.sub_zero]
      rw [show min (ob.tree.chunks * 1024) ob.tree.size = ob.tree.size by
        unfold toBytes at hc; omega]
    have e2 : groupBytes d ob.tree.size (0, ob.tree.chunks) = d := by
      simp only [groupBytes, bytesAt, toBytes, Nat.zero_mul, List.drop_zero, Nat.sub_zero]
      rw [show min (ob.tree.chunks * 1024) ob.tree.size = d.length by
        unfold toBytes at hc; omega]
      exact List.take_length
    rw [e1, e2]
    exact ⟨rfl, by simp [toBytes]⟩
  · rename_i hb
    rw [if_neg hb] at hV
    exact linked_true_bytes_loc cf hT hd hlen _ _ _ _ _ (hroot ▸ TrueCvL.root hf d) h hV

end whole

/-! ## the inputs evaluated by a whole run of the data validator

`recEvals` / `validEvals` are computable twins of `validateRec … true` / `validRanges`: every parent
input of a stored pair the run loads and checks (whether or not the check passes), and the
evaluation list of every `hash_subtree` call of `yield_if_valid`; the right-hand run of an
`andThen` contributes only if the left-hand run ended without error, as in the code. -/

/-- inputs evaluated by the `yield_range` closure of the data validator -/
def yieldEvals (hf : HashFns H) (data : List UInt8) (s e : Nat) (root : Bool) : List (HashIn H) :=
  match readExactAt data s (e - s) with
  | .error _ => []
  | .ok tmp => hashEvals hf (fullChunksOf s) tmp root

/-- inputs evaluated by `RecursiveDataValidator::validate_rec` -/
def recEvals (hf : HashFns H) [BEq H] (fl : Flavour) (ob : Store H) (data : List UInt8)
    (filled : Nat) : Nat → H → Nat → Bool → Ranges → List (HashIn H)
  | 0, _, _, _, _ => []
  | fuel + 1, parentHash, shifted, isRoot, ranges =>
    if ranges.isEmpty then []
    else
      let node := Node.subBs shifted ob.tree.bs
      let lmr := ob.tree.leafByteRanges3 node
      if !ob.tree.isRelevant node then yieldEvals hf data lmr.1 lmr.2.2 isRoot
      else
        match ob.load hf fl node with
        | .ok (some (lh, rh)) =>
          .parent lh rh isRoot ::
            (if hf.parentCv lh rh isRoot != parentHash then []
            else
              let sp := Ranges.splitNode ranges node
              if Node.isLeaf shifted then
                (if !sp.1.isEmpty then yieldEvals hf data lmr.1 lmr.2.1 false else []) ++
                  (if (if !sp.1.isEmpty then yieldRange hf true data lmr.1 lmr.2.1 lh false
                        else ⟨[], .ok⟩).terminal = .ok then
                    (if !sp.2.isEmpty then yieldEvals hf data lmr.2.1 lmr.2.2 false else [])
                  else [])
              else
                match Node.leftChild shifted, Node.rightDescendant shifted filled with
                | some left, some right =>
                  recEvals hf fl ob data filled fuel lh left false sp.1 ++
                    (if (validateRec hf fl true ob data filled fuel lh left false sp.1).terminal
                        = .ok then
                      recEvals hf fl ob data filled fuel rh right false sp.2
                    else [])
                | _, _ => [])
        | _ => []

/-- inputs evaluated by `valid_ranges(outboard, data, ranges)` -/
def validEvals (hf : HashFns H) [BEq H] (fl : Flavour) (ob : Store H) (data : List UInt8)
    (ranges : Ranges) : List (HashIn H) :=
  if ob.tree.blocks == 1 then
    match readExactAt data 0 ob.tree.size with
    | .error _ => []
    | .ok tmp => hashEvals hf 0 tmp true
  else
    recEvals hf fl ob data ob.tree.shifted.2 65 ob.root ob.tree.shifted.1 true
      (Ranges.truncate ranges ob.tree.size)

section run
open PlanPre NodeIterL
variable [BEq H] (hf : HashFns H) (fl : Flavour) (ob : Store H) (data : List UInt8) (F : Nat)

omit [BEq H] in
theorem linkEvals_dl (ld : Nat → Res IoErr (Option (H × H))) (t : Tree) (L k : Nat) :
    linkEvals hf ld data t F L k = linkEvals hf ld data t F (dl F L k).2 (dl F L k).1 := by
  induction L generalizing k with
  | zero => simp [dl]
  | succ L ih =>
    by_cases h : nodeOf k (L + 1) < F
    · simp [dl, h]
    · simp only [dl, if_neg h]
      rw [← ih]
      funext isRoot g
      simp only [linkEvals, if_neg h]

omit [BEq H] in
theorem mem_ite_nil {α : Type} {c : Prop} [Decidable c] {a : α} {l : List α}
    (h : a ∈ if c then l else []) : c ∧ a ∈ l := by
  split at h
  · exact ⟨‹_›, h⟩
  · cases h

/-- a group yielded by the `yield_range` closure: which group, and what was hashed -/
theorem yieldRange_mem {c e : Nat} {h : H} {root : Bool} {g : Nat × Nat}
    (hg : g ∈ (yieldRange hf true data (toBytes c) e h root).yields) :
    g = (c, chunksOf e) ∧
      yieldEvals hf data (toBytes c) e root = hashEvals hf c (bytesAt data (toBytes c) e) root := by
  unfold yieldRange at hg
  unfold yieldEvals
  simp only [if_true, yieldIfValid] at hg
  cases hr : readExactAt data (toBytes c) (e - toBytes c) with
  | error err => rw [hr] at hg; cases hg
  | ok tmp =>
    rw [hr] at hg
    have ht := readExactAt_ok hr
    subst ht
    simp only [fullChunksOf_toBytes] at hg ⊢
    by_cases hq : (hashSubtree hf c (bytesAt data (toBytes c) e) root == h) = true
    · simp only [hq, if_true] at hg
      exact ⟨List.mem_singleton.1 hg, trivial⟩
    · simp only [hq, Bool.false_eq_true, if_false] at hg
      cases hg

theorem ite_yieldRange_mem {b : Bool} {c e : Nat} {h : H} {root : Bool} {g : Nat × Nat}
    (hg : g ∈ (if b then yieldRange hf true data (toBytes c) e h root else ⟨[], .ok⟩).yields) :
    g = (c, chunksOf e) ∧
      (if b then yieldEvals hf data (toBytes c) e root else []) =
        hashEvals hf c (bytesAt data (toBytes c) e) root := by
  cases b
  · cases hg
  · exact yieldRange_mem hf data hg

end run

section runrec
open PlanPre NodeIterL
variable [BEq H] [LawfulBEq H] (hf : HashFns H) (fl : Flavour) (ob : Store H) (data : List UInt8)
  (F : Nat)

omit [LawfulBEq H] in
/-- chunk-group level: what the verification of a yielded group evaluates, the run evaluates -/
theorem rec_evals_zero (geo : PlanPre.Geo ob.tree.size ob.tree.bs F) (k : Nat) (hk : nodeOf k 0 < F)
    (fuel : Nat) (owed : H) (isRoot : Bool) (rs : Ranges) (g : Nat × Nat)
    (hg : g ∈ (validateRec hf fl true ob data F (fuel + 1) owed (nodeOf k 0) isRoot rs).yields) :
    ∀ x ∈ linkEvals hf (ob.load hf fl) data ob.tree F 0 k isRoot g,
      x ∈ recEvals hf fl ob data F (fuel + 1) owed (nodeOf k 0) isRoot rs := by
  intro x hx
  have hsm := startOf_lt_midOf k ob.tree.bs
  rw [validateRec_succ] at hg
  unfold recEvals
  by_cases hrs : rs = []
  · subst hrs
    simp only [List.isEmpty_nil, if_true] at hg
    cases hg
  rw [if_neg (by simpa using hrs)] at hg ⊢
  have e1 := subBs_node geo hk
  have e2 := lbr3_node geo hk
  have e3 := isRelevant_node geo hk
  simp only [Nat.zero_add, Nat.lt_irrefl, decide_false, Bool.false_or] at e1 e2 e3
  simp only [e1, e2, e3, C18.isLeaf_spec, decide_true, if_true] at hg ⊢
  simp only [linkEvals] at hx
  by_cases hm : toBytes (midOf k ob.tree.bs) < ob.tree.size
  · simp only [hm, decide_true, Bool.not_true, Bool.false_eq_true, if_false] at hg ⊢
    rw [if_pos hm] at hx
    have hmin : min (toBytes (midOf k ob.tree.bs)) ob.tree.size = toBytes (midOf k ob.tree.bs) := by
      omega
    rw [hmin] at hg ⊢
    cases hl : ob.load hf fl (nodeOf k ob.tree.bs) with
    | err e => rw [hl] at hg; cases hg
    | panic => rw [hl] at hg; cases hg
    | ok p =>
      cases p with
      | none => rw [hl] at hg; cases hg
      | some p =>
        obtain ⟨lh, rh⟩ := p
        rw [hl] at hg hx
        simp only at hg hx ⊢
        rcases List.mem_cons.1 hx with rfl | hx
        · exact List.mem_cons_self ..
        apply List.mem_cons_of_mem
        by_cases hp : (hf.parentCv lh rh isRoot != owed) = true
        · rw [if_pos hp] at hg; cases hg
        rw [if_neg hp] at hg ⊢
        rw [andThen_yields, List.mem_append] at hg
        rw [List.mem_append]
        rcases hg with hg | hg
        · left
          obtain ⟨rfl, he⟩ := ite_yieldRange_mem hf data hg
          rw [he]
          simpa only [if_pos hsm] using hx
        · right
          obtain ⟨hok, hg⟩ := mem_ite_nil hg
          rw [if_pos hok]
          obtain ⟨rfl, he⟩ := ite_yieldRange_mem hf data hg
          rw [he]
          simpa only [if_neg (Nat.lt_irrefl _)] using hx
  · simp only [hm, decide_false, Bool.not_false, if_true] at hg ⊢
    rw [if_neg hm] at hx
    obtain ⟨-, he⟩ := yieldRange_mem hf data hg
    rw [he]
    exact hx

/-- `validate_rec` at an existing shifted node `(k, L)`: the inputs of the verification walk of
every yielded group are among the inputs the run evaluates -/
theorem rec_evals (geo : PlanPre.Geo ob.tree.size ob.tree.bs F) (n : Nat) :
    ∀ L, L ≤ n → L ≤ 63 → ∀ k, nodeOf k L < F → ∀ fuel, L < fuel → ∀ owed isRoot rs,
      ∀ g ∈ (validateRec hf fl true ob data F fuel owed (nodeOf k L) isRoot rs).yields,
        ∀ x ∈ linkEvals hf (ob.load hf fl) data ob.tree F L k isRoot g,
          x ∈ recEvals hf fl ob data F fuel owed (nodeOf k L) isRoot rs := by
  induction n with
  | zero =>
    intro L hLn _ k hk fuel hfu owed isRoot rs g hg
    obtain rfl : L = 0 := by omega
    obtain ⟨f, rfl⟩ : ∃ f, fuel = f + 1 := ⟨fuel - 1, by omega⟩
    exact rec_evals_zero hf fl ob data F geo k hk f owed isRoot rs g hg
  | succ n ih =>
    intro L hLn hL k hk fuel hfu owed isRoot rs g hg
    obtain ⟨f, rfl⟩ : ∃ f, fuel = f + 1 := ⟨fuel - 1, by omega⟩
    cases L with
    | zero => exact rec_evals_zero hf fl ob data F geo k hk f owed isRoot rs g hg
    | succ L =>
      intro x hx
      rw [validateRec_succ] at hg
      unfold recEvals
      by_cases hrs : rs = []
      · subst hrs
        simp only [List.isEmpty_nil, if_true] at hg
        cases hg
      rw [if_neg (by simpa using hrs)] at hg ⊢
      have e1 := subBs_node geo hk
      have e3 := isRelevant_node geo hk
      simp only [Nat.zero_lt_succ, decide_true, Bool.true_or] at e3
      have e4 : Node.isLeaf (nodeOf k (L + 1)) = false := by rw [C18.isLeaf_spec]; simp
      simp only [e1, e3, e4, Bool.not_true, Bool.false_eq_true, if_false] at hg ⊢
      simp only [linkEvals, if_pos hk] at hx
      cases hl : ob.load hf fl (nodeOf k (L + 1 + ob.tree.bs)) with
      | err e => rw [hl] at hg; cases hg
      | panic => rw [hl] at hg; cases hg
      | ok p =>
        cases p with
        | none => rw [hl] at hg; cases hg
        | some p =>
          obtain ⟨lh, rh⟩ := p
          rw [hl] at hg hx
          simp only at hg hx ⊢
          rcases List.mem_cons.1 hx with rfl | hx
          · exact List.mem_cons_self ..
          apply List.mem_cons_of_mem
          by_cases hp : (hf.parentCv lh rh isRoot != owed) = true
          · rw [if_pos hp] at hg; cases hg
          rw [if_neg hp] at hg ⊢
          rw [C18.leftChild_spec (by omega), rightDescendant_dl F L k (by omega) geo.odd hk]
            at hg ⊢
          simp only at hg ⊢
          have hlt := nodeOf_left_lt k L
          have hdl := dl_level_le F L (2 * k + 1)
          have hrk := dl_lt F L (2 * k + 1) (geo.right_exists hk)
          -- where the yields of the two sub-runs lie
          have sl := rec_spec hf fl true ob data F geo L L (Nat.le_refl _) (by omega) (2 * k)
            (by omega) f (by omega) lh false
            (Ranges.splitNode rs (nodeOf k (L + 1 + ob.tree.bs))).1
          rw [PlanPre.child_ls, PlanPre.child_le] at sl
          have sr := rec_spec hf fl true ob data F geo _ (dl F L (2 * k + 1)).2 (Nat.le_refl _)
            (by omega) (dl F L (2 * k + 1)).1 hrk f (by omega) rh false
            (Ranges.splitNode rs (nodeOf k (L + 1 + ob.tree.bs))).2
          rw [dl_start, PlanPre.child_rs] at sr
          rw [andThen_yields, List.mem_append] at hg
          rw [List.mem_append]
          rcases hg with hg | hg
          · left
            have hb := (sl.bound g hg).2.1
            rw [if_pos hb] at hx
            exact ih L (by omega) (by omega) (2 * k) (by omega) f (by omega) lh false _ g hg x hx
          · right
            obtain ⟨hok, hg⟩ := mem_ite_nil hg
            rw [if_pos hok]
            have hb := (sr.bound g hg).1
            rw [if_neg (by omega), linkEvals_dl] at hx
            exact ih _ (by omega) (by omega) _ hrk f (by omega) rh false _ g hg x hx

/-- **what the verification of a reported group evaluates, the validator run evaluates** -/
theorem verifyEvals_sub_validEvals (hs : ob.tree.size ≤ 2 ^ 63) (hbs : ob.tree.bs ≤ 10)
    (q : Ranges) (g : Nat × Nat) (hg : g ∈ (validRanges hf fl ob data q).yields) :
    ∀ x ∈ verifyEvals hf fl ob data g, x ∈ validEvals hf fl ob data q := by
  intro x hx
  unfold verifyEvals at hx
  unfold validEvals
  by_cases hb : ob.tree.blocks = 1
  · have hb' : (ob.tree.blocks == 1) = true := by simpa using hb
    rw [if_pos hb] at hx
    rw [if_pos hb']
    unfold validRanges at hg
    simp only [hb', if_true] at hg
    cases hr : readExactAt data 0 ob.tree.size with
    | error e => rw [hr] at hg; cases hg
    | ok tmp =>
      have ht : tmp = data.take ob.tree.size := by
        have := readExactAt_ok (s := 0) (e := ob.tree.size) hr
        rw [this]; simp [bytesAt]
      subst ht
      exact hx
  · have hb' : (ob.tree.blocks == 1) = false := by simpa using hb
    rw [if_neg hb] at hx
    rw [hb']
    simp only [Bool.false_eq_true, if_false]
    rw [validRanges_many hf fl ob data hb] at hg
    obtain ⟨hr1, hr2, -⟩ := root_facts ob.tree hs
    obtain ⟨hc, hL⟩ := shifted_coords ob.tree hs hbs hr1
    have := rec_evals hf fl ob data ob.tree.shifted.2 (tree_geo ob.tree hs hbs)
      (Spec.levelOf ob.tree.shifted.1) (Spec.levelOf ob.tree.shifted.1) (Nat.le_refl _) hL
      (Spec.indexOf ob.tree.shifted.1) (by rw [← hc]; exact hr1) 65 (by omega) ob.root true
      (Ranges.truncate q ob.tree.size) g (by rw [← hc]; exact hg) x hx
    rwa [← hc] at this

end runrec

end Bao.C06Loc
