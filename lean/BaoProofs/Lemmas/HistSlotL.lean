import BaoProofs.Lemmas.HistLogL
import BaoProofs.Lemmas.ValidL

/-!
# The slots of the ancestors of delivered chunks hold true pairs; convergence (C07, stages B, C)

* `Holds hf d ob x` – the slot of node `x` in the store `ob` exists, lies inside the backing and
  holds `Spec.pairBytes hf d x`;
* `Table hf d bs kind P` – `P` lists the persisted nodes of `⟨d.length, bs⟩` in the order of the
  store kind: `P[i]` has slot `i`, every existing node of level `≥ bs` is in `P` and conversely
  (`table_pre`, `table_post`);
* `save_holds` – a successful save of the true pair of a persisted node makes its slot hold, and
  keeps every other holding slot;
* `evs_holds` – applying a labelled list of completed calls: the slot of every node saved in the
  list holds at the end;
* `evs_len` – the backing never grows beyond the outboard size;
* `data_eq_of_holds` – all slots hold and the backing is not longer than the outboard: the backing
  IS the outboard.
-/

set_option maxRecDepth 8192

namespace Bao.C07L
open Bao Bao.Spec Bao.C01 Bao.C07 Bao.Bits Bao.WriteAtL
open Bao.FaultL (Ev applyEv applyEvs saveOrKeep)

variable {H : Type}

/-- the slot of node `x` exists, lies inside the backing and holds the true pair of `x` -/
def Holds (hf : HashFns H) (d : List UInt8) (ob : Store H) (x : Nat) : Prop :=
  ∃ i, ob.slot x = some i ∧ i * 64 + 64 ≤ ob.data.length ∧
    blockAt ob.data i = Spec.pairBytes hf d x

/-- the persisted nodes in the order of a store kind -/
structure Table (H : Type) (d : List UInt8) (bs : Nat) (kind : StoreKind) (P : List Nat) : Prop where
  nonempty : kind ≠ .empty
  slot : ∀ (ob : Store H), ob.kind = kind → ob.tree = ⟨d.length, bs⟩ →
    ∀ i (h : i < P.length), ob.slot P[i] = some i
  mem : ∀ k L, bs ≤ L → midOf k L < nChunks d.length → nodeOf k L ∈ P
  coords : ∀ x ∈ P, ∃ k L, x = nodeOf k L ∧ L < 64 ∧ bs ≤ L ∧ midOf k L < nChunks d.length
  len : P.length = Tree.blocks ⟨d.length, bs⟩ - 1

variable {hf : HashFns H} {d : List UInt8} {bs : Nat}

theorem persistedPre_coords (hd : d.length ≤ 2 ^ 63) {x : Nat}
    (hx : x ∈ persistedPre d.length bs) :
    ∃ k L, x = nodeOf k L ∧ L < 64 ∧ bs ≤ L ∧ midOf k L < nChunks d.length := by
  have hB := Offsets.blocks_le d.length bs hd
  have hh : Tree.blocks ⟨d.length, bs⟩ - 1 < 2 ^ (63 + 1) := by omega
  rw [NodeIterL.persistedPre_eq_preD d.length bs 63 hd hh] at hx
  obtain ⟨y, hy, rfl⟩ := List.mem_map.mp hx
  have hyN := Offsets.mem_preD_lt _ _ _ _ hy
  obtain ⟨k, L, rfl⟩ := C18.coords_exist y
  have hm := (Offsets.exists_iff d.length bs k L).2 hyN
  exact ⟨k, L + bs, Offsets.up_nodeOf bs k L, level_lt_64 hd hm, by omega, hm⟩

theorem table_pre (hd : d.length ≤ 2 ^ 63) (hbs : bs ≤ 10) {kind : StoreKind}
    (hk : kind = .preIo ∨ kind = .preMem) : Table H d bs kind (persistedPre d.length bs) := by
  refine ⟨by rcases hk with h | h <;> simp [h], ?_, ?_, fun x hx => persistedPre_coords hd hx,
    (C12.pre d.length bs hd hbs).1⟩
  · intro ob hkind htree i hi
    rw [OutboardL.slot_pre (by rw [hkind]; exact hk), htree]
    exact (C12.pre d.length bs hd hbs).2 i hi
  · intro k L hL hm
    exact ValidL.mem_persistedPre d.length bs k L hd hL hm

theorem table_post (hd : d.length ≤ 2 ^ 63) (hbs : bs ≤ 10) {kind : StoreKind}
    (hk : kind = .postIo ∨ kind = .postMem) : Table H d bs kind (persistedPost d.length bs) := by
  have hperm := OutboardL.persistedPost_perm d.length bs hd
  refine ⟨by rcases hk with h | h <;> simp [h], ?_, ?_,
    fun x hx => persistedPre_coords hd (hperm.mem_iff.1 hx), (C12.post d.length bs hd hbs).1⟩
  · intro ob hkind htree i hi
    rw [OutboardL.slot_post (by rw [hkind]; exact hk), htree]
    exact (C12.post d.length bs hd hbs).2 i hi
  · intro k L hL hm
    exact hperm.mem_iff.2 (ValidL.mem_persistedPre d.length bs k L hd hL hm)

/-- the list of a non-empty store kind -/
theorem table_exists (hd : d.length ≤ 2 ^ 63) (hbs : bs ≤ 10) {kind : StoreKind}
    (hk : kind ≠ .empty) : ∃ P, Table H d bs kind P ∧
      ((kind = .preIo ∨ kind = .preMem) → P = persistedPre d.length bs) ∧
      ((kind = .postIo ∨ kind = .postMem) → P = persistedPost d.length bs) := by
  cases kind with
  | empty => exact absurd rfl hk
  | preIo => exact ⟨_, table_pre hd hbs (.inl rfl), fun _ => rfl, fun h => by simp at h⟩
  | preMem => exact ⟨_, table_pre hd hbs (.inr rfl), fun _ => rfl, fun h => by simp at h⟩
  | postIo => exact ⟨_, table_post hd hbs (.inl rfl), fun h => by simp at h, fun _ => rfl⟩
  | postMem => exact ⟨_, table_post hd hbs (.inr rfl), fun h => by simp at h, fun _ => rfl⟩

/-! ## one successful save -/

theorem save_ok_data {ob ob' : Store H} (hk : ob.kind ≠ .empty) {x j : Nat} {p : H × H}
    (hsl : ob.slot x = some j) (h : ob.save hf x p = .ok ob') :
    ob' = { ob with data := writeAt ob.data (j * 64) (hf.toBytes p.1 ++ hf.toBytes p.2) } := by
  unfold Store.save at h
  cases hkd : ob.kind with
  | empty => exact absurd hkd hk
  | preIo => simp only [hkd, hsl] at h; injection h with h; exact h.symm
  | postIo => simp only [hkd, hsl] at h; injection h with h; exact h.symm
  | preMem =>
    simp only [hkd, hsl] at h
    split at h
    · injection h with h; exact h.symm
    · cases h
  | postMem =>
    simp only [hkd, hsl] at h
    split at h
    · injection h with h; exact h.symm
    · cases h

theorem slot_congr {ob ob' : Store H} (hk : ob'.kind = ob.kind) (ht : ob'.tree = ob.tree)
    (x : Nat) : ob'.slot x = ob.slot x := by
  unfold Store.slot
  rw [hk, ht]

theorem pairBytes_nodeOf (hf : HashFns H) (d : List UInt8) {k L : Nat} (hL : L < 64) :
    Spec.pairBytes hf d (nodeOf k L)
      = hf.toBytes (Spec.pair hf d k L).1 ++ hf.toBytes (Spec.pair hf d k L).2 := by
  unfold Spec.pairBytes
  rw [indexOf_nodeOf (Nat.le_of_lt hL), levelOf_nodeOf (Nat.le_of_lt hL)]

/-- index of a persisted node -/
theorem Table.index {kind : StoreKind} {P : List Nat} (T : Table H d bs kind P) {ob : Store H}
    (hkind : ob.kind = kind) (htree : ob.tree = ⟨d.length, bs⟩) {x : Nat} (hx : x ∈ P) :
    ∃ j, ∃ h : j < P.length, P[j] = x ∧ ob.slot x = some j := by
  obtain ⟨j, hj, rfl⟩ := List.getElem_of_mem hx
  exact ⟨j, hj, rfl, T.slot ob hkind htree j hj⟩

/-- a successful save of the true pair of the persisted node `(k, L)`: kind, tree kept; the slot
of `(k, L)` holds; every persisted node whose slot held still holds; the backing does not grow
beyond the outboard -/
theorem save_holds (hlen : ∀ h, (hf.toBytes h).length = 32) {kind : StoreKind} {P : List Nat}
    (T : Table H d bs kind P) {ob ob' : Store H} (hkind : ob.kind = kind)
    (htree : ob.tree = ⟨d.length, bs⟩) {k L : Nat} (hL : L < 64) (hb : bs ≤ L)
    (hm : midOf k L < nChunks d.length)
    (hs : ob.save hf (nodeOf k L) (Spec.pair hf d k L) = .ok ob') :
    Holds hf d ob' (nodeOf k L) ∧ (∀ x ∈ P, Holds hf d ob x → Holds hf d ob' x) ∧
      ob'.data.length ≤ max ob.data.length (P.length * 64) := by
  obtain ⟨j, hj, hPj, hsl⟩ := T.index hkind htree (T.mem k L hb hm)
  have hne : ob.kind ≠ .empty := by rw [hkind]; exact T.nonempty
  have e := save_ok_data hne hsl hs
  have hb64 : (hf.toBytes (Spec.pair hf d k L).1 ++ hf.toBytes (Spec.pair hf d k L).2).length
      = 64 := by simp [hlen]
  have hk' : ob'.kind = ob.kind := by rw [e]
  have ht' : ob'.tree = ob.tree := by rw [e]
  have hd' : ob'.data = writeAt ob.data (j * 64)
      (hf.toBytes (Spec.pair hf d k L).1 ++ hf.toBytes (Spec.pair hf d k L).2) := by rw [e]
  have hl' : ob'.data.length = max ob.data.length (j * 64 + 64) := by
    rw [hd', length_writeAt, hb64]
  refine ⟨⟨j, by rw [slot_congr hk' ht', hsl], by omega, ?_⟩, ?_, by omega⟩
  · rw [hd', blockAt_writeAt_self _ _ _ hb64, pairBytes_nodeOf hf d hL]
  · intro x hx ⟨i, hi1, hi2, hi3⟩
    refine ⟨i, by rw [slot_congr hk' ht', hi1], by omega, ?_⟩
    by_cases hij : i = j
    · subst hij
      obtain ⟨i', hi', hPi', hsl'⟩ := T.index hkind htree hx
      rw [hi1] at hsl'
      injection hsl' with hsl'
      subst hsl'
      have : x = nodeOf k L := by rw [← hPi', hPj]
      rw [this, hd', blockAt_writeAt_self _ _ _ hb64, pairBytes_nodeOf hf d hL]
    · rw [hd', blockAt_writeAt_ne _ _ _ _ hb64 hij hi2, hi3]

/-! ## a labelled list of completed calls -/

/-- the slots of the nodes saved in `pre` hold -/
def HInv (hf : HashFns H) (d : List UInt8) (bs : Nat) (pre : List (Ev H)) (ob : Store H) : Prop :=
  ∀ k L, L < 64 → bs ≤ L → midOf k L < nChunks d.length → sEv hf d k L ∈ pre →
    Holds hf d ob (nodeOf k L)

theorem evs_holds (hlen : ∀ h, (hf.toBytes h).length = 32) {kind : StoreKind} {P : List Nat}
    (T : Table H d bs kind P) :
    ∀ (es : List (Ev H)) (sink : Sink H) (pre : List (Ev H)), sink.ob.kind = kind →
      sink.ob.tree = ⟨d.length, bs⟩ → EvsOk hf sink es → Trace (EG hf d bs) pre es →
      HInv hf d bs pre sink.ob →
      HInv hf d bs (es.reverse ++ pre) (applyEvs hf sink es).ob ∧
      (applyEvs hf sink es).ob.data.length ≤ max sink.ob.data.length (P.length * 64) := by
  intro es
  induction es with
  | nil => intro sink pre _ _ _ _ h; exact ⟨h, by simp only [FaultL.applyEvs_nil]; omega⟩
  | cons e es ih =>
    intro sink pre hkind htree hok htr hinv
    rw [FaultL.applyEvs_cons]
    cases e with
    | write off data =>
      have := ih (applyEv hf sink (.write off data)) (.write off data :: pre) hkind htree hok.2
        htr.2 (by
          intro k L h1 h2 h3 hmem
          rcases List.mem_cons.1 hmem with he | hmem
          · simp [sEv] at he
          · exact hinv k L h1 h2 h3 hmem)
      have hob : (applyEv hf sink (.write off data)).ob = sink.ob := rfl
      rw [hob] at this
      simpa only [List.reverse_cons, List.append_assoc, List.cons_append, List.nil_append]
        using this
    | save node l r =>
      obtain ⟨⟨ob', hs⟩, hok'⟩ := hok
      obtain ⟨⟨k, L, hL, hb, hm, hx⟩, htr'⟩ := htr
      simp only [sEv, Ev.save.injEq] at hx
      obtain ⟨rfl, rfl, rfl⟩ := hx
      have hs' : sink.ob.save hf (nodeOf k L) (Spec.pair hf d k L) = .ok ob' := hs
      have e : applyEv hf sink (.save (nodeOf k L) (Spec.pair hf d k L).1 (Spec.pair hf d k L).2)
          = { sink with ob := ob' } := by
        simp only [applyEv, saveOrKeep, hs]
      obtain ⟨h1, h2, h3⟩ := save_holds hlen T hkind htree hL hb hm hs'
      obtain ⟨r1, r2, r3⟩ := save_root hf sink.ob ob' _ _ hs
      rw [e] at hok' ⊢
      have := ih { sink with ob := ob' } (sEv hf d k L :: pre) (r3.trans hkind) (r2.trans htree)
        hok' htr' (by
          intro k' L' g1 g2 g3 hmem
          rcases List.mem_cons.1 hmem with he | hmem
          · simp only [sEv, Ev.save.injEq] at he
            obtain ⟨rfl, rfl⟩ := C18.nodeOf_inj he.1
            exact h1
          · exact h2 _ (T.mem k' L' g2 g3) (hinv k' L' g1 g2 g3 hmem))
      refine ⟨?_, by have := this.2; simp only at this h3 ⊢; omega⟩
      have h := this.1
      simpa only [List.reverse_cons, List.append_assoc, List.cons_append, List.nil_append, sEv]
        using h

/-! ## all slots hold: the backing is the outboard -/

theorem data_eq_of_holds (hlen : ∀ h, (hf.toBytes h).length = 32) {kind : StoreKind}
    {P : List Nat} (T : Table H d bs kind P) {ob : Store H} (hkind : ob.kind = kind)
    (htree : ob.tree = ⟨d.length, bs⟩) (hle : ob.data.length ≤ P.length * 64)
    (hall : ∀ x ∈ P, Holds hf d ob x) : ob.data = P.flatMap (Spec.pairBytes hf d) := by
  have h64 : ∀ x ∈ P, (Spec.pairBytes hf d x).length = 64 :=
    fun x _ => OutboardL.pairBytes_length hf hlen d x
  have hblock : ∀ i (h : i < P.length),
      i * 64 + 64 ≤ ob.data.length ∧ blockAt ob.data i = Spec.pairBytes hf d P[i] := by
    intro i hi
    obtain ⟨j, hj1, hj2, hj3⟩ := hall P[i] (List.getElem_mem hi)
    rw [T.slot ob hkind htree i hi] at hj1
    injection hj1 with hj1
    subst hj1
    exact ⟨hj2, hj3⟩
  have hge : P.length * 64 ≤ ob.data.length := by
    cases hP : P.length with
    | zero => omega
    | succ m =>
      have := (hblock m (by omega)).1
      omega
  refine ext_blockAt _ _ P.length (by omega) (length_flatMap64 _ _ h64) ?_
  intro i hi
  rw [(hblock i hi).2, blockAt_flatMap _ _ h64 i hi]

/-! ## histories -/

theorem mem_writes {es : List (Ev H)} {off : Nat} {data : List UInt8} :
    (off, data) ∈ FaultL.writes es ↔ Ev.write off data ∈ es := by
  induction es with
  | nil => simp [FaultL.writes]
  | cons e es ih =>
    cases e with
    | write o b =>
      simp only [FaultL.writes, List.mem_cons, ih, Prod.mk.injEq, Ev.write.injEq]
    | save n l r =>
      simp only [FaultL.writes, List.mem_cons, ih]
      constructor
      · exact Or.inr
      · rintro (h | h)
        · cases h
        · exact h

theorem mem_saves {es : List (Ev H)} {node : Nat} {l r : H} :
    (node, l, r) ∈ FaultL.saves es ↔ Ev.save node l r ∈ es := by
  induction es with
  | nil => simp [FaultL.saves]
  | cons e es ih =>
    cases e with
    | save n a b =>
      simp only [FaultL.saves, List.mem_cons, ih, Prod.mk.injEq, Ev.save.injEq]
    | write o b =>
      simp only [FaultL.saves, List.mem_cons, ih]
      constructor
      · exact Or.inr
      · rintro (h | h)
        · cases h
        · exact h

theorem applyWrites_eq (t : List UInt8) (ws : List (Nat × List UInt8)) :
    FaultL.applyWrites t ws = C01.applyWrites t ws := rfl

theorem applySaves_eq (hf : HashFns H) (ob : Store H) (ss : List (Nat × H × H)) :
    FaultL.applySaves hf ob ss = C01.applySaves hf ob ss := rfl

/-- what `Trace (EG …)` says about a write of the list -/
theorem trace_write {es : List (Ev H)} (htr : Trace (EG hf d bs) [] es) {off : Nat}
    {data : List UInt8} (hmem : Ev.write off data ∈ es) :
    ∃ c e, Sub d c e ∧ c < e ∧ off = c * 1024 ∧ data = slice d c e ∧
      ∀ x, c ≤ x → x < e → ∀ L, bs ≤ L → midOf (x / 2 ^ (L + 1)) L < nChunks d.length →
        sEv hf d (x / 2 ^ (L + 1)) L ∈ es.reverse := by
  obtain ⟨a, b, rfl⟩ := List.append_of_mem hmem
  obtain ⟨c, e, h1, h2, h3, h4, h5⟩ := Trace.split a _ b [] htr
  refine ⟨c, e, h1, h2, h3, h4, fun x hx1 hx2 L hb hm => ?_⟩
  have := h5 x hx1 hx2 L hb hm
  rw [List.append_nil] at this
  rw [List.reverse_append]
  exact List.mem_append_right _ this

/-- what `Trace (EG …)` says about a save of the list -/
theorem trace_save {es : List (Ev H)} (htr : Trace (EG hf d bs) [] es) {node : Nat} {l r : H}
    (hmem : Ev.save node l r ∈ es) :
    ∃ k L, L < 64 ∧ bs ≤ L ∧ midOf k L < nChunks d.length ∧ node = nodeOf k L ∧
      (l, r) = Spec.pair hf d k L := by
  obtain ⟨a, b, rfl⟩ := List.append_of_mem hmem
  obtain ⟨k, L, h1, h2, h3, h4⟩ := Trace.split a _ b [] htr
  simp only [sEv, Ev.save.injEq] at h4
  obtain ⟨rfl, rfl, rfl⟩ := h4
  exact ⟨k, L, h1, h2, h3, rfl, rfl⟩

theorem slice_length_le' (d : List UInt8) (c e : Nat) : (slice d c e).length ≤ (e - c) * 1024 := by
  rw [C01.slice_length]; omega

section hist
variable [BEq H] [LawfulBEq H]

omit [LawfulBEq H] in
/-- **master invariant of a labelled log** (true geometry, non-empty store kind): the slot of every
node saved in `es` holds its true pair at the end, and the backing has not grown beyond the outboard
size -/
theorem log_master (hlen : ∀ h, (hf.toBytes h).length = 32)
    (hd : d.length ≤ 2 ^ 63) (hbs : bs ≤ 10) (ops : List Op) (sink : Sink H)
    (htree : sink.ob.tree = ⟨d.length, bs⟩) (hk : sink.ob.kind ≠ .empty) {es : List (Ev H)}
    (h1 : run hf ops sink = applyEvs hf sink es) (h2 : EvsOk hf sink es)
    (h3 : Trace (EG hf d bs) [] es) :
    ∃ P : List Nat, Table H d bs sink.ob.kind P ∧
      ((sink.ob.kind = .preIo ∨ sink.ob.kind = .preMem) → P = persistedPre d.length bs) ∧
      ((sink.ob.kind = .postIo ∨ sink.ob.kind = .postMem) → P = persistedPost d.length bs) ∧
      HInv hf d bs es.reverse (run hf ops sink).ob ∧
      (run hf ops sink).ob.data.length ≤ max sink.ob.data.length (P.length * 64) := by
  obtain ⟨P, T, hp1, hp2⟩ := table_exists (H := H) hd hbs hk
  obtain ⟨g1, g2⟩ := evs_holds hlen T es sink [] rfl htree h2 h3
    (fun _ _ _ _ _ h => by cases h)
  rw [List.append_nil, ← h1] at g1
  rw [← h1] at g2
  exact ⟨P, T, hp1, hp2, g1, g2⟩

end hist

/-- every save of the list succeeds when the list is applied in order -/
def SavesOk (hf : HashFns H) : Store H → List (Nat × H × H) → Prop
  | _, [] => True
  | ob, p :: ps => ∃ ob', ob.save hf p.1 p.2 = .ok ob' ∧ SavesOk hf ob' ps

theorem EvsOk.saves : ∀ (es : List (Ev H)) (sink : Sink H), EvsOk hf sink es →
    SavesOk hf sink.ob (FaultL.saves es) := by
  intro es
  induction es with
  | nil => intro _ _; trivial
  | cons e es ih =>
    intro sink h
    cases e with
    | write off data => exact ih (applyEv hf sink (.write off data)) h.2
    | save node l r =>
      obtain ⟨⟨ob', hs⟩, h2⟩ := h
      have e : applyEv hf sink (.save node l r) = { sink with ob := ob' } := by
        simp only [applyEv, saveOrKeep, hs]
      rw [e] at h2
      exact ⟨ob', hs, ih _ h2⟩

/-- the writes of a labelled list are writes of true leaves -/
theorem trace_trueLeaf {es : List (Ev H)} (htr : Trace (EG hf d bs) [] es) :
    ∀ w ∈ FaultL.writes es, TrueLeaf d w.1 w.2 := by
  intro w hw
  obtain ⟨c, e, hs, -, hoff, hdata, -⟩ := trace_write htr (mem_writes.1 hw)
  exact ⟨c, e, hs, hoff, hdata⟩

/-- a covered byte position lies in a write of the list whose chunk interval contains its chunk -/
theorem cov_chunk {es : List (Ev H)} (htr : Trace (EG hf d bs) [] es) {i : Nat}
    (hc : Cov (FaultL.writes es) i) :
    ∀ L, bs ≤ L → midOf (i / 1024 / 2 ^ (L + 1)) L < nChunks d.length →
      sEv hf d (i / 1024 / 2 ^ (L + 1)) L ∈ es.reverse := by
  obtain ⟨w, hw, h1, h2⟩ := hc
  obtain ⟨c, e, -, hce, hoff, hdata, hanc⟩ := trace_write htr (mem_writes.1 hw)
  have hl := slice_length_le' d c e
  rw [← hdata] at hl
  rw [hoff] at h1 h2
  have hx1 : c ≤ i / 1024 := by omega
  have hx2 : i / 1024 < e := by omega
  exact hanc _ hx1 hx2

end Bao.C07L
