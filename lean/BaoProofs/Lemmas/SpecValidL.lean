import BaoProofs.Props.C06
import BaoProofs.Lemmas.SpecObL
import BaoProofs.Lemmas.PlanPreRefine
import BaoProofs.Lemmas.SpecTruncL
import BaoModel.Ops3

/-!
# Lemmas for `Props/C06SpecValid.lean`: the verdict of `valid` never rejects the model

* (top)  the `let`s of `Ops.opValid` as named definitions, `opValid_eq` by `rfl`.
* A      `Store.load` = `Ops.specLoad` on persisted nodes (`load_specLoad`).
* B      `ValidL.LinkedC` = `Ops.verifiableBlock` (`linked_iff_vb`).
* C      `ValidL.Verifiable` = some chunk group with `verifiableBlock` from the top (`verifiable_iff`).
* D, E   `touchedB_iff`, `mem_wantList`, `wantList_sorted`, `eq_of_sorted_of_mem`.
* F      `noIo_full`, `mem_want_iff`, `run_eq_want` (the C06 theorems applied: run = `⟨want, ok⟩`).
* G, H   `applyCorruptionExt_len`, `intactStore_data_length`.
* I      the output line `<ranges> ok`, `verdict_want`.
* J, K   a data file that ends early: `EndSpec`, `rec_end` (new induction over `validate_rec`),
         `run_short`.
* L, M   the output line for any terminal, `verdict_short`, `verdict_run_data`.
* N      `applyCorruptionExt_td`.
-/

namespace Bao.SpecValid
open Bao Bao.Spec Bao.Ops Bao.Proto Bao.ValidL Bao.SpecIndex

/-! ## the `let`s of `opValid` as named definitions (identical source; `opValid_eq` by `rfl`) -/

/-- the store the validator runs on: the intact store with data and root replaced -/
def corrStore (kind : StoreKind) (d : List UInt8) (bs : Nat) (ob' root' : List UInt8) : Store HB :=
  let st0 := intactStore kind d bs
  { st0 with data := ob', root := root' }

/-- `run` of `opValid` -/
def validRun (fl : Flavour) (kind : StoreKind) (d : List UInt8) (bs : Nat) (ranges : List Nat)
    (d' ob' root' : List UInt8) (withData : Bool) : ValRun :=
  let st := corrStore kind d bs ob' root'
  if withData then validRanges hf fl st d' ranges else validOutboardRanges hf fl st ranges

/-- the model's output line -/
def validModelStr (run : ValRun) : String :=
  let ys := if run.yields.isEmpty then "-" else ",".intercalate (run.yields.map Proto.pair)
  let e := match run.terminal with | .ok => "ok" | .err e => s!"{ioErrStr e}@last" | .panic => "panic"
  s!"{ys} {e}"

/-- `touchedOf` of `opValid` -/
def touchedB (size bs : Nat) (ranges : List Nat) (i : Nat) : Bool :=
  let blocks := Spec.nBlocks size bs
  let n := (size + 1023) / 1024
  let g := 2 ^ bs
  let a := i * g
  let e := min ((i + 1) * g) n
  blocks == 1 || (List.range (max 1 (e - a))).any fun c => Spec.selected size ranges (a + c)

/-- `want` of `opValid` -/
def wantList (kind : StoreKind) (size bs : Nat) (ranges : List Nat) (d' ob' root' : List UInt8)
    (withData : Bool) : List (Nat × Nat) :=
  let blocks := Spec.nBlocks size bs
  let n := (size + 1023) / 1024
  let g := 2 ^ bs
  (List.range blocks).filterMap fun i =>
    let a := i * g
    let e := min ((i + 1) * g) n
    let touched := blocks == 1 || (List.range (max 1 (e - a))).any fun c => Spec.selected size ranges (a + c)
    if touched && verifiableBlock kind size bs d' ob' withData i (Spec.log2ceil 64 blocks) 0 root' true
    then some (a, e) else none

/-- `shortGroups` of `opValid` -/
def shortGroups (size bs : Nat) (ranges : List Nat) (d' : List UInt8) (withData : Bool) : List Nat :=
  let blocks := Spec.nBlocks size bs
  let g := 2 ^ bs
  if !withData then [] else
    (List.range blocks).filter fun i => touchedB size bs ranges i && min ((i + 1) * g * 1024) size > d'.length

/-- the verdict of `opValid` -/
def validVerdict (want : List (Nat × Nat)) (short : List Nat) (bs : Nat) (d' : List UInt8)
    (impl : String) : Option String :=
  let g := 2 ^ bs
  let wantS := if want.isEmpty then "-" else ",".intercalate (want.map Proto.pair)
  match impl.splitOn " " with
  | [iy, ie] =>
    if short.isEmpty then
      if ie != "ok" then some s!"validator error {ie}"
      else if iy != wantS then some s!"reported {iy}, verifiable and touched {wantS}"
      else none
    else
      let rep := if iy == "-" then [] else iy.splitOn ","
      let wantL := want.map Proto.pair
      let firstShort := short.head!
      let before := (want.filter fun (a, _) => a < firstShort * g).map Proto.pair
      if !(rep.all fun x => wantL.contains x) then
        some s!"reported {iy} with the data file cut at {d'.length}, verifiable and touched {wantS}"
      else if !(before.all fun x => rep.contains x) then
        some s!"reported {iy}, missing a verifiable group before the first short one; verifiable {wantS}"
      else if ie != "ok" && !(ie.startsWith "Io(UnexpectedEof") then some s!"validator error {ie} on a short data file"
      else none
  | _ => some "malformed"

theorem opValid_eq (a b c e f g m impl : String) (fl : Flavour) (kind : StoreKind)
    (d : List UInt8) (bs : Nat) (ranges : List Nat) (d' ob' root' : List UInt8)
    (h1 : flavour? a = some fl) (h2 : storeKind? b = some kind) (h3 : blob c = some d)
    (h4 : e.toNat? = some bs) (h5 : parseNatList f = some ranges)
    (h6 : applyCorruptionExt g d (intactStore kind d bs).data (intactStore kind d bs).root
      = some (d', ob', root')) :
    opValid [a, b, c, e, f, g, m] impl =
      { model := validModelStr (validRun fl kind d bs ranges d' ob' root' (m == "data")),
        specFail := validVerdict (wantList kind d.length bs ranges d' ob' root' (m == "data"))
          (shortGroups d.length bs ranges d' (m == "data")) bs d' impl,
        nontrivial := Spec.nBlocks d.length bs > 1 } := by
  unfold opValid
  simp only [h1, h2, h3, h4, h5, h6]
  rfl


/-! ## A. the model's `load` is the specification's `specLoad` on the nodes of the tree -/

theorem take32_take64 (l : List UInt8) : (l.take 64).take 32 = l.take 32 := by
  rw [List.take_take]; rfl

theorem take32_drop32_take64 (l : List UInt8) (a : Nat) :
    (((l.drop a).take 64).drop 32).take 32 = (l.drop (a + 32)).take 32 := by
  rw [List.drop_take, List.take_take, List.drop_drop]
  rfl

theorem level_le_64 {size k M : Nat} (hs : size ≤ 2 ^ 63) (hm : Spec.midOf k M < Spec.nChunks size) :
    M ≤ 64 := by
  have e1 : Spec.midOf k M = Spec.startOf k M + 2 ^ M := rfl
  have h1 := Offsets.nChunks_le size hs
  have h2 : 2 ^ M < 2 ^ 64 := by omega
  exact Nat.le_of_lt ((Nat.pow_lt_pow_iff_right (a := 2) (by decide)).1 h2)

/-- for a persisted node (level `≥ bs`, mid inside the blob) and a backing of the outboard size the
model's `load` (through `Tree.preOrderOffset` / `postOrderOffset`) returns what `specLoad` (through
the counting indices `Spec.preIndex` / `postIndex`) returns; it is `some _` -/
theorem load_specLoad (fl : Flavour) (kind : StoreKind) (root : HB) (size bs k M : Nat)
    (backing : List UInt8) (hs : size ≤ 2 ^ 63) (hbs : bs ≤ 10) (hM : bs ≤ M)
    (hm : Spec.midOf k M < Spec.nChunks size)
    (hdl : backing.length = Tree.outboardSize ⟨size, bs⟩) :
    ∃ p, specLoad kind size bs backing (Spec.nodeOf k M) = some p ∧
      Store.load hf fl (⟨kind, root, ⟨size, bs⟩, backing⟩ : Store HB) (Spec.nodeOf k M)
        = .ok (some p) := by
  have hL := level_le_64 hs hm
  have hx : Spec.nodeOf k M < 2 ^ 64 := by
    have h1 : Spec.nodeOf k M + 1 = Spec.midOf k M := by rw [Bits.nodeOf_succ, Bits.midOf_eq]
    have h2 := Offsets.nChunks_le size hs
    omega
  have hin : Ops.inTree size bs (Spec.nodeOf k M) = true := by
    unfold Ops.inTree
    simp only [Bits.levelOf_nodeOf hL, Bits.indexOf_nodeOf hL, hm, decide_true, Bool.true_or]
  obtain ⟨i, hi⟩ : ∃ i, idxOf kind size bs (Spec.nodeOf k M) = some i := by
    unfold idxOf
    split
    · exact postIndex_isSome size bs k M hs hL hM hm
    · exact preIndex_isSome size bs k M hs hL hM hm
  by_cases hk : kind = .empty
  · subst hk
    refine ⟨(zeros32, zeros32), rfl, ?_⟩
    exact (store_some_empty hf fl root size bs _ i backing (zeros32, zeros32) hs hbs hx hin hi).1
  · have hlt := idxOf_lt kind size bs _ i hs hbs hx hi
    have hsz : Tree.outboardSize ⟨size, bs⟩ = (Tree.blocks ⟨size, bs⟩ - 1) * 64 := rfl
    have hinb : i * 64 + 64 ≤ backing.length := by omega
    have hsl := (slot_model kind root size bs _ backing hs hbs hx hin hk).trans hi
    have hld := C12Store.load_some hf fl (s := ⟨kind, root, ⟨size, bs⟩, backing⟩) hk hsl hinb
    refine ⟨_, ?_, hld⟩
    have hidx : (if isPostKind kind then Spec.postIndex size bs (Spec.nodeOf k M)
        else Spec.preIndex size bs (Spec.nodeOf k M)) = some i := hi
    unfold specLoad
    cases kind with
    | empty => exact absurd rfl hk
    | _ =>
      simp only [hidx, Option.map_some, parsePair, WriteAtL.blockAt, take32_take64,
        take32_drop32_take64]
      rfl


/-! ## B. `LinkedC` (model side notion, shifted coordinates) = `verifiableBlock` (verdict) -/

section linked
open PlanPre

theorem vb_zero (kind : StoreKind) (size bs : Nat) (data ob : List UInt8) (wd : Bool) (i j : Nat)
    (owed : HB) (isRoot : Bool) :
    verifiableBlock kind size bs data ob wd i 0 j owed isRoot =
      if !wd then true else
        hashSubtree hf (j * 2 ^ bs) ((data.drop (j * 2 ^ bs * 1024)).take (2 ^ bs * 1024)) isRoot
          == owed := rfl

theorem vb_succ (kind : StoreKind) (size bs : Nat) (data ob : List UInt8) (wd : Bool) (i hh j : Nat)
    (owed : HB) (isRoot : Bool) :
    verifiableBlock kind size bs data ob wd i (hh + 1) j owed isRoot =
      if j * 2 ^ (hh + 1) + 2 ^ hh ≥ Spec.nBlocks size bs then
        verifiableBlock kind size bs data ob wd i hh (2 * j) owed isRoot
      else
        match specLoad kind size bs ob (Spec.nodeOf j (hh + bs)) with
        | none => false
        | some (l, r) =>
          if hf.parentCv l r isRoot != owed then false
          else if i < j * 2 ^ (hh + 1) + 2 ^ hh then
            verifiableBlock kind size bs data ob wd i hh (2 * j) l false
          else verifiableBlock kind size bs data ob wd i hh (2 * j + 1) r false := rfl

theorem take_eq_of {α : Type} (l : List α) (n1 n2 : Nat)
    (h : n1 = n2 ∨ (l.length ≤ n1 ∧ l.length ≤ n2)) : l.take n1 = l.take n2 := by
  rcases h with h | ⟨h1, h2⟩
  · rw [h]
  · rw [List.take_of_length_le h1, List.take_of_length_le h2]

/-- the data check of one block: the verdict hashes the `2^bs·1024` bytes from the block's start
(as many as the file has), the model's notion hashes the bytes up to `e`; the same bytes when the
data file is not longer than the blob -/
theorem leaf_iff (kind : StoreKind) (size bs : Nat) (data ob : List UInt8) (wd : Bool) (i j : Nat)
    (owed : HB) (isRoot : Bool) (e : Nat) (hd : data.length ≤ size)
    (he : e = toBytes ((j + 1) * 2 ^ bs) ∨
      (size ≤ toBytes ((j + 1) * 2 ^ bs) ∧ size ≤ e)) :
    verifiableBlock kind size bs data ob wd i 0 j owed isRoot = true ↔
      LeafOk hf data wd (j * 2 ^ bs) (toBytes (j * 2 ^ bs)) (min e size) owed isRoot := by
  rw [vb_zero]
  unfold LeafOk
  cases wd with
  | false => simp
  | true =>
    simp only [Bool.not_true, Bool.false_eq_true, if_false, beq_iff_eq, forall_const]
    have : bytesAt data (toBytes (j * 2 ^ bs)) (min e size)
        = (data.drop (j * 2 ^ bs * 1024)).take (2 ^ bs * 1024) := by
      unfold bytesAt toBytes
      apply take_eq_of
      rw [List.length_drop]
      unfold toBytes at he
      have hp := Nat.two_pow_pos bs
      rw [Nat.add_mul] at he
      generalize j * 2 ^ bs = a at *
      generalize 2 ^ bs = g at *
      omega
    rw [this]

variable {size bs F : Nat}

theorem inner_exists_iff (g : Geo size bs F) (k L : Nat) :
    Spec.nodeOf k (L + 1) < F ↔ Spec.midOf k (L + 1) < Tree.blocks ⟨size, bs⟩ := by
  have h1 := Offsets.nodeOf_succ_odd k L
  have h2 := g.odd
  have h3 := g.le_blocks
  have h4 := g.ge_blocks
  have e : Spec.nodeOf k (L + 1) + 1 = Spec.midOf k (L + 1) := by
    rw [Bits.nodeOf_succ, Bits.midOf_eq]
  omega

theorem midOf_unfold (k L : Nat) : k * 2 ^ (L + 1) + 2 ^ L = Spec.midOf k L := rfl

/-- the walk of the verdict over block intervals and the model's notion `LinkedC` agree on every
chunk group `i` of the interval `(k, L)` of an existing subtree -/
theorem linked_iff_vb (fl : Flavour) (kind : StoreKind) (root : HB) (data backing : List UInt8)
    (wd : Bool) (g : Geo size bs F) (hs : size ≤ 2 ^ 63) (hbs : bs ≤ 10)
    (hdl : backing.length = Tree.outboardSize ⟨size, bs⟩) (hd : data.length ≤ size) :
    ∀ (L k i : Nat) (owed : HB) (isRoot : Bool), Spec.startOf k L < F → Spec.startOf k L ≤ i →
      i < Spec.endOf k L → i < Tree.blocks ⟨size, bs⟩ →
      (LinkedC hf (Store.load hf fl (⟨kind, root, ⟨size, bs⟩, backing⟩ : Store HB)) data wd
          ⟨size, bs⟩ F L k owed isRoot (groupRange ⟨size, bs⟩ i) ↔
        verifiableBlock kind size bs data backing wd i (L + 1) k owed isRoot = true) := by
  have hp := Nat.two_pow_pos bs
  intro L
  induction L with
  | zero =>
    intro k i owed isRoot hF hlo hhi hib
    have hG := group_exists_aux size bs F g 0 k i hF hlo hhi hib
    have em := midOf_shift k 0 bs
    have es := startOf_shift k 0 bs
    have ee := endOf_shift k 0 bs
    simp only [Nat.zero_add] at em es ee
    have e0 : Spec.startOf k 0 = 2 * k := Offsets.startOf_zero k
    have e1 : Spec.midOf k 0 = 2 * k + 1 := by simp [Spec.midOf]; omega
    have e2 : Spec.endOf k 0 = 2 * k + 2 := by simp [Spec.endOf]; omega
    have e3 : Spec.nodeOf k 0 = 2 * k := Offsets.nodeOf_zero k
    rw [e0] at hF hlo es; rw [e2] at hhi ee; rw [e1] at em
    simp only [GroupC] at hG
    obtain ⟨hk0, hG⟩ := hG
    simp only [LinkedC, hk0, true_and]
    rw [vb_succ]
    simp only [Nat.zero_add, Nat.pow_zero, Nat.pow_one, ← Offsets.blocks_eq_nBlocks]
    have hmb : toBytes (Spec.midOf k bs) < size ↔ 2 * k + 1 < Tree.blocks ⟨size, bs⟩ := by
      rw [Offsets.lt_blocks_iff size bs (2 * k + 1) (by omega), em]
      unfold toBytes
      rw [Nat.pow_add, Nat.mul_assoc]
    by_cases hm : toBytes (Spec.midOf k bs) < size
    · have hmb' := hmb.1 hm
      rw [if_pos hm] at hG ⊢
      rw [if_neg (by omega)]
      obtain ⟨p, hp1, hp2⟩ := load_specLoad fl kind root size bs k bs backing hs hbs (Nat.le_refl _)
        (lt_nChunks_of_toBytes_lt hm) hdl
      obtain ⟨lh, rh⟩ := p
      simp only [hp1, hp2]
      by_cases hpc : hf.parentCv lh rh isRoot = owed
      · have hne : (hf.parentCv lh rh isRoot != owed) = false := by simp [hpc]
        simp only [hne, Bool.false_eq_true, if_false]
        refine Iff.trans (and_iff_right hpc) ?_
        by_cases hi : i = 2 * k
        · subst hi
          have hlt : (groupRange ⟨size, bs⟩ (2 * k)).1 < Spec.midOf k bs := by
            show 2 * k * 2 ^ bs < _
            rw [em]; exact (Nat.mul_lt_mul_right hp).2 (by omega)
          rw [if_pos hlt] at hG ⊢
          rw [if_pos (by omega)]
          simp only [hG, true_and]
          have := leaf_iff kind size bs data backing wd (2 * k) (2 * k) lh false
            (toBytes (Spec.midOf k bs)) hd (.inl (by rw [em]))
          rw [Nat.min_eq_left (Nat.le_of_lt hm), ← es] at this
          exact this.symm
        · have hi : i = 2 * k + 1 := by omega
          subst hi
          have hlt : ¬ (groupRange ⟨size, bs⟩ (2 * k + 1)).1 < Spec.midOf k bs := by
            show ¬ (2 * k + 1) * 2 ^ bs < _
            rw [em]; omega
          rw [if_neg hlt] at hG ⊢
          rw [if_neg (by omega)]
          simp only [hG, true_and]
          have := leaf_iff kind size bs data backing wd (2 * k + 1) (2 * k + 1) rh false
            (toBytes (Spec.endOf k bs)) hd (.inl (by rw [ee]))
          rw [← em] at this
          exact this.symm
      · have hne : (hf.parentCv lh rh isRoot != owed) = true := by simp [hpc]
        simp only [hne, if_true, Bool.false_eq_true, iff_false]
        exact fun h => hpc h.1
    · have hmb' : ¬ 2 * k + 1 < Tree.blocks ⟨size, bs⟩ := fun h => hm (hmb.2 h)
      rw [if_neg hm] at hG ⊢
      rw [if_pos (by omega)]
      have hi : i = 2 * k := by omega
      subst hi
      simp only [hG, true_and]
      have := leaf_iff kind size bs data backing wd (2 * k) (2 * k) owed isRoot
        (toBytes (Spec.endOf k bs)) hd (.inr ⟨by rw [← em]; omega, by
          have := Bits.midOf_lt_endOf k bs
          unfold toBytes at hm ⊢; omega⟩)
      rw [← es] at this
      exact this.symm
  | succ L ih =>
    intro k i owed isRoot hF hlo hhi hib
    have em := midOf_shift k (L + 1) bs
    have hex := inner_exists_iff g k L
    simp only [LinkedC]
    rw [vb_succ, midOf_unfold, ← Offsets.blocks_eq_nBlocks]
    by_cases hk : Spec.nodeOf k (L + 1) < F
    · have hmb := hex.1 hk
      rw [if_pos hk, if_neg (by omega)]
      obtain ⟨p, hp1, hp2⟩ := load_specLoad fl kind root size bs k (L + 1 + bs) backing hs hbs
        (by omega) (g.mid_lt_nChunks hk) hdl
      obtain ⟨lh, rh⟩ := p
      simp only [hp1, hp2]
      by_cases hpc : hf.parentCv lh rh isRoot = owed
      · have hne : (hf.parentCv lh rh isRoot != owed) = false := by simp [hpc]
        simp only [hne, Bool.false_eq_true, if_false]
        refine Iff.trans (and_iff_right hpc) ?_
        by_cases hi : i < Spec.midOf k (L + 1)
        · have hlt : (groupRange ⟨size, bs⟩ i).1 < Spec.midOf k (L + 1 + bs) := by
            show i * 2 ^ bs < _
            rw [em]; exact (Nat.mul_lt_mul_right hp).2 hi
          rw [if_pos hlt, if_pos hi]
          exact ih (2 * k) i lh false (by rw [Bits.startOf_left]; exact hF)
            (by rw [Bits.startOf_left]; exact hlo) (by rw [Bits.endOf_left]; exact hi) hib
        · have hlt : ¬ (groupRange ⟨size, bs⟩ i).1 < Spec.midOf k (L + 1 + bs) := by
            show ¬ i * 2 ^ bs < _
            rw [em]; intro h; exact hi ((Nat.mul_lt_mul_right hp).1 h)
          rw [if_neg hlt, if_neg hi]
          exact ih (2 * k + 1) i rh false (g.right_exists hk)
            (by rw [Bits.startOf_right]; omega) (by rw [Bits.endOf_right]; exact hhi) hib
      · have hne : (hf.parentCv lh rh isRoot != owed) = true := by simp [hpc]
        simp only [hne, if_true, Bool.false_eq_true, iff_false]
        exact fun h => hpc h.1
    · have hmb : ¬ Spec.midOf k (L + 1) < Tree.blocks ⟨size, bs⟩ := fun h => hk (hex.2 h)
      rw [if_neg hk, if_pos (by omega)]
      exact ih (2 * k) i owed isRoot (by rw [Bits.startOf_left]; exact hF)
        (by rw [Bits.startOf_left]; exact hlo) (by rw [Bits.endOf_left]; omega) hib

end linked


/-! ## C. `Verifiable` = some chunk group `i` with `verifiableBlock … i …` from the top -/

section top
open PlanPre

/-- `log2ceil` is minimal (copy of `DecodeSpec.log2ceil_min`, to avoid the import) -/
theorem log2ceil_min' (f n : Nat) : Spec.log2ceil f n = 0 ∨ 2 ^ (Spec.log2ceil f n - 1) < n := by
  induction f generalizing n with
  | zero => left; rfl
  | succ f ih =>
    unfold Spec.log2ceil
    by_cases h1 : n ≤ 1
    · left; simp [h1]
    · rw [if_neg h1]
      right
      simp only [Nat.add_sub_cancel]
      rcases ih ((n + 1) / 2) with h0 | h0
      · rw [h0]; simp; omega
      · generalize Spec.log2ceil f ((n + 1) / 2) = l at h0 ⊢
        cases l with
        | zero => simp at h0 ⊢; omega
        | succ l => simp only [Nat.add_sub_cancel] at h0; rw [Nat.pow_succ]; omega

/-- the height at which the verdict starts: one above the shifted root level -/
theorem log2ceil_blocks (size bs : Nat) (hs : size ≤ 2 ^ 63) (hb : Tree.blocks ⟨size, bs⟩ ≠ 1) :
    Spec.log2ceil 64 (Spec.nBlocks size bs) = rootLevel ⟨size, bs⟩ + 1 := by
  rw [← Offsets.blocks_eq_nBlocks]
  have hpos := Offsets.blocks_pos size bs
  have hle := Offsets.blocks_le size bs hs
  have h1 := Offsets.log2ceil_spec 64 (Tree.blocks ⟨size, bs⟩) (by omega)
  have h2 := log2ceil_min' 64 (Tree.blocks ⟨size, bs⟩)
  obtain ⟨h3, h4⟩ := rootLevel_char size bs hs
  generalize Spec.log2ceil 64 (Tree.blocks ⟨size, bs⟩) = a at *
  generalize rootLevel ⟨size, bs⟩ = r at *
  generalize Tree.blocks ⟨size, bs⟩ = n at *
  have ha : a ≠ 0 := by
    rintro rfl; simp at h1; omega
  rcases h2 with h2 | h2
  · exact absurd h2 ha
  have hle : a - 1 < r + 1 :=
    (Nat.pow_lt_pow_iff_right (a := 2) (by decide)).1 (Nat.lt_of_lt_of_le h2 h3)
  rcases h4 with h4 | h4
  · omega
  · have : r < a := (Nat.pow_lt_pow_iff_right (a := 2) (by decide)).1 (Nat.lt_of_lt_of_le h4 h1)
    omega

/-- C06's `Verifiable` (stated through the model's `load`, shifted ids, `Tree.shifted`) is the
verdict's "some chunk group `i < blocks` has range `g` and `verifiableBlock … i …` holds" -/
theorem verifiable_iff (fl : Flavour) (kind : StoreKind) (root : HB) (size bs : Nat)
    (data backing : List UInt8) (wd : Bool) (hs : size ≤ 2 ^ 63) (hbs : bs ≤ 10)
    (hdl : backing.length = Tree.outboardSize ⟨size, bs⟩) (hd : data.length ≤ size)
    (g : Nat × Nat) :
    Verifiable hf fl (⟨kind, root, ⟨size, bs⟩, backing⟩ : Store HB) data wd g ↔
      ∃ i, i < Tree.blocks ⟨size, bs⟩ ∧ g = groupRange ⟨size, bs⟩ i ∧
        verifiableBlock kind size bs data backing wd i (Spec.log2ceil 64 (Spec.nBlocks size bs)) 0
          root true = true := by
  have hp := Nat.two_pow_pos bs
  by_cases hb : Tree.blocks ⟨size, bs⟩ = 1
  · have hnb : Spec.nBlocks size bs = 1 := by rw [← Offsets.blocks_eq_nBlocks]; exact hb
    have h0 : Spec.log2ceil 64 1 = 0 := rfl
    have hsmall : size ≤ toBytes ((0 + 1) * 2 ^ bs) := by
      have := mt (Offsets.lt_blocks_iff size bs 1 (by omega)).2 (by omega)
      rw [Nat.pow_add] at this
      unfold toBytes; omega
    have hc : chunksOf size ≤ 2 ^ bs := by
      have := chunksOf_mono hsmall
      rwa [chunksOf_toBytes, Nat.zero_add, Nat.one_mul] at this
    have hg0 : groupRange ⟨size, bs⟩ 0 = (0, Tree.chunks ⟨size, bs⟩) := by
      unfold groupRange Tree.chunks
      simp only [Nat.zero_mul, Nat.zero_add, Nat.one_mul]
      rw [Nat.min_eq_right hc]
    have hleaf := leaf_iff kind size bs data backing wd 0 0 root true size hd
      (.inr ⟨hsmall, Nat.le_refl _⟩)
    have hbytes : bytesAt data (toBytes (0 * 2 ^ bs)) (min size size) = data.take size := by
      simp [bytesAt, toBytes]
    unfold LeafOk at hleaf
    rw [hbytes, Nat.zero_mul] at hleaf
    unfold Verifiable
    simp only [hb, if_true, hnb, h0]
    constructor
    · rintro ⟨rfl, hh⟩
      exact ⟨0, by omega, hg0.symm, hleaf.2 hh⟩
    · rintro ⟨i, hi, rfl, hv⟩
      obtain rfl : i = 0 := by omega
      exact ⟨hg0, hleaf.1 hv⟩
  · have geo := tree_geo ⟨size, bs⟩ hs hbs
    obtain ⟨hr1, -, hr3⟩ := root_facts ⟨size, bs⟩ hs
    obtain ⟨h, hh, e, _, hbl⟩ := shifted_root size bs hs
    have hL : rootLevel ⟨size, bs⟩ = h := by
      unfold rootLevel; rw [e, Bits.levelOf_nodeOf (by omega)]
    have h0 : Spec.startOf 0 (rootLevel ⟨size, bs⟩) < (Tree.shifted ⟨size, bs⟩).2 := by
      rw [startOf_zero_left]; omega
    have key := fun i (hi : i < Tree.blocks ⟨size, bs⟩) =>
      linked_iff_vb fl kind root data backing wd geo hs hbs hdl hd (rootLevel ⟨size, bs⟩) 0 i root true
        h0 (by rw [startOf_zero_left]; omega)
        (by rw [hL, endOf_zero_left]; exact Nat.lt_of_lt_of_le hi hbl) hi
    rw [log2ceil_blocks size bs hs hb]
    constructor
    · intro hv
      obtain ⟨i, hi, rfl⟩ := (group_iff_top ⟨size, bs⟩ hs hbs g).1 (Verifiable.group hb hv)
      refine ⟨i, hi, rfl, (key i hi).1 ?_⟩
      unfold Verifiable at hv
      rw [if_neg hb] at hv
      unfold Linked at hv
      rw [hr3, root_level] at hv
      exact hv
    · rintro ⟨i, hi, rfl, hv⟩
      unfold Verifiable
      rw [if_neg hb]
      unfold Linked
      rw [hr3, root_level]
      exact (key i hi).2 hv

end top


/-! ## D. touched -/

theorem chunksOf_eq (size : Nat) : chunksOf size = (size + 1023) / 1024 := by
  unfold chunksOf; split <;> omega

/-- the range the verdict prints for chunk group `i` is `groupRange` -/
theorem groupRange_eq (size bs i : Nat) :
    groupRange ⟨size, bs⟩ i = (i * 2 ^ bs, min ((i + 1) * 2 ^ bs) ((size + 1023) / 1024)) := by
  unfold groupRange; rw [chunksOf_eq]

/-- a chunk group of the tree is not empty (unless the tree has a single group) -/
theorem group_nonempty (size bs i : Nat) (hb : Tree.blocks ⟨size, bs⟩ ≠ 1)
    (hi : i < Tree.blocks ⟨size, bs⟩) :
    i * 2 ^ bs < min ((i + 1) * 2 ^ bs) ((size + 1023) / 1024) := by
  have hp := Nat.two_pow_pos bs
  have hsz := size_pos_of_blocks ⟨size, bs⟩ hb
  simp only at hsz
  have h1 : i * 2 ^ bs < (i + 1) * 2 ^ bs := (Nat.mul_lt_mul_right hp).2 (by omega)
  have h2 : i * 2 ^ bs * 1024 < size ∨ i = 0 := by
    by_cases h0 : i = 0
    · exact .inr h0
    · have := (Offsets.lt_blocks_iff size bs i (by omega)).1 hi
      rw [Nat.pow_add, ← Nat.mul_assoc] at this
      exact .inl this
  rcases h2 with h2 | rfl
  · generalize i * 2 ^ bs = a at *
    omega
  · omega

/-- the verdict's `touched` flag of chunk group `i` is C06's `blocks = 1 ∨ Touched` -/
theorem touchedB_iff (size bs : Nat) (q : List Nat) (i : Nat) (hi : i < Tree.blocks ⟨size, bs⟩) :
    touchedB size bs q i = true ↔
      (Tree.blocks ⟨size, bs⟩ = 1 ∨ Touched size q (groupRange ⟨size, bs⟩ i)) := by
  unfold touchedB
  simp only [← Offsets.blocks_eq_nBlocks, Bool.or_eq_true, beq_iff_eq]
  by_cases hb : Tree.blocks ⟨size, bs⟩ = 1
  · simp [hb]
  · have hne := group_nonempty size bs i hb hi
    rw [groupRange_eq]
    unfold Touched
    simp only [hb, false_or, List.any_eq_true, List.mem_range]
    rw [Nat.max_eq_right (by omega)]
    constructor
    · rintro ⟨c, hc, hsel⟩
      exact ⟨i * 2 ^ bs + c, by omega, by omega, hsel⟩
    · rintro ⟨c, h1, h2, hsel⟩
      refine ⟨c - i * 2 ^ bs, by omega, ?_⟩
      rw [show i * 2 ^ bs + (c - i * 2 ^ bs) = c by omega]
      exact hsel

/-! ## E. the list `want` -/

theorem mem_wantList (kind : StoreKind) (size bs : Nat) (q : List Nat) (d' ob' root' : List UInt8)
    (wd : Bool) (g : Nat × Nat) :
    g ∈ wantList kind size bs q d' ob' root' wd ↔
      ∃ i, i < Tree.blocks ⟨size, bs⟩ ∧ g = groupRange ⟨size, bs⟩ i ∧ touchedB size bs q i = true ∧
        verifiableBlock kind size bs d' ob' wd i (Spec.log2ceil 64 (Spec.nBlocks size bs)) 0 root' true
          = true := by
  unfold wantList
  simp only [List.mem_filterMap, List.mem_range, ← Offsets.blocks_eq_nBlocks]
  constructor
  · rintro ⟨i, hi, h⟩
    split at h
    · rename_i hc
      rw [Bool.and_eq_true] at hc
      cases h
      refine ⟨i, hi, (groupRange_eq size bs i).symm, ?_, hc.2⟩
      unfold touchedB
      simp only [← Offsets.blocks_eq_nBlocks]
      exact hc.1
    · cases h
  · rintro ⟨i, hi, rfl, ht, hv⟩
    refine ⟨i, hi, ?_⟩
    have ht' : touchedB size bs q i = true := ht
    unfold touchedB at ht'
    simp only [← Offsets.blocks_eq_nBlocks] at ht'
    rw [if_pos (by rw [Bool.and_eq_true]; exact ⟨ht', hv⟩), groupRange_eq]

theorem wantList_sorted (kind : StoreKind) (size bs : Nat) (q : List Nat) (d' ob' root' : List UInt8)
    (wd : Bool) : (wantList kind size bs q d' ob' root' wd).Pairwise (fun a b => a.1 < b.1) := by
  unfold wantList
  refine List.Pairwise.filterMap _ ?_ List.pairwise_lt_range
  intro i j hij a ha b hb
  have hp := Nat.two_pow_pos bs
  simp only at ha hb
  split at ha <;> cases ha
  split at hb <;> cases hb
  exact (Nat.mul_lt_mul_right hp).2 hij

/-- two lists sorted strictly by the first component with the same members are equal -/
theorem eq_of_sorted_of_mem : ∀ (l1 l2 : List (Nat × Nat)),
    l1.Pairwise (fun a b => a.1 < b.1) → l2.Pairwise (fun a b => a.1 < b.1) →
    (∀ g, g ∈ l1 ↔ g ∈ l2) → l1 = l2
  | [], [], _, _, _ => rfl
  | [], b :: l2, _, _, hm => absurd ((hm b).2 (List.mem_cons_self ..)) (by simp)
  | a :: l1, [], _, _, hm => absurd ((hm a).1 (List.mem_cons_self ..)) (by simp)
  | a :: l1, b :: l2, h1, h2, hm => by
    rw [List.pairwise_cons] at h1 h2
    have hab : a = b := by
      have ha := (hm a).1 (List.mem_cons_self ..)
      have hb := (hm b).2 (List.mem_cons_self ..)
      rw [List.mem_cons] at ha hb
      rcases ha with ha | ha
      · exact ha
      · rcases hb with hb | hb
        · exact hb.symm
        · have := h1.1 b hb
          have := h2.1 a ha
          omega
    subst hab
    rw [eq_of_sorted_of_mem l1 l2 h1.2 h2.2 (fun g => ?_)]
    constructor
    · intro hg
      have := (hm g).1 (List.mem_cons_of_mem _ hg)
      rw [List.mem_cons] at this
      rcases this with rfl | h
      · exact absurd (h1.1 g hg) (Nat.lt_irrefl _)
      · exact h
    · intro hg
      have := (hm g).2 (List.mem_cons_of_mem _ hg)
      rw [List.mem_cons] at this
      rcases this with rfl | h
      · exact absurd (h2.1 g hg) (Nat.lt_irrefl _)
      · exact h


/-! ## F. the run of the model: no io error, and the reports are the list `want` -/

theorem corrStore_eq (kind : StoreKind) (d : List UInt8) (bs : Nat) (ob' root' : List UInt8) :
    corrStore kind d bs ob' root' = ⟨kind, root', ⟨d.length, bs⟩, ob'⟩ := by
  unfold corrStore intactStore
  split <;> rfl

/-- a store of any of the five kinds whose backing has the outboard size: no load can fail -/
theorem noIo_full (fl : Flavour) (kind : StoreKind) (root : HB) (size bs : Nat)
    (data backing : List UInt8) (wd : Bool) (hs : size ≤ 2 ^ 63) (hbs : bs ≤ 10)
    (hdl : backing.length = Tree.outboardSize ⟨size, bs⟩) (hd : wd = true → size ≤ data.length) :
    NoIo hf fl (⟨kind, root, ⟨size, bs⟩, backing⟩ : Store HB) data wd :=
  noIo_of_load (ob := ⟨kind, root, ⟨size, bs⟩, backing⟩) hs hbs (fun k M hM hm => by
    obtain ⟨p, -, h⟩ := load_specLoad fl kind root size bs k M backing hs hbs hM hm hdl
    exact ⟨_, h⟩) hd

theorem mem_want_iff (fl : Flavour) (kind : StoreKind) (root : HB) (size bs : Nat) (q : List Nat)
    (data backing : List UInt8) (wd : Bool) (hs : size ≤ 2 ^ 63) (hbs : bs ≤ 10)
    (hdl : backing.length = Tree.outboardSize ⟨size, bs⟩) (hd : data.length ≤ size)
    (g : Nat × Nat) :
    g ∈ wantList kind size bs q data backing root wd ↔
      Verifiable hf fl (⟨kind, root, ⟨size, bs⟩, backing⟩ : Store HB) data wd g ∧
        (Tree.blocks ⟨size, bs⟩ = 1 ∨ Touched size q g) := by
  rw [mem_wantList, verifiable_iff fl kind root size bs data backing wd hs hbs hdl hd g]
  constructor
  · rintro ⟨i, hi, rfl, ht, hv⟩
    exact ⟨⟨i, hi, rfl, hv⟩, (touchedB_iff size bs q i hi).1 ht⟩
  · rintro ⟨⟨i, hi, rfl, hv⟩, ht⟩
    exact ⟨i, hi, rfl, (touchedB_iff size bs q i hi).2 ht, hv⟩

theorem valRun_ext (r : ValRun) (l : List (Nat × Nat)) (h1 : r.yields = l) (h2 : r.terminal = .ok) :
    r = ⟨l, .ok⟩ := by
  cases r; simp only at h1 h2; rw [h1, h2]

/-- COMPONENT LEVEL: the run of the model's validator on the (possibly corrupted) store ends `ok`
and reports exactly the list `want` the verdict computes, in the same order -/
theorem run_eq_want (fl : Flavour) (kind : StoreKind) (d : List UInt8) (bs : Nat) (q : List Nat)
    (d' ob' root' : List UInt8) (wd : Bool) (hs : d.length ≤ 2 ^ 63) (hbs : bs ≤ 10)
    (hq : Ranges.WF q = true) (hdl : ob'.length = Tree.outboardSize ⟨d.length, bs⟩)
    (hd1 : d'.length ≤ d.length) (hd2 : wd = true → d.length ≤ d'.length) :
    validRun fl kind d bs q d' ob' root' wd
      = ⟨wantList kind d.length bs q d' ob' root' wd, .ok⟩ := by
  unfold validRun
  rw [corrStore_eq]
  have hsort := wantList_sorted kind d.length bs q d' ob' root' wd
  cases wd with
  | true =>
    simp only [if_true]
    have hno := noIo_full fl kind root' d.length bs d' ob' true hs hbs hdl hd2
    have hex := validRanges_exact hf fl (⟨kind, root', ⟨d.length, bs⟩, ob'⟩ : Store HB) d' hs hbs q
    refine valRun_ext _ _ (eq_of_sorted_of_mem _ _ (hex.sorted.imp (fun h => h.2)) hsort
      (fun g => ?_)) (hex.ok hno)
    rw [mem_want_iff fl kind root' d.length bs q d' ob' true hs hbs hdl hd1 g]
    exact (C06.reported_iff hf fl _ d' hs hbs hno q hq g).2
  | false =>
    simp only [Bool.false_eq_true, if_false]
    have hno := noIo_full fl kind root' d.length bs [] ob' false hs hbs hdl (fun h => by cases h)
    have hex := validOutboardRanges_exact hf fl (⟨kind, root', ⟨d.length, bs⟩, ob'⟩ : Store HB) hs hbs q
    refine valRun_ext _ _ (eq_of_sorted_of_mem _ _ (hex.sorted.imp (fun h => h.2)) hsort
      (fun g => ?_)) (hex.ok hno)
    rw [mem_want_iff fl kind root' d.length bs q d' ob' false hs hbs hdl hd1 g,
      ← Verifiable_false_data hf fl _ [] d' g]
    exact ((C06.reported_iff_outboard hf fl _ hs hbs q hq g).2 hno).2


/-! ## G. the corruptions keep the length of the outboard and do not lengthen the data -/

theorem foldlM_inv {α β : Type} (P : β → Prop) (f : β → α → Option β)
    (hstep : ∀ acc c acc', f acc c = some acc' → P acc → P acc') :
    ∀ (l : List α) (init r : β), l.foldlM f init = some r → P init → P r := by
  intro l
  induction l with
  | nil =>
    intro init r h hP
    simp only [List.foldlM_nil] at h
    cases h; exact hP
  | cons a l ih =>
    intro init r h hP
    rw [List.foldlM_cons] at h
    cases hfa : f init a with
    | none => rw [hfa] at h; cases h
    | some b =>
      rw [hfa] at h
      exact ih b r h (hstep _ _ _ hfa hP)

theorem length_flip (l : List UInt8) (pos : Nat) (v : UInt8) :
    (if pos < l.length then l.set pos v else l).length = l.length := by
  split
  · rw [List.length_set]
  · rfl

theorem applyCorruption_len (spec : String) (d ob d' ob' : List UInt8)
    (h : applyCorruption spec d ob = some (d', ob')) :
    d'.length ≤ d.length ∧ ob'.length = ob.length := by
  unfold applyCorruption at h
  split at h
  · cases h; exact ⟨Nat.le_refl _, rfl⟩
  · refine foldlM_inv (fun acc : List UInt8 × List UInt8 =>
      acc.1.length ≤ d.length ∧ acc.2.length = ob.length) _ ?_ _ _ _ h ⟨Nat.le_refl _, rfl⟩
    intro acc c acc' hs hP
    simp only at hs
    split at hs
    · cases hn : (c.drop 2).toString.toNat? with
      | none => rw [hn] at hs; cases hs
      | some len =>
        rw [hn] at hs
        cases hs
        refine ⟨?_, hP.2⟩
        simp only [List.length_take]
        omega
    · split at hs
      · split at hs <;> cases hs
        · exact ⟨by simp only [length_flip]; exact hP.1, hP.2⟩
        · exact ⟨hP.1, by simp only [length_flip]; exact hP.2⟩
      · cases hs

theorem applyCorruptionExt_len (spec : String) (d ob root d' ob' root' : List UInt8)
    (h : applyCorruptionExt spec d ob root = some (d', ob', root')) :
    d'.length ≤ d.length ∧ ob'.length = ob.length := by
  unfold applyCorruptionExt at h
  split at h
  · cases h; exact ⟨Nat.le_refl _, rfl⟩
  · refine foldlM_inv (fun acc : List UInt8 × List UInt8 × List UInt8 =>
      acc.1.length ≤ d.length ∧ acc.2.1.length = ob.length) _ ?_ _ _ _ h ⟨Nat.le_refl _, rfl⟩
    intro acc c acc' hs hP
    obtain ⟨d1, ob1, root1⟩ := acc
    simp only at hs hP
    split at hs
    · cases hn : (c.drop 2).toString.toNat? with
      | none => rw [hn] at hs; cases hs
      | some len =>
        rw [hn] at hs
        cases hs
        refine ⟨?_, hP.2⟩
        simp only [List.length_take]
        omega
    · split at hs
      · split at hs
        · split at hs <;> cases hs
          · exact ⟨by simpa using hP.1, hP.2⟩
          · exact ⟨hP.1, by simpa using hP.2⟩
        · cases hs
      · split at hs
        · split at hs
          · cases hs; exact hP
          · cases hs
        · cases hc : applyCorruption c d1 ob1 with
          | none => rw [hc] at hs; cases hs
          | some p =>
            obtain ⟨d2, ob2⟩ := p
            rw [hc] at hs
            cases hs
            have := applyCorruption_len c d1 ob1 d2 ob2 hc
            exact ⟨by simp only; omega, by simp only; omega⟩


/-! ## H. the driver's intact store has a backing of the outboard size -/

theorem intactStore_data_length (kind : StoreKind) (d : List UInt8) (bs : Nat)
    (hs : d.length ≤ 2 ^ 63) (hbs : bs ≤ 10) :
    (intactStore kind d bs).data.length = Tree.outboardSize ⟨d.length, bs⟩ := by
  have hsz : Tree.outboardSize ⟨d.length, bs⟩ = (Tree.blocks ⟨d.length, bs⟩ - 1) * 64 := rfl
  unfold intactStore
  split
  · simp only
    rw [OutboardL.writer_run hf d bs hs hbs]
    exact SpecOb.postOutboard_length' hf SpecOb.hf_outLen d bs hs hbs
  · simp only
    have := SpecOb.outboard_run_pre' hf SpecOb.hf_outLen d bs hs hbs
      { kind := .preMem, root := [], tree := ⟨d.length, bs⟩,
        data := zerosN (Tree.outboardSize ⟨d.length, bs⟩) } rfl
      (.inr ⟨rfl, SpecOb.length_zerosN _⟩)
    simp only at this
    rw [this]
    exact SpecOb.preOutboard_length' hf SpecOb.hf_outLen d bs hs hbs

/-! ## I. the output line and its two tokens -/

theorem noSp_pair (p : Nat × Nat) : NoSp (Proto.pair p) := by
  unfold Proto.pair
  exact noSp_append (noSp_append (noSp_nat _) (noSp_lit ":" (by decide))) (noSp_nat _)

theorem noSp_intercalate (sep : String) (hsep : NoSp sep) :
    ∀ (l : List String), (∀ t ∈ l, NoSp t) → NoSp (sep.intercalate l)
  | [], _ => noSp_lit "" (by decide)
  | [a], h => by
    rw [String.intercalate_singleton]; exact h a (List.mem_cons_self ..)
  | a :: b :: l, h => by
    rw [String.intercalate_cons_cons]
    exact noSp_append (noSp_append (h a (List.mem_cons_self ..)) hsep)
      (noSp_intercalate sep hsep (b :: l) (fun t ht => h t (List.mem_cons_of_mem _ ht)))

/-- the first token of the output line: the reported ranges -/
def rangesStr (l : List (Nat × Nat)) : String :=
  if l.isEmpty then "-" else ",".intercalate (l.map Proto.pair)

theorem noSp_rangesStr (l : List (Nat × Nat)) : NoSp (rangesStr l) := by
  unfold rangesStr
  split
  · exact noSp_lit "-" (by decide)
  · apply noSp_intercalate "," (noSp_lit "," (by decide))
    intro t ht
    obtain ⟨p, _, rfl⟩ := List.mem_map.1 ht
    exact noSp_pair p

theorem validModelStr_ok (l : List (Nat × Nat)) :
    validModelStr ⟨l, .ok⟩ = " ".intercalate [rangesStr l, "ok"] := by
  simp only [String.intercalate_cons_cons, String.intercalate_singleton]
  rfl

theorem split_model_ok (l : List (Nat × Nat)) :
    (validModelStr ⟨l, .ok⟩).splitOn " " = [rangesStr l, "ok"] := by
  rw [validModelStr_ok]
  apply splitOn_intercalate _ (by simp)
  intro t ht
  simp only [List.mem_cons, List.not_mem_nil, or_false] at ht
  rcases ht with rfl | rfl
  · exact noSp_rangesStr l
  · exact noSp_lit "ok" (by decide)

/-- no group is short when the data file has the claimed size (or the data is not read) -/
theorem shortGroups_nil (size bs : Nat) (q : List Nat) (d' : List UInt8) (wd : Bool)
    (h : wd = true → size ≤ d'.length) : shortGroups size bs q d' wd = [] := by
  unfold shortGroups
  cases wd with
  | false => rfl
  | true =>
    have := h rfl
    simp only [Bool.not_true, Bool.false_eq_true, if_false, List.filter_eq_nil_iff,
      Bool.and_eq_true, decide_eq_true_eq, not_and]
    intro i _ _
    omega

/-- the verdict on the line `<want> ok` when no group is short -/
theorem verdict_want (want : List (Nat × Nat)) (bs : Nat) (d' : List UInt8) :
    validVerdict want [] bs d' (validModelStr ⟨want, .ok⟩) = none := by
  unfold validVerdict
  simp only [split_model_ok]
  simp [rangesStr]


/-! ## J. a data file that ends early (`Td<len>`): how a run of `validate_rec` ends

Not covered by the C06 theorems (their exactness half assumes `NoIo`, which contains
`size ≤ data.length`): if every load succeeds, a run ends `ok`, or it ends with `UnexpectedEof` at a
group `gs` that is linked (data check left out), reached by the query and whose stored bytes are
not all there – and then everything in front of `gs` has been reported. -/

section short
open PlanPre
variable {H : Type} [BEq H] [LawfulBEq H]

/-- the error of `read_exact_at` on a short file -/
def eofErr : IoErr := ⟨.unexpectedEof, false⟩

/-- the data file ends before the last stored byte of group `g` -/
def ShortG (data : List UInt8) (size : Nat) (g : Nat × Nat) : Prop :=
  data.length < min (toBytes g.2) size

/-- the end of a run: `ok`, or `UnexpectedEof` at a `Q`-group `gs` inside `[lo, hi)` with every
`P`-group in front of `gs` reported -/
def EndSpec (r : ValRun) (P Q : Nat × Nat → Prop) (lo hi : Nat) : Prop :=
  r.terminal = .ok ∨ (r.terminal = .err eofErr ∧
    ∃ gs, Q gs ∧ lo ≤ gs.1 ∧ gs.1 < hi ∧ ∀ g, P g → g.1 < gs.1 → g ∈ r.yields)

theorem EndSpec.congr {r : ValRun} {P P' Q Q' : Nat × Nat → Prop} {lo hi : Nat}
    (h : EndSpec r P Q lo hi) (hp : ∀ g, P' g → P g) (hq : ∀ g, Q g → Q' g) :
    EndSpec r P' Q' lo hi := by
  rcases h with h | ⟨h, gs, h1, h2, h3, h4⟩
  · exact .inl h
  · exact .inr ⟨h, gs, hq _ h1, h2, h3, fun g hg => h4 g (hp g hg)⟩

theorem EndSpec.mono_hi {r : ValRun} {P Q : Nat × Nat → Prop} {lo hi hi' : Nat}
    (h : EndSpec r P Q lo hi) (hh : hi ≤ hi') : EndSpec r P Q lo hi' := by
  rcases h with h | ⟨h, gs, h1, h2, h3, h4⟩
  · exact .inl h
  · exact .inr ⟨h, gs, h1, h2, by omega, h4⟩

theorem EndSpec.andThen {a : ValRun} {b : Unit → ValRun} {P P1 P2 Q Q1 Q2 : Nat × Nat → Prop}
    {lo mid hi : Nat} (ha : RunSpec a P1 lo mid) (ea : EndSpec a P1 Q1 lo mid)
    (eb : EndSpec (b ()) P2 Q2 mid hi) (hlm : lo ≤ mid) (hmh : mid ≤ hi)
    (hP : ∀ g, P g ↔ if g.1 < mid then P1 g else P2 g)
    (hQ : ∀ g, Q g ↔ if g.1 < mid then Q1 g else Q2 g) : EndSpec (a.andThen b) P Q lo hi := by
  rcases ea with ea | ⟨ea, gs, h1, h2, h3, h4⟩
  · -- the left run ended normally
    have hy := andThen_yields a b
    rw [if_pos ea] at hy
    rcases eb with eb | ⟨eb, gs, h1, h2, h3, h4⟩
    · exact .inl ((andThen_terminal a b).2 ⟨ea, eb⟩)
    · refine .inr ⟨?_, gs, ?_, by omega, h3, fun g hg hlt => ?_⟩
      · unfold ValRun.andThen; rw [ea]; exact eb
      · rw [hQ, if_neg (by omega)]; exact h1
      · rw [hy, List.mem_append]
        rw [hP] at hg
        split at hg
        · exact .inl (ha.complete ea g hg)
        · exact .inr (h4 g hg hlt)
  · -- the left run stopped
    have he : a.andThen b = a := by
      unfold ValRun.andThen; rw [ea]
    rw [he]
    refine .inr ⟨ea, gs, ?_, h2, by omega, fun g hg hlt => ?_⟩
    · rw [hQ, if_pos h3]; exact h1
    · rw [hP, if_pos (by omega)] at hg
      exact h4 g hg hlt

theorem readExactAt_err {data : List UInt8} {s e : Nat} {err : IoErr}
    (h : readExactAt data s (e - s) = .error err) : err = eofErr ∧ data.length < e := by
  unfold readExactAt at h
  split at h
  · cases h
  · split at h
    · cases h
    · cases h
      exact ⟨rfl, by omega⟩

omit [LawfulBEq H] in
/-- the `yield_range` closure: ends `ok`, or with `UnexpectedEof` because the file ends before `e` -/
theorem yieldRange_end (hf : HashFns H) (wd : Bool) (data : List UInt8) (c e : Nat) (h : H)
    (root : Bool) {lo hi : Nat} (h1 : lo ≤ c) (h2 : c < hi) :
    EndSpec (yieldRange hf wd data (toBytes c) e h root)
      (fun g => g = (c, chunksOf e) ∧ LeafOk hf data wd c (toBytes c) e h root)
      (fun g => g = (c, chunksOf e) ∧ data.length < e) lo hi := by
  unfold yieldRange
  cases wd with
  | false => exact .inl rfl
  | true =>
    simp only [if_true, yieldIfValid]
    cases hr : readExactAt data (toBytes c) (e - toBytes c) with
    | error err =>
      obtain ⟨rfl, hlt⟩ := readExactAt_err hr
      exact .inr ⟨rfl, (c, chunksOf e), ⟨rfl, hlt⟩, h1, h2,
        fun g hg hlt => absurd hlt (by rw [hg.1]; exact Nat.lt_irrefl _)⟩
    | ok tmp =>
      by_cases hq : (hashSubtree hf (fullChunksOf (toBytes c)) tmp root == h) = true
      · simp only [hq, if_true]; exact .inl rfl
      · simp only [hq, Bool.false_eq_true, if_false]; exact .inl rfl

theorem le_toBytes_chunksOf (e : Nat) : e ≤ toBytes (chunksOf e) := by
  unfold toBytes chunksOf; split <;> omega

variable (hf : HashFns H) (fl : Flavour) (wd : Bool) (ob : Store H) (data : List UInt8) (F : Nat)

/-- what is known about the group at which a run stops -/
def Stop (L k : Nat) (owed : H) (isRoot : Bool) (rs : Ranges) (g : Nat × Nat) : Prop :=
  Want hf fl false ob data F L k owed isRoot rs g ∧ ShortG data ob.tree.size g

/-! the recursion of `Want` (any `wd`) -/

omit [BEq H] [LawfulBEq H] in
theorem want_zero_full {k : Nat} (hk : Spec.nodeOf k 0 < F) {owed : H} {isRoot : Bool}
    {rs : Ranges} (hrs : rs ≠ []) (hm : toBytes (Spec.midOf k ob.tree.bs) < ob.tree.size) {lh rh : H}
    (hl : ob.load hf fl (Spec.nodeOf k ob.tree.bs) = .ok (some (lh, rh)))
    (hp : hf.parentCv lh rh isRoot = owed) (g : Nat × Nat) :
    Want hf fl wd ob data F 0 k owed isRoot rs g ↔
      if g.1 < Spec.midOf k ob.tree.bs then
        (Ranges.splitNode rs (Spec.nodeOf k ob.tree.bs)).1 ≠ [] ∧
          g = (Spec.startOf k ob.tree.bs, Spec.midOf k ob.tree.bs) ∧
          LeafOk hf data wd (Spec.startOf k ob.tree.bs) (toBytes (Spec.startOf k ob.tree.bs))
            (toBytes (Spec.midOf k ob.tree.bs)) lh false
      else
        (Ranges.splitNode rs (Spec.nodeOf k ob.tree.bs)).2 ≠ [] ∧
          g = (Spec.midOf k ob.tree.bs,
            chunksOf (min (toBytes (Spec.endOf k ob.tree.bs)) ob.tree.size)) ∧
          LeafOk hf data wd (Spec.midOf k ob.tree.bs) (toBytes (Spec.midOf k ob.tree.bs))
            (min (toBytes (Spec.endOf k ob.tree.bs)) ob.tree.size) rh false := by
  by_cases hg : g.1 < Spec.midOf k ob.tree.bs
  · simp only [Want, LinkedC, ReachC, hm, if_true, hl, hp, true_and, forall_const, hg]
    exact ⟨fun h => ⟨h.2.2, h.1.2⟩, fun h => ⟨⟨hk, h.2⟩, hrs, h.1⟩⟩
  · simp only [Want, LinkedC, ReachC, hm, if_true, hl, hp, true_and, forall_const, hg, if_false]
    exact ⟨fun h => ⟨h.2.2, h.1.2⟩, fun h => ⟨⟨hk, h.2⟩, hrs, h.1⟩⟩

omit [BEq H] [LawfulBEq H] in
theorem want_zero_half {k : Nat} (hk : Spec.nodeOf k 0 < F) {owed : H} {isRoot : Bool}
    {rs : Ranges} (hrs : rs ≠ []) (hm : ¬ toBytes (Spec.midOf k ob.tree.bs) < ob.tree.size)
    (g : Nat × Nat) :
    Want hf fl wd ob data F 0 k owed isRoot rs g ↔
      g = (Spec.startOf k ob.tree.bs,
          chunksOf (min (toBytes (Spec.endOf k ob.tree.bs)) ob.tree.size)) ∧
        LeafOk hf data wd (Spec.startOf k ob.tree.bs) (toBytes (Spec.startOf k ob.tree.bs))
          (min (toBytes (Spec.endOf k ob.tree.bs)) ob.tree.size) owed isRoot := by
  simp only [Want, LinkedC, ReachC, hm, if_false, false_implies, and_true]
  constructor
  · intro h; exact h.1.2
  · intro h; exact ⟨⟨hk, h⟩, hrs⟩

omit [BEq H] [LawfulBEq H] in
theorem want_succ {k L : Nat} (hk : Spec.nodeOf k (L + 1) < F) {owed : H} {isRoot : Bool}
    {rs : Ranges} (hrs : rs ≠ []) {lh rh : H}
    (hl : ob.load hf fl (Spec.nodeOf k (L + 1 + ob.tree.bs)) = .ok (some (lh, rh)))
    (hp : hf.parentCv lh rh isRoot = owed) (g : Nat × Nat) :
    Want hf fl wd ob data F (L + 1) k owed isRoot rs g ↔
      if g.1 < Spec.midOf k (L + 1 + ob.tree.bs) then
        Want hf fl wd ob data F L (2 * k) lh false
          (Ranges.splitNode rs (Spec.nodeOf k (L + 1 + ob.tree.bs))).1 g
      else
        Want hf fl wd ob data F (NodeIterL.dl F L (2 * k + 1)).2 (NodeIterL.dl F L (2 * k + 1)).1
          rh false (Ranges.splitNode rs (Spec.nodeOf k (L + 1 + ob.tree.bs))).2 g := by
  unfold Want
  rw [← LinkedC_dl, ← ReachC_dl]
  by_cases hg : g.1 < Spec.midOf k (L + 1 + ob.tree.bs)
  · simp only [LinkedC, ReachC, if_pos hk, hl, hp, true_and, hg, if_true]
    exact ⟨fun h => ⟨h.1, h.2.2⟩, fun h => ⟨h.1, hrs, h.2⟩⟩
  · simp only [LinkedC, ReachC, if_pos hk, hl, hp, true_and, hg, if_false]
    exact ⟨fun h => ⟨h.1, h.2.2⟩, fun h => ⟨h.1, hrs, h.2⟩⟩


/-- every load of an existing relevant node succeeds (first half of `NoIoErr`) -/
def LoadsOk : Prop :=
  ∀ x, x < F → ob.tree.isRelevant (Node.subBs x ob.tree.bs) = true →
    ∃ p, ob.load hf fl (Node.subBs x ob.tree.bs) = .ok p

omit [LawfulBEq H] in
theorem ite_yieldRange_end (c : Bool) (s e : Nat) (h : H) (root : Bool) {lo hi : Nat}
    (h1 : lo ≤ s) (h2 : s < hi) :
    EndSpec (if c then yieldRange hf wd data (toBytes s) e h root else ⟨[], .ok⟩)
      (fun g => c = true ∧ g = (s, chunksOf e) ∧ LeafOk hf data wd s (toBytes s) e h root)
      (fun g => c = true ∧ g = (s, chunksOf e) ∧ data.length < e) lo hi := by
  cases c with
  | false => exact .inl rfl
  | true =>
    rw [if_pos rfl]
    exact (yieldRange_end hf wd data s e h root h1 h2).congr (fun g hg => hg.2)
      (fun g hg => ⟨rfl, hg⟩)

omit [LawfulBEq H] in
theorem ite_yieldRange_spec' [LawfulBEq H] (c : Bool) (s e : Nat) (h : H) (root : Bool) {lo hi : Nat}
    (h1 : lo ≤ s) (h2 : s < hi) (h3 : chunksOf e ≤ hi) :
    RunSpec (if c then yieldRange hf wd data (toBytes s) e h root else ⟨[], .ok⟩)
      (fun g => c = true ∧ g = (s, chunksOf e) ∧ LeafOk hf data wd s (toBytes s) e h root) lo hi := by
  cases c with
  | false => exact RunSpec.stop _ (fun g hg => by cases hg.1)
  | true =>
    rw [if_pos rfl]
    exact (yieldRange_spec hf wd data s e h root h1 h2 h3).congr (fun g => by simp)

theorem not_isEmpty_iff (l : Ranges) : (!l.isEmpty) = true ↔ l ≠ [] := by
  cases l <;> simp

/-- chunk-group level -/
theorem rec_end_zero (g : Geo ob.tree.size ob.tree.bs F) (hld : LoadsOk hf fl ob F) (k : Nat)
    (hk : Spec.nodeOf k 0 < F) (fuel : Nat) (owed : H) (isRoot : Bool) (rs : Ranges) :
    EndSpec (validateRec hf fl wd ob data F (fuel + 1) owed (Spec.nodeOf k 0) isRoot rs)
      (Want hf fl wd ob data F 0 k owed isRoot rs) (Stop hf fl ob data F 0 k owed isRoot rs)
      (Spec.startOf k (0 + ob.tree.bs)) (Spec.endOf k (0 + ob.tree.bs)) := by
  have hsm := Bits.startOf_lt_midOf k ob.tree.bs
  have hme := Bits.midOf_lt_endOf k ob.tree.bs
  have hce := chunksOf_hi_le k ob.tree.bs ob.tree.size
  rw [validateRec_succ]
  by_cases hrs : rs = []
  · subst hrs
    exact .inl rfl
  rw [if_neg (by simpa using hrs)]
  have e1 := subBs_node g hk
  have e2 := lbr3_node g hk
  have e3 := isRelevant_node g hk
  have hrel := hld _ hk
  rw [e1] at hrel
  simp only [Nat.zero_add, Nat.lt_irrefl, decide_false, Bool.false_or] at e1 e2 e3 hrel
  simp only [e1, e2, e3, Nat.zero_add, C18.isLeaf_spec, decide_true, if_true]
  by_cases hm : toBytes (Spec.midOf k ob.tree.bs) < ob.tree.size
  · simp only [hm, decide_true, Bool.not_true, Bool.false_eq_true, if_false]
    have hmin : min (toBytes (Spec.midOf k ob.tree.bs)) ob.tree.size
        = toBytes (Spec.midOf k ob.tree.bs) := by omega
    rw [hmin]
    obtain ⟨p, hl⟩ := hrel (by rw [e3]; simpa using hm)
    rw [hl]
    cases p with
    | none => exact .inl rfl
    | some p =>
      obtain ⟨lh, rh⟩ := p
      simp only
      by_cases hp : hf.parentCv lh rh isRoot = owed
      · have : (hf.parentCv lh rh isRoot != owed) = false := by simp [hp]
        rw [if_neg (by simp [this])]
        have hsA := ite_yieldRange_spec' hf wd data
          (!(Ranges.splitNode rs (Spec.nodeOf k ob.tree.bs)).1.isEmpty) (Spec.startOf k ob.tree.bs)
          (toBytes (Spec.midOf k ob.tree.bs)) lh false (lo := Spec.startOf k ob.tree.bs)
          (hi := Spec.midOf k ob.tree.bs) (Nat.le_refl _) hsm (by rw [chunksOf_toBytes]; omega)
        have heA := ite_yieldRange_end hf wd data
          (!(Ranges.splitNode rs (Spec.nodeOf k ob.tree.bs)).1.isEmpty) (Spec.startOf k ob.tree.bs)
          (toBytes (Spec.midOf k ob.tree.bs)) lh false (lo := Spec.startOf k ob.tree.bs)
          (hi := Spec.midOf k ob.tree.bs) (Nat.le_refl _) hsm
        have heB := ite_yieldRange_end hf wd data
          (!(Ranges.splitNode rs (Spec.nodeOf k ob.tree.bs)).2.isEmpty) (Spec.midOf k ob.tree.bs)
          (min (toBytes (Spec.endOf k ob.tree.bs)) ob.tree.size) rh false
          (lo := Spec.midOf k ob.tree.bs) (hi := Spec.endOf k ob.tree.bs) (Nat.le_refl _) hme
        rw [chunksOf_toBytes] at hsA heA
        refine EndSpec.andThen hsA heA heB (by omega) (by omega) (fun gr => ?_) (fun gr => ?_)
        · rw [want_zero_full hf fl wd ob data F hk hrs hm hl hp, not_isEmpty_iff, not_isEmpty_iff]
        · unfold Stop
          rw [want_zero_full hf fl false ob data F hk hrs hm hl hp, not_isEmpty_iff,
            not_isEmpty_iff]
          unfold ShortG LeafOk
          split
          · constructor
            · rintro ⟨⟨h1, h2, -⟩, h3⟩
              subst h2
              simp only at h3
              exact ⟨h1, rfl, by omega⟩
            · rintro ⟨h1, h2, h3⟩
              subst h2
              exact ⟨⟨h1, rfl, fun h => by cases h⟩, by simp only; omega⟩
          · have hle := le_toBytes_chunksOf (min (toBytes (Spec.endOf k ob.tree.bs)) ob.tree.size)
            have hcm := chunksOf_min (Spec.endOf k ob.tree.bs) ob.tree.size
            constructor
            · rintro ⟨⟨h1, h2, -⟩, h3⟩
              subst h2
              simp only at h3
              refine ⟨h1, rfl, ?_⟩
              rw [hcm] at h3
              have hmono : toBytes (min (Spec.endOf k ob.tree.bs) (chunksOf ob.tree.size))
                  ≤ toBytes (Spec.endOf k ob.tree.bs) :=
                Nat.mul_le_mul_right 1024 (Nat.min_le_left _ _)
              omega
            · rintro ⟨h1, h2, h3⟩
              subst h2
              exact ⟨⟨h1, rfl, fun h => by cases h⟩, by simp only; omega⟩
      · have : (hf.parentCv lh rh isRoot != owed) = true := by simp [hp]
        rw [if_pos this]
        exact .inl rfl
  · simp only [hm, decide_false, Bool.not_false, if_true]
    have := yieldRange_end hf wd data (Spec.startOf k ob.tree.bs)
      (min (toBytes (Spec.endOf k ob.tree.bs)) ob.tree.size) owed isRoot
      (lo := Spec.startOf k ob.tree.bs) (hi := Spec.endOf k ob.tree.bs) (Nat.le_refl _) (by omega)
    refine this.congr (fun gr hg => ((want_zero_half hf fl wd ob data F hk hrs hm gr).1 hg))
      (fun gr hg => ?_)
    unfold Stop
    rw [want_zero_half hf fl false ob data F hk hrs hm]
    obtain ⟨h2, h3⟩ := hg
    subst h2
    have hle := le_toBytes_chunksOf (min (toBytes (Spec.endOf k ob.tree.bs)) ob.tree.size)
    exact ⟨⟨rfl, fun h => by cases h⟩, by unfold ShortG; simp only; omega⟩


/-- `validate_rec` at an existing shifted node `(k, L)` when every load succeeds: the run ends
`ok`, or with `UnexpectedEof` at a linked, reached group whose bytes are not all there, everything
in front of it reported -/
theorem rec_end (g : Geo ob.tree.size ob.tree.bs F) (hld : LoadsOk hf fl ob F) (n : Nat) :
    ∀ L, L ≤ n → L ≤ 63 → ∀ k, Spec.nodeOf k L < F → ∀ fuel, L < fuel → ∀ owed isRoot rs,
      EndSpec (validateRec hf fl wd ob data F fuel owed (Spec.nodeOf k L) isRoot rs)
        (Want hf fl wd ob data F L k owed isRoot rs) (Stop hf fl ob data F L k owed isRoot rs)
        (Spec.startOf k (L + ob.tree.bs)) (Spec.endOf k (L + ob.tree.bs)) := by
  induction n with
  | zero =>
    intro L hLn _ k hk fuel hfu owed isRoot rs
    obtain rfl : L = 0 := by omega
    obtain ⟨f, rfl⟩ : ∃ f, fuel = f + 1 := ⟨fuel - 1, by omega⟩
    exact rec_end_zero hf fl wd ob data F g hld k hk f owed isRoot rs
  | succ n ih =>
    intro L hLn hL k hk fuel hfu owed isRoot rs
    obtain ⟨f, rfl⟩ : ∃ f, fuel = f + 1 := ⟨fuel - 1, by omega⟩
    cases L with
    | zero => exact rec_end_zero hf fl wd ob data F g hld k hk f owed isRoot rs
    | succ L =>
      have hsm := Bits.startOf_lt_midOf k (L + 1 + ob.tree.bs)
      have hme := Bits.midOf_lt_endOf k (L + 1 + ob.tree.bs)
      rw [validateRec_succ]
      by_cases hrs : rs = []
      · subst hrs
        exact .inl rfl
      rw [if_neg (by simpa using hrs)]
      have e1 := subBs_node g hk
      have e3 := isRelevant_node g hk
      have hrel := hld _ hk
      rw [e1] at hrel
      simp only [Nat.zero_lt_succ, decide_true, Bool.true_or] at e3
      have e4 : Node.isLeaf (Spec.nodeOf k (L + 1)) = false := by rw [C18.isLeaf_spec]; simp
      simp only [e1, e3, e4, Bool.not_true, Bool.false_eq_true, if_false]
      obtain ⟨p, hl⟩ := hrel e3
      rw [hl]
      cases p with
      | none => exact .inl rfl
      | some p =>
        obtain ⟨lh, rh⟩ := p
        simp only
        by_cases hp : hf.parentCv lh rh isRoot = owed
        · have : (hf.parentCv lh rh isRoot != owed) = false := by simp [hp]
          rw [if_neg (by simp [this])]
          rw [C18.leftChild_spec (by omega), NodeIterL.rightDescendant_dl F L k (by omega) g.odd hk]
          simp only
          have hlt := nodeOf_left_lt k L
          have hl' := rec_spec hf fl wd ob data F g n L (by omega) (by omega) (2 * k) (by omega) f
            (by omega) lh false (Ranges.splitNode rs (Spec.nodeOf k (L + 1 + ob.tree.bs))).1
          have el' := ih L (by omega) (by omega) (2 * k) (by omega) f (by omega) lh false
            (Ranges.splitNode rs (Spec.nodeOf k (L + 1 + ob.tree.bs))).1
          rw [PlanPre.child_ls, PlanPre.child_le] at hl' el'
          have hdl := NodeIterL.dl_level_le F L (2 * k + 1)
          have er' := ih (NodeIterL.dl F L (2 * k + 1)).2 (by omega) (by omega)
            (NodeIterL.dl F L (2 * k + 1)).1 (NodeIterL.dl_lt F L (2 * k + 1) (g.right_exists hk))
            f (by omega) rh false (Ranges.splitNode rs (Spec.nodeOf k (L + 1 + ob.tree.bs))).2
          rw [dl_start, PlanPre.child_rs] at er'
          have er'' := er'.mono_hi (hi' := Spec.endOf k (L + 1 + ob.tree.bs))
            (by have := dl_end_le F ob.tree.bs L (2 * k + 1); rw [PlanPre.child_re] at this
                exact this)
          refine EndSpec.andThen hl' el' er'' (by omega) (by omega)
            (want_succ hf fl wd ob data F hk hrs hl hp) (fun gr => ?_)
          unfold Stop
          rw [want_succ hf fl false ob data F hk hrs hl hp]
          split <;> exact Iff.rfl
        · have : (hf.parentCv lh rh isRoot != owed) = true := by simp [hp]
          rw [if_pos this]
          exact .inl rfl

end short


/-! ## K. the data validator on a data file that ends early -/

section shortTop
open PlanPre

theorem mem_shortGroups (size bs : Nat) (q : List Nat) (d' : List UInt8) (i : Nat) :
    i ∈ shortGroups size bs q d' true ↔
      i < Tree.blocks ⟨size, bs⟩ ∧ touchedB size bs q i = true ∧
        d'.length < min ((i + 1) * 2 ^ bs * 1024) size := by
  unfold shortGroups
  simp only [Bool.not_true, Bool.false_eq_true, if_false, List.mem_filter, List.mem_range,
    Bool.and_eq_true, decide_eq_true_eq, ← Offsets.blocks_eq_nBlocks]

/-- the byte end of chunk group `i` as the verdict computes it -/
theorem groupRange_byte_end (size bs i : Nat) :
    min (toBytes (groupRange ⟨size, bs⟩ i).2) size = min ((i + 1) * 2 ^ bs * 1024) size := by
  rw [groupRange_eq]
  unfold toBytes
  simp only
  generalize (i + 1) * 2 ^ bs = a
  omega

/-- MODEL LEVEL, data validator, any data file not longer than the blob (in particular one cut by
`Td<len>`), any store content with a backing of the outboard size: every reported group is in
`want`; the run ends `ok` having reported all of `want`, or it ends with `UnexpectedEof` and there
is a touched group `i` whose bytes are not all there such that everything of `want` in front of
group `i` has been reported -/
theorem run_short (fl : Flavour) (kind : StoreKind) (d : List UInt8) (bs : Nat) (q : List Nat)
    (d' ob' root' : List UInt8) (hs : d.length ≤ 2 ^ 63) (hbs : bs ≤ 10)
    (hq : Ranges.WF q = true) (hdl : ob'.length = Tree.outboardSize ⟨d.length, bs⟩)
    (hd1 : d'.length ≤ d.length) :
    (∀ g ∈ (validRun fl kind d bs q d' ob' root' true).yields,
      g ∈ wantList kind d.length bs q d' ob' root' true) ∧
    (validRun fl kind d bs q d' ob' root' true).yields.Pairwise (fun a b => a.1 < b.1) ∧
    (((validRun fl kind d bs q d' ob' root' true).terminal = .ok ∧
        ∀ g ∈ wantList kind d.length bs q d' ob' root' true,
          g ∈ (validRun fl kind d bs q d' ob' root' true).yields) ∨
      ((validRun fl kind d bs q d' ob' root' true).terminal = .err eofErr ∧
        ∃ i, i ∈ shortGroups d.length bs q d' true ∧
          ∀ g ∈ wantList kind d.length bs q d' ob' root' true, g.1 < i * 2 ^ bs →
            g ∈ (validRun fl kind d bs q d' ob' root' true).yields)) := by
  unfold validRun
  rw [corrStore_eq]
  simp only [if_true]
  have hex := validRanges_exact hf fl (⟨kind, root', ⟨d.length, bs⟩, ob'⟩ : Store HB) d' hs hbs q
  have hmem := mem_want_iff fl kind root' d.length bs q d' ob' true hs hbs hdl hd1
  have hsound : ∀ g ∈ (validRanges hf fl (⟨kind, root', ⟨d.length, bs⟩, ob'⟩ : Store HB) d' q).yields,
      g ∈ wantList kind d.length bs q d' ob' root' true := fun g hg =>
    (hmem g).2 (C06.reported_sound hf fl _ d' hs hbs q hq g hg)
  have hcomplete : (validRanges hf fl (⟨kind, root', ⟨d.length, bs⟩, ob'⟩ : Store HB) d' q).terminal
      = .ok → ∀ g ∈ wantList kind d.length bs q d' ob' root' true,
        g ∈ (validRanges hf fl (⟨kind, root', ⟨d.length, bs⟩, ob'⟩ : Store HB) d' q).yields := by
    intro he g hg
    obtain ⟨hv, ht⟩ := (hmem g).1 hg
    apply hex.complete he g
    refine ⟨hv, ?_⟩
    by_cases hb : Tree.blocks ⟨d.length, bs⟩ = 1
    · exact .inl hb
    · rcases ht with ht | ht
      · exact absurd ht hb
      · exact .inr ((C06.reach_iff_touched ⟨d.length, bs⟩ hs hbs hb q hq g (hv.group hb)).2 ht)
  refine ⟨hsound, hex.sorted.imp (fun h => h.2), ?_⟩
  by_cases hb : Tree.blocks ⟨d.length, bs⟩ = 1
  · -- a single group: one read of the whole file
    by_cases hlen : d.length ≤ d'.length
    · exact .inl ⟨(validRanges_one hf fl _ d' hb q).2 hlen, hcomplete ((validRanges_one hf fl _ d' hb q).2 hlen)⟩
    · have hsmall : d.length ≤ 1 * 2 ^ bs * 1024 := by
        have := mt (Offsets.lt_blocks_iff d.length bs 1 (by omega)).2 (by omega)
        rw [Nat.pow_add] at this
        omega
      have hterm : (validRanges hf fl (⟨kind, root', ⟨d.length, bs⟩, ob'⟩ : Store HB) d' q).terminal
          = .err eofErr := by
        unfold validRanges
        have : (Tree.blocks ⟨d.length, bs⟩ == 1) = true := by simpa using hb
        simp only [this, if_true]
        cases hr : readExactAt d' 0 d.length with
        | error e =>
          have := readExactAt_err (s := 0) (e := d.length) (by rw [Nat.sub_zero]; exact hr)
          rw [this.1]
        | ok tmp =>
          unfold readExactAt at hr
          split at hr
          · omega
          · split at hr
            · omega
            · cases hr
      refine .inr ⟨hterm, 0, (mem_shortGroups _ _ _ _ _).2 ⟨by omega, ?_, by omega⟩,
        fun g _ h => absurd h (by omega)⟩
      unfold touchedB
      simp [← Offsets.blocks_eq_nBlocks, hb]
  · obtain ⟨hr1, -, hr3⟩ := root_facts ⟨d.length, bs⟩ hs
    obtain ⟨hL63, hroot, hlt⟩ := rootLevel_spec d.length bs hs
    have geo := tree_geo ⟨d.length, bs⟩ hs hbs
    have hld : LoadsOk hf fl (⟨kind, root', ⟨d.length, bs⟩, ob'⟩ : Store HB)
        (Tree.shifted ⟨d.length, bs⟩).2 :=
      (noIo_full fl kind root' d.length bs [] ob' false hs hbs hdl (fun h => by cases h)).1
    have hend := rec_end hf fl true (⟨kind, root', ⟨d.length, bs⟩, ob'⟩ : Store HB) d'
      (Tree.shifted ⟨d.length, bs⟩).2 geo hld (rootLevel ⟨d.length, bs⟩)
      (rootLevel ⟨d.length, bs⟩) (Nat.le_refl _) hL63 0 hlt 65 (by omega) root' true
      (Ranges.truncate q d.length)
    rw [← hroot] at hend
    rw [validRanges_many hf fl _ d' hb q]
    rcases hend with hok | ⟨herr, gs, ⟨⟨hlink, hreach⟩, hshort⟩, -, -, hpre⟩
    · refine .inl ⟨hok, ?_⟩
      have := hcomplete (by rw [validRanges_many hf fl _ d' hb q]; exact hok)
      rw [validRanges_many hf fl _ d' hb q] at this
      exact this
    · have hgrp : Group ⟨d.length, bs⟩ (Tree.shifted ⟨d.length, bs⟩).1 gs := by
        unfold Group
        rw [hr3, root_level]
        exact LinkedC.group _ _ _ _ _ _ _ _ _ _ _ hlink
      obtain ⟨i, hi, rfl⟩ := (group_iff_top ⟨d.length, bs⟩ hs hbs gs).1 hgrp
      have htouch : Touched d.length q (groupRange ⟨d.length, bs⟩ i) := by
        apply (C06.reach_iff_touched ⟨d.length, bs⟩ hs hbs hb q hq _ hgrp).1
        unfold Reach
        rw [hr3, root_level]
        exact hreach
      refine .inr ⟨herr, i, (mem_shortGroups _ _ _ _ _).2
        ⟨hi, (touchedB_iff d.length bs q i hi).2 (.inr htouch), ?_⟩, fun g hg hlt' => ?_⟩
      · unfold ShortG at hshort
        rw [groupRange_byte_end] at hshort
        exact hshort
      · apply hpre g ?_ (by rw [groupRange_eq]; exact hlt')
        obtain ⟨hv, ht⟩ := (hmem g).1 hg
        unfold Verifiable at hv
        rw [if_neg hb] at hv
        unfold Linked at hv
        rw [hr3, root_level] at hv
        refine ⟨hv, ?_⟩
        rcases ht with ht | ht
        · exact absurd ht hb
        · have hgg : Group ⟨d.length, bs⟩ (Tree.shifted ⟨d.length, bs⟩).1 g := by
            unfold Group
            rw [hr3, root_level]
            exact LinkedC.group _ _ _ _ _ _ _ _ _ _ _ hv
          have := (C06.reach_iff_touched ⟨d.length, bs⟩ hs hbs hb q hq g hgg).2 ht
          unfold Reach at this
          rw [hr3, root_level] at this
          exact this

end shortTop


/-! ## L. the output line for any terminal, and the verdict's branch for a short data file -/

/-- the second token of the output line -/
def termStr : ValEnd → String
  | .ok => "ok"
  | .err e => s!"{ioErrStr e}@last"
  | .panic => "panic"

theorem validModelStr_eq (r : ValRun) :
    validModelStr r = " ".intercalate [rangesStr r.yields, termStr r.terminal] := by
  simp only [String.intercalate_cons_cons, String.intercalate_singleton]
  obtain ⟨ys, t⟩ := r
  cases t <;> rfl

theorem termStr_eof : termStr (.err eofErr) = "Io(UnexpectedEof)@last" := by rfl

theorem split_model (r : ValRun) (h : NoSp (termStr r.terminal)) :
    (validModelStr r).splitOn " " = [rangesStr r.yields, termStr r.terminal] := by
  rw [validModelStr_eq]
  apply splitOn_intercalate _ (by simp)
  intro t ht
  simp only [List.mem_cons, List.not_mem_nil, or_false] at ht
  rcases ht with rfl | rfl
  · exact noSp_rangesStr _
  · exact h

theorem mem_pair_toList (p : Nat × Nat) {c : Char} (h : c ∈ (Proto.pair p).toList) :
    c = ':' ∨ c.isDigit = true := by
  have e : Proto.pair p = toString p.1 ++ ":" ++ toString p.2 := rfl
  rw [e, String.toList_append, String.toList_append, List.mem_append, List.mem_append] at h
  rcases h with (h | h) | h
  · exact .inr (SpecTrunc.isDigit_of_mem_toString _ h)
  · left
    have : (":" : String).toList = [':'] := rfl
    rw [this] at h
    simpa using h
  · exact .inr (SpecTrunc.isDigit_of_mem_toString _ h)

theorem noComma_pair (p : Nat × Nat) : ',' ∉ (Proto.pair p).toList := by
  intro h
  rcases mem_pair_toList p h with h | h
  · exact absurd h (by decide)
  · exact absurd h (by decide)

theorem colon_mem_pair (p : Nat × Nat) : ':' ∈ (Proto.pair p).toList := by
  have e : Proto.pair p = toString p.1 ++ ":" ++ toString p.2 := rfl
  rw [e, String.toList_append, String.toList_append, List.mem_append, List.mem_append]
  exact .inl (.inr (by decide))

/-- the verdict's list `rep` of reported tokens is the list of the printed ranges -/
theorem rep_eq (ys : List (Nat × Nat)) :
    (if rangesStr ys == "-" then [] else (rangesStr ys).splitOn ",") = ys.map Proto.pair := by
  cases ys with
  | nil => rfl
  | cons a l =>
    have e : rangesStr (a :: l) = ",".intercalate ((a :: l).map Proto.pair) := rfl
    have hne : (rangesStr (a :: l) == "-") = false := by
      rw [beq_eq_false_iff_ne]
      intro h
      have hm : ':' ∈ (rangesStr (a :: l)).toList := by
        rw [e, List.map_cons, SpecTrunc.toList_intercalate_cm, List.mem_append]
        exact .inl (colon_mem_pair a)
      rw [h] at hm
      exact absurd hm (by decide)
    rw [hne]
    simp only [Bool.false_eq_true, if_false]
    rw [e, SpecTrunc.splitOn_intercalate_comma _ (by simp)]
    intro t ht
    obtain ⟨p, _, rfl⟩ := List.mem_map.1 ht
    exact noComma_pair p

theorem startsWith_eof : ("Io(UnexpectedEof)@last".startsWith "Io(UnexpectedEof") = true := by
  rw [String.startsWith_string_iff]
  exact ⟨")@last".toList, by decide⟩

/-- the verdict's branch for a data file with missing bytes accepts a line whose ranges are all in
`want`, contain everything of `want` in front of the first short group, and whose terminal is `ok`
or `Io(UnexpectedEof)@last` -/
theorem verdict_short (want ys : List (Nat × Nat)) (short : List Nat) (bs : Nat) (d' : List UInt8)
    (t : ValEnd) (hshort : short ≠ []) (h1 : ∀ g ∈ ys, g ∈ want)
    (h2 : ∀ g ∈ want, g.1 < short.head! * 2 ^ bs → g ∈ ys) (ht : t = .ok ∨ t = .err eofErr) :
    validVerdict want short bs d' (validModelStr ⟨ys, t⟩) = none := by
  have hsp : NoSp (termStr t) := by
    rcases ht with rfl | rfl
    · exact noSp_lit "ok" (by decide)
    · rw [termStr_eof]; exact noSp_lit _ (by decide)
  have hA : ((ys.map Proto.pair).all fun x => (want.map Proto.pair).contains x) = true := by
    rw [List.all_eq_true]
    intro x hx
    obtain ⟨g, hg, rfl⟩ := List.mem_map.1 hx
    rw [List.contains_iff_mem]
    exact List.mem_map_of_mem (h1 g hg)
  have hB : (((want.filter fun (a, _) => a < short.head! * 2 ^ bs).map Proto.pair).all
      fun x => (ys.map Proto.pair).contains x) = true := by
    rw [List.all_eq_true]
    intro x hx
    obtain ⟨g, hg, rfl⟩ := List.mem_map.1 hx
    rw [List.mem_filter] at hg
    obtain ⟨a, b⟩ := g
    rw [List.contains_iff_mem]
    exact List.mem_map_of_mem (h2 (a, b) hg.1 (by simpa using hg.2))
  have hC : (termStr t != "ok" && !((termStr t).startsWith "Io(UnexpectedEof")) = false := by
    rcases ht with rfl | rfl
    · rfl
    · rw [termStr_eof, startsWith_eof]; rfl
  have hse : short.isEmpty = false := by
    cases short with
    | nil => exact absurd rfl hshort
    | cons _ _ => rfl
  unfold validVerdict
  simp only [split_model ⟨ys, t⟩ hsp, hse, Bool.false_eq_true, if_false, rep_eq, hA, hB, hC,
    Bool.not_true]


/-! ## M. the verdict on the model's run, any data file -/

theorem head_le_of_sorted : ∀ (l : List Nat), l.Pairwise (· < ·) → ∀ i ∈ l, l.head! ≤ i
  | [], _, _, h => by cases h
  | a :: l, hp, i, h => by
    rw [List.pairwise_cons] at hp
    rw [List.mem_cons] at h
    show a ≤ i
    rcases h with rfl | h
    · exact Nat.le_refl _
    · exact Nat.le_of_lt (hp.1 i h)

theorem shortGroups_sorted (size bs : Nat) (q : List Nat) (d' : List UInt8) (wd : Bool) :
    (shortGroups size bs q d' wd).Pairwise (· < ·) := by
  unfold shortGroups
  split
  · exact List.Pairwise.nil
  · exact List.Pairwise.filter _ List.pairwise_lt_range

/-- the verdict accepts the line the model prints for the DATA validator, whatever the state of
store and data file (data not longer than the blob) -/
theorem verdict_run_data (fl : Flavour) (kind : StoreKind) (d : List UInt8) (bs : Nat) (q : List Nat)
    (d' ob' root' : List UInt8) (hs : d.length ≤ 2 ^ 63) (hbs : bs ≤ 10)
    (hq : Ranges.WF q = true) (hdl : ob'.length = Tree.outboardSize ⟨d.length, bs⟩)
    (hd1 : d'.length ≤ d.length) :
    validVerdict (wantList kind d.length bs q d' ob' root' true)
      (shortGroups d.length bs q d' true) bs d'
      (validModelStr (validRun fl kind d bs q d' ob' root' true)) = none := by
  obtain ⟨hsound, hsorted, hcase⟩ := run_short fl kind d bs q d' ob' root' hs hbs hq hdl hd1
  by_cases hsg : shortGroups d.length bs q d' true = []
  · rcases hcase with ⟨hok, hall⟩ | ⟨-, i, hi, -⟩
    · have := valRun_ext _ _ (eq_of_sorted_of_mem _ _ hsorted
        (wantList_sorted kind d.length bs q d' ob' root' true)
        (fun g => ⟨hsound g, hall g⟩)) hok
      rw [this, hsg]
      exact verdict_want _ bs d'
    · rw [hsg] at hi; cases hi
  · have heta : validRun fl kind d bs q d' ob' root' true
        = ⟨(validRun fl kind d bs q d' ob' root' true).yields,
          (validRun fl kind d bs q d' ob' root' true).terminal⟩ := rfl
    rw [heta]
    rcases hcase with ⟨hok, hall⟩ | ⟨herr, i, hi, hpre⟩
    · exact verdict_short _ _ _ bs d' _ hsg hsound (fun g hg _ => hall g hg) (.inl hok)
    · refine verdict_short _ _ _ bs d' _ hsg hsound (fun g hg hlt => hpre g hg ?_) (.inr herr)
      have hle := head_le_of_sorted _ (shortGroups_sorted d.length bs q d' true) i hi
      have := Nat.mul_le_mul_right (2 ^ bs) hle
      omega

/-- (a) when no touched group is short the run is `⟨want, ok⟩` although the data file may be cut
behind the last touched group (`NoIo` fails there; the exactness half of C06 does not apply) -/
theorem run_eq_want_of_no_short (fl : Flavour) (kind : StoreKind) (d : List UInt8) (bs : Nat)
    (q : List Nat) (d' ob' root' : List UInt8) (hs : d.length ≤ 2 ^ 63) (hbs : bs ≤ 10)
    (hq : Ranges.WF q = true) (hdl : ob'.length = Tree.outboardSize ⟨d.length, bs⟩)
    (hd1 : d'.length ≤ d.length) (hsg : shortGroups d.length bs q d' true = []) :
    validRun fl kind d bs q d' ob' root' true
      = ⟨wantList kind d.length bs q d' ob' root' true, .ok⟩ := by
  obtain ⟨hsound, hsorted, hcase⟩ := run_short fl kind d bs q d' ob' root' hs hbs hq hdl hd1
  rcases hcase with ⟨hok, hall⟩ | ⟨-, i, hi, -⟩
  · exact valRun_ext _ _ (eq_of_sorted_of_mem _ _ hsorted
      (wantList_sorted kind d.length bs q d' ob' root' true) (fun g => ⟨hsound g, hall g⟩)) hok
  · rw [hsg] at hi; cases hi


/-! ## N. the corruption `Td<len>` parses -/

theorem drop2_td (k : String) : (("Td" ++ k).drop 2).toString = k := by
  rw [String.Slice.toString_eq]
  apply String.toList_injective
  rw [String.toList_copy_drop, String.toList_append]
  rfl

theorem startsWith_td (k : String) : ("Td" ++ k).startsWith "Td" = true := by
  rw [String.startsWith_string_iff]
  exact ⟨k.toList, by rw [String.toList_append]⟩

theorem noComma_td (len : Nat) : ',' ∉ ("Td" ++ toString len).toList := by
  rw [String.toList_append, List.mem_append]
  rintro (h | h)
  · exact absurd h (by decide)
  · exact SpecTrunc.noComma_nat len h

theorem td_ne_dash (len : Nat) : (("Td" ++ toString len) == "-") = false := by
  rw [beq_eq_false_iff_ne]
  intro h
  have : 'T' ∈ ("Td" ++ toString len).toList := by
    rw [String.toList_append, List.mem_append]; exact .inl (by decide)
  rw [h] at this
  exact absurd this (by decide)

/-- the corruption `Td<len>` cuts the data file at `len` -/
theorem applyCorruptionExt_td (len : Nat) (d ob root : List UInt8) :
    applyCorruptionExt ("Td" ++ toString len) d ob root = some (d.take len, ob, root) := by
  unfold applyCorruptionExt
  rw [td_ne_dash]
  simp only [Bool.false_eq_true, if_false]
  have hs : ("Td" ++ toString len).splitOn "," = ["Td" ++ toString len] := by
    have := SpecTrunc.splitOn_intercalate_comma ["Td" ++ toString len] (by simp) (by
      intro t ht
      rw [List.mem_singleton] at ht
      rw [ht]; exact noComma_td len)
    rwa [String.intercalate_singleton] at this
  rw [hs]
  simp only [List.foldlM_cons, List.foldlM_nil, startsWith_td, if_true, drop2_td, toNat?_toString,
    Option.map_some]
  rfl

end Bao.SpecValid
