import BaoProofs.Lemmas.PlanPreTop
import BaoProofs.Lemmas.DecSim

/-!
# The decoder as a machine over a plan *list*

`Dec.runAux` pulls the response plan lazily through `Response.next`.  Here:

* `stepC` / `runL` – one decoder step on a plan item and the run over a plan list, with the hash
  stack and the stream explicit (sync order; the flavours agree by `DecSim.runAux_eq`);
* `iter_next` – one call of `PrePartial.next` from a valid iterator state yields the head of the
  pending list `buffer ++ stack.flatMap planId`;
* `runAux_eq_runL`, `decodeAll_eq_runL` – the model's decoder run IS `runL` over the recursive plan;
* generic facts about `runL`: append (`runL_append`), exact consumption and independence of the
  unread suffix (`runL_ok_local`), no panic on a non-empty stack, …
-/

namespace Bao.DecodeSpec
open Bao Bao.Spec Bao.PlanPre

variable {H : Type}

/-! ## uniform view of a plan item -/

/-- the hash a plan item is checked against, computed from the bytes read for it -/
def check (hf : HashFns H) : Chunk → List UInt8 → H
  | .parent _ isRoot _ _ _, buf => hf.parentCv (parsePair hf buf).1 (parsePair hf buf).2 isRoot
  | .leaf start _ isRoot _, buf => hashSubtree hf start buf isRoot

/-- the item the decoder returns -/
def itemOf (hf : HashFns H) : Chunk → List UInt8 → Item H
  | .parent node _ _ _ _, buf => .parent node (parsePair hf buf).1 (parsePair hf buf).2
  | .leaf start _ _ _, buf => .leaf (toBytes start) buf

/-- the hash stack after the item -/
def push (hf : HashFns H) : Chunk → List UInt8 → List H → List H
  | .parent _ _ left right _, buf, st =>
    let st := if right then (parsePair hf buf).2 :: st else st
    if left then (parsePair hf buf).1 :: st else st
  | .leaf .., _, st => st

/-- the error for missing bytes -/
def notFound : Chunk → DecodeError
  | .parent node .. => .parentNotFound node
  | .leaf start .. => .leafNotFound start

/-- the error for a failed comparison -/
def mismatch : Chunk → DecodeError
  | .parent node .. => .parentHashMismatch node
  | .leaf start .. => .leafHashMismatch start

/-- result of one step -/
inductive StepRes (H : Type)
  | item (i : Item H) (st : List H) (s : List UInt8)
  | err (e : DecodeError) (s : List UInt8)
  | panic (s : List UInt8)

/-- one decoder step (sync order: compare, then push) -/
def stepC (hf : HashFns H) [BEq H] (c : Chunk) (st : List H) (s : List UInt8) : StepRes H :=
  if c.size ≤ s.length then
    match st with
    | [] => .panic s
    | top :: rest =>
      if top != check hf c (s.take c.size) then .err (mismatch c) (s.drop c.size)
      else .item (itemOf hf c (s.take c.size)) (push hf c (s.take c.size) rest) (s.drop c.size)
  else .err (notFound c) s

/-- how a run over a plan list ends -/
inductive End (H : Type)
  | ok (st : List H) (s : List UInt8)
  | err (e : DecodeError) (s : List UInt8)
  | panic (s : List UInt8)

structure Out (H : Type) where
  items : List (Item H)
  fin : End H

/-- the decoder run over a plan list -/
def runL (hf : HashFns H) [BEq H] : List Chunk → List H → List UInt8 → Out H
  | [], st, s => ⟨[], .ok st s⟩
  | c :: p, st, s =>
    match stepC hf c st s with
    | .item i st' s' => ⟨i :: (runL hf p st' s').items, (runL hf p st' s').fin⟩
    | .err e s' => ⟨[], .err e s'⟩
    | .panic s' => ⟨[], .panic s'⟩

def End.terminal : End H → DecEnd
  | .ok .. => .done
  | .err e _ => .err e
  | .panic _ => .panic

def End.rest : End H → List UInt8
  | .ok _ s => s
  | .err _ s => s
  | .panic s => s

/-- what the model's `DecRun` shows of a list run -/
def Out.toRun (o : Out H) : DecRun H := ⟨o.items, o.fin.terminal, o.fin.rest⟩

@[simp] theorem runL_nil (hf : HashFns H) [BEq H] (st : List H) (s : List UInt8) :
    runL hf [] st s = ⟨[], .ok st s⟩ := rfl

theorem runL_cons (hf : HashFns H) [BEq H] (c : Chunk) (p : List Chunk) (st : List H)
    (s : List UInt8) :
    runL hf (c :: p) st s =
      match stepC hf c st s with
      | .item i st' s' => ⟨i :: (runL hf p st' s').items, (runL hf p st' s').fin⟩
      | .err e s' => ⟨[], .err e s'⟩
      | .panic s' => ⟨[], .panic s'⟩ := rfl

/-! ## the model's step is `stepC` -/

theorem check_withoutRanges (hf : HashFns H) (c : Chunk) (b : List UInt8) :
    check hf c.withoutRanges b = check hf c b := by cases c <;> rfl

/-- `Dec.nextSync` when the iterator yields `c.withoutRanges` -/
theorem nextSync_stepC (hf : HashFns H) [BEq H] (d : Dec H) (c : Chunk) (it' : PrePartial)
    (h : Response.next d.iter = .item c.withoutRanges it') :
    match stepC hf c d.stack d.encoded with
    | .item i st' s' => d.nextSync hf = .item i ⟨it', st', s', d.hash⟩
    | .err e s' => ∃ d', d.nextSync hf = .err e d' ∧ d'.encoded = s'
    | .panic s' => d.nextSync hf = .panic ∧ s' = d.encoded := by
  unfold Dec.nextSync stepC
  rw [h]
  cases c with
  | parent node isRoot left right rs =>
    simp only [Chunk.withoutRanges, Chunk.size, readExact]
    by_cases hl : 64 ≤ d.encoded.length
    · simp only [hl, if_true]
      cases hs : d.stack with
      | nil => exact ⟨rfl, rfl⟩
      | cons top rest =>
        simp only [check, parsePair]
        by_cases hc : (top != hf.parentCv (hf.ofBytes ((d.encoded.take 64).take 32))
            (hf.ofBytes (((d.encoded.take 64).drop 32).take 32)) isRoot) = true
        · simp only [hc, if_true]
          exact ⟨_, rfl, rfl⟩
        · simp only [hc, if_false, Bool.false_eq_true]
          simp only [itemOf, push, parsePair]
    · simp only [hl, if_false]
      exact ⟨_, rfl, rfl⟩
  | leaf start size isRoot rs =>
    simp only [Chunk.withoutRanges, Chunk.size, readExact]
    by_cases hl : size ≤ d.encoded.length
    · simp only [hl, if_true]
      cases hs : d.stack with
      | nil => exact ⟨rfl, rfl⟩
      | cons top rest =>
        simp only [check]
        by_cases hc : (top != hashSubtree hf start (d.encoded.take size) isRoot) = true
        · simp only [hc, if_true]
          exact ⟨_, rfl, rfl⟩
        · simp only [hc, if_false, Bool.false_eq_true]
          simp only [itemOf, push]
    · simp only [hl, if_false]
      exact ⟨_, rfl, rfl⟩

/-! ## the iterator yields the pending list -/

section iter
variable {size bs ml filled root : Nat}

/-- the items an iterator state will still yield -/
def pending (size bs ml filled root : Nat) (stack : List (Nat × Ranges)) (buffer : List Chunk) :
    List Chunk :=
  buffer ++ stack.flatMap (planId size bs ml filled root)

theorem iter_next (g : Geo size bs filled) (stack : List (Nat × Ranges)) (buffer : List Chunk)
    (hv : ∀ e ∈ stack, Valid filled e) :
    (pending size bs ml filled root stack buffer = [] ∧
      (st size bs ml filled root stack buffer).next = .done) ∨
    ∃ c stack' buf', (st size bs ml filled root stack buffer).next
        = .item c (st size bs ml filled root stack' buf') ∧
      (∀ e ∈ stack', Valid filled e) ∧
      pending size bs ml filled root stack buffer
        = c :: pending size bs ml filled root stack' buf' := by
  cases buffer with
  | cons c rest =>
    exact Or.inr ⟨c, stack, rest, rfl, hv, rfl⟩
  | nil =>
    cases stack with
    | nil => exact Or.inl ⟨rfl, rfl⟩
    | cons e stack =>
      obtain ⟨sh, rs⟩ := e
      obtain ⟨k, L, rfl⟩ := C18.coords_exist sh
      obtain ⟨hlt, hne⟩ := hv _ (List.mem_cons_self)
      have hv' : ∀ e ∈ stack, Valid filled e := fun e he => hv e (List.mem_cons_of_mem _ he)
      obtain ⟨c, stack', buf', hnext, hv'', heq⟩ :=
        next_step (ml := ml) (root := root) g hlt hne hv'
      have hplan := planId_nodeOf (ml := ml) (root := root) g hlt rs
      refine Or.inr ⟨c, stack', buf', hnext, hv'', ?_⟩
      simp only [pending, List.nil_append, List.flatMap_cons, hplan]
      exact heq.symm

end iter

/-! ## the model's run is `runL` over the pending list -/

theorem runAux_eq_runL {size ml filled root : Nat} (g : Geo size 0 filled) (hf : HashFns H)
    [BEq H] (fuel : Nat) :
    ∀ (stack : List (Nat × Ranges)) (buffer : List Chunk) (hst : List H) (enc : List UInt8)
      (hash : H), (∀ e ∈ stack, Valid filled e) →
      (pending size 0 ml filled root stack buffer).length < fuel →
      Dec.runAux hf .sync fuel ⟨st size 0 ml filled root stack buffer, hst, enc, hash⟩
        = (runL hf (pending size 0 ml filled root stack buffer) hst enc).toRun := by
  induction fuel with
  | zero => intro _ _ _ _ _ _ h; omega
  | succ n ih =>
    intro stack buffer hst enc hash hv hlen
    unfold Dec.runAux
    simp only [Dec.next]
    rcases iter_next (ml := ml) (root := root) g stack buffer hv with ⟨he, hn⟩ | ⟨c, stack', buf', hn, hv', he⟩
    · have hr : Response.next (st size 0 ml filled root stack buffer) = .done := by
        unfold Response.next; rw [hn]
      have : Dec.nextSync hf ⟨st size 0 ml filled root stack buffer, hst, enc, hash⟩
          = .done ⟨st size 0 ml filled root stack buffer, hst, enc, hash⟩ := by
        unfold Dec.nextSync; simp only [hr]
      rw [this, he]
      rfl
    · have hr : Response.next (st size 0 ml filled root stack buffer)
          = .item c.withoutRanges (st size 0 ml filled root stack' buf') := by
        unfold Response.next; rw [hn]
      have hstep := nextSync_stepC hf
        ⟨st size 0 ml filled root stack buffer, hst, enc, hash⟩ c _ hr
      rw [he, runL_cons]
      rw [he] at hlen
      simp only at hstep
      cases hsc : stepC hf c hst enc with
      | item i st' s' =>
        rw [hsc] at hstep
        simp only at hstep
        rw [hstep]
        simp only
        rw [ih stack' buf' st' s' hash hv' (by simp only [List.length_cons] at hlen; omega)]
        rfl
      | err e s' =>
        rw [hsc] at hstep
        obtain ⟨d', hd', hs'⟩ := hstep
        rw [hd']
        simp only [Out.toRun, End.terminal, End.rest, hs']
      | panic s' =>
        rw [hsc] at hstep
        obtain ⟨hd', hs'⟩ := hstep
        rw [hd']
        simp only [Out.toRun, End.terminal, End.rest, hs']

/-- `stepC` does not look at the ranges of an item -/
theorem stepC_withoutRanges (hf : HashFns H) [BEq H] (c : Chunk) (st : List H) (s : List UInt8) :
    stepC hf c.withoutRanges st s = stepC hf c st s := by
  cases c <;> rfl

theorem runL_withoutRanges (hf : HashFns H) [BEq H] (p : List Chunk) (st : List H)
    (s : List UInt8) : runL hf (p.map Chunk.withoutRanges) st s = runL hf p st s := by
  induction p generalizing st s with
  | nil => rfl
  | cons c p ih =>
    simp only [List.map_cons, runL_cons, stepC_withoutRanges]
    cases stepC hf c st s <;> simp only [ih]

/-- **the model's decoder is the list machine over the recursive response plan** -/
theorem decodeAll_eq_runL (hf : HashFns H) [BEq H] (fl : Flavour) (root : H) (size bs : Nat)
    (q : Ranges) (s : List UInt8) (hs : size ≤ 2 ^ 63) :
    decodeAll hf fl root ⟨size, bs⟩ q s
      = (runL hf (plan ⟨size, 0⟩ bs (Ranges.truncate q size)) [root] s).toRun := by
  have hfl : decodeAll hf fl root ⟨size, bs⟩ q s = decodeAll hf .sync root ⟨size, bs⟩ q s := by
    cases fl
    · rfl
    · exact (DecSim.runAux_eq hf _ _).symm
  rw [hfl]
  have g := shifted_geo size 0 hs (by omega)
  obtain ⟨hh, hroot, hlt⟩ := rootLevel_spec size 0 hs
  generalize hq : Ranges.truncate q size = q'
  have hlen := plan_length_le ⟨size, 0⟩ bs q'
  unfold decodeAll Dec.run Dec.new
  simp only [hq]
  cases q' with
  | nil =>
    have := runAux_eq_runL (ml := bs) (root := (Tree.shifted ⟨size, 0⟩).1) g hf
      (PrePartial.fuelFor ⟨size, 0⟩ + 1) [] [] [root] s root (fun e he => by cases he)
      (Nat.succ_pos _)
    rw [plan_nil]
    exact this
  | cons a q'' =>
    have hv : ∀ e ∈ [((Tree.shifted ⟨size, 0⟩).1, a :: q'')],
        Valid (Tree.shifted ⟨size, 0⟩).2 e := by
      intro e he
      rw [List.mem_singleton] at he
      subst he
      exact ⟨by rw [hroot]; exact hlt, by simp⟩
    have hp : planId size 0 bs (Tree.shifted ⟨size, 0⟩).2 (Tree.shifted ⟨size, 0⟩).1
        ((Tree.shifted ⟨size, 0⟩).1, a :: q'') = plan ⟨size, 0⟩ bs (a :: q'') := by
      unfold plan
      conv => lhs; arg 6; arg 1; rw [hroot]
      exact planId_nodeOf g hlt _
    have hpend : pending size 0 bs (Tree.shifted ⟨size, 0⟩).2 (Tree.shifted ⟨size, 0⟩).1
        [((Tree.shifted ⟨size, 0⟩).1, a :: q'')] [] = plan ⟨size, 0⟩ bs (a :: q'') := by
      simp only [pending, List.nil_append, List.flatMap_cons, List.flatMap_nil, List.append_nil, hp]
    have := runAux_eq_runL (ml := bs) (root := (Tree.shifted ⟨size, 0⟩).1) g hf
      (PrePartial.fuelFor ⟨size, 0⟩ + 1) [((Tree.shifted ⟨size, 0⟩).1, a :: q'')] [] [root] s root hv
      (by rw [hpend]; unfold PrePartial.fuelFor; omega)
    rw [hpend] at this
    exact this

/-! ## generic facts about `runL` -/

/-- sequencing of runs -/
def Out.bind (o : Out H) (f : List H → List UInt8 → Out H) : Out H :=
  match o.fin with
  | .ok st s => ⟨o.items ++ (f st s).items, (f st s).fin⟩
  | .err _ _ => o
  | .panic _ => o

theorem runL_append (hf : HashFns H) [BEq H] (A B : List Chunk) (st : List H) (s : List UInt8) :
    runL hf (A ++ B) st s = (runL hf A st s).bind (runL hf B) := by
  induction A generalizing st s with
  | nil => simp [Out.bind]
  | cons c A ih =>
    simp only [List.cons_append, runL_cons]
    cases stepC hf c st s with
    | item i st' s' =>
      simp only [ih]
      generalize runL hf A st' s' = o
      obtain ⟨its, fin⟩ := o
      cases fin <;> rfl
    | err e s' => rfl
    | panic s' => rfl

/-- total wire size of a plan -/
def psize (p : List Chunk) : Nat := (p.map Chunk.size).sum

@[simp] theorem psize_nil : psize [] = 0 := rfl
@[simp] theorem psize_cons (c : Chunk) (p : List Chunk) : psize (c :: p) = c.size + psize p := by
  simp [psize]
theorem psize_append (a b : List Chunk) : psize (a ++ b) = psize a + psize b := by
  simp [psize]

/-- a step that returns an item, spelled out -/
theorem stepC_item {hf : HashFns H} [BEq H] {c : Chunk} {st st' : List H} {s s' : List UInt8}
    {i : Item H} (h : stepC hf c st s = .item i st' s') :
    c.size ≤ s.length ∧ ∃ top rest, st = top :: rest ∧
      (top != check hf c (s.take c.size)) = false ∧ i = itemOf hf c (s.take c.size) ∧
      st' = push hf c (s.take c.size) rest ∧ s' = s.drop c.size := by
  unfold stepC at h
  split at h
  · rename_i hl
    refine ⟨hl, ?_⟩
    cases st with
    | nil => cases h
    | cons top rest =>
      simp only at h
      split at h
      · cases h
      · rename_i hc
        simp only [StepRes.item.injEq] at h
        obtain ⟨rfl, rfl, rfl⟩ := h
        exact ⟨top, rest, rfl, by simpa using hc, rfl, rfl, rfl⟩
  · cases h

theorem stepC_item_of {hf : HashFns H} [BEq H] {c : Chunk} {top : H} {rest : List H}
    {s : List UInt8} (hl : c.size ≤ s.length)
    (hc : (top != check hf c (s.take c.size)) = false) :
    stepC hf c (top :: rest) s
      = .item (itemOf hf c (s.take c.size)) (push hf c (s.take c.size) rest) (s.drop c.size) := by
  unfold stepC
  rw [if_pos hl]
  simp only [hc, Bool.false_eq_true, if_false]

theorem stepC_short {hf : HashFns H} [BEq H] {c : Chunk} {st : List H} {s : List UInt8}
    (hl : s.length < c.size) : stepC hf c st s = .err (notFound c) s := by
  unfold stepC
  rw [if_neg (by omega)]

theorem stepC_mismatch {hf : HashFns H} [BEq H] {c : Chunk} {top : H} {rest : List H}
    {s : List UInt8} (hl : c.size ≤ s.length)
    (hc : (top != check hf c (s.take c.size)) = true) :
    stepC hf c (top :: rest) s = .err (mismatch c) (s.drop c.size) := by
  unfold stepC
  rw [if_pos hl]
  simp only [hc, if_true]

/-- a run that ends `ok` went through an item step first -/
theorem runL_cons_ok {hf : HashFns H} [BEq H] {c : Chunk} {p : List Chunk} {st st' : List H}
    {s s' : List UInt8} (h : (runL hf (c :: p) st s).fin = .ok st' s') :
    ∃ i st1 s1, stepC hf c st s = .item i st1 s1 ∧ (runL hf p st1 s1).fin = .ok st' s' ∧
      (runL hf (c :: p) st s).items = i :: (runL hf p st1 s1).items := by
  rw [runL_cons] at h ⊢
  cases hs : stepC hf c st s with
  | item i st1 s1 => rw [hs] at h; exact ⟨i, st1, s1, rfl, h, rfl⟩
  | err e s1 => rw [hs] at h; cases h
  | panic s1 => rw [hs] at h; cases h

/-- **locality**: a run that ends `ok` consumed exactly `psize P` bytes, returned one item per plan
item, and does the same on every stream that starts with the same `psize P` bytes -/
theorem runL_ok_local (hf : HashFns H) [BEq H] :
    ∀ (P : List Chunk) (st : List H) (s : List UInt8) (st' : List H) (s' : List UInt8),
      (runL hf P st s).fin = .ok st' s' →
      psize P ≤ s.length ∧ s' = s.drop (psize P) ∧ (runL hf P st s).items.length = P.length ∧
      ∀ z, runL hf P st (s.take (psize P) ++ z) = ⟨(runL hf P st s).items, .ok st' z⟩ := by
  intro P
  induction P with
  | nil =>
    intro st s st' s' h
    simp only [runL_nil, End.ok.injEq] at h
    obtain ⟨rfl, rfl⟩ := h
    exact ⟨Nat.zero_le _, rfl, rfl, fun z => by simp⟩
  | cons c P ih =>
    intro st s st' s' h
    obtain ⟨i, st1, s1, hstep, hrest, hitems⟩ := runL_cons_ok h
    obtain ⟨hl, top, rest, rfl, hc, rfl, rfl, rfl⟩ := stepC_item hstep
    obtain ⟨h1, h2, h3, h4⟩ := ih _ _ _ _ hrest
    simp only [List.length_drop] at h1
    refine ⟨by rw [psize_cons]; omega, by rw [h2, List.drop_drop, psize_cons], ?_, ?_⟩
    · rw [hitems, List.length_cons, h3, List.length_cons]
    · intro z
      have hlen : c.size ≤ (s.take (psize (c :: P))).length := by
        rw [List.length_take, psize_cons]; omega
      have e1 : (s.take (psize (c :: P)) ++ z).take c.size = s.take c.size := by
        rw [List.take_append_of_le_length hlen, List.take_take, psize_cons]
        congr 1; omega
      have e2 : (s.take (psize (c :: P)) ++ z).drop c.size
          = (s.drop c.size).take (psize P) ++ z := by
        rw [List.drop_append_of_le_length hlen, List.drop_take, psize_cons]
        congr 2; omega
      rw [runL_cons, stepC_item_of (by rw [List.length_append]; omega) (by rw [e1]; exact hc),
        e1, e2]
      simp only [h4 z, hitems]

theorem bind_ok {o : Out H} {f : List H → List UInt8 → Out H} {st : List H} {s : List UInt8}
    (h : (o.bind f).fin = .ok st s) :
    ∃ st1 s1, o.fin = .ok st1 s1 ∧ (f st1 s1).fin = .ok st s ∧
      (o.bind f).items = o.items ++ (f st1 s1).items := by
  obtain ⟨its, fin⟩ := o
  cases fin with
  | ok st1 s1 => exact ⟨st1, s1, rfl, h, rfl⟩
  | err e s1 => cases h
  | panic s1 => cases h

/-- the state in front of the `|P1|`-th item of a run that ends `ok` -/
theorem runL_split_ok {hf : HashFns H} [BEq H] {P1 P2 : List Chunk} {c : Chunk} {st st' : List H}
    {s s' : List UInt8} (h : (runL hf (P1 ++ c :: P2) st s).fin = .ok st' s') :
    ∃ top rest, (runL hf P1 st s).fin = .ok (top :: rest) (s.drop (psize P1)) ∧
      psize P1 + c.size ≤ s.length ∧
      (top != check hf c ((s.drop (psize P1)).take c.size)) = false ∧
      (runL hf (P1 ++ c :: P2) st s).items.take P1.length = (runL hf P1 st s).items ∧
      (runL hf P1 st s).items.length = P1.length := by
  rw [runL_append] at h ⊢
  obtain ⟨st1, s1, h1, h2, h3⟩ := bind_ok h
  obtain ⟨i, st2, s2, hstep, -, -⟩ := runL_cons_ok h2
  obtain ⟨hl, top, rest, rfl, hc, -, -, -⟩ := stepC_item hstep
  obtain ⟨k1, k2, k3, -⟩ := runL_ok_local hf _ _ _ _ _ h1
  subst k2
  simp only [List.length_drop] at hl
  refine ⟨top, rest, h1, by omega, hc, ?_, k3⟩
  rw [h3, ← k3, List.take_left]

/-- **cut stream**: if the run over `P1 ++ c :: P2` ends `ok` on `s`, then on `s` cut inside the
bytes of `c` it returns the items of `P1` and reports `c` as not found -/
theorem runL_truncate (hf : HashFns H) [BEq H] {P1 P2 : List Chunk} {c : Chunk} {st st' : List H}
    {s s' : List UInt8} (h : (runL hf (P1 ++ c :: P2) st s).fin = .ok st' s') {k : Nat}
    (h1 : psize P1 ≤ k) (h2 : k < psize P1 + c.size) :
    runL hf (P1 ++ c :: P2) st (s.take k)
      = ⟨(runL hf (P1 ++ c :: P2) st s).items.take P1.length,
         .err (notFound c) ((s.take k).drop (psize P1))⟩ := by
  obtain ⟨top, rest, k1, k2, -, k4, -⟩ := runL_split_ok h
  obtain ⟨-, -, -, hloc⟩ := runL_ok_local hf _ _ _ _ _ k1
  have e : s.take k = s.take (psize P1) ++ (s.take k).drop (psize P1) := by
    conv => lhs; rw [← List.take_append_drop (psize P1) (s.take k)]
    rw [List.take_take, Nat.min_eq_left h1]
  rw [k4, runL_append]
  conv => lhs; rw [e, hloc]
  have hshort : ((s.take k).drop (psize P1)).length < c.size := by
    rw [List.length_drop, List.length_take]; omega
  simp only [Out.bind, runL_cons, stepC_short hshort, List.append_nil]

/-- **altered stream**: if the run over `P1 ++ c :: P2` ends `ok` on `s`, and `s2` agrees with `s`
on the bytes of `P1` but its bytes for `c` hash differently, the run on `s2` returns the items of
`P1` and reports a hash mismatch at `c` -/
theorem runL_alter (hf : HashFns H) [BEq H] [LawfulBEq H] {P1 P2 : List Chunk} {c : Chunk}
    {st st' : List H} {s s' s2 : List UInt8}
    (h : (runL hf (P1 ++ c :: P2) st s).fin = .ok st' s')
    (hpre : s2.take (psize P1) = s.take (psize P1)) (hlen : psize P1 + c.size ≤ s2.length)
    (hne : check hf c ((s2.drop (psize P1)).take c.size)
      ≠ check hf c ((s.drop (psize P1)).take c.size)) :
    runL hf (P1 ++ c :: P2) st s2
      = ⟨(runL hf (P1 ++ c :: P2) st s).items.take P1.length,
         .err (mismatch c) (s2.drop (psize P1 + c.size))⟩ := by
  obtain ⟨top, rest, k1, k2, k3, k4, -⟩ := runL_split_ok h
  obtain ⟨-, -, -, hloc⟩ := runL_ok_local hf _ _ _ _ _ k1
  have e : s2 = s.take (psize P1) ++ s2.drop (psize P1) := by
    conv => lhs; rw [← List.take_append_drop (psize P1) s2]
    rw [hpre]
  have htop : top = check hf c ((s.drop (psize P1)).take c.size) := by simpa using k3
  rw [k4, runL_append]
  conv => lhs; rw [e, hloc]
  have hl : c.size ≤ (s2.drop (psize P1)).length := by rw [List.length_drop]; omega
  have hc : (top != check hf c ((s2.drop (psize P1)).take c.size)) = true := by
    rw [htop]; simp only [bne_iff_ne, ne_eq]; exact fun e => hne e.symm
  simp only [Out.bind, runL_cons, stepC_mismatch hl hc, List.append_nil, List.drop_drop]

/-! ## no panic -/

theorem push_length_parent (hf : HashFns H) (n : Nat) (ir l r : Bool) (x : Ranges)
    (buf : List UInt8) (rest : List H) :
    (push hf (.parent n ir l r x) buf rest).length
      = rest.length + (if l then 1 else 0) + (if r then 1 else 0) := by
  cases l <;> cases r <;> simp [push]

theorem push_length_leaf (hf : HashFns H) (s z : Nat) (ir : Bool) (x : Ranges)
    (buf : List UInt8) (rest : List H) :
    (push hf (.leaf s z ir x) buf rest).length = rest.length := rfl

/-- a plan whose stack run never underflows does not make the decoder panic, on any stream -/
theorem runL_no_panic (hf : HashFns H) [BEq H] :
    ∀ (P : List Chunk) (h : Nat) (st : List H) (s : List UInt8), st.length = h →
      (∀ n, (stackRun h (P.take n)).isSome = true) → (runL hf P st s).fin.terminal ≠ .panic := by
  intro P
  induction P with
  | nil => intro h st s _ _; simp [End.terminal]
  | cons c P ih =>
    intro h st s hst hrun
    have h1 := hrun 1
    rw [runL_cons]
    cases hsc : stepC hf c st s with
    | err e s' => simp [End.terminal]
    | panic s' =>
      exfalso
      unfold stepC at hsc
      split at hsc
      · cases st with
        | nil =>
          simp only [List.length_nil] at hst
          subst hst
          cases c <;> simp [stackRun] at h1
        | cons top rest =>
          simp only at hsc
          split at hsc <;> cases hsc
      · cases hsc
    | item i st' s' =>
      simp only
      obtain ⟨-, top, rest, rfl, -, -, rfl, -⟩ := stepC_item hsc
      simp only [List.length_cons] at hst
      subst hst
      cases c with
      | parent nd ir l r x =>
        refine ih (rest.length + (if l then 1 else 0) + (if r then 1 else 0)) _ _
          (by rw [push_length_parent]) (fun n => ?_)
        have := hrun (n + 1)
        rw [List.take_succ_cons, stackRun_parent] at this
        exact this
      | leaf sc z ir x =>
        refine ih rest.length _ _ (by rw [push_length_leaf]) (fun n => ?_)
        have := hrun (n + 1)
        rw [List.take_succ_cons, stackRun_leaf] at this
        exact this

end Bao.DecodeSpec
