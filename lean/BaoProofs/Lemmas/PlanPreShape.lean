import BaoProofs.Lemmas.PlanPre

/-!
# Shape of the recursive pre-order plan `planPre`

Facts about the list `planPre … L k rs` used by the C15 (pre-order plan) and decoder proofs:

1. the plan of an existing inner node is `parent :: leftPlan ++ rightPlan`;
2. a sub-plan is non-empty iff its sub-query is;
3. every parent item of a plan heads the plan of an existing node (`parent_occurrence`);
4. hash-stack discipline (`stackRun`);
5. the root flag is set on the first item of the whole plan only;
6. leaf spans are inside the node's chunk range, non-empty, ordered, disjoint, inside the blob;
7. the flags of a parent item are those of `split(ranges, node)`.
-/

namespace Bao

/-- the `is_root` flag of an item -/
def Chunk.rootFlag : Chunk → Bool
  | .parent _ r _ _ _ => r
  | .leaf _ _ r _ => r

end Bao

namespace Bao.PlanPre
open Bao Bao.Spec Bao.Bits

variable {size bs ml filled root : Nat}

/-! ## (1) left / right sub-plans -/

/-- left sub-plan of an existing, non-query-leaf node `(k, L)` -/
def leftPlan (size bs ml filled root : Nat) : Nat → Nat → Ranges → List Chunk
  | 0, k, rs => if (lq bs 0 k rs).isEmpty then [] else [leftLeaf bs k rs]
  | L + 1, k, rs => planPre size bs ml filled root L (2 * k) (lq bs (L + 1) k rs)

/-- right sub-plan of an existing, non-query-leaf node `(k, L)` -/
def rightPlan (size bs ml filled root : Nat) : Nat → Nat → Ranges → List Chunk
  | 0, k, rs => if (rq bs 0 k rs).isEmpty then [] else [rightLeaf size bs k rs]
  | L + 1, k, rs => planPre size bs ml filled root L (2 * k + 1) (rq bs (L + 1) k rs)

theorem leftPlan_zero (k : Nat) (rs : Ranges) :
    leftPlan size bs ml filled root 0 k rs =
      if (lq bs 0 k rs).isEmpty then [] else [leftLeaf bs k rs] := rfl

theorem leftPlan_succ (L k : Nat) (rs : Ranges) :
    leftPlan size bs ml filled root (L + 1) k rs =
      planPre size bs ml filled root L (2 * k) (lq bs (L + 1) k rs) := rfl

theorem rightPlan_zero (k : Nat) (rs : Ranges) :
    rightPlan size bs ml filled root 0 k rs =
      if (rq bs 0 k rs).isEmpty then [] else [rightLeaf size bs k rs] := rfl

theorem rightPlan_succ (L k : Nat) (rs : Ranges) :
    rightPlan size bs ml filled root (L + 1) k rs =
      planPre size bs ml filled root L (2 * k + 1) (rq bs (L + 1) k rs) := rfl

/-- the plan of an existing node that is neither a query leaf nor the half leaf -/
theorem planPre_parent {L k : Nat} {rs : Ranges} (hne : rs ≠ []) (hlt : nodeOf k L < filled)
    (hq : queryLeaf bs ml L rs = false) (hmid : L = 0 → toBytes (midOf k bs) < size) :
    planPre size bs ml filled root L k rs =
      nodeParent bs root L k rs ::
        (leftPlan size bs ml filled root L k rs ++ rightPlan size bs ml filled root L k rs) := by
  cases L with
  | zero => rw [planPre_zero_parent hne hlt hq (hmid rfl)]; rfl
  | succ L => rw [planPre_succ hne hlt hq]; rfl

/-! ## (2) non-emptiness of the sub-plans -/

theorem isEmpty_eq_true_iff {rs : Ranges} : rs.isEmpty = true ↔ rs = [] := by
  cases rs <;> simp

theorem leftPlan_ne_nil_iff (_g : Geo size bs filled) {L k : Nat} {rs : Ranges}
    (hlt : nodeOf k L < filled) :
    leftPlan size bs ml filled root L k rs ≠ [] ↔ lq bs L k rs ≠ [] := by
  cases L with
  | zero =>
    rw [leftPlan_zero]
    by_cases h : lq bs 0 k rs = []
    · simp [h]
    · simp [h]
  | succ L =>
    rw [leftPlan_succ]
    constructor
    · intro h hq; rw [hq, planPre_nil] at h; exact h rfl
    · intro h
      refine planPre_ne_nil L (2 * k) _ h ?_
      rw [Bits.startOf_left]
      exact Nat.lt_of_le_of_lt (startOf_le_nodeOf k (L + 1)) hlt

theorem rightPlan_ne_nil_iff (g : Geo size bs filled) {L k : Nat} {rs : Ranges}
    (hlt : nodeOf k L < filled) :
    rightPlan size bs ml filled root L k rs ≠ [] ↔ rq bs L k rs ≠ [] := by
  cases L with
  | zero =>
    rw [rightPlan_zero]
    by_cases h : rq bs 0 k rs = []
    · simp [h]
    · simp [h]
  | succ L =>
    rw [rightPlan_succ]
    constructor
    · intro h hq; rw [hq, planPre_nil] at h; exact h rfl
    · intro h
      exact planPre_ne_nil L (2 * k + 1) _ h (g.right_exists hlt)

/-! ## (3) every parent item heads the plan of an existing node -/

theorem parent_occurrence_aux {node : Nat} {ir lf rf : Bool} {rs : Ranges}
    (L0 k0 : Nat) (rs0 : Ranges) :
    ∀ pre tail,
      planPre size bs ml filled root L0 k0 rs0 = pre ++ Chunk.parent node ir lf rf rs :: tail →
      ∃ L k post, L ≤ L0 ∧ rs ≠ [] ∧ nodeOf k L < filled ∧ queryLeaf bs ml L rs = false ∧
        (L = 0 → toBytes (midOf k bs) < size) ∧
        Chunk.parent node ir lf rf rs = nodeParent bs root L k rs ∧
        Chunk.parent node ir lf rf rs :: tail = planPre size bs ml filled root L k rs ++ post := by
  refine planPre_induct (size := size) (bs := bs) (ml := ml) (filled := filled) (root := root)
    (P := fun L0 _ _ p => ∀ pre tail, p = pre ++ Chunk.parent node ir lf rf rs :: tail →
      ∃ L k post, L ≤ L0 ∧ rs ≠ [] ∧ nodeOf k L < filled ∧ queryLeaf bs ml L rs = false ∧
        (L = 0 → toBytes (midOf k bs) < size) ∧
        Chunk.parent node ir lf rf rs = nodeParent bs root L k rs ∧
        Chunk.parent node ir lf rf rs :: tail = planPre size bs ml filled root L k rs ++ post)
    ?_ ?_ ?_ ?_ ?_ ?_ ?_ L0 k0 rs0
  · intro L k pre tail h
    exact absurd h (by simp)
  · intro k rs' _ _ pre tail h
    exact absurd h (by simp)
  · intro L k rs' _ _ ih pre tail h
    obtain ⟨L', k', post, hle, rest⟩ := ih pre tail h
    exact ⟨L', k', post, by omega, rest⟩
  · intro L k rs' _ _ _ pre tail h
    rcases List.cons_eq_append_iff.1 h with ⟨_, h2⟩ | ⟨pre', _, h2⟩
    · simp [nodeLeaf] at h2
    · exact absurd h2 (by simp)
  · intro k rs' _ _ _ _ pre tail h
    rcases List.cons_eq_append_iff.1 h with ⟨_, h2⟩ | ⟨pre', _, h2⟩
    · simp [nodeLeaf] at h2
    · exact absurd h2 (by simp)
  · intro k rs' hne hlt hq hh pre tail h
    rcases List.cons_eq_append_iff.1 h with ⟨_, h2⟩ | ⟨pre', _, h2⟩
    · have h3 := h2
      simp only [nodeParent, List.cons.injEq, Chunk.parent.injEq] at h3
      obtain ⟨⟨_, _, _, _, hrs⟩, _⟩ := h3
      subst hrs
      refine ⟨0, k, [], Nat.le_refl _, hne, hlt, hq, fun _ => hh, (List.cons.inj h2).1, ?_⟩
      rw [planPre_zero_parent hne hlt hq hh, List.append_nil]; exact h2
    · have hm : Chunk.parent node ir lf rf rs ∈
          (if (lq bs 0 k rs').isEmpty then [] else [leftLeaf bs k rs']) ++
          (if (rq bs 0 k rs').isEmpty then [] else [rightLeaf size bs k rs']) := by
        rw [h2]; simp
      rw [List.mem_append] at hm
      rcases hm with hm | hm <;> split at hm <;> simp [leftLeaf, rightLeaf] at hm
  · intro L k rs' hne hlt hq ih1 ih2 pre tail h
    rcases List.cons_eq_append_iff.1 h with ⟨_, h2⟩ | ⟨pre', _, h2⟩
    · have h3 := h2
      simp only [nodeParent, List.cons.injEq, Chunk.parent.injEq] at h3
      obtain ⟨⟨_, _, _, _, hrs⟩, _⟩ := h3
      subst hrs
      refine ⟨L + 1, k, [], Nat.le_refl _, hne, hlt, hq, fun h0 => absurd h0 (by omega),
        (List.cons.inj h2).1, ?_⟩
      rw [planPre_succ hne hlt hq, List.append_nil]; exact h2
    · rcases List.append_eq_append_iff.1 h2 with ⟨a', _, h3⟩ | ⟨c', h3, h4⟩
      · obtain ⟨L', k', post, hle, rest⟩ := ih2 a' tail h3
        exact ⟨L', k', post, by omega, rest⟩
      · rcases List.cons_eq_append_iff.1 h4 with ⟨_, h5⟩ | ⟨c'', hc, h5⟩
        · obtain ⟨L', k', post, hle, rest⟩ := ih2 [] tail (by rw [List.nil_append]; exact h5)
          exact ⟨L', k', post, by omega, rest⟩
        · subst hc
          obtain ⟨L', k', post, hle, h6, h7, h8, h9, h10, h11⟩ := ih1 pre' c'' h3
          refine ⟨L', k', post ++ planPre size bs ml filled root L (2 * k + 1) (rq bs (L + 1) k rs'),
            by omega, h6, h7, h8, h9, h10, ?_⟩
          rw [h5, ← List.append_assoc, ← h11]; rfl

/-- every parent item of a plan is the head of the plan of an existing node -/
theorem parent_occurrence {L0 k0 : Nat} {rs0 : Ranges} {pre tail : List Chunk} {node : Nat}
    {ir lf rf : Bool} {rs : Ranges}
    (h : planPre size bs ml filled root L0 k0 rs0 = pre ++ Chunk.parent node ir lf rf rs :: tail) :
    ∃ L k post, L ≤ L0 ∧ rs ≠ [] ∧ nodeOf k L < filled ∧ queryLeaf bs ml L rs = false ∧
      (L = 0 → toBytes (midOf k bs) < size) ∧
      Chunk.parent node ir lf rf rs = nodeParent bs root L k rs ∧
      Chunk.parent node ir lf rf rs :: tail = planPre size bs ml filled root L k rs ++ post :=
  parent_occurrence_aux L0 k0 rs0 pre tail h

/-! ## (4) hash-stack discipline -/

/-- run the decoder's hash stack over a plan, starting with `h` expected hashes: every item pops
one, a parent pushes one per set flag; `none` = pop from an empty stack -/
def stackRun : Nat → List Chunk → Option Nat
  | h, [] => some h
  | h, .parent _ _ l r _ :: rest =>
    if h = 0 then none else stackRun (h - 1 + (if l then 1 else 0) + (if r then 1 else 0)) rest
  | h, .leaf _ _ _ _ :: rest => if h = 0 then none else stackRun (h - 1) rest

theorem stackRun_leaf (h s z : Nat) (r : Bool) (x : Ranges) (rest : List Chunk) :
    stackRun (h + 1) (Chunk.leaf s z r x :: rest) = stackRun h rest := by
  simp [stackRun]

theorem stackRun_parent (h n : Nat) (ir l r : Bool) (x : Ranges) (rest : List Chunk) :
    stackRun (h + 1) (Chunk.parent n ir l r x :: rest) =
      stackRun (h + (if l then 1 else 0) + (if r then 1 else 0)) rest := by
  simp [stackRun]

theorem stackRun_nodeParent (h L k : Nat) (rs : Ranges) (rest : List Chunk) :
    stackRun (h + 1) (nodeParent bs root L k rs :: rest) =
      stackRun (h + (if (lq bs L k rs).isEmpty then 0 else 1) +
        (if (rq bs L k rs).isEmpty then 0 else 1)) rest := by
  unfold nodeParent
  rw [stackRun_parent]
  have e : ∀ a : Bool, (if (!a) = true then 1 else 0 : Nat) = if a = true then 0 else 1 := by
    intro a; cases a <;> rfl
  rw [e, e]; rfl

theorem stackRun_planPre (g : Geo size bs filled) (L k : Nat) (rs : Ranges) (hne : rs ≠ [])
    (hs : startOf k L < filled) (h : Nat) (rest : List Chunk) :
    stackRun (h + 1) (planPre size bs ml filled root L k rs ++ rest) = stackRun h rest := by
  revert hne hs h rest
  refine planPre_induct (size := size) (bs := bs) (ml := ml) (filled := filled) (root := root)
    (P := fun L k rs p => rs ≠ [] → startOf k L < filled → ∀ (h : Nat) (rest : List Chunk),
      stackRun (h + 1) (p ++ rest) = stackRun h rest) ?_ ?_ ?_ ?_ ?_ ?_ ?_ L k rs
  · intro L k h; exact absurd rfl h
  · intro k rs _ hge _ hs
    have : startOf k 0 = nodeOf k 0 := by rw [Offsets.startOf_zero, Offsets.nodeOf_zero]
    omega
  · intro L k rs hne _ ih _ hs
    exact ih hne (by rw [Bits.startOf_left]; exact hs)
  · intro L k rs _ _ _ _ _ h rest
    exact stackRun_leaf ..
  · intro k rs _ _ _ _ _ _ h rest
    exact stackRun_leaf ..
  · intro k rs _ _ _ _ _ _ h rest
    rw [List.cons_append, stackRun_nodeParent]
    by_cases h1 : (lq bs 0 k rs).isEmpty = true <;> by_cases h2 : (rq bs 0 k rs).isEmpty = true <;>
      simp [h1, h2, leftLeaf, rightLeaf, stackRun_leaf]
  · intro L k rs _ hlt _ ih1 ih2 _ _ h rest
    rw [List.cons_append, stackRun_nodeParent, List.append_assoc]
    have hsl : startOf (2 * k) L < filled := by
      rw [Bits.startOf_left]
      exact Nat.lt_of_le_of_lt (startOf_le_nodeOf k (L + 1)) hlt
    have hsr : startOf (2 * k + 1) L < filled := g.right_exists hlt
    by_cases h1 : lq bs (L + 1) k rs = [] <;> by_cases h2 : rq bs (L + 1) k rs = []
    · simp [h1, h2]
    · have e2 := isEmpty_eq_false h2
      rw [h1, planPre_nil, List.nil_append, e2]
      simpa using ih2 h2 hsr h rest
    · have e1 := isEmpty_eq_false h1
      rw [h2, planPre_nil, List.nil_append, e1]
      simpa using ih1 h1 hsl h rest
    · have e1 := isEmpty_eq_false h1
      have e2 := isEmpty_eq_false h2
      rw [e1, e2]
      simp only [if_false, Bool.false_eq_true]
      rw [ih1 h1 hsl, ih2 h2 hsr]

theorem stackRun_prefix {h r : Nat} {a b : List Chunk} (hr : stackRun h (a ++ b) = some r) :
    (stackRun h a).isSome = true := by
  induction a generalizing h with
  | nil => simp [stackRun]
  | cons c a ih =>
    cases c with
    | parent n ir l rr x =>
      simp only [List.cons_append, stackRun] at hr ⊢
      split at hr
      · exact absurd hr (by simp)
      · rename_i h0; rw [if_neg h0]; exact ih hr
    | leaf s z ir x =>
      simp only [List.cons_append, stackRun] at hr ⊢
      split at hr
      · exact absurd hr (by simp)
      · rename_i h0; rw [if_neg h0]; exact ih hr

theorem stackRun_leftPlan (g : Geo size bs filled) {L k : Nat} {rs : Ranges}
    (hlt : nodeOf k L < filled) (hne : lq bs L k rs ≠ []) (h : Nat) (rest : List Chunk) :
    stackRun (h + 1) (leftPlan size bs ml filled root L k rs ++ rest) = stackRun h rest := by
  cases L with
  | zero =>
    rw [leftPlan_zero, isEmpty_eq_false hne]
    exact stackRun_leaf ..
  | succ L =>
    rw [leftPlan_succ]
    refine stackRun_planPre g L (2 * k) _ hne ?_ h rest
    rw [Bits.startOf_left]
    exact Nat.lt_of_le_of_lt (startOf_le_nodeOf k (L + 1)) hlt

theorem stackRun_rightPlan (g : Geo size bs filled) {L k : Nat} {rs : Ranges}
    (hlt : nodeOf k L < filled) (hne : rq bs L k rs ≠ []) (h : Nat) (rest : List Chunk) :
    stackRun (h + 1) (rightPlan size bs ml filled root L k rs ++ rest) = stackRun h rest := by
  cases L with
  | zero =>
    rw [rightPlan_zero, isEmpty_eq_false hne]
    exact stackRun_leaf ..
  | succ L =>
    rw [rightPlan_succ]
    exact stackRun_planPre g L (2 * k + 1) _ hne (g.right_exists hlt) h rest

/-! ## (5) root flag -/

theorem nodeOf_beq_false {L h k : Nat} (hL : L < h) : (nodeOf k L == nodeOf 0 h) = false := by
  rw [beq_eq_false_iff_ne]
  intro e
  have := (C18.nodeOf_inj e).2
  omega

theorem rootFlag_below {h L k : Nat} {rs : Ranges} (hL : L < h) :
    ∀ c ∈ planPre size bs ml filled (nodeOf 0 h) L k rs, c.rootFlag = false := by
  revert hL
  refine planPre_induct (size := size) (bs := bs) (ml := ml) (filled := filled)
    (root := nodeOf 0 h)
    (P := fun L _ _ p => L < h → ∀ c ∈ p, c.rootFlag = false) ?_ ?_ ?_ ?_ ?_ ?_ ?_ L k rs
  · intro L k _ c hc; exact absurd hc (by simp)
  · intro k rs _ _ _ c hc; exact absurd hc (by simp)
  · intro L k rs _ _ ih hL c hc; exact ih (by omega) c hc
  · intro L k rs _ _ _ hL c hc
    rw [List.mem_singleton] at hc; subst hc
    simp [nodeLeaf, Chunk.rootFlag, nodeOf_beq_false hL]
  · intro k rs _ _ _ _ hL c hc
    rw [List.mem_singleton] at hc; subst hc
    simp [nodeLeaf, Chunk.rootFlag, nodeOf_beq_false hL]
  · intro k rs _ _ _ _ hL c hc
    rw [List.mem_cons, List.mem_append] at hc
    rcases hc with hc | hc | hc
    · subst hc; simp [nodeParent, Chunk.rootFlag, nodeOf_beq_false hL]
    · split at hc
      · exact absurd hc (by simp)
      · rw [List.mem_singleton] at hc; subst hc; rfl
    · split at hc
      · exact absurd hc (by simp)
      · rw [List.mem_singleton] at hc; subst hc; rfl
  · intro L k rs _ _ _ ih1 ih2 hL c hc
    rw [List.mem_cons, List.mem_append] at hc
    rcases hc with hc | hc | hc
    · subst hc; simp [nodeParent, Chunk.rootFlag, nodeOf_beq_false hL]
    · exact ih1 (by omega) c hc
    · exact ih2 (by omega) c hc

theorem rootFlag_top {h : Nat} {rs : Ranges} (hne : rs ≠ []) (hlt : nodeOf 0 h < filled) :
    ∃ c tail, planPre size bs ml filled (nodeOf 0 h) h 0 rs = c :: tail ∧ c.rootFlag = true ∧
      ∀ c' ∈ tail, c'.rootFlag = false := by
  by_cases hq : queryLeaf bs ml h rs = true
  · refine ⟨_, [], planPre_queryLeaf hne hlt hq, ?_, ?_⟩
    · simp [nodeLeaf, Chunk.rootFlag]
    · intro c hc; exact absurd hc (by simp)
  · have hq : queryLeaf bs ml h rs = false := by simpa using hq
    cases h with
    | zero =>
      by_cases hh : toBytes (midOf 0 bs) < size
      · refine ⟨_, _, planPre_zero_parent hne hlt hq hh, ?_, ?_⟩
        · simp [nodeParent, Chunk.rootFlag]
        · intro c hc
          rw [List.mem_append] at hc
          rcases hc with hc | hc
          · split at hc
            · exact absurd hc (by simp)
            · rw [List.mem_singleton] at hc; subst hc; rfl
          · split at hc
            · exact absurd hc (by simp)
            · rw [List.mem_singleton] at hc; subst hc; rfl
      · refine ⟨_, [], planPre_zero_half hne hlt hq (by omega), ?_, ?_⟩
        · simp [nodeLeaf, Chunk.rootFlag]
        · intro c hc; exact absurd hc (by simp)
    | succ h =>
      refine ⟨_, _, planPre_succ hne hlt hq, ?_, ?_⟩
      · simp [nodeParent, Chunk.rootFlag]
      · intro c hc
        rw [List.mem_append] at hc
        rcases hc with hc | hc
        · exact rootFlag_below (Nat.lt_succ_self h) c hc
        · exact rootFlag_below (Nat.lt_succ_self h) c hc

/-! ## (6) leaf spans -/

/-- the chunk spans `[start, start + max 1 (chunks of size))` of the leaf items -/
def leafSpans : List Chunk → List (Nat × Nat)
  | [] => []
  | .leaf s z _ _ :: rest => (s, s + max 1 (chunksOf z)) :: leafSpans rest
  | .parent .. :: rest => leafSpans rest

/-- all spans are non-empty, inside `[lo, hi)`, ordered and disjoint -/
def SpansIn (lo hi : Nat) (l : List (Nat × Nat)) : Prop :=
  (∀ p ∈ l, lo ≤ p.1 ∧ p.1 < p.2 ∧ p.2 ≤ hi) ∧ l.Pairwise (fun a b => a.2 ≤ b.1)

theorem leafSpans_append (a b : List Chunk) : leafSpans (a ++ b) = leafSpans a ++ leafSpans b := by
  induction a with
  | nil => rfl
  | cons c a ih =>
    cases c with
    | parent n ir l r x => simpa [leafSpans] using ih
    | leaf s z ir x => simpa [leafSpans] using ih

theorem SpansIn_nil (lo hi : Nat) : SpansIn lo hi [] :=
  ⟨fun p hp => absurd hp (by simp), List.Pairwise.nil⟩

theorem SpansIn_singleton {lo hi a b : Nat} (h1 : lo ≤ a) (h2 : a < b) (h3 : b ≤ hi) :
    SpansIn lo hi [(a, b)] := by
  refine ⟨fun p hp => ?_, List.pairwise_singleton _ _⟩
  rw [List.mem_singleton] at hp; subst hp
  exact ⟨h1, h2, h3⟩

theorem SpansIn_append {lo mid hi : Nat} {A B : List (Nat × Nat)} (h1 : lo ≤ mid) (h2 : mid ≤ hi)
    (hA : SpansIn lo mid A) (hB : SpansIn mid hi B) : SpansIn lo hi (A ++ B) := by
  refine ⟨fun p hp => ?_, ?_⟩
  · rw [List.mem_append] at hp
    rcases hp with hp | hp
    · have := hA.1 p hp; omega
    · have := hB.1 p hp; omega
  · rw [List.pairwise_append]
    refine ⟨hA.2, hB.2, fun a ha b hb => ?_⟩
    have := hA.1 a ha
    have := hB.1 b hb
    omega

theorem SpansIn_mono {lo lo' hi hi' : Nat} {l : List (Nat × Nat)} (h1 : lo' ≤ lo) (h2 : hi ≤ hi')
    (h : SpansIn lo hi l) : SpansIn lo' hi' l := by
  refine ⟨fun p hp => ?_, h.2⟩
  have := h.1 p hp
  omega

/-- strictly increasing starts, as a corollary of `SpansIn` -/
theorem spans_starts_increasing {lo hi : Nat} {l : List (Nat × Nat)} (h : SpansIn lo hi l) :
    l.Pairwise (fun a b => a.1 < b.1) := by
  refine List.Pairwise.imp_of_mem ?_ h.2
  intro a b ha _ hab
  have := h.1 a ha
  omega

/-- a leaf clipped to the blob has at most as many chunks as its untruncated span -/
theorem clipped_span_le {s e size : Nat} (h : s < e) :
    s + max 1 (chunksOf (min (toBytes e) size - toBytes s)) ≤ e := by
  unfold chunksOf toBytes
  split <;> omega

theorem full_span_eq {s m : Nat} (h : s < m) :
    s + max 1 (chunksOf (toBytes m - toBytes s)) = m := by
  unfold chunksOf toBytes
  split <;> omega

theorem spans_nodeLeaf (L k : Nat) (rs : Ranges) :
    SpansIn (startOf k (L + bs)) (endOf k (L + bs)) (leafSpans [nodeLeaf size bs root L k rs]) := by
  have hlt : startOf k (L + bs) < endOf k (L + bs) :=
    Nat.lt_trans (startOf_lt_midOf _ _) (midOf_lt_endOf _ _)
  exact SpansIn_singleton (Nat.le_refl _) (by omega) (clipped_span_le hlt)

theorem spans_leftLeaf (k : Nat) (rs : Ranges) :
    SpansIn (startOf k (0 + bs)) (midOf k (0 + bs))
      (leafSpans (if (lq bs 0 k rs).isEmpty then [] else [leftLeaf bs k rs])) := by
  rw [Nat.zero_add]
  split
  · exact SpansIn_nil _ _
  · have hlt := startOf_lt_midOf k bs
    exact SpansIn_singleton (Nat.le_refl _) (by omega) (Nat.le_of_eq (full_span_eq hlt))

theorem spans_rightLeaf (k : Nat) (rs : Ranges) :
    SpansIn (midOf k (0 + bs)) (endOf k (0 + bs))
      (leafSpans (if (rq bs 0 k rs).isEmpty then [] else [rightLeaf size bs k rs])) := by
  rw [Nat.zero_add]
  split
  · exact SpansIn_nil _ _
  · have hlt := midOf_lt_endOf k bs
    exact SpansIn_singleton (Nat.le_refl _) (by omega) (clipped_span_le hlt)

/-- the leaf spans of a plan are inside the node's chunk range, non-empty, ordered, disjoint -/
theorem spans_planPre (_g : Geo size bs filled) (L k : Nat) (rs : Ranges) :
    SpansIn (startOf k (L + bs)) (endOf k (L + bs))
      (leafSpans (planPre size bs ml filled root L k rs)) := by
  refine planPre_induct (size := size) (bs := bs) (ml := ml) (filled := filled) (root := root)
    (P := fun L k _ p => SpansIn (startOf k (L + bs)) (endOf k (L + bs)) (leafSpans p))
    ?_ ?_ ?_ ?_ ?_ ?_ ?_ L k rs
  · intro L k; exact SpansIn_nil _ _
  · intro k rs _ _; exact SpansIn_nil _ _
  · intro L k rs _ _ ih
    have e : L + 1 + bs = L + bs + 1 := by omega
    rw [e]
    rw [Bits.startOf_left, Bits.endOf_left] at ih
    exact SpansIn_mono (Nat.le_refl _) (Nat.le_of_lt (midOf_lt_endOf _ _)) ih
  · intro L k rs _ _ _; exact spans_nodeLeaf L k rs
  · intro k rs _ _ _ _; exact spans_nodeLeaf 0 k rs
  · intro k rs _ _ _ _
    show SpansIn _ _ (leafSpans (_ ++ _))
    rw [leafSpans_append]
    exact SpansIn_append (Nat.le_of_lt (startOf_lt_midOf _ _)) (Nat.le_of_lt (midOf_lt_endOf _ _))
      (spans_leftLeaf k rs) (spans_rightLeaf k rs)
  · intro L k rs _ _ _ ih1 ih2
    show SpansIn _ _ (leafSpans (_ ++ _))
    rw [leafSpans_append]
    have e : L + 1 + bs = L + bs + 1 := by omega
    rw [e]
    rw [Bits.startOf_left, Bits.endOf_left] at ih1
    rw [Bits.startOf_right, Bits.endOf_right] at ih2
    exact SpansIn_append (Nat.le_of_lt (startOf_lt_midOf _ _)) (Nat.le_of_lt (midOf_lt_endOf _ _))
      ih1 ih2

theorem spans_leftPlan (g : Geo size bs filled) {L k : Nat} {rs : Ranges}
    (_hlt : nodeOf k L < filled) :
    SpansIn (startOf k (L + bs)) (midOf k (L + bs))
      (leafSpans (leftPlan size bs ml filled root L k rs)) := by
  cases L with
  | zero => exact spans_leftLeaf k rs
  | succ L =>
    have h := spans_planPre (ml := ml) (root := root) g L (2 * k) (lq bs (L + 1) k rs)
    rw [Bits.startOf_left, Bits.endOf_left] at h
    have e : L + 1 + bs = L + bs + 1 := by omega
    rw [e, leftPlan_succ]; exact h

theorem spans_rightPlan (g : Geo size bs filled) {L k : Nat} {rs : Ranges}
    (_hlt : nodeOf k L < filled) :
    SpansIn (midOf k (L + bs)) (endOf k (L + bs))
      (leafSpans (rightPlan size bs ml filled root L k rs)) := by
  cases L with
  | zero => exact spans_rightLeaf k rs
  | succ L =>
    have h := spans_planPre (ml := ml) (root := root) g L (2 * k + 1) (rq bs (L + 1) k rs)
    rw [Bits.startOf_right, Bits.endOf_right] at h
    have e : L + 1 + bs = L + bs + 1 := by omega
    rw [e, rightPlan_succ]; exact h

theorem nodeLeaf_in_blob (g : Geo size bs filled) {L k : Nat} (hlt : nodeOf k L < filled) :
    toBytes (startOf k (L + bs)) +
      (min (toBytes (endOf k (L + bs))) size - toBytes (startOf k (L + bs))) ≤ size := by
  have := g.start_le (Nat.lt_of_le_of_lt (startOf_le_nodeOf k L) hlt)
  omega

/-- every leaf lies inside the blob -/
theorem leaf_in_blob (g : Geo size bs filled) (L k : Nat) (rs : Ranges) :
    ∀ s z r x, Chunk.leaf s z r x ∈ planPre size bs ml filled root L k rs →
      toBytes s + z ≤ size := by
  refine planPre_induct (size := size) (bs := bs) (ml := ml) (filled := filled) (root := root)
    (P := fun _ _ _ p => ∀ s z r x, Chunk.leaf s z r x ∈ p → toBytes s + z ≤ size)
    ?_ ?_ ?_ ?_ ?_ ?_ ?_ L k rs
  · intro L k s z r x h; exact absurd h (by simp)
  · intro k rs _ _ s z r x h; exact absurd h (by simp)
  · intro L k rs _ _ ih; exact ih
  · intro L k rs _ hlt _ s z r x h
    simp only [nodeLeaf, List.mem_singleton, Chunk.leaf.injEq] at h
    obtain ⟨rfl, rfl, _, _⟩ := h
    exact nodeLeaf_in_blob g hlt
  · intro k rs _ hlt _ _ s z r x h
    simp only [nodeLeaf, List.mem_singleton, Chunk.leaf.injEq] at h
    obtain ⟨rfl, rfl, _, _⟩ := h
    exact nodeLeaf_in_blob g hlt
  · intro k rs _ _ _ hh s z r x h
    have h1 := startOf_lt_midOf k bs
    unfold toBytes at hh
    rw [List.mem_cons, List.mem_append] at h
    rcases h with h | h | h
    · simp [nodeParent] at h
    · split at h
      · exact absurd h (by simp)
      · simp only [leftLeaf, List.mem_singleton, Chunk.leaf.injEq] at h
        obtain ⟨rfl, rfl, _, _⟩ := h
        unfold toBytes; omega
    · split at h
      · exact absurd h (by simp)
      · simp only [rightLeaf, List.mem_singleton, Chunk.leaf.injEq] at h
        obtain ⟨rfl, rfl, _, _⟩ := h
        unfold toBytes; omega
  · intro L k rs _ _ _ ih1 ih2 s z r x h
    rw [List.mem_cons, List.mem_append] at h
    rcases h with h | h | h
    · simp [nodeParent] at h
    · exact ih1 s z r x h
    · exact ih2 s z r x h

/-! ## (7) flags of a parent item -/

/-- the flags of a parent item are those of `split(ranges, node)` of the model -/
theorem flags_item (g : Geo size bs filled) {L0 k0 : Nat} {rs0 : Ranges} {node : Nat}
    {ir lf rf : Bool} {rs : Ranges}
    (h : Chunk.parent node ir lf rf rs ∈ planPre size bs ml filled root L0 k0 rs0) :
    lf = !(Ranges.splitNode rs node).1.isEmpty ∧ rf = !(Ranges.splitNode rs node).2.isEmpty := by
  obtain ⟨pre, tail, e⟩ := List.append_of_mem h
  obtain ⟨L, k, post, _, _, hlt, _, _, hp, _⟩ := parent_occurrence e
  simp only [nodeParent, Chunk.parent.injEq] at hp
  obtain ⟨rfl, _, rfl, rfl, _⟩ := hp
  rw [splitNode_eq bs rs (g.level_le hlt)]
  exact ⟨rfl, rfl⟩

/-
Summary.  Proved (no OPEN items): planPre_parent, leftPlan_ne_nil_iff, rightPlan_ne_nil_iff,
parent_occurrence, stackRun_planPre, stackRun_prefix, stackRun_leftPlan, stackRun_rightPlan,
rootFlag_below, rootFlag_top, leafSpans_append, SpansIn_append, SpansIn_mono, spans_planPre,
spans_leftPlan, spans_rightPlan, leaf_in_blob, spans_starts_increasing, flags_item.
Unused (kept for a uniform calling convention, underscore-named): the `Geo` argument of
`leftPlan_ne_nil_iff` and `spans_planPre`, the `nodeOf k L < filled` argument of
`spans_leftPlan` / `spans_rightPlan`.
-/

end Bao.PlanPre
