import BaoProofs.Lemmas.PlanPre

/-!
# Shape of the recursive pre-order plan `planPre`

Facts about the list `planPre … L k rs` used by the C15 (pre-order plan) and decoder proofs:

1. the plan of an existing inner node is `parent :: leftPlan ++ rightPlan`;
2. a sub-plan is non-empty iff its sub-query is;
3. every parent item of a plan heads the plan of an existing node (`parent_occurrence`);
4. hash-stack discipline (`stackRun`);
5. the root flag is set on the first item of the whole plan only;
6. leaf spans are inside the node's chunk range, non-empty, ordered, disjoint, inside the blob;
7. the flags of a parent item are those of `split(ranges, node)`.
-/

namespace Bao

/-- the `is_root` flag of an item -/
def Chunk.rootFlag : Chunk → Bool
  | .parent _ r _ _ _ => r
  | .leaf _ _ r _ => r

end Bao

namespace Bao.PlanPre
open Bao Bao.Spec Bao.Bits

variable {size bs ml filled root : Nat}

/-! ## (1) left / right sub-plans -/

/-- left sub-plan of an existing, non-query-leaf node `(k, L)` -/
def leftPlan (size bs ml filled root : Nat) : Nat → Nat → Ranges → List Chunk
  | 0, k, rs => if (lq bs 0 k rs).isEmpty then [] else [leftLeaf bs k rs]
  | L + 1, k, rs => planPre size bs ml filled root L (2 * k) (lq bs (L + 1) k rs)

/-- right sub-plan of an existing, non-query-leaf node `(k, L)` -/
def rightPlan (size bs ml filled root : Nat) : Nat → Nat → Ranges → List Chunk
  | 0, k, rs => if (rq bs 0 k rs).isEmpty then [] else [rightLeaf size bs k rs]
  | L + 1, k, rs => planPre size bs ml filled root L (2 * k + 1) (rq bs (L + 1) k rs)

theorem leftPlan_zero (k : Nat) (rs : Ranges) :
    leftPlan size bs ml filled root 0 k rs =
      if (lq bs 0 k rs).isEmpty then [] else [leftLeaf bs k rs] := rfl

theorem leftPlan_succ (L k : Nat) (rs : Ranges) :
    leftPlan size bs ml filled root (L + 1) k rs =
      planPre size bs ml filled root L (2 * k) (lq bs (L + 1) k rs) := rfl

theorem rightPlan_zero (k : Nat) (rs : Ranges) :
    rightPlan size bs ml filled root 0 k rs =
      if (rq bs 0 k rs).isEmpty then [] else [rightLeaf size bs k rs] := rfl

theorem rightPlan_succ (L k : Nat) (rs : Ranges) :
    rightPlan size bs ml filled root (L + 1) k rs =
      planPre size bs ml filled root L (2 * k + 1) (rq bs (L + 1) k rs) := rfl

/-- the plan of an existing node that is neither a query leaf nor the half leaf -/
theorem planPre_parent {L k : Nat} {rs : Ranges} (hne : rs ≠ []) (hlt : nodeOf k L < filled)
    (hq : queryLeaf bs ml L rs = false) (hmid : L = 0 → toBytes (midOf k bs) < size) :
    planPre size bs ml filled root L k rs =
      nodeParent bs root L k rs ::
        (leftPlan size bs ml filled root L k rs ++ rightPlan size bs ml filled root L k rs) := by
  cases L with
  | zero => rw [planPre_zero_parent hne hlt hq (hmid rfl)]; rfl
  | succ L => rw [planPre_succ hne hlt hq]; rfl

/-! ## (2) non-emptiness of the sub-plans -/

theorem isEmpty_eq_true_iff {rs : Ranges} : rs.isEmpty = true ↔ rs = [] := by
  cases rs <;> simp

theorem leftPlan_ne_nil_iff (g : Geo size bs filled) {L k : Nat} {rs : Ranges}
    (hlt : nodeOf k L < filled) :
    leftPlan size bs ml filled root L k rs ≠ [] ↔ lq bs L k rs ≠ [] := by
  have _ := g
  cases L with
  | zero =>
    rw [leftPlan_zero]
    by_cases h : lq bs 0 k rs = []
    · simp [h]
    · simp [h]
  | succ L =>
    rw [leftPlan_succ]
    constructor
    · intro h hq; rw [hq, planPre_nil] at h; exact h rfl
    · intro h
      refine planPre_ne_nil L (2 * k) _ h ?_
      rw [Bits.startOf_left]
      exact Nat.lt_of_le_of_lt (startOf_le_nodeOf k (L + 1)) hlt

theorem rightPlan_ne_nil_iff (g : Geo size bs filled) {L k : Nat} {rs : Ranges}
    (hlt : nodeOf k L < filled) :
    rightPlan size bs ml filled root L k rs ≠ [] ↔ rq bs L k rs ≠ [] := by
  cases L with
  | zero =>
    rw [rightPlan_zero]
    by_cases h : rq bs 0 k rs = []
    · simp [h]
    · simp [h]
  | succ L =>
    rw [rightPlan_succ]
    constructor
    · intro h hq; rw [hq, planPre_nil] at h; exact h rfl
    · intro h
      exact planPre_ne_nil L (2 * k + 1) _ h (g.right_exists hlt)

/-! ## (3) every parent item heads the plan of an existing node -/

theorem parent_occurrence_aux {node : Nat} {ir lf rf : Bool} {rs : Ranges}
    (L0 k0 : Nat) (rs0 : Ranges) :
    ∀ pre tail,
      planPre size bs ml filled root L0 k0 rs0 = pre ++ Chunk.parent node ir lf rf rs :: tail →
      ∃ L k post, L ≤ L0 ∧ rs ≠ [] ∧ nodeOf k L < filled ∧ queryLeaf bs ml L rs = false ∧
        (L = 0 → toBytes (midOf k bs) < size) ∧
        Chunk.parent node ir lf rf rs = nodeParent bs root L k rs ∧
        Chunk.parent node ir lf rf rs :: tail = planPre size bs ml filled root L k rs ++ post := by
  refine planPre_induct (size := size) (bs := bs) (ml := ml) (filled := filled) (root := root)
    (P := fun L0 _ _ p => ∀ pre tail, p = pre ++ Chunk.parent node ir lf rf rs :: tail →
      ∃ L k post, L ≤ L0 ∧ rs ≠ [] ∧ nodeOf k L < filled ∧ queryLeaf bs ml L rs = false ∧
        (L = 0 → toBytes (midOf k bs) < size) ∧
        Chunk.parent node ir lf rf rs = nodeParent bs root L k rs ∧
        Chunk.parent node ir lf rf rs :: tail = planPre size bs ml filled root L k rs ++ post)
    ?_ ?_ ?_ ?_ ?_ ?_ ?_ L0 k0 rs0
  · intro L k pre tail h
    exact absurd h (by simp)
  · intro k rs' _ _ pre tail h
    exact absurd h (by simp)
  · intro L k rs' _ _ ih pre tail h
    obtain ⟨L', k', post, hle, rest⟩ := ih pre tail h
    exact ⟨L', k', post, by omega, rest⟩
  · intro L k rs' _ _ _ pre tail h
    rcases List.cons_eq_append_iff.1 h with ⟨_, h2⟩ | ⟨pre', _, h2⟩
    · simp [nodeLeaf] at h2
    · exact absurd h2 (by simp)
  · intro k rs' _ _ _ _ pre tail h
    rcases List.cons_eq_append_iff.1 h with ⟨_, h2⟩ | ⟨pre', _, h2⟩
    · simp [nodeLeaf] at h2
    · exact absurd h2 (by simp)
  · intro k rs' hne hlt hq hh pre tail h
    rcases List.cons_eq_append_iff.1 h with ⟨_, h2⟩ | ⟨pre', _, h2⟩
    · have h3 := h2
      simp only [nodeParent, List.cons.injEq, Chunk.parent.injEq] at h3
      obtain ⟨⟨_, _, _, _, hrs⟩, _⟩ := h3
      subst hrs
      refine ⟨0, k, [], Nat.le_refl _, hne, hlt, hq, fun _ => hh, (List.cons.inj h2).1, ?_⟩
      rw [planPre_zero_parent hne hlt hq hh, List.append_nil]; exact h2
    · have hm : Chunk.parent node ir lf rf rs ∈
          (if (lq bs 0 k rs').isEmpty then [] else [leftLeaf bs k rs']) ++
          (if (rq bs 0 k rs').isEmpty then [] else [rightLeaf size bs k rs']) := by
        rw [h2]; simp
      rw [List.mem_append] at hm
      rcases hm with hm | hm <;> split at hm <;> simp [leftLeaf, rightLeaf] at hm
  · intro L k rs' hne hlt hq ih1 ih2 pre tail h
    rcases List.cons_eq_append_iff.1 h with ⟨_, h2⟩ | ⟨pre', _, h2⟩
    · have h3 := h2
      simp only [nodeParent, List.cons.injEq, Chunk.parent.injEq] at h3
      obtain ⟨⟨_, _, _, _, hrs⟩, _⟩ := h3
      subst hrs
      refine ⟨L + 1, k, [], Nat.le_refl _, hne, hlt, hq, fun h0 => absurd h0 (by omega),
        (List.cons.inj h2).1, ?_⟩
      rw [planPre_succ hne hlt hq, List.append_nil]; exact h2
    · rcases List.append_eq_append_iff.1 h2 with ⟨a', _, h3⟩ | ⟨c', h3, h4⟩
      · obtain ⟨L', k', post, hle, rest⟩ := ih2 a' tail h3
        exact ⟨L', k', post, by omega, rest⟩
      · rcases List.cons_eq_append_iff.1 h4 with ⟨_, h5⟩ | ⟨c'', hc, h5⟩
        · obtain ⟨L', k', post, hle, rest⟩ := ih2 [] tail (by rw [List.nil_append]; exact h5)
          exact ⟨L', k', post, by omega, rest⟩
        · subst hc
          obtain ⟨L', k', post, hle, h6, h7, h8, h9, h10, h11⟩ := ih1 pre' c'' h3
          refine ⟨L', k', post ++ planPre size bs ml filled root L (2 * k + 1) (rq bs (L + 1) k rs'),
            by omega, h6, h7, h8, h9, h10, ?_⟩
          rw [h5, ← List.append_assoc, ← h11]; rfl

/-- every parent item of a plan is the head of the plan of an existing node -/
theorem parent_occurrence {L0 k0 : Nat} {rs0 : Ranges} {pre tail : List Chunk} {node : Nat}
    {ir lf rf : Bool} {rs : Ranges}
    (h : planPre size bs ml filled root L0 k0 rs0 = pre ++ Chunk.parent node ir lf rf rs :: tail) :
    ∃ L k post, L ≤ L0 ∧ rs ≠ [] ∧ nodeOf k L < filled ∧ queryLeaf bs ml L rs = false ∧
      (L = 0 → toBytes (midOf k bs) < size) ∧
      Chunk.parent node ir lf rf rs = nodeParent bs root L k rs ∧
      Chunk.parent node ir lf rf rs :: tail = planPre size bs ml filled root L k rs ++ post :=
  parent_occurrence_aux L0 k0 rs0 pre tail h

end Bao.PlanPre
