import BaoModel.Ops1
import BaoProofs.Lemmas.SpecIndexStr
import BaoProofs.Props.C17

/-!
# Lemmas for `Props/C17SpecRound.lean`: the verdict of `round` never rejects the model

* strings: `String.splitOn ","` inverts joining comma-free tokens with `","` (`splitOn_comma`,
  `splitOn_intercalate_comma`; the proof follows the legacy `String.splitOnAux` on the list of
  characters exactly as `Lemmas/SpecIndexStr.lean` does for `" "`), `parseNatList_natList`,
  `natList_ne_panic`;
* range sets: membership changes only at boundaries (`par_succ_of_not_mem`, `par_const`,
  `par_flip`), hence the boundary-list tests `meetsB` / `insideB` of the verdict decide
  "the interval meets / lies inside the set" (`meetsB_iff`, `insideB_iff`);
* the verdict of `opRound` restated as named definitions (`roundModel`, `roundCore`,
  `roundVerdict`; `opRound_eq` ties them to the operation by `rfl`), `roundCore_none`;
* unit by unit: `chunks_unit`, `groups_unit`, `full_unit` (from the C17 theorems);
* `parseNatList_bad`, `roundModel_bad` (a kind other than the three).
-/

namespace Bao.SpecRound
open Bao Bao.Ops Bao.Proto Bao.Ranges
open Bao.SpecIndex (bsize bsize_append utf8ByteSize_eq_bsize getAux_at extract_at toNat?_toString
  mapM_toNat?_toString)

/-! ## `splitOn ","` -/

/-- list model of `splitOn ","`: `cur` is the token being read -/
def splitC : List Char → List Char → List (List Char)
  | cur, [] => [cur]
  | cur, c :: rest => if c = ',' then cur :: splitC [] rest else splitC (cur ++ [c]) rest

theorem cm_toList : ("," : String).toList = [','] := by rfl

theorem splitOnAux_comma (s : String) (rest : List Char) : ∀ (pre cur : List Char) (r : List String),
    s.toList = pre ++ cur ++ rest →
    String.splitOnAux s "," ⟨bsize pre⟩ ⟨bsize (pre ++ cur)⟩ 0 r
      = r.reverse ++ (splitC cur rest).map String.ofList := by
  induction rest with
  | nil =>
    intro pre cur r h
    rw [String.splitOnAux]
    have hend : String.Pos.Raw.atEnd s ⟨bsize (pre ++ cur)⟩ = true := by
      simp only [String.Pos.Raw.atEnd, utf8ByteSize_eq_bsize, h, List.append_nil, ge_iff_le,
        Nat.le_refl, decide_true]
    rw [if_pos hend]
    simp only [List.reverse_cons, splitC, List.map_cons, List.map_nil]
    rw [extract_at s pre cur [] h]
  | cons c rest ih =>
    intro pre cur r h
    have hc := Char.utf8Size_pos c
    rw [String.splitOnAux]
    have hend : ¬ String.Pos.Raw.atEnd s ⟨bsize (pre ++ cur)⟩ = true := by
      simp only [String.Pos.Raw.atEnd, utf8ByteSize_eq_bsize, h, ge_iff_le, decide_eq_true_eq]
      rw [bsize_append (pre ++ cur)]
      simp only [bsize]
      omega
    rw [if_neg hend]
    have hget : String.Pos.Raw.get s ⟨bsize (pre ++ cur)⟩ = c := by
      unfold String.Pos.Raw.get
      rw [h]
      have := getAux_at (pre ++ cur) c rest 0
      simp only [Nat.zero_add] at this
      exact this
    have hget0 : String.Pos.Raw.get "," 0 = ',' := by rfl
    have hnext : String.Pos.Raw.next s ⟨bsize (pre ++ cur)⟩ = ⟨bsize (pre ++ cur ++ [c])⟩ := by
      unfold String.Pos.Raw.next
      rw [hget, bsize_append (pre ++ cur)]
      simp only [bsize, Nat.add_zero]
      rfl
    by_cases hsp : c = ','
    · subst hsp
      have hb : (String.Pos.Raw.get s ⟨bsize (pre ++ cur)⟩ == String.Pos.Raw.get "," 0) = true := by
        rw [hget, hget0]; rfl
      rw [if_pos hb]
      have hj : String.Pos.Raw.atEnd "," (String.Pos.Raw.next "," 0) = true := by rfl
      simp only [hj, if_true, hnext]
      have hun : (⟨bsize (pre ++ cur ++ [','])⟩ : String.Pos.Raw).unoffsetBy
          (String.Pos.Raw.next "," 0) = ⟨bsize (pre ++ cur)⟩ := by
        have : String.Pos.Raw.next "," 0 = ⟨1⟩ := by rfl
        rw [this, bsize_append (pre ++ cur)]
        simp only [bsize]
        ext
        simp
        rfl
      rw [hun, extract_at s pre cur (',' :: rest) h]
      have h' : s.toList = (pre ++ cur ++ [',']) ++ [] ++ rest := by
        rw [h]; simp
      have := ih (pre ++ cur ++ [',']) [] (String.ofList cur :: r) h'
      rw [List.append_nil] at this
      rw [this]
      simp [splitC]
    · have hb : ¬ (String.Pos.Raw.get s ⟨bsize (pre ++ cur)⟩ == String.Pos.Raw.get "," 0) = true := by
        rw [hget, hget0]; simpa using hsp
      rw [if_neg hb]
      have hun : (⟨bsize (pre ++ cur)⟩ : String.Pos.Raw).unoffsetBy 0 = ⟨bsize (pre ++ cur)⟩ := by
        ext; simp
      rw [hun, hnext]
      have h' : s.toList = pre ++ (cur ++ [c]) ++ rest := by
        rw [h]; simp
      have := ih pre (cur ++ [c]) r h'
      rw [← List.append_assoc] at this
      rw [this]
      simp [splitC, hsp]

theorem splitOn_comma (s : String) : s.splitOn "," = (splitC [] s.toList).map String.ofList := by
  unfold String.splitOn
  rw [if_neg (by decide)]
  have := splitOnAux_comma s s.toList [] [] [] (by simp)
  simpa [bsize] using this

theorem splitC_append (t : List Char) (ht : ',' ∉ t) (cur rest : List Char) :
    splitC cur (t ++ rest) = splitC (cur ++ t) rest := by
  induction t generalizing cur with
  | nil => simp
  | cons c t ih =>
    have hc : c ≠ ',' := fun e => ht (by rw [e]; exact List.mem_cons_self ..)
    have ht' : ',' ∉ t := fun h => ht (List.mem_cons_of_mem _ h)
    simp only [List.cons_append, splitC, if_neg hc]
    rw [ih ht', List.append_assoc]
    rfl

/-- the characters of `",".intercalate (a :: as)` after `a` -/
def joinTailC : List (List Char) → List Char
  | [] => []
  | t :: ts => ',' :: (t ++ joinTailC ts)

theorem splitC_join (ts : List (List Char)) (hts : ∀ t ∈ ts, ',' ∉ t) (cur : List Char) :
    splitC cur (joinTailC ts) = cur :: ts := by
  induction ts generalizing cur with
  | nil => rfl
  | cons t ts ih =>
    have ht := hts t (List.mem_cons_self ..)
    have hts' : ∀ u ∈ ts, ',' ∉ u := fun u hu => hts u (List.mem_cons_of_mem _ hu)
    simp only [joinTailC, splitC, if_true]
    rw [splitC_append t ht, ih hts', List.nil_append]

theorem toList_intercalate_cm (a : String) (as : List String) :
    (",".intercalate (a :: as)).toList = a.toList ++ joinTailC (as.map String.toList) := by
  induction as generalizing a with
  | nil => simp [joinTailC]
  | cons u l ih =>
    rw [String.intercalate_cons_cons, String.toList_append, String.toList_append, ih, cm_toList]
    simp [joinTailC]

/-- `splitOn ","` inverts joining comma-free tokens with `","` -/
theorem splitOn_intercalate_comma (toks : List String) (hne : toks ≠ [])
    (hsp : ∀ t ∈ toks, ',' ∉ t.toList) : (",".intercalate toks).splitOn "," = toks := by
  obtain ⟨a, as, rfl⟩ := List.exists_cons_of_ne_nil hne
  rw [splitOn_comma, toList_intercalate_cm]
  have ha := hsp a (List.mem_cons_self ..)
  have has : ∀ t ∈ as.map String.toList, ',' ∉ t := by
    intro t ht
    obtain ⟨u, hu, rfl⟩ := List.mem_map.1 ht
    exact hsp u (List.mem_cons_of_mem _ hu)
  rw [splitC_append a.toList ha, splitC_join _ has, List.nil_append]
  simp [String.ofList_toList]

/-- decimal numbers contain neither `,` nor `-` -/
theorem nat_chars (n : Nat) : ∀ c ∈ (toString n).toList, c.isDigit = true := by
  show ∀ c ∈ (Nat.repr n).toList, c.isDigit = true
  rw [Nat.toList_repr]
  intro c h
  exact Nat.isDigit_of_mem_toDigits (by omega) (by omega) h

theorem noComma_nat (n : Nat) : ',' ∉ (toString n).toList :=
  fun h => absurd (nat_chars n _ h) (by decide)

theorem nat_toList_ne_nil (n : Nat) : (toString n).toList ≠ [] := by
  show (Nat.repr n).toList ≠ []
  rw [Nat.toList_repr]
  exact Nat.toDigits_ne_nil

/-! ## `parseNatList` inverts `natList` -/

/-- the rendering of a non-empty list starts with a digit -/
theorem natList_cons_head (a : Nat) (l : List Nat) :
    ∃ c cs, (",".intercalate ((a :: l).map toString)).toList = c :: cs ∧ c.isDigit = true := by
  rw [List.map_cons, toList_intercalate_cm]
  obtain ⟨c, cs, hc⟩ := List.exists_cons_of_ne_nil (nat_toList_ne_nil a)
  have hd := nat_chars a c (by rw [hc]; exact List.mem_cons_self ..)
  exact ⟨c, cs ++ _, by rw [hc]; rfl, hd⟩

theorem ne_of_head_not_digit (a : Nat) (l : List Nat) (s : String) (c : Char) (cs : List Char)
    (hs : s.toList = c :: cs) (hc : c.isDigit = false) :
    ",".intercalate ((a :: l).map toString) ≠ s := by
  intro h
  obtain ⟨d, ds, hd, hdig⟩ := natList_cons_head a l
  rw [h, hs] at hd
  have : c = d := by injection hd
  rw [← this, hc] at hdig
  cases hdig

theorem natList_cons_ne_dash (a : Nat) (l : List Nat) :
    ",".intercalate ((a :: l).map toString) ≠ "-" :=
  ne_of_head_not_digit a l "-" '-' [] rfl (by decide)

theorem parseNatList_natList (l : List Nat) : parseNatList (natList l) = some l := by
  cases l with
  | nil => rfl
  | cons a l =>
    have hne := natList_cons_ne_dash a l
    unfold natList parseNatList
    simp only [List.isEmpty_cons, Bool.false_eq_true, if_false]
    have hb : (",".intercalate ((a :: l).map toString) == "-") = false := by
      simpa using hne
    rw [hb]
    simp only [Bool.false_eq_true, if_false]
    rw [splitOn_intercalate_comma _ (by simp)]
    · exact mapM_toNat?_toString (a :: l)
    · intro t ht
      obtain ⟨n, _, rfl⟩ := List.mem_map.1 ht
      exact noComma_nat n

theorem natList_ne_panic (l : List Nat) : natList l ≠ "panic" := by
  cases l with
  | nil => decide
  | cons a l =>
    unfold natList
    simp only [List.isEmpty_cons, Bool.false_eq_true, if_false]
    exact ne_of_head_not_digit a l "panic" 'p' ['a', 'n', 'i', 'c'] rfl (by decide)

/-! ## membership changes only at boundaries -/

theorem par_succ_of_not_mem (l : List Nat) (x : Nat) (h : x + 1 ∉ l) :
    par l (x + 1) = par l x := by
  induction l with
  | nil => rfl
  | cons a l ih =>
    have ha : a ≠ x + 1 := fun e => h (by rw [e]; exact List.mem_cons_self ..)
    have hl := ih (fun hm => h (List.mem_cons_of_mem _ hm))
    have hd : decide (a ≤ x + 1) = decide (a ≤ x) := by
      apply decide_eq_decide.2; omega
    simp only [par, hl, hd]

/-- no boundary in `(lo, lo + d]`: same membership at `lo + d` as at `lo` -/
theorem par_const (l : List Nat) (lo : Nat) : ∀ d, (∀ b ∈ l, ¬ (lo < b ∧ b ≤ lo + d)) →
    par l (lo + d) = par l lo := by
  intro d
  induction d with
  | zero => intro _; rfl
  | succ d ih =>
    intro h
    rw [← Nat.add_assoc, par_succ_of_not_mem l (lo + d) (fun hm => h _ hm ⟨by omega, by omega⟩)]
    exact ih (fun b hb hh => h b hb ⟨hh.1, by omega⟩)

/-- membership flips at every boundary of a strictly sorted list -/
theorem par_flip {l : List Nat} (h : WF l = true) (x : Nat) (hx : x + 1 ∈ l) :
    par l (x + 1) = !par l x := by
  induction l with
  | nil => cases hx
  | cons a l ih =>
    have hlt := WF_head_lt h
    have hwf := WF_tail h
    by_cases ha : a = x + 1
    · have hnot : x + 1 ∉ l := fun hm => by have := hlt _ hm; omega
      have h1 : decide (a ≤ x + 1) = true := by simp [ha]
      have h2 : decide (a ≤ x) = false := by simp [ha]
      simp only [par, par_succ_of_not_mem l x hnot, h1, h2]
      cases par l x <;> rfl
    · have hm : x + 1 ∈ l := by
        rcases List.mem_cons.1 hx with e | e
        · exact absurd e.symm ha
        · exact e
      have hd : decide (a ≤ x + 1) = decide (a ≤ x) := by
        apply decide_eq_decide.2; omega
      simp only [par, ih hwf hm, hd]
      cases decide (a ≤ x) <;> cases par l x <;> rfl

/-! ## the boundary-list tests of the verdict -/

/-- "the interval `[lo, hi)` meets the set": the test of the verdict (`meets`, `outAny`) -/
def meetsB (R : List Nat) (lo hi : Nat) : Bool :=
  mem R lo || R.any fun b => lo < b && b < hi && mem R b

/-- "the interval `[lo, hi)` lies inside the set": the test of the verdict (`inside`, `outHas`) -/
def insideB (R : List Nat) (lo hi : Nat) : Bool :=
  mem R lo && !(R.any fun b => lo < b && b < hi)

theorem meetsB_iff {R : List Nat} (h : WF R = true) {lo hi : Nat} (hlt : lo < hi) :
    meetsB R lo hi = true ↔ ∃ x, lo ≤ x ∧ x < hi ∧ C17.Mem R x := by
  unfold meetsB C17.Mem mem
  simp only [Bool.or_eq_true, List.any_eq_true, Bool.and_eq_true, decide_eq_true_eq]
  constructor
  · rintro (h0 | ⟨b, _, ⟨h1, h2⟩, h3⟩)
    · exact ⟨lo, Nat.le_refl _, hlt, h0⟩
    · exact ⟨b, Nat.le_of_lt h1, h2, h3⟩
  · rintro ⟨x, h1, h2, h3⟩
    obtain ⟨d, rfl⟩ : ∃ d, x = lo + d := ⟨x - lo, by omega⟩
    clear h1
    induction d with
    | zero => exact Or.inl h3
    | succ d ih =>
      by_cases hc : contains R (lo + d) = true
      · exact ih (by omega) hc
      · have hm : lo + d + 1 ∈ R := by
          apply Classical.byContradiction
          intro hn
          have := par_succ_of_not_mem R (lo + d) hn
          rw [← contains_eq_par h, ← contains_eq_par h] at this
          rw [← Nat.add_assoc, this] at h3
          exact hc h3
        exact Or.inr ⟨lo + d + 1, hm, ⟨by omega, by omega⟩, h3⟩

theorem insideB_iff {R : List Nat} (h : WF R = true) {lo hi : Nat} (hlt : lo < hi) :
    insideB R lo hi = true ↔ ∀ x, lo ≤ x → x < hi → C17.Mem R x := by
  unfold insideB C17.Mem mem
  simp only [Bool.and_eq_true, Bool.not_eq_true', List.any_eq_false, Bool.and_eq_true,
    decide_eq_true_eq]
  constructor
  · rintro ⟨h0, hno⟩ x h1 h2
    obtain ⟨d, rfl⟩ : ∃ d, x = lo + d := ⟨x - lo, by omega⟩
    rw [contains_eq_par h, par_const R lo d (fun b hb hh => hno b hb ⟨hh.1, by omega⟩),
      ← contains_eq_par h]
    exact h0
  · intro hall
    refine ⟨hall lo (Nat.le_refl _) hlt, ?_⟩
    rintro b hb ⟨h1, h2⟩
    obtain ⟨x, rfl⟩ : ∃ x, b = x + 1 := ⟨b - 1, by omega⟩
    have hf := par_flip h x hb
    rw [← contains_eq_par h, ← contains_eq_par h, hall (x + 1) (by omega) h2,
      hall x (by omega) (by omega)] at hf
    cases hf

/-- on an interval where membership is constant (`↔ Q`) both tests answer `Q` -/
theorem tests_of_const {R : List Nat} (h : WF R = true) {lo hi : Nat} (hlt : lo < hi) (Q : Prop)
    (hQ : ∀ x, lo ≤ x → x < hi → (C17.Mem R x ↔ Q)) :
    (insideB R lo hi = true ↔ Q) ∧ (meetsB R lo hi = true ↔ Q) := by
  rw [insideB_iff h hlt, meetsB_iff h hlt]
  constructor
  · constructor
    · intro hall
      exact (hQ lo (Nat.le_refl _) hlt).1 (hall lo (Nat.le_refl _) hlt)
    · intro q x h1 h2
      exact (hQ x h1 h2).2 q
  · constructor
    · rintro ⟨x, h1, h2, h3⟩
      exact (hQ x h1 h2).1 h3
    · intro q
      exact ⟨lo, Nat.le_refl _, hlt, (hQ lo (Nat.le_refl _) hlt).2 q⟩

/-! ## the verdict of `opRound` as named definitions -/

def roundModel (kind : String) (rs : List Nat) (bs : Nat) : String :=
  match kind with
  | "chunks" => natList (Ranges.roundUpToChunks rs)
  | "groups" => natList (Ranges.roundUpToChunkGroups rs bs)
  | "full" => natList (Ranges.fullChunkGroups rs bs)
  | _ => "bad-kind"

/-- unit size: bytes per chunk for `chunks`, chunks per group otherwise -/
def gOf (kind : String) (bs : Nat) : Nat := if kind == "chunks" then 1024 else 2 ^ bs

def loOf (g u : Nat) : Nat := u * g
def hiOf (g u : Nat) : Nat := min ((u + 1) * g) U64

def wantB (kind : String) (rs : List Nat) (g u : Nat) : Bool :=
  if kind == "full" then insideB rs (loOf g u) (hiOf g u) else meetsB rs (loOf g u) (hiOf g u)

def outHasB (kind : String) (out : List Nat) (g u : Nat) : Bool :=
  if kind == "chunks" then mem out u else insideB out (loOf g u) (hiOf g u)

def outAnyB (kind : String) (out : List Nat) (g u : Nat) : Bool :=
  if kind == "chunks" then mem out u else meetsB out (loOf g u) (hiOf g u)

/-- the probe units -/
def unitsOf (kind : String) (rs out : List Nat) (g : Nat) : List Nat :=
  let units := (rs ++ out.map (· * (if kind == "chunks" then 1024 else 1))).flatMap fun b =>
    let u := b / g
    [u - 1, u, u + 1]
  let lastUnit := (U64 - 1) / g
  (lastUnit :: units).filter (· ≤ lastUnit)

/-- the verdict on a parsed output -/
def roundCore (kind : String) (rs : List Nat) (bs : Nat) (out : List Nat) : Option String :=
  if !Ranges.WF out then some "not strictly sorted" else
  let g := gOf kind bs
  match (unitsOf kind rs out g).find? fun u =>
      wantB kind rs g u != outHasB kind out g u || outHasB kind out g u != outAnyB kind out g u with
  | none => none
  | some u =>
    some s!"unit {u}: want {wantB kind rs g u} got {outHasB kind out g u}/{outAnyB kind out g u}"

/-- the verdict on the implementation's output string -/
def roundVerdict (kind : String) (rs : List Nat) (bs : Nat) (impl : String) : Option String :=
  if impl == "panic" then some "panic" else
  match parseNatList impl with
  | none => some "malformed"
  | some out => roundCore kind rs bs out

/-- the named definitions ARE the `let`s of `opRound` -/
theorem opRound_eq (kind rs bs impl : String) (R : List Nat) (b : Nat)
    (h1 : parseNatList rs = some R) (h2 : bs.toNat? = some b) :
    (opRound [kind, rs, bs] impl).model = roundModel kind R b ∧
    (opRound [kind, rs, bs] impl).specFail = roundVerdict kind R b impl := by
  unfold opRound
  simp only [h1, h2]
  exact ⟨rfl, rfl⟩

/-- every unit of the probe list is at most the last unit -/
theorem le_last_of_mem_units {kind : String} {rs out : List Nat} {g u : Nat}
    (h : u ∈ unitsOf kind rs out g) : u ≤ (U64 - 1) / g := by
  unfold unitsOf at h
  simpa using (List.mem_filter.1 h).2

/-- the verdict on a parsed output is `none` as soon as the output is strictly sorted and the three
tests agree on every unit up to the last one -/
theorem roundCore_none (kind : String) (rs : List Nat) (bs : Nat) (out : List Nat)
    (hwf : Ranges.WF out = true)
    (hu : ∀ u, u ≤ (U64 - 1) / gOf kind bs →
      wantB kind rs (gOf kind bs) u = outHasB kind out (gOf kind bs) u ∧
      outHasB kind out (gOf kind bs) u = outAnyB kind out (gOf kind bs) u) :
    roundCore kind rs bs out = none := by
  unfold roundCore
  rw [hwf]
  simp only [Bool.not_true, Bool.false_eq_true, if_false]
  have hf : (unitsOf kind rs out (gOf kind bs)).find? (fun u =>
      wantB kind rs (gOf kind bs) u != outHasB kind out (gOf kind bs) u ||
      outHasB kind out (gOf kind bs) u != outAnyB kind out (gOf kind bs) u) = none := by
    rw [List.find?_eq_none]
    intro u hmem
    obtain ⟨e1, e2⟩ := hu u (le_last_of_mem_units hmem)
    rw [e1, e2]
    simp
  rw [hf]

/-! ## the three tests on the model's output, unit by unit -/

theorem U64_eq : U64 = 2 ^ 64 := by decide

/-- arithmetic of the unit `u ≤ lastUnit` of size `p`: its chunks inside the u64 universe are
`[lo, hi)`, a non-empty interval -/
theorem unit_iff {p : Nat} (hp : 0 < p) (u : Nat) (hu : u ≤ (U64 - 1) / p) (x : Nat) :
    (x < 2 ^ 64 ∧ x / p = u) ↔ (loOf p u ≤ x ∧ x < hiOf p u) := by
  have h1 : u * p ≤ U64 - 1 := (le_div_iff' hp _ _).1 hu
  have h2 : x / p = u ↔ u * p ≤ x ∧ x < u * p + p := by
    rw [← le_div_iff' hp, ← div_le_iff' hp]; omega
  rw [h2]
  unfold loOf hiOf
  rw [Nat.add_mul, Nat.one_mul, U64_eq] at *
  generalize u * p = m at *
  omega

theorem unit_facts {p : Nat} (hp : 0 < p) (u : Nat) (hu : u ≤ (U64 - 1) / p) :
    loOf p u < hiOf p u ∧ loOf p u / p = u := by
  have h1 : u * p ≤ U64 - 1 := (le_div_iff' hp _ _).1 hu
  refine ⟨?_, by unfold loOf; exact Nat.mul_div_cancel _ hp⟩
  unfold loOf hiOf
  rw [Nat.add_mul, Nat.one_mul, U64_eq] at *
  generalize u * p = m at *
  omega

/-- `chunks`: "chunk `u` meets the byte set" (boundary-list test) = membership in the model's output -/
theorem chunks_unit {R : List Nat} (h : WF R = true) (hN : C17.Bounded R) (u : Nat)
    (hu : u ≤ (U64 - 1) / 1024) :
    meetsB R (loOf 1024 u) (hiOf 1024 u) = mem (roundUpToChunks R) u := by
  have hlt := (unit_facts (p := 1024) (by omega) u hu).1
  rw [Bool.eq_iff_iff, meetsB_iff h hlt]
  show _ ↔ C17.Mem (roundUpToChunks R) u
  rw [C17.chunks h hN u]
  unfold loOf hiOf U64 at *
  constructor
  · rintro ⟨x, h1, h2, h3⟩
    exact ⟨x, by omega, by omega, h3⟩
  · rintro ⟨x, h1, h2, h3⟩
    exact ⟨x, by omega, by omega, h3⟩

/-- `groups`: on the group `u` the model's output is uniform, and it contains the group iff the
group meets the input (boundary-list tests) -/
theorem groups_unit {R : List Nat} (b : Nat) (h : WF R = true) (hN : C17.Bounded R) (u : Nat)
    (hu : u ≤ (U64 - 1) / 2 ^ b) :
    meetsB R (loOf (2 ^ b) u) (hiOf (2 ^ b) u)
      = insideB (roundUpToChunkGroups R b) (loOf (2 ^ b) u) (hiOf (2 ^ b) u) ∧
    insideB (roundUpToChunkGroups R b) (loOf (2 ^ b) u) (hiOf (2 ^ b) u)
      = meetsB (roundUpToChunkGroups R b) (loOf (2 ^ b) u) (hiOf (2 ^ b) u) := by
  have hp : 0 < 2 ^ b := Nat.two_pow_pos b
  obtain ⟨hlt, hdiv⟩ := unit_facts hp u hu
  have hw := (C17.groups_wf b h hN).1
  have hQ : ∀ x, loOf (2 ^ b) u ≤ x → x < hiOf (2 ^ b) u →
      (C17.Mem (roundUpToChunkGroups R b) x ↔
        ∃ y, loOf (2 ^ b) u ≤ y ∧ y < hiOf (2 ^ b) u ∧ C17.Mem R y) := by
    intro x h1 h2
    obtain ⟨hx, hxu⟩ := (unit_iff hp u hu x).2 ⟨h1, h2⟩
    rw [C17.groups b h hN x hx, hxu]
    constructor
    · rintro ⟨y, a1, a2, a3⟩
      obtain ⟨b1, b2⟩ := (unit_iff hp u hu y).1 ⟨a1, a2⟩
      exact ⟨y, b1, b2, a3⟩
    · rintro ⟨y, b1, b2, a3⟩
      obtain ⟨a1, a2⟩ := (unit_iff hp u hu y).2 ⟨b1, b2⟩
      exact ⟨y, a1, a2, a3⟩
  obtain ⟨t1, t2⟩ := tests_of_const hw hlt _ hQ
  have t3 := meetsB_iff h hlt
  constructor
  · rw [Bool.eq_iff_iff, t1, t3]
  · rw [Bool.eq_iff_iff, t1, t2]

/-- `full`: on the group `u` the model's output is uniform, and it contains the group iff the
group lies inside the input (boundary-list tests) -/
theorem full_unit {R : List Nat} (b : Nat) (hb : b ≤ 64) (h : WF R = true) (hN : C17.Bounded R)
    (u : Nat) (hu : u ≤ (U64 - 1) / 2 ^ b) :
    insideB R (loOf (2 ^ b) u) (hiOf (2 ^ b) u)
      = insideB (fullChunkGroups R b) (loOf (2 ^ b) u) (hiOf (2 ^ b) u) ∧
    insideB (fullChunkGroups R b) (loOf (2 ^ b) u) (hiOf (2 ^ b) u)
      = meetsB (fullChunkGroups R b) (loOf (2 ^ b) u) (hiOf (2 ^ b) u) := by
  have hp : 0 < 2 ^ b := Nat.two_pow_pos b
  obtain ⟨hlt, hdiv⟩ := unit_facts hp u hu
  have hw := (C17.full_wf b hb h hN).1
  have hQ : ∀ x, loOf (2 ^ b) u ≤ x → x < hiOf (2 ^ b) u →
      (C17.Mem (fullChunkGroups R b) x ↔
        ∀ y, loOf (2 ^ b) u ≤ y → y < hiOf (2 ^ b) u → C17.Mem R y) := by
    intro x h1 h2
    obtain ⟨hx, hxu⟩ := (unit_iff hp u hu x).2 ⟨h1, h2⟩
    rw [C17.full b hb h hN x hx, hxu]
    constructor
    · intro hall y b1 b2
      obtain ⟨a1, a2⟩ := (unit_iff hp u hu y).2 ⟨b1, b2⟩
      exact hall y a1 a2
    · intro hall y a1 a2
      obtain ⟨b1, b2⟩ := (unit_iff hp u hu y).1 ⟨a1, a2⟩
      exact hall y b1 b2
  obtain ⟨t1, t2⟩ := tests_of_const hw hlt _ hQ
  have t3 := insideB_iff h hlt
  constructor
  · rw [Bool.eq_iff_iff, t1, t3]
  · rw [Bool.eq_iff_iff, t1, t2]

/-! ## a kind other than the three -/

theorem parseNatList_bad : parseNatList "bad-kind" = none := by
  have hs : "bad-kind".splitOn "," = ["bad-kind"] := by rw [splitOn_comma]; rfl
  have hn : "bad-kind".toNat? = none := by
    apply String.toNat?_eq_none
    rw [Bool.eq_false_iff]
    intro h
    have := (String.isNat_iff.1 h).2.1 'b' (by decide)
    revert this
    decide
  unfold parseNatList
  rw [if_neg (by decide), hs]
  simp [List.mapM_cons, hn]

theorem roundModel_bad (kind : String) (R : List Nat) (b : Nat)
    (hk : ¬ (kind = "chunks" ∨ kind = "groups" ∨ kind = "full")) :
    roundModel kind R b = "bad-kind" := by
  unfold roundModel
  split
  · exact absurd (Or.inl rfl) hk
  · exact absurd (Or.inr (Or.inl rfl)) hk
  · exact absurd (Or.inr (Or.inr rfl)) hk
  · rfl

end Bao.SpecRound
