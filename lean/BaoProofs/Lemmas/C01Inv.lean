import BaoModel.Codec
import BaoModel.Spec
import BaoProofs.Lemmas.HashCF

/-!
# The decoder invariant behind C01

Every hash on the decoder's stack is the chaining value of a *subtree interval of the true blob*
(`TrueCv`).  Under `CollisionFree hf` one decoder step (either flavour, ANY plan iterator state,
ANY stream) that yields an item

* yields, for a leaf, exactly the bytes of a subtree interval of the true blob at its true offset
  (`TrueLeaf`),
* yields, for a parent, exactly the stored pair `Spec.pair hf d k L` of an existing node `(k, L)`
  of the true tree (`TruePair`),

and leaves only `TrueCv` hashes on the stack.
-/

set_option maxRecDepth 8192   -- `omega` with the literal 1024 under a `Nat` subtraction needs it

namespace Bao.C01

open Bao.Spec

variable {H : Type}

/-- `[c, e)` is the chunk interval of a subtree of the BLAKE3 tree of `d`: `c` is a multiple of
some `2^M`, the interval is `[c, c + 2^M)` clipped to the blob, and it is not empty -/
def Sub (d : List UInt8) (c e : Nat) : Prop :=
  ∃ M, 2 ^ M ∣ c ∧ e = min (c + 2 ^ M) (nChunks d.length) ∧ c < nChunks d.length

/-- `h` is the chaining value of a subtree of the true blob (root or not) -/
def TrueCv (hf : HashFns H) (d : List UInt8) (h : H) : Prop :=
  ∃ c e f, Sub d c e ∧ h = Spec.cv hf d c e f

/-- `bytes` are the bytes of a subtree interval of the true blob and `off` is where they live -/
def TrueLeaf (d : List UInt8) (off : Nat) (bytes : List UInt8) : Prop :=
  ∃ c e, Sub d c e ∧ off = c * 1024 ∧ bytes = Spec.slice d c e

/-- `(l, r)` is the hash pair of an existing node `(k, L)` of the true tree of `d`; their parent
hash is the chaining value of that node's interval -/
def TruePair (hf : HashFns H) (d : List UInt8) (l r : H) : Prop :=
  ∃ k L, L < 64 ∧ midOf k L < nChunks d.length ∧ (l, r) = Spec.pair hf d k L ∧
    ∀ f, hf.parentCv l r f =
      Spec.cv hf d (startOf k L) (min (endOf k L) (nChunks d.length)) f

/-- soundness of one yielded item (nothing is claimed about the `node` label of a parent: with a
wrong claimed size it need not be a node of the true tree) -/
def ItemOk (hf : HashFns H) (d : List UInt8) : Item H → Prop
  | .leaf off bytes => TrueLeaf d off bytes
  | .parent _ l r => TruePair hf d l r

def StackOk (hf : HashFns H) (d : List UInt8) (st : List H) : Prop := ∀ h ∈ st, TrueCv hf d h

/-! ## arithmetic of chunk intervals -/

theorem nChunks_pos (len : Nat) : 1 ≤ nChunks len := by simp [nChunks]; omega

theorem nChunks_ge (len : Nat) : len ≤ nChunks len * 1024 := by simp [nChunks]; omega

theorem nChunks_lt {len : Nat} (h : 0 < len) : (nChunks len - 1) * 1024 < len := by
  simp [nChunks]; omega

theorem slice_length (d : List UInt8) (a b : Nat) :
    (slice d a b).length = min ((b - a) * 1024) (d.length - a * 1024) := by
  simp [slice, List.length_take, List.length_drop]

theorem slice_full (d : List UInt8) : slice d 0 (nChunks d.length) = d := by
  have := nChunks_ge d.length
  simp only [slice, Nat.zero_mul, List.drop_zero, Nat.sub_zero]
  exact List.take_of_length_le this

theorem slice_take {d : List UInt8} {c e p : Nat} (h : c + p ≤ e) :
    (slice d c e).take (p * 1024) = slice d c (c + p) := by
  simp only [slice, List.take_take]
  have a : min (p * 1024) ((e - c) * 1024) = (c + p - c) * 1024 := by omega
  rw [a]

theorem slice_drop {d : List UInt8} {c e p : Nat} (h : c + p ≤ e) :
    (slice d c e).drop (p * 1024) = slice d (c + p) e := by
  simp only [slice, List.drop_take, List.drop_drop]
  have a : (e - c) * 1024 - p * 1024 = (e - (c + p)) * 1024 := by omega
  have b : c * 1024 + p * 1024 = (c + p) * 1024 := by omega
  rw [a, b]

theorem Sub.root (d : List UInt8) : Sub d 0 (nChunks d.length) := by
  refine ⟨nChunks d.length, Nat.dvd_zero _, ?_, nChunks_pos _⟩
  have : nChunks d.length < 2 ^ nChunks d.length := Nat.lt_two_pow_self
  omega

theorem Sub.start_le {d : List UInt8} {c e : Nat} (h : Sub d c e) : c * 1024 ≤ d.length := by
  obtain ⟨M, -, -, hc⟩ := h
  by_cases h0 : 0 < d.length
  · have := nChunks_lt h0; omega
  · have : d.length = 0 := by omega
    simp [nChunks, this] at hc
    omega

/-- the bytes of a true leaf are the blob's bytes at that offset -/
theorem TrueLeaf.spec {d : List UInt8} {off : Nat} {bytes : List UInt8} (h : TrueLeaf d off bytes) :
    off % 1024 = 0 ∧ off + bytes.length ≤ d.length ∧ bytes = (d.drop off).take bytes.length := by
  obtain ⟨c, e, hs, rfl, rfl⟩ := h
  have h1 := hs.start_le
  refine ⟨Nat.mul_mod_left c 1024, ?_, ?_⟩
  · rw [slice_length]; omega
  · simp only [slice, List.length_take, List.length_drop]
    rw [List.take_eq_take_iff]
    simp only [List.length_drop]
    omega

private theorem split_arith1 {c e n len p Q : Nat} (he : e = min (c + Q) n)
    (h1 : p * 1024 < min ((e - c) * 1024) (len - c * 1024)) : p < Q := by omega

private theorem split_arith2 {c e n len p P Q : Nat} (hP : P = p + p) (hPQ : P ≤ Q)
    (he : e = min (c + Q) n) (hn1 : (n - 1) * 1024 < len)
    (h1 : p * 1024 < min ((e - c) * 1024) (len - c * 1024))
    (h2 : min ((e - c) * 1024) (len - c * 1024) ≤ P * 1024) :
    c + p = min (c + p) n ∧ e = min (c + p + p) n ∧ c + p < n ∧ e = min (c + P) n := by omega

/-- splitting a subtree interval at the level `L` determined by its byte length -/
theorem Sub.split {d : List UInt8} {c e L : Nat} (h : Sub d c e)
    (h1 : 2 ^ L * 1024 < (slice d c e).length) (h2 : (slice d c e).length ≤ 2 ^ (L + 1) * 1024) :
    Sub d c (c + 2 ^ L) ∧ Sub d (c + 2 ^ L) e ∧ c + 2 ^ L < nChunks d.length ∧
      2 ^ (L + 1) ∣ c ∧ e = min (c + 2 ^ (L + 1)) (nChunks d.length) := by
  obtain ⟨M, hdvd, he, hc⟩ := h
  rw [slice_length] at h1 h2
  have hpos : 0 < d.length := by omega
  have hn1 := nChunks_lt hpos
  have hLM : L < M :=
    (Nat.pow_lt_pow_iff_right (a := 2) (by decide)).1 (split_arith1 he h1)
  have hPQ : 2 ^ (L + 1) ≤ 2 ^ M := Nat.pow_le_pow_right (by decide) hLM
  have hd1 : 2 ^ (L + 1) ∣ c := Nat.dvd_trans (Nat.pow_dvd_pow 2 hLM) hdvd
  have hd0 : 2 ^ L ∣ c := Nat.dvd_trans (Nat.pow_dvd_pow 2 (Nat.le_succ L)) hd1
  have hd2 : 2 ^ L ∣ c + 2 ^ L := Nat.dvd_add hd0 (Nat.dvd_refl _)
  have hP : 2 ^ (L + 1) = 2 ^ L + 2 ^ L := by rw [Nat.pow_succ]; omega
  obtain ⟨a1, a2, a3, a4⟩ := split_arith2 hP hPQ he hn1 h1 h2
  exact ⟨⟨L, hd0, a1, hc⟩, ⟨L, hd2, a2, a3⟩, a3, hd1, a4⟩

/-! ## the two checks of the decoder -/

section
variable {hf : HashFns H} {d : List UInt8}

theorem TrueCv.root (hf : HashFns H) (d : List UInt8) : TrueCv hf d (Spec.root hf d) :=
  ⟨0, _, true, Sub.root d, rfl⟩

theorem slice_length_le (d : List UInt8) (a b : Nat) : (slice d a b).length ≤ d.length := by
  rw [slice_length]; omega

/-- a hash of the true tree that passes the parent check: the pair read from the stream is the
true pair of a node of the true tree, and both children are hashes of the true tree -/
theorem parent_check (cf : CollisionFree hf) (hd : d.length ≤ 2 ^ 64 * 1024) {h l r : H}
    {isRoot : Bool} (ht : TrueCv hf d h) (heq : h = hf.parentCv l r isRoot) :
    TruePair hf d l r ∧ TrueCv hf d l ∧ TrueCv hf d r := by
  obtain ⟨c, e, f, hs, rfl⟩ := ht
  unfold Spec.cv at heq
  have hlen : (slice d c e).length ≤ 2 ^ 64 * 1024 := Nat.le_trans (slice_length_le d c e) hd
  rcases hashSubtree_shape (hf := hf) hlen c f with ⟨_, e1⟩ | ⟨L, hL, ha, hb, e1⟩
  · rw [e1] at heq
    exact (cf.chunk_ne_parent heq).elim
  · have hpar := e1
    rw [heq] at e1
    obtain ⟨hl, hr, hflag⟩ := cf.parent_inj e1
    obtain ⟨s1, s2, hmid, hdvd, he⟩ := hs.split ha hb
    have hce : c + 2 ^ L ≤ e := by
      generalize 2 ^ (L + 1) = P at *
      generalize 2 ^ L = p at *
      omega
    rw [slice_take hce] at hl
    rw [slice_drop hce] at hr
    obtain ⟨k, hk⟩ := hdvd
    have hstart : startOf k L = c := by rw [startOf, hk, Nat.mul_comm]
    have hmidOf : midOf k L = c + 2 ^ L := by rw [midOf, hk, Nat.mul_comm]
    have hend : endOf k L = c + 2 ^ (L + 1) := by rw [endOf, hk, Nat.add_mul, Nat.mul_comm]; omega
    refine ⟨⟨k, L, hL, by omega, ?_, ?_⟩, ⟨c, c + 2 ^ L, false, s1, hl⟩, ⟨c + 2 ^ L, e, false, s2, hr⟩⟩
    · simp only [Spec.pair, hstart, hmidOf, hend, ← he]
      rw [hl, hr]; rfl
    · intro f'
      rw [hstart, hend, ← he, hl, hr]
      unfold Spec.cv
      rw [hashSubtree_parent ha hb hL, slice_take hce, slice_drop hce]

/-- a hash of the true tree that passes the leaf check: the bytes read from the stream are the
bytes of that subtree of the true blob, at the right offset -/
theorem leaf_check (cf : CollisionFree hf) {h : H} {start : Nat} {buf : List UInt8}
    {isRoot : Bool} (ht : TrueCv hf d h) (heq : h = hashSubtree hf start buf isRoot) :
    TrueLeaf d (toBytes start) buf := by
  obtain ⟨c, e, f, hs, rfl⟩ := ht
  obtain ⟨hc, hb, _⟩ := cv_inj cf heq
  exact ⟨c, e, hs, by rw [toBytes, hc], hb.symm⟩

theorem StackOk.push2 {st : List H} {l r : H} (hs : StackOk hf d st) (hl : TrueCv hf d l)
    (hr : TrueCv hf d r) (left right : Bool) :
    StackOk hf d (if left then l :: (if right then r :: st else st)
      else (if right then r :: st else st)) := by
  intro x hx
  cases left <;> cases right <;> simp at hx
  · exact hs x hx
  · rcases hx with rfl | hx
    · exact hr
    · exact hs x hx
  · rcases hx with rfl | hx
    · exact hl
    · exact hs x hx
  · rcases hx with rfl | rfl | hx
    · exact hl
    · exact hr
    · exact hs x hx

/-! ## one decoder step -/

variable [BEq H] [LawfulBEq H]

theorem eq_of_not_bne {a b : H} (h : ¬ (a != b) = true) : a = b := by simpa using h

theorem nextSync_sound (cf : CollisionFree hf) (hd : d.length ≤ 2 ^ 64 * 1024) (dec : Dec H)
    (hs : StackOk hf d dec.stack) {i : Item H} {dec' : Dec H}
    (h : dec.nextSync hf = .item i dec') : ItemOk hf d i ∧ StackOk hf d dec'.stack := by
  unfold Dec.nextSync at h
  split at h
  · cases h
  · cases h
  · -- parent
    split at h
    · cases h
    · simp only at h
      split at h
      · cases h
      · rename_i parentHash stack hst
        rw [hst] at hs
        split at h
        · cases h
        · rename_i hne
          obtain ⟨hp, hl, hr⟩ :=
            parent_check cf hd (hs _ (List.mem_cons_self ..)) (eq_of_not_bne hne)
          injection h with hi hdec
          subst hi hdec
          refine ⟨hp, ?_⟩
          exact StackOk.push2 (fun x hx => hs x (List.mem_cons_of_mem _ hx)) hl hr _ _
  · -- leaf
    split at h
    · cases h
    · simp only at h
      split at h
      · cases h
      · rename_i leafHash stack hst
        rw [hst] at hs
        split at h
        · cases h
        · rename_i hne
          have hlf := leaf_check cf (hs _ (List.mem_cons_self ..)) (eq_of_not_bne hne)
          injection h with hi hdec
          subst hi hdec
          exact ⟨hlf, fun x hx => hs x (List.mem_cons_of_mem _ hx)⟩

theorem nextFsm_sound (cf : CollisionFree hf) (hd : d.length ≤ 2 ^ 64 * 1024) (dec : Dec H)
    (hs : StackOk hf d dec.stack) {i : Item H} {dec' : Dec H}
    (h : dec.nextFsm hf = .item i dec') : ItemOk hf d i ∧ StackOk hf d dec'.stack := by
  unfold Dec.nextFsm at h
  split at h
  · cases h
  · cases h
  · -- parent
    split at h
    · cases h
    · simp only at h
      split at h
      · cases h
      · rename_i parentHash stack hst
        rw [hst] at hs
        split at h
        · cases h
        · rename_i hne
          obtain ⟨hp, hl, hr⟩ :=
            parent_check cf hd (hs _ (List.mem_cons_self ..)) (eq_of_not_bne hne)
          injection h with hi hdec
          subst hi hdec
          refine ⟨hp, ?_⟩
          exact StackOk.push2 (fun x hx => hs x (List.mem_cons_of_mem _ hx)) hl hr _ _
  · -- leaf
    split at h
    · cases h
    · simp only at h
      split at h
      · cases h
      · rename_i leafHash stack hst
        rw [hst] at hs
        split at h
        · cases h
        · rename_i hne
          have hlf := leaf_check cf (hs _ (List.mem_cons_self ..)) (eq_of_not_bne hne)
          injection h with hi hdec
          subst hi hdec
          exact ⟨hlf, fun x hx => hs x (List.mem_cons_of_mem _ hx)⟩

theorem next_sound (cf : CollisionFree hf) (hd : d.length ≤ 2 ^ 64 * 1024) (fl : Flavour)
    (dec : Dec H) (hs : StackOk hf d dec.stack) {i : Item H} {dec' : Dec H}
    (h : dec.next hf fl = .item i dec') : ItemOk hf d i ∧ StackOk hf d dec'.stack := by
  cases fl
  · exact nextSync_sound cf hd dec hs h
  · exact nextFsm_sound cf hd dec hs h

/-! ## the drivers -/

theorem runAux_sound (cf : CollisionFree hf) (hd : d.length ≤ 2 ^ 64 * 1024) (fl : Flavour) :
    ∀ (fuel : Nat) (dec : Dec H), StackOk hf d dec.stack →
      ∀ i ∈ (Dec.runAux hf fl fuel dec).items, ItemOk hf d i := by
  intro fuel
  induction fuel with
  | zero => intro dec _ i hi; simp [Dec.runAux] at hi
  | succ fuel ih =>
    intro dec hs i hi
    unfold Dec.runAux at hi
    split at hi
    · simp at hi
    · simp at hi
    · simp at hi
    · rename_i it dec' hnext
      obtain ⟨hit, hs'⟩ := next_sound cf hd fl dec hs hnext
      simp only [List.mem_cons] at hi
      rcases hi with rfl | hi
      · exact hit
      · exact ih dec' hs' i hi

/-- the target after a list of positioned writes -/
def applyWrites (t : List UInt8) (ws : List (Nat × List UInt8)) : List UInt8 :=
  ws.foldl (fun t w => writeAt t w.1 w.2) t

/-- the outboard after a list of successful `save`s -/
def applySaves (hf : HashFns H) (ob : Store H) (ps : List (Nat × H × H)) : Store H :=
  ps.foldl (fun ob p => match ob.save hf p.1 p.2 with | .ok ob' => ob' | _ => ob) ob

theorem decodeRangesAux_sound (cf : CollisionFree hf) (hd : d.length ≤ 2 ^ 64 * 1024)
    (fl : Flavour) (tree : Tree) :
    ∀ (fuel : Nat) (dec : Dec H) (sink : Sink H) (ws : List (Nat × Nat)) (ss : List Nat),
      StackOk hf d dec.stack →
      ∃ (wl : List (Nat × List UInt8)) (pl : List (Nat × H × H)),
        (∀ w ∈ wl, TrueLeaf d w.1 w.2) ∧ (∀ p ∈ pl, TruePair hf d p.2.1 p.2.2) ∧
        (decodeRangesAux hf fl tree fuel dec sink ws ss).sink.target = applyWrites sink.target wl ∧
        (decodeRangesAux hf fl tree fuel dec sink ws ss).sink.ob = applySaves hf sink.ob pl := by
  intro fuel
  induction fuel with
  | zero => intro dec sink ws ss _; exact ⟨[], [], by simp, by simp, rfl, rfl⟩
  | succ fuel ih =>
    intro dec sink ws ss hs
    unfold decodeRangesAux
    split
    · exact ⟨[], [], by simp, by simp, rfl, rfl⟩
    · exact ⟨[], [], by simp, by simp, rfl, rfl⟩
    · exact ⟨[], [], by simp, by simp, rfl, rfl⟩
    · rename_i node l r dec' hnext
      obtain ⟨hit, hs'⟩ := next_sound cf hd fl dec hs hnext
      split
      · split
        · rename_i ob hsave
          obtain ⟨wl, pl, hw, hp, ht, ho⟩ := ih dec' { sink with ob } ws (node :: ss) hs'
          refine ⟨wl, (node, l, r) :: pl, hw, ?_, ht, ?_⟩
          · intro p hp'
            simp only [List.mem_cons] at hp'
            rcases hp' with rfl | hp'
            · exact hit
            · exact hp p hp'
          · rw [ho]
            simp only [applySaves, List.foldl_cons, hsave]
        · exact ⟨[], [], by simp, by simp, rfl, rfl⟩
        · exact ⟨[], [], by simp, by simp, rfl, rfl⟩
      · exact ih dec' sink ws ss hs'
    · rename_i off data dec' hnext
      obtain ⟨hit, hs'⟩ := next_sound cf hd fl dec hs hnext
      obtain ⟨wl, pl, hw, hp, ht, ho⟩ :=
        ih dec' { sink with target := writeAt sink.target off data } ((off, data.length) :: ws) ss hs'
      refine ⟨(off, data) :: wl, pl, ?_, hp, ?_, ho⟩
      · intro w hw'
        simp only [List.mem_cons] at hw'
        rcases hw' with rfl | hw'
        · exact hit
        · exact hw w hw'
      · rw [ht]; rfl

end

/-! ## writes of true leaves into a target of the blob's length -/

/-- every position of `t` holds the byte of `t₀` or the byte of `d` -/
def Mixed (d t₀ t : List UInt8) : Prop :=
  t.length = d.length ∧ ∀ i : Nat, t[i]? = t₀[i]? ∨ t[i]? = d[i]?

theorem writeAt_getElem? {t bytes : List UInt8} {off : Nat} (h : off ≤ t.length) (i : Nat) :
    (writeAt t off bytes)[i]? =
      if i < off then t[i]? else if i < off + bytes.length then bytes[i - off]? else t[i]? := by
  have hno : ¬ t.length < off := by omega
  simp only [Bao.writeAt, hno, if_false]
  simp only [List.getElem?_append, List.length_append, List.length_take, List.getElem?_take,
    List.getElem?_drop]
  have hm : min off t.length = off := by omega
  rw [hm]
  by_cases c1 : i < off
  · have : i < off + bytes.length := by omega
    simp only [c1, this, if_true]
  · by_cases c2 : i < off + bytes.length
    · simp only [c1, c2, if_true, if_false]
    · simp only [c1, c2, if_false]
      congr 1; omega

theorem writeAt_length {t bytes : List UInt8} {off : Nat} (h : off + bytes.length ≤ t.length) :
    (writeAt t off bytes).length = t.length := by
  have hno : ¬ t.length < off := by omega
  simp only [Bao.writeAt, hno, if_false, List.length_append, List.length_take, List.length_drop]
  omega

theorem Mixed.writeAt {d t₀ t : List UInt8} {off : Nat} {bytes : List UInt8} (h : Mixed d t₀ t)
    (hl : TrueLeaf d off bytes) : Mixed d t₀ (writeAt t off bytes) := by
  obtain ⟨_, h2, h3⟩ := hl.spec
  obtain ⟨hlen, hpos⟩ := h
  refine ⟨by rw [writeAt_length (by omega), hlen], fun i => ?_⟩
  rw [writeAt_getElem? (by omega)]
  by_cases c1 : i < off
  · simp only [c1, if_true]; exact hpos i
  · by_cases c2 : i < off + bytes.length
    · simp only [c1, c2, if_true, if_false]
      right
      have hlt : i - off < bytes.length := by omega
      have hb : bytes[i - off]? = ((d.drop off).take bytes.length)[i - off]? :=
        congrArg (·[i - off]?) h3
      rw [hb, List.getElem?_take, List.getElem?_drop]
      simp only [hlt, if_true]
      congr 1; omega
    · simp only [c1, c2, if_false]; exact hpos i

theorem Mixed.applyWrites {d t₀ : List UInt8} : ∀ (wl : List (Nat × List UInt8)) (t : List UInt8),
    Mixed d t₀ t → (∀ w ∈ wl, TrueLeaf d w.1 w.2) → Mixed d t₀ (applyWrites t wl) := by
  intro wl
  induction wl with
  | nil => intro t h _; exact h
  | cons w wl ih =>
    intro t h hw
    simp only [C01.applyWrites, List.foldl_cons]
    exact ih _ (h.writeAt (hw w (List.mem_cons_self ..))) (fun w' h' => hw w' (List.mem_cons_of_mem _ h'))

end Bao.C01
