import BaoProofs.Lemmas.SpecFaultsStr
import BaoProofs.Props.C10Enc
import BaoProofs.Props.C10Ops
import BaoProofs.Props.C10Mixed
import BaoModel.Ops4

/-!
# Lemmas for `Lemmas/SpecFaults.lean`: the verdict of `faults` (`Ops.opFaults`, C10) accepts the model

1. the `let`s of `opFaults` as named definitions (`kindsOf`, `evalKind`, `twinRes`, `rename`, `resOf`,
   `tokOf`, `lineOf`, `linesOf`, `headOf`, `twinOkOf`, `modelLine`; the verdict: `tokVerdict`,
   `partVerdict`, `sfOf`), related to the operation by `opFaults_eq` (`rfl` after the argument parse);
2. the token verdict: `accepts` (its last clause), `GoodRes obj kd0 res` (everything the verdict and the
   line splitting need of a printed result), the accepted shapes `good_io`, `good_eof`, `good_send`,
   `good_pw`, `good_lw`, `good_pnf`, `good_lnf`, and `tokVerdict_none`;
3. `RawOk o kd raw` (shapes of the un-renamed terminal) and `good_of_raw` (renaming of `Eof` /
   `Interrupted` with `String.replace`);
4. the operation families: `raw_expect` (skeleton rule), `TwinF` + `twinF_ob/obpo/copy/valid/validob`
   + `raw_twin` (twins of `Fault.lean`, reach from `twinOk` by `reach_F`), `raw_mixed`, `raw_enc`;
5. `opTrace_labels`: the labels of every skeleton contain neither a space nor a `#`;
6. `RawAll` and `rawAll`: component level for all 17 operation names (`opTrace_name`);
7. assembly: `line_ok`, `head_noHash`, `sfOf_model`.
-/

namespace Bao.SpecFaults
open Bao Bao.Ops Bao.Proto Bao.SpecIndex Bao.SpecOb Bao.SpecSerde

/-! ## 1. the `let`s of `opFaults` as named definitions (identical source, related by `rfl`) -/

def kinds0 : List String := ["Other", "UnexpectedEof", "ConnectionReset", "WriteZero"]

/-- the kinds enumerated for object `o` of operation `name` -/
def kindsOf (name o : String) : List String :=
  let kinds := if (o == "data" || o == "r") && name != "mixed" then kinds0 ++ ["Eof"] else kinds0
  if name.endsWith "-fsm" || name == "mixed" then kinds ++ ["Interrupted"] else kinds

/-- the kind under which the model evaluates the printed kind `kd0` -/
def evalKind (kd0 : String) : String :=
  if kd0 == "Eof" then "UnexpectedEof" else if kd0 == "Interrupted" then "Other" else kd0

def ioKindOf (kd : String) : IoKind :=
  match kd with
  | "Other" => IoKind.other | "UnexpectedEof" => IoKind.unexpectedEof
  | "ConnectionReset" => IoKind.connectionReset | _ => IoKind.writeZero

def encObjOf (o : String) : EncObj :=
  if o == "data" then EncObj.data else if o == "ob" || o == "obio" then EncObj.ob else EncObj.w

def fObjOf (o : String) : Option FObj :=
  match o with
  | "data" => some .data | "ob" => some .ob | "w" => some .w
  | "from" => some .src | "to" => some .dst | _ => none

/-- the terminal the model prints for kind `kd` (already evaluated) at event `e` = `k`-th event on `o` -/
def twinRes (name : String) (d : List UInt8) (bs : Nat) (kind : StoreKind) (ranges : Ranges)
    (o : String) (e : Ev) (k : Nat) (kd : String) : String :=
  if name.startsWith "enc" then
    encEndStr (encodeRangesF hf (if name.endsWith "-fsm" then Flavour.fsm else Flavour.sync)
      (name.startsWith "encv") d (intactStore kind d bs) ranges
      (some ⟨encObjOf o, k, ioKindOf kd⟩)).terminal
  else
    if name == "mixed" then
      (mixedTerminal d bs kind ranges o k (ioKindOf kd)).getD (expectFault name e kd)
    else
    match fObjOf o, faultTerminal name d bs kind ranges with
    | some fo, some f => f (some ⟨fo, k, ioKindOf kd⟩)
    | _, _ => expectFault name e kd

/-- the renaming of the special kinds -/
def rename (kd0 res : String) : String :=
  if kd0 == "Eof" then res.replace "*" "" else if kd0 == "Interrupted" then res.replace "Other" "Interrupted" else res

/-- the result string printed for the printed kind `kd0` -/
def resOf (name : String) (d : List UInt8) (bs : Nat) (kind : StoreKind) (ranges : Ranges)
    (o : String) (e : Ev) (k : Nat) (kd0 : String) : String :=
  rename kd0 (twinRes name d bs kind ranges o e k (evalKind kd0))

/-- one token -/
def tokOf (name : String) (d : List UInt8) (bs : Nat) (kind : StoreKind) (ranges : Ranges)
    (o : String) (e : Ev) (k : Nat) (kd0 : String) : String :=
  s!"{kd0}={resOf name d bs kind ranges o e k kd0}/a0/p1"

/-- one line: the `k`-th event `e` on object `o` -/
def lineOf (name : String) (d : List UInt8) (bs : Nat) (kind : StoreKind) (ranges : Ranges)
    (o : String) (ek : Ev × Nat) : String :=
  s!"{o}@{ek.2}[{ek.1.label}] " ++ " ".intercalate ((kindsOf name o).map (tokOf name d bs kind ranges o ek.1 ek.2))

def linesOf (name : String) (d : List UInt8) (bs : Nat) (kind : StoreKind) (ranges : Ranges)
    (tr : List Ev) (stride : Nat) : List String :=
  (opObjs name).flatMap fun o =>
    (((tr.filter (·.obj == o)).zipIdx.filter fun (_, k) => k % (max stride 1) == 0).map
      (lineOf name d bs kind ranges o))

def headOf (name : String) (tr : List Ev) : String :=
  let counts := ",".intercalate ((opObjs name).map fun o => s!"{o}:{(tr.filter (·.obj == o)).length}")
  s!"Ok N={counts}"

def twinOkOf (name : String) (d : List UInt8) (bs : Nat) (kind : StoreKind) (ranges : Ranges)
    (tr : List Ev) : Bool :=
  match faultCalls name d bs kind ranges with
  | none => true
  | some calls => calls == ((tr.filter (·.obj != "obio")).map fun e => (e.obj, e.label))

def modelLine (name : String) (d : List UInt8) (bs : Nat) (kind : StoreKind) (ranges : Ranges)
    (tr : List Ev) (stride : Nat) : String :=
  if twinOkOf name d bs kind ranges tr then
    " # ".intercalate (headOf name tr :: linesOf name d bs kind ranges tr stride)
  else "fault-twin and call skeleton disagree"

/-- the verdict on one token of the part `part` -/
def tokVerdict (part tok : String) : Option String :=
  match tok.splitOn "=" with
  | [kd, rest] =>
    match rest.splitOn "/" with
    | [res, a, p] =>
      if res == "Ok" then some s!"{part.take 30}: {kd} fault swallowed (Ok)"
      else if res.startsWith "panic" then some s!"{part.take 30}: panic"
      else if res.contains "HashMismatch" then some s!"{part.take 30}: fault reported as hash mismatch"
      else if a != "a0" then some s!"{part.take 30}: further calls on the failed object"
      else if p != "p1" then some s!"{part.take 30}: output is not a prefix of the fault-free run"
      else
        let obj := (part.splitOn "@").head!
        let isEof := kd == "Eof"
        let kd := if isEof then "UnexpectedEof" else kd
        let okIo := res == (if isEof then "Io(UnexpectedEof)" else s!"Io({kd}*)")
        let okWrite := (res.startsWith "ParentWrite" || res.startsWith "LeafWrite") && obj == "w" && kd == "ConnectionReset"
        let okNotFound := (res.startsWith "ParentNotFound" || res.startsWith "LeafNotFound") && obj == "r" && kd == "UnexpectedEof"
        let okSend := res == "SendErr" && obj == "s"
        if !(okIo || okWrite || okNotFound || okSend) then
          some s!"{part.take 30}: {kd} fault on {obj} reported as {res}"
        else none
    | _ => some "malformed"
  | _ => some "malformed"

def partVerdict (part : String) : Option String :=
  ((part.splitOn " ").drop 1).findSome? (tokVerdict part)

def sfOf (impl : String) : Option String :=
  ((impl.splitOn " # ").drop 1).findSome? partVerdict

theorem opFaults_eq (spec stride impl name b bs kind rs : String) (d : List UInt8) (bsn st : Nat)
    (k : StoreKind) (ranges : Ranges)
    (h0 : spec.splitOn "/" = [name, b, bs, kind, rs]) (h1 : stride.toNat? = some st)
    (h2 : blob b = some d) (h3 : bs.toNat? = some bsn) (h4 : storeKind? kind = some k)
    (h5 : parseNatList rs = some ranges) :
    opFaults [spec, stride] impl =
      match opTrace name d bsn k ranges with
      | none => bad "faults op"
      | some tr =>
        { model := modelLine name d bsn k ranges tr st, specFail := sfOf impl,
          nontrivial := tr.length > 2 } := by
  unfold opFaults
  simp only [h0, h1, h2, h3, h4, h5]
  rfl

/-! ## 2. the token verdict; the shapes of results it accepts -/


def accepts (obj kd0 res : String) : Bool :=
  let isEof := kd0 == "Eof"
  let kd := if isEof then "UnexpectedEof" else kd0
  let okIo := res == (if isEof then "Io(UnexpectedEof)" else s!"Io({kd}*)")
  let okWrite := (res.startsWith "ParentWrite" || res.startsWith "LeafWrite") && obj == "w" && kd == "ConnectionReset"
  let okNotFound := (res.startsWith "ParentNotFound" || res.startsWith "LeafNotFound") && obj == "r" && kd == "UnexpectedEof"
  let okSend := res == "SendErr" && obj == "s"
  okIo || okWrite || okNotFound || okSend

/-- everything the verdict (and the splitting of the line) needs of a printed result -/
structure GoodRes (obj kd0 res : String) : Prop where
  noEq : NoCh '=' res
  noSl : NoCh '/' res
  noSp : NoSp res
  noHash : NoCh '#' res
  notOk : res ≠ "Ok"
  notPanic : res.startsWith "panic" = false
  notMM : res.contains "HashMismatch" = false
  acc : accepts obj kd0 res = true

/-- the kinds that are printed -/
def allKinds : List String := ["Other", "UnexpectedEof", "ConnectionReset", "WriteZero", "Eof", "Interrupted"]

theorem sw_false (s pat : String) (h : (pat.toList.isPrefixOf s.toList) = false) :
    s.startsWith pat = false := by
  rw [Bool.eq_false_iff, Ne, String.startsWith_string_iff, ← List.isPrefixOf_iff_prefix, h]
  simp

theorem good_io (obj kd0 : String) (hk : kd0 ∈ ["Other", "UnexpectedEof", "ConnectionReset", "WriteZero", "Interrupted"]) :
    GoodRes obj kd0 ("Io(" ++ kd0 ++ "*)") := by
  simp only [List.mem_cons, List.not_mem_nil, or_false] at hk
  rcases hk with rfl | rfl | rfl | rfl | rfl <;>
  exact ⟨noCh_lit _ _ (by decide), noCh_lit _ _ (by decide), noSp_lit _ (by decide),
    noCh_lit _ _ (by decide), by decide, sw_false _ _ (by decide),
    not_contains_of_char _ _ 'H' (by decide) (by decide), by
      unfold accepts
      simp only []
      rw [Bool.or_assoc, Bool.or_assoc, Bool.or_eq_true]
      exact Or.inl (by decide)⟩

theorem good_eof (obj : String) : GoodRes obj "Eof" "Io(UnexpectedEof)" :=
  ⟨noCh_lit _ _ (by decide), noCh_lit _ _ (by decide), noSp_lit _ (by decide),
    noCh_lit _ _ (by decide), by decide, sw_false _ _ (by decide),
    not_contains_of_char _ _ 'H' (by decide) (by decide), by
      unfold accepts
      simp only []
      rw [Bool.or_assoc, Bool.or_assoc, Bool.or_eq_true]
      exact Or.inl (by decide)⟩

theorem good_send (kd0 : String) : GoodRes "s" kd0 "SendErr" :=
  ⟨noCh_lit _ _ (by decide), noCh_lit _ _ (by decide), noSp_lit _ (by decide),
    noCh_lit _ _ (by decide), by decide, sw_false _ _ (by decide),
    not_contains_of_char _ _ 'H' (by decide) (by decide), by
      unfold accepts
      simp only []
      rw [Bool.or_eq_true]
      exact Or.inr (by decide)⟩

/-- `P(n)` for a literal `P` -/
def numRes (P : String) (n : Nat) : String := P ++ "(" ++ toString n ++ ")"

theorem numRes_noCh (c : Char) (hc : c.isDigit = false) (P : String) (n : Nat)
    (hP : ((P ++ "()").toList.contains c) = false) : NoCh c (numRes P n) := by
  have h1 : NoCh c P ∧ NoCh c "(" ∧ NoCh c ")" := by
    have : c ∉ (P ++ "()").toList := fun hm => by
      have : (P ++ "()").toList.contains c = true := List.contains_iff_mem.2 hm
      rw [hP] at this; cases this
    rw [String.toList_append, List.mem_append, not_or] at this
    refine ⟨this.1, ?_, ?_⟩ <;> intro hm <;> apply this.2
    · have : "(".toList = ['('] := rfl
      rw [this] at hm; simp at hm; rw [hm]; decide
    · have : ")".toList = [')'] := rfl
      rw [this] at hm; simp at hm; rw [hm]; decide
  exact noCh_append (noCh_append (noCh_append h1.1 h1.2.1) (noCh_nat c hc n)) h1.2.2

theorem numRes_toList (P : String) (n : Nat) (c : Char) (t : List Char) (hP : P.toList = c :: t) :
    (numRes P n).toList = c :: (t ++ ("(" ++ toString n ++ ")").toList) := by
  unfold numRes
  simp only [String.toList_append, hP, List.cons_append, List.append_assoc]

theorem numRes_startsWith (P : String) (n : Nat) : (numRes P n).startsWith P = true := by
  unfold numRes
  rw [String.append_assoc, String.append_assoc]
  exact startsWith_append _ _

theorem ne_Ok_of_head (s : String) (c : Char) (t : List Char) (hs : s.toList = c :: t)
    (hc : c ≠ 'O') : s ≠ "Ok" := by
  intro e
  rw [e] at hs
  have : "Ok".toList = ['O', 'k'] := rfl
  rw [this] at hs
  injection hs with h1 _
  exact hc h1.symm

/-- the shapes `ParentWrite(n)`, `LeafWrite(n)`, `ParentNotFound(n)`, `LeafNotFound(n)`: everything
but the acceptance clause -/
theorem numRes_good (obj kd0 P : String) (n : Nat) (c : Char) (t : List Char)
    (hP : P.toList = c :: t) (hc : c ≠ 'O') (hc' : c ≠ 'p')
    (hch : ((P ++ "()").toList.any fun x => x == '=' || x == '/' || x == ' ' || x == '#' || x == 'H') = false)
    (hacc : accepts obj kd0 (numRes P n) = true) : GoodRes obj kd0 (numRes P n) := by
  have hno : ∀ x, (x == '=' || x == '/' || x == ' ' || x == '#' || x == 'H') = true →
      ((P ++ "()").toList.contains x) = false := by
    intro x hx
    rw [Bool.eq_false_iff]
    intro hm
    have hm := List.contains_iff_mem.1 hm
    have : ((P ++ "()").toList.any fun x => x == '=' || x == '/' || x == ' ' || x == '#' || x == 'H') = true :=
      List.any_eq_true.2 ⟨x, hm, hx⟩
    rw [hch] at this; cases this
  exact ⟨numRes_noCh '=' (by decide) P n (hno _ (by decide)),
    numRes_noCh '/' (by decide) P n (hno _ (by decide)),
    numRes_noCh ' ' (by decide) P n (hno _ (by decide)),
    numRes_noCh '#' (by decide) P n (hno _ (by decide)),
    ne_Ok_of_head _ c _ (numRes_toList P n c t hP) hc,
    not_startsWith _ "panic" c 'p' _ ['a', 'n', 'i', 'c'] (numRes_toList P n c t hP) rfl hc',
    not_contains_of_char _ _ 'H' (by decide) (numRes_noCh 'H' (by decide) P n (hno _ (by decide))),
    hacc⟩

theorem good_pw (n : Nat) : GoodRes "w" "ConnectionReset" (numRes "ParentWrite" n) :=
  numRes_good _ _ _ n 'P' _ rfl (by decide) (by decide) (by decide) (by
    simp [accepts, numRes_startsWith])

theorem good_lw (n : Nat) : GoodRes "w" "ConnectionReset" (numRes "LeafWrite" n) :=
  numRes_good _ _ _ n 'L' _ rfl (by decide) (by decide) (by decide) (by
    simp [accepts, numRes_startsWith])

theorem good_pnf (kd0 : String) (hk : kd0 = "UnexpectedEof" ∨ kd0 = "Eof") (n : Nat) :
    GoodRes "r" kd0 (numRes "ParentNotFound" n) :=
  numRes_good _ _ _ n 'P' _ rfl (by decide) (by decide) (by decide) (by
    rcases hk with rfl | rfl <;> simp [accepts, numRes_startsWith])

theorem good_lnf (kd0 : String) (hk : kd0 = "UnexpectedEof" ∨ kd0 = "Eof") (n : Nat) :
    GoodRes "r" kd0 (numRes "LeafNotFound" n) :=
  numRes_good _ _ _ n 'L' _ rfl (by decide) (by decide) (by decide) (by
    rcases hk with rfl | rfl <;> simp [accepts, numRes_startsWith])


theorem tokVerdict_none (part kd0 res : String)
    (h1 : NoCh '=' kd0) (h2 : NoCh '=' res) (h3 : NoCh '/' res)
    (hok : res ≠ "Ok") (hpanic : res.startsWith "panic" = false)
    (hmm : res.contains "HashMismatch" = false)
    (hacc : accepts ((part.splitOn "@").head!) kd0 res = true) :
    tokVerdict part (kd0 ++ "=" ++ res ++ "/a0/p1") = none := by
  unfold tokVerdict
  have e : kd0 ++ "=" ++ res ++ "/a0/p1" = kd0 ++ "=" ++ (res ++ "/a0/p1") := by
    rw [String.append_assoc]
  rw [e, split_eq2 kd0 _ h1 (noCh_append h2 (noCh_lit _ _ (by decide)))]
  simp only []
  rw [split_slash3 res h3]
  have hok' : (res == "Ok") = false := by simpa using hok
  simp only [hok', hpanic, hmm, Bool.false_eq_true, if_false, bne_self_eq_false]
  unfold accepts at hacc
  simp only [] at hacc
  simp only [hacc, Bool.not_true, Bool.false_eq_true, if_false]


/-! ## 3. raw (un-renamed) terminals -/

/-- the shapes of the terminal printed for the evaluated kind `kd` of a fault on object `o` -/
inductive RawOk (o kd : String) : String → Prop
  | io : RawOk o kd ("Io(" ++ kd ++ "*)")
  | pw (n : Nat) : o = "w" → kd = "ConnectionReset" → RawOk o kd (numRes "ParentWrite" n)
  | lw (n : Nat) : o = "w" → kd = "ConnectionReset" → RawOk o kd (numRes "LeafWrite" n)
  | pnf (n : Nat) : o = "r" → kd = "UnexpectedEof" → RawOk o kd (numRes "ParentNotFound" n)
  | lnf (n : Nat) : o = "r" → kd = "UnexpectedEof" → RawOk o kd (numRes "LeafNotFound" n)
  | send : o = "s" → RawOk o kd "SendErr"

theorem replace_star : "Io(UnexpectedEof*)".replace "*" "" = "Io(UnexpectedEof)" := by
  rw [replace_eq _ _ _ (by decide)]; decide

theorem replace_other : "Io(Other*)".replace "Other" "Interrupted" = "Io(Interrupted*)" := by
  rw [replace_eq _ _ _ (by decide)]; decide

theorem numRes_star (P : String) (n : Nat) (hP : ((P ++ "()").toList.contains '*') = false) :
    (numRes P n).replace "*" "" = numRes P n :=
  replace_noop _ _ _ '*' (by decide) (numRes_noCh '*' (by decide) P n hP)

theorem good_of_raw (o kd0 raw : String) (hk : kd0 ∈ allKinds) (h : RawOk o (evalKind kd0) raw) :
    GoodRes o kd0 (rename kd0 raw) := by
  simp only [allKinds, List.mem_cons, List.not_mem_nil, or_false] at hk
  rcases hk with rfl | rfl | rfl | rfl | rfl | rfl
  · -- Other
    have e : ∀ r, rename "Other" r = r := fun _ => rfl
    rw [e]
    cases h with
    | io => exact good_io _ _ (by decide)
    | pw n _ h2 => exact absurd h2 (by decide)
    | lw n _ h2 => exact absurd h2 (by decide)
    | pnf n _ h2 => exact absurd h2 (by decide)
    | lnf n _ h2 => exact absurd h2 (by decide)
    | send h1 => subst h1; exact good_send _
  · -- UnexpectedEof
    have e : ∀ r, rename "UnexpectedEof" r = r := fun _ => rfl
    rw [e]
    cases h with
    | io => exact good_io _ _ (by decide)
    | pw n _ h2 => exact absurd h2 (by decide)
    | lw n _ h2 => exact absurd h2 (by decide)
    | pnf n h1 _ => subst h1; exact good_pnf _ (Or.inl rfl) n
    | lnf n h1 _ => subst h1; exact good_lnf _ (Or.inl rfl) n
    | send h1 => subst h1; exact good_send _
  · -- ConnectionReset
    have e : ∀ r, rename "ConnectionReset" r = r := fun _ => rfl
    rw [e]
    cases h with
    | io => exact good_io _ _ (by decide)
    | pw n h1 _ => subst h1; exact good_pw n
    | lw n h1 _ => subst h1; exact good_lw n
    | pnf n _ h2 => exact absurd h2 (by decide)
    | lnf n _ h2 => exact absurd h2 (by decide)
    | send h1 => subst h1; exact good_send _
  · -- WriteZero
    have e : ∀ r, rename "WriteZero" r = r := fun _ => rfl
    rw [e]
    cases h with
    | io => exact good_io _ _ (by decide)
    | pw n _ h2 => exact absurd h2 (by decide)
    | lw n _ h2 => exact absurd h2 (by decide)
    | pnf n _ h2 => exact absurd h2 (by decide)
    | lnf n _ h2 => exact absurd h2 (by decide)
    | send h1 => subst h1; exact good_send _
  · -- Eof: evaluated as UnexpectedEof, the `*` removed
    have e : ∀ r, rename "Eof" r = r.replace "*" "" := fun _ => rfl
    rw [e]
    cases h with
    | io => rw [show "Io(" ++ evalKind "Eof" ++ "*)" = "Io(UnexpectedEof*)" from by decide, replace_star]
            exact good_eof _
    | pw n _ h2 => exact absurd h2 (by decide)
    | lw n _ h2 => exact absurd h2 (by decide)
    | pnf n h1 _ => subst h1; rw [numRes_star _ _ (by decide)]; exact good_pnf _ (Or.inr rfl) n
    | lnf n h1 _ => subst h1; rw [numRes_star _ _ (by decide)]; exact good_lnf _ (Or.inr rfl) n
    | send h1 =>
      subst h1
      rw [replace_noop _ _ _ '*' (by decide) (by decide)]
      exact good_send _
  · -- Interrupted: evaluated as Other and renamed
    have e : ∀ r, rename "Interrupted" r = r.replace "Other" "Interrupted" := fun _ => rfl
    rw [e]
    cases h with
    | io => rw [show "Io(" ++ evalKind "Interrupted" ++ "*)" = "Io(Other*)" from by decide, replace_other]
            exact good_io _ _ (by decide)
    | pw n _ h2 => exact absurd h2 (by decide)
    | lw n _ h2 => exact absurd h2 (by decide)
    | pnf n _ h2 => exact absurd h2 (by decide)
    | lnf n _ h2 => exact absurd h2 (by decide)
    | send h1 =>
      subst h1
      rw [replace_noop _ _ _ 'O' (by decide) (by decide)]
      exact good_send _


/-! ## 4. the operation families -/

theorem ioErrStr_kind (kd : String) (hk : kd ∈ kinds0) :
    ioErrStr ⟨ioKindOf kd, true⟩ = "Io(" ++ kd ++ "*)" := by
  simp only [kinds0, List.mem_cons, List.not_mem_nil, or_false] at hk
  rcases hk with rfl | rfl | rfl | rfl <;> decide

theorem ioKindOf_reset (kd : String) (hk : kd ∈ kinds0) :
    ioKindOf kd = .connectionReset ↔ kd = "ConnectionReset" := by
  simp only [kinds0, List.mem_cons, List.not_mem_nil, or_false] at hk
  rcases hk with rfl | rfl | rfl | rfl <;> decide

theorem numRes_eq (P : String) (n : Nat) : P ++ "(" ++ toString n ++ ")" = numRes P n := rfl

theorem sw_eq (s pat : String) : s.startsWith pat = pat.toList.isPrefixOf s.toList := by
  rw [Bool.eq_iff_iff, String.startsWith_string_iff, List.isPrefixOf_iff_prefix]

/-- what `expectFault` prints outside the fsm encoders and `mixed` -/
theorem raw_expect (name : String) (e : Ev) (o kd : String)
    (h1 : (name == "encv-fsm" || name == "encp-fsm") = false) (h2 : (name == "mixed") = false)
    (heo : e.obj = o) : RawOk o kd (expectFault name e kd) := by
  unfold expectFault
  simp only [h1, h2, Bool.false_and, Bool.false_eq_true, if_false]
  split
  · rename_i hc
    simp only [Bool.and_eq_true, beq_iff_eq] at hc
    obtain ⟨⟨-, hr⟩, hkd⟩ := hc
    rw [heo] at hr
    split
    · exact RawOk.pnf _ hr hkd
    · exact RawOk.lnf _ hr hkd
    · exact RawOk.io
  · exact RawOk.io

/-! ### the link "k-th event of the skeleton on `o`" → "the twin's fault-free log has a (k+1)-th call" -/

theorem fobj_name_inj (a b : FObj) : (a.name == b.name) = decide (a = b) := by
  cases a <;> cases b <;> decide

theorem calls_countP {H : Type} (log : List (FEv H)) (fo : FObj) :
    (FEv.calls log).countP (fun p => p.1 == fo.name) = (log.map FEv.obj).count (some fo) := by
  induction log with
  | nil => rfl
  | cons e log ih =>
    unfold FEv.calls at *
    cases h : e.obj with
    | none =>
      rw [List.filterMap_cons_none (by rw [h]; rfl), ih, List.map_cons, h, List.count_cons_of_ne (by simp)]
    | some fo' =>
      rw [List.filterMap_cons_some (by rw [h]; rfl), List.countP_cons, ih, List.map_cons, h,
        List.count_cons]
      simp only [fobj_name_inj]
      congr 1
      by_cases hh : fo' = fo <;> simp [hh]

theorem skel_countP (tr : List Ev) (o : String) (ho : o ≠ "obio") :
    ((tr.filter (·.obj != "obio")).map fun e => (e.obj, e.label)).countP (fun p => p.1 == o)
      = (tr.filter (·.obj == o)).length := by
  rw [List.countP_map, List.countP_filter, ← List.countP_eq_length_filter]
  apply List.countP_congr
  intro e _
  simp only [Function.comp, Bool.and_eq_true, bne_iff_ne, ne_eq, beq_iff_eq]
  constructor
  · exact fun h => h.1
  · intro h; exact ⟨h, fun h' => ho (h ▸ h')⟩

theorem fObjOf_name (o : String) (fo : FObj) (h : fObjOf o = some fo) : fo.name = o ∧ o ≠ "obio" := by
  unfold fObjOf at h
  split at h <;> cases h <;> exact ⟨rfl, by decide⟩

/-- the twin's log has as many calls on `fo` as the skeleton has events on `o` -/
theorem reach_F (log : List (FEv HB)) (tr : List Ev) (o : String) (fo : FObj)
    (hfo : fObjOf o = some fo)
    (h : FEv.calls log = (tr.filter (·.obj != "obio")).map fun e => (e.obj, e.label)) :
    (log.map FEv.obj).count (some fo) = (tr.filter (·.obj == o)).length := by
  obtain ⟨h1, h2⟩ := fObjOf_name o fo hfo
  rw [← calls_countP, h, h1, skel_countP tr o h2]

/-- an operation with a twin in `BaoModel/Fault.lean` whose fault-free log is `log` -/
structure TwinF (name : String) (d : List UInt8) (bs : Nat) (kind : StoreKind) (ranges : Ranges)
    (log : List (FEv HB)) : Prop where
  calls : faultCalls name d bs kind ranges = some (FEv.calls log)
  term : ∀ fo k kk, k < (log.map FEv.obj).count (some fo) →
    (faultTerminal name d bs kind ranges).map (fun f => f (some ⟨fo, k, kk⟩)) = some (ioErrStr ⟨kk, true⟩)

theorem twinF_ob (name : String) (d : List UInt8) (bs : Nat) (kind : StoreKind) (ranges : Ranges)
    (h : name.startsWith "ob-" = true) :
    TwinF name d bs kind ranges
      (C10.obLog hf d ⟨d.length, bs⟩ ⟨kind, zeros32, ⟨d.length, bs⟩, zerosN (Tree.outboardSize ⟨d.length, bs⟩)⟩) := by
  refine ⟨?_, ?_⟩
  · unfold faultCalls; simp only [h, if_true]; rfl
  · intro fo k kk hk
    unfold faultTerminal; simp only [h, if_true, Option.map_some]
    rw [C10.obF_never_ok hf d _ _ fo k kk hk]

theorem twinF_obpo (name : String) (d : List UInt8) (bs : Nat) (kind : StoreKind) (ranges : Ranges)
    (h0 : name.startsWith "ob-" = false) (h : name.startsWith "obpo" = true) :
    TwinF name d bs kind ranges (C10.obpoLog hf d ⟨d.length, bs⟩) := by
  refine ⟨?_, ?_⟩
  · unfold faultCalls; simp only [h0, h, if_true, Bool.false_eq_true, if_false]; rfl
  · intro fo k kk hk
    unfold faultTerminal; simp only [h0, h, if_true, Bool.false_eq_true, if_false, Option.map_some]
    rw [C10.obpoF_never_ok hf d _ fo k kk hk]

/-- flavour of an operation name -/
def flOf (name : String) : Flavour := if name.endsWith "-fsm" then Flavour.fsm else Flavour.sync

/-- target kind of `copy` -/
def toKindOf (kind : StoreKind) : StoreKind :=
  if kind == .preMem || kind == .preIo then .postMem else .preMem

theorem twinF_copy (name : String) (d : List UInt8) (bs : Nat) (kind : StoreKind) (ranges : Ranges)
    (h0 : name.startsWith "ob-" = false) (h1 : name.startsWith "obpo" = false)
    (h : name.startsWith "copy" = true) :
    TwinF name d bs kind ranges
      (C10.copyLog hf (flOf name) (intactStore kind d bs)
        ⟨toKindOf kind, (intactStore kind d bs).root, ⟨d.length, bs⟩,
          zerosN (Tree.outboardSize ⟨d.length, bs⟩)⟩) := by
  refine ⟨?_, ?_⟩
  · unfold faultCalls; simp only [h0, h1, h, if_true, Bool.false_eq_true, if_false]; rfl
  · intro fo k kk hk
    unfold faultTerminal
    simp only [h0, h1, h, if_true, Bool.false_eq_true, if_false, Option.map_some]
    have := (C10.copyF_never_ok hf (flOf name) _ _ fo k kk hk).2
    unfold flOf toKindOf at this
    rw [this]

theorem twinF_valid (name : String) (d : List UInt8) (bs : Nat) (kind : StoreKind) (ranges : Ranges)
    (h0 : name.startsWith "ob-" = false) (h1 : name.startsWith "obpo" = false)
    (h2 : name.startsWith "copy" = false) (h : name.startsWith "valid-" = true) :
    TwinF name d bs kind ranges (C10.validLog hf (flOf name) (intactStore kind d bs) d ranges) := by
  refine ⟨?_, ?_⟩
  · unfold faultCalls; simp only [h0, h1, h2, h, if_true, Bool.false_eq_true, if_false]; rfl
  · intro fo k kk hk
    unfold faultTerminal
    simp only [h0, h1, h2, h, if_true, Bool.false_eq_true, if_false, Option.map_some]
    have := C10.validF_never_ok hf (flOf name) _ _ _ fo k kk hk
    unfold flOf at this
    rw [this]

theorem twinF_validob (name : String) (d : List UInt8) (bs : Nat) (kind : StoreKind) (ranges : Ranges)
    (h0 : name.startsWith "ob-" = false) (h1 : name.startsWith "obpo" = false)
    (h2 : name.startsWith "copy" = false) (h3 : name.startsWith "valid-" = false)
    (h : name.startsWith "validob" = true) :
    TwinF name d bs kind ranges (C10.validObLog hf (flOf name) (intactStore kind d bs) ranges) := by
  refine ⟨?_, ?_⟩
  · unfold faultCalls; simp only [h0, h1, h2, h3, h, if_true, Bool.false_eq_true, if_false]; rfl
  · intro fo k kk hk
    unfold faultTerminal
    simp only [h0, h1, h2, h3, h, if_true, Bool.false_eq_true, if_false, Option.map_some]
    have := C10.validObF_never_ok hf (flOf name) _ _ fo k kk hk
    unfold flOf at this
    rw [this]

/-- operations with a twin in `Fault.lean`: the printed terminal of a reached fault -/
theorem raw_twin (name : String) (d : List UInt8) (bs : Nat) (kind : StoreKind) (ranges : Ranges)
    (log : List (FEv HB)) (tw : TwinF name d bs kind ranges log) (tr : List Ev)
    (hok : twinOkOf name d bs kind ranges tr = true)
    (h1 : name.startsWith "enc" = false) (h2 : (name == "mixed") = false)
    (o : String) (e : Ev) (k : Nat) (kd : String) (hkd : kd ∈ kinds0) (heo : e.obj = o)
    (hk : k < (tr.filter (·.obj == o)).length) :
    RawOk o kd (twinRes name d bs kind ranges o e k kd) := by
  have h3 : (name == "encv-fsm" || name == "encp-fsm") = false := by
    rw [Bool.or_eq_false_iff]
    constructor <;> (rw [beq_eq_false_iff_ne]; intro e'; rw [e'] at h1; revert h1; rw [sw_eq]; decide)
  unfold twinRes
  simp only [h1, h2, Bool.false_eq_true, if_false]
  cases hf' : fObjOf o with
  | none =>
    exact raw_expect name e o kd h3 h2 heo
  | some fo =>
    unfold twinOkOf at hok
    rw [tw.calls] at hok
    have hcalls := eq_of_beq hok
    have hreach : k < (log.map FEv.obj).count (some fo) := by
      rw [reach_F log tr o fo hf' hcalls]; exact hk
    have ht := tw.term fo k (ioKindOf kd) hreach
    cases hft : faultTerminal name d bs kind ranges with
    | none => rw [hft] at ht; cases ht
    | some f =>
      rw [hft] at ht
      simp only [Option.map_some, Option.some.injEq] at ht
      show RawOk o kd (f (some ⟨fo, k, ioKindOf kd⟩))
      rw [ht, ioErrStr_kind kd hkd]
      exact RawOk.io

/-! ### `mixed` -/

def mObjOf (o : String) : Option MObj :=
  match o with | "data" => some .data | "ob" => some .ob | "s" => some .s | _ => none

theorem mobj_name_inj (a b : MObj) : (a.name == b.name) = decide (a = b) := by
  cases a <;> cases b <;> decide

theorem mcalls_countP {H : Type} (log : List (MEv H)) (mo : MObj) :
    (MEv.calls log).countP (fun p => p.1 == mo.name) = (log.map MEv.obj).count mo := by
  induction log with
  | nil => rfl
  | cons e log ih =>
    unfold MEv.calls at *
    rw [List.map_cons, List.countP_cons, ih, List.map_cons, List.count_cons]
    simp only [mobj_name_inj]
    congr 1
    by_cases hh : e.obj = mo <;> simp [hh]

theorem mObjOf_name (o : String) (mo : MObj) (h : mObjOf o = some mo) : mo.name = o ∧ o ≠ "obio" := by
  unfold mObjOf at h
  split at h <;> cases h <;> exact ⟨rfl, by decide⟩

theorem reach_M (log : List (MEv HB)) (tr : List Ev) (o : String) (mo : MObj)
    (hmo : mObjOf o = some mo)
    (h : MEv.calls log = (tr.filter (·.obj != "obio")).map fun e => (e.obj, e.label)) :
    (log.map MEv.obj).count mo = (tr.filter (·.obj == o)).length := by
  obtain ⟨h1, h2⟩ := mObjOf_name o mo hmo
  rw [← mcalls_countP, h, h1, skel_countP tr o h2]

theorem raw_mixed (d : List UInt8) (bs : Nat) (kind : StoreKind) (ranges : Ranges) (tr : List Ev)
    (hok : twinOkOf "mixed" d bs kind ranges tr = true)
    (o : String) (e : Ev) (k : Nat) (kd : String) (hkd : kd ∈ kinds0) (heo : e.obj = o)
    (hk : k < (tr.filter (·.obj == o)).length) :
    RawOk o kd (twinRes "mixed" d bs kind ranges o e k kd) := by
  have h1 : ("mixed" : String).startsWith "enc" = false := by rw [sw_eq]; decide
  unfold twinRes
  simp only [h1, Bool.false_eq_true, if_false, beq_self_eq_true, if_true]
  have hmt : mixedTerminal d bs kind ranges o k (ioKindOf kd) = (mObjOf o).map fun mo =>
      match (traverseRangesValidatedF hf d (intactStore kind d bs) ranges (some ⟨mo, k, ioKindOf kd⟩)).2 with
      | .ok => "Ok"
      | .errItem e => encErrStr e
      | .sendErr => "SendErr"
      | .panic => "panic" := rfl
  rw [hmt]
  cases hmo : mObjOf o with
  | none =>
    simp only [Option.map_none, Option.getD_none]
    unfold expectFault
    have : ("mixed" == "encv-fsm" || "mixed" == "encp-fsm") = false := by decide
    simp only [this, Bool.false_and, Bool.false_eq_true, if_false, beq_self_eq_true, Bool.true_and]
    split
    · rename_i hs
      rw [beq_iff_eq, heo] at hs
      rw [hs] at hmo; cases hmo
    · have hd : ("mixed" : String).startsWith "decr" = false := by rw [sw_eq]; decide
      simp only [hd, Bool.false_and, Bool.false_eq_true, if_false]
      exact RawOk.io
  | some mo =>
    simp only [Option.map_some, Option.getD_some]
    have hcalls : faultCalls "mixed" d bs kind ranges
        = some (MEv.calls (traverseRangesValidatedF hf d (intactStore kind d bs) ranges none).1) := by
      unfold faultCalls
      have a1 : ("mixed" : String).startsWith "ob-" = false := by rw [sw_eq]; decide
      have a2 : ("mixed" : String).startsWith "obpo" = false := by rw [sw_eq]; decide
      have a3 : ("mixed" : String).startsWith "copy" = false := by rw [sw_eq]; decide
      have a4 : ("mixed" : String).startsWith "valid-" = false := by rw [sw_eq]; decide
      have a5 : ("mixed" : String).startsWith "validob" = false := by rw [sw_eq]; decide
      simp only [a1, a2, a3, a4, a5, Bool.false_eq_true, if_false, beq_self_eq_true, if_true]
    unfold twinOkOf at hok
    rw [hcalls] at hok
    have hc := eq_of_beq hok
    have hreach : k < ((C10Mixed.mixedLog hf d (intactStore kind d bs) ranges).map MEv.obj).count mo := by
      unfold C10Mixed.mixedLog
      rw [reach_M _ tr o mo hmo hc]; exact hk
    rw [C10Mixed.mixedF_terminal hf d _ ranges mo k (ioKindOf kd) hreach]
    cases mo with
    | s =>
      have : o = "s" := ((mObjOf_name o _ hmo).1).symm
      exact RawOk.send this
    | data =>
      show RawOk o kd (ioErrStr ⟨ioKindOf kd, true⟩)
      rw [ioErrStr_kind kd hkd]; exact RawOk.io
    | ob =>
      show RawOk o kd (ioErrStr ⟨ioKindOf kd, true⟩)
      rw [ioErrStr_kind kd hkd]; exact RawOk.io

/-! ### the byte encoders -/

theorem raw_enc (name : String) (d : List UInt8) (bs : Nat) (kind : StoreKind) (ranges : Ranges)
    (h : name.startsWith "enc" = true)
    (o : String) (e : Ev) (k : Nat) (kd : String) (hkd : kd ∈ kinds0)
    (how : encObjOf o = .w → o = "w")
    (hreach : k < (EncFaultL.encLog hf (flOf name) (name.startsWith "encv") d (intactStore kind d bs)
      ranges).count (encObjOf o)) :
    RawOk o kd (twinRes name d bs kind ranges o e k kd) := by
  unfold twinRes
  rw [if_pos h]
  show RawOk o kd (encEndStr (encodeRangesF hf (flOf name) (name.startsWith "encv") d
    (intactStore kind d bs) ranges (some ⟨encObjOf o, k, ioKindOf kd⟩)).terminal)
  by_cases hw : encObjOf o = .w
  · rw [hw] at hreach ⊢
    obtain ⟨pre, isParent, label, bytes, post, -, -, -, h4, -⟩ :=
      C10.encF_cut_w hf (flOf name) (name.startsWith "encv") d (intactStore kind d bs) ranges k
        (ioKindOf kd) hreach
    rw [h4]
    have hio : RawOk o kd (encEndStr (.err (.io ⟨ioKindOf kd, true⟩))) := by
      show RawOk o kd (ioErrStr ⟨ioKindOf kd, true⟩)
      rw [ioErrStr_kind kd hkd]; exact RawOk.io
    cases flOf name with
    | sync => exact hio
    | fsm =>
      by_cases hr : ioKindOf kd = .connectionReset
      · have hkd' := (ioKindOf_reset kd hkd).1 hr
        have hs := (C10.writeErr_spec ⟨ioKindOf kd, true⟩ isParent label).2.1 hr
        cases isParent with
        | true => simp only []; rw [hs.1]; exact RawOk.pw label (how hw) hkd'
        | false => simp only []; rw [hs.2]; exact RawOk.lw label (how hw) hkd'
      · have hs := (C10.writeErr_spec ⟨ioKindOf kd, true⟩ isParent label).2.2 hr
        simp only []; rw [hs]; exact hio
  · rw [C10.encF_cut_io hf (flOf name) (name.startsWith "encv") d (intactStore kind d bs) ranges
      (encObjOf o) k (ioKindOf kd) hw hreach]
    show RawOk o kd (ioErrStr ⟨ioKindOf kd, true⟩)
    rw [ioErrStr_kind kd hkd]; exact RawOk.io


/-! ## 5. the labels of the skeleton contain neither a space nor a `#` -/

/-- neither a space nor a `#` -/
def OkStr (s : String) : Prop := ∀ c ∈ s.toList, c ≠ ' ' ∧ c ≠ '#'

theorem okStr_append (a b : String) : OkStr (a ++ b) ↔ OkStr a ∧ OkStr b := by
  unfold OkStr
  simp only [String.toList_append, List.mem_append]
  constructor
  · exact fun h => ⟨fun c hc => h c (Or.inl hc), fun c hc => h c (Or.inr hc)⟩
  · rintro ⟨h1, h2⟩ c (hc | hc)
    · exact h1 c hc
    · exact h2 c hc

theorem okStr_lit (s : String) (h : (s.toList.all fun c => c != ' ' && c != '#') = true) : OkStr s := by
  intro c hc
  have := List.all_eq_true.1 h c hc
  simpa using this

theorem okStr_nat (n : Nat) : OkStr (toString n) := by
  intro c hc
  exact ⟨fun e => noSp_nat n (e ▸ hc), fun e => noCh_nat '#' (by decide) n (e ▸ hc)⟩

theorem okStr_toString (s : String) : OkStr (toString s) ↔ OkStr s := Iff.rfl

/-- all labels of a list of events are fine -/
def AllOk (l : List Ev) : Prop := ∀ e ∈ l, OkStr e.label

theorem allOk_nil : AllOk [] := fun _ h => by cases h
theorem allOk_cons (e : Ev) (l : List Ev) : AllOk (e :: l) ↔ OkStr e.label ∧ AllOk l := by
  unfold AllOk; simp
theorem allOk_append (a b : List Ev) : AllOk (a ++ b) ↔ AllOk a ∧ AllOk b := by
  unfold AllOk; simp only [List.mem_append]
  exact ⟨fun h => ⟨fun e he => h e (Or.inl he), fun e he => h e (Or.inr he)⟩,
    fun h e he => he.elim (h.1 e) (h.2 e)⟩
theorem allOk_flatMap {α : Type} (l : List α) (f : α → List Ev) (h : ∀ x, AllOk (f x)) :
    AllOk (l.flatMap f) := by
  intro e he
  obtain ⟨x, _, hx⟩ := List.mem_flatMap.1 he
  exact h x e hx
theorem allOk_map {α : Type} (l : List α) (f : α → Ev) (h : ∀ x, OkStr (f x).label) :
    AllOk (l.map f) := by
  intro e he
  obtain ⟨x, _, rfl⟩ := List.mem_map.1 he
  exact h x

theorem okStr_app2 {a b : String} (ha : OkStr a) (hb : OkStr b) : OkStr (a ++ b) :=
  (okStr_append a b).2 ⟨ha, hb⟩

theorem allOk_cons' {e : Ev} {l : List Ev} (h1 : OkStr e.label) (h2 : AllOk l) : AllOk (e :: l) :=
  (allOk_cons e l).2 ⟨h1, h2⟩

theorem allOk_append' {a b : List Ev} (h1 : AllOk a) (h2 : AllOk b) : AllOk (a ++ b) :=
  (allOk_append a b).2 ⟨h1, h2⟩

/-- a literal without space and `#` (decidable) -/
abbrev LitOk (s : String) : Prop := (s.toList.all fun c => c != ' ' && c != '#') = true

theorem ok_l (l : String) (h : LitOk l) : OkStr l := okStr_lit l h
theorem ok_ln (l : String) (n : Nat) (h : LitOk l) : OkStr (toString l ++ toString n) :=
  okStr_app2 (okStr_lit l h) (okStr_nat n)
theorem ok_lnl (l : String) (n : Nat) (l2 : String) (h : LitOk l) (h2 : LitOk l2) :
    OkStr (toString l ++ toString n ++ toString l2) :=
  okStr_app2 (ok_ln l n h) (okStr_lit l2 h2)
theorem ok_lnln (l : String) (n : Nat) (l2 : String) (m : Nat) (h : LitOk l) (h2 : LitOk l2) :
    OkStr (toString l ++ toString n ++ toString l2 ++ toString m) :=
  okStr_app2 (ok_lnl l n l2 h h2) (okStr_nat m)

theorem allOk_one {e : Ev} (h1 : OkStr e.label) : AllOk [e] := allOk_cons' h1 allOk_nil
theorem allOk_two {e e' : Ev} (h1 : OkStr e.label) (h2 : OkStr e'.label) : AllOk [e, e'] :=
  allOk_cons' h1 (allOk_one h2)

/-- the outboard event list of an io backed store -/
theorem allOk_obio (c : Bool) (o : Option Nat) (f : Nat → Ev) (hf : ∀ k, OkStr (f k).label) :
    AllOk (if c = true then (match o with | some k => [f k] | none => []) else []) := by
  split
  · cases o with
    | some k => exact allOk_one (hf k)
    | none => exact allOk_nil
  · exact allOk_nil

theorem validTrace_ok (withData : Bool) (tree : Tree) (filled : Nat) :
    ∀ (fuel shifted : Nat) (ranges : Ranges), AllOk (validTrace withData tree filled fuel shifted ranges) := by
  intro fuel
  induction fuel with
  | zero => intro _ _; exact allOk_nil
  | succ fuel ih =>
    intro shifted ranges
    have hrd : ∀ a b : Nat, AllOk (if withData = true then
        [(⟨"data", s!"read_at_{a}_{b - a}", none⟩ : Ev)] else []) := by
      intro a b
      split
      · exact allOk_one (ok_lnln _ _ _ _ (by decide) (by decide))
      · exact allOk_nil
    unfold validTrace
    simp only []
    split
    · exact allOk_nil
    · split
      · exact hrd _ _
      · refine allOk_append' (allOk_one (ok_ln _ _ (by decide))) ?_
        split
        · refine allOk_append' ?_ ?_
          · split
            · exact hrd _ _
            · exact allOk_nil
          · split
            · exact hrd _ _
            · exact allOk_nil
        · split
          · exact allOk_append' (ih _ _) (ih _ _)
          · exact allOk_nil

theorem opTrace_labels (name : String) (d : List UInt8) (bs : Nat) (kind : StoreKind)
    (ranges : Ranges) (tr : List Ev) (h : opTrace name d bs kind ranges = some tr) :
    AllOk tr := by
  unfold opTrace at h
  simp only [] at h
  have henc : ∀ c : Chunk, AllOk (match c with
      | .parent node _ _ _ _ =>
        [(⟨"ob", s!"load_{node}", some (true, node)⟩ : Ev)] ++
        (if (kind == .preIo || kind == .postIo) then
          match ({ kind, root := [], tree := ⟨d.length, bs⟩, data := [] } : Store HB).slot node with
          | some k => [(⟨"obio", s!"read_at_{k * 64}_64", some (true, node)⟩ : Ev)]
          | none => []
         else []) ++
        [⟨"w", "write_64", some (true, node)⟩]
      | .leaf start size isRoot rs =>
        let buf := (d.drop (start * 1024)).take size
        let n := if !Ranges.isAll rs then (encodeSelectedRec hf recFuel start buf isRoot rs bs true).2.length else size
        [⟨"data", s!"read_at_{start * 1024}_{size}", some (false, start)⟩, ⟨"w", s!"write_{n}", some (false, start)⟩]) := by
    intro c
    cases c with
    | parent node isRoot left right rs =>
      exact allOk_append' (allOk_append' (allOk_one (ok_ln _ _ (by decide)))
        (allOk_obio _ _ _ (fun k => ok_lnl _ _ _ (by decide) (by decide))))
        (allOk_one (ok_l "write_64" (by decide)))
    | leaf start size isRoot rs =>
      exact allOk_two (ok_lnln _ _ _ _ (by decide) (by decide)) (ok_ln _ _ (by decide))
  have hdecr : ∀ c : Chunk, AllOk (match c with
      | .parent node _ _ _ _ =>
        [(⟨"r", "read_64", some (true, node)⟩ : Ev)] ++
        (if (⟨d.length, bs⟩ : Tree).isRelevant node then
          [(⟨"ob", s!"save_{node}", none⟩ : Ev)] ++
          (if kind == .preIo || kind == .postIo then
            match ({ kind, root := [], tree := ⟨d.length, bs⟩, data := [] } : Store HB).slot node with
            | some k => [(⟨"obio", s!"write_at_{k * 64}_64", none⟩ : Ev)]
            | none => []
           else [])
         else [])
      | .leaf start size _ _ =>
        [⟨"r", s!"read_{size}", some (false, start)⟩, ⟨"t", s!"write_at_{start * 1024}_{size}", none⟩]) := by
    intro c
    cases c with
    | parent node isRoot left right rs =>
      refine allOk_append' (allOk_one (ok_l "read_64" (by decide))) ?_
      split
      · exact allOk_append' (allOk_one (ok_ln _ _ (by decide)))
          (allOk_obio _ _ _ (fun k => ok_lnl _ _ _ (by decide) (by decide)))
      · exact allOk_nil
    | leaf start size isRoot rs =>
      exact allOk_two (ok_ln _ _ (by decide)) (ok_lnln _ _ _ _ (by decide) (by decide))
  have hob : ∀ c : Chunk, AllOk (match c with
      | .parent node _ _ _ _ =>
        [(⟨"ob", s!"save_{node}", none⟩ : Ev)] ++
        (if kind == .preIo || kind == .postIo then
          match ({ kind, root := [], tree := ⟨d.length, bs⟩, data := [] } : Store HB).slot node with
          | some k => [(⟨"obio", s!"write_at_{k * 64}_64", none⟩ : Ev)]
          | none => []
         else [])
      | .leaf _ size _ _ => [⟨"data", s!"read_{size}", none⟩]) := by
    intro c
    cases c with
    | parent node isRoot left right rs =>
      exact allOk_append' (allOk_one (ok_ln _ _ (by decide)))
        (allOk_obio _ _ _ (fun k => ok_lnl _ _ _ (by decide) (by decide)))
    | leaf start size isRoot rs => exact allOk_one (ok_ln _ _ (by decide))
  have hobpo : ∀ c : Chunk, AllOk (match c with
      | .parent .. => [(⟨"w", "write_32", none⟩ : Ev), ⟨"w", "write_32", none⟩]
      | .leaf _ size _ _ => [⟨"data", s!"read_{size}", none⟩]) := by
    intro c
    cases c with
    | parent node isRoot left right rs =>
      exact allOk_two (ok_l "write_32" (by decide)) (ok_l "write_32" (by decide))
    | leaf start size isRoot rs => exact allOk_one (ok_ln _ _ (by decide))
  have hcopy : ∀ node : Nat, AllOk (
      [(⟨"from", s!"load_{node}", none⟩ : Ev)] ++
        (if (({ kind, root := [], tree := ⟨d.length, bs⟩, data := [] } : Store HB).slot node).isSome
          then [(⟨"to", s!"save_{node}", none⟩ : Ev)] else [])) := by
    intro node
    refine allOk_append' (allOk_one (ok_ln _ _ (by decide))) ?_
    split
    · exact allOk_one (ok_ln _ _ (by decide))
    · exact allOk_nil
  have hvalid : ∀ b : Bool, (if ((⟨d.length, bs⟩ : Tree).blocks == 1) = true then
      some (if b = true then [(⟨"data", s!"read_at_0_{(⟨d.length, bs⟩ : Tree).size}", none⟩ : Ev)] else [])
      else some (validTrace b ⟨d.length, bs⟩ (⟨d.length, bs⟩ : Tree).shifted.snd 65
        (⟨d.length, bs⟩ : Tree).shifted.fst (Ranges.truncate ranges d.length))) = some tr → AllOk tr := by
    intro b hh
    split at hh
    · cases hh
      split
      · exact allOk_one (ok_ln _ _ (by decide))
      · exact allOk_nil
    · cases hh
      exact validTrace_ok _ _ _ _ _ _
  split at h
  -- the byte encoders
  iterate 4
    · split at h
      · cases h; exact allOk_nil
      · obtain ⟨plan, -, rfl⟩ := Option.map_eq_some_iff.1 h
        exact allOk_flatMap _ _ henc
  -- mixed
  · split at h
    · cases h
      exact allOk_two (ok_l "send_Size" (by decide)) (ok_l "send_Done" (by decide))
    · obtain ⟨plan, -, rfl⟩ := Option.map_eq_some_iff.1 h
      refine allOk_append' (allOk_append' (allOk_one (ok_l "send_Size" (by decide)))
        (allOk_flatMap _ _ ?_)) (allOk_one (ok_l "send_Done" (by decide)))
      intro c
      cases c with
      | parent node isRoot left right rs =>
        exact allOk_two (ok_ln _ _ (by decide)) (ok_ln _ _ (by decide))
      | leaf start size isRoot rs =>
        refine allOk_append' (allOk_one (ok_lnln _ _ _ _ (by decide) (by decide))) ?_
        split
        · apply allOk_map
          intro it
          cases it <;> exact ok_ln _ _ (by decide)
        · exact allOk_one (ok_ln _ _ (by decide))
  -- decr
  iterate 2
    · obtain ⟨plan, -, rfl⟩ := Option.map_eq_some_iff.1 h
      exact allOk_flatMap _ _ hdecr
  -- ob
  iterate 2
    · cases h
      exact allOk_flatMap _ _ hob
  -- obpo
  iterate 2
    · cases h
      exact allOk_flatMap _ _ hobpo
  -- copy
  iterate 2
    · cases h
      exact allOk_flatMap _ _ hcopy
  -- validators
  iterate 4
    · exact hvalid _ h
  · cases h


/-! ## 6. component level, per operation -/

/-- the operation names `opTrace` knows -/
def names17 : List String :=
  ["encv-sync", "encp-sync", "encv-fsm", "encp-fsm", "mixed", "decr-sync", "decr-fsm", "ob-sync", "ob-fsm",
    "obpo-sync", "obpo-fsm", "copy-sync", "copy-fsm", "valid-sync", "valid-fsm", "validob-sync", "validob-fsm"]

theorem opTrace_name (name : String) (d : List UInt8) (bs : Nat) (kind : StoreKind)
    (ranges : Ranges) (tr : List Ev) (h : opTrace name d bs kind ranges = some tr) :
    name ∈ names17 := by
  unfold opTrace at h
  simp only [] at h
  split at h
  case h_18 => cases h
  all_goals decide

/-- for every event of the skeleton and every evaluated kind the printed raw terminal has an accepted
shape -/
def RawAll (name : String) (d : List UInt8) (bs : Nat) (kind : StoreKind) (ranges : Ranges)
    (tr : List Ev) : Prop :=
  ∀ o ∈ opObjs name, ∀ e k, (tr.filter (·.obj == o))[k]? = some e → ∀ kd ∈ kinds0,
    RawOk o kd (twinRes name d bs kind ranges o e k kd)

theorem getElem?_filter_obj (tr : List Ev) (o : String) (e : Ev) (k : Nat)
    (h : (tr.filter (·.obj == o))[k]? = some e) : e.obj = o ∧ k < (tr.filter (·.obj == o)).length := by
  obtain ⟨hk, he⟩ := List.getElem?_eq_some_iff.1 h
  have hm : e ∈ tr.filter (·.obj == o) := he ▸ List.getElem_mem hk
  exact ⟨by simpa using (List.mem_filter.1 hm).2, hk⟩

/-- operations with a twin in `Fault.lean` -/
theorem rawAll_twin (name : String) (d : List UInt8) (bs : Nat) (kind : StoreKind) (ranges : Ranges)
    (log : List (FEv HB)) (tw : TwinF name d bs kind ranges log) (tr : List Ev)
    (hok : twinOkOf name d bs kind ranges tr = true)
    (h1 : name.startsWith "enc" = false) (h2 : (name == "mixed") = false) :
    RawAll name d bs kind ranges tr := by
  intro o _ e k hek kd hkd
  obtain ⟨heo, hk⟩ := getElem?_filter_obj tr o e k hek
  exact raw_twin name d bs kind ranges log tw tr hok h1 h2 o e k kd hkd heo hk

/-- `mixed` -/
theorem rawAll_mixed (d : List UInt8) (bs : Nat) (kind : StoreKind) (ranges : Ranges) (tr : List Ev)
    (hok : twinOkOf "mixed" d bs kind ranges tr = true) : RawAll "mixed" d bs kind ranges tr := by
  intro o _ e k hek kd hkd
  obtain ⟨heo, hk⟩ := getElem?_filter_obj tr o e k hek
  exact raw_mixed d bs kind ranges tr hok o e k kd hkd heo hk

/-- operations without a twin (`decode_ranges`): the skeleton rule `expectFault` -/
theorem rawAll_notwin (name : String) (d : List UInt8) (bs : Nat) (kind : StoreKind) (ranges : Ranges)
    (tr : List Ev) (h1 : name.startsWith "enc" = false) (h2 : (name == "mixed") = false)
    (h3 : faultTerminal name d bs kind ranges = none) : RawAll name d bs kind ranges tr := by
  intro o _ e k hek kd _
  obtain ⟨heo, -⟩ := getElem?_filter_obj tr o e k hek
  have h4 : (name == "encv-fsm" || name == "encp-fsm") = false := by
    rw [Bool.or_eq_false_iff]
    constructor <;> (rw [beq_eq_false_iff_ne]; intro e'; rw [e'] at h1; revert h1; rw [sw_eq]; decide)
  unfold twinRes
  simp only [h1, h2, h3, Bool.false_eq_true, if_false]
  cases fObjOf o <;> exact raw_expect name e o kd h4 h2 heo

/-- the reach hypothesis of the byte encoders: the skeleton has at most as many events on an object as
the fault-free run of the encoder twin has calls on it -/
def EncReach (name : String) (d : List UInt8) (bs : Nat) (kind : StoreKind) (ranges : Ranges)
    (tr : List Ev) : Prop :=
  ∀ o ∈ opObjs name, (tr.filter (·.obj == o)).length ≤
    (EncFaultL.encLog hf (flOf name) (name.startsWith "encv") d (intactStore kind d bs) ranges).count
      (encObjOf o)

theorem opObjs_enc (name : String) (h : name.startsWith "enc" = true) :
    opObjs name = ["data", "ob", "w", "obio"] := by
  unfold opObjs; rw [if_pos h]

theorem rawAll_enc (name : String) (d : List UInt8) (bs : Nat) (kind : StoreKind) (ranges : Ranges)
    (tr : List Ev) (h : name.startsWith "enc" = true) (hr : EncReach name d bs kind ranges tr) :
    RawAll name d bs kind ranges tr := by
  intro o ho e k hek kd hkd
  obtain ⟨-, hk⟩ := getElem?_filter_obj tr o e k hek
  refine raw_enc name d bs kind ranges h o e k kd hkd ?_ (Nat.lt_of_lt_of_le hk (hr o ho))
  rw [opObjs_enc name h] at ho
  simp only [List.mem_cons, List.not_mem_nil, or_false] at ho
  rcases ho with rfl | rfl | rfl | rfl <;> decide

theorem faultTerminal_none (name : String) (d : List UInt8) (bs : Nat) (kind : StoreKind)
    (ranges : Ranges) (h0 : name.startsWith "ob-" = false) (h1 : name.startsWith "obpo" = false)
    (h2 : name.startsWith "copy" = false) (h3 : name.startsWith "valid-" = false)
    (h4 : name.startsWith "validob" = false) : faultTerminal name d bs kind ranges = none := by
  unfold faultTerminal
  simp only [h0, h1, h2, h3, h4, Bool.false_eq_true, if_false]

/-- decides `"literal".startsWith "literal" = b` -/
macro "swdec" : tactic => `(tactic| (rw [sw_eq]; decide))

/-- component level: whenever the twin's call log is the skeleton (`twinOk`; for the byte encoders,
whose twin is not compared by `opFaults`: under `EncReach`), every printed raw terminal has an
accepted shape -/
theorem rawAll (name : String) (d : List UInt8) (bs : Nat) (kind : StoreKind) (ranges : Ranges)
    (tr : List Ev) (hn : name ∈ names17) (hok : twinOkOf name d bs kind ranges tr = true)
    (henc : name.startsWith "enc" = true → EncReach name d bs kind ranges tr) :
    RawAll name d bs kind ranges tr := by
  simp only [names17, List.mem_cons, List.not_mem_nil, or_false] at hn
  rcases hn with rfl | rfl | rfl | rfl | rfl | rfl | rfl | rfl | rfl | rfl | rfl | rfl | rfl | rfl |
    rfl | rfl | rfl
  · exact rawAll_enc _ d bs kind ranges tr (by swdec) (henc (by swdec))
  · exact rawAll_enc _ d bs kind ranges tr (by swdec) (henc (by swdec))
  · exact rawAll_enc _ d bs kind ranges tr (by swdec) (henc (by swdec))
  · exact rawAll_enc _ d bs kind ranges tr (by swdec) (henc (by swdec))
  · exact rawAll_mixed d bs kind ranges tr hok
  · exact rawAll_notwin _ d bs kind ranges tr (by swdec) (by decide)
      (faultTerminal_none _ d bs kind ranges (by swdec) (by swdec) (by swdec) (by swdec) (by swdec))
  · exact rawAll_notwin _ d bs kind ranges tr (by swdec) (by decide)
      (faultTerminal_none _ d bs kind ranges (by swdec) (by swdec) (by swdec) (by swdec) (by swdec))
  · exact rawAll_twin _ d bs kind ranges _ (twinF_ob _ d bs kind ranges (by swdec)) tr hok
      (by swdec) (by decide)
  · exact rawAll_twin _ d bs kind ranges _ (twinF_ob _ d bs kind ranges (by swdec)) tr hok
      (by swdec) (by decide)
  · exact rawAll_twin _ d bs kind ranges _ (twinF_obpo _ d bs kind ranges (by swdec) (by swdec)) tr hok
      (by swdec) (by decide)
  · exact rawAll_twin _ d bs kind ranges _ (twinF_obpo _ d bs kind ranges (by swdec) (by swdec)) tr hok
      (by swdec) (by decide)
  · exact rawAll_twin _ d bs kind ranges _
      (twinF_copy _ d bs kind ranges (by swdec) (by swdec) (by swdec)) tr hok (by swdec) (by decide)
  · exact rawAll_twin _ d bs kind ranges _
      (twinF_copy _ d bs kind ranges (by swdec) (by swdec) (by swdec)) tr hok (by swdec) (by decide)
  · exact rawAll_twin _ d bs kind ranges _
      (twinF_valid _ d bs kind ranges (by swdec) (by swdec) (by swdec) (by swdec)) tr hok
      (by swdec) (by decide)
  · exact rawAll_twin _ d bs kind ranges _
      (twinF_valid _ d bs kind ranges (by swdec) (by swdec) (by swdec) (by swdec)) tr hok
      (by swdec) (by decide)
  · exact rawAll_twin _ d bs kind ranges _
      (twinF_validob _ d bs kind ranges (by swdec) (by swdec) (by swdec) (by swdec) (by swdec)) tr hok
      (by swdec) (by decide)
  · exact rawAll_twin _ d bs kind ranges _
      (twinF_validob _ d bs kind ranges (by swdec) (by swdec) (by swdec) (by swdec) (by swdec)) tr hok
      (by swdec) (by decide)


/-! ## 7. assembly: lines, the head, the whole report -/

/-- all object names -/
def allObjs : List String := ["data", "ob", "w", "obio", "s", "r", "t", "from", "to"]

theorem opObjs_sub (name o : String) (h : o ∈ opObjs name) : o ∈ allObjs := by
  unfold opObjs at h
  repeat' split at h
  all_goals
    simp only [List.mem_cons, List.not_mem_nil, or_false] at h
    rcases h with rfl | rfl | rfl | rfl <;> decide

theorem allObjs_ok (o : String) (h : o ∈ allObjs) : OkStr o ∧ NoCh '@' o := by
  simp only [allObjs, List.mem_cons, List.not_mem_nil, or_false] at h
  rcases h with rfl | rfl | rfl | rfl | rfl | rfl | rfl | rfl | rfl <;>
    exact ⟨okStr_lit _ (by decide), noCh_lit _ _ (by decide)⟩

theorem kindsOf_all (name o : String) : ((kindsOf name o).all fun k => allKinds.contains k) = true := by
  unfold kindsOf
  simp only []
  split <;> split <;> decide

theorem kindsOf_sub (name o kd0 : String) (h : kd0 ∈ kindsOf name o) : kd0 ∈ allKinds := by
  have := List.all_eq_true.1 (kindsOf_all name o) kd0 h
  exact List.contains_iff_mem.1 this

theorem kindsOf_ne_nil (name o : String) : kindsOf name o ≠ [] := by
  unfold kindsOf
  simp only []
  split <;> split <;> simp [kinds0]

theorem allKinds_ok (kd0 : String) (h : kd0 ∈ allKinds) :
    NoSp kd0 ∧ NoCh '=' kd0 ∧ NoCh '#' kd0 ∧ evalKind kd0 ∈ kinds0 := by
  simp only [allKinds, List.mem_cons, List.not_mem_nil, or_false] at h
  rcases h with rfl | rfl | rfl | rfl | rfl | rfl <;>
    exact ⟨noSp_lit _ (by decide), noCh_lit _ _ (by decide), noCh_lit _ _ (by decide), by decide⟩

/-- the printed result of a token is good -/
theorem resOf_good (name : String) (d : List UInt8) (bs : Nat) (kind : StoreKind) (ranges : Ranges)
    (tr : List Ev) (hall : RawAll name d bs kind ranges tr) (o : String) (ho : o ∈ opObjs name)
    (e : Ev) (k : Nat) (hek : (tr.filter (·.obj == o))[k]? = some e) (kd0 : String)
    (hkd : kd0 ∈ kindsOf name o) : GoodRes o kd0 (resOf name d bs kind ranges o e k kd0) := by
  have hk := kindsOf_sub name o kd0 hkd
  exact good_of_raw o kd0 _ hk (hall o ho e k hek _ (allKinds_ok kd0 hk).2.2.2)

theorem okStr_noSp {s : String} (h : OkStr s) : NoSp s := fun hm => (h _ hm).1 rfl
theorem okStr_noHash {s : String} (h : OkStr s) : NoCh '#' s := fun hm => (h _ hm).2 rfl

theorem noCh_intercalate (c : Char) (sep : String) (hs : NoCh c sep) (l : List String)
    (hl : ∀ t ∈ l, NoCh c t) : NoCh c (sep.intercalate l) := by
  induction l with
  | nil => exact noCh_lit _ _ rfl
  | cons a l ih =>
    cases l with
    | nil => simpa using hl a (List.mem_cons_self ..)
    | cons b l =>
      rw [String.intercalate_cons_cons]
      exact noCh_append (noCh_append (hl a (List.mem_cons_self ..)) hs)
        (ih (fun t ht => hl t (List.mem_cons_of_mem _ ht)))

/-- the first word of a line -/
def firstOf (o : String) (k : Nat) (label : String) : String :=
  o ++ "@" ++ toString k ++ "[" ++ label ++ "]"

theorem lineOf_eq (name : String) (d : List UInt8) (bs : Nat) (kind : StoreKind) (ranges : Ranges)
    (o : String) (e : Ev) (k : Nat) :
    lineOf name d bs kind ranges o (e, k) = firstOf o k e.label ++ " " ++
      " ".intercalate ((kindsOf name o).map (tokOf name d bs kind ranges o e k)) := by
  show o ++ "@" ++ toString k ++ "[" ++ e.label ++ "] " ++ _ = _
  unfold firstOf
  rw [show ("] " : String) = "]" ++ " " from rfl, ← String.append_assoc]

theorem lineOf_eq' (name : String) (d : List UInt8) (bs : Nat) (kind : StoreKind) (ranges : Ranges)
    (o : String) (e : Ev) (k : Nat) :
    lineOf name d bs kind ranges o (e, k) = o ++ "@" ++ (toString k ++ "[" ++ e.label ++ "] " ++
      " ".intercalate ((kindsOf name o).map (tokOf name d bs kind ranges o e k))) := by
  show o ++ "@" ++ toString k ++ "[" ++ e.label ++ "] " ++ _ = _
  simp only [String.append_assoc]

/-- one line of the model's report is accepted, and contains no `#` -/
theorem line_ok (name : String) (d : List UInt8) (bs : Nat) (kind : StoreKind) (ranges : Ranges)
    (tr : List Ev) (hall : RawAll name d bs kind ranges tr) (hlab : AllOk tr)
    (o : String) (ho : o ∈ opObjs name) (e : Ev) (k : Nat)
    (hek : (tr.filter (·.obj == o))[k]? = some e) :
    partVerdict (lineOf name d bs kind ranges o (e, k)) = none ∧
      NoCh '#' (lineOf name d bs kind ranges o (e, k)) := by
  have hoo := allObjs_ok o (opObjs_sub name o ho)
  have hel : OkStr e.label := by
    obtain ⟨hk, he⟩ := List.getElem?_eq_some_iff.1 hek
    exact hlab e (List.mem_filter.1 (he ▸ List.getElem_mem hk)).1
  have hgood := resOf_good name d bs kind ranges tr hall o ho e k hek
  have hfirst : OkStr (firstOf o k e.label) := by
    unfold firstOf
    exact okStr_app2 (okStr_app2 (okStr_app2 (okStr_app2 (okStr_app2 hoo.1 (okStr_lit _ (by decide)))
      (okStr_nat k)) (okStr_lit _ (by decide))) hel) (okStr_lit _ (by decide))
  have htoksp : ∀ t ∈ (kindsOf name o).map (tokOf name d bs kind ranges o e k), NoSp t := by
    intro t ht
    obtain ⟨kd0, hkd, rfl⟩ := List.mem_map.1 ht
    have := allKinds_ok kd0 (kindsOf_sub name o kd0 hkd)
    exact noSp_append (noSp_append (noSp_append this.1 (noSp_lit _ (by decide))) (hgood kd0 hkd).noSp)
      (noSp_lit _ (by decide))
  have htokh : ∀ t ∈ (kindsOf name o).map (tokOf name d bs kind ranges o e k), NoCh '#' t := by
    intro t ht
    obtain ⟨kd0, hkd, rfl⟩ := List.mem_map.1 ht
    have := allKinds_ok kd0 (kindsOf_sub name o kd0 hkd)
    exact noCh_append (noCh_append (noCh_append this.2.2.1 (noCh_lit _ _ (by decide)))
      (hgood kd0 hkd).noHash) (noCh_lit _ _ (by decide))
  constructor
  · unfold partVerdict
    have hsplit : (lineOf name d bs kind ranges o (e, k)).splitOn " " =
        firstOf o k e.label :: (kindsOf name o).map (tokOf name d bs kind ranges o e k) := by
      rw [lineOf_eq]
      exact split_line _ _ (by simpa using kindsOf_ne_nil name o) (okStr_noSp hfirst) htoksp
    rw [hsplit, List.drop_one, List.tail_cons, List.findSome?_eq_none_iff]
    intro t ht
    obtain ⟨kd0, hkd, rfl⟩ := List.mem_map.1 ht
    have hk := allKinds_ok kd0 (kindsOf_sub name o kd0 hkd)
    have hg := hgood kd0 hkd
    refine tokVerdict_none _ kd0 _ hk.2.1 hg.noEq hg.noSl hg.notOk hg.notPanic hg.notMM ?_
    rw [lineOf_eq', split_at_head o _ hoo.2]
    exact hg.acc
  · rw [lineOf_eq]
    exact noCh_append (noCh_append (okStr_noHash hfirst) (noCh_lit _ _ (by decide)))
      (noCh_intercalate '#' " " (noCh_lit _ _ (by decide)) _ htokh)

theorem head_noHash (name : String) (tr : List Ev) : NoCh '#' (headOf name tr) := by
  show NoCh '#' ("Ok N=" ++ ",".intercalate ((opObjs name).map fun o =>
    o ++ ":" ++ toString (tr.filter (·.obj == o)).length))
  refine noCh_append (noCh_lit _ _ (by decide)) (noCh_intercalate '#' "," (noCh_lit _ _ (by decide)) _ ?_)
  intro t ht
  obtain ⟨o, ho, rfl⟩ := List.mem_map.1 ht
  exact noCh_append (noCh_append (okStr_noHash (allObjs_ok o (opObjs_sub name o ho)).1)
    (noCh_lit _ _ (by decide))) (noCh_nat '#' (by decide) _)

/-- every line of the model's report comes from an event of the skeleton -/
theorem mem_linesOf (name : String) (d : List UInt8) (bs : Nat) (kind : StoreKind) (ranges : Ranges)
    (tr : List Ev) (stride : Nat) (line : String)
    (h : line ∈ linesOf name d bs kind ranges tr stride) :
    ∃ o ∈ opObjs name, ∃ e k, (tr.filter (·.obj == o))[k]? = some e ∧
      line = lineOf name d bs kind ranges o (e, k) := by
  unfold linesOf at h
  obtain ⟨o, ho, hl⟩ := List.mem_flatMap.1 h
  obtain ⟨⟨e, k⟩, hek, rfl⟩ := List.mem_map.1 hl
  have := (List.mem_filter.1 hek).1
  exact ⟨o, ho, e, k, List.mem_zipIdx_iff_getElem?.1 this, rfl⟩

/-- the verdict accepts the model's report -/
theorem sfOf_model (name : String) (d : List UInt8) (bs : Nat) (kind : StoreKind) (ranges : Ranges)
    (tr : List Ev) (stride : Nat)
    (hall : twinOkOf name d bs kind ranges tr = true → RawAll name d bs kind ranges tr)
    (hlab : AllOk tr) : sfOf (modelLine name d bs kind ranges tr stride) = none := by
  unfold modelLine sfOf
  split
  · rename_i hok
    have hall := hall hok
    have hl : ∀ line ∈ linesOf name d bs kind ranges tr stride,
        partVerdict line = none ∧ NoCh '#' line := by
      intro line hline
      obtain ⟨o, ho, e, k, hek, rfl⟩ := mem_linesOf name d bs kind ranges tr stride line hline
      exact line_ok name d bs kind ranges tr hall hlab o ho e k hek
    rw [splitOn_hash_intercalate _ _ (by
      intro t ht
      rcases List.mem_cons.1 ht with rfl | ht
      · exact head_noHash name tr
      · exact (hl t ht).2)]
    rw [List.drop_one, List.tail_cons, List.findSome?_eq_none_iff]
    exact fun line hline => (hl line hline).1
  · have : ("fault-twin and call skeleton disagree" : String)
        = " # ".intercalate ("fault-twin and call skeleton disagree" :: []) := rfl
    rw [this, splitOn_hash_intercalate _ _ (by
      intro t ht
      rcases List.mem_cons.1 ht with rfl | ht
      · decide
      · cases ht)]
    rfl


end Bao.SpecFaults
