import BaoModel.Fault

/-!
# Lemmas for C10: fault-aware outboard creation, copy and validators against their call log

`BaoModel/Fault.lean` defines `outboardPostOrderF`, `outboardF`, `copyF`, `validRangesF`,
`validOutboardRangesF`: the fault-free functions with an injected fault, call counters and the log
of io calls.  Here every such run is shown to be the *replay* of the fault-free log:

* `replay ap fault log st nd no nw ns nt` – replay a log against a fault: the counters are the
  numbers of calls made so far on data / outboard / writer / copy source / copy target, the first call
  whose counter is hit fails (it is logged, nothing follows), every other entry is applied to the
  state (`ap`);
* `splitCall o n log` – the log split at the `n`-th call on `o` (`replay_some`: closed form);
* `gen_*` – what follows for any operation that is the replay of its fault-free log.
-/

namespace Bao.OpsFaultL

open Bao

variable {H H' σ T : Type}

/-! ## objects, counters -/

theorem beq_obj (a b : FObj) : (a == b) = decide (a = b) := by
  cases a <;> cases b <;> rfl

instance : LawfulBEq FObj where
  eq_of_beq {a b} h := by rw [beq_obj] at h; exact of_decide_eq_true h
  rfl {a} := by rw [beq_obj]; exact decide_eq_true rfl

theorem hits_none (o : FObj) (n : Nat) : Fault.hits none o n = none := rfl

theorem hits_some (obj : FObj) (k : Nat) (kind : IoKind) (o : FObj) (n : Nat) :
    Fault.hits (some ⟨obj, k, kind⟩) o n =
      if obj = o ∧ k = n then some ⟨kind, true⟩ else none := by
  simp [Fault.hits]

/-- the counter of object `o` -/
def sel (o : FObj) (nd no nw ns nt : Nat) : Nat :=
  match o with
  | .data => nd
  | .ob => no
  | .w => nw
  | .src => ns
  | .dst => nt

/-- 1 if `e` is a call on `o` -/
def delta (o : FObj) (e : FEv H) : Nat := if e.obj = some o then 1 else 0

/-- number of calls on `o` -/
def ncalls (o : FObj) : List (FEv H) → Nat
  | [] => 0
  | e :: es => delta o e + ncalls o es

theorem ncalls_append (o : FObj) (a b : List (FEv H)) :
    ncalls o (a ++ b) = ncalls o a + ncalls o b := by
  induction a with
  | nil => simp [ncalls]
  | cons e a ih => simp only [List.cons_append, ncalls, ih]; omega

theorem ncalls_eq_count (o : FObj) (es : List (FEv H)) :
    ncalls o es = (es.map FEv.obj).count (some o) := by
  induction es with
  | nil => rfl
  | cons e es ih =>
    simp only [ncalls, delta, List.map_cons, List.count_cons, ih, beq_iff_eq]
    omega

/-! ## replaying a log against a fault -/

/-- replay a call log against a fault; a call that fails is logged and ends the replay with its
error, every other entry `e` is applied to the state (`ap st e`) and bumps the counter of its
object.  Result: the calls made, the state, the error of the failing call (if any). -/
def replay (ap : σ → FEv H → σ) (fault : Option Fault) :
    List (FEv H) → σ → Nat → Nat → Nat → Nat → Nat → List (FEv H) × σ × Option IoErr
  | [], st, _, _, _, _, _ => ([], st, none)
  | e :: es, st, nd, no, nw, ns, nt =>
    match (match e.obj with
      | some o => Fault.hits fault o (sel o nd no nw ns nt)
      | none => none) with
    | some err => ([e], st, some err)
    | none =>
      let r := replay ap fault es (ap st e) (nd + delta .data e) (no + delta .ob e)
        (nw + delta .w e) (ns + delta .src e) (nt + delta .dst e)
      (e :: r.1, r.2)

theorem replay_cons (ap : σ → FEv H → σ) (fault : Option Fault) (e : FEv H) (es : List (FEv H))
    (st : σ) (nd no nw ns nt : Nat) :
    replay ap fault (e :: es) st nd no nw ns nt =
      match (match e.obj with
        | some o => Fault.hits fault o (sel o nd no nw ns nt)
        | none => none) with
      | some err => ([e], st, some err)
      | none =>
        (e :: (replay ap fault es (ap st e) (nd + delta .data e) (no + delta .ob e)
            (nw + delta .w e) (ns + delta .src e) (nt + delta .dst e)).1,
          (replay ap fault es (ap st e) (nd + delta .data e) (no + delta .ob e)
            (nw + delta .w e) (ns + delta .src e) (nt + delta .dst e)).2) := rfl

theorem sel_bump (o : FObj) (e : FEv H) (nd no nw ns nt : Nat) :
    sel o (nd + delta .data e) (no + delta .ob e) (nw + delta .w e) (ns + delta .src e)
      (nt + delta .dst e) = sel o nd no nw ns nt + delta o e := by
  cases o <;> rfl

/-- without a fault every entry is performed -/
theorem replay_none (ap : σ → FEv H → σ) (es : List (FEv H)) :
    ∀ (st : σ) (nd no nw ns nt : Nat),
    replay ap none es st nd no nw ns nt = (es, es.foldl ap st, none) := by
  induction es with
  | nil => intros; rfl
  | cons e es ih =>
    intro st nd no nw ns nt
    have h : (match e.obj with
      | some o => Fault.hits none o (sel o nd no nw ns nt)
      | none => none) = none := by cases e.obj <;> rfl
    simp only [replay, h, ih, List.foldl_cons]

/-- the log split at the `n`-th (0-based) call on `o`: the entries before it, the call, the rest -/
def splitCall (o : FObj) : Nat → List (FEv H) → Option (List (FEv H) × FEv H × List (FEv H))
  | _, [] => none
  | n, e :: es =>
    if e.obj = some o then
      match n with
      | 0 => some ([], e, es)
      | n + 1 => (splitCall o n es).map fun p => (e :: p.1, p.2.1, p.2.2)
    else (splitCall o n es).map fun p => (e :: p.1, p.2.1, p.2.2)

theorem splitCall_some {o : FObj} {es : List (FEv H)} :
    ∀ {n : Nat} {pre : List (FEv H)} {e : FEv H} {post : List (FEv H)},
    splitCall o n es = some (pre, e, post) →
    es = pre ++ e :: post ∧ e.obj = some o ∧ ncalls o pre = n := by
  induction es with
  | nil => intro n pre e post h; simp [splitCall] at h
  | cons a es ih =>
    intro n pre e post h
    unfold splitCall at h
    by_cases ha : a.obj = some o
    · rw [if_pos ha] at h
      cases n with
      | zero =>
        simp only [Option.some.injEq, Prod.mk.injEq] at h
        obtain ⟨rfl, rfl, rfl⟩ := h
        exact ⟨rfl, ha, rfl⟩
      | succ n =>
        simp only [Option.map_eq_some_iff, Prod.mk.injEq] at h
        obtain ⟨⟨p1, p2, p3⟩, hp, rfl, rfl, rfl⟩ := h
        obtain ⟨h1, h2, h3⟩ := ih hp
        refine ⟨by rw [h1]; rfl, h2, ?_⟩
        simp only [ncalls, delta, if_pos ha, h3]; omega
    · rw [if_neg ha] at h
      simp only [Option.map_eq_some_iff, Prod.mk.injEq] at h
      obtain ⟨⟨p1, p2, p3⟩, hp, rfl, rfl, rfl⟩ := h
      obtain ⟨h1, h2, h3⟩ := ih hp
      refine ⟨by rw [h1]; rfl, h2, ?_⟩
      simp only [ncalls, delta, if_neg ha, h3]; omega

theorem splitCall_none {o : FObj} {es : List (FEv H)} :
    ∀ {n : Nat}, splitCall o n es = none ↔ ncalls o es ≤ n := by
  induction es with
  | nil => intro n; simp [splitCall, ncalls]
  | cons a es ih =>
    intro n
    unfold splitCall
    by_cases ha : a.obj = some o
    · rw [if_pos ha]
      cases n with
      | zero => simp [ncalls, delta, if_pos ha]
      | succ n =>
        simp only [Option.map_eq_none_iff, ih, ncalls, delta, if_pos ha]; omega
    · rw [if_neg ha]
      simp only [Option.map_eq_none_iff, ih, ncalls, delta, if_neg ha]; omega

/-- the split is the only decomposition of the log at the `n`-th call on `o` -/
theorem splitCall_of_decomp {o : FObj} :
    ∀ {pre : List (FEv H)} {n : Nat} {e : FEv H} {post : List (FEv H)},
    e.obj = some o → ncalls o pre = n → splitCall o n (pre ++ e :: post) = some (pre, e, post) := by
  intro pre
  induction pre with
  | nil =>
    intro n e post he hn
    simp only [ncalls] at hn
    subst hn
    simp [splitCall, he]
  | cons a pre ih =>
    intro n e post he hn
    simp only [List.cons_append]
    unfold splitCall
    by_cases ha : a.obj = some o
    · rw [if_pos ha]
      simp only [ncalls, delta, if_pos ha] at hn
      cases n with
      | zero => omega
      | succ n => simp only [ih he (by omega : ncalls o pre = n), Option.map_some]
    · rw [if_neg ha]
      simp only [ncalls, delta, if_neg ha] at hn
      simp only [ih he (by omega : ncalls o pre = n), Option.map_some]

/-- closed form of a replay against the fault "the `k`-th call on `o` fails" -/
theorem replay_some (ap : σ → FEv H → σ) (o : FObj) (k : Nat) (kind : IoKind)
    (es : List (FEv H)) :
    ∀ (st : σ) (nd no nw ns nt : Nat), sel o nd no nw ns nt ≤ k →
    replay ap (some ⟨o, k, kind⟩) es st nd no nw ns nt =
      match splitCall o (k - sel o nd no nw ns nt) es with
      | some (pre, e, _) => (pre ++ [e], pre.foldl ap st, some ⟨kind, true⟩)
      | none => (es, es.foldl ap st, none) := by
  induction es with
  | nil => intros; simp [replay, splitCall]
  | cons e es ih =>
    intro st nd no nw ns nt h
    unfold replay splitCall
    by_cases he : e.obj = some o
    · rw [if_pos he]
      simp only [he, hits_some, true_and]
      by_cases hk : k = sel o nd no nw ns nt
      · rw [if_pos hk, hk, Nat.sub_self]
        simp
      · rw [if_neg hk]
        have h1 : k - sel o nd no nw ns nt = (k - (sel o nd no nw ns nt + 1)) + 1 := by omega
        rw [h1]
        simp only []
        have hd : delta o e = 1 := by simp [delta, he]
        rw [ih _ _ _ _ _ _ (by rw [sel_bump, hd]; omega), sel_bump, hd]
        cases splitCall o (k - (sel o nd no nw ns nt + 1)) es with
        | none => simp
        | some p => simp
    · rw [if_neg he]
      have hn : (match e.obj with
          | some o' => Fault.hits (some ⟨o, k, kind⟩) o' (sel o' nd no nw ns nt)
          | none => none) = none := by
        cases ho : e.obj with
        | none => rfl
        | some o' =>
          simp only [hits_some]
          rw [if_neg]
          rintro ⟨rfl, _⟩
          exact he ho
      rw [hn]
      simp only []
      have hd : delta o e = 0 := by simp [delta, he]
      rw [ih _ _ _ _ _ _ (by rw [sel_bump, hd]; omega), sel_bump, hd, Nat.add_zero]
      cases splitCall o (k - sel o nd no nw ns nt) es with
      | none => simp
      | some p => simp

theorem sel_zero (o : FObj) : sel o 0 0 0 0 0 = 0 := by cases o <;> rfl

/-! ## one-step unfoldings of `replay` for the calls that occur -/

section steps

variable (ap : σ → FEv H → σ) (fault : Option Fault) (es : List (FEv H)) (st : σ)
  (nd no nw ns nt : Nat)

theorem replay_read (z : Nat) :
    replay ap fault (.read z :: es) st nd no nw ns nt =
      match Fault.hits fault .data nd with
      | some err => ([.read z], st, some err)
      | none =>
        (.read z :: (replay ap fault es (ap st (.read z)) (nd + 1) no nw ns nt).1,
          (replay ap fault es (ap st (.read z)) (nd + 1) no nw ns nt).2) := rfl

theorem replay_readAt (a z : Nat) :
    replay ap fault (.readAt a z :: es) st nd no nw ns nt =
      match Fault.hits fault .data nd with
      | some err => ([.readAt a z], st, some err)
      | none =>
        (.readAt a z :: (replay ap fault es (ap st (.readAt a z)) (nd + 1) no nw ns nt).1,
          (replay ap fault es (ap st (.readAt a z)) (nd + 1) no nw ns nt).2) := rfl

theorem replay_write (b : List UInt8) :
    replay ap fault (.write b :: es) st nd no nw ns nt =
      match Fault.hits fault .w nw with
      | some err => ([.write b], st, some err)
      | none =>
        (.write b :: (replay ap fault es (ap st (.write b)) nd no (nw + 1) ns nt).1,
          (replay ap fault es (ap st (.write b)) nd no (nw + 1) ns nt).2) := rfl

theorem replay_save_ob (n : Nat) (l r : H) :
    replay ap fault (.save .ob n l r :: es) st nd no nw ns nt =
      match Fault.hits fault .ob no with
      | some err => ([.save .ob n l r], st, some err)
      | none =>
        (.save .ob n l r :: (replay ap fault es (ap st (.save .ob n l r)) nd (no + 1) nw ns nt).1,
          (replay ap fault es (ap st (.save .ob n l r)) nd (no + 1) nw ns nt).2) := rfl

theorem replay_load_ob (n : Nat) :
    replay ap fault (.load .ob n :: es) st nd no nw ns nt =
      match Fault.hits fault .ob no with
      | some err => ([.load .ob n], st, some err)
      | none =>
        (.load .ob n :: (replay ap fault es (ap st (.load .ob n)) nd (no + 1) nw ns nt).1,
          (replay ap fault es (ap st (.load .ob n)) nd (no + 1) nw ns nt).2) := rfl

theorem replay_load_src (n : Nat) :
    replay ap fault (.load .src n :: es) st nd no nw ns nt =
      match Fault.hits fault .src ns with
      | some err => ([.load .src n], st, some err)
      | none =>
        (.load .src n :: (replay ap fault es (ap st (.load .src n)) nd no nw (ns + 1) nt).1,
          (replay ap fault es (ap st (.load .src n)) nd no nw (ns + 1) nt).2) := rfl

theorem replay_save_dst (n : Nat) (l r : H) :
    replay ap fault (.save .dst n l r :: es) st nd no nw ns nt =
      match Fault.hits fault .dst nt with
      | some err => ([.save .dst n l r], st, some err)
      | none =>
        (.save .dst n l r :: (replay ap fault es (ap st (.save .dst n l r)) nd no nw ns (nt + 1)).1,
          (replay ap fault es (ap st (.save .dst n l r)) nd no nw ns (nt + 1)).2) := rfl

theorem replay_yield (a b : Nat) :
    replay ap fault (.yield a b :: es) st nd no nw ns nt =
      (.yield a b :: (replay ap fault es (ap st (.yield a b)) nd no nw ns nt).1,
        (replay ap fault es (ap st (.yield a b)) nd no nw ns nt).2) := rfl

theorem replay_nil : replay ap fault ([] : List (FEv H)) st nd no nw ns nt = ([], st, none) := rfl

end steps

/-! ## what follows for any operation that is the replay of its fault-free log -/

/-- assemble a run from a replay: the calls made, the state, and the terminal - the injected error
if the replay was cut, the terminal `t0` of the fault-free run otherwise -/
def asm (errT : IoErr → T) (r : List (FEv H) × σ × Option IoErr) (t0 : T) : List (FEv H) × σ × T :=
  (r.1, r.2.1, match r.2.2 with | some e => errT e | none => t0)

theorem asm_cons (errT : IoErr → T) (e : FEv H) (r : List (FEv H) × σ × Option IoErr) (t0 : T) :
    asm errT (e :: r.1, r.2) t0 = (e :: (asm errT r t0).1, (asm errT r t0).2) := rfl

section generic

variable (ap : σ → FEv H → σ) (errT : IoErr → T) (st0 : σ)
  (V : Option Fault → List (FEv H) × σ × T)
  (hrep : ∀ fault, V fault = asm errT (replay ap fault (V none).1 st0 0 0 0 0 0) (V none).2.2)

include hrep

/-- the fault-free run performs its whole log -/
theorem gen_sound : (V none).2.1 = (V none).1.foldl ap st0 := by
  have h := hrep none
  rw [replay_none] at h
  exact congrArg (fun x => x.2.1) h

theorem gen_some (obj : FObj) (k : Nat) (kind : IoKind) :
    V (some ⟨obj, k, kind⟩) =
      match splitCall obj k (V none).1 with
      | some (pre, e, _) => (pre ++ [e], pre.foldl ap st0, errT ⟨kind, true⟩)
      | none => V none := by
  have h0 := hrep none
  rw [replay_none] at h0
  rw [hrep (some ⟨obj, k, kind⟩),
    replay_some ap obj k kind _ st0 0 0 0 0 0 (by rw [sel_zero]; exact Nat.zero_le _), sel_zero,
    Nat.sub_zero]
  cases splitCall obj k (V none).1 with
  | none => exact h0.symm
  | some p => rfl

/-- the fault is reached: the faulty run is the fault-free run cut right after the failing call -/
theorem gen_cut (obj : FObj) (k : Nat) (kind : IoKind) (hk : k < ncalls obj (V none).1) :
    ∃ pre e post, (V none).1 = pre ++ e :: post ∧ e.obj = some obj ∧ ncalls obj pre = k ∧
      V (some ⟨obj, k, kind⟩) = (pre ++ [e], pre.foldl ap st0, errT ⟨kind, true⟩) := by
  cases hs : splitCall obj k (V none).1 with
  | none => exact absurd (splitCall_none.mp hs) (Nat.not_le.mpr hk)
  | some p =>
    obtain ⟨pre, e, post⟩ := p
    obtain ⟨h1, h2, h3⟩ := splitCall_some hs
    have hr := gen_some ap errT st0 V hrep obj k kind
    rw [hs] at hr
    exact ⟨pre, e, post, h1, h2, h3, hr⟩

/-- the fault is not reached: same run -/
theorem gen_unreached (obj : FObj) (k : Nat) (kind : IoKind) (hk : ncalls obj (V none).1 ≤ k) :
    V (some ⟨obj, k, kind⟩) = V none := by
  have hr := gen_some ap errT st0 V hrep obj k kind
  rw [splitCall_none.mpr hk] at hr
  exact hr

/-- every run is the fault-free run, or the fault-free run cut at a call of its log -/
theorem gen_dichotomy (fault : Option Fault) :
    (∃ obj k kind pre e post, fault = some ⟨obj, k, kind⟩ ∧ (V none).1 = pre ++ e :: post ∧
      e.obj = some obj ∧ ncalls obj pre = k ∧
      V fault = (pre ++ [e], pre.foldl ap st0, errT ⟨kind, true⟩)) ∨
    V fault = V none := by
  cases fault with
  | none => exact Or.inr rfl
  | some f =>
    obtain ⟨obj, k, kind⟩ := f
    by_cases hk : k < ncalls obj (V none).1
    · obtain ⟨pre, e, post, h1, h2, h3, h4⟩ := gen_cut ap errT st0 V hrep obj k kind hk
      exact Or.inl ⟨obj, k, kind, pre, e, post, rfl, h1, h2, h3, h4⟩
    · exact Or.inr (gen_unreached ap errT st0 V hrep obj k kind (Nat.le_of_not_lt hk))

/-- the calls made are a prefix of the fault-free calls -/
theorem gen_log_prefix (fault : Option Fault) : (V fault).1 <+: (V none).1 := by
  rcases gen_dichotomy ap errT st0 V hrep fault with ⟨_, _, _, pre, e, post, _, h1, _, _, h4⟩ | h
  · rw [h4, h1]
    exact ⟨post, by simp⟩
  · rw [h]; exact List.prefix_refl _

/-- the state reached is the state after a prefix of the fault-free log, and the fault-free state is
reached from it by the rest of the log -/
theorem gen_state_prefix (fault : Option Fault) :
    ∃ pre rest, (V none).1 = pre ++ rest ∧ (V fault).2.1 = pre.foldl ap st0 ∧
      (V none).2.1 = rest.foldl ap (V fault).2.1 := by
  have hs := gen_sound ap errT st0 V hrep
  rcases gen_dichotomy ap errT st0 V hrep fault with ⟨_, _, _, pre, e, post, _, h1, _, _, h4⟩ | h
  · refine ⟨pre, e :: post, h1, by rw [h4], ?_⟩
    rw [hs, h4, h1, List.foldl_append]
  · refine ⟨(V none).1, [], by simp, by rw [h, hs], ?_⟩
    rw [h]; rfl

/-- a reached fault ends with the injected error -/
theorem gen_terminal (obj : FObj) (k : Nat) (kind : IoKind) (hk : k < ncalls obj (V none).1) :
    (V (some ⟨obj, k, kind⟩)).2.2 = errT ⟨kind, true⟩ := by
  obtain ⟨pre, e, post, _, _, _, h4⟩ := gen_cut ap errT st0 V hrep obj k kind hk
  rw [h4]

/-- the terminal is that of the fault-free run or an injected error -/
theorem gen_terminal_cases (fault : Option Fault) :
    (V fault).2.2 = (V none).2.2 ∨ ∃ kind, (V fault).2.2 = errT ⟨kind, true⟩ := by
  rcases gen_dichotomy ap errT st0 V hrep fault with ⟨_, _, kind, pre, e, post, _, _, _, _, h4⟩ | h
  · exact Or.inr ⟨kind, by rw [h4]⟩
  · exact Or.inl (by rw [h])

end generic

/-- the decomposition of a log at the `k`-th call on `obj` is unique -/
theorem decomp_unique (obj : FObj) (k : Nat) (log : List (FEv H))
    (pre pre' post post' : List (FEv H)) (e e' : FEv H)
    (h : log = pre ++ e :: post) (he : e.obj = some obj) (hc : ncalls obj pre = k)
    (h' : log = pre' ++ e' :: post') (he' : e'.obj = some obj) (hc' : ncalls obj pre' = k) :
    pre = pre' ∧ e = e' ∧ post = post' := by
  have h1 := splitCall_of_decomp (post := post) he hc
  have h2 := splitCall_of_decomp (post := post') he' hc'
  rw [← h] at h1
  rw [← h', h1] at h2
  simpa using h2

/-! ## states: writer output, saved pairs, yields -/

/-- the bytes a call appends to the writer -/
def FEv.bytes : FEv H → List UInt8
  | .write b => b
  | _ => []

/-- writer state -/
def apW (out : List UInt8) : FEv H → List UInt8
  | .write b => out ++ b
  | _ => out

/-- the bytes written by a list of (successful) calls -/
def outOf : List (FEv H) → List UInt8
  | [] => []
  | e :: es => FEv.bytes e ++ outOf es

theorem outOf_append (a b : List (FEv H)) : outOf (a ++ b) = outOf a ++ outOf b := by
  induction a with
  | nil => rfl
  | cons e a ih => simp only [List.cons_append, outOf, ih, List.append_assoc]

theorem foldl_apW (es : List (FEv H)) : ∀ out : List UInt8, es.foldl apW out = out ++ outOf es := by
  induction es with
  | nil => intro out; simp [outOf]
  | cons e es ih =>
    intro out
    cases e <;> simp [List.foldl_cons, ih, apW, outOf, FEv.bytes]

/-- outboard state: a `save` that succeeds is applied, anything else leaves the store as it is -/
def apS (hf : HashFns H) (s : Store H) (e : FEv H) : Store H :=
  match e with
  | .save _ node l r =>
    match s.save hf node (l, r) with
    | .ok s' => s'
    | _ => s
  | _ => s

/-- the store after the saves of a list of calls -/
def savedOf (hf : HashFns H) (s : Store H) (es : List (FEv H)) : Store H := es.foldl (apS hf) s

theorem savedOf_append (hf : HashFns H) (s : Store H) (a b : List (FEv H)) :
    savedOf hf s (a ++ b) = savedOf hf (savedOf hf s a) b := List.foldl_append ..

/-- the `(node, pair)`s offered to `save` by a list of calls -/
def savesOf : List (FEv H) → List (Nat × H × H)
  | [] => []
  | .save _ n l r :: es => (n, l, r) :: savesOf es
  | _ :: es => savesOf es

theorem savesOf_append (a b : List (FEv H)) : savesOf (a ++ b) = savesOf a ++ savesOf b := by
  induction a with
  | nil => rfl
  | cons e a ih => cases e <;> simp [savesOf, ih]

/-- the ranges yielded in a log -/
def yieldsOf : List (FEv H) → List (Nat × Nat)
  | [] => []
  | .yield s e :: es => (s, e) :: yieldsOf es
  | _ :: es => yieldsOf es

theorem yieldsOf_append (a b : List (FEv H)) : yieldsOf (a ++ b) = yieldsOf a ++ yieldsOf b := by
  induction a with
  | nil => rfl
  | cons e a ih => cases e <;> simp [yieldsOf, ih]

theorem yieldsOf_yieldEvs (ys : List (Nat × Nat)) : yieldsOf (yieldEvs ys : List (FEv H)) = ys := by
  induction ys with
  | nil => rfl
  | cons y ys ih => simp only [yieldEvs, List.map_cons, yieldsOf] at ih ⊢; rw [ih]

/-- a call (not a yield) yields nothing -/
theorem yieldsOf_call {e : FEv H} {o : FObj} (h : e.obj = some o) : yieldsOf [e] = [] := by
  cases e <;> first | rfl | cases h

/-! ## `outboard_post_order` -/

/-- `(log, state, terminal)` of an outboard run -/
def viewOb (r : List (FEv H) × ObRun H' σ) : List (FEv H) × σ × Res IoErr H' :=
  (r.1, r.2.sink, r.2.res)

/-- assemble an outboard run from a replay -/
def asmOb (r : List (FEv H) × σ × Option IoErr) (res0 : Res IoErr H') :
    List (FEv H) × ObRun H' σ :=
  (r.1, ⟨match r.2.2 with | some e => .err e | none => res0, r.2.1⟩)

theorem viewOb_eq {r : List (FEv H) × ObRun H' σ} {a : List (FEv H)} {s : σ} {t : Res IoErr H'}
    (h : viewOb r = (a, s, t)) : r = (a, ⟨t, s⟩) := by
  obtain ⟨l, ⟨res, sink⟩⟩ := r
  simp only [viewOb, Prod.mk.injEq] at h
  obtain ⟨rfl, rfl, rfl⟩ := h
  rfl

theorem viewOb_inj {r r' : List (FEv H) × ObRun H' σ} (h : viewOb r = viewOb r') : r = r' := by
  obtain ⟨l, ⟨res, sink⟩⟩ := r'
  exact viewOb_eq h

theorem viewOb_asmOb (r : List (FEv H) × σ × Option IoErr) (res0 : Res IoErr H') :
    viewOb (asmOb r res0) = asm .err r res0 := rfl

theorem stack_cases (P : List H → Prop) (h0 : P []) (h1 : ∀ a, P [a])
    (h2 : ∀ a b s, P (a :: b :: s)) : ∀ s, P s
  | [] => h0
  | [a] => h1 a
  | a :: b :: s => h2 a b s

theorem obpoLoop_replay (hf : HashFns H) (fault : Option Fault) (plan : List Chunk) :
    ∀ (stack : List H) (data out : List UInt8) (nd nw : Nat),
    outboardPostOrderLoopF hf fault plan stack data out nd nw =
      asmOb (replay apW fault (outboardPostOrderLoopF hf none plan stack data out nd nw).1
        out nd 0 nw 0 0) (outboardPostOrderLoopF hf none plan stack data out nd nw).2.res := by
  induction plan with
  | nil =>
    intro stack data out nd nw
    match stack with
    | [] => rfl
    | [_] => rfl
    | _ :: _ :: _ => rfl
  | cons c plan ih =>
    intro stack data out nd nw
    cases c with
    | parent node isRoot left right rs =>
      refine stack_cases (fun stack => outboardPostOrderLoopF hf fault _ stack data out nd nw =
        asmOb (replay apW fault (outboardPostOrderLoopF hf none _ stack data out nd nw).1
          out nd 0 nw 0 0) (outboardPostOrderLoopF hf none _ stack data out nd nw).2.res)
        ?_ ?_ ?_ stack
      · rfl
      · intro a; rfl
      · intro r l stack
        simp only [outboardPostOrderLoopF, hits_none, replay_write]
        cases Fault.hits fault .w nw with
        | some e => rfl
        | none =>
          simp only []
          cases Fault.hits fault .w (nw + 1) with
          | some e => rfl
          | none =>
            simp only []
            rw [ih]
            simp only [apW, List.append_assoc]
            rfl
    | leaf start size isRoot rs =>
      simp only [outboardPostOrderLoopF, hits_none]
      cases readExact data size with
      | error e =>
        simp only [replay_read, replay_nil]
        cases Fault.hits fault .data nd <;> rfl
      | ok p =>
        obtain ⟨buf, rest⟩ := p
        simp only [replay_read]
        cases Fault.hits fault .data nd with
        | some e => rfl
        | none =>
          simp only []
          rw [ih]
          rfl

theorem obpo_replay (hf : HashFns H) (data : List UInt8) (tree : Tree) (fault : Option Fault) :
    viewOb (outboardPostOrderF hf data tree fault) =
      asm .err (replay apW fault (viewOb (outboardPostOrderF hf data tree none)).1 [] 0 0 0 0 0)
        (viewOb (outboardPostOrderF hf data tree none)).2.2 := by
  unfold outboardPostOrderF
  rw [obpoLoop_replay]
  rfl

theorem obpoLoop_none (hf : HashFns H) (plan : List Chunk) :
    ∀ (stack : List H) (data out : List UInt8) (nd nw : Nat),
    (outboardPostOrderLoopF hf none plan stack data out nd nw).2 =
      outboardPostOrderLoop hf plan stack data out := by
  induction plan with
  | nil =>
    intro stack data out nd nw
    match stack with
    | [] => rfl
    | [_] => rfl
    | _ :: _ :: _ => rfl
  | cons c plan ih =>
    intro stack data out nd nw
    cases c with
    | parent node isRoot left right rs =>
      refine stack_cases (fun stack => (outboardPostOrderLoopF hf none _ stack data out nd nw).2 =
        outboardPostOrderLoop hf _ stack data out) ?_ ?_ ?_ stack
      · rfl
      · intro a; rfl
      · intro r l stack
        simp only [outboardPostOrderLoopF, outboardPostOrderLoop, hits_none, ih]
    | leaf start size isRoot rs =>
      simp only [outboardPostOrderLoopF, outboardPostOrderLoop, hits_none]
      cases readExact data size with
      | error e => rfl
      | ok p => simp only [ih]

/-! ## `outboard` -/

theorem obLoop_replay (hf : HashFns H) (fault : Option Fault) (plan : List Chunk) :
    ∀ (stack : List H) (data : List UInt8) (ob : Store H) (nd no : Nat),
    outboardLoopF hf fault plan stack data ob nd no =
      asmOb (replay (apS hf) fault (outboardLoopF hf none plan stack data ob nd no).1
        ob nd no 0 0 0) (outboardLoopF hf none plan stack data ob nd no).2.res := by
  induction plan with
  | nil =>
    intro stack data ob nd no
    match stack with
    | [] => rfl
    | [_] => rfl
    | _ :: _ :: _ => rfl
  | cons c plan ih =>
    intro stack data ob nd no
    cases c with
    | parent node isRoot left right rs =>
      refine stack_cases (fun stack => outboardLoopF hf fault _ stack data ob nd no =
        asmOb (replay (apS hf) fault (outboardLoopF hf none _ stack data ob nd no).1
          ob nd no 0 0 0) (outboardLoopF hf none _ stack data ob nd no).2.res) ?_ ?_ ?_ stack
      · rfl
      · intro a; rfl
      · intro r l stack
        simp only [outboardLoopF, hits_none]
        cases hs : ob.save hf node (l, r) with
        | err e =>
          simp only [replay_save_ob, replay_nil]
          cases Fault.hits fault .ob no <;> simp only [apS, hs] <;> rfl
        | panic =>
          simp only [replay_save_ob, replay_nil]
          cases Fault.hits fault .ob no <;> simp only [apS, hs] <;> rfl
        | ok ob' =>
          simp only [replay_save_ob]
          cases Fault.hits fault .ob no with
          | some e => rfl
          | none =>
            simp only []
            rw [ih]
            simp only [apS, hs]
            rfl
    | leaf start size isRoot rs =>
      simp only [outboardLoopF, hits_none]
      cases readExact data size with
      | error e =>
        simp only [replay_read, replay_nil]
        cases Fault.hits fault .data nd <;> rfl
      | ok p =>
        obtain ⟨buf, rest⟩ := p
        simp only [replay_read]
        cases Fault.hits fault .data nd with
        | some e => rfl
        | none =>
          simp only []
          rw [ih]
          rfl

theorem ob_replay (hf : HashFns H) (data : List UInt8) (tree : Tree) (ob : Store H)
    (fault : Option Fault) :
    viewOb (outboardF hf data tree ob fault) =
      asm .err (replay (apS hf) fault (viewOb (outboardF hf data tree ob none)).1 ob 0 0 0 0 0)
        (viewOb (outboardF hf data tree ob none)).2.2 := by
  unfold outboardF
  rw [obLoop_replay]
  rfl

theorem obLoop_none (hf : HashFns H) (plan : List Chunk) :
    ∀ (stack : List H) (data : List UInt8) (ob : Store H) (nd no : Nat),
    (outboardLoopF hf none plan stack data ob nd no).2 = outboardLoop hf plan stack data ob := by
  induction plan with
  | nil =>
    intro stack data ob nd no
    match stack with
    | [] => rfl
    | [_] => rfl
    | _ :: _ :: _ => rfl
  | cons c plan ih =>
    intro stack data ob nd no
    cases c with
    | parent node isRoot left right rs =>
      refine stack_cases (fun stack => (outboardLoopF hf none _ stack data ob nd no).2 =
        outboardLoop hf _ stack data ob) ?_ ?_ ?_ stack
      · rfl
      · intro a; rfl
      · intro r l stack
        simp only [outboardLoopF, outboardLoop, hits_none]
        cases ob.save hf node (l, r) with
        | err e => rfl
        | panic => rfl
        | ok ob' => simp only [ih]
    | leaf start size isRoot rs =>
      simp only [outboardLoopF, outboardLoop, hits_none]
      cases readExact data size with
      | error e => rfl
      | ok p => simp only [ih]

/-! ## `copy` -/

theorem copyLoop_replay (hf : HashFns H) (fl : Flavour) (fault : Option Fault) (src : Store H)
    (nodes : List Nat) :
    ∀ (dst : Store H) (ns nt : Nat),
    copyLoopF hf fl fault src nodes dst ns nt =
      asmOb (replay (apS hf) fault (copyLoopF hf fl none src nodes dst ns nt).1 dst 0 0 0 ns nt)
        (copyLoopF hf fl none src nodes dst ns nt).2.res := by
  induction nodes with
  | nil => intros; rfl
  | cons node nodes ih =>
    intro dst ns nt
    simp only [copyLoopF, hits_none]
    rcases src.load hf fl node with (_ | ⟨l, r⟩) | e | _
    · simp only [replay_load_src]
      cases Fault.hits fault .src ns with
      | some e => rfl
      | none =>
        simp only []
        rw [ih]
        rfl
    · simp only []
      cases hs : dst.save hf node (l, r) with
      | err e =>
        simp only [replay_load_src, replay_save_dst, replay_nil]
        cases Fault.hits fault .src ns with
        | some e => rfl
        | none =>
          simp only []
          cases Fault.hits fault .dst nt <;> simp only [apS, hs] <;> rfl
      | panic =>
        simp only [replay_load_src, replay_save_dst, replay_nil]
        cases Fault.hits fault .src ns with
        | some e => rfl
        | none =>
          simp only []
          cases Fault.hits fault .dst nt <;> simp only [apS, hs] <;> rfl
      | ok dst' =>
        simp only [replay_load_src, replay_save_dst]
        cases Fault.hits fault .src ns with
        | some e => rfl
        | none =>
          simp only []
          cases Fault.hits fault .dst nt with
          | some e => rfl
          | none =>
            simp only []
            rw [ih]
            simp only [apS, hs]
            rfl
    · simp only [replay_load_src, replay_nil]
      cases Fault.hits fault .src ns <;> rfl
    · simp only [replay_load_src, replay_nil]
      cases Fault.hits fault .src ns <;> rfl

theorem copy_replay (hf : HashFns H) (fl : Flavour) (src dst : Store H) (fault : Option Fault) :
    viewOb (copyF hf fl src dst fault) =
      asm .err (replay (apS hf) fault (viewOb (copyF hf fl src dst none)).1 dst 0 0 0 0 0)
        (viewOb (copyF hf fl src dst none)).2.2 := by
  unfold copyF
  rw [copyLoop_replay]
  rfl

theorem copyLoop_none (hf : HashFns H) (fl : Flavour) (src : Store H) (nodes : List Nat) :
    ∀ (dst : Store H) (ns nt : Nat),
    (copyLoopF hf fl none src nodes dst ns nt).2.toRes = copyLoop hf fl src nodes dst := by
  induction nodes with
  | nil => intros; rfl
  | cons node nodes ih =>
    intro dst ns nt
    simp only [copyLoopF, copyLoop, hits_none]
    rcases src.load hf fl node with (_ | ⟨l, r⟩) | e | _
    · simp only [ih]
    · simp only []
      cases dst.save hf node (l, r) with
      | err e => rfl
      | panic => rfl
      | ok dst' => simp only [ih]
    · rfl
    · rfl

/-! ## replay of an appended log -/

/-- a replay that is not cut made every call of the log -/
theorem replay_uncut (ap : σ → FEv H → σ) (fault : Option Fault) (es : List (FEv H)) :
    ∀ (st : σ) (nd no nw ns nt : Nat), (replay ap fault es st nd no nw ns nt).2.2 = none →
    replay ap fault es st nd no nw ns nt = (es, es.foldl ap st, none) := by
  induction es with
  | nil => intros; rfl
  | cons e es ih =>
    intro st nd no nw ns nt h
    rw [replay_cons] at h ⊢
    split
    · rename_i err he; rw [he] at h; cases h
    · rename_i he
      rw [he] at h
      simp only [] at h ⊢
      rw [ih _ _ _ _ _ _ h]
      rfl

theorem replay_append (ap : σ → FEv H → σ) (fault : Option Fault) (a b : List (FEv H)) :
    ∀ (st : σ) (nd no nw ns nt : Nat),
    replay ap fault (a ++ b) st nd no nw ns nt =
      match (replay ap fault a st nd no nw ns nt).2.2 with
      | some _ => replay ap fault a st nd no nw ns nt
      | none =>
        (a ++ (replay ap fault b (a.foldl ap st) (nd + ncalls .data a) (no + ncalls .ob a)
            (nw + ncalls .w a) (ns + ncalls .src a) (nt + ncalls .dst a)).1,
          (replay ap fault b (a.foldl ap st) (nd + ncalls .data a) (no + ncalls .ob a)
            (nw + ncalls .w a) (ns + ncalls .src a) (nt + ncalls .dst a)).2) := by
  induction a with
  | nil => intros; rfl
  | cons e a ih =>
    intro st nd no nw ns nt
    simp only [List.cons_append]
    rw [replay_cons, replay_cons]
    split
    · rfl
    · simp only [ih, ncalls, List.foldl_cons, Nat.add_assoc]
      split <;> rfl

/-! ## validators -/

/-- validators have no state besides their log -/
def apU (_ : Unit) (_ : FEv H) : Unit := ()

/-- `(log, state, terminal)` of a validator run -/
def viewVal (r : ValF H) : List (FEv H) × Unit × ValEnd := (r.log, (), r.run.terminal)

/-- a validator step: a run for every fault and every pair of counters -/
abbrev VC (H : Type) := Option Fault → Nat → Nat → ValF H

/-- a step is *good*: every run is the replay of the fault-free log, the counters it returns are
the numbers of calls made, and its yields are the yields of its log -/
structure Good (X : VC H) : Prop where
  rep : ∀ fault nd no nw ns nt (u : Unit), viewVal (X fault nd no) =
    asm ValEnd.err (replay apU fault (X none nd no).log u nd no nw ns nt) (X none nd no).run.terminal
  cnt : ∀ fault nd no, (X fault nd no).nd = nd + ncalls .data (X fault nd no).log ∧
    (X fault nd no).no = no + ncalls .ob (X fault nd no).log
  yld : ∀ fault nd no, (X fault nd no).run.yields = yieldsOf (X fault nd no).log

theorem Good.congr {X Y : VC H} (h : ∀ f nd no, X f nd no = Y f nd no) (g : Good Y) : Good X := by
  have : X = Y := funext fun f => funext fun nd => funext fun no => h f nd no
  rw [this]; exact g

def vPure (t : ValEnd) : VC H := fun _ nd no => ⟨[], ⟨[], t⟩, nd, no⟩

def vThen (A B : VC H) : VC H := fun f nd no => (A f nd no).andThen (B f)

def vLoad (node : Nat) (R : VC H) : VC H := fun f nd no =>
  match Fault.hits f .ob no with
  | some e => ⟨[.load .ob node], ⟨[], .err e⟩, nd, no + 1⟩
  | none =>
    let rest := R f nd (no + 1)
    ⟨.load .ob node :: rest.log, rest.run, rest.nd, rest.no⟩

theorem good_pure (t : ValEnd) : Good (vPure t : VC H) where
  rep _ _ _ _ _ _ _ := rfl
  cnt _ _ _ := ⟨rfl, rfl⟩
  yld _ _ _ := rfl

theorem ncalls_yieldEvs (o : FObj) (ys : List (Nat × Nat)) :
    ncalls o (yieldEvs ys : List (FEv H)) = 0 := by
  induction ys with
  | nil => rfl
  | cons y ys ih =>
    simp only [yieldEvs, List.map_cons, ncalls] at ih ⊢
    rw [ih]; rfl

theorem replay_yieldEvs (fault : Option Fault) (ys : List (Nat × Nat)) (u : Unit)
    (nd no nw ns nt : Nat) :
    replay apU fault (yieldEvs ys : List (FEv H)) u nd no nw ns nt = (yieldEvs ys, (), none) := by
  induction ys generalizing u with
  | nil => rfl
  | cons y ys ih =>
    simp only [yieldEvs, List.map_cons] at ih ⊢
    rw [replay_yield, ih]

theorem good_yieldRange (hf : HashFns H) [BEq H] (withData : Bool) (data : List UInt8)
    (s e : Nat) (h : H) (root : Bool) :
    Good (fun f nd no => yieldRangeF hf withData data f s e h root nd no) := by
  cases withData with
  | false => exact ⟨fun _ _ _ _ _ _ _ => rfl, fun _ _ _ => ⟨rfl, rfl⟩, fun _ _ _ => rfl⟩
  | true =>
    refine ⟨fun f nd no nw ns nt u => ?_, fun f nd no => ?_, fun f nd no => ?_⟩
    · simp only [yieldRangeF, if_true, hits_none]
      cases yieldIfValid hf data s e h root with
      | error err =>
        simp only [replay_readAt, replay_nil]
        cases Fault.hits f .data nd <;> rfl
      | ok ys =>
        simp only [replay_readAt, replay_yieldEvs]
        cases Fault.hits f .data nd <;> rfl
    · simp only [yieldRangeF, if_true]
      cases Fault.hits f .data nd with
      | some err => exact ⟨rfl, rfl⟩
      | none =>
        cases yieldIfValid hf data s e h root with
        | error err => exact ⟨rfl, rfl⟩
        | ok ys =>
          simp only [ncalls, ncalls_yieldEvs]
          exact ⟨rfl, rfl⟩
    · simp only [yieldRangeF, if_true]
      cases Fault.hits f .data nd with
      | some err => rfl
      | none =>
        cases yieldIfValid hf data s e h root with
        | error err => rfl
        | ok ys => simp only [yieldsOf, yieldsOf_yieldEvs]

theorem good_load (node : Nat) {R : VC H} (g : Good R) : Good (vLoad node R) := by
  refine ⟨fun f nd no nw ns nt u => ?_, fun f nd no => ?_, fun f nd no => ?_⟩
  · simp only [vLoad, hits_none, replay_load_ob]
    cases Fault.hits f .ob no with
    | some e => rfl
    | none =>
      have h := g.rep f nd (no + 1) nw ns nt (apU u (.load .ob node : FEv H))
      simp only [viewVal, asm, Prod.mk.injEq] at h ⊢
      exact ⟨by rw [h.1], trivial, h.2.2⟩
  · simp only [vLoad]
    cases Fault.hits f .ob no with
    | some e => exact ⟨rfl, by simp [ncalls, delta, FEv.obj]⟩
    | none =>
      have h := g.cnt f nd (no + 1)
      simp only [ncalls, delta, FEv.obj] at h ⊢
      simp only [h.1, h.2]
      simp
      omega
  · simp only [vLoad]
    cases Fault.hits f .ob no with
    | some e => rfl
    | none => exact g.yld f nd (no + 1)

theorem andThen_ok {a : ValF H} (b : Nat → Nat → ValF H) (h : a.run.terminal = .ok) :
    a.andThen b = ⟨a.log ++ (b a.nd a.no).log,
      ⟨a.run.yields ++ (b a.nd a.no).run.yields, (b a.nd a.no).run.terminal⟩,
      (b a.nd a.no).nd, (b a.nd a.no).no⟩ := by
  unfold ValF.andThen; rw [h]

theorem andThen_not_ok {a : ValF H} (b : Nat → Nat → ValF H) (h : a.run.terminal ≠ .ok) :
    a.andThen b = a := by
  unfold ValF.andThen
  split
  · rename_i h'; exact absurd h' h
  · rfl

theorem good_then {A B : VC H} (ga : Good A) (gb : Good B) : Good (vThen A B) := by
  refine ⟨fun f nd no nw ns nt u => ?_, fun f nd no => ?_, fun f nd no => ?_⟩
  · have ha := ga.rep f nd no nw ns nt u
    have hca := ga.cnt f nd no
    have hc0 := ga.cnt none nd no
    simp only [vThen]
    by_cases h0 : (A none nd no).run.terminal = .ok
    · rw [andThen_ok (a := A none nd no) _ h0]
      simp only []
      rw [replay_append]
      rw [h0] at ha
      cases hr : (replay apU f (A none nd no).log u nd no nw ns nt).2.2 with
      | some err =>
        simp only []
        simp only [viewVal, asm, hr, Prod.mk.injEq] at ha ⊢
        rw [andThen_not_ok _ (by rw [ha.2.2]; intro hc; cases hc)]
        exact ⟨ha.1, trivial, ha.2.2⟩
      | none =>
        simp only []
        rw [replay_uncut _ _ _ _ _ _ _ _ _ hr] at ha
        simp only [viewVal, asm, Prod.mk.injEq] at ha
        have hnd : (A f nd no).nd = (A none nd no).nd := by rw [hca.1, hc0.1, ha.1]
        have hno : (A f nd no).no = (A none nd no).no := by rw [hca.2, hc0.2, ha.1]
        rw [andThen_ok _ ha.2.2, hnd, hno]
        have hb := gb.rep f (A none nd no).nd (A none nd no).no (nw + ncalls .w (A none nd no).log)
          (ns + ncalls .src (A none nd no).log) (nt + ncalls .dst (A none nd no).log)
          ((A none nd no).log.foldl apU u)
        rw [hc0.1, hc0.2] at hb
        simp only [viewVal, asm, Prod.mk.injEq] at hb ⊢
        rw [hc0.1, hc0.2]
        exact ⟨by rw [ha.1, hb.1], trivial, hb.2.2⟩
    · rw [andThen_not_ok (a := A none nd no) _ h0]
      have hne : (A f nd no).run.terminal ≠ .ok := by
        simp only [viewVal, asm, Prod.mk.injEq] at ha
        rw [ha.2.2]
        split
        · intro hc; cases hc
        · exact h0
      rw [andThen_not_ok _ hne]
      exact ha
  · simp only [vThen]
    have hca := ga.cnt f nd no
    by_cases h0 : (A f nd no).run.terminal = .ok
    · rw [andThen_ok _ h0]
      have hcb := gb.cnt f (A f nd no).nd (A f nd no).no
      simp only [ncalls_append]
      omega
    · rw [andThen_not_ok _ h0]; exact hca
  · simp only [vThen]
    by_cases h0 : (A f nd no).run.terminal = .ok
    · rw [andThen_ok _ h0]
      simp only [yieldsOf_append, ga.yld f nd no, gb.yld f]
    · rw [andThen_not_ok _ h0]; exact ga.yld f nd no

theorem good_ite (c : Prop) [Decidable c] {A B : VC H} (ga : Good A) (gb : Good B) :
    Good (fun f nd no => if c then A f nd no else B f nd no) := by
  by_cases h : c
  · exact Good.congr (fun f nd no => by simp only [if_pos h]) ga
  · exact Good.congr (fun f nd no => by simp only [if_neg h]) gb

theorem validateRecF_good (hf : HashFns H) [BEq H] (fl : Flavour) (wd : Bool) (ob : Store H)
    (data : List UInt8) (filled : Nat) :
    ∀ (fuel : Nat) (ph : H) (sh : Nat) (isRoot : Bool) (rs : Ranges),
    Good (fun f nd no => validateRecF hf fl wd ob data filled f fuel ph sh isRoot rs nd no) := by
  intro fuel
  induction fuel with
  | zero =>
    intro ph sh isRoot rs
    exact Good.congr (Y := vPure .panic) (fun f nd no => by simp only [validateRecF]; rfl)
      (good_pure _)
  | succ fuel ih =>
    intro ph sh isRoot rs
    by_cases he : rs.isEmpty = true
    · exact Good.congr (Y := vPure .ok)
        (fun f nd no => by simp only [validateRecF, he, if_true]; rfl) (good_pure _)
    · rcases hl : ob.tree.leafByteRanges3 (Node.subBs sh ob.tree.bs) with ⟨l, m, r⟩
      by_cases hr : (!ob.tree.isRelevant (Node.subBs sh ob.tree.bs)) = true
      · exact Good.congr (Y := fun f nd no => yieldRangeF hf wd data f l r ph isRoot nd no)
          (fun f nd no => by simp only [validateRecF, he, hl, hr, if_true]; rfl)
          (good_yieldRange ..)
      · rcases hld : ob.load hf fl (Node.subBs sh ob.tree.bs) with (_ | ⟨lh, rh⟩) | e | _
        · exact Good.congr (Y := vLoad (Node.subBs sh ob.tree.bs) (vPure .ok))
            (fun f nd no => by
              simp only [validateRecF, he, hl, hr, hld, vLoad, vPure]
              cases Fault.hits f .ob no <;> rfl)
            (good_load _ (good_pure _))
        · by_cases hm : (hf.parentCv lh rh isRoot != ph) = true
          · exact Good.congr (Y := vLoad (Node.subBs sh ob.tree.bs) (vPure .ok))
              (fun f nd no => by
                simp only [validateRecF, he, hl, hr, hld, hm, if_true, vLoad, vPure]
                cases Fault.hits f .ob no <;> rfl)
              (good_load _ (good_pure _))
          · rcases hsp : Ranges.splitNode rs (Node.subBs sh ob.tree.bs) with ⟨lr, rr⟩
            by_cases hleaf : Node.isLeaf sh = true
            · exact Good.congr (Y := vLoad (Node.subBs sh ob.tree.bs) (vThen
                  (fun f nd no => if (!lr.isEmpty) = true then
                    yieldRangeF hf wd data f l m lh false nd no else vPure .ok f nd no)
                  (fun f nd no => if (!rr.isEmpty) = true then
                    yieldRangeF hf wd data f m r rh false nd no else vPure .ok f nd no)))
                (fun f nd no => by
                  simp only [validateRecF, he, hl, hr, hld, hm, hsp, hleaf, if_true, 
                    vLoad, vPure, vThen]
                  cases Fault.hits f .ob no <;> rfl)
                (good_load _ (good_then (good_ite _ (good_yieldRange ..) (good_pure _))
                  (good_ite _ (good_yieldRange ..) (good_pure _))))
            · rcases hlc : Node.leftChild sh with _ | left
              · exact Good.congr (Y := vLoad (Node.subBs sh ob.tree.bs) (vPure .panic))
                  (fun f nd no => by
                    simp only [validateRecF, he, hl, hr, hld, hm, hsp, hleaf, hlc, 
                      vLoad, vPure]
                    cases Fault.hits f .ob no <;> rfl)
                  (good_load _ (good_pure _))
              · rcases hrd : Node.rightDescendant sh filled with _ | right
                · exact Good.congr (Y := vLoad (Node.subBs sh ob.tree.bs) (vPure .panic))
                    (fun f nd no => by
                      simp only [validateRecF, he, hl, hr, hld, hm, hsp, hleaf, hlc, hrd, 
                        vLoad, vPure]
                      cases Fault.hits f .ob no <;> rfl)
                    (good_load _ (good_pure _))
                · exact Good.congr (Y := vLoad (Node.subBs sh ob.tree.bs) (vThen
                      (fun f nd no => validateRecF hf fl wd ob data filled f fuel lh left false lr
                        nd no)
                      (fun f nd no => validateRecF hf fl wd ob data filled f fuel rh right false rr
                        nd no)))
                    (fun f nd no => by
                      simp only [validateRecF, he, hl, hr, hld, hm, hsp, hleaf, hlc, hrd, 
                        vLoad, vThen]
                      cases Fault.hits f .ob no <;> rfl)
                    (good_load _ (good_then (ih ..) (ih ..)))
        · exact Good.congr (Y := vLoad (Node.subBs sh ob.tree.bs) (vPure (.err e)))
            (fun f nd no => by
              simp only [validateRecF, he, hl, hr, hld, vLoad, vPure]
              cases Fault.hits f .ob no <;> rfl)
            (good_load _ (good_pure _))
        · exact Good.congr (Y := vLoad (Node.subBs sh ob.tree.bs) (vPure .panic))
            (fun f nd no => by
              simp only [validateRecF, he, hl, hr, hld, vLoad, vPure]
              cases Fault.hits f .ob no <;> rfl)
            (good_load _ (good_pure _))

/-! ### without a fault: the validators -/

theorem andThen_run (a : ValF H) (b : Nat → Nat → ValF H) :
    (a.andThen b).run = a.run.andThen fun _ => (b a.nd a.no).run := by
  unfold ValF.andThen ValRun.andThen
  cases a.run.terminal <;> rfl

theorem yieldRangeF_none_run (hf : HashFns H) [BEq H] (wd : Bool) (data : List UInt8)
    (s e : Nat) (h : H) (root : Bool) (nd no : Nat) :
    (yieldRangeF hf wd data none s e h root nd no).run =
      if wd then
        match yieldIfValid hf data s e h root with
        | .error err => ⟨[], .err err⟩
        | .ok ys => ⟨ys, .ok⟩
      else ⟨[(fullChunksOf s, chunksOf e)], .ok⟩ := by
  cases wd with
  | false => rfl
  | true =>
    simp only [yieldRangeF, if_true, hits_none]
    cases yieldIfValid hf data s e h root <;> rfl

theorem validateRecF_none_run (hf : HashFns H) [BEq H] (fl : Flavour) (wd : Bool) (ob : Store H)
    (data : List UInt8) (filled : Nat) :
    ∀ (fuel : Nat) (ph : H) (sh : Nat) (isRoot : Bool) (rs : Ranges) (nd no : Nat),
    (validateRecF hf fl wd ob data filled none fuel ph sh isRoot rs nd no).run =
      validateRec hf fl wd ob data filled fuel ph sh isRoot rs := by
  intro fuel
  induction fuel with
  | zero => intros; rfl
  | succ fuel ih =>
    intro ph sh isRoot rs nd no
    by_cases he : rs.isEmpty = true
    · simp only [↓reduceIte, validateRecF, validateRec, he]
    · rcases hl : ob.tree.leafByteRanges3 (Node.subBs sh ob.tree.bs) with ⟨l, m, r⟩
      by_cases hr : (!ob.tree.isRelevant (Node.subBs sh ob.tree.bs)) = true
      · simp only [Bool.false_eq_true, ↓reduceIte, validateRecF, validateRec, he, hl, hr, 
          yieldRangeF_none_run]
        rfl
      · rcases hld : ob.load hf fl (Node.subBs sh ob.tree.bs) with (_ | ⟨lh, rh⟩) | e | _
        · simp only [Bool.false_eq_true, ↓reduceIte, validateRecF, validateRec, he, hr, hld, hits_none]
        · by_cases hm : (hf.parentCv lh rh isRoot != ph) = true
          · simp only [Bool.false_eq_true, ↓reduceIte, validateRecF, validateRec, he, hr, hld, hm, hits_none]
          · rcases hsp : Ranges.splitNode rs (Node.subBs sh ob.tree.bs) with ⟨lr, rr⟩
            by_cases hleaf : Node.isLeaf sh = true
            · simp only [Bool.false_eq_true, ↓reduceIte, validateRecF, validateRec, he, hl, hr, hld, hm, hsp, hleaf, 
                hits_none, andThen_run]
              by_cases h1 : (!lr.isEmpty) = true <;> by_cases h2 : (!rr.isEmpty) = true <;>
                simp only [Bool.false_eq_true, ↓reduceIte, h1, h2, 
                  yieldRangeF_none_run] <;> rfl
            · rcases hlc : Node.leftChild sh with _ | left
              · simp only [Bool.false_eq_true, ↓reduceIte, validateRecF, validateRec, he, hr, hld, hm, hleaf, hlc, 
                  hits_none]
              · rcases hrd : Node.rightDescendant sh filled with _ | right
                · simp only [Bool.false_eq_true, ↓reduceIte, validateRecF, validateRec, he, hr, hld, hm, hleaf, hlc, hrd,
                    hits_none]
                · simp only [Bool.false_eq_true, ↓reduceIte, validateRecF, validateRec, he, hr, hld, hm, hsp, hleaf, hlc, hrd,
                    hits_none, andThen_run, ih]
        · simp only [Bool.false_eq_true, ↓reduceIte, validateRecF, validateRec, he, hr, hld, hits_none]
        · simp only [Bool.false_eq_true, ↓reduceIte, validateRecF, validateRec, he, hr, hld, hits_none]

/-! ### the public validators -/

/-- `(log, state, terminal)` of a validator run -/
def viewV (r : List (FEv H) × ValRun) : List (FEv H) × Unit × ValEnd := (r.1, (), r.2.terminal)

theorem validRanges_replay (hf : HashFns H) [BEq H] (fl : Flavour) (ob : Store H)
    (data : List UInt8) (q : Ranges) (fault : Option Fault) :
    viewV (validRangesF hf fl ob data q fault) =
      asm ValEnd.err (replay apU fault (viewV (validRangesF hf fl ob data q none)).1 () 0 0 0 0 0)
        (viewV (validRangesF hf fl ob data q none)).2.2 := by
  by_cases hb : (ob.tree.blocks == 1) = true
  · simp only [validRangesF, hb, if_true, hits_none]
    cases readExactAt data 0 ob.tree.size with
    | error e =>
      simp only [viewV, replay_readAt, replay_nil]
      cases Fault.hits fault .data 0 <;> rfl
    | ok tmp =>
      simp only []
      by_cases hh : (hashSubtree hf 0 tmp true == ob.root) = true
      · simp only [hh, if_true, viewV, replay_readAt, replay_yield, replay_nil]
        cases Fault.hits fault .data 0 <;> rfl
      · simp only [hh, Bool.false_eq_true, if_false, viewV, replay_readAt, replay_nil]
        cases Fault.hits fault .data 0 <;> rfl
  · rcases hs : ob.tree.shifted with ⟨root, filled⟩
    simp only [validRangesF, hb, Bool.false_eq_true, if_false, hs]
    exact (validateRecF_good hf fl true ob data filled 65 ob.root root true
      (Ranges.truncate q ob.tree.size)).rep fault 0 0 0 0 0 ()

theorem validRanges_yields (hf : HashFns H) [BEq H] (fl : Flavour) (ob : Store H)
    (data : List UInt8) (q : Ranges) (fault : Option Fault) :
    (validRangesF hf fl ob data q fault).2.yields = yieldsOf (validRangesF hf fl ob data q fault).1 := by
  by_cases hb : (ob.tree.blocks == 1) = true
  · simp only [validRangesF, hb, if_true]
    cases Fault.hits fault .data 0 with
    | some e => rfl
    | none =>
      simp only []
      cases readExactAt data 0 ob.tree.size with
      | error e => rfl
      | ok tmp =>
        simp only []
        by_cases hh : (hashSubtree hf 0 tmp true == ob.root) = true
        · simp only [hh, if_true]; rfl
        · simp only [hh, Bool.false_eq_true, if_false]; rfl
  · rcases hs : ob.tree.shifted with ⟨root, filled⟩
    simp only [validRangesF, hb, Bool.false_eq_true, if_false, hs]
    exact (validateRecF_good hf fl true ob data filled 65 ob.root root true
      (Ranges.truncate q ob.tree.size)).yld fault 0 0

theorem validRangesF_none_run (hf : HashFns H) [BEq H] (fl : Flavour) (ob : Store H)
    (data : List UInt8) (q : Ranges) :
    (validRangesF hf fl ob data q none).2 = validRanges hf fl ob data q := by
  by_cases hb : (ob.tree.blocks == 1) = true
  · simp only [validRangesF, validRanges, hb, if_true, hits_none]
    cases readExactAt data 0 ob.tree.size with
    | error e => rfl
    | ok tmp =>
      simp only []
      by_cases hh : (hashSubtree hf 0 tmp true == ob.root) = true
      · simp only [hh, if_true]
      · simp only [hh, Bool.false_eq_true, if_false]
  · rcases hs : ob.tree.shifted with ⟨root, filled⟩
    simp only [validRangesF, validRanges, hb, Bool.false_eq_true, if_false, hs]
    exact validateRecF_none_run ..

theorem validOb_replay (hf : HashFns H) [BEq H] (fl : Flavour) (ob : Store H)
    (q : Ranges) (fault : Option Fault) :
    viewV (validOutboardRangesF hf fl ob q fault) =
      asm ValEnd.err (replay apU fault (viewV (validOutboardRangesF hf fl ob q none)).1 () 0 0 0 0 0)
        (viewV (validOutboardRangesF hf fl ob q none)).2.2 := by
  by_cases hb : (ob.tree.blocks == 1) = true
  · simp only [validOutboardRangesF, hb, if_true]
    rfl
  · rcases hs : ob.tree.shifted with ⟨root, filled⟩
    simp only [validOutboardRangesF, hb, Bool.false_eq_true, if_false, hs]
    exact (validateRecF_good hf fl false ob [] filled 65 ob.root root true
      (Ranges.truncate q ob.tree.size)).rep fault 0 0 0 0 0 ()

theorem validOb_yields (hf : HashFns H) [BEq H] (fl : Flavour) (ob : Store H)
    (q : Ranges) (fault : Option Fault) :
    (validOutboardRangesF hf fl ob q fault).2.yields =
      yieldsOf (validOutboardRangesF hf fl ob q fault).1 := by
  by_cases hb : (ob.tree.blocks == 1) = true
  · simp only [validOutboardRangesF, hb, if_true]
    rfl
  · rcases hs : ob.tree.shifted with ⟨root, filled⟩
    simp only [validOutboardRangesF, hb, Bool.false_eq_true, if_false, hs]
    exact (validateRecF_good hf fl false ob [] filled 65 ob.root root true
      (Ranges.truncate q ob.tree.size)).yld fault 0 0

theorem validObF_none_run (hf : HashFns H) [BEq H] (fl : Flavour) (ob : Store H) (q : Ranges) :
    (validOutboardRangesF hf fl ob q none).2 = validOutboardRanges hf fl ob q := by
  by_cases hb : (ob.tree.blocks == 1) = true
  · simp only [validOutboardRangesF, validOutboardRanges, hb, if_true]
  · rcases hs : ob.tree.shifted with ⟨root, filled⟩
    simp only [validOutboardRangesF, validOutboardRanges, hb, Bool.false_eq_true, if_false, hs]
    exact validateRecF_none_run ..

theorem viewV_eq {r : List (FEv H) × ValRun} {a : List (FEv H)} {u : Unit} {t : ValEnd}
    (h : viewV r = (a, u, t)) (hy : r.2.yields = yieldsOf r.1) : r = (a, ⟨yieldsOf a, t⟩) := by
  obtain ⟨l, ⟨ys, tt⟩⟩ := r
  simp only [viewV, Prod.mk.injEq] at h
  obtain ⟨rfl, _, rfl⟩ := h
  simp only [] at hy
  rw [hy]

/-! ## summary lemmas for operations returning an `ObRun` (outboard creation, copy) -/

section obshape

variable (ap : σ → FEv H → σ) (st0 : σ) (F : Option Fault → List (FEv H) × ObRun H' σ)
  (hrep : ∀ fault, viewOb (F fault) =
    asm .err (replay ap fault (F none).1 st0 0 0 0 0 0) (F none).2.res)

include hrep

theorem ob_sound : (F none).2.sink = (F none).1.foldl ap st0 :=
  gen_sound ap .err st0 (fun f => viewOb (F f)) hrep

theorem ob_cut (obj : FObj) (k : Nat) (kind : IoKind)
    (hk : k < ((F none).1.map FEv.obj).count (some obj)) :
    ∃ pre e post, (F none).1 = pre ++ e :: post ∧ e.obj = some obj ∧
      (pre.map FEv.obj).count (some obj) = k ∧
      F (some ⟨obj, k, kind⟩) = (pre ++ [e], ⟨.err ⟨kind, true⟩, pre.foldl ap st0⟩) := by
  rw [← ncalls_eq_count] at hk
  obtain ⟨pre, e, post, h1, h2, h3, h4⟩ :=
    gen_cut ap .err st0 (fun f => viewOb (F f)) hrep obj k kind hk
  exact ⟨pre, e, post, h1, h2, by rw [← ncalls_eq_count]; exact h3, viewOb_eq h4⟩

theorem ob_unreached (obj : FObj) (k : Nat) (kind : IoKind)
    (hk : ((F none).1.map FEv.obj).count (some obj) ≤ k) :
    F (some ⟨obj, k, kind⟩) = F none := by
  rw [← ncalls_eq_count] at hk
  exact viewOb_inj (gen_unreached ap .err st0 (fun f => viewOb (F f)) hrep obj k kind hk)

theorem ob_dichotomy (fault : Option Fault) :
    (∃ obj k kind pre e post, fault = some ⟨obj, k, kind⟩ ∧ (F none).1 = pre ++ e :: post ∧
      e.obj = some obj ∧ (pre.map FEv.obj).count (some obj) = k ∧
      F fault = (pre ++ [e], ⟨.err ⟨kind, true⟩, pre.foldl ap st0⟩)) ∨
    F fault = F none := by
  rcases gen_dichotomy ap .err st0 (fun f => viewOb (F f)) hrep fault with
    ⟨obj, k, kind, pre, e, post, h0, h1, h2, h3, h4⟩ | h
  · exact Or.inl ⟨obj, k, kind, pre, e, post, h0, h1, h2, by rw [← ncalls_eq_count]; exact h3,
      viewOb_eq h4⟩
  · exact Or.inr (viewOb_inj h)

theorem ob_prefix (fault : Option Fault) :
    (F fault).1 <+: (F none).1 ∧
    ∃ pre rest, (F none).1 = pre ++ rest ∧ (F fault).2.sink = pre.foldl ap st0 ∧
      (F none).2.sink = rest.foldl ap (F fault).2.sink :=
  ⟨gen_log_prefix ap .err st0 (fun f => viewOb (F f)) hrep fault,
    gen_state_prefix ap .err st0 (fun f => viewOb (F f)) hrep fault⟩

theorem ob_never_ok (obj : FObj) (k : Nat) (kind : IoKind)
    (hk : k < ((F none).1.map FEv.obj).count (some obj)) :
    (F (some ⟨obj, k, kind⟩)).2.res = .err ⟨kind, true⟩ := by
  obtain ⟨pre, e, post, _, _, _, h4⟩ := ob_cut ap st0 F hrep obj k kind hk
  rw [h4]

theorem ob_no_panic (fault : Option Fault) (h : (F none).2.res ≠ .panic) :
    (F fault).2.res ≠ .panic := by
  rcases ob_dichotomy ap st0 F hrep fault with ⟨_, _, _, _, _, _, _, _, _, _, h4⟩ | h'
  · rw [h4]; intro hc; cases hc
  · rw [h']; exact h

end obshape

/-! ## summary lemmas for the validators -/

section valshape

variable (F : Option Fault → List (FEv H) × ValRun)
  (hrep : ∀ fault, viewV (F fault) =
    asm ValEnd.err (replay apU fault (F none).1 () 0 0 0 0 0) (F none).2.terminal)
  (hy : ∀ fault, (F fault).2.yields = yieldsOf (F fault).1)

include hrep hy

theorem val_cut (obj : FObj) (k : Nat) (kind : IoKind)
    (hk : k < ((F none).1.map FEv.obj).count (some obj)) :
    ∃ pre e post, (F none).1 = pre ++ e :: post ∧ e.obj = some obj ∧
      (pre.map FEv.obj).count (some obj) = k ∧
      F (some ⟨obj, k, kind⟩) = (pre ++ [e], ⟨yieldsOf pre, .err ⟨kind, true⟩⟩) := by
  rw [← ncalls_eq_count] at hk
  obtain ⟨pre, e, post, h1, h2, h3, h4⟩ :=
    gen_cut apU ValEnd.err () (fun f => viewV (F f)) hrep obj k kind hk
  refine ⟨pre, e, post, h1, h2, by rw [← ncalls_eq_count]; exact h3, ?_⟩
  have := viewV_eq h4 (hy _)
  rw [this, yieldsOf_append, yieldsOf_call h2, List.append_nil]

theorem val_unreached (obj : FObj) (k : Nat) (kind : IoKind)
    (hk : ((F none).1.map FEv.obj).count (some obj) ≤ k) :
    F (some ⟨obj, k, kind⟩) = F none := by
  rw [← ncalls_eq_count] at hk
  have h := gen_unreached apU ValEnd.err () (fun f => viewV (F f)) hrep obj k kind hk
  have h1 := viewV_eq (r := F (some ⟨obj, k, kind⟩)) (a := (F none).1) (u := ())
    (t := (F none).2.terminal) h (hy _)
  have h2 := viewV_eq (r := F none) (a := (F none).1) (u := ()) (t := (F none).2.terminal) rfl
    (hy _)
  rw [h1, ← h2]

theorem val_dichotomy (fault : Option Fault) :
    (∃ obj k kind pre e post, fault = some ⟨obj, k, kind⟩ ∧ (F none).1 = pre ++ e :: post ∧
      e.obj = some obj ∧ (pre.map FEv.obj).count (some obj) = k ∧
      F fault = (pre ++ [e], ⟨yieldsOf pre, .err ⟨kind, true⟩⟩)) ∨
    F fault = F none := by
  cases fault with
  | none => exact Or.inr rfl
  | some f =>
    obtain ⟨obj, k, kind⟩ := f
    by_cases hk : k < ((F none).1.map FEv.obj).count (some obj)
    · obtain ⟨pre, e, post, h1, h2, h3, h4⟩ := val_cut F hrep hy obj k kind hk
      exact Or.inl ⟨obj, k, kind, pre, e, post, rfl, h1, h2, h3, h4⟩
    · exact Or.inr (val_unreached F hrep hy obj k kind (Nat.le_of_not_lt hk))

theorem val_prefix (fault : Option Fault) :
    (F fault).1 <+: (F none).1 ∧ (F fault).2.yields <+: (F none).2.yields := by
  rcases val_dichotomy F hrep hy fault with ⟨_, _, _, pre, e, post, _, h1, _, _, h4⟩ | h
  · rw [h4, hy none, h1]
    refine ⟨⟨post, by simp⟩, ?_⟩
    rw [yieldsOf_append]
    exact List.prefix_append _ _
  · rw [h]; exact ⟨List.prefix_refl _, List.prefix_refl _⟩

theorem val_never_ok (obj : FObj) (k : Nat) (kind : IoKind)
    (hk : k < ((F none).1.map FEv.obj).count (some obj)) :
    (F (some ⟨obj, k, kind⟩)).2.terminal = .err ⟨kind, true⟩ := by
  obtain ⟨pre, e, post, _, _, _, h4⟩ := val_cut F hrep hy obj k kind hk
  rw [h4]

theorem val_no_panic (fault : Option Fault) (h : (F none).2.terminal ≠ .panic) :
    (F fault).2.terminal ≠ .panic := by
  rcases val_dichotomy F hrep hy fault with ⟨_, _, _, _, _, _, _, _, _, _, h4⟩ | h'
  · rw [h4]; intro hc; cases hc
  · rw [h']; exact h

end valshape

end Bao.OpsFaultL
