import BaoProofs.Lemmas.PlanPre

/-!
# The explicit-stack iterator computes the recursive plan (C15, pre-order half)
-/

namespace Bao.PlanPre
open Bao Bao.Spec Bao.Bits

variable {size bs ml filled root : Nat}

/-- plan of a stack entry `(shifted id, ranges)` -/
def planId (size bs ml filled root : Nat) (e : Nat × Ranges) : List Chunk :=
  planPre size bs ml filled root (levelOf e.1) (indexOf e.1) e.2

theorem planId_nodeOf (g : Geo size bs filled) {k L : Nat} (h : nodeOf k L < filled) (rs : Ranges) :
    planId size bs ml filled root (nodeOf k L, rs) = planPre size bs ml filled root L k rs := by
  have hL := g.level_le h
  unfold planId
  simp only
  rw [levelOf_nodeOf (by omega), indexOf_nodeOf (by omega)]

/-- `right_descendant`'s loop finds the node that `planPre` reaches by skipping -/
theorem descendLeft_plan (g : Geo size bs filled) (fuel k L : Nat) (hL : L ≤ 64) (hf : L < fuel)
    (hs : startOf k L < filled) :
    ∃ r, Node.descendLeft fuel (nodeOf k L) filled = some r ∧ r < filled ∧
      ∀ rs, planId size bs ml filled root (r, rs) = planPre size bs ml filled root L k rs := by
  induction fuel generalizing k L with
  | zero => omega
  | succ f ih =>
    simp only [Node.descendLeft]
    by_cases hge : nodeOf k L ≥ filled
    · rw [if_pos hge]
      cases L with
      | zero =>
        have : startOf k 0 = nodeOf k 0 := by rw [Offsets.startOf_zero, Offsets.nodeOf_zero]
        omega
      | succ n =>
        simp only [C18.leftChild_spec hL]
        obtain ⟨r, h1, h2, h3⟩ := ih (2 * k) n (by omega) (by omega)
          (by rw [Bits.startOf_left]; exact hs)
        exact ⟨r, h1, h2, fun rs => by rw [h3, planPre_skip hge]⟩
    · rw [if_neg hge]
      exact ⟨nodeOf k L, rfl, by omega, fun rs => planId_nodeOf g (by omega) rs⟩

/-- the iterator state -/
def st (size bs ml filled root : Nat) (stack : List (Nat × Ranges)) (buffer : List Chunk) :
    PrePartial :=
  ⟨⟨size, bs⟩, ml, stack, filled, root, buffer⟩

/-- a stack entry: an existing shifted node with a non-empty sub-query -/
def Valid (filled : Nat) (e : Nat × Ranges) : Prop := e.1 < filled ∧ e.2 ≠ []

theorem next_step (g : Geo size bs filled) {k L : Nat} {rs : Ranges} {stack : List (Nat × Ranges)}
    (hlt : nodeOf k L < filled) (hne : rs ≠ []) (hv : ∀ e ∈ stack, Valid filled e) :
    ∃ c stack' buf',
      (st size bs ml filled root ((nodeOf k L, rs) :: stack) []).next
        = .item c (st size bs ml filled root stack' buf') ∧
      (∀ e ∈ stack', Valid filled e) ∧
      c :: (buf' ++ stack'.flatMap (planId size bs ml filled root))
        = planPre size bs ml filled root L k rs ++ stack.flatMap (planId size bs ml filled root) := by
  have hreal := g.real_lt hlt
  have hL := g.level_le hlt
  have hsub : Node.subBs (nodeOf k L) bs = nodeOf k (L + bs) := C18.subBs_spec hreal
  have hlev : Node.level (nodeOf k (L + bs)) = L + bs := C18.level_nodeOf hL
  have hcr : Node.chunkRange (nodeOf k (L + bs)) = (startOf k (L + bs), endOf k (L + bs)) :=
    C18.chunkRange_spec hL
  have hmid : Node.mid (nodeOf k (L + bs)) = midOf k (L + bs) := C18.mid_spec _ _
  have hleaf : Node.isLeaf (nodeOf k L) = decide (L = 0) := C18.isLeaf_spec _ _
  have hsplit := splitNode_eq (k := k) bs rs hL
  have hemp := isEmpty_eq_false hne
  simp only [PrePartial.next, st, hemp, hsub, hlev, hcr, hmid, hleaf, hsplit, Tree.byteRange]
  by_cases hq : queryLeaf bs ml L rs = true
  · -- query leaf
    rw [planPre_queryLeaf hne hlt hq]
    unfold queryLeaf at hq
    simp only [hq, if_true, Bool.false_eq_true, if_false]
    exact ⟨_, stack, [], rfl, hv, rfl⟩
  have hq : queryLeaf bs ml L rs = false := by simpa using hq
  have hq' : (Ranges.isAll rs && decide (L + bs < ml)) = false := hq
  simp only [hq', Bool.false_eq_true, if_false]
  cases L with
  | succ n =>
    -- inner node: push right descendant, then left child
    rw [planPre_succ hne hlt hq]
    have hL64 : n + 1 ≤ 64 := by omega
    obtain ⟨rd, hrd, hrdlt, hrdplan⟩ := descendLeft_plan (ml := ml) (root := root) g 65 (2 * k + 1) n
      (by omega) (by omega) (g.right_exists hlt)
    have hright : Node.rightDescendant (nodeOf k (n + 1)) filled = some rd := by
      simp only [Node.rightDescendant, C18.rightChild_spec hL64, hrd]
    have hleft : Node.leftChild (nodeOf k (n + 1)) = some (nodeOf (2 * k) n) :=
      C18.leftChild_spec hL64
    have hlclt : nodeOf (2 * k) n < filled := by
      have hp := two_pow_pos' n
      have := Bits.nodeOf_sub_half k n
      omega
    have hlplan := planId_nodeOf (ml := ml) (root := root) g hlclt
    have hnp : nodeParent bs root (n + 1) k rs = Chunk.parent (nodeOf k (n + 1 + bs))
      (nodeOf k (n + 1) == root) (!(lq bs (n + 1) k rs).isEmpty) (!(rq bs (n + 1) k rs).isEmpty) rs :=
      rfl
    rw [hnp]
    simp only [Nat.succ_ne_zero, decide_false, Bool.not_false,
      if_true, hright, hleft, Option.map_some]
    by_cases hr : rq bs (n + 1) k rs = [] <;> by_cases hl : lq bs (n + 1) k rs = []
    · simp only [hr, hl, List.isEmpty_nil, if_true, planPre_nil, List.append_nil]
      exact ⟨_, stack, [], rfl, hv, rfl⟩
    · have hl' := isEmpty_eq_false hl
      simp only [hr, hl', List.isEmpty_nil, if_true, Bool.false_eq_true, if_false, planPre_nil,
        List.append_nil]
      refine ⟨_, _, [], rfl, ?_, ?_⟩
      · intro e he
        rcases List.mem_cons.1 he with rfl | he
        · exact ⟨hlclt, hl⟩
        · exact hv e he
      · simp only [List.flatMap_cons, List.nil_append, hlplan, List.cons_append]
    · have hr' := isEmpty_eq_false hr
      simp only [hl, hr', List.isEmpty_nil, if_true, Bool.false_eq_true, if_false, planPre_nil,
        List.nil_append]
      refine ⟨_, _, [], rfl, ?_, ?_⟩
      · intro e he
        rcases List.mem_cons.1 he with rfl | he
        · exact ⟨hrdlt, hr⟩
        · exact hv e he
      · simp only [List.flatMap_cons, List.nil_append, hrdplan, List.cons_append]
    · have hr' := isEmpty_eq_false hr
      have hl' := isEmpty_eq_false hl
      simp only [hl', hr', Bool.false_eq_true, if_false]
      refine ⟨_, _, [], rfl, ?_, ?_⟩
      · intro e he
        rcases List.mem_cons.1 he with rfl | he
        · exact ⟨hlclt, hl⟩
        rcases List.mem_cons.1 he with rfl | he
        · exact ⟨hrdlt, hr⟩
        · exact hv e he
      · simp only [List.flatMap_cons, List.nil_append, hrdplan, hlplan, List.append_assoc,
          List.cons_append]
  | zero =>
    simp only [decide_true, Bool.not_true, Bool.false_eq_true, if_false, Nat.zero_add, ge_iff_le]
    by_cases hh : size ≤ toBytes (midOf k bs)
    · rw [planPre_zero_half hne hlt hq hh]
      simp only [hh, if_true]
      exact ⟨_, stack, [], rfl, hv, by simp [nodeLeaf]⟩
    · rw [planPre_zero_parent hne hlt hq (by omega)]
      simp only [hh, if_false]
      refine ⟨_, stack, _, rfl, hv, ?_⟩
      have hnp : nodeParent bs root 0 k rs = Chunk.parent (nodeOf k bs)
          (nodeOf k 0 == root) (!(lq bs 0 k rs).isEmpty) (!(rq bs 0 k rs).isEmpty) rs := by
        simp only [nodeParent, lq, rq, Nat.zero_add]
      rw [hnp]
      simp only [leftLeaf, rightLeaf]
      generalize lq bs 0 k rs = l
      generalize rq bs 0 k rs = r
      cases l <;> cases r <;> simp

/-- **Refinement, generalised over the pending stack and buffer**: with enough fuel the iterator
yields the buffered leaves followed by the recursive plans of the stack entries (top first), and
never reaches a `panic` branch. -/
theorem run_eq (g : Geo size bs filled) (fuel : Nat) (stack : List (Nat × Ranges))
    (buffer : List Chunk) (hv : ∀ e ∈ stack, Valid filled e)
    (hf : (buffer ++ stack.flatMap (planId size bs ml filled root)).length ≤ fuel) :
    PrePartial.run fuel (st size bs ml filled root stack buffer)
      = some (buffer ++ stack.flatMap (planId size bs ml filled root)) := by
  induction fuel generalizing stack buffer with
  | zero =>
    have : buffer ++ stack.flatMap (planId size bs ml filled root) = [] :=
      List.eq_nil_of_length_eq_zero (by omega)
    rw [this]; rfl
  | succ f ih =>
    cases buffer with
    | cons c rest =>
      have hnext : (st size bs ml filled root stack (c :: rest)).next
          = .item c (st size bs ml filled root stack rest) := rfl
      simp only [PrePartial.run, hnext]
      rw [ih stack rest hv (by simp only [List.cons_append, List.length_cons] at hf; omega)]
      rfl
    | nil =>
      cases stack with
      | nil => rfl
      | cons e stack =>
        obtain ⟨sh, rs⟩ := e
        obtain ⟨k, L, rfl⟩ := C18.coords_exist sh
        obtain ⟨hlt, hne⟩ := hv _ (List.mem_cons_self)
        have hv' : ∀ e ∈ stack, Valid filled e := fun e he => hv e (List.mem_cons_of_mem _ he)
        obtain ⟨c, stack', buf', hnext, hv'', heq⟩ :=
          next_step (ml := ml) (root := root) g hlt hne hv'
        have hplan := planId_nodeOf (ml := ml) (root := root) g hlt rs
        simp only [List.nil_append, List.flatMap_cons, hplan] at hf ⊢
        rw [← heq] at hf ⊢
        simp only [PrePartial.run, hnext]
        rw [ih stack' buf' hv'' (by simp only [List.length_cons] at hf; omega)]
        rfl

/-! ## the fuel suffices -/

/-- at most three items per existing shifted node of the subtree -/
theorem planPre_length (L k : Nat) (rs : Ranges) :
    (planPre size bs ml filled root L k rs).length
      ≤ 3 * (min filled (startOf k L + 2 ^ (L + 1) - 1) - min filled (startOf k L)) := by
  refine planPre_induct (size := size) (bs := bs) (ml := ml) (filled := filled) (root := root)
    (P := fun L k _ p =>
      p.length ≤ 3 * (min filled (startOf k L + 2 ^ (L + 1) - 1) - min filled (startOf k L)))
    ?_ ?_ ?_ ?_ ?_ ?_ ?_ L k rs
  · intro L k; simp
  · intro k rs _ _; simp
  · intro L k rs _ hge ih
    have hp := two_pow_pos' (L + 1)
    have e2 : (2 : Nat) ^ (L + 1 + 1) = 2 * 2 ^ (L + 1) := by rw [Nat.pow_succ]; omega
    rw [Offsets.startOf_left] at ih
    rw [e2]
    generalize 2 ^ (L + 1) = p at *
    generalize startOf k (L + 1) = s at *
    omega
  · intro L k rs _ hlt _
    have hp := two_pow_pos' L
    have e2 : (2 : Nat) ^ (L + 1) = 2 * 2 ^ L := by rw [Nat.pow_succ]; omega
    rw [Offsets.nodeOf_start] at hlt
    rw [e2]
    simp only [List.length_cons, List.length_nil]
    generalize 2 ^ L = p at *
    generalize startOf k L = s at *
    omega
  · intro k rs _ hlt _ _
    rw [Offsets.nodeOf_zero] at hlt
    rw [Offsets.startOf_zero]
    simp only [List.length_cons, List.length_nil]
    omega
  · intro k rs _ hlt _ _
    rw [Offsets.nodeOf_zero] at hlt
    rw [Offsets.startOf_zero]
    simp only [List.length_cons, List.length_append]
    split <;> split <;> simp only [List.length_cons, List.length_nil] <;> omega
  · intro L k rs _ hlt _ ihl ihr
    have hp := two_pow_pos' (L + 1)
    have e2 : (2 : Nat) ^ (L + 1 + 1) = 2 * 2 ^ (L + 1) := by rw [Nat.pow_succ]; omega
    rw [Offsets.nodeOf_start] at hlt
    rw [Offsets.startOf_left] at ihl
    rw [Offsets.startOf_right] at ihr
    rw [e2]
    simp only [List.length_cons, List.length_append]
    generalize 2 ^ (L + 1) = p at *
    generalize startOf k (L + 1) = s at *
    omega

theorem planPre_length_le (L k : Nat) (rs : Ranges) :
    (planPre size bs ml filled root L k rs).length ≤ 3 * filled := by
  have := planPre_length (size := size) (bs := bs) (ml := ml) (filled := filled) (root := root) L k rs
  omega

/-! ## the public plans -/

/-- the iterator started on a query yields the recursive plan with ANY fuel that is at least the
length of the plan; it never reaches the `debug_assert!` / `unwrap()` panics -/
theorem new_run_eq (size bs ml : Nat) (q : Ranges) (hs : size ≤ 2 ^ 63) (hbs : bs ≤ 10)
    (fuel : Nat) (hf : (plan ⟨size, bs⟩ ml q).length ≤ fuel) :
    PrePartial.run fuel (PrePartial.new ⟨size, bs⟩ q ml) = some (plan ⟨size, bs⟩ ml q) := by
  have g := shifted_geo size bs hs hbs
  obtain ⟨hh, hroot, hlt⟩ := rootLevel_spec size bs hs
  unfold PrePartial.new
  unfold plan at hf ⊢
  simp only at hf ⊢
  cases q with
  | nil =>
    have := run_eq (ml := ml) (root := (Tree.shifted ⟨size, bs⟩).1) g fuel [] [] (by simp) (by simp)
    simpa [st] using this
  | cons a q =>
    have hv : ∀ e ∈ [((Tree.shifted ⟨size, bs⟩).1, a :: q)],
        Valid (Tree.shifted ⟨size, bs⟩).2 e := by
      intro e he
      rw [List.mem_singleton] at he
      subst he
      exact ⟨by rw [hroot]; exact hlt, by simp⟩
    have hp : planId size bs ml (Tree.shifted ⟨size, bs⟩).2 (Tree.shifted ⟨size, bs⟩).1
        ((Tree.shifted ⟨size, bs⟩).1, a :: q)
        = planPre size bs ml (Tree.shifted ⟨size, bs⟩).2 (Tree.shifted ⟨size, bs⟩).1
            (rootLevel ⟨size, bs⟩) 0 (a :: q) := by
      conv => lhs; arg 6; arg 1; rw [hroot]
      exact planId_nodeOf g hlt _
    have := run_eq (ml := ml) (root := (Tree.shifted ⟨size, bs⟩).1) g
      fuel [((Tree.shifted ⟨size, bs⟩).1, a :: q)] [] hv
      (by simpa only [List.nil_append, List.flatMap_cons, List.flatMap_nil, List.append_nil, hp]
            using hf)
    simp only [List.nil_append, List.flatMap_cons, List.flatMap_nil, List.append_nil, hp] at this
    simpa [st] using this

/-- at most three items per node of the shifted tree -/
theorem plan_length_le (t : Tree) (ml : Nat) (q : Ranges) :
    (plan t ml q).length ≤ 3 * t.shifted.2 :=
  planPre_length_le _ _ _

/-- **C15 refinement**: the explicit-stack iterator `ranges_pre_order_chunks_iter_ref` yields
exactly the recursive plan; in particular it never reaches the `debug_assert!` / `unwrap()`
panics and `PrePartial.fuelFor` calls of `next` exhaust it. -/
theorem planPre_refines (size bs ml : Nat) (q : Ranges) (hs : size ≤ 2 ^ 63) (hbs : bs ≤ 10) :
    Tree.prePartialChunks ⟨size, bs⟩ q ml = some (plan ⟨size, bs⟩ ml q) := by
  unfold Tree.prePartialChunks
  apply new_run_eq size bs ml q hs hbs
  have := plan_length_le ⟨size, bs⟩ ml q
  unfold PrePartial.fuelFor
  omega

/-- the response plan (`ResponseIter`): block size 0 tree, `min_full_level = bs`, ranges erased -/
theorem response_refines (size bs : Nat) (q : Ranges) (hs : size ≤ 2 ^ 63) :
    Tree.responseChunks ⟨size, bs⟩ q
      = some ((plan ⟨size, 0⟩ bs q).map Chunk.withoutRanges) := by
  have := planPre_refines size 0 bs q hs (by omega)
  unfold Tree.prePartialChunks at this
  unfold Tree.responseChunks Response.new
  simp only
  rw [this]
  rfl

/-! ## the root level, characterised without `next_power_of_two` -/

/-- the shifted root level `h` is the least `h` with `blocks ≤ 2^(h+1)` -/
theorem rootLevel_char (size bs : Nat) (hs : size ≤ 2 ^ 63) :
    Tree.blocks ⟨size, bs⟩ ≤ 2 ^ (rootLevel ⟨size, bs⟩ + 1) ∧
    (rootLevel ⟨size, bs⟩ = 0 ∨ 2 ^ rootLevel ⟨size, bs⟩ < Tree.blocks ⟨size, bs⟩) := by
  have hdiv := Nat.div_le_self size (2 ^ (10 + bs))
  obtain ⟨hh, hroot, _⟩ := rootLevel_spec size bs hs
  generalize rootLevel ⟨size, bs⟩ = h at *
  rw [nodeOf_zero_left] at hroot
  unfold Tree.shifted at hroot
  unfold Tree.blocks Tree.blocksRaw
  simp only [Nat.add_comm bs 10] at hroot ⊢
  generalize hB : max (size / 2 ^ (10 + bs) + if size % 2 ^ (10 + bs) ≠ 0 then 1 else 0) 1 = B
    at hroot ⊢
  have hB1 : 1 ≤ B ∧ B ≤ 2 ^ 63 + 1 := by
    rw [← hB]; split <;> omega
  obtain ⟨j, hj, e, hle, hmin⟩ := nextPow2_spec (x := divCeil2 B) (by unfold divCeil2; omega)
  rw [e] at hroot
  have hpj := two_pow_pos' j
  have hph := two_pow_pos' h
  have hjh : j = h := (Nat.pow_right_inj (a := 2) (by decide)).1 (by omega)
  subst hjh
  unfold divCeil2 at hle hmin
  rw [Nat.pow_succ]
  refine ⟨by omega, ?_⟩
  rcases hmin with h0 | hmin
  · exact Or.inl h0
  · right
    cases j with
    | zero => simp at hmin; omega
    | succ i =>
      simp only [Nat.add_sub_cancel] at hmin
      rw [Nat.pow_succ]
      omega

end Bao.PlanPre
