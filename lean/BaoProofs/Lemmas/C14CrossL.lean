import BaoProofs.Lemmas.DecodeSpec
import BaoProofs.Lemmas.EncodeSpec
import BaoProofs.Lemmas.OutboardL

/-!
# Lemmas for the cross statements of C14 (`decode_ranges` driver)

* `aux_of_run`       – `decodeRangesAux` against `Dec.runAux` (same decoder, same fuel): as long as every
                       `save` of a relevant parent node succeeds (a store invariant `P` and a node
                       predicate `A`), the driver ends with the terminal and the rest of the plain
                       run, performs exactly the leaf writes and saves exactly the relevant parents.
* `parent_mem_itemsI` – the parent items of `Spec.itemsI` are existing nodes `(k, L)` (`mid < n`).
* `SaveReady`, `save_ready` – on a store of the blob's geometry (io kinds and `EmptyOutboard`: any
                       backing; in-memory kinds: a backing of at least the outboard size) every save
                       of an existing relevant node succeeds and keeps the invariant.
-/

namespace Bao.C14CrossL
open Bao Bao.Spec

variable {H : Type}

/-- the positioned writes `(offset, data)` of an item list: its leaves, in order -/
def leafWrites : List (Item H) → List (Nat × List UInt8)
  | [] => []
  | .leaf off data :: is => (off, data) :: leafWrites is
  | .parent .. :: is => leafWrites is

/-- the parent nodes of an item list that are relevant for the outboard of `tree`, in order -/
def savedNodes (tree : Tree) : List (Item H) → List Nat
  | [] => []
  | .parent node _ _ :: is =>
    if tree.isRelevant node then node :: savedNodes tree is else savedNodes tree is
  | .leaf .. :: is => savedNodes tree is

/-! ## the driver against the plain decoder run -/

section driver
variable (hf : HashFns H) [BEq H] (fl : Flavour) (tree : Tree) (P : Store H → Prop) (A : Nat → Prop)

theorem aux_of_run
    (hP : ∀ ob node p, P ob → A node → tree.isRelevant node = true →
      ∃ ob', ob.save hf node p = .ok ob' ∧ P ob') :
    ∀ (fuel : Nat) (d : Dec H) (sink : Sink H) (ws : List (Nat × Nat)) (ss : List Nat),
      P sink.ob →
      (∀ node l r, Item.parent node l r ∈ (Dec.runAux hf fl fuel d).items → A node) →
      (decodeRangesAux hf fl tree fuel d sink ws ss).terminal = (Dec.runAux hf fl fuel d).terminal ∧
      (decodeRangesAux hf fl tree fuel d sink ws ss).rest = (Dec.runAux hf fl fuel d).rest ∧
      (decodeRangesAux hf fl tree fuel d sink ws ss).writes =
        ws.reverse ++ (leafWrites (Dec.runAux hf fl fuel d).items).map (fun w => (w.1, w.2.length)) ∧
      (decodeRangesAux hf fl tree fuel d sink ws ss).saves =
        ss.reverse ++ savedNodes tree (Dec.runAux hf fl fuel d).items ∧
      (decodeRangesAux hf fl tree fuel d sink ws ss).sink.target =
        (leafWrites (Dec.runAux hf fl fuel d).items).foldl (fun t w => writeAt t w.1 w.2)
          sink.target ∧
      P (decodeRangesAux hf fl tree fuel d sink ws ss).sink.ob := by
  intro fuel
  induction fuel with
  | zero =>
    intro d sink ws ss hp _
    simp [decodeRangesAux, Dec.runAux, leafWrites, savedNodes, hp]
  | succ fuel ih =>
    intro d sink ws ss hp hA
    cases hnext : d.next hf fl with
    | done d' => simp [decodeRangesAux, Dec.runAux, hnext, leafWrites, savedNodes, hp]
    | err e d' => simp [decodeRangesAux, Dec.runAux, hnext, leafWrites, savedNodes, hp]
    | panic => simp [decodeRangesAux, Dec.runAux, hnext, leafWrites, savedNodes, hp]
    | item i d' =>
      have hA' : ∀ node l r, Item.parent node l r ∈ (Dec.runAux hf fl fuel d').items → A node := by
        intro n l r h
        refine hA n l r ?_
        simp only [Dec.runAux, hnext]
        exact List.mem_cons_of_mem _ h
      cases i with
      | parent node l r =>
        have hAn : A node := by
          refine hA node l r ?_
          simp only [Dec.runAux, hnext]
          exact List.mem_cons_self
        by_cases hrel : tree.isRelevant node = true
        · obtain ⟨ob', hs, hp'⟩ := hP sink.ob node (l, r) hp hAn hrel
          obtain ⟨h1, h2, h3, h4, h5, h6⟩ := ih d' { sink with ob := ob' } ws (node :: ss) hp' hA'
          simp only [decodeRangesAux, Dec.runAux, hnext, hrel, if_true, hs]
          refine ⟨h1, h2, ?_, ?_, ?_, h6⟩
          · rw [h3]; simp [leafWrites]
          · rw [h4]; simp [savedNodes, hrel]
          · rw [h5]; simp [leafWrites]
        · have hrel' : tree.isRelevant node = false := by simpa using hrel
          obtain ⟨h1, h2, h3, h4, h5, h6⟩ := ih d' sink ws ss hp hA'
          simp only [decodeRangesAux, Dec.runAux, hnext, hrel', Bool.false_eq_true, if_false]
          refine ⟨h1, h2, ?_, ?_, ?_, h6⟩
          · rw [h3]; simp [leafWrites]
          · rw [h4]; simp [savedNodes, hrel']
          · rw [h5]; simp [leafWrites]
      | leaf off data =>
        obtain ⟨h1, h2, h3, h4, h5, h6⟩ :=
          ih d' { sink with target := writeAt sink.target off data } ((off, data.length) :: ws) ss
            hp hA'
        simp only [decodeRangesAux, Dec.runAux, hnext]
        refine ⟨h1, h2, ?_, ?_, ?_, h6⟩
        · rw [h3]; simp [leafWrites]
        · rw [h4]; simp [savedNodes]
        · rw [h5]; simp [leafWrites]

/-- `decode_ranges` against `decodeAll` with the root and the tree of the outboard -/
theorem decodeRanges_of_decodeAll
    (hP : ∀ ob node p, P ob → A node → tree.isRelevant node = true →
      ∃ ob', ob.save hf node p = .ok ob' ∧ P ob')
    (s : List UInt8) (q : Ranges) (sink : Sink H) (htree : sink.ob.tree = tree) (hp : P sink.ob)
    (hA : ∀ node l r,
      Item.parent node l r ∈ (decodeAll hf fl sink.ob.root tree q s).items → A node) :
    (decodeRanges hf fl s q sink).terminal = (decodeAll hf fl sink.ob.root tree q s).terminal ∧
    (decodeRanges hf fl s q sink).rest = (decodeAll hf fl sink.ob.root tree q s).rest ∧
    (decodeRanges hf fl s q sink).writes =
      (leafWrites (decodeAll hf fl sink.ob.root tree q s).items).map (fun w => (w.1, w.2.length)) ∧
    (decodeRanges hf fl s q sink).saves =
      savedNodes tree (decodeAll hf fl sink.ob.root tree q s).items ∧
    (decodeRanges hf fl s q sink).sink.target =
      (leafWrites (decodeAll hf fl sink.ob.root tree q s).items).foldl
        (fun t w => writeAt t w.1 w.2) sink.target ∧
    P (decodeRanges hf fl s q sink).sink.ob := by
  subst htree
  have := aux_of_run hf fl sink.ob.tree P A hP
    (PrePartial.fuelFor (Dec.new sink.ob.root sink.ob.tree q s).iter.tree + 1)
    (Dec.new sink.ob.root sink.ob.tree q s) sink [] [] hp hA
  simpa [decodeRanges, decodeAll, Dec.run] using this

end driver

/-! ## the parent items of the specification stream are existing nodes -/

/-- node `x` is an existing node `(k, L)` of the tree of a blob of `size` bytes -/
def Existing (size x : Nat) : Prop := ∃ k L, x = nodeOf k L ∧ L < 64 ∧ midOf k L < nChunks size

theorem parent_mem_itemsI (hf : HashFns H) (d : List UInt8) (n bs : Nat) (sel : Nat → Bool) :
    ∀ (h j x : Nat) (b : List UInt8), SItem.parent x b ∈ itemsI hf d n bs sel h j →
      ∃ k L, x = nodeOf k L ∧ L < h ∧ midOf k L < n := by
  intro h
  induction h with
  | zero =>
    intro j x b hm
    simp only [itemsI] at hm
    split at hm <;> simp at hm
  | succ h ih =>
    intro j x b hm
    simp only [itemsI] at hm
    split at hm
    · simp at hm
    · split at hm
      · obtain ⟨k, L, e, hl, hmid⟩ := ih _ _ _ hm
        exact ⟨k, L, e, by omega, hmid⟩
      · rename_i hmid
        split at hm
        · simp at hm
        · simp only [List.mem_cons, List.mem_append] at hm
          rcases hm with heq | hm | hm
          · injection heq with hx _
            exact ⟨j, h, hx, by omega, by unfold midOf; omega⟩
          · obtain ⟨k, L, e, hl, hmid⟩ := ih _ _ _ hm
            exact ⟨k, L, e, by omega, hmid⟩
          · obtain ⟨k, L, e, hl, hmid⟩ := ih _ _ _ hm
            exact ⟨k, L, e, by omega, hmid⟩

/-- every parent item of `Spec.items` is an existing node of the blob's tree -/
theorem parent_mem_items (hf : HashFns H) (d : List UInt8) (bs : Nat) (q : Ranges)
    {x : Nat} {b : List UInt8}
    (hm : SItem.parent x b ∈ Spec.items hf d bs q) : Existing d.length x := by
  obtain ⟨k, L, e, hl, hmid⟩ := parent_mem_itemsI hf d _ bs _ _ _ _ _ hm
  have := EncodeSpec.log2ceil_le 64 (nChunks d.length)
  exact ⟨k, L, e, by omega, hmid⟩

/-! ## stores on which the saves of a decode succeed -/

/-- a store with the given root and the geometry of the blob on which every save of an existing
relevant node succeeds: an io kind or `EmptyOutboard` (any backing), or an in-memory kind whose
backing has at least the outboard size -/
def SaveReady (root : H) (size bs : Nat) (ob : Store H) : Prop :=
  ob.root = root ∧ ob.tree = ⟨size, bs⟩ ∧
  (ob.kind = .preIo ∨ ob.kind = .postIo ∨ ob.kind = .empty ∨
    ((ob.kind = .preMem ∨ ob.kind = .postMem) ∧ Tree.outboardSize ⟨size, bs⟩ ≤ ob.data.length))

/-- an existing node that is relevant for the outboard is persisted -/
theorem persisted_of_relevant {size bs x : Nat} (hs : size ≤ 2 ^ 63) (hx : Existing size x)
    (hrel : Tree.isRelevant ⟨size, bs⟩ x = true) : x ∈ persistedPre size bs := by
  obtain ⟨k, L, rfl, hL, hmid⟩ := hx
  refine EncodeSpec.mem_persistedPre size bs k L hs ?_ hmid
  unfold Tree.isRelevant at hrel
  simp only [C18.level_nodeOf (show L ≤ 64 by omega)] at hrel
  by_cases h : L < bs
  · simp [h] at hrel
  · omega

theorem save_ready (hf : HashFns H) (hlen : ∀ h, (hf.toBytes h).length = 32) {root : H}
    {size bs : Nat} (hs : size ≤ 2 ^ 63) (hbs : bs ≤ 10) (ob : Store H) (node : Nat) (p : H × H)
    (hr : SaveReady root size bs ob) (hx : Existing size node)
    (hrel : Tree.isRelevant ⟨size, bs⟩ node = true) :
    ∃ ob', ob.save hf node p = .ok ob' ∧ SaveReady root size bs ob' := by
  obtain ⟨hroot, htree, hk⟩ := hr
  have hpre := persisted_of_relevant hs hx hrel
  have hpost := (OutboardL.persistedPost_perm size bs hs).mem_iff.mpr hpre
  have hb : (hf.toBytes p.1 ++ hf.toBytes p.2).length = 64 := by simp [hlen]
  rcases hk with hk | hk | hk | ⟨hk, hl⟩
  · obtain ⟨h1, -⟩ := OutboardL.pre_offset_mem hs hbs hpre
    have hsl : ob.slot node = some (OutboardL.slPre size bs node) := by
      simp only [Store.slot, hk, htree, h1]
    exact ⟨_, OutboardL.save_io hf (.inl hk) hsl p, hroot, htree, .inl hk⟩
  · obtain ⟨h1, -⟩ := OutboardL.post_offset_mem hs hbs hpost
    have hsl : ob.slot node = some (OutboardL.slPost size bs node) := by
      simp only [Store.slot, hk, htree, h1]
    exact ⟨_, OutboardL.save_io hf (.inr hk) hsl p, hroot, htree, .inr (.inl hk)⟩
  · exact ⟨ob, OutboardL.save_empty hf hk (by rw [htree]; exact hrel) p, hroot, htree,
      .inr (.inr (.inl hk))⟩
  · have hos : Tree.outboardSize ⟨size, bs⟩ = (Tree.blocks ⟨size, bs⟩ - 1) * 64 := rfl
    rcases hk with hk | hk
    · obtain ⟨h1, h2⟩ := OutboardL.pre_offset_mem hs hbs hpre
      have hsl : ob.slot node = some (OutboardL.slPre size bs node) := by
        simp only [Store.slot, hk, htree, h1]
      have hfit : OutboardL.slPre size bs node * 64 + 64 ≤ ob.data.length := by omega
      refine ⟨_, OutboardL.save_mem hf (.inl hk) hsl hfit p, hroot, htree,
        .inr (.inr (.inr ⟨.inl hk, ?_⟩))⟩
      simp only [WriteAtL.length_writeAt, hb]
      omega
    · obtain ⟨h1, h2⟩ := OutboardL.post_offset_mem hs hbs hpost
      have hsl : ob.slot node = some (OutboardL.slPost size bs node) := by
        simp only [Store.slot, hk, htree, h1]
      have hfit : OutboardL.slPost size bs node * 64 + 64 ≤ ob.data.length := by omega
      refine ⟨_, OutboardL.save_mem hf (.inr hk) hsl hfit p, hroot, htree,
        .inr (.inr (.inr ⟨.inr hk, ?_⟩))⟩
      simp only [WriteAtL.length_writeAt, hb]
      omega

/-! ## `decode_ranges` on a stream that `decodeAll` decodes to specification items -/

theorem existing_of_mem_toItem {hf : HashFns H} {d : List UInt8} {bs : Nat} {q : Ranges}
    {node : Nat} {l r : H}
    (h : Item.parent node l r ∈ (Spec.items hf d bs q).map (DecodeSpec.toItem hf)) :
    Existing d.length node := by
  obtain ⟨it, hit, he⟩ := List.mem_map.mp h
  cases it with
  | leaf s b => simp [DecodeSpec.toItem] at he
  | parent n b =>
    simp only [DecodeSpec.toItem, Item.parent.injEq] at he
    obtain ⟨rfl, -, -⟩ := he
    exact parent_mem_items hf d bs q hit

/-- if `decodeAll` (root and geometry of the blob) turns the stream `s` under the query `q` into
the specification items of some query `qi`, terminal `t`, rest `x`, then `decode_ranges` on a
`SaveReady` sink ends with the same terminal and rest, writes exactly the leaves, saves exactly the
relevant parents, and leaves a `SaveReady` outboard -/
theorem decodeRanges_items (hf : HashFns H) [BEq H] (hlen : ∀ h, (hf.toBytes h).length = 32)
    (fl : Flavour) (d : List UInt8) (bs : Nat) (hd : d.length ≤ 2 ^ 63) (hbs : bs ≤ 10)
    (q qi : Ranges) (s x : List UInt8) (t : DecEnd) (sink : Sink H)
    (hr : SaveReady (Spec.root hf d) d.length bs sink.ob)
    (hdec : decodeAll hf fl (Spec.root hf d) ⟨d.length, bs⟩ q s
      = ⟨(Spec.items hf d bs qi).map (DecodeSpec.toItem hf), t, x⟩) :
    (decodeRanges hf fl s q sink).terminal = t ∧
    (decodeRanges hf fl s q sink).rest = x ∧
    (decodeRanges hf fl s q sink).writes =
      (leafWrites ((Spec.items hf d bs qi).map (DecodeSpec.toItem hf))).map
        (fun w => (w.1, w.2.length)) ∧
    (decodeRanges hf fl s q sink).saves =
      savedNodes ⟨d.length, bs⟩ ((Spec.items hf d bs qi).map (DecodeSpec.toItem hf)) ∧
    (decodeRanges hf fl s q sink).sink.target =
      (leafWrites ((Spec.items hf d bs qi).map (DecodeSpec.toItem hf))).foldl
        (fun t w => writeAt t w.1 w.2) sink.target ∧
    SaveReady (Spec.root hf d) d.length bs (decodeRanges hf fl s q sink).sink.ob := by
  have hroot := hr.1
  have htree := hr.2.1
  have h := decodeRanges_of_decodeAll hf fl ⟨d.length, bs⟩ (SaveReady (Spec.root hf d) d.length bs)
    (Existing d.length)
    (fun ob node p hp hx hrel => save_ready hf hlen hd hbs ob node p hp hx hrel)
    s q sink htree hr (by
      intro node l r hm
      rw [hroot, hdec] at hm
      exact existing_of_mem_toItem hm)
  rw [hroot, hdec] at h
  exact h

end Bao.C14CrossL
